(* Proofs about the generic part of Res/ContainerStore.v (BaseResource: queues, scans, cancel,
   event processing), for every kind of resource whose _do_put/_do_get satisfy a few laws, and for
   every admissible action list. *)
From Coq Require Import ZArith QArith List Bool Arith Lia Sorted Permutation.
From ONL Require Import Res.Heap Res.ContainerStore.
Import ListNotations.
Local Open Scope nat_scope.

Definition issome {X : Type} (o : option X) : bool := match o with Some _ => true | None => false end.

(* ---------------------------------------------------------------------------------------------- *)
Section ScanLemmas.
  Context {C P V : Type}.
  Variable doit : C -> P -> dores C V.

  (* a request that is not triggered leaves the content alone *)
  Definition nonesame : Prop := forall c p, r_val (doit c p) = None -> r_c (doit c p) = c.
  (* the method returns True exactly when it triggered the event (Container, Store, PriorityStore; all puts) *)
  Definition blocking : Prop := forall c p, r_proceed (doit c p) = issome (r_val (doit c p)).
  (* the method always returns True (FilterStore._do_get) *)
  Definition nonblocking : Prop := forall c p, r_proceed (doit c p) = true.
  (* serving somebody else never makes an unsatisfiable request satisfiable *)
  Definition antimono : Prop :=
    forall c p p', r_val (doit c p) = None -> r_val (doit (r_c (doit c p')) p) = None.

  Lemma scan_perm : forall q c c' rem gs,
    scan doit c q = (c', rem, gs) -> Permutation q (map fst gs ++ rem).
  Proof.
    induction q as [|r t IH]; intros c c' rem gs H; cbn [scan] in H.
    - injection H as <- <- <-. constructor.
    - destruct (r_val (doit c (snd r))) as [v|] eqn:Ev; destruct (r_proceed (doit c (snd r))) eqn:Ep.
      + destruct (scan doit (r_c (doit c (snd r))) t) as [[c1 rem1] gs1] eqn:Es.
        injection H as <- <- <-. cbn [map fst app]. constructor. eapply IH; eauto.
      + injection H as <- <- <-. cbn. apply Permutation_refl.
      + destruct (scan doit (r_c (doit c (snd r))) t) as [[c1 rem1] gs1] eqn:Es.
        injection H as <- <- <-. apply Permutation_cons_app. eapply IH; eauto.
      + injection H as <- <- <-. cbn. apply Permutation_refl.
  Qed.

  (* what is left is a subsequence of the queue; what is granted too *)
  Lemma scan_sorted : forall q c c' rem gs,
    scan doit c q = (c', rem, gs) ->
    StronglySorted lt (map fst q) ->
    StronglySorted lt (map fst rem) /\ StronglySorted lt (map fst (map fst gs)).
  Proof.
    induction q as [|r t IH]; intros c c' rem gs H Hs; cbn [scan] in H.
    - injection H as <- <- <-. split; constructor.
    - cbn [map] in Hs. apply StronglySorted_inv in Hs as [Hs Hr].
      assert (Hin : forall c0 c1 rem1 gs1, scan doit c0 t = (c1, rem1, gs1) ->
                Forall (lt (fst r)) (map fst rem1) /\ Forall (lt (fst r)) (map fst (map fst gs1))).
      { intros c0 c1 rem1 gs1 Es. apply scan_perm in Es.
        assert (Hp : Permutation (map fst t) (map fst (map fst gs1) ++ map fst rem1))
          by (rewrite <- map_app; apply Permutation_map; exact Es).
        rewrite Forall_forall in Hr.
        split; apply Forall_forall; intros x Hx; apply Hr; eapply Permutation_in;
          [apply Permutation_sym; exact Hp| |apply Permutation_sym; exact Hp|]; apply in_or_app; auto. }
      destruct (r_val (doit c (snd r))) as [v|] eqn:Ev; destruct (r_proceed (doit c (snd r))) eqn:Ep.
      + destruct (scan doit (r_c (doit c (snd r))) t) as [[c1 rem1] gs1] eqn:Es.
        injection H as <- <- <-. destruct (IH _ _ _ _ Es Hs) as [H1 H2]. destruct (Hin _ _ _ _ Es) as [H3 H4].
        split; [exact H1|]. cbn [map fst]. constructor; auto.
      + injection H as <- <- <-. split; [exact Hs|]. cbn. constructor; constructor.
      + destruct (scan doit (r_c (doit c (snd r))) t) as [[c1 rem1] gs1] eqn:Es.
        injection H as <- <- <-. destruct (IH _ _ _ _ Es Hs) as [H1 H2]. destruct (Hin _ _ _ _ Es) as [H3 H4].
        split; [|exact H2]. cbn [map]. constructor; auto.
      + injection H as <- <- <-. split; [|constructor]. cbn [map]. constructor; auto.
  Qed.

  Lemma scan_nogrant : nonesame -> forall q c c' rem,
    scan doit c q = (c', rem, []) -> c' = c /\ rem = q.
  Proof.
    intros Hn. induction q as [|r t IH]; intros c c' rem H; cbn [scan] in H.
    - injection H as <- <-. auto.
    - destruct (r_val (doit c (snd r))) as [v|] eqn:Ev; destruct (r_proceed (doit c (snd r))) eqn:Ep.
      + destruct (scan doit (r_c (doit c (snd r))) t) as [[c1 rem1] gs1]. discriminate.
      + discriminate.
      + destruct (scan doit (r_c (doit c (snd r))) t) as [[c1 rem1] gs1] eqn:Es.
        injection H as <- <- ->. rewrite (Hn _ _ Ev) in Es. destruct (IH _ _ _ Es) as [-> ->]. auto.
      + injection H as <- <-. rewrite (Hn _ _ Ev). auto.
  Qed.

  (* blocking scans grant a prefix of the queue, in order, and stop in front of a request that
     cannot be granted *)
  Lemma scan_blocking : nonesame -> blocking -> forall q c c' rem gs,
    scan doit c q = (c', rem, gs) ->
    q = map fst gs ++ rem /\
    match rem with [] => True | r :: _ => r_val (doit c' (snd r)) = None end.
  Proof.
    intros Hn Hb. induction q as [|r t IH]; intros c c' rem gs H; cbn [scan] in H.
    - injection H as <- <- <-. auto.
    - rewrite (Hb c (snd r)) in H.
      destruct (r_val (doit c (snd r))) as [v|] eqn:Ev; cbn [issome] in H.
      + destruct (scan doit (r_c (doit c (snd r))) t) as [[c1 rem1] gs1] eqn:Es.
        injection H as <- <- <-. destruct (IH _ _ _ _ Es) as [-> H2]. auto.
      + injection H as <- <- <-. rewrite (Hn _ _ Ev). auto.
  Qed.

  Lemma scan_keeps_none : nonesame -> antimono -> forall q c c' rem gs p,
    scan doit c q = (c', rem, gs) -> r_val (doit c p) = None -> r_val (doit c' p) = None.
  Proof.
    intros Hn Ha. induction q as [|r t IH]; intros c c' rem gs p H Hp; cbn [scan] in H.
    - injection H as <- <- <-. auto.
    - assert (Hp' : r_val (doit (r_c (doit c (snd r))) p) = None) by (apply Ha; auto).
      destruct (r_val (doit c (snd r))) as [v|] eqn:Ev; destruct (r_proceed (doit c (snd r))) eqn:Ep.
      + destruct (scan doit (r_c (doit c (snd r))) t) as [[c1 rem1] gs1] eqn:Es.
        injection H as <- <- <-. eapply IH; eauto.
      + injection H as <- <- <-. auto.
      + destruct (scan doit (r_c (doit c (snd r))) t) as [[c1 rem1] gs1] eqn:Es.
        injection H as <- <- <-. eapply IH; eauto.
      + injection H as <- <- <-. auto.
  Qed.

  (* a scan that never breaks leaves only requests that cannot be granted *)
  Lemma scan_nonblocking : nonesame -> nonblocking -> antimono -> forall q c c' rem gs,
    scan doit c q = (c', rem, gs) -> forall r, In r rem -> r_val (doit c' (snd r)) = None.
  Proof.
    intros Hn Hb Ha. induction q as [|r t IH]; intros c c' rem gs H x Hx; cbn [scan] in H.
    - injection H as <- <- <-. destruct Hx.
    - rewrite (Hb c (snd r)) in H.
      destruct (r_val (doit c (snd r))) as [v|] eqn:Ev.
      + destruct (scan doit (r_c (doit c (snd r))) t) as [[c1 rem1] gs1] eqn:Es.
        injection H as <- <- <-. eapply IH; eauto.
      + destruct (scan doit (r_c (doit c (snd r))) t) as [[c1 rem1] gs1] eqn:Es.
        injection H as <- <- <-. destruct Hx as [<-|Hx]; [|eapply IH; eauto].
        rewrite (Hn _ _ Ev) in Es. eapply scan_keeps_none; eauto.
  Qed.

  (* any property of the content that every call preserves is preserved by the scan *)
  Lemma scan_content : forall (Q : C -> Prop), (forall c p, Q c -> Q (r_c (doit c p))) ->
    forall q c c' rem gs, scan doit c q = (c', rem, gs) -> Q c -> Q c'.
  Proof.
    intros Q HQ. induction q as [|r t IH]; intros c c' rem gs H Hc; cbn [scan] in H.
    - injection H as <- <- <-. auto.
    - specialize (HQ c (snd r) Hc).
      destruct (r_val (doit c (snd r))) as [v|]; destruct (r_proceed (doit c (snd r))).
      + destruct (scan doit (r_c (doit c (snd r))) t) as [[c1 rem1] gs1] eqn:Es.
        injection H as <- <- <-. eapply IH; eauto.
      + injection H as <- <- <-. auto.
      + destruct (scan doit (r_c (doit c (snd r))) t) as [[c1 rem1] gs1] eqn:Es.
        injection H as <- <- <-. eapply IH; eauto.
      + injection H as <- <- <-. auto.
  Qed.

  (* the grants of one scan, as a chain of successful calls from c to c' *)
  Inductive chain : C -> list (nat * P * V) -> C -> Prop :=
  | chain_nil c : chain c [] c
  | chain_cons c i p v l c' :
      r_val (doit c p) = Some v -> chain (r_c (doit c p)) l c' -> chain c ((i, p, v) :: l) c'.

  Lemma scan_chain : nonesame -> forall q c c' rem gs,
    scan doit c q = (c', rem, gs) -> chain c gs c'.
  Proof.
    intros Hn. induction q as [|r t IH]; intros c c' rem gs H; cbn [scan] in H.
    - injection H as <- <- <-. constructor.
    - destruct r as [i p]. cbn [snd] in *.
      destruct (r_val (doit c p)) as [v|] eqn:Ev; destruct (r_proceed (doit c p)) eqn:Ep.
      + destruct (scan doit (r_c (doit c p)) t) as [[c1 rem1] gs1] eqn:Es.
        injection H as <- <- <-. constructor; eauto.
      + injection H as <- <- <-. constructor; auto. constructor.
      + destruct (scan doit (r_c (doit c p)) t) as [[c1 rem1] gs1] eqn:Es.
        injection H as <- <- <-. rewrite (Hn _ _ Ev) in Es. eauto.
      + injection H as <- <- <-. rewrite (Hn _ _ Ev). constructor.
  Qed.

  (* refinement for scans that do not break: every request left behind saw, when the scan visited it,
     a content from which the final one is reached by serving later requests only *)
  Lemma scan_nonblocking_older : nonesame -> nonblocking -> forall q c c' rem gs,
    scan doit c q = (c', rem, gs) -> StronglySorted lt (map fst q) ->
    forall r, In r rem ->
    exists cr g1 g2, gs = g1 ++ g2 /\ chain c g1 cr /\ chain cr g2 c' /\ r_val (doit cr (snd r)) = None /\
                     Forall (fun g => fst (fst g) < fst r) g1 /\ Forall (fun g => fst r < fst (fst g)) g2.
  Proof.
    intros Hn Hb. induction q as [|r t IH]; intros c c' rem gs H Hs x Hx; cbn [scan] in H.
    - injection H as <- <- <-. destruct Hx.
    - rewrite (Hb c (snd r)) in H. cbn [map] in Hs. apply StronglySorted_inv in Hs as [Hs Hr].
      destruct (r_val (doit c (snd r))) as [v|] eqn:Ev.
      + destruct (scan doit (r_c (doit c (snd r))) t) as [[c1 rem1] gs1] eqn:Es.
        injection H as <- <- <-.
        destruct (IH _ _ _ _ Es Hs x Hx) as (cr & g1 & g2 & -> & Hc1 & Hc2 & Hv & F1 & F2).
        exists cr, ((r, v) :: g1), g2. repeat split; auto.
        * destruct r as [i p]. constructor; auto.
        * constructor; auto. cbn [fst].
          assert (Hxin : In (fst x) (map fst t)).
          { apply scan_perm in Es. apply in_map.
            eapply Permutation_in; [apply Permutation_sym; exact Es|]. apply in_or_app; auto. }
          rewrite Forall_forall in Hr. apply Hr; auto.
      + destruct (scan doit (r_c (doit c (snd r))) t) as [[c1 rem1] gs1] eqn:Es.
        injection H as <- <- <-. rewrite (Hn _ _ Ev) in Es. destruct Hx as [<-|Hx].
        * exists c, [], gs1.
          split; [reflexivity|]. split; [constructor|]. split; [eapply scan_chain; eauto|].
          split; [exact Ev|]. split; [constructor|].
          apply Forall_forall. intros g Hg.
          assert (Hgin : In (fst (fst g)) (map fst t)).
          { pose proof (scan_perm _ _ _ _ _ Es) as Hp. apply in_map.
            eapply Permutation_in; [apply Permutation_sym; exact Hp|]. apply in_or_app; left.
            apply in_map; auto. }
          rewrite Forall_forall in Hr. apply Hr; auto.
        * eapply IH; eauto.
  Qed.
End ScanLemmas.

(* ---------------------------------------------------------------------------------------------- *)
(* lists of increasing ids *)
Lemma nodup_app_r (l1 l2 : list nat) : NoDup (l1 ++ l2) -> NoDup l2.
Proof. induction l1 as [|a t IH]; cbn [app]; intros H; [exact H|]. inversion H; auto. Qed.

Lemma nodup_app_disj (l1 l2 : list nat) x : NoDup (l1 ++ l2) -> In x l1 -> In x l2 -> False.
Proof.
  induction l1 as [|a t IH]; cbn [app]; intros H H1 H2; [destruct H1|].
  inversion H as [|? ? Hna Hnt]; subst. destruct H1 as [->|H1]; [apply Hna, in_or_app; auto|auto].
Qed.

Lemma ss_app_inv (l1 : list nat) x l2 :
  StronglySorted lt (l1 ++ x :: l2) -> StronglySorted lt (l1 ++ l2).
Proof.
  induction l1 as [|a t IH]; cbn [app]; intros H.
  - apply StronglySorted_inv in H as [H _]. exact H.
  - apply StronglySorted_inv in H as [H Ha]. constructor; [auto|].
    rewrite Forall_forall in *. intros y Hy. apply Ha.
    apply in_app_or in Hy as [Hy|Hy]; apply in_or_app; [left|right; right]; auto.
Qed.

Lemma ss_snoc (l : list nat) n :
  StronglySorted lt l -> Forall (fun i => i < n) l -> StronglySorted lt (l ++ [n]).
Proof.
  induction l as [|a t IH]; cbn [app]; intros H F.
  - constructor; constructor.
  - apply StronglySorted_inv in H as [H Ha]. inversion F as [|? ? Fa Ft]; subst.
    constructor; [auto|]. apply Forall_app; split; [exact Ha|constructor; [exact Fa|constructor]].
Qed.

Lemma ss_app_l (l1 l2 : list nat) : StronglySorted lt (l1 ++ l2) -> StronglySorted lt l1.
Proof.
  induction l1 as [|a t IH]; cbn [app]; intros H; [constructor|].
  apply StronglySorted_inv in H as [H Ha]. constructor; [auto|].
  apply Forall_app in Ha as [Ha _]. exact Ha.
Qed.

Lemma ss_app_r (l1 l2 : list nat) : StronglySorted lt (l1 ++ l2) -> StronglySorted lt l2.
Proof.
  induction l1 as [|a t IH]; cbn [app]; intros H; [exact H|].
  apply StronglySorted_inv in H as [H _]. auto.
Qed.

Lemma ss_nodup (l : list nat) : StronglySorted lt l -> NoDup l.
Proof.
  induction l as [|a t IH]; intros H; [constructor|].
  apply StronglySorted_inv in H as [H Ha]. constructor; [|auto].
  intros Hin. rewrite Forall_forall in Ha. specialize (Ha a Hin). lia.
Qed.

Section QueueOps.
  Context {P : Type}.

  Lemma mem_id_in i (q : list (nat * P)) : mem_id i q = true <-> In i (ids q).
  Proof.
    unfold ids. induction q as [|r t IH]; cbn [mem_id map In]; [split; [discriminate|tauto]|].
    rewrite orb_true_iff, Nat.eqb_eq, IH. tauto.
  Qed.

  Lemma remove_id_split i (q : list (nat * P)) :
    mem_id i q = true ->
    exists a r b, q = a ++ r :: b /\ fst r = i /\ remove_id i q = a ++ b /\ ~ In i (ids a).
  Proof.
    induction q as [|r t IH]; cbn [mem_id remove_id]; [discriminate|].
    destruct (Nat.eqb (fst r) i) eqn:E.
    - intros _. apply Nat.eqb_eq in E. exists [], r, t. cbn. auto.
    - cbn [orb]. intros H. destruct (IH H) as (a & x & b & -> & Hx & -> & Hn).
      exists (r :: a), x, b. repeat split; auto. cbn [ids map In]. apply Nat.eqb_neq in E.
      intros [Hr|Hr]; [auto|apply Hn, Hr].
  Qed.

  Lemma find_id_in i (q : list (nat * P)) k : find_id i q = Some k -> In (i, k) q.
  Proof.
    induction q as [|r t IH]; cbn [find_id]; [discriminate|].
    destruct (Nat.eqb (fst r) i) eqn:E.
    - apply Nat.eqb_eq in E. intros [= <-]. left. destruct r; cbn in *; subst; auto.
    - intros H. right. auto.
  Qed.

  (* removing the first entry with id i does not remove an entry that differs from it *)
  Lemma remove_id_keeps i (q : list (nat * P)) k x :
    find_id i q = Some k -> In x q -> x <> (i, k) -> In x (remove_id i q).
  Proof.
    induction q as [|r t IH]; cbn [find_id remove_id]; [discriminate|].
    destruct (Nat.eqb (fst r) i) eqn:E.
    - apply Nat.eqb_eq in E. intros [= <-] [<-|Hx] Hne; [|exact Hx].
      exfalso. apply Hne. destruct r; cbn in *; subst; auto.
    - intros H [<-|Hx] Hne; [left; auto|right; auto].
  Qed.
End QueueOps.

(* ---------------------------------------------------------------------------------------------- *)
Section Generic.
  Variable K : kind.

  (* what the theorems need to know about _do_put/_do_get.  [gblock] = true: a get that is not granted
     stops the scan (Container, Store, PriorityStore); false: FilterStore *)
  Record laws (gblock : bool) : Prop := {
    l_pns : nonesame (k_do_put K);
    l_pbl : blocking (k_do_put K);
    l_gns : nonesame (k_do_get K);
    l_gbl : if gblock then blocking (k_do_get K)
            else nonblocking (k_do_get K) /\ antimono (k_do_get K)
  }.

  Definition gput (g : nat * KP K * unit) : grant K := GPut (fst (fst g)) (snd (fst g)).
  Definition gget (g : nat * KG K * KV K) : grant K := GGet (fst (fst g)) (snd (fst g)) (snd g).

  Lemma trigger_put_eq s c rem gs :
    scan (k_do_put K) (content s) (putq s) = (c, rem, gs) ->
    trigger_put s = mkst c rem (getq s) (trig s ++ map (fun g => (fst (fst g), EvPut)) gs)
                         (log s ++ map gput gs) (next_id s) (now s).
  Proof. intros H. unfold trigger_put. rewrite H. reflexivity. Qed.

  Lemma trigger_get_eq s c rem gs :
    scan (k_do_get K) (content s) (getq s) = (c, rem, gs) ->
    trigger_get s = mkst c (putq s) rem (trig s ++ map (fun g => (fst (fst g), EvGet)) gs)
                         (log s ++ map gget gs) (next_id s) (now s).
  Proof. intros H. unfold trigger_get. rewrite H. reflexivity. Qed.

  Lemma gid_gput gs : map grant_id (map gput gs) = map fst (map fst gs).
  Proof. rewrite !map_map. apply map_ext. intros [[i p] v]. reflexivity. Qed.
  Lemma gid_gget gs : map grant_id (map gget gs) = map fst (map fst gs).
  Proof. rewrite !map_map. apply map_ext. intros [[i p] v]. reflexivity. Qed.

  (* induction over executions *)
  Lemma run_ind (fixed : bool) (Pr : state K -> Prop) :
    (forall s a s', Pr s -> step fixed s a = Some s' -> Pr s') ->
    forall acts s0 s, Pr s0 -> run fixed s0 acts = Some s -> Pr s.
  Proof.
    intros Hstep. induction acts as [|a t IH]; intros s0 s H0 H; cbn [run] in H.
    - injection H as <-. exact H0.
    - destruct (step fixed s0 a) as [s1|] eqn:E; [|discriminate].
      apply (IH s1 s); [eapply Hstep; eauto|exact H].
  Qed.

  Lemma run_app fixed (acts1 : list (action K)) : forall acts2 s0 s,
    run fixed s0 (acts1 ++ acts2) = Some s ->
    exists s1, run fixed s0 acts1 = Some s1 /\ run fixed s1 acts2 = Some s.
  Proof.
    induction acts1 as [|a t IH]; intros acts2 s0 s H; cbn [app run] in *.
    - eauto.
    - destruct (step fixed s0 a) as [s1|]; [|discriminate]. eauto.
  Qed.

  (* ---- well-formedness: queues in arrival order, every id used once -------------------------- *)
  Definition allids (s : state K) : list nat := ids (putq s) ++ ids (getq s) ++ map grant_id (log s).

  Record WF (s : state K) : Prop := {
    wf_pq : StronglySorted lt (ids (putq s));
    wf_gq : StronglySorted lt (ids (getq s));
    wf_lt : Forall (fun i => i < next_id s) (allids s);
    wf_nd : NoDup (allids s)
  }.

  Lemma WF_init c0 t0 : WF (init c0 t0).
  Proof. split; cbn; constructor. Qed.

  Lemma allids_trigger_put s : Permutation (allids s) (allids (trigger_put s)).
  Proof.
    destruct (scan (k_do_put K) (content s) (putq s)) as [[c rem] gs] eqn:Es.
    rewrite (trigger_put_eq _ _ _ _ Es). unfold allids; cbn [putq getq log].
    rewrite map_app, gid_gput.
    pose proof (scan_perm _ _ _ _ _ _ Es) as Hp.
    apply (Permutation_map fst) in Hp. rewrite map_app in Hp. unfold ids. rewrite Hp.
    rewrite <- !app_assoc. etransitivity; [apply Permutation_app_comm|]. rewrite <- !app_assoc. reflexivity.
  Qed.

  Lemma allids_trigger_get s : Permutation (allids s) (allids (trigger_get s)).
  Proof.
    destruct (scan (k_do_get K) (content s) (getq s)) as [[c rem] gs] eqn:Es.
    rewrite (trigger_get_eq _ _ _ _ Es). unfold allids; cbn [putq getq log].
    rewrite map_app, gid_gget.
    pose proof (scan_perm _ _ _ _ _ _ Es) as Hp.
    apply (Permutation_map fst) in Hp. rewrite map_app in Hp. unfold ids. rewrite Hp.
    apply Permutation_app_head. rewrite <- !app_assoc.
    etransitivity; [apply Permutation_app_comm|]. rewrite <- !app_assoc. reflexivity.
  Qed.

  Lemma WF_trigger_put s : WF s -> WF (trigger_put s).
  Proof.
    intros [Hp Hg Hl Hn].
    pose proof (allids_trigger_put s) as Hperm.
    destruct (scan (k_do_put K) (content s) (putq s)) as [[c rem] gs] eqn:Es.
    rewrite (trigger_put_eq _ _ _ _ Es) in *.
    split; cbn [putq getq next_id].
    - apply (scan_sorted _ _ _ _ _ _ Es Hp).
    - exact Hg.
    - eapply Permutation_Forall; eauto.
    - eapply Permutation_NoDup; eauto.
  Qed.

  Lemma WF_trigger_get s : WF s -> WF (trigger_get s).
  Proof.
    intros [Hp Hg Hl Hn].
    pose proof (allids_trigger_get s) as Hperm.
    destruct (scan (k_do_get K) (content s) (getq s)) as [[c rem] gs] eqn:Es.
    rewrite (trigger_get_eq _ _ _ _ Es) in *.
    split; cbn [putq getq next_id].
    - exact Hp.
    - apply (scan_sorted _ _ _ _ _ _ Es Hg).
    - eapply Permutation_Forall; eauto.
    - eapply Permutation_NoDup; eauto.
  Qed.

  Lemma WF_step fixed s a s' : WF s -> step fixed s a = Some s' -> WF s'.
  Proof.
    intros W H. destruct a as [p|g|i|i|t]; cbn [step] in H.
    - destruct (k_pvalid K p); [|injection H as <-; exact W]. injection H as <-.
      apply WF_trigger_put. destruct W as [Hp Hg Hl Hn]. unfold allids in *.
      split; unfold allids; cbn [putq getq log next_id].
      + unfold ids. rewrite map_app. cbn [map fst]. apply ss_snoc; [exact Hp|].
        apply Forall_app in Hl as [Hl _]. exact Hl.
      + exact Hg.
      + unfold ids. rewrite map_app, <- app_assoc. cbn [map fst app].
        apply Forall_app in Hl as [H1 H2]. apply Forall_app; split.
        * eapply Forall_impl; [|exact H1]. cbn; lia.
        * constructor; [lia|]. eapply Forall_impl; [|exact H2]. cbn; lia.
      + unfold ids. rewrite map_app, <- app_assoc. cbn [map fst app].
        apply NoDup_Add with (a := next_id s) (l := map fst (putq s) ++ ids (getq s) ++ map grant_id (log s)).
        * apply Add_app.
        * split; [exact Hn|]. intros Hin. rewrite Forall_forall in Hl. specialize (Hl _ Hin). lia.
    - destruct (k_gvalid K g); [|injection H as <-; exact W]. injection H as <-.
      apply WF_trigger_get. destruct W as [Hp Hg Hl Hn]. unfold allids in *.
      split; unfold allids; cbn [putq getq log next_id].
      + exact Hp.
      + unfold ids. rewrite map_app. cbn [map fst]. apply ss_snoc; [exact Hg|].
        apply Forall_app in Hl as [_ Hl]. apply Forall_app in Hl as [Hl _]. exact Hl.
      + unfold ids. rewrite map_app, <- !app_assoc. cbn [map fst app].
        apply Forall_app in Hl as [H1 H2]. apply Forall_app in H2 as [H2 H3]. apply Forall_app; split.
        * eapply Forall_impl; [|exact H1]. cbn; lia.
        * apply Forall_app; split; [eapply Forall_impl; [|exact H2]; cbn; lia|].
          constructor; [lia|]. eapply Forall_impl; [|exact H3]. cbn; lia.
      + unfold ids. rewrite map_app, <- !app_assoc. cbn [map fst app].
        rewrite app_assoc.
        apply NoDup_Add with (a := next_id s) (l := (map fst (putq s) ++ map fst (getq s)) ++ map grant_id (log s)).
        * apply Add_app.
        * rewrite <- app_assoc. split; [exact Hn|]. intros Hin. rewrite Forall_forall in Hl. specialize (Hl _ Hin). lia.
    - destruct (mem_id i (putq s)) eqn:Mp.
      + injection H as <-.
        assert (W1 : WF (mkst (content s) (remove_id i (putq s)) (getq s) (trig s) (log s) (next_id s) (now s))).
        { destruct (remove_id_split i _ Mp) as (a & r & b & Eq & Hr & -> & Hna).
          destruct W as [Hp Hg Hl Hn]. unfold allids in *. rewrite Eq in *. unfold ids in *.
          rewrite map_app in *. cbn [map] in *. rewrite <- app_assoc in *. cbn [app] in *.
          split; unfold allids, ids; cbn [putq getq log next_id]; rewrite ?map_app, <- ?app_assoc.
          - eapply ss_app_inv; eauto.
          - exact Hg.
          - apply Forall_app in Hl as [H1 H2]. inversion H2; subst. apply Forall_app; auto.
          - eapply NoDup_remove_1; eauto. }
        destruct fixed; [apply WF_trigger_put|]; exact W1.
      + destruct (mem_id i (getq s)) eqn:Mg.
        * injection H as <-.
          assert (W1 : WF (mkst (content s) (putq s) (remove_id i (getq s)) (trig s) (log s) (next_id s) (now s))).
          { destruct (remove_id_split i _ Mg) as (a & r & b & Eq & Hr & -> & Hna).
            destruct W as [Hp Hg Hl Hn]. unfold allids in *. rewrite Eq in *. unfold ids in *.
            rewrite map_app in *. cbn [map] in *. rewrite <- app_assoc in *. cbn [app] in *.
            split; unfold allids, ids; cbn [putq getq log next_id]; rewrite ?map_app, <- ?app_assoc.
            - exact Hp.
            - eapply ss_app_inv; eauto.
            - apply Forall_app in Hl as [H1 H2]. apply Forall_app in H2 as [H2 H3]. inversion H3; subst.
              apply Forall_app; split; auto. apply Forall_app; auto.
            - rewrite app_assoc. rewrite app_assoc in Hn. eapply NoDup_remove_1; eauto. }
          destruct fixed; [apply WF_trigger_get|]; exact W1.
        * destruct (Nat.ltb i (next_id s)); [|discriminate]. injection H as <-. exact W.
    - destruct (find_id i (trig s)) as [k|]; [|discriminate]. injection H as <-.
      destruct k; [apply WF_trigger_get|apply WF_trigger_put]; destruct W; split; auto.
    - destruct (trig s); [|discriminate]. destruct (Qlt_bool (now s) t); [|discriminate].
      injection H as <-. destruct W; split; auto.
  Qed.

  Lemma WF_run fixed acts c0 t0 s : run fixed (init c0 t0) acts = Some s -> WF s.
  Proof. apply run_ind with (Pr := WF); [apply WF_step|apply WF_init]. Qed.
End Generic.

(* ---------------------------------------------------------------------------------------------- *)
(* no stranded request: if the head of a queue could be granted, an event whose processing rescans
   that queue is still due at the current instant *)
Section Settled.
  Variable K : kind.
  Variable gblock : bool.
  Hypothesis L : laws K gblock.

  Definition put_settled (s : state K) : Prop :=
    match putq s with [] => True | r :: _ => r_val (k_do_put K (content s) (snd r)) = None end.

  Definition get_head_settled (s : state K) : Prop :=
    match getq s with [] => True | r :: _ => r_val (k_do_get K (content s) (snd r)) = None end.

  Definition get_all_settled (s : state K) : Prop :=
    forall r, In r (getq s) -> r_val (k_do_get K (content s) (snd r)) = None.

  Definition get_settled (s : state K) : Prop :=
    if gblock then get_head_settled s else get_all_settled s.

  Definition has_ev (k : evk) (s : state K) : Prop := exists i, In (i, k) (trig s).

  Definition Jput (s : state K) : Prop := put_settled s \/ has_ev EvGet s.
  Definition Jget (s : state K) : Prop := get_settled s \/ has_ev EvPut s.
  Definition J (s : state K) : Prop := Jput s /\ Jget s.

  Lemma J_trigger_put s : Jget s -> J (trigger_put s).
  Proof.
    intros HJ. destruct (scan (k_do_put K) (content s) (putq s)) as [[c rem] gs] eqn:Es.
    rewrite (trigger_put_eq _ _ _ _ _ Es).
    destruct (scan_blocking _ (l_pns _ _ L) (l_pbl _ _ L) _ _ _ _ _ Es) as [Hq Hhd].
    split.
    - left. unfold put_settled; cbn [putq content]. exact Hhd.
    - destruct gs as [|g gs'].
      + destruct (scan_nogrant _ (l_pns _ _ L) _ _ _ _ Es) as [-> ->].
        cbn [map]. rewrite !app_nil_r.
        destruct HJ as [HJ|[i Hi]]; [left|right; exists i; exact Hi].
        unfold get_settled, get_head_settled, get_all_settled in *; cbn [getq content]. exact HJ.
      + right. exists (fst (fst g)). cbn [trig]. apply in_or_app. right. left. reflexivity.
  Qed.

  Lemma J_trigger_get s : Jput s -> J (trigger_get s).
  Proof.
    intros HJ. destruct (scan (k_do_get K) (content s) (getq s)) as [[c rem] gs] eqn:Es.
    rewrite (trigger_get_eq _ _ _ _ _ Es).
    split.
    - destruct gs as [|g gs'].
      + destruct (scan_nogrant _ (l_gns _ _ L) _ _ _ _ Es) as [-> ->].
        cbn [map]. rewrite !app_nil_r.
        destruct HJ as [HJ|[i Hi]]; [left|right; exists i; exact Hi].
        unfold put_settled in *; cbn [putq content]. exact HJ.
      + right. exists (fst (fst g)). cbn [trig]. apply in_or_app. right. left. reflexivity.
    - left. unfold get_settled. pose proof (l_gbl _ _ L) as Hg. destruct gblock.
      + unfold get_head_settled; cbn [getq content].
        apply (scan_blocking _ (l_gns _ _ L) Hg _ _ _ _ _ Es).
      + destruct Hg as [Hnb Ham]. unfold get_all_settled; cbn [getq content].
        apply (scan_nonblocking _ (l_gns _ _ L) Hnb Ham _ _ _ _ _ Es).
  Qed.

  Lemma J_init c0 t0 : J (init c0 t0).
  Proof.
    split; left; cbn; auto. unfold get_settled, get_head_settled, get_all_settled.
    destruct gblock; cbn; auto. intros r [].
  Qed.

  (* the repaired cancel (fixed = true) *)
  Lemma J_step s a s' : J s -> step true s a = Some s' -> J s'.
  Proof.
    intros [Hp Hg] H. destruct a as [p|g|i|i|t]; cbn [step] in H.
    - destruct (k_pvalid K p); [|injection H as <-; split; auto]. injection H as <-.
      apply J_trigger_put. exact Hg.
    - destruct (k_gvalid K g); [|injection H as <-; split; auto]. injection H as <-.
      apply J_trigger_get. exact Hp.
    - destruct (mem_id i (putq s)).
      + injection H as <-. apply J_trigger_put. exact Hg.
      + destruct (mem_id i (getq s)).
        * injection H as <-. apply J_trigger_get. exact Hp.
        * destruct (Nat.ltb i (next_id s)); [|discriminate]. injection H as <-. split; auto.
    - destruct (find_id i (trig s)) as [k|] eqn:Ef; [|discriminate]. injection H as <-.
      destruct k.
      + apply J_trigger_get. destruct Hp as [Hp|[j Hj]]; [left; exact Hp|right].
        exists j. cbn [trig]. eapply remove_id_keeps; eauto. discriminate.
      + apply J_trigger_put. destruct Hg as [Hg|[j Hj]]; [left; exact Hg|right].
        exists j. cbn [trig]. eapply remove_id_keeps; eauto. discriminate.
    - destruct (trig s) eqn:Et; [|discriminate]. destruct (Qlt_bool (now s) t); [|discriminate].
      injection H as <-. split.
      + destruct Hp as [Hp|[j Hj]]; [left; exact Hp|rewrite Et in Hj; destruct Hj].
      + destruct Hg as [Hg|[j Hj]]; [left; exact Hg|rewrite Et in Hj; destruct Hj].
  Qed.

  (* whenever the clock may advance, nobody at the head of a queue can be served *)
  Theorem heads_blocked_generic acts c0 t0 s :
    run true (init c0 t0) acts = Some s -> trig s = [] -> put_settled s /\ get_settled s.
  Proof.
    intros Hr Ht.
    assert (HJ : J s) by (eapply run_ind with (Pr := J); eauto using J_step, J_init).
    destruct HJ as [[Hp|[i Hi]] [Hg|[j Hj]]]; rewrite ?Ht in *; try contradiction. auto.
  Qed.

  Lemma advance_admissible fixed (s : state K) t s' : step fixed s (AAdvance t) = Some s' -> trig s = [].
  Proof. cbn [step]. destruct (trig s); [auto|discriminate]. Qed.

  Theorem heads_blocked_at_advance acts c0 t0 s t s' :
    run true (init c0 t0) acts = Some s ->
    step true s (AAdvance t) = Some s' ->
    (match putq s with [] => True | r :: _ => r_val (k_do_put K (content s) (snd r)) = None end) /\
    (if gblock
     then match getq s with [] => True | r :: _ => r_val (k_do_get K (content s) (snd r)) = None end
     else forall r, In r (getq s) -> r_val (k_do_get K (content s) (snd r)) = None).
  Proof.
    intros Hr Ha. apply advance_admissible in Ha.
    destruct (heads_blocked_generic _ _ _ _ Hr Ha) as [Hp Hg]. split; [exact Hp|].
    unfold get_settled, get_head_settled, get_all_settled in Hg. destruct gblock; exact Hg.
  Qed.
End Settled.

(* ---------------------------------------------------------------------------------------------- *)
(* first come first served: the ids of the granted requests of one kind, in the order in which they
   were granted, followed by the ids still waiting in queue order, are strictly increasing.  Ids are
   creation indices, so: nobody is granted while an older request of the same kind waits (the state
   right after such a grant would have the younger id before the older one). *)
Section Order.
  Variable K : kind.
  Variable gblock : bool.
  Hypothesis L : laws K gblock.

  Definition put_ids (l : list (grant K)) : list nat :=
    flat_map (fun g => match g with GPut i _ => [i] | GGet _ _ _ => [] end) l.
  Definition get_ids (l : list (grant K)) : list nat :=
    flat_map (fun g => match g with GGet i _ _ => [i] | GPut _ _ => [] end) l.

  Definition fcfs_put (s : state K) : Prop := StronglySorted lt (put_ids (log s) ++ ids (putq s)).
  Definition fcfs_get (s : state K) : Prop := StronglySorted lt (get_ids (log s) ++ ids (getq s)).

  Lemma put_ids_app l1 l2 : put_ids (l1 ++ l2) = put_ids l1 ++ put_ids l2.
  Proof. apply flat_map_app. Qed.
  Lemma get_ids_app l1 l2 : get_ids (l1 ++ l2) = get_ids l1 ++ get_ids l2.
  Proof. apply flat_map_app. Qed.
  Lemma put_ids_gput gs : put_ids (map (gput K) gs) = map fst (map fst gs).
  Proof. induction gs as [|[[i p] v] t IH]; cbn; [auto|f_equal; auto]. Qed.
  Lemma get_ids_gget gs : get_ids (map (gget K) gs) = map fst (map fst gs).
  Proof. induction gs as [|[[i p] v] t IH]; cbn; [auto|f_equal; auto]. Qed.
  Lemma put_ids_gget gs : put_ids (map (gget K) gs) = [].
  Proof. induction gs as [|[[i p] v] t IH]; cbn; auto. Qed.
  Lemma get_ids_gput gs : get_ids (map (gput K) gs) = [].
  Proof. induction gs as [|[[i p] v] t IH]; cbn; auto. Qed.
  Lemma put_ids_incl l : incl (put_ids l) (map grant_id l).
  Proof.
    induction l as [|g t IH]; cbn; [intros x []|].
    destruct g; cbn; [apply incl_cons; [left; auto|apply incl_tl; auto]|apply incl_tl; auto].
  Qed.
  Lemma get_ids_incl l : incl (get_ids l) (map grant_id l).
  Proof.
    induction l as [|g t IH]; cbn; [intros x []|].
    destruct g; cbn; [apply incl_tl; auto|apply incl_cons; [left; auto|apply incl_tl; auto]].
  Qed.

  Lemma fcfs_put_trigger_put s : fcfs_put s -> fcfs_put (trigger_put s).
  Proof.
    unfold fcfs_put. intros H.
    destruct (scan (k_do_put K) (content s) (putq s)) as [[c rem] gs] eqn:Es.
    rewrite (trigger_put_eq _ _ _ _ _ Es). cbn [log putq].
    destruct (scan_blocking _ (l_pns _ _ L) (l_pbl _ _ L) _ _ _ _ _ Es) as [Hq _].
    rewrite put_ids_app, put_ids_gput, <- app_assoc.
    rewrite Hq in H. unfold ids in *. rewrite map_app in H. exact H.
  Qed.

  Lemma fcfs_put_trigger_get s : fcfs_put s -> fcfs_put (trigger_get s).
  Proof.
    unfold fcfs_put. intros H.
    destruct (scan (k_do_get K) (content s) (getq s)) as [[c rem] gs] eqn:Es.
    rewrite (trigger_get_eq _ _ _ _ _ Es). cbn [log putq].
    rewrite put_ids_app, put_ids_gget, app_nil_r. exact H.
  Qed.

  Lemma fcfs_get_trigger_put s : fcfs_get s -> fcfs_get (trigger_put s).
  Proof.
    unfold fcfs_get. intros H.
    destruct (scan (k_do_put K) (content s) (putq s)) as [[c rem] gs] eqn:Es.
    rewrite (trigger_put_eq _ _ _ _ _ Es). cbn [log getq].
    rewrite get_ids_app, get_ids_gput, app_nil_r. exact H.
  Qed.

  Lemma fcfs_get_trigger_get s : gblock = true -> fcfs_get s -> fcfs_get (trigger_get s).
  Proof.
    unfold fcfs_get. intros Hb H.
    destruct (scan (k_do_get K) (content s) (getq s)) as [[c rem] gs] eqn:Es.
    rewrite (trigger_get_eq _ _ _ _ _ Es). cbn [log getq].
    pose proof (l_gbl _ _ L) as Hg. rewrite Hb in Hg.
    destruct (scan_blocking _ (l_gns _ _ L) Hg _ _ _ _ _ Es) as [Hq _].
    rewrite get_ids_app, get_ids_gget, <- app_assoc.
    rewrite Hq in H. unfold ids in *. rewrite map_app in H. exact H.
  Qed.

  Lemma lt_next_put s : WF K s -> Forall (fun i => i < next_id s) (put_ids (log s) ++ ids (putq s)).
  Proof.
    intros [_ _ Hl _]. unfold allids in Hl. rewrite Forall_forall in *. intros x Hx. apply Hl.
    apply in_app_or in Hx as [Hx|Hx]; apply in_or_app; [right; apply in_or_app; right|left; auto].
    apply put_ids_incl; auto.
  Qed.

  Lemma lt_next_get s : WF K s -> Forall (fun i => i < next_id s) (get_ids (log s) ++ ids (getq s)).
  Proof.
    intros [_ _ Hl _]. unfold allids in Hl. rewrite Forall_forall in *. intros x Hx. apply Hl.
    apply in_app_or in Hx as [Hx|Hx]; apply in_or_app; right; apply in_or_app; [right|left; auto].
    apply get_ids_incl; auto.
  Qed.

  Lemma fcfs_put_step fixed s a s' : WF K s -> fcfs_put s -> step fixed s a = Some s' -> fcfs_put s'.
  Proof.
    intros W F H. destruct a as [p|g|i|i|t]; cbn [step] in H.
    - destruct (k_pvalid K p); [|injection H as <-; exact F]. injection H as <-.
      apply fcfs_put_trigger_put. unfold fcfs_put; cbn [log putq]. unfold ids. rewrite map_app, app_assoc.
      cbn [map fst]. apply ss_snoc; [exact F|apply lt_next_put; exact W].
    - destruct (k_gvalid K g); [|injection H as <-; exact F]. injection H as <-.
      apply fcfs_put_trigger_get. exact F.
    - destruct (mem_id i (putq s)) eqn:Mp.
      + injection H as <-.
        assert (F1 : fcfs_put (mkst (content s) (remove_id i (putq s)) (getq s) (trig s) (log s) (next_id s) (now s))).
        { destruct (remove_id_split i _ Mp) as (a & r & b & Eq & Hr & -> & Hna).
          unfold fcfs_put in *; cbn [log putq]. rewrite Eq in F. unfold ids in *. rewrite map_app in *.
          cbn [map] in F. rewrite app_assoc in *. eapply ss_app_inv; eauto. }
        destruct fixed; [apply fcfs_put_trigger_put|]; exact F1.
      + destruct (mem_id i (getq s)).
        * injection H as <-. destruct fixed; [apply fcfs_put_trigger_get|]; exact F.
        * destruct (Nat.ltb i (next_id s)); [|discriminate]. injection H as <-. exact F.
    - destruct (find_id i (trig s)) as [k|]; [|discriminate]. injection H as <-.
      destruct k; [apply fcfs_put_trigger_get|apply fcfs_put_trigger_put]; exact F.
    - destruct (trig s); [|discriminate]. destruct (Qlt_bool (now s) t); [|discriminate].
      injection H as <-. exact F.
  Qed.

  Lemma fcfs_get_step fixed s a s' : gblock = true -> WF K s -> fcfs_get s -> step fixed s a = Some s' -> fcfs_get s'.
  Proof.
    intros Hb W F H. destruct a as [p|g|i|i|t]; cbn [step] in H.
    - destruct (k_pvalid K p); [|injection H as <-; exact F]. injection H as <-.
      apply fcfs_get_trigger_put. exact F.
    - destruct (k_gvalid K g); [|injection H as <-; exact F]. injection H as <-.
      apply fcfs_get_trigger_get; [exact Hb|]. unfold fcfs_get; cbn [log getq]. unfold ids. rewrite map_app, app_assoc.
      cbn [map fst]. apply ss_snoc; [exact F|apply lt_next_get; exact W].
    - destruct (mem_id i (putq s)) eqn:Mp.
      + injection H as <-. destruct fixed; [apply fcfs_get_trigger_put|]; exact F.
      + destruct (mem_id i (getq s)) eqn:Mg.
        * injection H as <-.
          assert (F1 : fcfs_get (mkst (content s) (putq s) (remove_id i (getq s)) (trig s) (log s) (next_id s) (now s))).
          { destruct (remove_id_split i _ Mg) as (a & r & b & Eq & Hr & -> & Hna).
            unfold fcfs_get in *; cbn [log getq]. rewrite Eq in F. unfold ids in *. rewrite map_app in *.
            cbn [map] in F. rewrite app_assoc in *. eapply ss_app_inv; eauto. }
          destruct fixed; [apply fcfs_get_trigger_get|]; auto.
        * destruct (Nat.ltb i (next_id s)); [|discriminate]. injection H as <-. exact F.
    - destruct (find_id i (trig s)) as [k|]; [|discriminate]. injection H as <-.
      destruct k; [apply fcfs_get_trigger_get|apply fcfs_get_trigger_put]; auto.
    - destruct (trig s); [|discriminate]. destruct (Qlt_bool (now s) t); [|discriminate].
      injection H as <-. exact F.
  Qed.

  Theorem puts_fcfs_generic fixed acts c0 t0 s :
    run fixed (init c0 t0) acts = Some s -> fcfs_put s.
  Proof.
    intros Hr.
    assert (H : WF K s /\ fcfs_put s).
    { eapply run_ind with (Pr := fun s => WF K s /\ fcfs_put s); eauto.
      - intros s1 a s2 [W F] Hs. split; [eapply WF_step; eauto|eapply fcfs_put_step; eauto].
      - split; [apply WF_init|constructor]. }
    apply H.
  Qed.

  Theorem gets_fcfs_generic fixed acts c0 t0 s :
    gblock = true -> run fixed (init c0 t0) acts = Some s -> fcfs_get s.
  Proof.
    intros Hb Hr.
    assert (H : WF K s /\ fcfs_get s).
    { eapply run_ind with (Pr := fun s => WF K s /\ fcfs_get s); eauto.
      - intros s1 a s2 [W F] Hs. split; [eapply WF_step; eauto|eapply fcfs_get_step; eauto].
      - split; [apply WF_init|constructor]. }
    apply H.
  Qed.

  (* ---- the log is a legal sequence of operations from the initial content to the current one ---- *)
  Inductive path : KC K -> list (grant K) -> KC K -> Prop :=
  | path_nil c : path c [] c
  | path_put c i p l c' :
      r_val (k_do_put K c p) = Some tt -> path (r_c (k_do_put K c p)) l c' -> path c (GPut i p :: l) c'
  | path_get c i g v l c' :
      r_val (k_do_get K c g) = Some v -> path (r_c (k_do_get K c g)) l c' -> path c (GGet i g v :: l) c'.

  Lemma path_app c l1 c1 l2 c2 : path c l1 c1 -> path c1 l2 c2 -> path c (l1 ++ l2) c2.
  Proof. induction 1; cbn [app]; intros; [auto|constructor; auto|constructor; auto]. Qed.

  Lemma path_split l1 : forall c l2 c2, path c (l1 ++ l2) c2 -> exists c1, path c l1 c1 /\ path c1 l2 c2.
  Proof.
    induction l1 as [|g t IH]; cbn [app]; intros c l2 c2 H.
    - exists c. split; [constructor|exact H].
    - inversion H; subst.
      + destruct (IH _ _ _ H5) as (c1 & H1 & H2). exists c1. split; [constructor; auto|auto].
      + destruct (IH _ _ _ H5) as (c1 & H1 & H2). exists c1. split; [constructor; auto|auto].
  Qed.

  Lemma path_det c l c1 : path c l c1 -> forall c2, path c l c2 -> c1 = c2.
  Proof. induction 1; intros c2 H2; inversion H2; subst; auto. Qed.

  Lemma path_content (Q : KC K -> Prop) :
    (forall c p, Q c -> Q (r_c (k_do_put K c p))) -> (forall c g, Q c -> Q (r_c (k_do_get K c g))) ->
    forall c l c', path c l c' -> Q c -> Q c'.
  Proof. intros Hp Hg. induction 1; auto. Qed.

  Lemma chain_path_put c gs c' : chain (k_do_put K) c gs c' -> path c (map (gput K) gs) c'.
  Proof. induction 1; cbn [map]; [constructor|]. destruct v. constructor; auto. Qed.
  Lemma chain_path_get c gs c' : chain (k_do_get K) c gs c' -> path c (map (gget K) gs) c'.
  Proof. induction 1; cbn [map]; [constructor|]. constructor; auto. Qed.

  Definition log_path (c0 : KC K) (s : state K) : Prop := path c0 (log s) (content s).

  Lemma log_path_trigger_put c0 s : log_path c0 s -> log_path c0 (trigger_put s).
  Proof.
    unfold log_path. intros H.
    destruct (scan (k_do_put K) (content s) (putq s)) as [[c rem] gs] eqn:Es.
    rewrite (trigger_put_eq _ _ _ _ _ Es). cbn [log content].
    eapply path_app; [exact H|]. apply chain_path_put. eapply scan_chain; eauto. apply (l_pns _ _ L).
  Qed.

  Lemma log_path_trigger_get c0 s : log_path c0 s -> log_path c0 (trigger_get s).
  Proof.
    unfold log_path. intros H.
    destruct (scan (k_do_get K) (content s) (getq s)) as [[c rem] gs] eqn:Es.
    rewrite (trigger_get_eq _ _ _ _ _ Es). cbn [log content].
    eapply path_app; [exact H|]. apply chain_path_get. eapply scan_chain; eauto. apply (l_gns _ _ L).
  Qed.

  Lemma log_path_step fixed c0 s a s' : log_path c0 s -> step fixed s a = Some s' -> log_path c0 s'.
  Proof.
    intros F H. destruct a as [p|g|i|i|t]; cbn [step] in H.
    - destruct (k_pvalid K p); [|injection H as <-; exact F]. injection H as <-.
      apply log_path_trigger_put. exact F.
    - destruct (k_gvalid K g); [|injection H as <-; exact F]. injection H as <-.
      apply log_path_trigger_get. exact F.
    - destruct (mem_id i (putq s)).
      + injection H as <-. destruct fixed; [apply log_path_trigger_put|]; exact F.
      + destruct (mem_id i (getq s)).
        * injection H as <-. destruct fixed; [apply log_path_trigger_get|]; exact F.
        * destruct (Nat.ltb i (next_id s)); [|discriminate]. injection H as <-. exact F.
    - destruct (find_id i (trig s)) as [k|]; [|discriminate]. injection H as <-.
      destruct k; [apply log_path_trigger_get|apply log_path_trigger_put]; exact F.
    - destruct (trig s); [|discriminate]. destruct (Qlt_bool (now s) t); [|discriminate].
      injection H as <-. exact F.
  Qed.

  Theorem log_is_path fixed acts c0 t0 s :
    run fixed (init c0 t0) acts = Some s -> path c0 (log s) (content s).
  Proof.
    intros Hr. eapply run_ind with (Pr := log_path c0); eauto.
    - intros; eapply log_path_step; eauto.
    - constructor.
  Qed.

  (* every request event is triggered at most once, and a triggered request is in no queue *)
  Theorem triggered_once fixed (acts : list (action K)) c0 t0 s :
    run fixed (init c0 t0) acts = Some s ->
    NoDup (map grant_id (log s)) /\
    (forall i, In i (map grant_id (log s)) -> ~ In i (ids (putq s)) /\ ~ In i (ids (getq s))).
  Proof.
    intros Hr. apply WF_run in Hr. destruct Hr as [_ _ _ Hn]. unfold allids in Hn.
    split.
    - apply nodup_app_r in Hn. apply nodup_app_r in Hn. exact Hn.
    - intros i Hi. split; intros Hq.
      + apply (nodup_app_disj _ _ i Hn Hq). apply in_or_app. right. exact Hi.
      + apply nodup_app_r in Hn. apply (nodup_app_disj _ _ i Hn Hq Hi).
  Qed.
End Order.

(* ---------------------------------------------------------------------------------------------- *)
(* invariants of the content: whatever every _do_put/_do_get call on a VALID request (one that passed
   the constructor's argument check) preserves, holds in every reachable state *)
Section ContentInv.
  Context {C P V : Type}.
  Variable doit : C -> P -> dores C V.
  Variable Pp : P -> Prop.
  Variable Q : C -> Prop.
  Hypothesis HQ : forall c p, Pp p -> Q c -> Q (r_c (doit c p)).

  Lemma scan_content_v : forall q c c' rem gs,
    scan doit c q = (c', rem, gs) -> Forall (fun r => Pp (snd r)) q -> Q c ->
    Q c' /\ Forall (fun r => Pp (snd r)) rem.
  Proof.
    induction q as [|r t IH]; intros c c' rem gs H F Hc; cbn [scan] in H.
    - injection H as <- <- <-. auto.
    - inversion F as [|? ? Fr Ft]; subst. specialize (HQ c (snd r) Fr Hc).
      destruct (r_val (doit c (snd r))) as [v|]; destruct (r_proceed (doit c (snd r))).
      + destruct (scan doit (r_c (doit c (snd r))) t) as [[c1 rem1] gs1] eqn:Es.
        injection H as <- <- <-. eapply IH; eauto.
      + injection H as <- <- <-. auto.
      + destruct (scan doit (r_c (doit c (snd r))) t) as [[c1 rem1] gs1] eqn:Es.
        injection H as <- <- <-. destruct (IH _ _ _ _ Es Ft HQ) as [H1 H2]. auto.
      + injection H as <- <- <-. auto.
  Qed.
End ContentInv.

Section ContentInvK.
  Variable K : kind.
  Variable Q : KC K -> Prop.
  Hypothesis HP : forall c p, k_pvalid K p = true -> Q c -> Q (r_c (k_do_put K c p)).
  Hypothesis HG : forall c g, k_gvalid K g = true -> Q c -> Q (r_c (k_do_get K c g)).

  Definition CI (s : state K) : Prop :=
    Q (content s) /\ Forall (fun r => k_pvalid K (snd r) = true) (putq s)
    /\ Forall (fun r => k_gvalid K (snd r) = true) (getq s).

  Lemma CI_trigger_put s : CI s -> CI (trigger_put s).
  Proof.
    intros (Hc & Hp & Hg). destruct (scan (k_do_put K) (content s) (putq s)) as [[c rem] gs] eqn:Es.
    rewrite (trigger_put_eq _ _ _ _ _ Es).
    destruct (scan_content_v (k_do_put K) (fun p => k_pvalid K p = true) Q HP _ _ _ _ _ Es Hp Hc) as [H1 H2].
    repeat split; auto.
  Qed.

  Lemma CI_trigger_get s : CI s -> CI (trigger_get s).
  Proof.
    intros (Hc & Hp & Hg). destruct (scan (k_do_get K) (content s) (getq s)) as [[c rem] gs] eqn:Es.
    rewrite (trigger_get_eq _ _ _ _ _ Es).
    destruct (scan_content_v (k_do_get K) (fun p => k_gvalid K p = true) Q HG _ _ _ _ _ Es Hg Hc) as [H1 H2].
    repeat split; auto.
  Qed.

  Lemma Forall_remove_id {P : Type} (Pr : nat * P -> Prop) i q : Forall Pr q -> Forall Pr (remove_id i q).
  Proof.
    induction q as [|r t IH]; cbn [remove_id]; intros F; [constructor|].
    inversion F; subst. destruct (Nat.eqb (fst r) i); auto.
  Qed.

  Lemma CI_step fixed s a s' : CI s -> step fixed s a = Some s' -> CI s'.
  Proof.
    intros (Hc & Hp & Hg) H. destruct a as [p|g|i|i|t]; cbn [step] in H.
    - destruct (k_pvalid K p) eqn:Ev; [|injection H as <-; repeat split; auto]. injection H as <-.
      apply CI_trigger_put. repeat split; auto. cbn [putq]. apply Forall_app; split; auto.
    - destruct (k_gvalid K g) eqn:Ev; [|injection H as <-; repeat split; auto]. injection H as <-.
      apply CI_trigger_get. repeat split; auto. cbn [getq]. apply Forall_app; split; auto.
    - destruct (mem_id i (putq s)).
      + injection H as <-.
        assert (C1 : CI (mkst (content s) (remove_id i (putq s)) (getq s) (trig s) (log s) (next_id s) (now s)))
          by (repeat split; auto; apply Forall_remove_id; auto).
        destruct fixed; [apply CI_trigger_put|]; exact C1.
      + destruct (mem_id i (getq s)).
        * injection H as <-.
          assert (C1 : CI (mkst (content s) (putq s) (remove_id i (getq s)) (trig s) (log s) (next_id s) (now s)))
            by (repeat split; auto; apply Forall_remove_id; auto).
          destruct fixed; [apply CI_trigger_get|]; exact C1.
        * destruct (Nat.ltb i (next_id s)); [|discriminate]. injection H as <-. repeat split; auto.
    - destruct (find_id i (trig s)) as [k|]; [|discriminate]. injection H as <-.
      destruct k; [apply CI_trigger_get|apply CI_trigger_put]; repeat split; auto.
    - destruct (trig s); [|discriminate]. destruct (Qlt_bool (now s) t); [|discriminate].
      injection H as <-. repeat split; auto.
  Qed.

  Theorem content_invariant fixed (acts : list (action K)) c0 t0 s :
    Q c0 -> run fixed (init c0 t0) acts = Some s -> Q (content s).
  Proof.
    intros H0 Hr. assert (H : CI s).
    { eapply run_ind with (Pr := CI); eauto.
      - intros; eapply CI_step; eauto.
      - repeat split; auto; constructor. }
    apply H.
  Qed.
End ContentInvK.
