(* Bridging lemmas (DESIGN 2.6, second tie) for the scan loops BaseResource._trigger_put / _trigger_get, generic part.
   The translator turns the loop into its initialisation and ONE iteration (Gen/Extracted_scan.v: the state record is the
   loop index idx; observations: len(queue), whether the current request is triggered after _do_xxx, what _do_xxx returned,
   whether queue.pop(idx) differs from the request).  Here the generated iteration is RUN: [run_scan iter fuel f s q r]
   iterates it on a concrete queue q with _do_xxx given as a function f (new state, triggered?, returned value; None = it
   raised), popping at idx where the iteration says so, until the iteration stops asking for another round.
   [gscan] is the recursion both hand-written models use (Res/Resource.v [scan], Res/ContainerStore.v [scan] up to the
   representation of the grants).  Main lemma: with fuel = 1 + length of the queue the run of the generated iteration from
   the generated initialisation IS gscan, for every f, state and queue: requests are visited in queue order, a granted
   request leaves the queue at its own position, an ungranted one is stepped over, and the scan stops exactly when _do_xxx
   returns False. *)
From Coq Require Import ZArith List Bool Lia.
From ONL Require Import Gen.Extracted_scan.
Import ListNotations.

(* what one iteration must be (both generated iterations are checked against it below) *)
Definition ref_iter (r : scan_st) (n_queue : Z) (triggered proceed : bool) : scan_st * list scan_fx :=
  if Z.ltb (l_idx r) n_queue then
    if triggered then (r, if proceed then [FxDo; FxPopAtIdx; FxLoopAgain] else [FxDo; FxPopAtIdx])
    else ({| l_idx := l_idx r + 1 |}, if proceed then [FxDo; FxLoopAgain] else [FxDo])
  else (r, []).

Lemma gen_put_iter_ok r n t p : gen_trigger_put_iter r n t p false = ref_iter r n t p.
Proof. unfold gen_trigger_put_iter, ref_iter. destruct r as [i]; cbn [l_idx]. destruct (Z.ltb i n), t, p; reflexivity. Qed.
Lemma gen_get_iter_ok r n t p : gen_trigger_get_iter r n t p false = ref_iter r n t p.
Proof. unfold gen_trigger_get_iter, ref_iter. destruct r as [i]; cbn [l_idx]. destruct (Z.ltb i n), t, p; reflexivity. Qed.
Lemma gen_put_init_ok r : gen_trigger_put_init r = ({| l_idx := 0 |}, []).
Proof. reflexivity. Qed.
Lemma gen_get_init_ok r : gen_trigger_get_init r = ({| l_idx := 0 |}, []).
Proof. reflexivity. Qed.

Fixpoint remove_nth {A : Type} (i : nat) (l : list A) : list A :=
  match l, i with
  | [], _ => []
  | _ :: t, O => t
  | x :: t, S j => x :: remove_nth j t
  end.

Section Scan.
  Context {St A : Type}.
  Variable f : St -> A -> option (St * bool * bool).

  (* the recursion of the hand-written models: [kept] = the requests before idx (reversed), [rest] = queue[idx:] *)
  Fixpoint gscan (s : St) (kept rest : list A) : option (St * list A) :=
    match rest with
    | [] => Some (s, rev kept)
    | e :: rest' =>
        match f s e with
        | None => None
        | Some (s', triggered, proceed) =>
            if triggered then
              if proceed then gscan s' kept rest' else Some (s', rev kept ++ rest')
            else
              if proceed then gscan s' (e :: kept) rest' else Some (s', rev kept ++ e :: rest')
        end
    end.

  (* running an iteration function on a concrete queue *)
  Variable iter : scan_st -> Z -> bool -> bool -> bool -> scan_st * list scan_fx.

  Fixpoint run_scan (fuel : nat) (s : St) (q : list A) (r : scan_st) : option (St * list A) :=
    match fuel with
    | O => None
    | S fu =>
        let i := Z.to_nat (l_idx r) in
        match nth_error q i with
        | None =>                                             (* no request at idx: the observations do not matter *)
            match snd (iter r (Z.of_nat (length q)) false false false) with [] => Some (s, q) | _ => None end
        | Some e =>
            match f s e with
            | None => None                                    (* _do_xxx raised *)
            | Some (s', triggered, proceed) =>
                let '(r', fx) := iter r (Z.of_nat (length q)) triggered proceed false in
                match fx with
                | [FxDo] => Some (s', q)
                | [FxDo; FxLoopAgain] => run_scan fu s' q r'
                | [FxDo; FxPopAtIdx] => Some (s', remove_nth i q)
                | [FxDo; FxPopAtIdx; FxLoopAgain] => run_scan fu s' (remove_nth i q) r'
                | _ => None
                end
            end
        end
    end.

  Hypothesis iter_ok : forall r n t p, iter r n t p false = ref_iter r n t p.

  Lemma nth_mid (kept rest : list A) e : nth_error (rev kept ++ e :: rest) (length kept) = Some e.
  Proof. rewrite nth_error_app2; rewrite rev_length; [|lia]. rewrite Nat.sub_diag. reflexivity. Qed.

  Lemma remove_mid (kept rest : list A) e : remove_nth (length kept) (rev kept ++ e :: rest) = rev kept ++ rest.
  Proof.
    rewrite <- (rev_length kept). generalize (rev kept). intros l. induction l as [|x l IH]; cbn; [reflexivity|].
    rewrite IH. reflexivity.
  Qed.

  Lemma run_scan_gscan rest : forall s kept,
    run_scan (S (length rest)) s (rev kept ++ rest) {| l_idx := Z.of_nat (length kept) |} = gscan s kept rest.
  Proof.
    induction rest as [|e rest' IH]; intros s kept.
    - cbn [length run_scan gscan l_idx]. rewrite Nat2Z.id, app_nil_r.
      replace (nth_error (rev kept) (length kept)) with (@None A)
        by (symmetry; apply nth_error_None; rewrite rev_length; lia).
      rewrite iter_ok. unfold ref_iter. cbn [l_idx]. rewrite rev_length.
      destruct (Z.ltb_spec (Z.of_nat (length kept)) (Z.of_nat (length kept))); [lia|reflexivity].
    - cbn [run_scan gscan l_idx]. rewrite Nat2Z.id, nth_mid.
      destruct (f s e) as [[[s' tr] pr]|]; [|reflexivity].
      rewrite iter_ok. unfold ref_iter. cbn [l_idx].
      rewrite app_length, rev_length. cbn [length].
      destruct (Z.ltb_spec (Z.of_nat (length kept)) (Z.of_nat (length kept + S (length rest')))); [|lia].
      destruct tr, pr; cbn [l_idx]; rewrite ?remove_mid; try reflexivity.
      + apply IH.
      + replace (Z.of_nat (length kept) + 1)%Z with (Z.of_nat (length (e :: kept))) by (cbn [length]; lia).
        replace (rev kept ++ e :: rest') with (rev (e :: kept) ++ rest') by (cbn [rev]; rewrite <- app_assoc; reflexivity).
        apply IH.
  Qed.

  (* from the generated initialisation, on the whole queue *)
  Lemma run_scan_from_init (init : scan_st -> scan_st * list scan_fx) r0 s q :
    init r0 = ({| l_idx := 0 |}, []) ->
    run_scan (S (length q)) s q (fst (init r0)) = gscan s [] q.
  Proof. intros H. rewrite H. exact (run_scan_gscan q s []). Qed.
End Scan.
