(* Bridging lemmas (DESIGN 2.6, second tie) for Resource._do_put / _do_get and PreemptiveResource._do_put: the
   bodies as translated from the tree under test on every run (Gen/Extracted_resource.v: effects in program order,
   returned bool) are [res_do_put], [do_get] and [preempt_do_put] of the hand-written model (Res/Resource.v) the C06
   theorems are about.  The meaning of the effects in the model is given here ([put_fx_run], [get_fx_run],
   [pre_fx_run]); the observations are read off the abstract state (len(users), capacity, now; for the preemption:
   the victim = worst user, `victim.key > event.key`, `victim.proc.is_alive`). *)
From Coq Require Import ZArith List Bool Arith Lia.
From ONL Require Import Res.Resource Gen.Extracted_resource.
Import ListNotations.

Definition n_users (s : state) : Z := Z.of_nat (length (users s)).

Ltac cmp_cases :=
  repeat match goal with
         | |- context [Z.ltb ?a ?b] => destruct (Z.ltb_spec a b)
         | |- context [Z.leb ?a ?b] => destruct (Z.leb_spec a b)
         | |- context [Nat.ltb ?a ?b] => destruct (Nat.ltb_spec a b)
         | |- context [Nat.leb ?a ?b] => destruct (Nat.leb_spec a b)
         end.

(* ---- Resource._do_put(event) ------------------------------------------------------------------------------
   The users list holds the event object itself, so what it shows of the event is the event's final field
   values: the effects are summarised as (appended?, usage_since written, succeeded?). *)
Record put_sum := { ps_app : bool; ps_since : option Z; ps_succ : bool }.

Definition put_fx_apply (a : option put_sum) (e : res_fx) : option put_sum :=
  match a, e with
  | Some a, FxUsersAppend => Some {| ps_app := true; ps_since := ps_since a; ps_succ := ps_succ a |}
  | Some a, FxUsageSince t => Some {| ps_app := ps_app a; ps_since := Some t; ps_succ := ps_succ a |}
  | Some a, FxSucceed => Some {| ps_app := ps_app a; ps_since := ps_since a; ps_succ := true |}
  | _, _ => None                                     (* not an effect of Resource._do_put *)
  end.

Definition put_fx_run (s : state) (e : req) (fx : list res_fx) : option (state * bool) :=
  match fold_left put_fx_apply fx (Some {| ps_app := false; ps_since := rsince e; ps_succ := false |}) with
  | None => None
  | Some a =>
      let e' := mkReq (rid e) (rproc e) (rprio e) (rtime e) (rpre e) (ps_since a) in
      Some (mkState (if ps_app a then users s ++ [e'] else users s) (queue s) (getq s)
                    (if ps_succ a then pending s ++ [EReq (rid e)] else pending s)
                    (if ps_succ a then granted s ++ [rid e] else granted s)
                    (intrs s) (dead s) (next_id s) (now s), ps_succ a)
  end.

Definition res_gen_put (cap : nat) (s : state) := gen_Resource_do_put (n_users s) (Z.of_nat cap) (now s).

Lemma bridge_resource_do_put cap s e :
  let g := res_gen_put cap s in
  match put_fx_run s e (fst g) with
  | Some (s', triggered) => res_do_put cap s e = (s', triggered, snd g)
  | None => False
  end /\
  fst g = (if length (users s) <? cap then [FxUsersAppend; FxUsageSince (now s); FxSucceed] else []).
Proof.
  unfold res_gen_put, gen_Resource_do_put, res_do_put, put_fx_run, n_users.
  cmp_cases; try lia; cbn; split; try reflexivity.
  destruct s; reflexivity.
Qed.

(* ---- Resource._do_get(event): event = Release (fst g) naming request (snd g) --------------------------- *)
Definition get_fx_apply (g : nat * nat) (a : option (state * bool)) (e : res_fx) : option (state * bool) :=
  match a, e with
  | Some (s, t), FxUsersRemoveIfPresent => Some (set_users s (remove_id (snd g) (users s)), t)
  | Some (s, t), FxSucceed => Some (set_pending s (pending s ++ [ERel (fst g)]), true)
  | _, _ => None
  end.

Definition get_fx_run (s : state) (g : nat * nat) (fx : list res_fx) : option (state * bool) :=
  fold_left (get_fx_apply g) fx (Some (s, false)).

Definition res_gen_get (cap : nat) (s : state) := gen_Resource_do_get (n_users s) (Z.of_nat cap) (now s).

Lemma bridge_resource_do_get cap s g :
  let r := res_gen_get cap s in
  match get_fx_run s g (fst r) with
  | Some (s', triggered) => do_get s g = Some (s', triggered, snd r)
  | None => False
  end /\
  fst r = [FxUsersRemoveIfPresent; FxSucceed].
Proof.
  unfold res_gen_get, gen_Resource_do_get, do_get, get_fx_run; cbn. split; reflexivity.
Qed.

(* ---- PreemptiveResource._do_put(event) ----------------------------------------------------------------------
   observations about the victim, read off the state: the victim is the worst user (last of the stable sort) *)
Definition victim_worse (s : state) (e : req) : bool :=
  match worst (users s) with Some w => key_ltb (rkey e) (rkey w) | None => false end.   (* preempt.key > event.key *)
Definition victim_alive (s : state) : bool :=
  match worst (users s) with Some w => negb (is_dead s (rproc w)) | None => false end.   (* preempt.proc.is_alive *)

(* the meaning of the effect sequences of the body: pick (IndexError on an empty users list), evict, interrupt
   (RuntimeError when the victim is the active process), then the base class's _do_put on the resulting state *)
Definition pre_fx_run (cap : nat) (active : option nat) (s : state) (e : req) (fx : list res_fx)
  : option (state * bool * bool) :=
  match fx with
  | [FxSuperDoPut] => Some (res_do_put cap s e)
  | FxPickWorst :: rest =>
      match worst (users s) with
      | None => None
      | Some w =>
          let s1 := set_users s (remove_id (rid w) (users s)) in
          match rest with
          | [FxSuperDoPut] => Some (res_do_put cap s e)
          | [FxEvict; FxSuperDoPut] => Some (res_do_put cap (add_intr s1 (mkIntr w e false)) e)
          | [FxEvict; FxInterrupt; FxSuperDoPut] =>
              match active with
              | Some a => if a =? rproc w then None else Some (res_do_put cap (add_intr s1 (mkIntr w e true)) e)
              | None => Some (res_do_put cap (add_intr s1 (mkIntr w e true)) e)
              end
          | _ => None
          end
      end
  | _ => None
  end.

Definition pre_gen_put (cap : nat) (s : state) (e : req) : list res_fx :=
  gen_PreemptiveResource_do_put (n_users s) (Z.of_nat cap) (rpre e) (victim_worse s e) (victim_alive s).

Lemma bridge_preemptive_do_put cap active s e :
  preempt_do_put cap active s e = pre_fx_run cap active s e (pre_gen_put cap s e) /\
  pre_gen_put cap s e =
    (if (cap <=? length (users s)) && rpre e
     then FxPickWorst :: (if victim_worse s e then FxEvict :: (if victim_alive s then [FxInterrupt] else []) else [])
     else []) ++ [FxSuperDoPut].
Proof.
  unfold pre_gen_put, gen_PreemptiveResource_do_put, preempt_do_put, pre_fx_run, victim_worse, victim_alive, n_users.
  cmp_cases; try lia; cbn [andb]; destruct (rpre e); cbn [andb app]; try (split; reflexivity);
    destruct (worst (users s)) as [w|]; try (split; reflexivity);
    destruct (key_ltb (rkey e) (rkey w)); cbn [app]; try (split; reflexivity);
    destruct (is_dead s (rproc w)); cbn [negb app]; split; reflexivity.
Qed.
