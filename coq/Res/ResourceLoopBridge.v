(* Bridging lemmas (DESIGN 2.6, second tie) for the resource base class as the Resource family uses it (C06):
   BaseResource._trigger_put / _trigger_get (Gen/Extracted_scan.v: initialisation + ONE iteration of the scan loop, run by
   Res/ScanBridge.v [run_scan]) and Put / Get .__init__, .cancel, Request.__exit__, Release.__init__,
   PriorityRequest.__init__, SortedQueue.append (Gen/Extracted_baseres.v) are [trigger_put] / [trigger_get] and the
   [ARequest] / [ARelease] / [ACancel] / [AExit] steps of the hand-written model (Res/Resource.v). *)
From Coq Require Import ZArith List Bool Arith Lia.
From ONL Require Import Res.Resource Gen.Extracted_scan Res.ScanBridge Gen.Extracted_baseres.
Import ListNotations.

(* the model's scan is the generic recursion *)
Lemma res_scan_gscan {A} (f : state -> A -> option (state * bool * bool)) rest : forall s kept,
  scan f s kept rest = gscan f s kept rest.
Proof.
  induction rest as [|e rest' IH]; intros s kept; cbn; [reflexivity|].
  destruct (f s e) as [[[s' tr] pr]|]; [|reflexivity]. destruct tr, pr; auto.
Qed.

Definition r0 : scan_st := {| l_idx := 0 |}.

(* _trigger_put: the generated loop run on put_queue with _do_put = the model's do_put *)
Lemma bridge_res_trigger_put k cap active s :
  trigger_put k cap active s =
  match run_scan (do_put k cap active) gen_trigger_put_iter (S (length (queue s))) s (queue s) (fst (gen_trigger_put_init r0)) with
  | Some (s', q') => Some (set_queue s' q')
  | None => None
  end.
Proof.
  unfold trigger_put. rewrite res_scan_gscan.
  rewrite (run_scan_from_init (do_put k cap active) gen_trigger_put_iter gen_put_iter_ok gen_trigger_put_init r0 s (queue s)
             (gen_put_init_ok r0)).
  reflexivity.
Qed.

(* _trigger_get: the generated loop run on get_queue with _do_get = the model's do_get *)
Lemma bridge_res_trigger_get s :
  trigger_get s =
  match run_scan do_get gen_trigger_get_iter (S (length (getq s))) s (getq s) (fst (gen_trigger_get_init r0)) with
  | Some (s', g') => Some (set_getq s' g')
  | None => None
  end.
Proof.
  unfold trigger_get. rewrite res_scan_gscan.
  rewrite (run_scan_from_init do_get gen_trigger_get_iter gen_get_iter_ok gen_trigger_get_init r0 s (getq s) (gen_get_init_ok r0)).
  reflexivity.
Qed.

(* ---- the bodies around the loops ---------------------------------------------------------------------------------- *)
Definition rq0 : req_st := {| q_priority := 0; q_preempt := false; q_time := 0 |}.

(* SortedQueue.append (maxlen None, as PriorityResource builds it) *)
Definition sorted_append_fx (q : list req) (e : req) (fx : list base_fx) : option (list req) :=
  match fx with
  | [FxListAppend; FxSortByKey] => Some (ssort (q ++ [e]))
  | _ => None
  end.

Lemma bridge_sortedqueue_append q e :
  sorted_append_fx q e (snd (gen_SortedQueue_append rq0 None (Z.of_nat (length q)))) = Some (enqueue KPrio q e).
Proof. reflexivity. Qed.

(* PriorityRequest.__init__: key = (priority, time = now, not preempt), then Put.__init__ *)
Lemma bridge_priority_request_init id proc prio now pre :
  let g := gen_PriorityRequest_init rq0 prio pre now in
  snd g = [FxSetKey (fst (fst (rkey (mkReq id proc prio now pre None)))) (snd (fst (rkey (mkReq id proc prio now pre None))))
                    (snd (rkey (mkReq id proc prio now pre None))); FxPutInit] /\
  q_priority (fst g) = prio /\ q_preempt (fst g) = pre /\ q_time (fst g) = now.
Proof. cbn. repeat split; reflexivity. Qed.

(* Put.__init__ of request e by process p: enqueue (PutQueue.append), callbacks [_trigger_get], then _trigger_put(None) *)
Definition put_init_fx (k : kind) (cap p : nat) (e : req) (s : state) (fx : list base_fx) : option state :=
  match fx with
  | [FxEventInit; FxSetResource; FxSetProc; FxEnqueuePut; FxCallbackTriggerGet; FxTriggerPut] =>
      trigger_put k cap (Some p) (bump_id (set_queue s (enqueue k (queue s) e)))
  | _ => None
  end.

Lemma bridge_put_init k cap s p prio pre :
  put_init_fx k cap p (mkReq (next_id s) p prio (now s) pre None) s (snd (gen_Put_init rq0)) = step k cap s (ARequest p prio pre).
Proof. reflexivity. Qed.

(* Get.__init__ of a Release naming request r (Release.__init__ stores the request first) *)
Definition get_init_fx (r : nat) (s : state) (fx : list base_fx) : option state :=
  match fx with
  | [FxEventInit; FxSetResource; FxSetProc; FxEnqueueGet; FxCallbackTriggerPut; FxTriggerGet] =>
      trigger_get (bump_id (set_getq s (getq s ++ [(next_id s, r)])))
  | _ => None
  end.

Lemma bridge_release_init k cap s r :
  snd (gen_Release_init rq0) = [FxSetRequest; FxGetInit] /\
  get_init_fx r s (snd (gen_Get_init rq0)) = step k cap s (ARelease r).
Proof. split; reflexivity. Qed.

(* Put.cancel by process p: nothing for a triggered request; else queue.remove (ValueError when absent), then a rescan *)
Definition cancel_fx (k : kind) (cap p : nat) (r : nat) (s : state) (fx : list base_fx) : option state :=
  match fx with
  | [] => Some s
  | [FxDequeuePut; FxTriggerPut] =>
      if has_id r (queue s) then trigger_put k cap (Some p) (set_queue s (remove_id r (queue s))) else None
  | _ => None
  end.

Lemma bridge_put_cancel k cap p s r :
  cancel_fx k cap p r s (snd (gen_Put_cancel rq0 (existsb (Nat.eqb r) (granted s)))) = cancel k cap p s r.
Proof. unfold cancel, gen_Put_cancel. destruct (existsb (Nat.eqb r) (granted s)); reflexivity. Qed.

(* Request.__exit__: Put.__exit__ (= cancel) and, unless the block is left by GeneratorExit, release *)
Definition exit_fx (k : kind) (cap p : nat) (r : nat) (s : state) (fx : list base_fx) : option state :=
  match fx with
  | [FxPutExit] => cancel k cap p s r
  | [FxPutExit; FxRelease] => match cancel k cap p s r with Some s1 => release s1 r | None => None end
  | _ => None
  end.

Lemma bridge_request_exit k cap p s r :
  exit_fx k cap p r s (snd (gen_Request_exit rq0 true)) = step k cap s (AExit p r) /\
  exit_fx k cap p r s (snd (gen_Request_exit rq0 false)) = step k cap s (ACancel p r) /\
  snd (gen_Put_exit rq0) = [FxCancel].
Proof. repeat split; reflexivity. Qed.
