(* Model of onl/sim/resources/base.py (Put, Get, BaseResource._trigger_put/_trigger_get) and
   onl/sim/resources/resource.py (Request, Release, Resource, PriorityRequest, SortedQueue,
   PriorityResource, Preempted, PreemptiveResource) for ONE resource, as a nondeterministic automaton
   with explicit micro-steps.  Executable; no proofs here (the model must still run when a proof breaks).

   An execution is a list of actions.  What the processes do (request / release / cancel / with-exit),
   in which order the kernel processes the triggered events of the resource, and when the clock moves are
   all chosen by the environment; the theorems (ResourceProofs.v) quantify over every admissible choice. *)
From Coq Require Import ZArith List Bool Arith.
Import ListNotations.

Inductive kind := KRes | KPrio | KPreempt.          (* Resource | PriorityResource | PreemptiveResource *)

(* a Request / PriorityRequest object.  rid = creation index among the events of this resource (object
   identity), rproc = the process that was active when it was created (Put.proc), rsince = usage_since
   (class default None, set by Resource._do_put). For kind KRes priority and preempt are not used. *)
Record req := mkReq { rid : nat; rproc : nat; rprio : Z; rtime : Z; rpre : bool; rsince : option Z }.

(* ---- PriorityRequest.key = (priority, time, not preempt), compared as Python compares tuples -------- *)
Definition key := (Z * Z * bool)%type.
Definition rkey (r : req) : key := (rprio r, rtime r, negb (rpre r)).
Definition bool_ltb (a b : bool) : bool := negb a && b.                  (* False < True *)
Definition key_ltb (a b : key) : bool :=
  match a, b with
  | (p1, t1, n1), (p2, t2, n2) =>
      (p1 <? p2)%Z || ((p1 =? p2)%Z && ((t1 <? t2)%Z || ((t1 =? t2)%Z && bool_ltb n1 n2)))
  end.
Definition key_eqb (a b : key) : bool :=
  match a, b with
  | (p1, t1, n1), (p2, t2, n2) => (p1 =? p2)%Z && (t1 =? t2)%Z && Bool.eqb n1 n2
  end.

(* list.sort(key=lambda e: e.key) / sorted(..., key=...): a STABLE sort that only uses `<` on keys.
   Stable insertion sort; (the result of a stable sort is unique, so the algorithm does not matter). *)
Fixpoint ins (x : req) (l : list req) : list req :=
  match l with
  | [] => [x]
  | y :: t => if key_ltb (rkey y) (rkey x) then y :: ins x t else x :: y :: t
  end.
Fixpoint ssort (l : list req) : list req :=
  match l with
  | [] => []
  | x :: t => ins x (ssort t)
  end.

(* PutQueue.append:  list.append for Resource;  SortedQueue.append = append, then sort, for the others *)
Definition enqueue (k : kind) (q : list req) (e : req) : list req :=
  match k with
  | KRes => q ++ [e]
  | _ => ssort (q ++ [e])
  end.

(* list.remove(x) on a list of event objects (identity comparison): removes the first occurrence *)
Fixpoint remove_id (i : nat) (l : list req) : list req :=
  match l with
  | [] => []
  | x :: t => if rid x =? i then t else x :: remove_id i t
  end.
Definition has_id (i : nat) (l : list req) : bool := existsb (fun x => rid x =? i) l.

(* ---- events of the resource that the kernel has to process ------------------------------------------ *)
Inductive ev := EReq (i : nat) | ERel (i : nat).   (* a granted Request (callback _trigger_get) | a Release (callback _trigger_put) *)
Definition ev_eqb (a b : ev) : bool :=
  match a, b with
  | EReq i, EReq j => i =? j
  | ERel i, ERel j => i =? j
  | _, _ => false
  end.
Fixpoint remove_ev (e : ev) (l : list ev) : list ev :=
  match l with
  | [] => []
  | x :: t => if ev_eqb x e then t else x :: remove_ev e t
  end.
Definition has_ev (e : ev) (l : list ev) : bool := existsb (fun x => ev_eqb x e) l.

(* an eviction: victim removed from users; if its process is still alive (inotified):
   victim.proc.interrupt(Preempted(by=evictor.proc, usage_since=victim.usage_since, resource=self)) *)
Record intr := mkIntr { ivictim : req; iby : req; inotified : bool }.
Definition intr_fields (i : intr) : nat * nat * option Z :=       (* (interrupted process, by, usage_since) *)
  (rproc (ivictim i), rproc (iby i), rsince (ivictim i)).

Record state := mkState {
  users : list req;            (* Resource.users, in grant order *)
  queue : list req;            (* Resource.queue = put_queue *)
  getq : list (nat * nat);     (* get_queue: (id of the Release event, id of the request it names) *)
  pending : list ev;           (* triggered and not yet processed events of this resource, in trigger order;
                                  every one of them is on the kernel's agenda for `now` *)
  granted : list nat;          (* ids of all Request events that have ever been triggered, in grant order *)
  intrs : list intr;           (* evictions so far; those with inotified = true issued an Interruption *)
  dead : list nat;             (* processes whose generator has ended (Process.is_alive is False) *)
  next_id : nat;
  now : Z }.

Definition init (t0 : Z) : state := mkState [] [] [] [] [] [] [] 0 t0.

Definition set_users (s : state) (u : list req) :=
  mkState u (queue s) (getq s) (pending s) (granted s) (intrs s) (dead s) (next_id s) (now s).
Definition set_queue (s : state) (q : list req) :=
  mkState (users s) q (getq s) (pending s) (granted s) (intrs s) (dead s) (next_id s) (now s).
Definition set_getq (s : state) (g : list (nat * nat)) :=
  mkState (users s) (queue s) g (pending s) (granted s) (intrs s) (dead s) (next_id s) (now s).
Definition set_pending (s : state) (p : list ev) :=
  mkState (users s) (queue s) (getq s) p (granted s) (intrs s) (dead s) (next_id s) (now s).
Definition add_intr (s : state) (i : intr) :=
  mkState (users s) (queue s) (getq s) (pending s) (granted s) (intrs s ++ [i]) (dead s) (next_id s) (now s).
Definition add_dead (s : state) (p : nat) :=
  mkState (users s) (queue s) (getq s) (pending s) (granted s) (intrs s) (p :: dead s) (next_id s) (now s).
Definition bump_id (s : state) :=
  mkState (users s) (queue s) (getq s) (pending s) (granted s) (intrs s) (dead s) (S (next_id s)) (now s).
Definition set_now (s : state) (t : Z) :=
  mkState (users s) (queue s) (getq s) (pending s) (granted s) (intrs s) (dead s) (next_id s) t.

(* ---- the scan loop shared by _trigger_put and _trigger_get --------------------------------------------
     idx = 0
     while idx < len(q):
         e = q[idx]
         proceed = self._do_xxx(e)
         if not e.triggered: idx += 1
         elif q.pop(idx) != e: raise RuntimeError       (pop(idx) IS e: _do_xxx never touches q)
         if not proceed: break
   [kept] = the elements before idx (reversed), [rest] = q[idx:].  [f] is _do_put/_do_get; it returns the
   new state, whether the event is triggered afterwards, and its return value; None = it raised. *)
Fixpoint scan {A : Type} (f : state -> A -> option (state * bool * bool)) (s : state)
         (kept rest : list A) : option (state * list A) :=
  match rest with
  | [] => Some (s, rev kept)
  | e :: rest' =>
      match f s e with
      | None => None
      | Some (s', triggered, proceed) =>
          if triggered then
            if proceed then scan f s' kept rest' else Some (s', rev kept ++ rest')
          else
            if proceed then scan f s' (e :: kept) rest' else Some (s', rev kept ++ e :: rest')
      end
  end.

(* Resource._do_put (this fork returns True when it granted, False otherwise) *)
Definition res_do_put (cap : nat) (s : state) (e : req) : state * bool * bool :=
  if length (users s) <? cap then
    let e' := mkReq (rid e) (rproc e) (rprio e) (rtime e) (rpre e) (Some (now s)) in   (* usage_since = now *)
    (mkState (users s ++ [e']) (queue s) (getq s)
             (pending s ++ [EReq (rid e)])                                            (* event.succeed() *)
             (granted s ++ [rid e]) (intrs s) (dead s) (next_id s) (now s), true, true)
  else (s, false, false).

(* sorted(self.users, key=lambda e: e.key)[-1] *)
Definition worst (u : list req) : option req :=
  match rev (ssort u) with
  | [] => None
  | w :: _ => Some w
  end.

Definition is_dead (s : state) (p : nat) : bool := existsb (Nat.eqb p) (dead s).

(* PreemptiveResource._do_put  (the test is `preempt.key > event.key`, i.e. event.key < preempt.key):
       self.users.remove(preempt)
       if preempt.proc.is_alive:                      (the fix: commit of C06; a dead process cannot be interrupted)
           preempt.proc.interrupt(Preempted(by=event.proc, usage_since=preempt.usage_since, resource=self))
   [active] = env.active_process: Process.interrupt raises RuntimeError when the victim is the active
   process (after the victim was already removed from users); that is the None below. *)
Definition preempt_do_put (cap : nat) (active : option nat) (s : state) (e : req)
  : option (state * bool * bool) :=
  if (cap <=? length (users s)) && rpre e then
    match worst (users s) with
    | None => None                                              (* IndexError: sorted([])[-1] *)
    | Some w =>
        if key_ltb (rkey e) (rkey w) then
          let s1 := set_users s (remove_id (rid w) (users s)) in
          if is_dead s (rproc w) then Some (res_do_put cap (add_intr s1 (mkIntr w e false)) e)
          else
          match active with
          | Some a => if a =? rproc w then None                 (* "A process is not allowed to interrupt itself." *)
                      else Some (res_do_put cap (add_intr s1 (mkIntr w e true)) e)
          | None => Some (res_do_put cap (add_intr s1 (mkIntr w e true)) e)
          end
        else Some (res_do_put cap s e)
    end
  else Some (res_do_put cap s e).

Definition do_put (k : kind) (cap : nat) (active : option nat) (s : state) (e : req)
  : option (state * bool * bool) :=
  match k with
  | KPreempt => preempt_do_put cap active s e
  | _ => Some (res_do_put cap s e)
  end.

(* Resource._do_get:  users.remove(event.request) if present; event.succeed(); return True *)
Definition do_get (s : state) (g : nat * nat) : option (state * bool * bool) :=
  Some (mkState (remove_id (snd g) (users s)) (queue s) (getq s) (pending s ++ [ERel (fst g)])
                (granted s) (intrs s) (dead s) (next_id s) (now s), true, true).

Definition trigger_put (k : kind) (cap : nat) (active : option nat) (s : state) : option state :=
  match scan (do_put k cap active) s [] (queue s) with
  | Some (s', q') => Some (set_queue s' q')
  | None => None
  end.

Definition trigger_get (s : state) : option state :=
  match scan do_get s [] (getq s) with
  | Some (s', g') => Some (set_getq s' g')
  | None => None
  end.

(* ---- actions ------------------------------------------------------------------------------------------ *)
Inductive action :=
| ARequest (p : nat) (prio : Z) (pre : bool)   (* process p calls resource.request(prio, pre)  (request() for KRes) *)
| ARelease (r : nat)                           (* somebody calls resource.release(<request r>) *)
| ACancel (p : nat) (r : nat)                  (* process p calls <request r>.cancel()   (also __exit__ with GeneratorExit) *)
| AExit (p : nat) (r : nat)                    (* process p leaves `with <request r>`: __exit__ = cancel(), then resource.release(self) *)
| AProcess (e : ev)                            (* the kernel's step() processes the triggered event e *)
| AAdvance (t : Z)                             (* the clock moves to t *)
| AEnd (p : nat).                              (* the generator of process p ends (with or without having released) *)

(* Release.__init__ / Get.__init__:  get_queue.append(self); callbacks.append(_trigger_put); _trigger_get(None) *)
Definition release (s : state) (r : nat) : option state :=
  trigger_get (bump_id (set_getq s (getq s ++ [(next_id s, r)]))).

(* Put.cancel (as repaired by the fix: commit of C07):
     if not self.triggered:
         self.resource.put_queue.remove(self)          (ValueError when absent)
         self.resource._trigger_put(None)              (rescan; p is the active process) *)
Definition cancel (k : kind) (cap : nat) (p : nat) (s : state) (r : nat) : option state :=
  if existsb (Nat.eqb r) (granted s) then Some s
  else if has_id r (queue s) then trigger_put k cap (Some p) (set_queue s (remove_id r (queue s)))
  else None.

Definition step (k : kind) (cap : nat) (s : state) (a : action) : option state :=
  match a with
  | ARequest p prio pre =>
      (* PriorityRequest.__init__: key from (priority, env.now, not preempt);  Put.__init__: proc = active
         process, put_queue.append(self), callbacks.append(_trigger_get), _trigger_put(None) *)
      let e := mkReq (next_id s) p prio (now s) pre None in
      trigger_put k cap (Some p) (bump_id (set_queue s (enqueue k (queue s) e)))
  | ARelease r => release s r
  | ACancel p r => cancel k cap p s r
  | AExit p r => match cancel k cap p s r with Some s1 => release s1 r | None => None end
  | AProcess e =>
      if has_ev e (pending s) then
        let s1 := set_pending s (remove_ev e (pending s)) in
        match e with
        | EReq _ => trigger_get s1                               (* callbacks[0] of a Request = _trigger_get *)
        | ERel _ => trigger_put k cap None s1         (* callbacks[0] of a Release = _trigger_put *)
        end
      else None
  | AAdvance t => Some (set_now s t)
  | AEnd p => Some (add_dead s p)
  end.

(* ---- admissible histories ----------------------------------------------------------------------------
   - a process holds or awaits at most one request of the resource (the quantifier of C06),
   - cancel()/__exit__ is called on a request that has been granted, or is still queued and then by the
     process that made it (a second cancel of a cancelled request raises ValueError in list.remove; no
     claim is made about it),
   - the kernel processes only events that are triggered and unprocessed,
   - the clock advances only when no triggered event of the resource is unprocessed (they are all
     scheduled for `now`; C01), and it moves forward,
   - a process that has ended does nothing any more.  (It may have ended holding a slot or queueing.) *)
Definition adm (s : state) (a : action) : bool :=
  match a with
  | ARequest p _ _ => forallb (fun r => negb (rproc r =? p)) (users s ++ queue s) && negb (is_dead s p)
  | ARelease _ => true
  | ACancel p r | AExit p r =>
      (existsb (Nat.eqb r) (granted s) || existsb (fun x => (rid x =? r) && (rproc x =? p)) (queue s))
      && negb (is_dead s p)
  | AProcess e => has_ev e (pending s)
  | AAdvance t => match pending s with [] => (now s <? t)%Z | _ => false end
  | AEnd p => negb (is_dead s p)
  end.

Fixpoint run (k : kind) (cap : nat) (s : state) (l : list action) : option state :=
  match l with
  | [] => Some s
  | a :: t =>
      if adm s a then
        match step k cap s a with
        | Some s' => run k cap s' t
        | None => None
        end
      else None
  end.

(* ---- ranks ------------------------------------------------------------------------------------------- *)
(* queue rank: arrival for Resource; (priority, time, preempting first), then arrival, for the others *)
Definition rank_ltb (k : kind) (x y : req) : bool :=
  match k with
  | KRes => rid x <? rid y
  | _ => key_ltb (rkey x) (rkey y) || (key_eqb (rkey x) (rkey y) && (rid x <? rid y))
  end.

(* ---- correspondence: replay an observed action list and compare after every action ---------------------- *)
(* observation after an action: now, ids of users, ids of the queue, resource.count, pending events in agenda
   order, ids of triggered requests (ascending), number of Interruption events created so far *)
Definition snap := (Z * list nat * list nat * nat * list ev * list nat * nat)%type.

Fixpoint listnat_eqb (a b : list nat) : bool :=
  match a, b with
  | [], [] => true
  | x :: a', y :: b' => (x =? y) && listnat_eqb a' b'
  | _, _ => false
  end.
Fixpoint listev_eqb (a b : list ev) : bool :=
  match a, b with
  | [], [] => true
  | x :: a', y :: b' => ev_eqb x y && listev_eqb a' b'
  | _, _ => false
  end.
Definition subset_nat (a b : list nat) : bool := forallb (fun x => existsb (Nat.eqb x) b) a.

Definition snap_ok (s : state) (o : snap) : bool :=
  match o with
  | (t, us, qs, cnt, pe, tr, ni) =>
      (now s =? t)%Z && listnat_eqb (map rid (users s)) us && listnat_eqb (map rid (queue s)) qs
      && (length (users s) =? cnt) && listev_eqb (pending s) pe
      && (length (granted s) =? length tr) && subset_nat tr (granted s) && subset_nat (granted s) tr
      && (length (filter inotified (intrs s)) =? ni) && match getq s with [] => true | _ => false end
  end.

Fixpoint replay (k : kind) (cap : nat) (s : state) (l : list (action * snap)) : option state :=
  match l with
  | [] => Some s
  | (a, o) :: t =>
      if adm s a then
        match step k cap s a with
        | Some s' => if snap_ok s' o then replay k cap s' t else None
        | None => None
        end
      else None
  end.

Definition optZ_eqb (a b : option Z) : bool :=
  match a, b with
  | None, None => true
  | Some x, Some y => (x =? y)%Z
  | _, _ => false
  end.
Fixpoint intrs_eqb (a : list intr) (b : list (nat * nat * option Z)) : bool :=
  match a, b with
  | [], [] => true
  | i :: a', (v, by_, us) :: b' =>
      match intr_fields i with
      | (v', by', us') => (v' =? v) && (by' =? by_) && optZ_eqb us' us && intrs_eqb a' b'
      end
  | _, _ => false
  end.

(* the whole observed execution is admissible for the model, the model shows the observed state after
   every action, and it issued exactly the observed interrupts *)
Definition agree (k : kind) (cap : nat) (t0 : Z) (l : list (action * snap)) (is : list (nat * nat * option Z)) : bool :=
  match replay k cap (init t0) l with
  | Some s => intrs_eqb (filter inotified (intrs s)) is
  | None => false
  end.

(* diagnosis: index of the first action at which the replay stops, and the model's state there *)
Fixpoint first_bad (k : kind) (cap : nat) (s : state) (n : nat) (l : list (action * snap)) : option (nat * bool * option state) :=
  match l with
  | [] => None
  | (a, o) :: t =>
      if adm s a then
        match step k cap s a with
        | Some s' => if snap_ok s' o then first_bad k cap s' (S n) t else Some (n, true, Some s')
        | None => Some (n, true, None)
        end
      else Some (n, false, Some s)
  end.

(* ---- interface for the generated case files (everything given as Z literals) --------------------------- *)
Definition zn (z : Z) : nat := Z.to_nat z.
Definition Rq (p prio : Z) (pre : bool) : action := ARequest (zn p) prio pre.
Definition Rl (r : Z) : action := ARelease (zn r).
Definition Cn (p r : Z) : action := ACancel (zn p) (zn r).
Definition Ex (p r : Z) : action := AExit (zn p) (zn r).
Definition Pq (i : Z) : action := AProcess (EReq (zn i)).      (* a Request event is processed *)
Definition Pr (i : Z) : action := AProcess (ERel (zn i)).      (* a Release event is processed *)
Definition Ad (t : Z) : action := AAdvance t.
Definition En (p : Z) : action := AEnd (zn p).
Definition mkev (x : bool * Z) : ev := if fst x then ERel (zn (snd x)) else EReq (zn (snd x)).
Definition Sn (t : Z) (us qs : list Z) (cnt : Z) (pe : list (bool * Z)) (tr : list Z) (ni : Z) : snap :=
  (t, map zn us, map zn qs, zn cnt, map mkev pe, map zn tr, zn ni).
Definition In3 (v b : Z) (us : option Z) : nat * nat * option Z := (zn v, zn b, us).
Definition kind_of (z : Z) : kind := if (z =? 0)%Z then KRes else if (z =? 1)%Z then KPrio else KPreempt.
Definition agreeZ (k cap t0 : Z) (l : list (action * snap)) (is : list (nat * nat * option Z)) : bool :=
  agree (kind_of k) (zn cap) t0 l is.
(* readable dump of a state for diagnosis *)
Definition dump (s : state) :=
  (now s, map rid (users s), map rid (queue s), pending s, granted s,
   map (fun i => (intr_fields i, inotified i)) (intrs s), dead s, next_id s).
Definition diagZ (k cap t0 : Z) (l : list (action * snap)) :=
  match first_bad (kind_of k) (zn cap) (init t0) 0 l with
  | None => None
  | Some (n, admissible, st) => Some (n, admissible, option_map dump st)
  end.
