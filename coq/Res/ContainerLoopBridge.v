(* Bridging lemmas (DESIGN 2.6, second tie) for the resource base class as the Container / Store family uses it (C07):
   BaseResource._trigger_put / _trigger_get (Gen/Extracted_scan.v, run by Res/ScanBridge.v [run_scan]) and Put / Get
   .__init__ / .cancel (Gen/Extracted_baseres.v) are [trigger_put] / [trigger_get] and the [APut] / [AGet] / [ACancel]
   steps of the hand-written model (Res/ContainerStore.v), for every kind (Container, Store, PriorityStore, FilterStore).
   The model's scan returns the grants of the scan as a list; the run of the generated loop carries them in its state. *)
From Coq Require Import ZArith QArith List Bool Arith Lia.
From ONL Require Import Res.Heap Res.ContainerStore Gen.Extracted_scan Res.ScanBridge Gen.Extracted_baseres.
Import ListNotations.

Section CS.
  Context {C P V : Type}.
  Variable doit : C -> P -> dores C V.

  (* _do_xxx as the generic scan sees it: content and grants so far; triggered iff succeed() was called *)
  Definition do_fn (st : C * list (nat * P * V)) (r : nat * P) : option (C * list (nat * P * V) * bool * bool) :=
    let res := doit (fst st) (snd r) in
    Some (r_c res, match r_val res with Some v => snd st ++ [(r, v)] | None => snd st end,
          match r_val res with Some _ => true | None => false end, r_proceed res).

  Lemma cs_scan_gscan q : forall c gs kept,
    gscan do_fn (c, gs) kept q =
    let '(c', rem, gs') := scan doit c q in Some ((c', gs ++ gs'), rev kept ++ rem).
  Proof.
    induction q as [|r t IH]; intros c gs kept; cbn [gscan scan].
    - cbn. pose proof (app_nil_r gs) as E1. pose proof (app_nil_r (rev kept)) as E2. congruence.
    - unfold do_fn at 1. cbn [fst snd].
      destruct (r_val (doit c (snd r))) as [v|] eqn:EV, (r_proceed (doit c (snd r))) eqn:EP.
      + rewrite IH. destruct (scan doit (r_c (doit c (snd r))) t) as [[c' rem] gs']. rewrite <- app_assoc. reflexivity.
      + reflexivity.
      + rewrite IH. destruct (scan doit (r_c (doit c (snd r))) t) as [[c' rem] gs']. cbn [rev]. rewrite <- app_assoc. reflexivity.
      + rewrite ?List.app_nil_r. reflexivity.
  Qed.
End CS.

Definition c0 : scan_st := {| l_idx := 0 |}.
Definition cq0 : req_st := {| q_priority := 0; q_preempt := false; q_time := 0 |}.

Section Kind.
  Variable K : kind.

  Definition gen_put_scan (s : state K) :=
    run_scan (do_fn (k_do_put K)) gen_trigger_put_iter (S (length (putq s))) (content s, []) (putq s) (fst (gen_trigger_put_init c0)).
  Definition gen_get_scan (s : state K) :=
    run_scan (do_fn (k_do_get K)) gen_trigger_get_iter (S (length (getq s))) (content s, []) (getq s) (fst (gen_trigger_get_init c0)).

  Lemma bridge_cs_trigger_put (s : state K) :
    match gen_put_scan s with
    | Some ((c, gs), rem) =>
        trigger_put s = mkst c rem (getq s) (trig s ++ map (fun g => (fst (fst g), EvPut)) gs)
                             (log s ++ map (fun g => GPut (fst (fst g)) (snd (fst g))) gs) (next_id s) (now s)
    | None => False
    end.
  Proof.
    unfold gen_put_scan.
    rewrite (run_scan_from_init (do_fn (k_do_put K)) gen_trigger_put_iter gen_put_iter_ok gen_trigger_put_init c0 _ _ (gen_put_init_ok c0)).
    rewrite cs_scan_gscan. unfold trigger_put.
    destruct (scan (k_do_put K) (content s) (putq s)) as [[c rem] gs]. reflexivity.
  Qed.

  Lemma bridge_cs_trigger_get (s : state K) :
    match gen_get_scan s with
    | Some ((c, gs), rem) =>
        trigger_get s = mkst c (putq s) rem (trig s ++ map (fun g => (fst (fst g), EvGet)) gs)
                             (log s ++ map (fun g => GGet (fst (fst g)) (snd (fst g)) (snd g)) gs) (next_id s) (now s)
    | None => False
    end.
  Proof.
    unfold gen_get_scan.
    rewrite (run_scan_from_init (do_fn (k_do_get K)) gen_trigger_get_iter gen_get_iter_ok gen_trigger_get_init c0 _ _ (gen_get_init_ok c0)).
    rewrite cs_scan_gscan. unfold trigger_get.
    destruct (scan (k_do_get K) (content s) (getq s)) as [[c rem] gs]. reflexivity.
  Qed.

  (* Put.__init__ / Get.__init__ with a valid argument (the argument check is the subclass constructor's) *)
  Definition cs_put_init_fx (s : state K) (p : KP K) (fx : list base_fx) : option (state K) :=
    match fx with
    | [FxEventInit; FxSetResource; FxSetProc; FxEnqueuePut; FxCallbackTriggerGet; FxTriggerPut] =>
        Some (trigger_put (mkst (content s) (putq s ++ [(next_id s, p)]) (getq s) (trig s) (log s) (S (next_id s)) (now s)))
    | _ => None
    end.
  Definition cs_get_init_fx (s : state K) (g : KG K) (fx : list base_fx) : option (state K) :=
    match fx with
    | [FxEventInit; FxSetResource; FxSetProc; FxEnqueueGet; FxCallbackTriggerPut; FxTriggerGet] =>
        Some (trigger_get (mkst (content s) (putq s) (getq s ++ [(next_id s, g)]) (trig s) (log s) (S (next_id s)) (now s)))
    | _ => None
    end.

  Lemma bridge_cs_put_init fixed (s : state K) p :
    k_pvalid K p = true -> cs_put_init_fx s p (snd (gen_Put_init cq0)) = step fixed s (APut p).
  Proof. intros H. cbn. rewrite H. reflexivity. Qed.
  Lemma bridge_cs_get_init fixed (s : state K) g :
    k_gvalid K g = true -> cs_get_init_fx s g (snd (gen_Get_init cq0)) = step fixed s (AGet g).
  Proof. intros H. cbn. rewrite H. reflexivity. Qed.

  (* cancel of a request that is still queued (the repaired code rescans) / of a triggered one *)
  Definition cs_cancel_fx (i : nat) (s : state K) (fx : list base_fx) : option (state K) :=
    match fx with
    | [] => Some s
    | [FxDequeuePut; FxTriggerPut] =>
        if mem_id i (putq s)
        then Some (trigger_put (mkst (content s) (remove_id i (putq s)) (getq s) (trig s) (log s) (next_id s) (now s)))
        else None
    | [FxDequeueGet; FxTriggerGet] =>
        if mem_id i (getq s)
        then Some (trigger_get (mkst (content s) (putq s) (remove_id i (getq s)) (trig s) (log s) (next_id s) (now s)))
        else None
    | _ => None
    end.

  Lemma bridge_cs_put_cancel (s : state K) i :
    mem_id i (putq s) = true -> cs_cancel_fx i s (snd (gen_Put_cancel cq0 false)) = step true s (ACancel i).
  Proof. intros H. cbn. rewrite H. reflexivity. Qed.
  Lemma bridge_cs_get_cancel (s : state K) i :
    mem_id i (putq s) = false -> mem_id i (getq s) = true ->
    cs_cancel_fx i s (snd (gen_Get_cancel cq0 false)) = step true s (ACancel i).
  Proof. intros H1 H2. cbn. rewrite H1, H2. reflexivity. Qed.
  Lemma bridge_cs_cancel_triggered (s : state K) i :
    mem_id i (putq s) = false -> mem_id i (getq s) = false -> Nat.ltb i (next_id s) = true ->
    cs_cancel_fx i s (snd (gen_Put_cancel cq0 true)) = step true s (ACancel i).
  Proof. intros H1 H2 H3. unfold step. rewrite H1, H2, H3. reflexivity. Qed.
End Kind.

(* ---- non-vacuity witnesses: a Container of capacity 5 holding 1 with a put of 9 queued; a put of 2 arrives ------------- *)
Definition exK : kind := Container (Some (5 # 1)).
Definition xp (q : Q) : KP exK := q.
Definition xg (q : Q) : KG exK := q.
Definition xc (q : Q) : KC exK := q.
Definition ex_s : state exK := mkst (K:=exK) (xc (1 # 1)) [(0%nat, xp (9 # 1))] [] [] [] 1%nat 0.

Lemma ex_cs_put_init :
  k_pvalid exK (xp (2 # 1)) = true /\
  cs_put_init_fx exK ex_s (xp (2 # 1)) (snd (gen_Put_init cq0)) = step true ex_s (APut (xp (2 # 1))) /\
  (* the blocked head stays queued, the scan stops there (FCFS), nothing is granted *)
  option_map (@putq exK) (step true ex_s (APut (xp (2 # 1)))) = Some [(0%nat, xp (9 # 1)); (1%nat, xp (2 # 1))].
Proof. split; [reflexivity|]. split; [apply bridge_cs_put_init; reflexivity|]. vm_compute. reflexivity. Qed.

Lemma ex_cs_get_init :
  k_gvalid exK (xg (1 # 1)) = true /\
  cs_get_init_fx exK ex_s (xg (1 # 1)) (snd (gen_Get_init cq0)) = step true ex_s (AGet (xg (1 # 1))) /\
  option_map (fun s => (content s, ids (getq s))) (step true ex_s (AGet (xg (1 # 1)))) = Some (xc 0, []).
Proof. split; [reflexivity|]. split; [apply bridge_cs_get_init; reflexivity|]. vm_compute. reflexivity. Qed.

Lemma ex_cs_put_cancel :
  mem_id 0 (putq ex_s) = true /\
  cs_cancel_fx exK 0 ex_s (snd (gen_Put_cancel cq0 false)) = step true ex_s (ACancel 0) /\
  option_map (@putq exK) (step true ex_s (ACancel 0)) = Some [].
Proof. split; [reflexivity|]. split; [apply bridge_cs_put_cancel; reflexivity|]. vm_compute. reflexivity. Qed.

Definition ex_s2 : state exK := mkst (K:=exK) (xc 0) [] [(0%nat, xg (1 # 1))] [] [] 1%nat 0.
Lemma ex_cs_get_cancel :
  mem_id 0 (putq ex_s2) = false /\ mem_id 0 (getq ex_s2) = true /\
  cs_cancel_fx exK 0 ex_s2 (snd (gen_Get_cancel cq0 false)) = step true ex_s2 (ACancel 0) /\
  option_map (@getq exK) (step true ex_s2 (ACancel 0)) = Some [].
Proof. split; [reflexivity|]. split; [reflexivity|]. split; [apply bridge_cs_get_cancel; reflexivity|]. vm_compute. reflexivity. Qed.

Definition ex_s3 : state exK := mkst (K:=exK) (xc 0) [] [] [(0%nat, EvPut)] [GPut 0%nat (xp (1 # 1))] 1%nat 0.
Lemma ex_cs_cancel_triggered :
  mem_id 0 (putq ex_s3) = false /\ mem_id 0 (getq ex_s3) = false /\ Nat.ltb 0 (next_id ex_s3) = true /\
  cs_cancel_fx exK 0 ex_s3 (snd (gen_Put_cancel cq0 true)) = step true ex_s3 (ACancel 0) /\
  step true ex_s3 (ACancel 0) = Some ex_s3.
Proof. repeat split; try reflexivity. Qed.
