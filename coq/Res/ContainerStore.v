(* Standalone model of onl/sim/resources/base.py (BaseResource, Put, Get) with the four concrete
   resources of container.py and store.py, as a nondeterministic automaton with explicit micro-steps.

   What is modelled, line by line:
     base.py:29-35   Put.__init__ : put_queue.append(self); callbacks.append(_trigger_get); _trigger_put(None)
     base.py:63-70   Get.__init__ : get_queue.append(self); callbacks.append(_trigger_put); _trigger_get(None)
     base.py:49-57, 84-95  cancel : if not triggered: queue.remove(self)  [+ rescan, the fix: commit]
     base.py:138-166 _trigger_put, 172-196 _trigger_get : the idx/proceed scan loops  ([scan])
     core.py:196-215 step : a triggered event is popped from the agenda and its callbacks run; the first
                     callback of a Put event is _trigger_get, of a Get event _trigger_put  ([AProcess])
   An execution is a list of [action]s.  Nothing is assumed about who issues the operations or how
   they interleave inside one instant: theorems quantify over ALL admissible action lists.  The only
   fact about the kernel that is used is: a triggered event is scheduled for `now`, so the clock does
   not advance while a triggered, unprocessed event of the resource exists ([AAdvance] admissible only
   when [trig] is empty).
   Executable; no proofs here. *)
From Coq Require Import ZArith QArith List Bool Arith.
From ONL Require Import Res.Heap.
Import ListNotations.

(* result of one _do_put/_do_get call: the new content, Some v iff event.succeed(v) was called,
   and the boolean the method returns (True: the scan goes on, False: break) *)
Record dores (C V : Type) := mkres { r_c : C; r_val : option V; r_proceed : bool }.
Arguments mkres {C V}.
Arguments r_c {C V}.
Arguments r_val {C V}.
Arguments r_proceed {C V}.

Record kind := mkkind {
  KC : Type;                      (* content: level / items *)
  KP : Type;                      (* parameter of a put request: amount / item *)
  KG : Type;                      (* parameter of a get request: amount / nothing / filter *)
  KV : Type;                      (* value a get event is triggered with *)
  k_pvalid : KP -> bool;          (* argument check in the request constructor; false: ValueError, no request *)
  k_gvalid : KG -> bool;
  k_do_put : KC -> KP -> dores KC unit;
  k_do_get : KC -> KG -> dores KC KV
}.

(* ------------------------------------------------------------------------------------------------
   the scan loop of _trigger_put / _trigger_get (identical code):

        idx = 0
        while idx < len(queue):
            ev = queue[idx]
            proceed = self._do(ev)
            if not ev.triggered:   idx += 1
            elif queue.pop(idx) != ev:  raise RuntimeError(...)      # cannot happen: queue[idx] is ev
            if not proceed: break

   The recursion is on the part of the queue from idx on: [r] is queue[idx], [t] what follows; the
   entries before idx are the ones kept by earlier iterations.  Returns the content, the queue after
   the loop and the requests triggered by it, in order, with their values. *)
Section Scan.
  Context {C P V : Type}.
  Variable doit : C -> P -> dores C V.

  Fixpoint scan (c : C) (q : list (nat * P)) : C * list (nat * P) * list (nat * P * V) :=
    match q with
    | [] => (c, [], [])
    | r :: t =>
        let res := doit c (snd r) in
        match r_val res with
        | None =>                                   (* not triggered: idx += 1 *)
            if r_proceed res
            then let '(c', rem, gs) := scan (r_c res) t in (c', r :: rem, gs)
            else (r_c res, r :: t, [])
        | Some v =>                                 (* triggered: queue.pop(idx) *)
            if r_proceed res
            then let '(c', rem, gs) := scan (r_c res) t in (c', rem, (r, v) :: gs)
            else (r_c res, t, [(r, v)])
        end
    end.
End Scan.

Inductive evk := EvPut | EvGet.
Definition evk_eqb (a b : evk) : bool :=
  match a, b with EvPut, EvPut | EvGet, EvGet => true | _, _ => false end.

Inductive grant (K : kind) :=
| GPut (id : nat) (p : KP K)
| GGet (id : nat) (g : KG K) (v : KV K).
Arguments GPut {K}.
Arguments GGet {K}.

Definition grant_id {K} (g : grant K) : nat :=
  match g with GPut i _ => i | GGet i _ _ => i end.

Record state (K : kind) := mkst {
  content : KC K;
  putq : list (nat * KP K);       (* put_queue: (request id, parameter); ids are creation indices *)
  getq : list (nat * KG K);       (* get_queue *)
  trig : list (nat * evk);        (* triggered, not yet processed request events (on the agenda for `now`) *)
  log : list (grant K);           (* ghost: every succeed() so far, in the order they happened *)
  next_id : nat;
  now : Q
}.
Arguments mkst {K}.
Arguments content {K}.
Arguments putq {K}.
Arguments getq {K}.
Arguments trig {K}.
Arguments log {K}.
Arguments next_id {K}.
Arguments now {K}.

Inductive action (K : kind) :=
| APut (p : KP K)                 (* resource.put(p)  *)
| AGet (g : KG K)                 (* resource.get(g)  *)
| ACancel (id : nat)              (* request.cancel() / __exit__ of a with block *)
| AProcess (id : nat)             (* Environment.step pops the triggered request event id: its rescan callback runs *)
| AAdvance (t : Q).               (* the clock moves to t *)
Arguments APut {K}.
Arguments AGet {K}.
Arguments ACancel {K}.
Arguments AProcess {K}.
Arguments AAdvance {K}.

Definition Qlt_bool (a b : Q) : bool := negb (Qle_bool b a).

Fixpoint mem_id {P : Type} (i : nat) (q : list (nat * P)) : bool :=
  match q with [] => false | r :: t => Nat.eqb (fst r) i || mem_id i t end.

(* list.remove(x): the first occurrence *)
Fixpoint remove_id {P : Type} (i : nat) (q : list (nat * P)) : list (nat * P) :=
  match q with [] => [] | r :: t => if Nat.eqb (fst r) i then t else r :: remove_id i t end.

Fixpoint find_id {P : Type} (i : nat) (q : list (nat * P)) : option P :=
  match q with [] => None | r :: t => if Nat.eqb (fst r) i then Some (snd r) else find_id i t end.

Section Step.
  Variable K : kind.

  Definition trigger_put (s : state K) : state K :=
    let '(c, rem, gs) := scan (k_do_put K) (content s) (putq s) in
    mkst c rem (getq s)
         (trig s ++ map (fun g => (fst (fst g), EvPut)) gs)
         (log s ++ map (fun g => GPut (fst (fst g)) (snd (fst g))) gs)
         (next_id s) (now s).

  Definition trigger_get (s : state K) : state K :=
    let '(c, rem, gs) := scan (k_do_get K) (content s) (getq s) in
    mkst c (putq s) rem
         (trig s ++ map (fun g => (fst (fst g), EvGet)) gs)
         (log s ++ map (fun g => GGet (fst (fst g)) (snd (fst g)) (snd g)) gs)
         (next_id s) (now s).

  Definition log_has (i : nat) (s : state K) : bool := existsb (fun g => Nat.eqb (grant_id g) i) (log s).

  (* [fixed = true]: the repaired cancel (rescan after the removal); [false]: the code as found.
     None = the action is not admissible in s.  Calls that raise ValueError (an invalid amount; cancel of
     a request that was already cancelled: list.remove(x) with x not in the list) leave the state as it
     is; [raises] tells them apart. *)
  Definition step (fixed : bool) (s : state K) (a : action K) : option (state K) :=
    match a with
    | APut p =>
        if k_pvalid K p then
          Some (trigger_put (mkst (content s) (putq s ++ [(next_id s, p)]) (getq s) (trig s) (log s)
                                  (S (next_id s)) (now s)))
        else Some s
    | AGet g =>
        if k_gvalid K g then
          Some (trigger_get (mkst (content s) (putq s) (getq s ++ [(next_id s, g)]) (trig s) (log s)
                                  (S (next_id s)) (now s)))
        else Some s
    | ACancel i =>
        if mem_id i (putq s) then
          let s1 := mkst (content s) (remove_id i (putq s)) (getq s) (trig s) (log s) (next_id s) (now s) in
          Some (if fixed then trigger_put s1 else s1)
        else if mem_id i (getq s) then
          let s1 := mkst (content s) (putq s) (remove_id i (getq s)) (trig s) (log s) (next_id s) (now s) in
          Some (if fixed then trigger_get s1 else s1)
        else if Nat.ltb i (next_id s) then Some s    (* triggered: nothing happens; cancelled before: raises *)
        else None                                    (* no such request *)
    | AProcess i =>
        match find_id i (trig s) with
        | None => None                               (* not a triggered, unprocessed event *)
        | Some k =>
            let s1 := mkst (content s) (putq s) (getq s) (remove_id i (trig s)) (log s) (next_id s) (now s) in
            Some (match k with EvPut => trigger_get s1 | EvGet => trigger_put s1 end)
        end
    | AAdvance t =>
        match trig s with
        | [] => if Qlt_bool (now s) t
                then Some (mkst (content s) (putq s) (getq s) [] (log s) (next_id s) t) else None
        | _ :: _ => None                             (* an event of this resource is still due at `now` *)
        end
    end.

  Definition raises (s : state K) (a : action K) : bool :=
    match a with
    | APut p => negb (k_pvalid K p)
    | AGet g => negb (k_gvalid K g)
    | ACancel i => negb (mem_id i (putq s)) && negb (mem_id i (getq s)) && Nat.ltb i (next_id s)
                   && negb (log_has i s)
    | _ => false
    end.

  Fixpoint run (fixed : bool) (s : state K) (acts : list (action K)) : option (state K) :=
    match acts with
    | [] => Some s
    | a :: t => match step fixed s a with Some s' => run fixed s' t | None => None end
    end.

  (* for the correspondence: the state after every action, and whether the call raised;
     None as soon as an action is not admissible *)
  Fixpoint trace (fixed : bool) (s : state K) (acts : list (action K)) : option (list (state K * bool)) :=
    match acts with
    | [] => Some []
    | a :: t =>
        match step fixed s a with
        | None => None
        | Some s' => match trace fixed s' t with
                     | None => None
                     | Some l => Some ((s', raises s a) :: l)
                     end
        end
    end.

  Definition init (c0 : KC K) (t0 : Q) : state K := mkst c0 [] [] [] [] 0%nat t0.
End Step.

Arguments trigger_put {K}.
Arguments trigger_get {K}.
Arguments step {K}.
Arguments raises {K}.
Arguments run {K}.
Arguments trace {K}.
Arguments init {K}.

(* ------------------------------------------------------------------------------------------------
   Container (container.py:77-91).  capacity None = float('inf').  Levels are kept reduced. *)
Definition room_for (cap : option Q) (level amount : Q) : bool :=
  match cap with
  | None => true                                   (* inf - level >= amount *)
  | Some c => Qle_bool amount (c - level)          (* self._capacity - self._level >= event.amount *)
  end.

Definition c_do_put (cap : option Q) (level amount : Q) : dores Q unit :=
  if room_for cap level amount
  then mkres (Qred (level + amount)) (Some tt) true
  else mkres level None false.

Definition c_do_get (level amount : Q) : dores Q unit :=
  if Qle_bool amount level                         (* self._level >= event.amount *)
  then mkres (Qred (level - amount)) (Some tt) true
  else mkres level None false.

Definition amount_ok (a : Q) : bool := Qlt_bool 0 a.    (* if amount <= 0: raise ValueError *)

Definition Container (cap : option Q) : kind :=
  mkkind Q Q Q unit amount_ok amount_ok (c_do_put cap) c_do_get.

(* ------------------------------------------------------------------------------------------------
   Store (store.py:87-100) *)
Definition has_room (cap : option Q) (n : nat) : bool :=
  match cap with
  | None => true
  | Some c => Qle_bool (inject_Z (Z.of_nat n) + 1) c    (* len(self.items) + 1 <= self._capacity *)
  end.

(* the guard before fix: 2019701:  len(self.items) < self._capacity  (admits ceil(capacity) items) *)
Definition has_room_old (cap : option Q) (n : nat) : bool :=
  match cap with
  | None => true
  | Some c => Qlt_bool (inject_Z (Z.of_nat n)) c
  end.

Section Stores.
  Variable A : Type.

  Definition s_do_put (cap : option Q) (items : list A) (item : A) : dores (list A) unit :=
    if has_room cap (length items)
    then mkres (items ++ [item]) (Some tt) true     (* self.items.append(event.item) *)
    else mkres items None false.

  Definition s_do_get (items : list A) (_ : unit) : dores (list A) A :=
    match items with
    | x :: t => mkres t (Some x) true               (* event.succeed(self.items.pop(0)) *)
    | [] => mkres [] None false
    end.

  Definition Store (cap : option Q) : kind :=
    mkkind (list A) A unit A (fun _ => true) (fun _ => true) (s_do_put cap) s_do_get.

  (* the Store of the code as found (old capacity guard), only used by the refutation theorem *)
  Definition s_do_put_old (cap : option Q) (items : list A) (item : A) : dores (list A) unit :=
    if has_room_old cap (length items)
    then mkres (items ++ [item]) (Some tt) true
    else mkres items None false.

  Definition Store_unfixed (cap : option Q) : kind :=
    mkkind (list A) A unit A (fun _ => true) (fun _ => true) (s_do_put_old cap) s_do_get.

  (* PriorityStore (store.py:116-129); [key] is what `<` compares (PriorityItem.priority).
     The error result of the heap functions (out of fuel / bad index) is mapped to "nothing happens";
     HeapProofs.heappush_total / heappop_total show it never occurs, for any list. *)
  Variable key : A -> Z.

  Definition p_do_put (cap : option Q) (items : list A) (item : A) : dores (list A) unit :=
    if has_room cap (length items)
    then match heappush key items item with
         | Some h => mkres h (Some tt) true
         | None => mkres items None false
         end
    else mkres items None false.

  Definition p_do_get (items : list A) (_ : unit) : dores (list A) A :=
    match items with
    | _ :: _ =>
        match heappop key items with
        | Some (x, h) => mkres h (Some x) true
        | None => mkres items None false
        end
    | [] => mkres [] None false
    end.

  Definition PriorityStore (cap : option Q) : kind :=
    mkkind (list A) A unit A (fun _ => true) (fun _ => true) (p_do_put cap) p_do_get.

  (* FilterStore (store.py:143-149):
        for item in self.items:
            if event.filter(item): self.items.remove(item); event.succeed(item); break
        return True
     (repaired, fix: 937b0a6:  for i, item in enumerate(self.items): if event.filter(item): del self.items[i]; ...)
     the matched element itself is removed. *)
  Fixpoint take_first (f : A -> bool) (l : list A) : option (A * list A) :=
    match l with
    | [] => None
    | x :: t =>
        if f x then Some (x, t)
        else match take_first f t with
             | Some (y, t') => Some (y, x :: t')
             | None => None
             end
    end.

  Definition f_do_get (items : list A) (f : A -> bool) : dores (list A) A :=
    match take_first f items with
    | Some (x, rest) => mkres rest (Some x) true
    | None => mkres items None true
    end.

  Definition FilterStore (cap : option Q) : kind :=
    mkkind (list A) A (A -> bool) A (fun _ => true) (fun _ => true) (s_do_put cap) f_do_get.

  (* FilterStore._do_get as found (before fix: 937b0a6):
        for item in self.items:
            if event.filter(item): self.items.remove(item); event.succeed(item); break
     list.remove(item) removes the first element that compares EQUAL to item (Python ==, here [veq]),
     which need not be the matched element.  Only used by the refutation theorem. *)
  Variable veq : A -> A -> bool.

  Fixpoint remove_eq (x : A) (l : list A) : list A :=
    match l with
    | [] => []
    | y :: t => if veq x y then t else y :: remove_eq x t
    end.

  Definition f_do_get_old (items : list A) (f : A -> bool) : dores (list A) A :=
    match find f items with
    | Some x => mkres (remove_eq x items) (Some x) true
    | None => mkres items None true
    end.

  Definition FilterStore_unfixed (cap : option Q) : kind :=
    mkkind (list A) A (A -> bool) A (fun _ => true) (fun _ => true) (s_do_put cap) f_do_get_old.
End Stores.

Arguments take_first {A}.

(* ------------------------------------------------------------------------------------------------
   observation functions for the correspondence (what the harness records after every action) *)
Definition ids {P : Type} (q : list (nat * P)) : list nat := map fst q.
