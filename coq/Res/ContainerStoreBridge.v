(* Bridging lemmas (DESIGN 2.6, second tie) for the _do_put/_do_get bodies of Container, Store and PriorityStore:
   the bodies as translated from the tree under test on every run (Gen/Extracted_container.v, Gen/Extracted_store.v:
   new level, effects in program order, returned bool) are the [k_do_put]/[k_do_get] of the hand-written kinds
   (Res/ContainerStore.v) the C07 theorems are about: same content, succeed() called iff the model triggers the
   request, same return value (the scan proceeds / breaks).  Capacities are finite here (the model's [Some c]). *)
From Coq Require Import ZArith QArith Qreduction List Bool Lia Lqa.
From ONL Require Import Res.Heap Res.HeapProofs Res.ContainerStore.
From ONL Require Gen.Extracted_container Gen.Extracted_store.
Import ListNotations.

Lemma Qle_bool_false x y : Qle_bool x y = false -> y < x.
Proof. intros H. apply Qnot_le_lt. intros L. apply Qle_bool_iff in L. rewrite L in H. discriminate. Qed.

(* split on every rational comparison, as propositions *)
Ltac qcases :=
  repeat match goal with
         | |- context [Qle_bool ?a ?b] =>
             let E := fresh "E" in destruct (Qle_bool a b) eqn:E; [apply Qle_bool_iff in E | apply Qle_bool_false in E]
         end.

(* ---- Container ------------------------------------------------------------------------------------------ *)
Section ContainerBridge.
  Import Extracted_container.

  Definition cont_gen_put (cap level amount : Q) := gen_Container_do_put {| c_level := level |} cap amount.
  Definition cont_gen_get (cap level amount : Q) := gen_Container_do_get {| c_level := level |} cap amount.

  (* (new level, effects, returned bool) against the model's result *)
  Definition cont_agrees (g : cont_st * list cont_fx * bool) (r : dores Q unit) : Prop :=
    c_level (fst (fst g)) == r_c r /\
    snd (fst g) = match r_val r with Some _ => [FxSucceed] | None => [] end /\
    snd g = r_proceed r.

  Lemma bridge_container_do_put cap level amount :
    cont_agrees (cont_gen_put cap level amount) (c_do_put (Some cap) level amount).
  Proof.
    unfold cont_agrees, cont_gen_put, gen_Container_do_put, c_do_put, room_for; cbn -[Qred].
    qcases; cbn -[Qred]; try (exfalso; lra);
      repeat split; try reflexivity; rewrite ?Qred_correct; lra.
  Qed.

  Lemma bridge_container_do_get cap level amount :
    cont_agrees (cont_gen_get cap level amount) (c_do_get level amount).
  Proof.
    unfold cont_agrees, cont_gen_get, gen_Container_do_get, c_do_get; cbn -[Qred].
    qcases; cbn -[Qred]; try (exfalso; lra);
      repeat split; try reflexivity; rewrite ?Qred_correct; lra.
  Qed.
End ContainerBridge.

(* ---- Store, PriorityStore ------------------------------------------------------------------------------ *)
Section StoreBridge.
  Import Extracted_store.
  Variable A : Type.
  Variable key : A -> Z.

  (* what the effects of _do_put(event) / _do_get(event) mean for the item list and the event *)
  Definition store_fx_apply (item : A) (acc : list A * option (option A)) (e : store_fx) : list A * option (option A) :=
    let '(items, val) := acc in
    match e with
    | FxAppend => (items ++ [item], val)                                     (* self.items.append(event.item) *)
    | FxHeapPush => (match heappush key items item with Some h => h | None => items end, val)
    | FxSucceed => (items, Some None)                                        (* event.succeed() *)
    | FxSucceedPop0 => match items with x :: t => (t, Some (Some x)) | [] => (items, val) end
    | FxSucceedHeapPop => match heappop key items with Some (x, h) => (h, Some (Some x)) | None => (items, val) end
    end.

  Definition store_fx_run (item : A) (items : list A) (fx : list store_fx) : list A * option (option A) :=
    fold_left (store_fx_apply item) fx (items, None).

  Definition n_of (items : list A) : Z := Z.of_nat (length items).

  (* the guards: integer sums under inject_Z are split, the length becomes an opaque rational / integer *)
  Ltac guard_q items :=
    rewrite ?inject_Z_plus; change (inject_Z 1) with 1%Q;
    generalize (inject_Z (Z.of_nat (length items))); intro nq;
    qcases; cbn; try (exfalso; lra).
  Ltac guard_z :=
    repeat match goal with
           | |- context [Z.ltb ?a ?b] => destruct (Z.ltb_spec a b)
           | |- context [Z.leb ?a ?b] => destruct (Z.leb_spec a b)
           | |- context [Z.eqb ?a ?b] => destruct (Z.eqb_spec a b)
           end; cbn [negb]; try (exfalso; cbn [length] in *; lia).

  (* Store._do_put *)
  Lemma bridge_store_do_put cap items item :
    let g := gen_Store_do_put (n_of items) cap in
    let r := s_do_put A (Some cap) items item in
    store_fx_run item items (fst g) = (r_c r, match r_val r with Some _ => Some None | None => None end) /\
    fst g = (if has_room (Some cap) (length items) then [FxAppend; FxSucceed] else []) /\
    snd g = r_proceed r.
  Proof.
    unfold gen_Store_do_put, s_do_put, has_room, store_fx_run, n_of; cbn -[inject_Z Z.of_nat Z.add].
    guard_q items; repeat split; reflexivity.
  Qed.

  (* Store._do_get *)
  Lemma bridge_store_do_get cap items item :
    let g := gen_Store_do_get (n_of items) cap in
    let r := s_do_get A items tt in
    store_fx_run item items (fst g) = (r_c r, match r_val r with Some x => Some (Some x) | None => None end) /\
    fst g = (match items with _ :: _ => [FxSucceedPop0] | [] => [] end) /\
    snd g = r_proceed r.
  Proof.
    unfold gen_Store_do_get, s_do_get, store_fx_run, n_of.
    destruct items as [|x t]; cbn -[Z.of_nat Z.add]; guard_z; cbn; repeat split; reflexivity.
  Qed.

  (* PriorityStore._do_put *)
  Lemma bridge_pstore_do_put cap items item :
    let g := gen_PriorityStore_do_put (n_of items) cap in
    let r := p_do_put A key (Some cap) items item in
    store_fx_run item items (fst g) = (r_c r, match r_val r with Some _ => Some None | None => None end) /\
    fst g = (if has_room (Some cap) (length items) then [FxHeapPush; FxSucceed] else []) /\
    snd g = r_proceed r.
  Proof.
    unfold gen_PriorityStore_do_put, p_do_put, has_room, store_fx_run, n_of; cbn -[inject_Z Z.of_nat Z.add heappush].
    pose proof (heappush_total A key items item) as HT.
    guard_q items; destruct (heappush key items item); try congruence; cbn; repeat split; reflexivity.
  Qed.

  (* PriorityStore._do_get *)
  Lemma bridge_pstore_do_get cap items item :
    let g := gen_PriorityStore_do_get (n_of items) cap in
    let r := p_do_get A key items tt in
    store_fx_run item items (fst g) = (r_c r, match r_val r with Some x => Some (Some x) | None => None end) /\
    fst g = (match items with _ :: _ => [FxSucceedHeapPop] | [] => [] end) /\
    snd g = r_proceed r.
  Proof.
    unfold gen_PriorityStore_do_get, p_do_get, store_fx_run, n_of.
    destruct items as [|x t]; cbn -[Z.of_nat Z.add heappop]; guard_z; [cbn; repeat split; reflexivity|].
    assert (HT : heappop key (x :: t) <> None) by (apply heappop_total; discriminate).
    cbn -[heappop]. destruct (heappop key (x :: t)) as [[y h]|]; [|congruence].
    cbn. repeat split; reflexivity.
  Qed.
End StoreBridge.
