(* Comparison of the model with what the harness (props/c07.py) records on the real classes:
   after every action  (content, put_queue ids, get_queue ids, triggered-unprocessed ids,
   number of succeed() calls so far, did the call raise, env.now)  and at the end the complete
   grant log [(id, value of the event)].  Also checks that the observed action list is admissible
   for the model ([trace] returns None otherwise).  Executable; no proofs. *)
From Coq Require Import ZArith QArith List Bool Arith.
From ONL Require Import Base.Cmp Res.Heap Res.ContainerStore.
Import ListNotations.

Definition snap (C : Type) : Type := (C * list nat * list nat * list nat * nat * bool * Q)%type.

Section Agree.
  Variable K : kind.
  Variable ceq : KC K -> KC K -> bool.
  Variable veq : KV K -> KV K -> bool.

  Definition snap_eqb (sr : state K * bool) (o : snap (KC K)) : bool :=
    let '(c, pq, gq, tr, nlog, raised, t) := o in
    let s := fst sr in
    ceq (content s) c && listN_eqb (ids (putq s)) pq && listN_eqb (ids (getq s)) gq
    && listN_eqb (map fst (trig s)) tr && Nat.eqb (length (log s)) nlog
    && Bool.eqb (snd sr) raised && Qeq_bool (now s) t.

  Definition grant_obs (g : grant K) : nat * option (KV K) :=
    match g with GPut i _ => (i, None) | GGet i _ v => (i, Some v) end.

  Fixpoint list_eqb2 {X Y : Type} (e : X -> Y -> bool) (l1 : list X) (l2 : list Y) : bool :=
    match l1, l2 with
    | [], [] => true
    | x :: t1, y :: t2 => e x y && list_eqb2 e t1 t2
    | _, _ => false
    end.

  Definition agree (fixed : bool) (c0 : KC K) (t0 : Q) (acts : list (action K))
             (obs : list (snap (KC K))) (final_log : list (nat * option (KV K))) : bool :=
    match trace fixed (init c0 t0) acts with
    | None => false                                   (* the observed execution is not admissible *)
    | Some l =>
        list_eqb2 snap_eqb l obs &&
        list_eqb (pair_eqb Nat.eqb (option_eqb veq))
                 (map grant_obs (log (last (map fst l) (init c0 t0)))) final_log
    end.

  (* for diagnosis in replay files *)
  Definition show (fixed : bool) (c0 : KC K) (t0 : Q) (acts : list (action K)) :=
    match trace fixed (init c0 t0) acts with
    | None => None
    | Some l => Some (map (fun sr => (content (fst sr), ids (putq (fst sr)), ids (getq (fst sr)),
                                      map fst (trig (fst sr)), map grant_obs (log (fst sr)), snd sr)) l)
    end.

  (* the longest admissible prefix (diagnosis) *)
  Fixpoint admissible_prefix (fixed : bool) (s : state K) (acts : list (action K)) : nat :=
    match acts with
    | [] => 0%nat
    | a :: t => match step fixed s a with Some s' => S (admissible_prefix fixed s' t) | None => 0%nat end
    end.
End Agree.


Definition unit_eqb (_ _ : unit) : bool := true.
(* items of the harness: (value, tag, uid); Python's == on them compares the value only, the model
   compares all three components *)
Definition item : Type := (Z * Z * Z)%type.
Definition item_v (x : item) : Z := fst (fst x).
Definition item_tag (x : item) : Z := snd (fst x).
Definition item_uid (x : item) : Z := snd x.
Definition item_eqb (a b : item) : bool :=
  Z.eqb (item_v a) (item_v b) && Z.eqb (item_tag a) (item_tag b) && Z.eqb (item_uid a) (item_uid b).

Definition agree_container (cap : option Q) := agree (Container cap) Qeq_bool unit_eqb.
Definition agree_store (cap : option Q) := agree (Store item cap) (list_eqb item_eqb) item_eqb.
Definition agree_prio (cap : option Q) := agree (PriorityStore item item_v cap) (list_eqb item_eqb) item_eqb.
Definition agree_filter (cap : option Q) := agree (FilterStore item cap) (list_eqb item_eqb) item_eqb.

(* the filter family of the harness: value = r (mod m), and tag = t unless t < 0 *)
Definition fsel (m r t : Z) : item -> bool :=
  fun x => Z.eqb (item_v x mod m) r && ((t <? 0)%Z || Z.eqb (item_tag x) t).
