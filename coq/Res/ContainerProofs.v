(* Container (container.py): bounds, conservation, and what "cannot be granted" means for it. *)
From Coq Require Import ZArith QArith List Bool Arith Lia Lqa Sorted Permutation.
From ONL Require Import Res.Heap Res.ContainerStore Res.ContainerStoreProofs.
Import ListNotations.

Lemma container_laws cap : laws (Container cap) true.
Proof.
  split; cbn.
  - intros c p. unfold c_do_put. destruct (room_for cap c p); cbn; [discriminate|auto].
  - intros c p. unfold c_do_put. destruct (room_for cap c p); cbn; auto.
  - intros c p. unfold c_do_get. destruct (Qle_bool p c); cbn; [discriminate|auto].
  - intros c p. unfold c_do_get. destruct (Qle_bool p c); cbn; auto.
Qed.

Definition in_bounds (cap : option Q) (level : Q) : Prop :=
  0 <= level /\ match cap with Some c => level <= c | None => True end.

Lemma amount_ok_pos a : amount_ok a = true -> 0 < a.
Proof.
  unfold amount_ok, Qlt_bool. intros H. apply negb_true_iff in H.
  destruct (Qlt_le_dec 0 a) as [Hl|Hl]; [exact Hl|].
  apply Qle_bool_iff in Hl. rewrite Hl in H. discriminate.
Qed.

Lemma put_in_bounds cap c p :
  amount_ok p = true -> in_bounds cap c -> in_bounds cap (r_c (c_do_put cap c p)).
Proof.
  unfold in_bounds, c_do_put. intros Hp [H0 H1]. apply amount_ok_pos in Hp.
  destruct (room_for cap c p) eqn:E; cbn [r_c]; [|auto].
  pose proof (Qred_correct (c + p)) as Hr.
  destruct cap as [cp|]; cbn [room_for] in E.
  - apply Qle_bool_iff in E. split; lra.
  - split; [lra|exact I].
Qed.

Lemma get_in_bounds cap c p :
  amount_ok p = true -> in_bounds cap c -> in_bounds cap (r_c (c_do_get c p)).
Proof.
  unfold in_bounds, c_do_get. intros Hp [H0 H1]. apply amount_ok_pos in Hp.
  destruct (Qle_bool p c) eqn:E; cbn [r_c]; [|auto].
  pose proof (Qred_correct (c - p)) as Hr. apply Qle_bool_iff in E.
  split; [lra|]. destruct cap as [cp|]; [lra|exact I].
Qed.

Theorem level_bounds cap fixed (acts : list (action (Container cap))) (init_level t0 : Q) s :
  in_bounds cap init_level ->
  run fixed (init (K:=Container cap) init_level t0) acts = Some s ->
  in_bounds cap (content s).
Proof.
  intros H0 Hr.
  apply (content_invariant (Container cap) (in_bounds cap)) with (fixed := fixed) (acts := acts) (c0 := init_level) (t0 := t0); auto.
  - intros c p Hv Hc. apply put_in_bounds; auto.
  - intros c p Hv Hc. apply get_in_bounds; auto.
Qed.

(* conservation *)
Fixpoint put_sum {cap} (l : list (grant (Container cap))) : Q :=
  match l with
  | [] => 0
  | GPut _ p :: t => p + put_sum t
  | GGet _ _ _ :: t => put_sum t
  end.

Fixpoint get_sum {cap} (l : list (grant (Container cap))) : Q :=
  match l with
  | [] => 0
  | GPut _ _ :: t => get_sum t
  | GGet _ g _ :: t => g + get_sum t
  end.

Lemma path_sum cap c l c' : path (Container cap) c l c' -> c' == c + put_sum l - get_sum l.
Proof.
  induction 1 as [c|c i p l c' Hv Hp IH|c i g v l c' Hv Hp IH]; cbn [put_sum get_sum].
  - lra.
  - cbn in Hv, Hp, IH. unfold c_do_put in *. destruct (room_for cap c p); [|discriminate].
    cbn [r_c] in IH. pose proof (Qred_correct (c + p)) as Hr. lra.
  - cbn in Hv, Hp, IH. unfold c_do_get in *. destruct (Qle_bool g c); [|discriminate].
    cbn [r_c] in IH. pose proof (Qred_correct (c - g)) as Hr. lra.
Qed.

Theorem level_conservation cap fixed (acts : list (action (Container cap))) (init_level t0 : Q) s :
  run fixed (init (K:=Container cap) init_level t0) acts = Some s ->
  content s == init_level + put_sum (log s) - get_sum (log s).
Proof.
  intros Hr. apply path_sum. eapply (log_is_path (Container cap) true (container_laws cap)); eauto.
Qed.

(* what the heads of the queues look like when the clock may advance *)
Theorem container_heads_blocked cap (acts : list (action (Container cap))) (init_level t0 : Q) s t s' :
  run true (init (K:=Container cap) init_level t0) acts = Some s ->
  step true s (AAdvance t) = Some s' ->
  (forall i a rest, putq s = (i, a) :: rest ->
     match cap with Some c => c - content s < a | None => False end) /\
  (forall i a rest, getq s = (i, a) :: rest -> content s < a).
Proof.
  intros Hr Ha. apply advance_admissible in Ha.
  destruct (heads_blocked_generic (Container cap) true (container_laws cap) _ _ _ _ Hr Ha) as [Hp Hg].
  split.
  - intros i a rest Hq. unfold put_settled in Hp. rewrite Hq in Hp. cbn in Hp.
    unfold c_do_put in Hp. destruct (room_for cap (content s) a) eqn:E; [discriminate|].
    destruct cap as [c|]; cbn [room_for] in E; [|discriminate].
    destruct (Qlt_le_dec (c - content s) a) as [Hl|Hl]; [exact Hl|].
    apply Qle_bool_iff in Hl. cbn in Hl, E. rewrite Hl in E. discriminate.
  - intros i a rest Hq. unfold get_settled, get_head_settled in Hg. rewrite Hq in Hg. cbn in Hg.
    unfold c_do_get in Hg. destruct (Qle_bool a (content s)) eqn:E; [discriminate|].
    destruct (Qlt_le_dec (content s) a) as [Hl|Hl]; [exact Hl|].
    apply Qle_bool_iff in Hl. cbn in Hl, E. rewrite Hl in E. discriminate.
Qed.

(* the code as found (cancel without rescan) strands a satisfiable request:
   capacity 10, level 5: put(10) blocks, put(1) queues behind it, the first is cancelled;
   the clock may advance although 10 - 5 >= 1 *)
Definition K10 : kind := Container (Some 10).
Definition stranded_history : list (action K10) :=
  [@APut K10 10; @APut K10 1; @AAdvance K10 1; @ACancel K10 0%nat].

Lemma heads_blocked_refuted_unfixed :
  exists (acts : list (action (Container (Some 10)))) s t s',
    run false (init (K:=Container (Some 10)) 5 0) acts = Some s /\ step false s (AAdvance t) = Some s' /\
    exists i a rest, putq s = (i, a) :: rest /\ a <= 10 - content s.
Proof.
  exists stranded_history.
  destruct (run false (init (K:=Container (Some 10)) 5 0) stranded_history) as [s|] eqn:E; [|vm_compute in E; discriminate].
  exists s, 6. vm_compute in E. injection E as <-.
  eexists. split; [reflexivity|]. split; [vm_compute; reflexivity|].
  exists 1%nat, 1, []. split; [reflexivity|]. cbn. lra.
Qed.

(* the same history on the repaired model: the put(1) is granted by the cancel *)
Example stranded_history_repaired :
  match run true (init (K:=Container (Some 10)) 5 0) stranded_history with
  | Some s => (ids (putq s), map grant_id (log s), Qeq_bool (content s) 6) = ([], [1%nat], true)
  | None => False
  end.
Proof. vm_compute. reflexivity. Qed.

(* non-vacuity of the theorems: an admissible history with blocking, cancels and advances *)
Example container_example :
  match run true (init (K:=Container (Some 3)) (1#2) 0) (let K := Container (Some 3) in
     [@APut K 2; @AGet K 3; @AGet K (1#2); @AProcess K 0%nat; @APut K (1#2); @AProcess K 3%nat; @AProcess K 1%nat;
      @AAdvance K 2; @APut K 5; @APut K 1; @ACancel K 4%nat; @AProcess K 5%nat; @AProcess K 2%nat; @AAdvance K 3]) with
  | Some s => (ids (putq s), ids (getq s), map grant_id (log s), Qeq_bool (content s) (1#2)) =
              ([], [], [0; 3; 1; 5; 2]%nat, true)
  | None => False
  end.
Proof. vm_compute. reflexivity. Qed.
