(* Store, PriorityStore, FilterStore (store.py): capacity bound, every accepted item is handed out
   exactly once, the order disciplines, and what "cannot be granted" means for them. *)
From Coq Require Import ZArith QArith List Bool Arith Lia Sorted Permutation.
From ONL Require Import Res.Heap Res.HeapProofs Res.ContainerStore Res.ContainerStoreProofs.
Import ListNotations.
Local Open Scope nat_scope.

(* ---- capacity arithmetic ---- *)
Definition len_ok (cap : option Q) (n : nat) : Prop :=
  match cap with Some c => (inject_Z (Z.of_nat n) <= c)%Q | None => True end.

(* what the constructor enforces: capacity > 0 (or infinite) *)
Definition cap_pos (cap : option Q) : Prop :=
  match cap with Some c => (0 < c)%Q | None => True end.

Lemma has_room_succ cap n : has_room cap n = true -> len_ok cap (S n).
Proof.
  unfold has_room, len_ok. destruct cap as [c|]; [|auto]. intros H. apply Qle_bool_iff in H.
  rewrite Nat2Z.inj_succ. unfold Z.succ. rewrite inject_Z_plus. exact H.
Qed.

Lemma has_room_false cap n :
  has_room cap n = false -> exists c, cap = Some c /\ (c < inject_Z (Z.of_nat n) + 1)%Q.
Proof.
  unfold has_room. destruct cap as [c|]; [|discriminate]. intros H. exists c. split; [auto|].
  destruct (Qlt_le_dec c (inject_Z (Z.of_nat n) + 1)) as [Hl|Hl]; [exact Hl|].
  apply Qle_bool_iff in Hl. rewrite Hl in H. discriminate.
Qed.

(* ---------------------------------------------------------------------------------------------- *)
Section TakeFirst.
  Context {A : Type}.

  Lemma take_first_some (f : A -> bool) l x rest :
    take_first f l = Some (x, rest) ->
    exists a b, l = a ++ x :: b /\ rest = a ++ b /\ f x = true /\ forall y, In y a -> f y = false.
  Proof.
    revert x rest. induction l as [|z t IH]; cbn [take_first]; intros x rest H; [discriminate|].
    destruct (f z) eqn:E.
    - injection H as <- <-. exists [], t. cbn. repeat split; auto. intros y [].
    - destruct (take_first f t) as [[y t']|]; [|discriminate]. injection H as <- <-.
      destruct (IH _ _ eq_refl) as (a & b & -> & -> & Hx & Ha).
      exists (z :: a), b. cbn. repeat split; auto. intros w [<-|Hw]; auto.
  Qed.

  Lemma take_first_none (f : A -> bool) l : take_first f l = None <-> forall y, In y l -> f y = false.
  Proof.
    induction l as [|z t IH]; cbn [take_first].
    - split; [intros _ y []|auto].
    - destruct (f z) eqn:E.
      + split; [discriminate|]. intros H. rewrite (H z) in E; [discriminate|left; auto].
      + destruct (take_first f t) as [[y t']|].
        * split; [discriminate|]. intros H.
          assert (Hn : Some (y, t') = None) by (apply IH; intros w Hw; apply H; right; exact Hw).
          discriminate.
        * split; [|auto]. intros _ w [<-|Hw]; [exact E|]. apply IH; auto.
  Qed.
End TakeFirst.

(* ---------------------------------------------------------------------------------------------- *)
(* the laws of the generic development *)
Lemma store_laws A cap : laws (Store A cap) true.
Proof.
  split; cbn.
  - intros c p. unfold s_do_put. destruct (has_room cap (length c)); cbn; [discriminate|auto].
  - intros c p. unfold s_do_put. destruct (has_room cap (length c)); cbn; auto.
  - intros c p. unfold s_do_get. destruct c; cbn; [auto|discriminate].
  - intros c p. unfold s_do_get. destruct c; cbn; auto.
Qed.

Lemma prio_laws A key cap : laws (PriorityStore A key cap) true.
Proof.
  split; cbn.
  - intros c p. unfold p_do_put. destruct (has_room cap (length c)); cbn; [|auto].
    destruct (heappush key c p); cbn; [discriminate|auto].
  - intros c p. unfold p_do_put. destruct (has_room cap (length c)); cbn; [|auto].
    destruct (heappush key c p); cbn; auto.
  - intros c p. unfold p_do_get. destruct c as [|a t]; cbn [r_c r_val]; [auto|].
    destruct (heappop key (a :: t)) as [[x h]|]; cbn; [discriminate|auto].
  - intros c p. unfold p_do_get. destruct c as [|a t]; cbn [r_proceed r_val]; [auto|].
    destruct (heappop key (a :: t)) as [[x h]|]; cbn; auto.
Qed.

Lemma filter_laws A cap : laws (FilterStore A cap) false.
Proof.
  split; cbn.
  - intros c p. unfold s_do_put. destruct (has_room cap (length c)); cbn; [discriminate|auto].
  - intros c p. unfold s_do_put. destruct (has_room cap (length c)); cbn; auto.
  - intros c f. unfold f_do_get. destruct (take_first f c) as [[x rest]|]; cbn; [discriminate|auto].
  - split.
    + intros c f. unfold f_do_get. destruct (take_first f c) as [[x rest]|]; cbn; auto.
    + intros c f f'. unfold f_do_get.
      destruct (take_first f c) as [[x rest]|] eqn:E; cbn [r_val]; [discriminate|]. intros _.
      destruct (take_first f' c) as [[x' rest']|] eqn:E'; cbn [r_c].
      * destruct (take_first f rest') as [[y r2]|] eqn:E2; cbn [r_val]; [|auto]. exfalso.
        apply take_first_some in E' as (a & b & -> & -> & _ & _).
        apply take_first_some in E2 as (a2 & b2 & Heq & _ & Hy & _).
        rewrite (proj1 (take_first_none f _) E y) in Hy; [discriminate|].
        assert (Hin : In y (a ++ b)) by (rewrite Heq; apply in_or_app; right; left; auto).
        apply in_app_or in Hin as [Hin|Hin]; apply in_or_app; [left|right; right]; auto.
      * rewrite E. auto.
Qed.

(* ---------------------------------------------------------------------------------------------- *)
(* what all three stores share: the content is a list of items; an accepted put adds its item, a granted
   get removes the item it hands out (as multisets) *)
Section StoreLike.
  Variable K : kind.
  Variable A : Type.
  Variable items : KC K -> list A.
  Variable pitem : KP K -> A.
  Variable vitem : KV K -> A.
  Variable I : KC K -> Prop.         (* an invariant of the content (heap shape for PriorityStore) *)
  Hypothesis I_put : forall c p, I c -> I (r_c (k_do_put K c p)).
  Hypothesis I_get : forall c g, I c -> I (r_c (k_do_get K c g)).
  Hypothesis put_perm : forall c p, I c -> r_val (k_do_put K c p) = Some tt ->
    Permutation (items (r_c (k_do_put K c p))) (pitem p :: items c).
  Hypothesis get_perm : forall c g v, I c -> r_val (k_do_get K c g) = Some v ->
    Permutation (items c) (vitem v :: items (r_c (k_do_get K c g))).

  Definition accepted (l : list (grant K)) : list A :=
    flat_map (fun g => match g with GPut _ p => [pitem p] | GGet _ _ _ => [] end) l.
  Definition delivered (l : list (grant K)) : list A :=
    flat_map (fun g => match g with GGet _ _ v => [vitem v] | GPut _ _ => [] end) l.

  Lemma path_perm c l c' : path K c l c' -> I c ->
    Permutation (items c ++ accepted l) (items c' ++ delivered l).
  Proof.
    induction 1 as [c|c i p l c' Hv Hp IH|c i g v l c' Hv Hp IH]; intros Hc; cbn [accepted delivered flat_map app].
    - apply Permutation_refl.
    - fold (accepted l). fold (delivered l). specialize (IH (I_put _ p Hc)).
      etransitivity; [|exact IH]. etransitivity; [apply Permutation_sym, Permutation_middle|].
      change (pitem p :: items c ++ accepted l) with ((pitem p :: items c) ++ accepted l).
      apply Permutation_app_tail. apply Permutation_sym. apply put_perm; auto.
    - fold (accepted l). fold (delivered l). specialize (IH (I_get _ g Hc)).
      etransitivity; [|apply Permutation_middle].
      etransitivity; [apply Permutation_app_tail; apply (get_perm _ _ _ Hc Hv)|]. cbn [app].
      constructor. exact IH.
  Qed.
End StoreLike.

Arguments accepted {K A} pitem l.
Arguments delivered {K A} vitem l.

(* ---------------------------------------------------------------------------------------------- *)
Section Stores.
  Variable A : Type.
  Variable cap : option Q.
  Hypothesis Hcap : cap_pos cap.

  Let idA := fun x : A => x.

  (* ---------------- Store ---------------- *)
  Lemma store_path_fifo c l c' :
    path (Store A cap) c l c' -> c ++ accepted (K:=Store A cap) idA l = delivered (K:=Store A cap) idA l ++ c'.
  Proof.
    induction 1 as [c|c i p l c' Hv Hp IH|c i g v l c' Hv Hp IH]; cbn [accepted delivered flat_map app].
    - rewrite app_nil_r. reflexivity.
    - cbn in Hv, Hp, IH. unfold s_do_put in *. destruct (has_room cap (length c)); [|discriminate].
      cbn [r_c] in IH. rewrite <- app_assoc in IH. exact IH.
    - cbn in Hv, Hp, IH. unfold s_do_get in *. destruct c as [|x t]; [discriminate|].
      cbn [r_val r_c] in *. injection Hv as <-. unfold idA at 2. cbn [app]. f_equal. exact IH.
  Qed.

  Theorem store_fifo fixed (acts : list (action (Store A cap))) t0 s :
    run fixed (init (K:=Store A cap) [] t0) acts = Some s ->
    accepted (K:=Store A cap) idA (log s) = delivered (K:=Store A cap) idA (log s) ++ content s.
  Proof.
    intros Hr. apply (log_is_path (Store A cap) true (store_laws A cap)) in Hr.
    apply store_path_fifo in Hr. exact Hr.
  Qed.

  Lemma s_put_len c p : len_ok cap (length c) -> len_ok cap (length (r_c (s_do_put A cap c p))).
  Proof.
    unfold s_do_put. intros H. destruct (has_room cap (length c)) eqn:E; cbn [r_c]; [|auto].
    rewrite app_length. cbn [length]. replace (length c + 1) with (S (length c)) by lia.
    apply has_room_succ; auto.
  Qed.

  Lemma len_ok_le n m : m <= n -> len_ok cap n -> len_ok cap m.
  Proof.
    unfold len_ok. destruct cap as [c|]; [|auto]. intros Hle H.
    eapply Qle_trans; [|exact H]. rewrite <- Zle_Qle. lia.
  Qed.

  Lemma len_ok_0 : len_ok cap 0.
  Proof.
    unfold len_ok. destruct cap as [c|] eqn:E; [|auto]. cbn in Hcap. cbn. apply Qlt_le_weak. exact Hcap.
  Qed.

  Theorem store_bounded fixed (acts : list (action (Store A cap))) t0 s :
    run fixed (init (K:=Store A cap) [] t0) acts = Some s -> len_ok cap (length (content s)).
  Proof.
    intros Hr.
    apply (content_invariant (Store A cap) (fun c => len_ok cap (length c))) with (fixed := fixed) (acts := acts) (c0 := []) (t0 := t0); auto.
    - intros c p _ H. apply s_put_len. exact H.
    - intros c g _ H. cbn. unfold s_do_get. destruct c as [|x t]; cbn [r_c]; [auto|].
      eapply len_ok_le; [|exact H]. cbn; lia.
    - apply len_ok_0.
  Qed.

  Theorem store_delivered_once fixed (acts : list (action (Store A cap))) t0 s :
    run fixed (init (K:=Store A cap) [] t0) acts = Some s ->
    Permutation (accepted (K:=Store A cap) idA (log s)) (content s ++ delivered (K:=Store A cap) idA (log s)).
  Proof. intros Hr. rewrite (store_fifo _ _ _ _ Hr). apply Permutation_app_comm. Qed.

  Theorem store_heads_blocked (acts : list (action (Store A cap))) t0 s t s' :
    run true (init (K:=Store A cap) [] t0) acts = Some s ->
    step true s (AAdvance t) = Some s' ->
    (putq s <> [] -> exists c, cap = Some c /\ (c < inject_Z (Z.of_nat (length (content s))) + 1)%Q) /\
    (getq s <> [] -> content s = []).
  Proof.
    intros Hr Ha. apply advance_admissible in Ha.
    destruct (heads_blocked_generic (Store A cap) true (store_laws A cap) _ _ _ _ Hr Ha) as [Hp Hg].
    split.
    - intros Hne. unfold put_settled in Hp. destruct (putq s) as [|[i p] rest]; [congruence|].
      cbn in Hp. unfold s_do_put in Hp. destruct (has_room cap (length (content s))) eqn:E; [discriminate|].
      apply has_room_false in E. exact E.
    - intros Hne. unfold get_settled, get_head_settled in Hg. destruct (getq s) as [|[i g] rest]; [congruence|].
      cbn in Hg. unfold s_do_get in Hg. destruct (content s); [auto|discriminate].
  Qed.

  (* ---------------- FilterStore ---------------- *)
  Theorem filter_bounded fixed (acts : list (action (FilterStore A cap))) t0 s :
    run fixed (init (K:=FilterStore A cap) [] t0) acts = Some s -> len_ok cap (length (content s)).
  Proof.
    intros Hr.
    apply (content_invariant (FilterStore A cap) (fun c => len_ok cap (length c))) with (fixed := fixed) (acts := acts) (c0 := []) (t0 := t0); auto.
    - intros c p _ H. apply s_put_len. exact H.
    - intros c f _ H. cbn. unfold f_do_get. destruct (take_first f c) as [[x rest]|] eqn:E; cbn [r_c]; [|auto].
      apply take_first_some in E as (a & b & -> & -> & _). eapply len_ok_le; [|exact H].
      rewrite !app_length. cbn; lia.
    - apply len_ok_0.
  Qed.

  Theorem filter_delivered_once fixed (acts : list (action (FilterStore A cap))) t0 s :
    run fixed (init (K:=FilterStore A cap) [] t0) acts = Some s ->
    Permutation (accepted (K:=FilterStore A cap) idA (log s)) (content s ++ delivered (K:=FilterStore A cap) idA (log s)).
  Proof.
    intros Hr. apply (log_is_path (FilterStore A cap) false (filter_laws A cap)) in Hr.
    apply (path_perm (FilterStore A cap) A (fun c => c) idA idA (fun _ => True)) in Hr; auto.
    - intros c p _ Hv. cbn in *. unfold s_do_put in *. destruct (has_room cap (length c)); [|discriminate].
      cbn [r_c]. apply Permutation_sym, Permutation_cons_append.
    - intros c f v _ Hv. cbn in *. unfold f_do_get in *.
      destruct (take_first f c) as [[x rest]|] eqn:E; cbn [r_val r_c] in *; [|discriminate].
      injection Hv as <-. apply take_first_some in E as (a & b & -> & -> & _).
      apply Permutation_sym, Permutation_middle.
  Qed.

  (* every get receives the first item, in insertion order, that its filter accepts; puts append *)
  Theorem filter_first_match fixed (acts : list (action (FilterStore A cap))) t0 s l1 i f x l2 :
    run fixed (init (K:=FilterStore A cap) [] t0) acts = Some s ->
    log s = l1 ++ GGet i f x :: l2 ->
    exists a b, path (FilterStore A cap) [] l1 (a ++ x :: b) /\ f x = true /\ (forall y, In y a -> f y = false) /\
                path (FilterStore A cap) (a ++ b) l2 (content s).
  Proof.
    intros Hr Hl. apply (log_is_path (FilterStore A cap) false (filter_laws A cap)) in Hr.
    rewrite Hl in Hr. apply path_split in Hr as (c1 & H1 & H2).
    inversion H2 as [| |c i' g v l c' Hv Hp]; subst.
    cbn in Hv, Hp. unfold f_do_get in *.
    destruct (take_first f c1) as [[y rest]|] eqn:E; cbn [r_val r_c] in *; [|discriminate].
    injection Hv as ->. apply take_first_some in E as (a & b & -> & -> & Hx & Ha).
    exists a, b. auto.
  Qed.

  Theorem put_appends_filter fixed (acts : list (action (FilterStore A cap))) t0 s l1 i p l2 :
    run fixed (init (K:=FilterStore A cap) [] t0) acts = Some s ->
    log s = l1 ++ GPut i p :: l2 ->
    exists c1, path (FilterStore A cap) [] l1 c1 /\ path (FilterStore A cap) (c1 ++ [p]) l2 (content s).
  Proof.
    intros Hr Hl. apply (log_is_path (FilterStore A cap) false (filter_laws A cap)) in Hr.
    rewrite Hl in Hr. apply path_split in Hr as (c1 & H1 & H2).
    inversion H2 as [|c i' p' l c' Hv Hp|]; subst.
    cbn in Hv, Hp. unfold s_do_put in *. destruct (has_room cap (length c1)); [|discriminate].
    exists c1. auto.
  Qed.

  Theorem filter_heads_blocked (acts : list (action (FilterStore A cap))) t0 s t s' :
    run true (init (K:=FilterStore A cap) [] t0) acts = Some s ->
    step true s (AAdvance t) = Some s' ->
    (putq s <> [] -> exists c, cap = Some c /\ (c < inject_Z (Z.of_nat (length (content s))) + 1)%Q) /\
    (forall i f, In (i, f) (getq s) -> forall y, In y (content s) -> f y = false).
  Proof.
    intros Hr Ha. apply advance_admissible in Ha.
    destruct (heads_blocked_generic (FilterStore A cap) false (filter_laws A cap) _ _ _ _ Hr Ha) as [Hp Hg].
    split.
    - intros Hne. unfold put_settled in Hp. destruct (putq s) as [|[i p] rest]; [congruence|].
      cbn in Hp. unfold s_do_put in Hp. destruct (has_room cap (length (content s))) eqn:E; [discriminate|].
      apply has_room_false in E. exact E.
    - intros i f Hin. unfold get_settled, get_all_settled in Hg. specialize (Hg _ Hin). cbn in Hg.
      unfold f_do_get in Hg. destruct (take_first f (content s)) as [[x rest]|] eqn:E; [discriminate|].
      apply take_first_none. exact E.
  Qed.

  (* a getter is overtaken only by items its filter rejects *)
  Lemma filter_chain_in c gs c' :
    chain (k_do_get (FilterStore A cap)) c gs c' -> forall i f x, In (i, f, x) gs -> In x c.
  Proof.
    induction 1 as [c|c i p v l c' Hv Hc IH]; intros j f x Hin; [destruct Hin|].
    cbn in Hv, Hc, IH. unfold f_do_get in *.
    destruct (take_first p c) as [[y rest]|] eqn:E; cbn [r_val r_c] in *; [|discriminate].
    injection Hv as ->. apply take_first_some in E as (a & b & -> & -> & _).
    destruct Hin as [Hin|Hin].
    - injection Hin as _ _ <-. apply in_or_app. right. left. auto.
    - specialize (IH _ _ _ Hin). apply in_app_or in IH as [IH|IH]; apply in_or_app; [left|right; right]; auto.
  Qed.

  Lemma step_get_scan (K : kind) fixed (s : state K) a s' :
    WF K s -> step fixed s a = Some s' ->
    (exists q1 gs, StronglySorted lt (ids q1) /\ scan (k_do_get K) (content s) q1 = (content s', getq s', gs) /\
                   log s' = log s ++ map (gget K) gs)
    \/ (exists gs, log s' = log s ++ map (gput K) gs).
  Proof.
    intros W H.
    assert (Tg : forall s1, StronglySorted lt (ids (getq s1)) -> content s1 = content s -> log s1 = log s ->
               exists q1 gs, StronglySorted lt (ids q1) /\ scan (k_do_get K) (content s) q1 = (content (trigger_get s1), getq (trigger_get s1), gs) /\
                   log (trigger_get s1) = log s ++ map (gget K) gs).
    { intros s1 Hs Hc Hl. destruct (scan (k_do_get K) (content s1) (getq s1)) as [[c rem] gs] eqn:Es.
      rewrite (trigger_get_eq _ _ _ _ _ Es). cbn [content getq log]. exists (getq s1), gs.
      rewrite <- Hc, Hl. auto. }
    assert (Tp : forall s1, log s1 = log s -> exists gs, log (trigger_put s1) = log s ++ map (gput K) gs).
    { intros s1 Hl. destruct (scan (k_do_put K) (content s1) (putq s1)) as [[c rem] gs] eqn:Es.
      rewrite (trigger_put_eq _ _ _ _ _ Es). cbn [log]. exists gs. rewrite Hl. auto. }
    assert (Tn : exists gs, log s = log s ++ map (gput K) gs) by (exists []; cbn; rewrite app_nil_r; auto).
    destruct W as [Wp Wg Wl Wn].
    destruct a as [p|g|i|i|t]; cbn [step] in H.
    - destruct (k_pvalid K p); injection H as <-; right; [apply Tp; auto|exact Tn].
    - destruct (k_gvalid K g); injection H as <-; [left|right; exact Tn].
      apply Tg; auto. cbn [getq]. unfold ids. rewrite map_app. cbn [map fst]. apply ss_snoc; [exact Wg|].
      unfold allids in Wl. apply Forall_app in Wl as [_ Wl]. apply Forall_app in Wl as [Wl _]. exact Wl.
    - destruct (mem_id i (putq s)).
      + injection H as <-. right. destruct fixed; [apply Tp; auto|exact Tn].
      + destruct (mem_id i (getq s)) eqn:Mg.
        * injection H as <-. destruct fixed; [left|right; exact Tn].
          apply Tg; auto. cbn [getq].
          destruct (remove_id_split i _ Mg) as (a & r & b & Eq & Hr & -> & Hna).
          rewrite Eq in Wg. unfold ids in *. rewrite map_app in *. cbn [map] in Wg. eapply ss_app_inv; eauto.
        * destruct (Nat.ltb i (next_id s)); [|discriminate]. injection H as <-. right. exact Tn.
    - destruct (find_id i (trig s)) as [k|]; [|discriminate]. injection H as <-.
      destruct k; [left; apply Tg; auto|right; apply Tp; auto].
    - destruct (trig s); [|discriminate]. destruct (Qlt_bool (now s) t); [|discriminate].
      injection H as <-. right. exact Tn.
  Qed.

  Theorem filter_overtake_only_nonmatching fixed (acts : list (action (FilterStore A cap))) t0 s a s' news :
    run fixed (init (K:=FilterStore A cap) [] t0) acts = Some s ->
    step fixed s a = Some s' ->
    log s' = log s ++ news ->
    forall b fb x, In (GGet b fb x) news ->
    forall o fo, In (o, fo) (getq s') -> o < b -> fo x = false.
  Proof.
    intros Hr Hs Hl b fb x Hin o fo Ho Hlt.
    apply WF_run in Hr.
    destruct (step_get_scan _ _ _ _ _ Hr Hs) as [(q1 & gs & Hsort & Hscan & Hlog)|(gs & Hlog)].
    - rewrite Hlog in Hl. apply app_inv_head in Hl. subst news.
      apply in_map_iff in Hin as ([[b' fb'] x'] & Heq & Hin). cbn in Heq. injection Heq as -> -> ->.
      destruct (filter_laws A cap) as [_ _ Lns [Lnb _]].
      destruct (scan_nonblocking_older _ Lns Lnb _ _ _ _ _ Hscan Hsort _ Ho)
        as (cr & g1 & g2 & -> & Hc1 & Hc2 & Hv & F1 & F2).
      cbn [fst snd] in *.
      apply in_app_or in Hin as [Hin|Hin].
      + rewrite Forall_forall in F1. specialize (F1 _ Hin). cbn in F1. lia.
      + pose proof (filter_chain_in _ _ _ Hc2 _ _ _ Hin) as Hx.
        cbn in Hv. unfold f_do_get in Hv. destruct (take_first fo cr) as [[y rest]|] eqn:E; [discriminate|].
        apply (proj1 (take_first_none fo cr) E). exact Hx.
    - rewrite Hlog in Hl. apply app_inv_head in Hl. subst news.
      apply in_map_iff in Hin as ([[b' p'] u] & Heq & _). discriminate.
  Qed.
End Stores.

(* ---------------------------------------------------------------------------------------------- *)
Section Prio.
  Variable A : Type.
  Variable key : A -> Z.
  Variable cap : option Q.
  Hypothesis Hcap : cap_pos cap.
  Let KP := PriorityStore A key cap.
  Let idA := fun x : A => x.

  Lemma p_put_ok c p : heap_ok A key c -> heap_ok A key (r_c (p_do_put A key cap c p)).
  Proof.
    intros H. unfold p_do_put. destruct (has_room cap (length c)); cbn [r_c]; [|auto].
    destruct (heappush_spec A key c p H) as (h' & -> & Hok & _). exact Hok.
  Qed.

  Lemma p_get_ok c g : heap_ok A key c -> heap_ok A key (r_c (p_do_get A key c g)).
  Proof.
    intros H. unfold p_do_get. destruct c as [|a t]; cbn [r_c]; [auto|].
    destruct (heappop_spec A key (a :: t) ltac:(discriminate) H) as (x & h' & -> & Hok & _). exact Hok.
  Qed.

  Lemma prio_heap_ok fixed (acts : list (action KP)) t0 s :
    run fixed (init (K:=KP) [] t0) acts = Some s -> heap_ok A key (content s).
  Proof.
    intros Hr. apply (log_is_path KP true (prio_laws A key cap)) in Hr.
    eapply (path_content KP (heap_ok A key)); eauto.
    - intros c p. apply p_put_ok.
    - intros c g. apply p_get_ok.
    - apply heap_ok_nil.
  Qed.

  Theorem prio_delivered_once fixed (acts : list (action KP)) t0 s :
    run fixed (init (K:=KP) [] t0) acts = Some s ->
    Permutation (accepted (K:=KP) idA (log s)) (content s ++ delivered (K:=KP) idA (log s)).
  Proof.
    intros Hr. apply (log_is_path KP true (prio_laws A key cap)) in Hr.
    apply (path_perm KP A (fun c => c) idA idA (heap_ok A key)) in Hr; auto.
    - intros c p. apply p_put_ok.
    - intros c g. apply p_get_ok.
    - intros c p Hok Hv. cbn in *. unfold p_do_put in *. destruct (has_room cap (length c)); [|discriminate].
      destruct (heappush_spec A key c p Hok) as (h' & E & _ & Hp). rewrite E in *. cbn [r_c].
      apply Permutation_sym. exact Hp.
    - intros c g v Hok Hv. cbn in *. unfold p_do_get in *. destruct c as [|a t]; [discriminate|].
      destruct (heappop_spec A key (a :: t) ltac:(discriminate) Hok) as (x & h' & E & _ & Hp & _).
      rewrite E in *. cbn [r_val r_c] in *. injection Hv as <-. exact Hp.
    - apply heap_ok_nil.
  Qed.

  (* every get receives an item of smallest priority among the items held at that moment *)
  Theorem prio_min fixed (acts : list (action KP)) t0 s l1 i g x l2 :
    run fixed (init (K:=KP) [] t0) acts = Some s ->
    log s = l1 ++ GGet i g x :: l2 ->
    exists c1, path KP [] l1 c1 /\ In x c1 /\ forall y, In y c1 -> (key x <= key y)%Z.
  Proof.
    intros Hr Hl. apply (log_is_path KP true (prio_laws A key cap)) in Hr.
    rewrite Hl in Hr. apply path_split in Hr as (c1 & H1 & H2).
    assert (Hok : heap_ok A key c1).
    { eapply (path_content KP (heap_ok A key)); eauto.
      - intros c p. apply p_put_ok.
      - intros c g'. apply p_get_ok.
      - apply heap_ok_nil. }
    inversion H2 as [| |c i' g' v l c' Hv Hp]; subst.
    cbn in Hv. unfold p_do_get in Hv. destruct c1 as [|a t]; [discriminate|].
    destruct (heappop_spec A key (a :: t) ltac:(discriminate) Hok) as (x' & h' & E & _ & Hperm & Hmin).
    rewrite E in Hv. cbn [r_val] in Hv. injection Hv as ->.
    exists (a :: t). split; [exact H1|]. split; [|exact Hmin].
    eapply Permutation_in; [apply Permutation_sym; exact Hperm|left; auto].
  Qed.

  Theorem prio_bounded fixed (acts : list (action KP)) t0 s :
    run fixed (init (K:=KP) [] t0) acts = Some s -> len_ok cap (length (content s)).
  Proof.
    intros Hr.
    assert (H : heap_ok A key (content s) /\ len_ok cap (length (content s))).
    { apply (content_invariant KP (fun c => heap_ok A key c /\ len_ok cap (length c))) with (fixed := fixed) (acts := acts) (c0 := []) (t0 := t0); auto.
      - intros c p _ [Hok Hlen]. split; [apply p_put_ok; auto|]. cbn. unfold p_do_put.
        destruct (has_room cap (length c)) eqn:E; cbn [r_c]; [|auto].
        destruct (heappush_spec A key c p Hok) as (h' & -> & _ & Hp). cbn [r_c].
        rewrite <- (Permutation_length Hp). cbn [length]. apply has_room_succ; auto.
      - intros c g _ [Hok Hlen]. split; [apply p_get_ok; auto|]. cbn. unfold p_do_get.
        destruct c as [|a t]; cbn [r_c]; [auto|].
        destruct (heappop_spec A key (a :: t) ltac:(discriminate) Hok) as (x & h' & -> & _ & Hp & _). cbn [r_c].
        apply (len_ok_le cap Hcap (length (a :: t))); [|exact Hlen]. rewrite (Permutation_length Hp). cbn; lia.
      - split; [apply heap_ok_nil|apply len_ok_0; auto]. }
    apply H.
  Qed.

  Theorem prio_heads_blocked (acts : list (action KP)) t0 s t s' :
    run true (init (K:=KP) [] t0) acts = Some s ->
    step true s (AAdvance t) = Some s' ->
    (putq s <> [] -> exists c, cap = Some c /\ (c < inject_Z (Z.of_nat (length (content s))) + 1)%Q) /\
    (getq s <> [] -> content s = []).
  Proof.
    intros Hr Ha. apply advance_admissible in Ha.
    destruct (heads_blocked_generic KP true (prio_laws A key cap) _ _ _ _ Hr Ha) as [Hp Hg].
    split.
    - intros Hne. unfold put_settled in Hp. destruct (putq s) as [|[i p] rest]; [congruence|].
      cbn in Hp. unfold p_do_put in Hp. destruct (has_room cap (length (content s))) eqn:E.
      + exfalso. pose proof (heappush_total A key (content s) p) as Ht.
        destruct (heappush key (content s) p); [discriminate|congruence].
      + apply has_room_false in E. exact E.
    - intros Hne. unfold get_settled, get_head_settled in Hg. destruct (getq s) as [|[i g] rest]; [congruence|].
      cbn in Hg. unfold p_do_get in Hg. destruct (content s) as [|a r]; [auto|]. exfalso.
      pose proof (heappop_total A key (a :: r) ltac:(discriminate)) as Ht.
      destruct (heappop key (a :: r)) as [[x h]|]; [discriminate|congruence].
  Qed.
End Prio.

(* ---------------------------------------------------------------------------------------------- *)
(* non-vacuity: admissible histories with blocking, several events pending at one instant, ties,
   a non-matching filter getter that is overtaken, a cancel and clock advances *)
Local Open Scope Z_scope.

Definition fmod_ex (m r : Z) : Z -> bool := fun x => Z.eqb (x mod m) r.

Definition obs_of {K : kind} (o : option (state K)) :=
  match o with
  | Some s => Some (content s, ids (putq s), ids (getq s),
                    map (fun g => match g with GPut i _ => (i, None) | GGet i _ v => (i, Some v) end) (log s))
  | None => None
  end.

Example store_example :
  let K := Store Z (Some 1%Q) in
  obs_of (run true (init (K:=K) [] 0%Q)
    [@APut K 1; @APut K 2; @AGet K tt; @AProcess K 0%nat; @AProcess K 2%nat; @AProcess K 1%nat;
     @AAdvance K 1%Q; @AGet K tt; @AProcess K 3%nat; @AAdvance K 2%Q])
  = Some ([], [], [], [(0%nat, None); (2%nat, Some 1); (1%nat, None); (3%nat, Some 2)]).
Proof. vm_compute. reflexivity. Qed.

Example prio_example :
  let K := PriorityStore (Z * Z) fst None in
  obs_of (run true (init (K:=K) [] 0%Q)
    [@APut K (2, 0); @APut K (1, 1); @APut K (1, 2); @APut K (0, 3); @AGet K tt; @AGet K tt;
     @AProcess K 0%nat; @AProcess K 1%nat; @AProcess K 2%nat; @AProcess K 3%nat; @AProcess K 4%nat;
     @AProcess K 5%nat; @AAdvance K 1%Q])
  = Some ([(1, 1); (2, 0)], [], [],
          [(0%nat, None); (1%nat, None); (2%nat, None); (3%nat, None); (4%nat, Some (0, 3)); (5%nat, Some (1, 2))]).
Proof. vm_compute. reflexivity. Qed.

Example filter_example :
  let K := FilterStore Z (Some 4%Q) in
  obs_of (run true (init (K:=K) [] 0%Q)
    [@AGet K (fmod_ex 5 0); @AGet K (fmod_ex 2 0); @APut K 1; @APut K 2; @APut K 3; @APut K 4;
     @AProcess K 2%nat; @AProcess K 3%nat; @AProcess K 1%nat; @AProcess K 4%nat; @AProcess K 5%nat;
     @AGet K (fmod_ex 3 0); @ACancel K 0%nat; @AProcess K 6%nat; @AAdvance K 1%Q])
  = Some ([1; 4], [], [],
          [(2%nat, None); (3%nat, None); (4%nat, None); (5%nat, None); (1%nat, Some 2); (6%nat, Some 3)]).
Proof. vm_compute. reflexivity. Qed.

(* the capacity guard of the pinned commit (len(items) < capacity) lets a store of capacity 5/2 hold
   three items; the repaired guard (fix: 2019701) stops at two *)
Definition KU : kind := Store_unfixed Z (Some (5 # 2)%Q).
Definition over_capacity_history : list (action KU) := [@APut KU 0; @APut KU 1; @APut KU 2].

Lemma store_bounded_refuted_unfixed :
  exists (acts : list (action KU)) (s : state KU),
    run true (init (K:=KU) [] 0%Q) acts = Some s /\
    ~ (inject_Z (Z.of_nat (length (content s))) <= 5 # 2)%Q.
Proof.
  exists over_capacity_history.
  destruct (run true (init (K:=KU) [] 0%Q) over_capacity_history) as [s|] eqn:E; [|vm_compute in E; discriminate].
  exists s. split; [reflexivity|]. vm_compute in E. injection E as <-. cbn. intros H. vm_compute in H. apply H. reflexivity.
Qed.

Example over_capacity_history_repaired :
  let K := Store Z (Some (5 # 2)%Q) in
  obs_of (run true (init (K:=K) [] 0%Q) [@APut K 0; @APut K 1; @APut K 2])
  = Some ([0; 1], [2%nat], [], [(0%nat, None); (1%nat, None)]).
Proof. vm_compute. reflexivity. Qed.

(* ---------------------------------------------------------------------------------------------- *)
(* items that carry the id of their put next to their value: (value, put-id).  Equal values with distinct
   put-ids are distinct items for the model (Leibniz equality); Python's == sees the value only. *)
Section PutIds.
  Variable V T : Type.
  Variable cap : option Q.
  Let KF := FilterStore (V * T) cap.
  Let idA := fun x : V * T => x.

  (* if every accepted item has its own put-id, then no put-id is handed out twice or both handed out
     and still held, and every accepted put-id is held or was handed out *)
  Theorem filter_put_ids_exactly_once fixed (acts : list (action KF)) t0 s :
    run fixed (init (K:=KF) [] t0) acts = Some s ->
    NoDup (map snd (accepted (K:=KF) idA (log s))) ->
    NoDup (map snd (content s ++ delivered (K:=KF) idA (log s))) /\
    forall t, In t (map snd (accepted (K:=KF) idA (log s))) <->
              In t (map snd (content s ++ delivered (K:=KF) idA (log s))).
  Proof.
    intros Hr Hn. pose proof (filter_delivered_once (V * T) cap fixed acts t0 s Hr) as Hp.
    apply (Permutation_map snd) in Hp. split.
    - eapply Permutation_NoDup; eauto.
    - intros t. split; intros H; [eapply Permutation_in; eauto|eapply Permutation_in; [apply Permutation_sym|]; eauto].
  Qed.
End PutIds.

(* FilterStore._do_get as found (list.remove(item): first EQUAL element): items (1, id 0) and (1, id 1),
   a filter that accepts only put-id 1: the getter receives (1, 1), which is STILL in the store, and
   (1, 0) is gone -- one accepted item lost, another handed out and kept *)
Definition veq_value (a b : Z * nat) : bool := Z.eqb (fst a) (fst b).
Definition KFU : kind := FilterStore_unfixed (Z * nat) veq_value None.
Definition equal_items_history : list (action KFU) :=
  [@APut KFU (1, 0%nat); @APut KFU (1, 1%nat); @AGet KFU (fun x => Nat.eqb (snd x) 1)].

Lemma filter_delivered_once_refuted_unfixed :
  exists (acts : list (action KFU)) (s : state KFU),
    run true (init (K:=KFU) [] 0%Q) acts = Some s /\
    ~ Permutation (accepted (K:=KFU) (fun x => x) (log s))
                  (content s ++ delivered (K:=KFU) (fun x => x) (log s)) /\
    exists x, In x (content s) /\ In x (delivered (K:=KFU) (fun x => x) (log s)).
Proof.
  exists equal_items_history.
  destruct (run true (init (K:=KFU) [] 0%Q) equal_items_history) as [s|] eqn:E; [|vm_compute in E; discriminate].
  exists s. split; [reflexivity|]. vm_compute in E. injection E as <-. cbn. split.
  - intros Hp. assert (Hin : In (1, 0%nat) [(1, 1%nat); (1, 1%nat)]).
    { eapply Permutation_in; [exact Hp|left; reflexivity]. }
    cbn in Hin. destruct Hin as [Hc|[Hc|[]]]; discriminate.
  - exists (1, 1%nat). split; left; reflexivity.
Qed.

Example equal_items_history_repaired :
  let K := FilterStore (Z * nat) None in
  obs_of (run true (init (K:=K) [] 0%Q)
    [@APut K (1, 0%nat); @APut K (1, 1%nat); @AGet K (fun x => Nat.eqb (snd x) 1)])
  = Some ([(1, 0%nat)], [], [], [(0%nat, None); (1%nat, None); (2%nat, Some (1, 1%nat))]).
Proof. vm_compute. reflexivity. Qed.
