(* Bridging lemma (DESIGN 2.6, second tie) for FilterStore._do_get: ONE iteration of `for i, item in enumerate(self.items)`
   (and the `return True` behind the loop) as translated from the tree under test on every run (Gen/Extracted_filterget.v)
   is RUN here on a concrete item list with the request's filter as a function; with fuel 1 + len(items) the run is
   [f_do_get] of the hand-written model (Res/ContainerStore.v): the FIRST matching item is handed out and deleted at ITS
   position, the method always returns True. *)
From Coq Require Import ZArith QArith List Bool Lia.
From ONL Require Import Res.Heap Res.ContainerStore Gen.Extracted_filterget Res.ScanBridge.
Import ListNotations.

Section F.
  Variable A : Type.
  Variable flt : A -> bool.

  Fixpoint run_filter (fuel : nat) (items : list A) (r : fget_st) : option (dores (list A) A) :=
    match fuel with
    | O => None
    | S fu =>
        let i := Z.to_nat (f_i r) in
        let m := match nth_error items i with Some x => flt x | None => false end in
        let '(r', fx) := gen_FilterStore_do_get_iter r (Z.of_nat (length items)) m in
        match fx with
        | [FxReturnTrue] => Some (mkres items None true)
        | [FxDelAt j; FxSucceedItem; FxReturnTrue] =>
            match nth_error items i with
            | Some x => Some (mkres (remove_nth (Z.to_nat j) items) (Some x) true)
            | None => None
            end
        | [FxLoopAgain] => run_filter fu items r'
        | _ => None
        end
    end.

  Lemma nth_pre (pre rest : list A) x : nth_error (pre ++ x :: rest) (length pre) = Some x.
  Proof. rewrite nth_error_app2 by lia. rewrite Nat.sub_diag. reflexivity. Qed.
  Lemma remove_pre (pre rest : list A) x : remove_nth (length pre) (pre ++ x :: rest) = pre ++ rest.
  Proof. induction pre as [|y l IH]; cbn; [reflexivity|]. rewrite IH. reflexivity. Qed.

  Lemma run_filter_spec rest : forall pre,
    run_filter (S (length rest)) (pre ++ rest) {| f_i := Z.of_nat (length pre) |} =
    Some (match take_first flt rest with
          | Some (x, r) => mkres (pre ++ r) (Some x) true
          | None => mkres (pre ++ rest) None true
          end).
  Proof.
    induction rest as [|x t IH]; intros pre.
    - cbn [run_filter length f_i take_first]. rewrite Nat2Z.id, app_nil_r.
      unfold gen_FilterStore_do_get_iter. cbn [f_i].
      destruct (Z.ltb_spec (Z.of_nat (length pre)) (Z.of_nat (length pre))); [lia|reflexivity].
    - cbn [run_filter f_i take_first]. rewrite Nat2Z.id, nth_pre.
      unfold gen_FilterStore_do_get_iter. cbn [f_i]. rewrite app_length. cbn [length].
      destruct (Z.ltb_spec (Z.of_nat (length pre)) (Z.of_nat (length pre + S (length t)))); [|lia].
      destruct (flt x) eqn:EF.
      + rewrite Nat2Z.id, remove_pre. reflexivity.
      + replace (Z.of_nat (length pre) + 1)%Z with (Z.of_nat (length (pre ++ [x]))) by (rewrite app_length; cbn; lia).
        replace (pre ++ x :: t) with ((pre ++ [x]) ++ t) by (rewrite <- app_assoc; reflexivity).
        rewrite IH. destruct (take_first flt t) as [[y r]|]; rewrite <- ?app_assoc; reflexivity.
  Qed.

  Lemma bridge_filter_do_get items :
    run_filter (S (length items)) items {| f_i := 0 |} = Some (f_do_get A items flt).
  Proof.
    pose proof (run_filter_spec items []) as H. cbn [app length Z.of_nat] in H. rewrite H. unfold f_do_get.
    destruct (take_first flt items) as [[x r]|]; reflexivity.
  Qed.
End F.
