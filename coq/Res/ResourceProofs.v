(* Proofs about the resource automaton of Res/Resource.v (property C06). *)
From Coq Require Import ZArith List Bool Arith Lia Sorted Permutation.
From ONL Require Import Res.Resource.
Import ListNotations.

(* ================================================================================================ *)
(* 1. keys: Python's tuple order on (priority, time, not preempt) is a strict total order            *)

Definition b2z (b : bool) : Z := if b then 1%Z else 0%Z.
Definition klt (a b : key) : Prop :=
  match a, b with
  | (p1, t1, n1), (p2, t2, n2) =>
      (p1 < p2 \/ (p1 = p2 /\ (t1 < t2 \/ (t1 = t2 /\ b2z n1 < b2z n2))))%Z
  end.

Lemma key_ltb_spec : forall a b, key_ltb a b = true <-> klt a b.
Proof.
  intros [[p1 t1] n1] [[p2 t2] n2]. unfold key_ltb, klt, bool_ltb.
  rewrite orb_true_iff, andb_true_iff, orb_true_iff, andb_true_iff, Z.ltb_lt, Z.eqb_eq, Z.ltb_lt, Z.eqb_eq.
  destruct n1, n2; simpl; intuition (try lia; try discriminate).
Qed.

Lemma key_ltb_nspec : forall a b, key_ltb a b = false <-> ~ klt a b.
Proof.
  intros a b. rewrite <- key_ltb_spec. destruct (key_ltb a b); split; intros H; try reflexivity; try discriminate.
  - exfalso; apply H; reflexivity.
Qed.

Ltac kprep :=
  repeat match goal with
  | H : key_ltb _ _ = true |- _ => apply key_ltb_spec in H
  | H : key_ltb _ _ = false |- _ => apply key_ltb_nspec in H
  | |- key_ltb _ _ = true => apply key_ltb_spec
  | |- key_ltb _ _ = false => apply key_ltb_nspec
  end.
Ltac kd x := destruct x as [[?p ?t] [|]].
Ltac kfin := unfold klt, b2z in *; simpl in *; try lia; try (f_equal; try f_equal; lia).
Ltac ksolve a b c := kprep; kd a; kd b; kd c; kfin.

Lemma key_lt_trans : forall a b c, key_ltb a b = true -> key_ltb b c = true -> key_ltb a c = true.
Proof. intros a b c H1 H2. ksolve a b c. Qed.
Lemma key_lt_le_trans : forall a b c, key_ltb a b = true -> key_ltb c b = false -> key_ltb a c = true.
Proof. intros a b c H1 H2. ksolve a b c. Qed.
Lemma key_le_lt_trans : forall a b c, key_ltb b a = false -> key_ltb b c = true -> key_ltb a c = true.
Proof. intros a b c H1 H2. ksolve a b c. Qed.
Lemma key_le_trans : forall a b c, key_ltb b a = false -> key_ltb c b = false -> key_ltb c a = false.
Proof. intros a b c H1 H2. ksolve a b c. Qed.
Lemma key_lt_irrefl : forall a, key_ltb a a = false.
Proof. intros a. kprep; kd a; kfin. Qed.
Lemma key_lt_asym : forall a b, key_ltb a b = true -> key_ltb b a = false.
Proof. intros a b H. kprep; kd a; kd b; kfin. Qed.
Lemma key_total : forall a b, key_ltb a b = false -> key_ltb b a = false -> a = b.
Proof. intros a b H1 H2. kprep; kd a; kd b; kfin. Qed.
Lemma key_eqb_eq : forall a b, key_eqb a b = true <-> a = b.
Proof.
  intros [[p1 t1] n1] [[p2 t2] n2]. unfold key_eqb.
  rewrite !andb_true_iff, !Z.eqb_eq, eqb_true_iff. split.
  - intros [[-> ->] ->]; reflexivity.
  - intros H; inversion H; auto.
Qed.
Lemma key_eqb_refl : forall a, key_eqb a a = true.
Proof. intros a; apply key_eqb_eq; reflexivity. Qed.

Arguments key_ltb : simpl never.
Arguments key_eqb : simpl never.
Arguments rkey : simpl never.

(* ================================================================================================ *)
(* 2. the stable sort                                                                               *)

(* keys non-decreasing along the list *)
Definition kle (x y : req) : Prop := key_ltb (rkey y) (rkey x) = false.
Definition ksorted (l : list req) : Prop := StronglySorted kle l.

Lemma ins_perm : forall x l, Permutation (ins x l) (x :: l).
Proof.
  intros x l; induction l as [|y t IH]; simpl; [reflexivity|].
  destruct (key_ltb (rkey y) (rkey x)); [|reflexivity].
  rewrite IH. apply perm_swap.
Qed.
Lemma ssort_perm : forall l, Permutation (ssort l) l.
Proof.
  induction l as [|x t IH]; simpl; [reflexivity|]. rewrite ins_perm. constructor; exact IH.
Qed.
Lemma ins_in : forall x l z, In z (ins x l) <-> z = x \/ In z l.
Proof.
  intros x l z. split; intros H.
  - apply (Permutation_in _ (ins_perm x l)) in H. destruct H; auto.
  - apply (Permutation_in _ (Permutation_sym (ins_perm x l))). destruct H; [left|right]; auto.
Qed.
Lemma ssort_in : forall l z, In z (ssort l) <-> In z l.
Proof.
  intros l z; split; intros H.
  - exact (Permutation_in _ (ssort_perm l) H).
  - exact (Permutation_in _ (Permutation_sym (ssort_perm l)) H).
Qed.

Lemma ins_ksorted : forall x l, ksorted l -> ksorted (ins x l).
Proof.
  intros x l; induction l as [|y t IH]; intros Hs; simpl.
  - constructor; constructor.
  - destruct (key_ltb (rkey y) (rkey x)) eqn:E.
    + inversion Hs as [|? ? Ht Hy]; subst. constructor; [apply IH; exact Ht|].
      apply Forall_forall; intros z Hz. apply ins_in in Hz. destruct Hz as [->|Hz].
      * unfold kle. apply key_lt_asym; exact E.
      * rewrite Forall_forall in Hy; apply Hy; exact Hz.
    + constructor; [exact Hs|]. inversion Hs as [|? ? Ht Hy]; subst.
      constructor; [exact E|]. rewrite Forall_forall in *; intros z Hz. unfold kle in *.
      eapply key_le_trans; [exact E| apply Hy; exact Hz].
Qed.
Lemma ssort_ksorted : forall l, ksorted (ssort l).
Proof. induction l as [|x t IH]; simpl; [constructor|]. apply ins_ksorted; exact IH. Qed.

(* sorting a list whose keys are already in order changes nothing *)
Lemma ins_head : forall x l, ksorted (x :: l) -> ins x l = x :: l.
Proof.
  intros x [|y t] Hs; simpl; [reflexivity|].
  inversion Hs as [|? ? _ Hy]; subst. inversion Hy as [|? ? Hxy _]; subst. unfold kle in Hxy. rewrite Hxy. reflexivity.
Qed.
Lemma ssort_id : forall l, ksorted l -> ssort l = l.
Proof.
  induction l as [|x t IH]; intros Hs; simpl; [reflexivity|].
  inversion Hs as [|? ? Ht _]; subst. rewrite (IH Ht). apply ins_head; exact Hs.
Qed.

(* SortedQueue.append on a sorted queue = put the new element behind every element whose key is <= its key *)
Fixpoint place (e : req) (q : list req) : list req :=
  match q with
  | [] => [e]
  | y :: t => if key_ltb (rkey e) (rkey y) then e :: y :: t else y :: place e t
  end.

Lemma ssort_app_place : forall q e, ksorted q -> ssort (q ++ [e]) = place e q.
Proof.
  induction q as [|a q IH]; intros e Hs; simpl; [reflexivity|].
  inversion Hs as [|? ? Hq Ha]; subst. rewrite (IH e Hq).
  destruct (key_ltb (rkey e) (rkey a)) eqn:E.
  - destruct q as [|y t]; simpl.
    + rewrite E. reflexivity.
    + inversion Ha as [|? ? Hay _]; subst. unfold kle in Hay.
      assert (Hey : key_ltb (rkey e) (rkey y) = true) by (eapply key_lt_le_trans; [exact E|exact Hay]).
      rewrite Hey. simpl. rewrite E. simpl. rewrite Hay. reflexivity.
  - destruct q as [|y t]; simpl.
    + rewrite E. reflexivity.
    + inversion Ha as [|? ? Hay _]; subst. unfold kle in Hay.
      destruct (key_ltb (rkey e) (rkey y)) eqn:Ey; simpl.
      * rewrite E. reflexivity.
      * rewrite Hay. reflexivity.
Qed.

Lemma place_split : forall e q, exists l1 l2, q = l1 ++ l2 /\ place e q = l1 ++ e :: l2
   /\ (forall x, In x l1 -> key_ltb (rkey e) (rkey x) = false)
   /\ (match l2 with [] => True | y :: _ => key_ltb (rkey e) (rkey y) = true end).
Proof.
  intros e q; induction q as [|y t IH]; simpl.
  - exists [], []. repeat split; auto. intros x [].
  - destruct (key_ltb (rkey e) (rkey y)) eqn:E.
    + exists [], (y :: t). repeat split; auto. intros x [].
    + destruct IH as (l1 & l2 & Hq & Hp & H1 & H2). exists (y :: l1), l2. rewrite Hq at 1. rewrite Hp. repeat split; auto.
      intros x [<-|Hx]; auto.
Qed.

(* the last element of the sorted list = the LAST element of maximal key of the original list *)
Fixpoint lastmax (u : list req) : option req :=
  match u with
  | [] => None
  | x :: t => match lastmax t with
              | None => Some x
              | Some m => if key_ltb (rkey m) (rkey x) then Some x else Some m
              end
  end.

Fixpoint lastopt (l : list req) : option req :=
  match l with
  | [] => None
  | x :: t => match lastopt t with None => Some x | Some y => Some y end
  end.

Lemma lastopt_rev : forall l, match rev l with [] => None | w :: _ => Some w end = lastopt l.
Proof.
  induction l as [|x t IH]; simpl; [reflexivity|].
  destruct (rev t) as [|w r]; simpl; rewrite <- IH; reflexivity.
Qed.

Lemma lastopt_in : forall l m, lastopt l = Some m -> In m l.
Proof.
  induction l as [|x t IH]; intros m H; simpl in H; [discriminate|].
  destruct (lastopt t) as [y|]; inversion H; subst; [right; apply IH; reflexivity|left; reflexivity].
Qed.

Lemma lastopt_ins : forall x l, ksorted l ->
  lastopt (ins x l) = match lastopt l with
                      | None => Some x
                      | Some m => if key_ltb (rkey m) (rkey x) then Some x else Some m
                      end.
Proof.
  intros x l; induction l as [|y t IH]; intros Hs; [reflexivity|].
  inversion Hs as [|? ? Ht Hy]; subst. specialize (IH Ht).
  simpl ins. destruct (key_ltb (rkey y) (rkey x)) eqn:E.
  - change (lastopt (y :: ins x t)) with (match lastopt (ins x t) with None => Some y | Some z => Some z end).
    rewrite IH. change (lastopt (y :: t)) with (match lastopt t with None => Some y | Some z => Some z end).
    destruct (lastopt t) as [m|].
    + destruct (key_ltb (rkey m) (rkey x)); reflexivity.
    + rewrite E. reflexivity.
  - change (lastopt (x :: y :: t)) with (match lastopt (y :: t) with None => Some x | Some z => Some z end).
    destruct (lastopt (y :: t)) as [m|] eqn:El.
    + assert (Hm : key_ltb (rkey m) (rkey x) = false).
      { apply lastopt_in in El. destruct El as [<-|Hin]; [exact E|].
        rewrite Forall_forall in Hy. specialize (Hy _ Hin). unfold kle in Hy.
        eapply key_le_trans; [exact E|exact Hy]. }
      rewrite Hm. reflexivity.
    + simpl in El. destruct (lastopt t); discriminate.
Qed.

Lemma worst_lastmax : forall u, worst u = lastmax u.
Proof.
  intros u. unfold worst. rewrite lastopt_rev.
  induction u as [|x t IH]; [reflexivity|].
  simpl ssort. rewrite (lastopt_ins x (ssort t) (ssort_ksorted t)). rewrite IH. reflexivity.
Qed.

Lemma lastmax_spec : forall u w, lastmax u = Some w ->
  exists l1 l2, u = l1 ++ w :: l2
    /\ (forall x, In x l1 -> key_ltb (rkey w) (rkey x) = false)
    /\ (forall x, In x l2 -> key_ltb (rkey x) (rkey w) = true).
Proof.
  induction u as [|x t IH]; intros w H; simpl in H; [discriminate|].
  destruct (lastmax t) as [m|] eqn:Em.
  - destruct (IH m eq_refl) as (l1 & l2 & Ht & H1 & H2).
    destruct (key_ltb (rkey m) (rkey x)) eqn:E; inversion H; subst.
    + exists [], (l1 ++ m :: l2). repeat split; auto. { intros y []. }
      intros y Hy. apply in_app_or in Hy. destruct Hy as [Hy|[<-|Hy]].
      * eapply key_le_lt_trans; [apply H1; exact Hy|exact E].
      * exact E.
      * eapply key_lt_trans; [apply H2; exact Hy|exact E].
    + exists (x :: l1), l2. repeat split; auto. intros y [<-|Hy]; auto.
  - inversion H; subst. destruct t; [|simpl in Em; destruct (lastmax t); [destruct (key_ltb _ _)|]; discriminate].
    exists [], []. repeat split; auto; intros y [].
Qed.

Lemma worst_none : forall u, worst u = None -> u = [].
Proof.
  intros u H. rewrite worst_lastmax in H. destruct u as [|x t]; [reflexivity|].
  simpl in H. destruct (lastmax t); [destruct (key_ltb _ _)|]; discriminate.
Qed.

(* ================================================================================================ *)
(* 3. ranks and the queue order                                                                     *)

Definition rank_lt (k : kind) (x y : req) : Prop := rank_ltb k x y = true.
Definition rsorted (k : kind) (l : list req) : Prop := StronglySorted (rank_lt k) l.

Lemma rank_kle : forall k x y, k <> KRes -> rank_lt k x y -> kle x y.
Proof.
  intros k x y Hk H. unfold rank_lt, rank_ltb in H. unfold kle.
  destruct k; [congruence| |]; apply orb_true_iff in H; destruct H as [H|H];
    try (apply key_lt_asym; exact H);
    apply andb_true_iff in H; destruct H as [H _]; apply key_eqb_eq in H; rewrite H; apply key_lt_irrefl.
Qed.

Lemma rsorted_ksorted : forall k l, k <> KRes -> rsorted k l -> ksorted l.
Proof.
  intros k l Hk H; induction H as [|x l Hl IH Hx]; constructor; [exact IH|].
  rewrite Forall_forall in *; intros y Hy. eapply rank_kle; [exact Hk|apply Hx; exact Hy].
Qed.

Lemma place_in : forall e q z, In z (place e q) <-> z = e \/ In z q.
Proof.
  intros e q z; induction q as [|y t IH]; simpl.
  - intuition.
  - destruct (key_ltb (rkey e) (rkey y)); simpl; rewrite ?IH; intuition.
Qed.

Lemma place_rsorted : forall k e q, k <> KRes -> rsorted k q -> (forall y, In y q -> rid y < rid e) -> rsorted k (place e q).
Proof.
  intros k e q Hk; induction q as [|y t IH]; intros Hs Hid; simpl.
  - constructor; constructor.
  - inversion Hs as [|? ? Ht Hy]; subst.
    destruct (key_ltb (rkey e) (rkey y)) eqn:E.
    + constructor; [exact Hs|]. rewrite Forall_forall; intros z Hz.
      assert (Hyz : kle y z).
      { destruct Hz as [<-|Hz]; [unfold kle; apply key_lt_irrefl|]. rewrite Forall_forall in Hy. eapply rank_kle; [exact Hk|apply Hy; exact Hz]. }
      unfold kle in Hyz. unfold rank_lt, rank_ltb.
      assert (key_ltb (rkey e) (rkey z) = true) by (eapply key_lt_le_trans; [exact E|exact Hyz]).
      destruct k; [congruence| |]; rewrite H; reflexivity.
    + constructor; [apply IH; [exact Ht|intros z Hz; apply Hid; right; exact Hz]|].
      rewrite Forall_forall; intros z Hz. apply place_in in Hz. destruct Hz as [->|Hz].
      * unfold rank_lt, rank_ltb.
        assert (Hlt : rid y <? rid e = true) by (apply Nat.ltb_lt; apply Hid; left; reflexivity).
        destruct (key_ltb (rkey y) (rkey e)) eqn:E2.
        -- destruct k; [congruence| |]; reflexivity.
        -- assert (rkey y = rkey e) by (apply key_total; assumption).
           rewrite H, key_eqb_refl, Hlt. destruct k; [congruence| |]; reflexivity.
      * rewrite Forall_forall in Hy; apply Hy; exact Hz.
Qed.

Lemma sorted_snoc : forall (R : req -> req -> Prop) l e, StronglySorted R l -> (forall y, In y l -> R y e) -> StronglySorted R (l ++ [e]).
Proof.
  intros R l e H; induction H as [|x l Hl IH Hx]; intros He; simpl.
  - constructor; constructor.
  - constructor; [apply IH; intros y Hy; apply He; right; exact Hy|].
    rewrite Forall_forall in *; intros z Hz. apply in_app_or in Hz. destruct Hz as [Hz|[<-|[]]]; [apply Hx; exact Hz|apply He; left; reflexivity].
Qed.

Lemma enqueue_perm : forall k q e, Permutation (enqueue k q e) (e :: q).
Proof.
  intros k q e. assert (Permutation (q ++ [e]) (e :: q)) by (rewrite Permutation_app_comm; reflexivity).
  destruct k; simpl; try exact H; rewrite ssort_perm; exact H.
Qed.
Lemma enqueue_in : forall k q e z, In z (enqueue k q e) <-> z = e \/ In z q.
Proof.
  intros k q e z; split; intros H.
  - apply (Permutation_in _ (enqueue_perm k q e)) in H. destruct H; auto.
  - apply (Permutation_in _ (Permutation_sym (enqueue_perm k q e))). destruct H; [left|right]; auto.
Qed.

Lemma enqueue_rsorted : forall k q e, rsorted k q -> (forall y, In y q -> rid y < rid e) -> rsorted k (enqueue k q e).
Proof.
  intros k q e Hs Hid. destruct k eqn:Ek.
  - simpl. apply sorted_snoc; [exact Hs|]. intros y Hy. unfold rank_lt; simpl. apply Nat.ltb_lt; apply Hid; exact Hy.
  - simpl. rewrite ssort_app_place; [|eapply rsorted_ksorted; [|exact Hs]; discriminate].
    apply place_rsorted; [discriminate|exact Hs|exact Hid].
  - simpl. rewrite ssort_app_place; [|eapply rsorted_ksorted; [|exact Hs]; discriminate].
    apply place_rsorted; [discriminate|exact Hs|exact Hid].
Qed.

(* ---- list.remove by identity ------------------------------------------------------------------- *)
Lemma remove_id_in : forall i l x, In x (remove_id i l) -> In x l.
Proof.
  intros i l; induction l as [|y t IH]; intros x H; simpl in *; [exact H|].
  destruct (rid y =? i); [right; exact H|]. destruct H as [<-|H]; [left; reflexivity|right; apply IH; exact H].
Qed.
Lemma remove_id_sorted : forall (R : req -> req -> Prop) i l, StronglySorted R l -> StronglySorted R (remove_id i l).
Proof.
  intros R i l H; induction H as [|x l Hl IH Hx]; simpl; [constructor|].
  destruct (rid x =? i); [exact Hl|]. constructor; [exact IH|].
  rewrite Forall_forall in *; intros z Hz; apply Hx; eapply remove_id_in; exact Hz.
Qed.
Lemma remove_id_notin : forall i l, ~ In i (map rid l) -> remove_id i l = l.
Proof.
  intros i l; induction l as [|y t IH]; intros H; simpl in *; [reflexivity|].
  destruct (rid y =? i) eqn:E; [apply Nat.eqb_eq in E; exfalso; apply H; left; exact E|].
  f_equal; apply IH; intros Hc; apply H; right; exact Hc.
Qed.
Lemma remove_id_split : forall w l1 l2, ~ In (rid w) (map rid l1) -> remove_id (rid w) (l1 ++ w :: l2) = l1 ++ l2.
Proof.
  intros w l1 l2; induction l1 as [|y t IH]; intros H; simpl in *.
  - rewrite Nat.eqb_refl; reflexivity.
  - destruct (rid y =? rid w) eqn:E; [apply Nat.eqb_eq in E; exfalso; apply H; left; exact E|].
    f_equal; apply IH; intros Hc; apply H; right; exact Hc.
Qed.
Lemma remove_id_length : forall i l, has_id i l = true -> S (length (remove_id i l)) = length l.
Proof.
  intros i l; induction l as [|y t IH]; intros H; simpl in *; [discriminate|].
  destruct (rid y =? i); [reflexivity|]. simpl in H. simpl. f_equal; apply IH; exact H.
Qed.
Lemma remove_id_length_le : forall i l, length (remove_id i l) <= length l.
Proof.
  intros i l; induction l as [|y t IH]; simpl; [lia|]. destruct (rid y =? i); simpl; lia.
Qed.
Lemma has_id_in : forall i l, has_id i l = true <-> In i (map rid l).
Proof.
  intros i l; unfold has_id; rewrite existsb_exists; split.
  - intros (x & Hx & E). apply Nat.eqb_eq in E. subst. apply in_map; exact Hx.
  - intros H. apply in_map_iff in H. destruct H as (x & E & Hx). exists x; split; [exact Hx|apply Nat.eqb_eq; exact E].
Qed.
Lemma nodup_remove_l : forall (f : req -> nat) i l r, NoDup (map f (l ++ r)) -> NoDup (map f (remove_id i l ++ r)).
Proof.
  intros f i l r; induction l as [|y t IH]; intros H; simpl in *; [exact H|].
  inversion H as [|? ? Hn Hd]; subst.
  destruct (rid y =? i); [exact Hd|]. simpl. constructor; [|apply IH; exact Hd].
  intros Hc. apply Hn. rewrite map_app in *. apply in_app_or in Hc. apply in_or_app. destruct Hc as [Hc|Hc]; [left|right; exact Hc].
  apply in_map_iff in Hc. destruct Hc as (x & E & Hx). apply in_map_iff. exists x; split; [exact E|eapply remove_id_in; exact Hx].
Qed.
Lemma nodup_remove_r : forall (f : req -> nat) i l r, NoDup (map f (l ++ r)) -> NoDup (map f (l ++ remove_id i r)).
Proof.
  intros f i l r H.
  assert (P : Permutation (map f (l ++ r)) (map f (r ++ l))) by (apply Permutation_map, Permutation_app_comm).
  assert (P2 : Permutation (map f (remove_id i r ++ l)) (map f (l ++ remove_id i r))) by (apply Permutation_map, Permutation_app_comm).
  eapply Permutation_NoDup; [exact P2|]. apply nodup_remove_l. eapply Permutation_NoDup; [exact P|exact H].
Qed.
Lemma nodup_app_neq : forall (f : req -> nat) l r a b, NoDup (map f (l ++ r)) -> In a l -> In b r -> f a <> f b.
Proof.
  intros f l r a b; induction l as [|y t IH]; intros H Ha Hb; simpl in *; [destruct Ha|].
  inversion H as [|? ? Hn Hd]; subst. destruct Ha as [->|Ha]; [|apply IH; assumption].
  intros E. apply Hn. rewrite E. apply in_map. apply in_or_app; right; exact Hb.
Qed.

Lemma nodup_app_r : forall (l r : list nat), NoDup (l ++ r) -> NoDup r.
Proof. induction l as [|x t IH]; intros r H; simpl in *; [exact H|]. inversion H; subst. apply IH; assumption. Qed.

Lemma existsb_nat_in : forall r l, existsb (Nat.eqb r) l = true <-> In r l.
Proof.
  intros r l; rewrite existsb_exists; split.
  - intros (x & Hx & E); apply Nat.eqb_eq in E; subst; exact Hx.
  - intros H; exists r; split; [exact H|apply Nat.eqb_refl].
Qed.

Lemma rank_eqkey_rid : forall k x y, rank_lt k x y -> rkey x = rkey y -> rid x < rid y.
Proof.
  intros k x y H E. unfold rank_lt, rank_ltb in H. destruct k.
  - apply Nat.ltb_lt; exact H.
  - rewrite E, key_lt_irrefl in H. simpl in H. apply andb_true_iff in H. destruct H as [_ H]. apply Nat.ltb_lt; exact H.
  - rewrite E, key_lt_irrefl in H. simpl in H. apply andb_true_iff in H. destruct H as [_ H]. apply Nat.ltb_lt; exact H.
Qed.

(* ================================================================================================ *)
(* 4. the invariant                                                                                 *)

(* [q] is the put queue "as the scan sees it"; the field [queue s] is not mentioned *)
Record QI (k : kind) (cap : nat) (s : state) (q : list req) : Prop := mkQI {
  i_cap : length (users s) <= cap;
  i_getq : getq s = [];
  i_ids : NoDup (map rid (users s ++ q));
  i_procs : NoDup (map rproc (users s ++ q));
  i_fresh : forall r, In r (users s ++ q) -> rid r < next_id s;
  i_gfresh : forall i, In i (granted s) -> i < next_id s;
  i_ug : forall r, In r (users s) -> In (rid r) (granted s);
  i_qg : forall r, In r q -> ~ In (rid r) (granted s);
  i_sorted : rsorted k q;
  i_strict : forall i, In i (intrs s) -> key_ltb (rkey (iby i)) (rkey (ivictim i)) = true /\ rpre (iby i) = true;
  i_nointr : k <> KPreempt -> intrs s = [];
  i_since : forall r, In r (users s) -> exists t, rsince r = Some t /\ (t <= now s)%Z;
  (* equal keys: users are in arrival order, and arrived before everybody of that key who still waits *)
  i_uu : StronglySorted (fun a b => rkey a = rkey b -> rid a < rid b) (users s);
  i_uq : forall u h, In u (users s) -> In h q -> rkey u = rkey h -> rid u < rid h
}.

(* free slot and a waiter => a Release of this resource is triggered and not yet processed *)
Definition J (cap : nat) (s : state) (q : list req) : Prop :=
  length (users s) < cap -> q <> [] -> exists i, In (ERel i) (pending s).

Definition Inv (k : kind) (cap : nat) (s : state) : Prop := QI k cap s (queue s) /\ J cap s (queue s).

(* the active process holds nothing that a request still in the queue could evict *)
Definition act_ok (k : kind) (act : option nat) (s : state) (q : list req) : Prop :=
  k = KPreempt ->
  match act with
  | None => True
  | Some p => forall u, In u (users s) -> rproc u = p -> forall h, In h q -> key_ltb (rkey h) (rkey u) = false
  end.

Definition grant (t : Z) (e : req) : req := mkReq (rid e) (rproc e) (rprio e) (rtime e) (rpre e) (Some t).
Definition grant_state (s : state) (e : req) : state :=
  mkState (users s ++ [grant (now s) e]) (queue s) (getq s) (pending s ++ [EReq (rid e)]) (granted s ++ [rid e])
          (intrs s) (dead s) (next_id s) (now s).

Lemma res_do_put_eq : forall cap s e,
  res_do_put cap s e = if length (users s) <? cap then (grant_state s e, true, true) else (s, false, false).
Proof. reflexivity. Qed.

Lemma grant_I : forall k cap s e q, QI k cap s (e :: q) -> length (users s) < cap -> QI k cap (grant_state s e) q.
Proof.
  intros k cap s e q H Hlt. destruct H. unfold grant_state. constructor; simpl.
  - rewrite app_length; simpl; lia.
  - exact i_getq0.
  - rewrite <- app_assoc; simpl. rewrite map_app in *; simpl in *. exact i_ids0.
  - rewrite <- app_assoc; simpl. rewrite map_app in *; simpl in *. exact i_procs0.
  - intros r Hr. rewrite <- app_assoc in Hr; simpl in Hr. apply in_app_or in Hr.
    destruct Hr as [Hr|[<-|Hr]].
    + apply i_fresh0; apply in_or_app; left; exact Hr.
    + simpl. apply (i_fresh0 e); apply in_or_app; right; left; reflexivity.
    + apply i_fresh0; apply in_or_app; right; right; exact Hr.
  - intros i Hi. apply in_app_or in Hi. destruct Hi as [Hi|[<-|[]]]; [apply i_gfresh0; exact Hi|].
    apply (i_fresh0 e); apply in_or_app; right; left; reflexivity.
  - intros r Hr. apply in_app_or in Hr. apply in_or_app. destruct Hr as [Hr|[<-|[]]]; [left; apply i_ug0; exact Hr|right; left; reflexivity].
  - intros r Hr Hc. apply in_app_or in Hc. destruct Hc as [Hc|[Hc|[]]].
    + apply (i_qg0 r); [right; exact Hr|exact Hc].
    + rewrite map_app in i_ids0. apply nodup_app_r in i_ids0. simpl in i_ids0.
      inversion i_ids0 as [|? ? Hn _]; subst. apply Hn. rewrite Hc. apply in_map; exact Hr.
  - inversion i_sorted0; assumption.
  - exact i_strict0.
  - exact i_nointr0.
  - intros r Hr. apply in_app_or in Hr. destruct Hr as [Hr|[<-|[]]]; [apply i_since0; exact Hr|].
    exists (now s); split; [reflexivity|lia].
  - apply sorted_snoc; [exact i_uu0|]. intros u Hu E. apply (i_uq0 u e Hu (or_introl eq_refl) E).
  - intros u h Hu Hh E. apply in_app_or in Hu. destruct Hu as [Hu|[<-|[]]].
    + apply (i_uq0 u h Hu (or_intror Hh) E).
    + inversion i_sorted0 as [|? ? _ He]; subst. rewrite Forall_forall in He.
      apply (rank_eqkey_rid k e h (He h Hh) E).
Qed.

Lemma grant_act_ok : forall k cap act s e q, QI k cap s (e :: q) -> act_ok k act s (e :: q) -> act_ok k act (grant_state s e) q.
Proof.
  intros k cap act s e q HI H Hk. specialize (H Hk). destruct act as [p|]; [|exact I].
  intros u Hu Hp h Hh. simpl in Hu. apply in_app_or in Hu. destruct Hu as [Hu|[<-|[]]].
  - apply (H u Hu Hp h); right; exact Hh.
  - change (rkey (grant (now s) e)) with (rkey e).
    destruct HI. inversion i_sorted0 as [|? ? _ He]; subst. rewrite Forall_forall in He.
    assert (kle e h) by (eapply rank_kle; [|apply He; exact Hh]; discriminate). exact H0.
Qed.

Definition evict_state (s : state) (w e : req) (notified : bool) : state :=
  add_intr (set_users s (remove_id (rid w) (users s))) (mkIntr w e notified).

Lemma evict_I : forall cap s w e b q, QI KPreempt cap s (e :: q) -> In w (users s) ->
  key_ltb (rkey e) (rkey w) = true -> rpre e = true -> QI KPreempt cap (evict_state s w e b) (e :: q).
Proof.
  intros cap s w e b q H Hw Hlt Hpre. destruct H. unfold evict_state. constructor; simpl.
  - pose proof (remove_id_length_le (rid w) (users s)); lia.
  - exact i_getq0.
  - apply nodup_remove_l; exact i_ids0.
  - apply nodup_remove_l; exact i_procs0.
  - intros r Hr. apply i_fresh0. apply in_app_or in Hr. apply in_or_app. destruct Hr as [Hr|Hr]; [left; eapply remove_id_in; exact Hr|right; exact Hr].
  - exact i_gfresh0.
  - intros r Hr. apply i_ug0. eapply remove_id_in; exact Hr.
  - exact i_qg0.
  - exact i_sorted0.
  - intros i Hi. apply in_app_or in Hi. destruct Hi as [Hi|[<-|[]]]; [apply i_strict0; exact Hi|]. simpl. split; assumption.
  - intros Hc; congruence.
  - intros r Hr. apply i_since0. eapply remove_id_in; exact Hr.
  - apply remove_id_sorted; exact i_uu0.
  - intros u h Hu Hh E. apply (i_uq0 u h); [eapply remove_id_in; exact Hu|exact Hh|exact E].
Qed.

Lemma evict_act_ok : forall act s w e b q, act_ok KPreempt act s q -> act_ok KPreempt act (evict_state s w e b) q.
Proof.
  intros act s w e b q H Hk. specialize (H Hk). destruct act as [p|]; [|exact I].
  intros u Hu. apply H. simpl in Hu. eapply remove_id_in; exact Hu.
Qed.

Lemma worst_in : forall u w, worst u = Some w -> In w u.
Proof.
  intros u w H. rewrite worst_lastmax in H. apply lastmax_spec in H. destruct H as (l1 & l2 & -> & _).
  apply in_or_app; right; left; reflexivity.
Qed.

(* one call of _do_put on the head of the queue *)
Lemma do_put_ok : forall k cap act s e q, 1 <= cap -> QI k cap s (e :: q) -> act_ok k act s (e :: q) ->
  exists s' b, do_put k cap act s e = Some (s', b, b) /\
    if b then QI k cap s' q /\ act_ok k act s' q /\ granted s' = granted s ++ [rid e]
              /\ pending s' = pending s ++ [EReq (rid e)] /\ next_id s' = next_id s /\ now s' = now s
    else s' = s /\ cap <= length (users s).
Proof.
  intros k cap act s e q Hcap HI Hact.
  assert (Hres : forall s0, QI k cap s0 (e :: q) -> act_ok k act s0 (e :: q) ->
     granted s0 = granted s -> pending s0 = pending s -> next_id s0 = next_id s -> now s0 = now s ->
     (length (users s0) <? cap = false -> s0 = s) ->
     exists s' b, Some (res_do_put cap s0 e) = Some (s', b, b) /\
       if b then QI k cap s' q /\ act_ok k act s' q /\ granted s' = granted s ++ [rid e]
              /\ pending s' = pending s ++ [EReq (rid e)] /\ next_id s' = next_id s /\ now s' = now s
       else s' = s /\ cap <= length (users s)).
  { intros s0 HI0 Hact0 Eg Ep En Et Hsame. rewrite res_do_put_eq. destruct (length (users s0) <? cap) eqn:E.
    - apply Nat.ltb_lt in E. exists (grant_state s0 e), true. split; [reflexivity|].
      split; [apply grant_I; assumption|]. split; [eapply grant_act_ok; eassumption|].
      simpl. rewrite Eg, Ep, En, Et. repeat split; reflexivity.
    - exists s0, false. split; [reflexivity|]. specialize (Hsame eq_refl). subst s0. split; [reflexivity|].
      apply Nat.ltb_ge in E; exact E. }
  assert (Hplain : exists s' b, Some (res_do_put cap s e) = Some (s', b, b) /\
       if b then QI k cap s' q /\ act_ok k act s' q /\ granted s' = granted s ++ [rid e]
              /\ pending s' = pending s ++ [EReq (rid e)] /\ next_id s' = next_id s /\ now s' = now s
       else s' = s /\ cap <= length (users s)) by (apply Hres; auto).
  destruct k; try exact Hplain.
  unfold do_put, preempt_do_put.
  destruct ((cap <=? length (users s)) && rpre e) eqn:Ec; [|exact Hplain].
  apply andb_true_iff in Ec. destruct Ec as [Efull Epre]. apply Nat.leb_le in Efull.
  destruct (worst (users s)) as [w|] eqn:Ew.
  2:{ apply worst_none in Ew. rewrite Ew in Efull. simpl in Efull. lia. }
  destruct (key_ltb (rkey e) (rkey w)) eqn:Elt; [|exact Hplain].
  pose proof (worst_in _ _ Ew) as Hw.
  assert (Hnot : forall a, act = Some a -> a =? rproc w = false).
  { intros a Ea. apply Nat.eqb_neq. intros Heq. subst act. specialize (Hact eq_refl). simpl in Hact.
    rewrite (Hact w Hw (eq_sym Heq) e (or_introl eq_refl)) in Elt. discriminate. }
  assert (Hev : forall nb, exists s' b, Some (res_do_put cap (add_intr (set_users s (remove_id (rid w) (users s))) (mkIntr w e nb)) e) = Some (s', b, b) /\
       if b then QI KPreempt cap s' q /\ act_ok KPreempt act s' q /\ granted s' = granted s ++ [rid e]
              /\ pending s' = pending s ++ [EReq (rid e)] /\ next_id s' = next_id s /\ now s' = now s
       else s' = s /\ cap <= length (users s)).
  { intros nb. apply Hres; try reflexivity.
    - apply (evict_I cap s w e nb q); assumption.
    - apply (evict_act_ok act s w e nb); exact Hact.
    - intros E. exfalso. simpl in E. apply Nat.ltb_ge in E.
      assert (has_id (rid w) (users s) = true) by (apply has_id_in; apply in_map; exact Hw).
      pose proof (remove_id_length _ _ H). destruct HI. lia. }
  destruct (is_dead s (rproc w)); [apply Hev|].
  destruct act as [a|]; [rewrite (Hnot a eq_refl)|]; apply Hev.
Qed.

(* the scan of _trigger_put: it calls _do_put on the head of the queue until one call fails *)
Lemma scan_ok : forall k cap act, 1 <= cap -> forall q s, QI k cap s q -> act_ok k act s q ->
  exists s' q' new, scan (do_put k cap act) s [] q = Some (s', q') /\ q = new ++ q' /\ QI k cap s' q'
    /\ granted s' = granted s ++ map rid new
    /\ pending s' = pending s ++ map (fun r => EReq (rid r)) new
    /\ next_id s' = next_id s /\ now s' = now s
    /\ (q' = [] \/ cap <= length (users s')).
Proof.
  intros k cap act Hcap q; induction q as [|e q IH]; intros s HI Hact.
  - exists s, [], []. simpl. rewrite !app_nil_r.
    split; [reflexivity|]. split; [reflexivity|]. split; [exact HI|].
    split; [reflexivity|]. split; [reflexivity|]. split; [reflexivity|]. split; [reflexivity|]. left; reflexivity.
  - destruct (do_put_ok k cap act s e q Hcap HI Hact) as (s1 & b & Hd & Hb).
    simpl. rewrite Hd. destruct b.
    + destruct Hb as (HI1 & Hact1 & Eg & Ep & En & Et).
      destruct (IH s1 HI1 Hact1) as (s' & q' & new & Hs & Hq & HI' & Eg' & Ep' & En' & Et' & Hpost).
      exists s', q', (e :: new). rewrite Hs. split; [reflexivity|]. split; [simpl; rewrite Hq; reflexivity|].
      split; [exact HI'|]. simpl. rewrite Eg', Ep', Eg, Ep, <- !app_assoc. simpl.
      split; [reflexivity|]. split; [reflexivity|]. split; [congruence|]. split; [congruence|]. exact Hpost.
    + destruct Hb as (-> & Hfull). exists s, (e :: q), []. simpl. rewrite !app_nil_r.
      split; [reflexivity|]. split; [reflexivity|]. split; [exact HI|].
      split; [reflexivity|]. split; [reflexivity|]. split; [reflexivity|]. split; [reflexivity|]. right; exact Hfull.
Qed.

(* ================================================================================================ *)
(* 5. every admissible action preserves the invariant                                               *)

Lemma QI_ext : forall k cap s s' q, users s' = users s -> getq s' = getq s -> granted s' = granted s ->
  intrs s' = intrs s -> next_id s' = next_id s -> now s' = now s -> QI k cap s q -> QI k cap s' q.
Proof.
  intros k cap s s' q Eu Eq Eg Ei En Et H. destruct H. constructor; rewrite ?Eu, ?Eq, ?Eg, ?Ei, ?En, ?Et; assumption.
Qed.

Lemma trigger_put_ok : forall k cap act s, 1 <= cap -> QI k cap s (queue s) -> act_ok k act s (queue s) ->
  exists s' new, trigger_put k cap act s = Some s' /\ queue s = new ++ queue s' /\ Inv k cap s'
    /\ granted s' = granted s ++ map rid new
    /\ pending s' = pending s ++ map (fun r => EReq (rid r)) new
    /\ next_id s' = next_id s /\ now s' = now s.
Proof.
  intros k cap act s Hcap HI Hact.
  destruct (scan_ok k cap act Hcap (queue s) s HI Hact) as (s1 & q' & new & Hs & Hq & HI1 & Eg & Ep & En & Et & Hpost).
  exists (set_queue s1 q'), new. unfold trigger_put. rewrite Hs. simpl.
  split; [reflexivity|]. split; [exact Hq|]. split.
  - split; simpl.
    + eapply QI_ext; [..|exact HI1]; reflexivity.
    + intros Hlt Hne. simpl in Hlt. destruct Hpost as [->|Hfull]; [congruence|lia].
  - repeat split; assumption.
Qed.

Definition release_state (s : state) (r : nat) : state :=
  mkState (remove_id r (users s)) (queue s) [] (pending s ++ [ERel (next_id s)]) (granted s) (intrs s) (dead s) (S (next_id s)) (now s).

Lemma release_eq : forall s r, getq s = [] -> release s r = Some (release_state s r).
Proof. intros s r H. unfold release, trigger_get. simpl. rewrite H. reflexivity. Qed.

Lemma release_Inv : forall k cap s r, Inv k cap s -> Inv k cap (release_state s r).
Proof.
  intros k cap s r [H HJ]. destruct H. split.
  - constructor; simpl.
    + pose proof (remove_id_length_le r (users s)); lia.
    + reflexivity.
    + apply nodup_remove_l; exact i_ids0.
    + apply nodup_remove_l; exact i_procs0.
    + intros x Hx. assert (rid x < next_id s); [|lia]. apply i_fresh0. apply in_app_or in Hx. apply in_or_app.
      destruct Hx as [Hx|Hx]; [left; eapply remove_id_in; exact Hx|right; exact Hx].
    + intros i Hi. specialize (i_gfresh0 i Hi). lia.
    + intros x Hx. apply i_ug0. eapply remove_id_in; exact Hx.
    + exact i_qg0.
    + exact i_sorted0.
    + exact i_strict0.
    + exact i_nointr0.
    + intros x Hx. apply i_since0. eapply remove_id_in; exact Hx.
    + apply remove_id_sorted; exact i_uu0.
    + intros u h Hu Hh E. apply (i_uq0 u h); [eapply remove_id_in; exact Hu|exact Hh|exact E].
  - intros _ _. exists (next_id s). simpl. apply in_or_app; right; left; reflexivity.
Qed.

Definition new_req (s : state) (p : nat) (prio : Z) (pre : bool) : req := mkReq (next_id s) p prio (now s) pre None.

(* the put queue as it stands when the scan of the action begins *)
Definition qscan (k : kind) (s : state) (a : action) : list req :=
  match a with
  | ARequest p prio pre => enqueue k (queue s) (new_req s p prio pre)
  | ACancel _ r | AExit _ r => if existsb (Nat.eqb r) (granted s) then queue s else remove_id r (queue s)
  | _ => queue s
  end.

Lemma request_QI : forall k cap s p prio pre, QI k cap s (queue s) ->
  forallb (fun r => negb (rproc r =? p)) (users s ++ queue s) && negb (is_dead s p) = true ->
  let e := new_req s p prio pre in
  QI k cap (bump_id (set_queue s (enqueue k (queue s) e))) (enqueue k (queue s) e)
  /\ act_ok k (Some p) (bump_id (set_queue s (enqueue k (queue s) e))) (enqueue k (queue s) e).
Proof.
  intros k cap s p prio pre H Hadm e. destruct H.
  apply andb_true_iff in Hadm. destruct Hadm as [Hadm _]. rewrite forallb_forall in Hadm.
  assert (P : Permutation (users s ++ enqueue k (queue s) e) (e :: users s ++ queue s)).
  { rewrite (enqueue_perm k (queue s) e). symmetry. apply Permutation_middle. }
  split.
  - constructor; simpl.
    + exact i_cap0.
    + exact i_getq0.
    + eapply Permutation_NoDup; [apply Permutation_map; symmetry; exact P|]. simpl. constructor; [|exact i_ids0].
      intros Hc. apply in_map_iff in Hc. destruct Hc as (x & E & Hx). specialize (i_fresh0 x Hx). lia.
    + eapply Permutation_NoDup; [apply Permutation_map; symmetry; exact P|]. simpl. constructor; [|exact i_procs0].
      intros Hc. apply in_map_iff in Hc. destruct Hc as (x & E & Hx). specialize (Hadm x Hx).
      apply negb_true_iff, Nat.eqb_neq in Hadm. congruence.
    + intros x Hx. apply (Permutation_in _ P) in Hx. destruct Hx as [<-|Hx]; [simpl; lia|]. specialize (i_fresh0 x Hx). lia.
    + intros i Hi. specialize (i_gfresh0 i Hi). lia.
    + exact i_ug0.
    + intros x Hx Hc. apply enqueue_in in Hx. destruct Hx as [->|Hx]; [|exact (i_qg0 x Hx Hc)].
      simpl in Hc. specialize (i_gfresh0 _ Hc). lia.
    + apply enqueue_rsorted; [exact i_sorted0|]. intros y Hy. simpl. apply i_fresh0. apply in_or_app; right; exact Hy.
    + exact i_strict0.
    + exact i_nointr0.
    + exact i_since0.
    + exact i_uu0.
    + intros u h Hu Hh E. apply enqueue_in in Hh. destruct Hh as [->|Hh]; [|exact (i_uq0 u h Hu Hh E)].
      simpl. apply i_fresh0. apply in_or_app; left; exact Hu.
  - intros _ u Hu Hp. simpl in Hu. assert (In u (users s ++ queue s)) by (apply in_or_app; left; exact Hu).
    specialize (Hadm u H). apply negb_true_iff, Nat.eqb_neq in Hadm. congruence.
Qed.

Lemma cancel_ok : forall k cap s p r, 1 <= cap -> Inv k cap s -> adm s (ACancel p r) = true ->
  exists s' new, cancel k cap p s r = Some s' /\ Inv k cap s' /\ rsorted k (qscan k s (ACancel p r))
    /\ qscan k s (ACancel p r) = new ++ queue s' /\ granted s' = granted s ++ map rid new
    /\ next_id s' = next_id s.
Proof.
  intros k cap s p r Hcap [HI HJ] Hadm. unfold cancel, qscan. simpl in Hadm.
  destruct (existsb (Nat.eqb r) (granted s)) eqn:Eg.
  - exists s, []. simpl. rewrite app_nil_r. split; [reflexivity|]. split; [split; assumption|].
    split; [destruct HI; assumption|]. split; reflexivity || (split; reflexivity).
  - apply andb_true_iff in Hadm. destruct Hadm as [Hadm _]. simpl in Hadm. apply existsb_exists in Hadm. destruct Hadm as (x & Hx & E).
    apply andb_true_iff in E. destruct E as [E1 E2]. apply Nat.eqb_eq in E1, E2.
    assert (Hh : has_id r (queue s) = true) by (apply has_id_in; rewrite <- E1; apply in_map; exact Hx).
    rewrite Hh.
    assert (HI0 : QI k cap (set_queue s (remove_id r (queue s))) (remove_id r (queue s))).
    { destruct HI. constructor; simpl; try assumption.
      - apply nodup_remove_r; assumption.
      - apply nodup_remove_r; assumption.
      - intros y Hy. apply i_fresh0. apply in_app_or in Hy. apply in_or_app. destruct Hy as [Hy|Hy]; [left; exact Hy|right; eapply remove_id_in; exact Hy].
      - intros y Hy. apply i_qg0. eapply remove_id_in; exact Hy.
      - apply remove_id_sorted; assumption.
      - intros u h0 Hu Hh0 E. apply (i_uq0 u h0 Hu); [eapply remove_id_in; exact Hh0|exact E]. }
    assert (Hact : act_ok k (Some p) (set_queue s (remove_id r (queue s))) (remove_id r (queue s))).
    { intros _ u Hu Hp. simpl in Hu. exfalso. destruct HI.
      apply (nodup_app_neq rproc _ _ u x i_procs0 Hu Hx). congruence. }
    destruct (trigger_put_ok k cap (Some p) _ Hcap HI0 Hact) as (s' & new & Ht & Hq & HInv & Eg' & _ & En & _).
    exists s', new. split; [exact Ht|]. split; [exact HInv|]. split; [destruct HI0; assumption|].
    split; [exact Hq|]. split; [exact Eg'|exact En].
Qed.

Lemma remove_ev_keeps_rel : forall e j l, (forall i, e <> ERel i) -> In (ERel j) l -> In (ERel j) (remove_ev e l).
Proof.
  intros e j l He; induction l as [|x t IH]; intros H; simpl in *; [exact H|].
  destruct (ev_eqb x e) eqn:E.
  - destruct H as [->|H]; [|exact H]. exfalso. destruct e; simpl in E; [discriminate|]. apply (He i); reflexivity.
  - destruct H as [->|H]; [left; reflexivity|right; apply IH; exact H].
Qed.

Lemma step_ok : forall k cap s a, 1 <= cap -> Inv k cap s -> adm s a = true ->
  exists s' new, step k cap s a = Some s' /\ Inv k cap s' /\ rsorted k (qscan k s a)
    /\ qscan k s a = new ++ queue s' /\ granted s' = granted s ++ map rid new.
Proof.
  intros k cap s a Hcap HInv Hadm. destruct a as [p prio pre|r|p r|p r|e|t|p].
  - (* request *)
    destruct HInv as [HI HJ]. simpl in Hadm.
    destruct (request_QI k cap s p prio pre HI Hadm) as [HI0 Hact].
    destruct (trigger_put_ok k cap (Some p) _ Hcap HI0 Hact) as (s' & new & Ht & Hq & HInv' & Eg & _).
    exists s', new. split; [exact Ht|]. split; [exact HInv'|]. split; [destruct HI0; assumption|]. split; [exact Hq|exact Eg].
  - (* release *)
    exists (release_state s r), []. simpl. rewrite app_nil_r.
    split; [apply release_eq; destruct HInv as [[] _]; assumption|]. split; [apply release_Inv; exact HInv|].
    split; [destruct HInv as [[] _]; assumption|]. split; reflexivity.
  - (* cancel *)
    destruct (cancel_ok k cap s p r Hcap HInv Hadm) as (s' & new & Hc & HInv' & Hs & Hq & Eg & _).
    exists s', new. split; [exact Hc|]. split; [exact HInv'|]. split; [exact Hs|]. split; [exact Hq|exact Eg].
  - (* with-exit = cancel; release *)
    destruct (cancel_ok k cap s p r Hcap HInv Hadm) as (s1 & new & Hc & HInv1 & Hs & Hq & Eg & _).
    exists (release_state s1 r), new. simpl. rewrite Hc.
    split; [apply release_eq; destruct HInv1 as [[] _]; assumption|]. split; [apply release_Inv; exact HInv1|].
    split; [exact Hs|]. split; [exact Hq|exact Eg].
  - (* the kernel processes an event *)
    simpl in Hadm. simpl. rewrite Hadm. destruct HInv as [HI HJ]. destruct e as [i|i].
    + exists (set_getq (set_pending s (remove_ev (EReq i) (pending s))) []), []. rewrite app_nil_r.
      split; [unfold trigger_get; simpl; destruct HI as [? Hg]; rewrite Hg; reflexivity|].
      split; [|split; [destruct HI; assumption|split; reflexivity]].
      split; simpl.
      * eapply QI_ext; [..|exact HI]; try reflexivity. simpl. destruct HI; auto.
      * intros Hlt Hne. destruct (HJ Hlt Hne) as (j & Hj). exists j. apply remove_ev_keeps_rel; [intros ? ?; discriminate|exact Hj].
    + assert (HI0 : QI k cap (set_pending s (remove_ev (ERel i) (pending s))) (queue (set_pending s (remove_ev (ERel i) (pending s))))).
      { simpl. eapply QI_ext; [..|exact HI]; reflexivity. }
      assert (Hact : act_ok k None (set_pending s (remove_ev (ERel i) (pending s))) (queue (set_pending s (remove_ev (ERel i) (pending s))))).
      { intros _; exact Logic.I. }
      destruct (trigger_put_ok k cap None _ Hcap HI0 Hact) as (s' & new & Ht & Hq & HInv' & Eg & _).
      exists s', new. split; [exact Ht|]. split; [exact HInv'|]. split; [destruct HI; assumption|]. split; [exact Hq|exact Eg].
  - (* the clock moves *)
    exists (set_now s t), []. simpl. rewrite app_nil_r. destruct HInv as [HI HJ].
    split; [reflexivity|]. split; [|split; [destruct HI; assumption|split; reflexivity]].
    simpl in Hadm. destruct (pending s); [|discriminate]. apply Z.ltb_lt in Hadm.
    split; simpl.
    + destruct HI. constructor; simpl; try assumption.
      intros x Hx. destruct (i_since0 x Hx) as (t0 & E & Hle). exists t0; split; [exact E|lia].
    + exact HJ.
  - (* a process ends *)
    exists (add_dead s p), []. simpl. rewrite app_nil_r. destruct HInv as [HI HJ].
    split; [reflexivity|]. split; [|split; [destruct HI; assumption|split; reflexivity]].
    split; simpl; [eapply QI_ext; [..|exact HI]; reflexivity|exact HJ].
Qed.

Lemma init_Inv : forall k cap t0, Inv k cap (init t0).
Proof.
  intros k cap t0. split.
  - constructor; simpl; try (intros ? []); try constructor; try lia; try reflexivity.
  - intros _ Hne. simpl in Hne. congruence.
Qed.

Lemma run_Inv : forall k cap, 1 <= cap -> forall acts s0 s, Inv k cap s0 -> run k cap s0 acts = Some s -> Inv k cap s.
Proof.
  intros k cap Hcap acts; induction acts as [|a t IH]; intros s0 s H0 Hr; simpl in Hr.
  - inversion Hr; subst; exact H0.
  - destruct (adm s0 a) eqn:Ea; [|discriminate].
    destruct (step_ok k cap s0 a Hcap H0 Ea) as (s1 & new & Hs & H1 & _). rewrite Hs in Hr. eapply IH; eassumption.
Qed.

Lemma reach_Inv : forall k cap t0 acts s, 1 <= cap -> run k cap (init t0) acts = Some s -> Inv k cap s.
Proof. intros k cap t0 acts s Hcap Hr. eapply run_Inv; [exact Hcap|apply init_Inv|exact Hr]. Qed.

(* ================================================================================================ *)
(* 6. the theorems of C06                                                                           *)

Theorem users_le_capacity : forall k cap t0 acts s, 1 <= cap ->
  run k cap (init t0) acts = Some s -> length (users s) <= cap.
Proof. intros k cap t0 acts s Hcap Hr. destruct (reach_Inv k cap t0 acts s Hcap Hr) as [[] _]. assumption. Qed.

Theorem queue_sorted : forall k cap t0 acts s, 1 <= cap ->
  run k cap (init t0) acts = Some s -> StronglySorted (fun x y => rank_ltb k x y = true) (queue s).
Proof. intros k cap t0 acts s Hcap Hr. destruct (reach_Inv k cap t0 acts s Hcap Hr) as [[] _]. assumption. Qed.

(* what the rank is: arrival order for Resource; (priority, time, preempting first, arrival) otherwise *)
Theorem rank_meaning : forall k x y, rank_ltb k x y = true <->
  match k with
  | KRes => rid x < rid y
  | _ => (rprio x < rprio y)%Z \/ (rprio x = rprio y /\
         ((rtime x < rtime y)%Z \/ (rtime x = rtime y /\
         ((rpre x = true /\ rpre y = false) \/ (rpre x = rpre y /\ rid x < rid y)))))
  end.
Proof.
  intros k x y.
  assert (G : key_ltb (rkey x) (rkey y) || key_eqb (rkey x) (rkey y) && (rid x <? rid y) = true <->
     (rprio x < rprio y)%Z \/ (rprio x = rprio y /\
         ((rtime x < rtime y)%Z \/ (rtime x = rtime y /\
         ((rpre x = true /\ rpre y = false) \/ (rpre x = rpre y /\ rid x < rid y)))))).
  { rewrite orb_true_iff, andb_true_iff, key_ltb_spec, key_eqb_eq, Nat.ltb_lt. unfold rkey, klt, b2z.
    assert (Heq : forall (a a' b b' : Z) (c c' : bool), (a, b, c) = (a', b', c') <-> a = a' /\ b = b' /\ c = c')
      by (intros; split; [intros H; inversion H; auto | intros (-> & -> & ->); reflexivity]).
    rewrite Heq. destruct (rpre x), (rpre y); simpl; split; intros H;
      repeat match goal with
             | H : _ \/ _ |- _ => destruct H
             | H : _ /\ _ |- _ => destruct H
             end; try discriminate; try lia;
      first [ left; lia
            | right; split; [lia|]; first [left; lia | right; split; [lia|]; first [left; split; reflexivity | right; split; [reflexivity|lia]]]
            | right; split; [repeat split; (lia || reflexivity)|lia]
            | left; right; split; [lia|]; first [left; lia | right; split; lia] ]. }
  destruct k; simpl; [apply Nat.ltb_lt|exact G|exact G].
Qed.

(* every admissible action succeeds (nothing raises), and the requests it grants are a prefix of the queue *)
Theorem grant_is_head : forall k cap t0 acts s a, 1 <= cap ->
  run k cap (init t0) acts = Some s -> adm s a = true ->
  exists s' new, step k cap s a = Some s' /\ qscan k s a = new ++ queue s' /\ granted s' = granted s ++ map rid new.
Proof.
  intros k cap t0 acts s a Hcap Hr Hadm.
  destruct (step_ok k cap s a Hcap (reach_Inv k cap t0 acts s Hcap Hr) Hadm) as (s' & new & Hs & _ & _ & Hq & Hg).
  exists s', new. auto.
Qed.

Lemma sorted_app_lt : forall (R : req -> req -> Prop) l1 l2 x y, StronglySorted R (l1 ++ l2) -> In x l1 -> In y l2 -> R x y.
Proof.
  intros R l1 l2 x y; induction l1 as [|a t IH]; intros H Hx Hy; simpl in *; [destruct Hx|].
  inversion H as [|? ? Ht Ha]; subst. destruct Hx as [->|Hx]; [|apply IH; assumption].
  rewrite Forall_forall in Ha. apply Ha. apply in_or_app; right; exact Hy.
Qed.

(* a request granted by an action ranks before every request that is still waiting after it *)
Theorem no_overtaking : forall k cap t0 acts s a s', 1 <= cap ->
  run k cap (init t0) acts = Some s -> adm s a = true -> step k cap s a = Some s' ->
  forall x y, In x (qscan k s a) -> In (rid x) (granted s') -> In y (queue s') -> rank_ltb k x y = true.
Proof.
  intros k cap t0 acts s a s' Hcap Hr Hadm Hs x y Hx Hg Hy.
  destruct (step_ok k cap s a Hcap (reach_Inv k cap t0 acts s Hcap Hr) Hadm) as (s2 & new & Hs2 & HInv & Hsort & Hq & _).
  rewrite Hs in Hs2. inversion Hs2; subst s2. rewrite Hq in Hx, Hsort. apply in_app_or in Hx. destruct Hx as [Hx|Hx].
  - exact (sorted_app_lt _ _ _ _ _ Hsort Hx Hy).
  - exfalso. destruct HInv as [[] _]. exact (i_qg0 x Hx Hg).
Qed.

Theorem free_slot_has_release : forall k cap t0 acts s, 1 <= cap -> run k cap (init t0) acts = Some s ->
  length (users s) < cap -> queue s <> [] -> exists i, In (ERel i) (pending s).
Proof. intros k cap t0 acts s Hcap Hr. destruct (reach_Inv k cap t0 acts s Hcap Hr) as [_ HJ]. exact HJ. Qed.

Theorem no_idle_slot_at_advance : forall k cap t0 acts s t, 1 <= cap -> run k cap (init t0) acts = Some s ->
  adm s (AAdvance t) = true -> queue s <> [] -> length (users s) = cap.
Proof.
  intros k cap t0 acts s t Hcap Hr Hadm Hne.
  pose proof (users_le_capacity k cap t0 acts s Hcap Hr) as Hle.
  destruct (Nat.eq_dec (length (users s)) cap) as [E|E]; [exact E|exfalso].
  assert (Hlt : length (users s) < cap) by lia.
  destruct (free_slot_has_release k cap t0 acts s Hcap Hr Hlt Hne) as (i & Hi).
  simpl in Hadm. destruct (pending s); [destruct Hi|discriminate].
Qed.

Definition released (s : state) : state :=
  mkState (users s) (queue s) (getq s) (pending s ++ [ERel (next_id s)]) (granted s) (intrs s) (dead s) (S (next_id s)) (now s).

Lemma release_nonuser : forall k cap s r, Inv k cap s -> ~ In r (map rid (users s)) ->
  step k cap s (ARelease r) = Some (released s).
Proof.
  intros k cap s r [HI _] Hn. simpl. destruct HI. rewrite (release_eq s r i_getq0).
  unfold release_state, released. rewrite (remove_id_notin r (users s) Hn), i_getq0. reflexivity.
Qed.

(* releasing a request that is not a user changes nothing but adds one (harmless) triggered Release event *)
Theorem release_idempotent : forall k cap t0 acts s r, 1 <= cap -> run k cap (init t0) acts = Some s ->
  ~ In r (map rid (users s)) -> step k cap s (ARelease r) = Some (released s).
Proof. intros k cap t0 acts s r Hcap Hr. apply release_nonuser. exact (reach_Inv k cap t0 acts s Hcap Hr). Qed.

Lemma remove_id_gone : forall i l, NoDup (map rid l) -> ~ In i (map rid (remove_id i l)).
Proof.
  intros i l; induction l as [|y t IH]; intros H; simpl in *; [tauto|].
  inversion H as [|? ? Hn Hd]; subst. destruct (rid y =? i) eqn:E.
  - apply Nat.eqb_eq in E. subst. exact Hn.
  - simpl. intros [Hc|Hc]; [apply Nat.eqb_neq in E; congruence|exact (IH Hd Hc)].
Qed.

(* ... in particular releasing twice *)
Theorem release_twice : forall k cap t0 acts s r s1, 1 <= cap -> run k cap (init t0) acts = Some s ->
  step k cap s (ARelease r) = Some s1 -> step k cap s1 (ARelease r) = Some (released s1).
Proof.
  intros k cap t0 acts s r s1 Hcap Hr Hs.
  pose proof (reach_Inv k cap t0 acts s Hcap Hr) as HInv.
  assert (E : s1 = release_state s r).
  { simpl in Hs. destruct HInv as [[] _]. rewrite (release_eq s r i_getq0) in Hs. inversion Hs; reflexivity. }
  subst s1. apply release_nonuser; [apply release_Inv; exact HInv|].
  simpl. apply remove_id_gone. destruct HInv as [[] _]. rewrite map_app in i_ids0.
  clear - i_ids0. induction (map rid (users s)) as [|a l IH]; simpl in *; [constructor|].
  inversion i_ids0; subst. constructor; [intros Hc; apply H1; apply in_or_app; left; exact Hc|apply IH; assumption].
Qed.

(* ---- preemption ---------------------------------------------------------------------------------- *)

Definition preempted_state (s : state) (l1 l2 : list req) (w e : req) : state :=
  mkState ((l1 ++ l2) ++ [grant (now s) e]) (queue s) (getq s) (pending s ++ [EReq (rid e)]) (granted s ++ [rid e])
          (intrs s ++ [mkIntr w e (negb (is_dead s (rproc w)))]) (dead s) (next_id s) (now s).

(* One call of PreemptiveResource._do_put, exactly.  With a free slot: plain grant.  Full: let w be the LAST
   user of maximal key (users = l1 ++ w :: l2, nothing in l1 above w, everything in l2 strictly below);
   w is evicted -- removed from users, its process interrupted with Preempted(by = e's process,
   usage_since = w's, this resource) -- and e gets the slot in the same call IF AND ONLY IF e has
   preempt=True and w's key is strictly larger than e's key; otherwise nothing changes at all. *)
Theorem preempt_call : forall cap act s e, 1 <= cap -> length (users s) <= cap -> NoDup (map rid (users s)) ->
  (forall p, act = Some p -> forall u, In u (users s) -> rproc u <> p) ->
  if length (users s) <? cap then do_put KPreempt cap act s e = Some (grant_state s e, true, true)
  else exists w l1 l2, users s = l1 ++ w :: l2
       /\ (forall x, In x l1 -> key_ltb (rkey w) (rkey x) = false)
       /\ (forall x, In x l2 -> key_ltb (rkey x) (rkey w) = true)
       /\ do_put KPreempt cap act s e =
            if rpre e && key_ltb (rkey e) (rkey w) then Some (preempted_state s l1 l2 w e, true, true)
            else Some (s, false, false).
Proof.
  intros cap act s e Hcap Hle Hnd Hact. unfold do_put, preempt_do_put.
  destruct (length (users s) <? cap) eqn:E.
  - apply Nat.ltb_lt in E. assert (E2 : cap <=? length (users s) = false) by (apply Nat.leb_gt; exact E).
    rewrite E2. simpl. rewrite res_do_put_eq. apply Nat.ltb_lt in E. rewrite E. reflexivity.
  - apply Nat.ltb_ge in E. assert (Elen : length (users s) = cap) by lia.
    assert (E2 : cap <=? length (users s) = true) by (apply Nat.leb_le; exact E). rewrite E2.
    assert (E3 : length (users s) <? cap = false) by (apply Nat.ltb_ge; exact E).
    destruct (worst (users s)) as [w|] eqn:Ew.
    2:{ apply worst_none in Ew. rewrite Ew in Elen. simpl in Elen. lia. }
    pose proof Ew as Ew'. rewrite worst_lastmax in Ew'. apply lastmax_spec in Ew'. destruct Ew' as (l1 & l2 & Hu & H1 & H2).
    exists w, l1, l2. split; [exact Hu|]. split; [exact H1|]. split; [exact H2|].
    destruct (rpre e); simpl; [|rewrite res_do_put_eq, E3; reflexivity].
    destruct (key_ltb (rkey e) (rkey w)); [|rewrite res_do_put_eq, E3; reflexivity].
    assert (Hw : In w (users s)) by (rewrite Hu; apply in_or_app; right; left; reflexivity).
    assert (Hrem : remove_id (rid w) (users s) = l1 ++ l2).
    { rewrite Hu. apply remove_id_split. rewrite Hu, map_app in Hnd. simpl in Hnd.
      apply NoDup_remove_2 in Hnd. intros Hc; apply Hnd; apply in_or_app; left; exact Hc. }
    assert (Hres : forall nb, res_do_put cap (add_intr (set_users s (remove_id (rid w) (users s))) (mkIntr w e nb)) e
                   = (mkState ((l1 ++ l2) ++ [grant (now s) e]) (queue s) (getq s) (pending s ++ [EReq (rid e)]) (granted s ++ [rid e])
                              (intrs s ++ [mkIntr w e nb]) (dead s) (next_id s) (now s), true, true)).
    { intros nb. rewrite res_do_put_eq. simpl. rewrite Hrem.
      assert (length (l1 ++ l2) <? cap = true).
      { apply Nat.ltb_lt. rewrite Hu in Elen. rewrite app_length in *. simpl in Elen. lia. }
      rewrite H. reflexivity. }
    unfold preempted_state. destruct (is_dead s (rproc w)); [rewrite Hres; reflexivity|]. simpl.
    destruct act as [a|]; [|rewrite Hres; reflexivity].
    assert (a =? rproc w = false) by (apply Nat.eqb_neq; intros Hc; exact (Hact a eq_refl w Hw (eq_sym Hc))).
    rewrite H, Hres. reflexivity.
Qed.

Lemma trigger_put_single : forall k cap act s0 e, queue s0 = [e] ->
  trigger_put k cap act s0 =
    match do_put k cap act s0 e with
    | None => None
    | Some (s', tr, pr) => if tr then Some (set_queue s' []) else Some (set_queue s' [e])
    end.
Proof.
  intros k cap act s0 e H. unfold trigger_put. rewrite H. simpl.
  destruct (do_put k cap act s0 e) as [[[s' tr] pr]|]; [destruct tr, pr; reflexivity|reflexivity].
Qed.

(* the same at the level of a request() call on a resource nobody waits for *)
Theorem preempt_request : forall cap t0 acts s p prio pre, 1 <= cap ->
  run KPreempt cap (init t0) acts = Some s -> adm s (ARequest p prio pre) = true -> queue s = [] ->
  let e := new_req s p prio pre in
  if length (users s) <? cap then
    step KPreempt cap s (ARequest p prio pre) =
      Some (mkState (users s ++ [grant (now s) e]) [] [] (pending s ++ [EReq (next_id s)]) (granted s ++ [next_id s])
                    (intrs s) (dead s) (S (next_id s)) (now s))
  else exists w l1 l2, users s = l1 ++ w :: l2
       /\ (forall x, In x l1 -> key_ltb (rkey w) (rkey x) = false)
       /\ (forall x, In x l2 -> key_ltb (rkey x) (rkey w) = true)
       /\ step KPreempt cap s (ARequest p prio pre) =
            if pre && key_ltb (rkey e) (rkey w)
            then Some (mkState ((l1 ++ l2) ++ [grant (now s) e]) [] [] (pending s ++ [EReq (next_id s)])
                               (granted s ++ [next_id s]) (intrs s ++ [mkIntr w e (negb (is_dead s (rproc w)))])
                               (dead s) (S (next_id s)) (now s))
            else Some (mkState (users s) [e] [] (pending s) (granted s) (intrs s) (dead s) (S (next_id s)) (now s)).
Proof.
  intros cap t0 acts s p prio pre Hcap Hr Hadm Hq e.
  destruct (reach_Inv KPreempt cap t0 acts s Hcap Hr) as [HI _]. destruct HI.
  rewrite Hq, app_nil_r in *.
  set (s0 := bump_id (set_queue s [e])).
  assert (Hstep : step KPreempt cap s (ARequest p prio pre) =
     match do_put KPreempt cap (Some p) s0 e with
     | None => None
     | Some (s', tr, pr) => if tr then Some (set_queue s' []) else Some (set_queue s' [e])
     end).
  { change (step KPreempt cap s (ARequest p prio pre)) with
      (trigger_put KPreempt cap (Some p) (bump_id (set_queue s (enqueue KPreempt (queue s) e)))).
    rewrite Hq. change (enqueue KPreempt [] e) with [e]. fold s0.
    apply trigger_put_single. reflexivity. }
  assert (Hcall := preempt_call cap (Some p) s0 e Hcap).
  change (users s0) with (users s) in Hcall. specialize (Hcall i_cap0 i_ids0).
  assert (Hnp : forall p0, Some p = Some p0 -> forall u, In u (users s) -> rproc u <> p0).
  { intros p0 E u Hu. inversion E; subst p0. simpl in Hadm. rewrite Hq, app_nil_r in Hadm.
    apply andb_true_iff in Hadm. destruct Hadm as [Hadm _]. rewrite forallb_forall in Hadm. specialize (Hadm u Hu). apply negb_true_iff, Nat.eqb_neq in Hadm. exact Hadm. }
  specialize (Hcall Hnp). rewrite Hstep.
  destruct (length (users s) <? cap).
  - rewrite Hcall. unfold set_queue, grant_state, s0, bump_id; simpl. rewrite i_getq0. reflexivity.
  - destruct Hcall as (w & l1 & l2 & Hu & H1 & H2 & Hd). exists w, l1, l2.
    split; [exact Hu|]. split; [exact H1|]. split; [exact H2|]. rewrite Hd.
    change (rpre e) with pre.
    destruct (pre && key_ltb (rkey e) (rkey w)); unfold set_queue, preempted_state, s0, bump_id; simpl; rewrite i_getq0; reflexivity.
Qed.

Lemma sorted_mid : forall (R : req -> req -> Prop) l1 x l2 y, StronglySorted R (l1 ++ x :: l2) -> In y l2 -> R x y.
Proof.
  intros R l1 x l2 y; induction l1 as [|a t IH]; intros H Hy; simpl in *.
  - inversion H as [|? ? _ Hx]; subst. rewrite Forall_forall in Hx. apply Hx; exact Hy.
  - inversion H; subst. apply IH; assumption.
Qed.
Lemma sorted_pre : forall (R : req -> req -> Prop) l1 x l2 y, StronglySorted R (l1 ++ x :: l2) -> In y l1 -> R y x.
Proof.
  intros R l1 x l2 y H Hy. apply (sorted_app_lt R l1 (x :: l2) y x H Hy). left; reflexivity.
Qed.

(* the user that a preempting request evicts -- the last one of maximal key in users -- is the worst-ranked
   current user under the full rank (priority, time, preempting first, arrival): every other user ranks before it *)
Theorem victim_is_worst_ranked : forall cap t0 acts s w u, 1 <= cap -> run KPreempt cap (init t0) acts = Some s ->
  worst (users s) = Some w -> In u (users s) -> u = w \/ rank_ltb KPreempt u w = true.
Proof.
  intros cap t0 acts s w u Hcap Hr Hw Hu.
  destruct (reach_Inv KPreempt cap t0 acts s Hcap Hr) as [HI _]. destruct HI.
  rewrite worst_lastmax in Hw. apply lastmax_spec in Hw. destruct Hw as (l1 & l2 & E & H1 & H2).
  rewrite E in Hu. apply in_app_or in Hu. destruct Hu as [Hu|[Hu|Hu]].
  - right. unfold rank_ltb. destruct (key_ltb (rkey u) (rkey w)) eqn:Elt; [reflexivity|].
    assert (Ek : rkey u = rkey w) by (apply key_total; [exact Elt|apply H1; exact Hu]).
    rewrite Ek, key_eqb_refl. simpl. apply Nat.ltb_lt.
    rewrite E in i_uu0. exact (sorted_pre _ l1 w l2 u i_uu0 Hu Ek).
  - left; symmetry; exact Hu.
  - right. unfold rank_ltb. rewrite (H2 u Hu). reflexivity.
Qed.

(* over every history: whoever was evicted ranked strictly worse than the preempting request that took the slot *)
Theorem evictions_strict : forall k cap t0 acts s i, 1 <= cap -> run k cap (init t0) acts = Some s ->
  In i (intrs s) -> key_ltb (rkey (iby i)) (rkey (ivictim i)) = true /\ rpre (iby i) = true.
Proof. intros k cap t0 acts s i Hcap Hr. destruct (reach_Inv k cap t0 acts s Hcap Hr) as [[] _]. apply i_strict0. Qed.

Theorem only_preemptive_evicts : forall k cap t0 acts s, 1 <= cap -> k <> KPreempt ->
  run k cap (init t0) acts = Some s -> intrs s = [].
Proof. intros k cap t0 acts s Hcap Hk Hr. destruct (reach_Inv k cap t0 acts s Hcap Hr) as [[] _]. apply i_nointr0; exact Hk. Qed.

(* every user carries the time of its grant (the usage_since an eviction will report) *)
Theorem users_have_usage_since : forall k cap t0 acts s u, 1 <= cap -> run k cap (init t0) acts = Some s ->
  In u (users s) -> exists t, rsince u = Some t /\ (t <= now s)%Z.
Proof. intros k cap t0 acts s u Hcap Hr. destruct (reach_Inv k cap t0 acts s Hcap Hr) as [[] _]. apply i_since0. Qed.

(* ================================================================================================ *)
(* 7. the hypotheses are satisfiable: a history with waiting, a cancel that lets the next request    *)
(*    preempt, a double release, a release of a non-user, coinciding operations                      *)

Definition ex_acts : list action :=
  [ ARequest 0 5 false; AProcess (EReq 0); AAdvance 1;
    ARequest 1 0 false; ARequest 2 1 true; AAdvance 2;
    ACancel 1 1;                              (* the head leaves: request 2 is first now and evicts request 0 *)
    AProcess (EReq 2); ARequest 3 1 true; ARequest 4 0 true;      (* request 4 outranks user 2 and evicts it *)
    ARelease 2; ARelease 2; ARelease 7;
    AProcess (ERel 5); AProcess (EReq 4); AProcess (ERel 6); AProcess (ERel 7); AAdvance 3 ].

Example ex_history : exists s, run KPreempt 1 (init 0) ex_acts = Some s
  /\ map rid (users s) = [4] /\ map rid (queue s) = [3] /\ map intr_fields (intrs s) = [(0, 2, Some 0%Z); (2, 4, Some 2%Z)]
  /\ pending s = [] /\ now s = 3%Z.
Proof. eexists. split; [vm_compute; reflexivity|]. repeat split. Qed.

(* the state before the last action of ex_acts admits the clock advance, has a waiter, and is full *)
Example ex_advance : exists s, run KPreempt 1 (init 0) (removelast ex_acts) = Some s
  /\ adm s (AAdvance 3) = true /\ queue s <> [] /\ length (users s) = 1.
Proof. eexists. split; [vm_compute; reflexivity|]. repeat split. discriminate. Qed.

(* a state where preempt_request applies in its evicting branch *)
Example ex_preempt : exists s, run KPreempt 1 (init 0) [ARequest 0 5 false] = Some s
  /\ adm s (ARequest 1 1 true) = true /\ queue s = [] /\ (length (users s) <? 1) = false.
Proof. eexists. split; [vm_compute; reflexivity|]. repeat split. Qed.

(* the holder's process ends without releasing; a preempting request takes the slot over, nobody is notified *)
Example ex_dead_holder : exists s, run KPreempt 1 (init 0) [ARequest 0 3 true; AEnd 0; ARequest 1 0 true] = Some s
  /\ map rid (users s) = [1] /\ queue s = [] /\ map inotified (intrs s) = [false].
Proof. eexists. split; [vm_compute; reflexivity|]. repeat split. Qed.

Example ex_fifo : exists s, run KRes 2 (init 0)
    [ARequest 0 0 true; ARequest 1 0 true; ARequest 2 0 true; ARequest 3 0 true; ARelease 0; AProcess (ERel 4)] = Some s
  /\ map rid (users s) = [1; 2] /\ map rid (queue s) = [3].
Proof. eexists. split; [vm_compute; reflexivity|]. repeat split. Qed.
