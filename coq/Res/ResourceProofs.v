(* Proofs about the resource automaton of Res/Resource.v (property C06). *)
From Coq Require Import ZArith List Bool Arith Lia Sorted Permutation.
From ONL Require Import Res.Resource.
Import ListNotations.

(* ================================================================================================ *)
(* 1. keys: Python's tuple order on (priority, time, not preempt) is a strict total order            *)

Definition b2z (b : bool) : Z := if b then 1%Z else 0%Z.
Definition klt (a b : key) : Prop :=
  match a, b with
  | (p1, t1, n1), (p2, t2, n2) =>
      (p1 < p2 \/ (p1 = p2 /\ (t1 < t2 \/ (t1 = t2 /\ b2z n1 < b2z n2))))%Z
  end.

Lemma key_ltb_spec : forall a b, key_ltb a b = true <-> klt a b.
Proof.
  intros [[p1 t1] n1] [[p2 t2] n2]. unfold key_ltb, klt, bool_ltb.
  rewrite orb_true_iff, andb_true_iff, orb_true_iff, andb_true_iff, Z.ltb_lt, Z.eqb_eq, Z.ltb_lt, Z.eqb_eq.
  destruct n1, n2; simpl; intuition (try lia; try discriminate).
Qed.

Lemma key_ltb_nspec : forall a b, key_ltb a b = false <-> ~ klt a b.
Proof.
  intros a b. rewrite <- key_ltb_spec. destruct (key_ltb a b); split; intros H; try reflexivity; try discriminate.
  - exfalso; apply H; reflexivity.
Qed.

Ltac kprep :=
  repeat match goal with
  | H : key_ltb _ _ = true |- _ => apply key_ltb_spec in H
  | H : key_ltb _ _ = false |- _ => apply key_ltb_nspec in H
  | |- key_ltb _ _ = true => apply key_ltb_spec
  | |- key_ltb _ _ = false => apply key_ltb_nspec
  end.
Ltac kd x := destruct x as [[?p ?t] [|]].
Ltac kfin := unfold klt, b2z in *; simpl in *; try lia; try (f_equal; try f_equal; lia).
Ltac ksolve a b c := kprep; kd a; kd b; kd c; kfin.

Lemma key_lt_trans : forall a b c, key_ltb a b = true -> key_ltb b c = true -> key_ltb a c = true.
Proof. intros a b c H1 H2. ksolve a b c. Qed.
Lemma key_lt_le_trans : forall a b c, key_ltb a b = true -> key_ltb c b = false -> key_ltb a c = true.
Proof. intros a b c H1 H2. ksolve a b c. Qed.
Lemma key_le_lt_trans : forall a b c, key_ltb b a = false -> key_ltb b c = true -> key_ltb a c = true.
Proof. intros a b c H1 H2. ksolve a b c. Qed.
Lemma key_le_trans : forall a b c, key_ltb b a = false -> key_ltb c b = false -> key_ltb c a = false.
Proof. intros a b c H1 H2. ksolve a b c. Qed.
Lemma key_lt_irrefl : forall a, key_ltb a a = false.
Proof. intros a. kprep; kd a; kfin. Qed.
Lemma key_lt_asym : forall a b, key_ltb a b = true -> key_ltb b a = false.
Proof. intros a b H. kprep; kd a; kd b; kfin. Qed.
Lemma key_total : forall a b, key_ltb a b = false -> key_ltb b a = false -> a = b.
Proof. intros a b H1 H2. kprep; kd a; kd b; kfin. Qed.
Lemma key_eqb_eq : forall a b, key_eqb a b = true <-> a = b.
Proof.
  intros [[p1 t1] n1] [[p2 t2] n2]. unfold key_eqb.
  rewrite !andb_true_iff, !Z.eqb_eq, eqb_true_iff. split.
  - intros [[-> ->] ->]; reflexivity.
  - intros H; inversion H; auto.
Qed.
Lemma key_eqb_refl : forall a, key_eqb a a = true.
Proof. intros a; apply key_eqb_eq; reflexivity. Qed.

Arguments key_ltb : simpl never.
Arguments key_eqb : simpl never.
Arguments rkey : simpl never.

(* ================================================================================================ *)
(* 2. the stable sort                                                                               *)

(* keys non-decreasing along the list *)
Definition kle (x y : req) : Prop := key_ltb (rkey y) (rkey x) = false.
Definition ksorted (l : list req) : Prop := StronglySorted kle l.

Lemma ins_perm : forall x l, Permutation (ins x l) (x :: l).
Proof.
  intros x l; induction l as [|y t IH]; simpl; [reflexivity|].
  destruct (key_ltb (rkey y) (rkey x)); [|reflexivity].
  rewrite IH. apply perm_swap.
Qed.
Lemma ssort_perm : forall l, Permutation (ssort l) l.
Proof.
  induction l as [|x t IH]; simpl; [reflexivity|]. rewrite ins_perm. constructor; exact IH.
Qed.
Lemma ins_in : forall x l z, In z (ins x l) <-> z = x \/ In z l.
Proof.
  intros x l z. split; intros H.
  - apply (Permutation_in _ (ins_perm x l)) in H. destruct H; auto.
  - apply (Permutation_in _ (Permutation_sym (ins_perm x l))). destruct H; [left|right]; auto.
Qed.
Lemma ssort_in : forall l z, In z (ssort l) <-> In z l.
Proof.
  intros l z; split; intros H.
  - exact (Permutation_in _ (ssort_perm l) H).
  - exact (Permutation_in _ (Permutation_sym (ssort_perm l)) H).
Qed.

Lemma ins_ksorted : forall x l, ksorted l -> ksorted (ins x l).
Proof.
  intros x l; induction l as [|y t IH]; intros Hs; simpl.
  - constructor; constructor.
  - destruct (key_ltb (rkey y) (rkey x)) eqn:E.
    + inversion Hs as [|? ? Ht Hy]; subst. constructor; [apply IH; exact Ht|].
      apply Forall_forall; intros z Hz. apply ins_in in Hz. destruct Hz as [->|Hz].
      * unfold kle. apply key_lt_asym; exact E.
      * rewrite Forall_forall in Hy; apply Hy; exact Hz.
    + constructor; [exact Hs|]. inversion Hs as [|? ? Ht Hy]; subst.
      constructor; [exact E|]. rewrite Forall_forall in *; intros z Hz. unfold kle in *.
      eapply key_le_trans; [exact E| apply Hy; exact Hz].
Qed.
Lemma ssort_ksorted : forall l, ksorted (ssort l).
Proof. induction l as [|x t IH]; simpl; [constructor|]. apply ins_ksorted; exact IH. Qed.

(* sorting a list whose keys are already in order changes nothing *)
Lemma ins_head : forall x l, ksorted (x :: l) -> ins x l = x :: l.
Proof.
  intros x [|y t] Hs; simpl; [reflexivity|].
  inversion Hs as [|? ? _ Hy]; subst. inversion Hy as [|? ? Hxy _]; subst. unfold kle in Hxy. rewrite Hxy. reflexivity.
Qed.
Lemma ssort_id : forall l, ksorted l -> ssort l = l.
Proof.
  induction l as [|x t IH]; intros Hs; simpl; [reflexivity|].
  inversion Hs as [|? ? Ht _]; subst. rewrite (IH Ht). apply ins_head; exact Hs.
Qed.

(* SortedQueue.append on a sorted queue = put the new element behind every element whose key is <= its key *)
Fixpoint place (e : req) (q : list req) : list req :=
  match q with
  | [] => [e]
  | y :: t => if key_ltb (rkey e) (rkey y) then e :: y :: t else y :: place e t
  end.

Lemma ssort_app_place : forall q e, ksorted q -> ssort (q ++ [e]) = place e q.
Proof.
  induction q as [|a q IH]; intros e Hs; simpl; [reflexivity|].
  inversion Hs as [|? ? Hq Ha]; subst. rewrite (IH e Hq).
  destruct (key_ltb (rkey e) (rkey a)) eqn:E.
  - destruct q as [|y t]; simpl.
    + rewrite E. reflexivity.
    + inversion Ha as [|? ? Hay _]; subst. unfold kle in Hay.
      assert (Hey : key_ltb (rkey e) (rkey y) = true) by (eapply key_lt_le_trans; [exact E|exact Hay]).
      rewrite Hey. simpl. rewrite E. simpl. rewrite Hay. reflexivity.
  - destruct q as [|y t]; simpl.
    + rewrite E. reflexivity.
    + inversion Ha as [|? ? Hay _]; subst. unfold kle in Hay.
      destruct (key_ltb (rkey e) (rkey y)) eqn:Ey; simpl.
      * rewrite E. reflexivity.
      * rewrite Hay. reflexivity.
Qed.

Lemma place_split : forall e q, exists l1 l2, q = l1 ++ l2 /\ place e q = l1 ++ e :: l2
   /\ (forall x, In x l1 -> key_ltb (rkey e) (rkey x) = false)
   /\ (match l2 with [] => True | y :: _ => key_ltb (rkey e) (rkey y) = true end).
Proof.
  intros e q; induction q as [|y t IH]; simpl.
  - exists [], []. repeat split; auto. intros x [].
  - destruct (key_ltb (rkey e) (rkey y)) eqn:E.
    + exists [], (y :: t). repeat split; auto. intros x [].
    + destruct IH as (l1 & l2 & Hq & Hp & H1 & H2). exists (y :: l1), l2. rewrite Hq at 1. rewrite Hp. repeat split; auto.
      intros x [<-|Hx]; auto.
Qed.

(* the last element of the sorted list = the LAST element of maximal key of the original list *)
Fixpoint lastmax (u : list req) : option req :=
  match u with
  | [] => None
  | x :: t => match lastmax t with
              | None => Some x
              | Some m => if key_ltb (rkey m) (rkey x) then Some x else Some m
              end
  end.

Fixpoint lastopt (l : list req) : option req :=
  match l with
  | [] => None
  | x :: t => match lastopt t with None => Some x | Some y => Some y end
  end.

Lemma lastopt_rev : forall l, match rev l with [] => None | w :: _ => Some w end = lastopt l.
Proof.
  induction l as [|x t IH]; simpl; [reflexivity|].
  destruct (rev t) as [|w r]; simpl; rewrite <- IH; reflexivity.
Qed.

Lemma lastopt_in : forall l m, lastopt l = Some m -> In m l.
Proof.
  induction l as [|x t IH]; intros m H; simpl in H; [discriminate|].
  destruct (lastopt t) as [y|]; inversion H; subst; [right; apply IH; reflexivity|left; reflexivity].
Qed.

Lemma lastopt_ins : forall x l, ksorted l ->
  lastopt (ins x l) = match lastopt l with
                      | None => Some x
                      | Some m => if key_ltb (rkey m) (rkey x) then Some x else Some m
                      end.
Proof.
  intros x l; induction l as [|y t IH]; intros Hs; [reflexivity|].
  inversion Hs as [|? ? Ht Hy]; subst. specialize (IH Ht).
  simpl ins. destruct (key_ltb (rkey y) (rkey x)) eqn:E.
  - change (lastopt (y :: ins x t)) with (match lastopt (ins x t) with None => Some y | Some z => Some z end).
    rewrite IH. change (lastopt (y :: t)) with (match lastopt t with None => Some y | Some z => Some z end).
    destruct (lastopt t) as [m|].
    + destruct (key_ltb (rkey m) (rkey x)); reflexivity.
    + rewrite E. reflexivity.
  - change (lastopt (x :: y :: t)) with (match lastopt (y :: t) with None => Some x | Some z => Some z end).
    destruct (lastopt (y :: t)) as [m|] eqn:El.
    + assert (Hm : key_ltb (rkey m) (rkey x) = false).
      { apply lastopt_in in El. destruct El as [<-|Hin]; [exact E|].
        rewrite Forall_forall in Hy. specialize (Hy _ Hin). unfold kle in Hy.
        eapply key_le_trans; [exact E|exact Hy]. }
      rewrite Hm. reflexivity.
    + simpl in El. destruct (lastopt t); discriminate.
Qed.

Lemma worst_lastmax : forall u, worst u = lastmax u.
Proof.
  intros u. unfold worst. rewrite lastopt_rev.
  induction u as [|x t IH]; [reflexivity|].
  simpl ssort. rewrite (lastopt_ins x (ssort t) (ssort_ksorted t)). rewrite IH. reflexivity.
Qed.

Lemma lastmax_spec : forall u w, lastmax u = Some w ->
  exists l1 l2, u = l1 ++ w :: l2
    /\ (forall x, In x l1 -> key_ltb (rkey w) (rkey x) = false)
    /\ (forall x, In x l2 -> key_ltb (rkey x) (rkey w) = true).
Proof.
  induction u as [|x t IH]; intros w H; simpl in H; [discriminate|].
  destruct (lastmax t) as [m|] eqn:Em.
  - destruct (IH m eq_refl) as (l1 & l2 & Ht & H1 & H2).
    destruct (key_ltb (rkey m) (rkey x)) eqn:E; inversion H; subst.
    + exists [], (l1 ++ m :: l2). repeat split; auto. { intros y []. }
      intros y Hy. apply in_app_or in Hy. destruct Hy as [Hy|[<-|Hy]].
      * eapply key_le_lt_trans; [apply H1; exact Hy|exact E].
      * exact E.
      * eapply key_lt_trans; [apply H2; exact Hy|exact E].
    + exists (x :: l1), l2. repeat split; auto. intros y [<-|Hy]; auto.
  - inversion H; subst. destruct t; [|simpl in Em; destruct (lastmax t); [destruct (key_ltb _ _)|]; discriminate].
    exists [], []. repeat split; auto; intros y [].
Qed.

Lemma worst_none : forall u, worst u = None -> u = [].
Proof.
  intros u H. rewrite worst_lastmax in H. destruct u as [|x t]; [reflexivity|].
  simpl in H. destruct (lastmax t); [destruct (key_ltb _ _)|]; discriminate.
Qed.

(* ================================================================================================ *)
(* 3. ranks and the queue order                                                                     *)

Definition rank_lt (k : kind) (x y : req) : Prop := rank_ltb k x y = true.
Definition rsorted (k : kind) (l : list req) : Prop := StronglySorted (rank_lt k) l.

Lemma rank_kle : forall k x y, k <> KRes -> rank_lt k x y -> kle x y.
Proof.
  intros k x y Hk H. unfold rank_lt, rank_ltb in H. unfold kle.
  destruct k; [congruence| |]; apply orb_true_iff in H; destruct H as [H|H];
    try (apply key_lt_asym; exact H);
    apply andb_true_iff in H; destruct H as [H _]; apply key_eqb_eq in H; rewrite H; apply key_lt_irrefl.
Qed.

Lemma rsorted_ksorted : forall k l, k <> KRes -> rsorted k l -> ksorted l.
Proof.
  intros k l Hk H; induction H as [|x l Hl IH Hx]; constructor; [exact IH|].
  rewrite Forall_forall in *; intros y Hy. eapply rank_kle; [exact Hk|apply Hx; exact Hy].
Qed.

Lemma place_in : forall e q z, In z (place e q) <-> z = e \/ In z q.
Proof.
  intros e q z; induction q as [|y t IH]; simpl.
  - intuition.
  - destruct (key_ltb (rkey e) (rkey y)); simpl; rewrite ?IH; intuition.
Qed.

Lemma place_rsorted : forall k e q, k <> KRes -> rsorted k q -> (forall y, In y q -> rid y < rid e) -> rsorted k (place e q).
Proof.
  intros k e q Hk; induction q as [|y t IH]; intros Hs Hid; simpl.
  - constructor; constructor.
  - inversion Hs as [|? ? Ht Hy]; subst.
    destruct (key_ltb (rkey e) (rkey y)) eqn:E.
    + constructor; [exact Hs|]. rewrite Forall_forall; intros z Hz.
      assert (Hyz : kle y z).
      { destruct Hz as [<-|Hz]; [unfold kle; apply key_lt_irrefl|]. rewrite Forall_forall in Hy. eapply rank_kle; [exact Hk|apply Hy; exact Hz]. }
      unfold kle in Hyz. unfold rank_lt, rank_ltb.
      assert (key_ltb (rkey e) (rkey z) = true) by (eapply key_lt_le_trans; [exact E|exact Hyz]).
      destruct k; [congruence| |]; rewrite H; reflexivity.
    + constructor; [apply IH; [exact Ht|intros z Hz; apply Hid; right; exact Hz]|].
      rewrite Forall_forall; intros z Hz. apply place_in in Hz. destruct Hz as [->|Hz].
      * unfold rank_lt, rank_ltb.
        assert (Hlt : rid y <? rid e = true) by (apply Nat.ltb_lt; apply Hid; left; reflexivity).
        destruct (key_ltb (rkey y) (rkey e)) eqn:E2.
        -- destruct k; [congruence| |]; reflexivity.
        -- assert (rkey y = rkey e) by (apply key_total; assumption).
           rewrite H, key_eqb_refl, Hlt. destruct k; [congruence| |]; reflexivity.
      * rewrite Forall_forall in Hy; apply Hy; exact Hz.
Qed.

Lemma sorted_snoc : forall (R : req -> req -> Prop) l e, StronglySorted R l -> (forall y, In y l -> R y e) -> StronglySorted R (l ++ [e]).
Proof.
  intros R l e H; induction H as [|x l Hl IH Hx]; intros He; simpl.
  - constructor; constructor.
  - constructor; [apply IH; intros y Hy; apply He; right; exact Hy|].
    rewrite Forall_forall in *; intros z Hz. apply in_app_or in Hz. destruct Hz as [Hz|[<-|[]]]; [apply Hx; exact Hz|apply He; left; reflexivity].
Qed.

Lemma enqueue_perm : forall k q e, Permutation (enqueue k q e) (e :: q).
Proof.
  intros k q e. assert (Permutation (q ++ [e]) (e :: q)) by (rewrite Permutation_app_comm; reflexivity).
  destruct k; simpl; try exact H; rewrite ssort_perm; exact H.
Qed.
Lemma enqueue_in : forall k q e z, In z (enqueue k q e) <-> z = e \/ In z q.
Proof.
  intros k q e z; split; intros H.
  - apply (Permutation_in _ (enqueue_perm k q e)) in H. destruct H; auto.
  - apply (Permutation_in _ (Permutation_sym (enqueue_perm k q e))). destruct H; [left|right]; auto.
Qed.

Lemma enqueue_rsorted : forall k q e, rsorted k q -> (forall y, In y q -> rid y < rid e) -> rsorted k (enqueue k q e).
Proof.
  intros k q e Hs Hid. destruct k eqn:Ek.
  - simpl. apply sorted_snoc; [exact Hs|]. intros y Hy. unfold rank_lt; simpl. apply Nat.ltb_lt; apply Hid; exact Hy.
  - simpl. rewrite ssort_app_place; [|eapply rsorted_ksorted; [|exact Hs]; discriminate].
    apply place_rsorted; [discriminate|exact Hs|exact Hid].
  - simpl. rewrite ssort_app_place; [|eapply rsorted_ksorted; [|exact Hs]; discriminate].
    apply place_rsorted; [discriminate|exact Hs|exact Hid].
Qed.

(* ---- list.remove by identity ------------------------------------------------------------------- *)
Lemma remove_id_in : forall i l x, In x (remove_id i l) -> In x l.
Proof.
  intros i l; induction l as [|y t IH]; intros x H; simpl in *; [exact H|].
  destruct (rid y =? i); [right; exact H|]. destruct H as [<-|H]; [left; reflexivity|right; apply IH; exact H].
Qed.
Lemma remove_id_sorted : forall (R : req -> req -> Prop) i l, StronglySorted R l -> StronglySorted R (remove_id i l).
Proof.
  intros R i l H; induction H as [|x l Hl IH Hx]; simpl; [constructor|].
  destruct (rid x =? i); [exact Hl|]. constructor; [exact IH|].
  rewrite Forall_forall in *; intros z Hz; apply Hx; eapply remove_id_in; exact Hz.
Qed.
Lemma remove_id_notin : forall i l, ~ In i (map rid l) -> remove_id i l = l.
Proof.
  intros i l; induction l as [|y t IH]; intros H; simpl in *; [reflexivity|].
  destruct (rid y =? i) eqn:E; [apply Nat.eqb_eq in E; exfalso; apply H; left; exact E|].
  f_equal; apply IH; intros Hc; apply H; right; exact Hc.
Qed.
Lemma remove_id_split : forall w l1 l2, ~ In (rid w) (map rid l1) -> remove_id (rid w) (l1 ++ w :: l2) = l1 ++ l2.
Proof.
  intros w l1 l2; induction l1 as [|y t IH]; intros H; simpl in *.
  - rewrite Nat.eqb_refl; reflexivity.
  - destruct (rid y =? rid w) eqn:E; [apply Nat.eqb_eq in E; exfalso; apply H; left; exact E|].
    f_equal; apply IH; intros Hc; apply H; right; exact Hc.
Qed.
Lemma remove_id_length : forall i l, has_id i l = true -> S (length (remove_id i l)) = length l.
Proof.
  intros i l; induction l as [|y t IH]; intros H; simpl in *; [discriminate|].
  destruct (rid y =? i); [reflexivity|]. simpl in H. simpl. f_equal; apply IH; exact H.
Qed.
Lemma remove_id_length_le : forall i l, length (remove_id i l) <= length l.
Proof.
  intros i l; induction l as [|y t IH]; simpl; [lia|]. destruct (rid y =? i); simpl; lia.
Qed.
Lemma has_id_in : forall i l, has_id i l = true <-> In i (map rid l).
Proof.
  intros i l; unfold has_id; rewrite existsb_exists; split.
  - intros (x & Hx & E). apply Nat.eqb_eq in E. subst. apply in_map; exact Hx.
  - intros H. apply in_map_iff in H. destruct H as (x & E & Hx). exists x; split; [exact Hx|apply Nat.eqb_eq; exact E].
Qed.
Lemma nodup_remove_l : forall (f : req -> nat) i l r, NoDup (map f (l ++ r)) -> NoDup (map f (remove_id i l ++ r)).
Proof.
  intros f i l r; induction l as [|y t IH]; intros H; simpl in *; [exact H|].
  inversion H as [|? ? Hn Hd]; subst.
  destruct (rid y =? i); [exact Hd|]. simpl. constructor; [|apply IH; exact Hd].
  intros Hc. apply Hn. rewrite map_app in *. apply in_app_or in Hc. apply in_or_app. destruct Hc as [Hc|Hc]; [left|right; exact Hc].
  apply in_map_iff in Hc. destruct Hc as (x & E & Hx). apply in_map_iff. exists x; split; [exact E|eapply remove_id_in; exact Hx].
Qed.
Lemma nodup_remove_r : forall (f : req -> nat) i l r, NoDup (map f (l ++ r)) -> NoDup (map f (l ++ remove_id i r)).
Proof.
  intros f i l r H.
  assert (P : Permutation (map f (l ++ r)) (map f (r ++ l))) by (apply Permutation_map, Permutation_app_comm).
  assert (P2 : Permutation (map f (remove_id i r ++ l)) (map f (l ++ remove_id i r))) by (apply Permutation_map, Permutation_app_comm).
  eapply Permutation_NoDup; [exact P2|]. apply nodup_remove_l. eapply Permutation_NoDup; [exact P|exact H].
Qed.
Lemma nodup_app_neq : forall (f : req -> nat) l r a b, NoDup (map f (l ++ r)) -> In a l -> In b r -> f a <> f b.
Proof.
  intros f l r a b; induction l as [|y t IH]; intros H Ha Hb; simpl in *; [destruct Ha|].
  inversion H as [|? ? Hn Hd]; subst. destruct Ha as [->|Ha]; [|apply IH; assumption].
  intros E. apply Hn. rewrite E. apply in_map. apply in_or_app; right; exact Hb.
Qed.

Lemma nodup_app_r : forall (l r : list nat), NoDup (l ++ r) -> NoDup r.
Proof. induction l as [|x t IH]; intros r H; simpl in *; [exact H|]. inversion H; subst. apply IH; assumption. Qed.

Lemma existsb_nat_in : forall r l, existsb (Nat.eqb r) l = true <-> In r l.
Proof.
  intros r l; rewrite existsb_exists; split.
  - intros (x & Hx & E); apply Nat.eqb_eq in E; subst; exact Hx.
  - intros H; exists r; split; [exact H|apply Nat.eqb_refl].
Qed.

(* ================================================================================================ *)
(* 4. the invariant                                                                                 *)

(* [q] is the put queue "as the scan sees it"; the field [queue s] is not mentioned *)
Record QI (k : kind) (cap : nat) (s : state) (q : list req) : Prop := mkQI {
  i_cap : length (users s) <= cap;
  i_getq : getq s = [];
  i_ids : NoDup (map rid (users s ++ q));
  i_procs : NoDup (map rproc (users s ++ q));
  i_fresh : forall r, In r (users s ++ q) -> rid r < next_id s;
  i_gfresh : forall i, In i (granted s) -> i < next_id s;
  i_ug : forall r, In r (users s) -> In (rid r) (granted s);
  i_qg : forall r, In r q -> ~ In (rid r) (granted s);
  i_sorted : rsorted k q;
  i_strict : forall i, In i (intrs s) -> key_ltb (rkey (iby i)) (rkey (ivictim i)) = true /\ rpre (iby i) = true;
  i_nointr : k <> KPreempt -> intrs s = [];
  i_since : forall r, In r (users s) -> exists t, rsince r = Some t /\ (t <= now s)%Z
}.

(* free slot and a waiter => a Release of this resource is triggered and not yet processed *)
Definition J (cap : nat) (s : state) (q : list req) : Prop :=
  length (users s) < cap -> q <> [] -> exists i, In (ERel i) (pending s).

Definition Inv (k : kind) (cap : nat) (s : state) : Prop := QI k cap s (queue s) /\ J cap s (queue s).

(* the active process holds nothing that a request still in the queue could evict *)
Definition act_ok (k : kind) (act : option nat) (s : state) (q : list req) : Prop :=
  k = KPreempt ->
  match act with
  | None => True
  | Some p => forall u, In u (users s) -> rproc u = p -> forall h, In h q -> key_ltb (rkey h) (rkey u) = false
  end.

Definition grant (t : Z) (e : req) : req := mkReq (rid e) (rproc e) (rprio e) (rtime e) (rpre e) (Some t).
Definition grant_state (s : state) (e : req) : state :=
  mkState (users s ++ [grant (now s) e]) (queue s) (getq s) (pending s ++ [EReq (rid e)]) (granted s ++ [rid e])
          (intrs s) (next_id s) (now s).

Lemma res_do_put_eq : forall cap s e,
  res_do_put cap s e = if length (users s) <? cap then (grant_state s e, true, true) else (s, false, false).
Proof. reflexivity. Qed.

Lemma grant_I : forall k cap s e q, QI k cap s (e :: q) -> length (users s) < cap -> QI k cap (grant_state s e) q.
Proof.
  intros k cap s e q H Hlt. destruct H. unfold grant_state. constructor; simpl.
  - rewrite app_length; simpl; lia.
  - exact i_getq0.
  - rewrite <- app_assoc; simpl. rewrite map_app in *; simpl in *. exact i_ids0.
  - rewrite <- app_assoc; simpl. rewrite map_app in *; simpl in *. exact i_procs0.
  - intros r Hr. rewrite <- app_assoc in Hr; simpl in Hr. apply in_app_or in Hr.
    destruct Hr as [Hr|[<-|Hr]].
    + apply i_fresh0; apply in_or_app; left; exact Hr.
    + simpl. apply (i_fresh0 e); apply in_or_app; right; left; reflexivity.
    + apply i_fresh0; apply in_or_app; right; right; exact Hr.
  - intros i Hi. apply in_app_or in Hi. destruct Hi as [Hi|[<-|[]]]; [apply i_gfresh0; exact Hi|].
    apply (i_fresh0 e); apply in_or_app; right; left; reflexivity.
  - intros r Hr. apply in_app_or in Hr. apply in_or_app. destruct Hr as [Hr|[<-|[]]]; [left; apply i_ug0; exact Hr|right; left; reflexivity].
  - intros r Hr Hc. apply in_app_or in Hc. destruct Hc as [Hc|[Hc|[]]].
    + apply (i_qg0 r); [right; exact Hr|exact Hc].
    + rewrite map_app in i_ids0. apply nodup_app_r in i_ids0. simpl in i_ids0.
      inversion i_ids0 as [|? ? Hn _]; subst. apply Hn. rewrite Hc. apply in_map; exact Hr.
  - inversion i_sorted0; assumption.
  - exact i_strict0.
  - exact i_nointr0.
  - intros r Hr. apply in_app_or in Hr. destruct Hr as [Hr|[<-|[]]]; [apply i_since0; exact Hr|].
    exists (now s); split; [reflexivity|lia].
Qed.

Lemma grant_act_ok : forall k cap act s e q, QI k cap s (e :: q) -> act_ok k act s (e :: q) -> act_ok k act (grant_state s e) q.
Proof.
  intros k cap act s e q HI H Hk. specialize (H Hk). destruct act as [p|]; [|exact I].
  intros u Hu Hp h Hh. simpl in Hu. apply in_app_or in Hu. destruct Hu as [Hu|[<-|[]]].
  - apply (H u Hu Hp h); right; exact Hh.
  - change (rkey (grant (now s) e)) with (rkey e).
    destruct HI. inversion i_sorted0 as [|? ? _ He]; subst. rewrite Forall_forall in He.
    assert (kle e h) by (eapply rank_kle; [|apply He; exact Hh]; discriminate). exact H0.
Qed.

Definition evict_state (s : state) (w e : req) : state :=
  add_intr (set_users s (remove_id (rid w) (users s))) (mkIntr w e).

Lemma evict_I : forall cap s w e q, QI KPreempt cap s (e :: q) -> In w (users s) ->
  key_ltb (rkey e) (rkey w) = true -> rpre e = true -> QI KPreempt cap (evict_state s w e) (e :: q).
Proof.
  intros cap s w e q H Hw Hlt Hpre. destruct H. unfold evict_state. constructor; simpl.
  - pose proof (remove_id_length_le (rid w) (users s)); lia.
  - exact i_getq0.
  - apply nodup_remove_l; exact i_ids0.
  - apply nodup_remove_l; exact i_procs0.
  - intros r Hr. apply i_fresh0. apply in_app_or in Hr. apply in_or_app. destruct Hr as [Hr|Hr]; [left; eapply remove_id_in; exact Hr|right; exact Hr].
  - exact i_gfresh0.
  - intros r Hr. apply i_ug0. eapply remove_id_in; exact Hr.
  - exact i_qg0.
  - exact i_sorted0.
  - intros i Hi. apply in_app_or in Hi. destruct Hi as [Hi|[<-|[]]]; [apply i_strict0; exact Hi|]. simpl. split; assumption.
  - intros Hc; congruence.
  - intros r Hr. apply i_since0. eapply remove_id_in; exact Hr.
Qed.

Lemma evict_act_ok : forall act s w e q, act_ok KPreempt act s q -> act_ok KPreempt act (evict_state s w e) q.
Proof.
  intros act s w e q H Hk. specialize (H Hk). destruct act as [p|]; [|exact I].
  intros u Hu. apply H. simpl in Hu. eapply remove_id_in; exact Hu.
Qed.

Lemma worst_in : forall u w, worst u = Some w -> In w u.
Proof.
  intros u w H. rewrite worst_lastmax in H. apply lastmax_spec in H. destruct H as (l1 & l2 & -> & _).
  apply in_or_app; right; left; reflexivity.
Qed.

(* one call of _do_put on the head of the queue *)
Lemma do_put_ok : forall k cap act s e q, 1 <= cap -> QI k cap s (e :: q) -> act_ok k act s (e :: q) ->
  exists s' b, do_put k cap act s e = Some (s', b, b) /\
    if b then QI k cap s' q /\ act_ok k act s' q /\ granted s' = granted s ++ [rid e]
              /\ pending s' = pending s ++ [EReq (rid e)] /\ next_id s' = next_id s /\ now s' = now s
    else s' = s /\ cap <= length (users s).
Proof.
  intros k cap act s e q Hcap HI Hact.
  assert (Hres : forall s0, QI k cap s0 (e :: q) -> act_ok k act s0 (e :: q) ->
     granted s0 = granted s -> pending s0 = pending s -> next_id s0 = next_id s -> now s0 = now s ->
     (length (users s0) <? cap = false -> s0 = s) ->
     exists s' b, Some (res_do_put cap s0 e) = Some (s', b, b) /\
       if b then QI k cap s' q /\ act_ok k act s' q /\ granted s' = granted s ++ [rid e]
              /\ pending s' = pending s ++ [EReq (rid e)] /\ next_id s' = next_id s /\ now s' = now s
       else s' = s /\ cap <= length (users s)).
  { intros s0 HI0 Hact0 Eg Ep En Et Hsame. rewrite res_do_put_eq. destruct (length (users s0) <? cap) eqn:E.
    - apply Nat.ltb_lt in E. exists (grant_state s0 e), true. split; [reflexivity|].
      split; [apply grant_I; assumption|]. split; [eapply grant_act_ok; eassumption|].
      simpl. rewrite Eg, Ep, En, Et. repeat split; reflexivity.
    - exists s0, false. split; [reflexivity|]. specialize (Hsame eq_refl). subst s0. split; [reflexivity|].
      apply Nat.ltb_ge in E; exact E. }
  assert (Hplain : exists s' b, Some (res_do_put cap s e) = Some (s', b, b) /\
       if b then QI k cap s' q /\ act_ok k act s' q /\ granted s' = granted s ++ [rid e]
              /\ pending s' = pending s ++ [EReq (rid e)] /\ next_id s' = next_id s /\ now s' = now s
       else s' = s /\ cap <= length (users s)) by (apply Hres; auto).
  destruct k; try exact Hplain.
  unfold do_put, preempt_do_put.
  destruct ((cap <=? length (users s)) && rpre e) eqn:Ec; [|exact Hplain].
  apply andb_true_iff in Ec. destruct Ec as [Efull Epre]. apply Nat.leb_le in Efull.
  destruct (worst (users s)) as [w|] eqn:Ew.
  2:{ apply worst_none in Ew. rewrite Ew in Efull. simpl in Efull. lia. }
  destruct (key_ltb (rkey e) (rkey w)) eqn:Elt; [|exact Hplain].
  pose proof (worst_in _ _ Ew) as Hw.
  assert (Hnot : forall a, act = Some a -> a =? rproc w = false).
  { intros a Ea. apply Nat.eqb_neq. intros Heq. subst act. specialize (Hact eq_refl). simpl in Hact.
    rewrite (Hact w Hw (eq_sym Heq) e (or_introl eq_refl)) in Elt. discriminate. }
  assert (Hev : exists s' b, Some (res_do_put cap (add_intr (set_users s (remove_id (rid w) (users s))) (mkIntr w e)) e) = Some (s', b, b) /\
       if b then QI KPreempt cap s' q /\ act_ok KPreempt act s' q /\ granted s' = granted s ++ [rid e]
              /\ pending s' = pending s ++ [EReq (rid e)] /\ next_id s' = next_id s /\ now s' = now s
       else s' = s /\ cap <= length (users s)).
  { apply Hres; try reflexivity.
    - apply evict_I; assumption.
    - apply evict_act_ok; exact Hact.
    - intros E. exfalso. simpl in E. apply Nat.ltb_ge in E.
      assert (has_id (rid w) (users s) = true) by (apply has_id_in; apply in_map; exact Hw).
      pose proof (remove_id_length _ _ H). destruct HI. lia. }
  destruct act as [a|]; [rewrite (Hnot a eq_refl)|]; exact Hev.
Qed.

(* the scan of _trigger_put: it calls _do_put on the head of the queue until one call fails *)
Lemma scan_ok : forall k cap act, 1 <= cap -> forall q s, QI k cap s q -> act_ok k act s q ->
  exists s' q' new, scan (do_put k cap act) s [] q = Some (s', q') /\ q = new ++ q' /\ QI k cap s' q'
    /\ granted s' = granted s ++ map rid new
    /\ pending s' = pending s ++ map (fun r => EReq (rid r)) new
    /\ next_id s' = next_id s /\ now s' = now s
    /\ (q' = [] \/ cap <= length (users s')).
Proof.
  intros k cap act Hcap q; induction q as [|e q IH]; intros s HI Hact.
  - exists s, [], []. simpl. rewrite !app_nil_r.
    split; [reflexivity|]. split; [reflexivity|]. split; [exact HI|].
    split; [reflexivity|]. split; [reflexivity|]. split; [reflexivity|]. split; [reflexivity|]. left; reflexivity.
  - destruct (do_put_ok k cap act s e q Hcap HI Hact) as (s1 & b & Hd & Hb).
    simpl. rewrite Hd. destruct b.
    + destruct Hb as (HI1 & Hact1 & Eg & Ep & En & Et).
      destruct (IH s1 HI1 Hact1) as (s' & q' & new & Hs & Hq & HI' & Eg' & Ep' & En' & Et' & Hpost).
      exists s', q', (e :: new). rewrite Hs. split; [reflexivity|]. split; [simpl; rewrite Hq; reflexivity|].
      split; [exact HI'|]. simpl. rewrite Eg', Ep', Eg, Ep, <- !app_assoc. simpl.
      split; [reflexivity|]. split; [reflexivity|]. split; [congruence|]. split; [congruence|]. exact Hpost.
    + destruct Hb as (-> & Hfull). exists s, (e :: q), []. simpl. rewrite !app_nil_r.
      split; [reflexivity|]. split; [reflexivity|]. split; [exact HI|].
      split; [reflexivity|]. split; [reflexivity|]. split; [reflexivity|]. split; [reflexivity|]. right; exact Hfull.
Qed.
