(* Bridging lemma (DESIGN 2.6, second tie) for PacketSink.put: the body as translated from the tree under test on every
   run (Gen/Extracted_packetsink.v) keeps the books of the hand-written model (Elem/GenSink.v: [sink_put_rec] on the
   record of the packet's key, every other key untouched).  The per-key dicts of numbers (first_arrival, last_arrival,
   packets_received, bytes_received) are state; the per-key lists (waits, packet_sizes, packet_times, arrivals) are
   changed by effects, whose meaning is given here; perhop_times is not modelled.  The `if self.debug:` block is
   dropped by the translator.  Observation: len(self.arrivals[key]) read AFTER the arrival was appended. *)
From Coq Require Import ZArith QArith List Bool Lia.
From ONL Require Import Elem.Packet Elem.StoreQ Elem.GenSink Gen.Extracted_packetsink.
Import ListNotations.

(* the books as the dicts the code keeps *)
Definition psink_fields (m : list (Z * krec)) : psink_st :=
  {| p_first_arrival := fun x => k_first (lookup x m); p_last_arrival := fun x => k_last (lookup x m);
     p_packets_received := fun x => k_packets (lookup x m); p_bytes_received := fun x => k_bytes (lookup x m) |}.

(* meaning of the effects on the four lists of key k (waits, sizes, times, arrivals); None = another key is touched,
   or arrivals[k][-1] is assigned on an empty list (IndexError) *)
Definition lists := (list Q * list Z * list Q * list Q)%type.
Definition psink_fx_apply (k : Z) (acc : option lists) (e : psink_fx) : option lists :=
  match acc with
  | None => None
  | Some (w, sz, tm, ar) =>
      match e with
      | FxWait k' x => if Z.eqb k' k then Some (w ++ [x], sz, tm, ar) else None
      | FxSize k' n => if Z.eqb k' k then Some (w, sz ++ [n], tm, ar) else None
      | FxTime k' t => if Z.eqb k' k then Some (w, sz, tm ++ [t], ar) else None
      | FxPerhop k' => if Z.eqb k' k then Some (w, sz, tm, ar) else None
      | FxArrival k' t => if Z.eqb k' k then Some (w, sz, tm, ar ++ [t]) else None
      | FxArrivalSetLast k' v =>
          if Z.eqb k' k then match ar with [] => None | _ => Some (w, sz, tm, removelast ar ++ [v]) end else None
      end
  end.

Definition psink_gen_put (c : scfg) (byflow : bool) (m : list (Z * krec)) (flow_ src size : Z) (ptime now : Q) :=
  let k := if byflow then flow_ else src in
  gen_PacketSink_put (psink_fields m) now byflow (rec_waits c) (rec_arrivals c) (absolute_arrivals c) flow_ src size ptime
                     (Z.of_nat (length (k_arrivals (lookup k m))) + 1)%Z.

Lemma set_last_after_append (ar : list Q) (t v : Q) (w : list Q) (sz : list Z) (tm : list Q) :
  match ar ++ [t] with [] => None | _ => Some (w, sz, tm, removelast (ar ++ [t]) ++ [v]) end = Some (w, sz, tm, ar ++ [v]).
Proof. rewrite removelast_last. destruct ar; reflexivity. Qed.

Lemma bridge_packetsink_put (c : scfg) (byflow : bool) (m : list (Z * krec)) (flow_ src size : Z) (ptime now : Q) :
  let k := if byflow then flow_ else src in
  let r := lookup k m in
  let g := psink_gen_put c byflow m flow_ src size ptime now in
  let r' := sink_put_rec c r size ptime now in
  fold_left (psink_fx_apply k) (snd g) (Some (k_waits r, k_sizes r, k_times r, k_arrivals r)) =
    Some (k_waits r', k_sizes r', k_times r', k_arrivals r') /\
  p_first_arrival (fst g) k = k_first r' /\ p_last_arrival (fst g) k = k_last r' /\
  p_packets_received (fst g) k = k_packets r' /\ p_bytes_received (fst g) k = k_bytes r' /\
  (forall k', Z.eqb k' k = false ->
     p_first_arrival (fst g) k' = k_first (lookup k' m) /\ p_last_arrival (fst g) k' = k_last (lookup k' m) /\
     p_packets_received (fst g) k' = k_packets (lookup k' m) /\ p_bytes_received (fst g) k' = k_bytes (lookup k' m)).
Proof.
  intros k r g r'. subst g r'. unfold psink_gen_put, gen_PacketSink_put, sink_put_rec, psink_fields. fold k. fold r.
  assert (HN : (Z.of_nat (length (k_arrivals r)) + 1 =? 1)%Z = match k_arrivals r with [] => true | _ => false end).
  { destruct (k_arrivals r); cbn [length]; [reflexivity|]. apply Z.eqb_neq. lia. }
  assert (HK2 : (if negb byflow then src else flow_) = k) by (destruct byflow; reflexivity).
  rewrite ?HK2. replace (if byflow then flow_ else src) with k by reflexivity.
  rewrite ?(Z.eqb_sym 1).                      (* `1 == len(..)` as the model writes it *)
  destruct (rec_waits c), (rec_arrivals c), (absolute_arrivals c);
    cbn -[Z.eqb Z.add Z.of_nat removelast psink_fx_apply];
    rewrite ?HN; unfold gen_upd, psink_fx_apply; rewrite ?Z.eqb_refl;
    cbn -[Z.eqb Z.add Z.of_nat removelast]; rewrite ?Z.eqb_refl, ?set_last_after_append;
    (split; [reflexivity|]);
    (split; [destruct (k_arrivals r); cbn; rewrite ?Z.eqb_refl; reflexivity|]);
    do 3 (split; [reflexivity|]);
    intros k' Hk; rewrite ?Hk; destruct (k_arrivals r); cbn; rewrite ?Hk; repeat split; reflexivity.
Qed.
