(* Bridging lemma (DESIGN 2.6, second tie) for TCPSink.put: the body as translated from the tree under test on every
   run (Gen/Extracted_sink.v: the new next_seq_expected and the effects in program order) is [sink_step true] of the
   hand-written model (Tcp/Sink.v) the C16 ACK theorems are about: after packet_arrived, next_seq_expected becomes
   [ack_choice true] of the merged buffer, and that number is what the acknowledgement carries.
   The observations recv_buffer[0][0] / recv_buffer[0][1] are read AFTER packet_arrived (the buffer is then never empty). *)
From Coq Require Import ZArith List Bool Lia.
From ONL Require Import Tcp.Sink Gen.Extracted_sink.
Import ListNotations.
Open Scope Z_scope.

Lemma merge_from_nonempty cur l : merge_from cur l <> [].
Proof.
  revert cur; induction l as [|[s e] t IH]; intros cur; cbn; [discriminate|].
  destruct (s <=? snd cur); [apply IH|discriminate].
Qed.

Lemma insert_sorted_nonempty r l : insert_sorted r l <> [].
Proof. destruct l as [|x t]; cbn; [discriminate|]. destruct (range_leb x r); discriminate. Qed.

Lemma packet_arrived_nonempty b pid size : packet_arrived b pid size <> [].
Proof.
  unfold packet_arrived, merge. pose proof (insert_sorted_nonempty (pid, pid + size) b) as H.
  destruct (insert_sorted (pid, pid + size) b) as [|x t]; [congruence|apply merge_from_nonempty].
Qed.

(* the generated put() on the abstract state: the buffer observations are those of the buffer after packet_arrived *)
Definition sink_gen_put (s : sink) (seg : Z * Z) : option (sink_st * list sink_fx) :=
  match packet_arrived (buf s) (fst seg) (snd seg) with
  | (s0, e0) :: _ => Some (gen_TCPSink_put {| k_next_seq_expected := nse s |} s0 e0)
  | [] => None                                            (* recv_buffer[0] would raise IndexError: never *)
  end.

Lemma bridge_sink_put s seg :
  exists g, sink_gen_put s seg = Some g /\
            k_next_seq_expected (fst g) = nse (sink_step true s seg) /\
            snd g = [FxSuperPut; FxArrived; FxMakeAck; FxSetAck (nse (sink_step true s seg)); FxAssertOut; FxSendAck].
Proof.
  unfold sink_gen_put, sink_step, ack_choice. cbn [nse buf].
  pose proof (packet_arrived_nonempty (buf s) (fst seg) (snd seg)) as HN.
  destruct (packet_arrived (buf s) (fst seg) (snd seg)) as [|[s0 e0] t]; [congruence|].
  eexists; split; [reflexivity|].
  unfold gen_TCPSink_put; cbn -[Z.eqb Z.leb Z.ltb].
  repeat match goal with
         | |- context [Z.eqb ?a ?b] => destruct (Z.eqb_spec a b)
         | |- context [Z.leb ?a ?b] => destruct (Z.leb_spec a b)
         | |- context [Z.ltb ?a ?b] => destruct (Z.ltb_spec a b)
         end; first [split; reflexivity | exfalso; lia].
Qed.
