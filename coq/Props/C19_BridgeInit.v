(* C19, second tie for Timer.__init__ (DESIGN 2.6): the constructor as translated from the tree under test on every
   run (Gen/Extracted_timer_init.v) against the hand-written models.  Only statements, closed by the lemma that
   proves them, and their assumptions.  The tests `args is None` and `isinstance(args, (list, tuple))` are the two
   observations of the object given as `args`; a constructor testing anything else does not translate (fail closed). *)
From Coq Require Import ZArith QArith List.
From ONL Require Import Elem.Timer Elem.TimerArgs Gen.Extracted_timer_init Elem.TimerInitBridge.
Import ListNotations.
Local Open Scope Q_scope.

(* for every object v given as args and every positive timeout: self.args = py_stored_args v (so the callback's positional
   arguments are py_norm_args v, Props/C19_Args.v), exactly one timer process is created, nothing is raised *)
Theorem C19_gen_timer_init_args : forall s now tau nx v,
  0 < tau ->
  let e := init_run v (snd (timer_gen_init s now tau nx v)) in
  stored_args e = Some (py_stored_args v) /\ nprocs e = 1%nat /\ raised e = false.
Proof. exact bridge_timer_init_args. Qed.
Print Assumptions C19_gen_timer_init_args.

(* the fields the constructor leaves are those of the automaton's initial state timer0 *)
Theorem C19_gen_timer_init_fields : forall s now tau nx v au a,
  0 < tau ->
  let f := fst (timer_gen_init s now tau nx v) in
  let st := timer0 fixed now tau au a in
  ti_start_time f = tstart st /\ ti_timeout f = tmo st /\ ti_expire_time f = expire st /\ ti_stopped f = stopped st /\
  length (procs st) = 1%nat.
Proof. exact bridge_timer_init_fields. Qed.
Print Assumptions C19_gen_timer_init_fields.

(* a non-positive timeout is rejected before anything is stored or created *)
Theorem C19_gen_timer_init_rejects : forall s now tau nx v,
  tau <= 0 -> timer_gen_init s now tau nx v = (s, [IxRaiseValueError]).
Proof. exact bridge_timer_init_rejects. Qed.
Print Assumptions C19_gen_timer_init_rejects.

(* witness: the hypotheses are satisfiable and the statement is not vacuous (a string given as args is stored wrapped) *)
Theorem C19_ex_gen_timer_init :
  stored_args (init_run (VStr [115; 101; 103]%Z)
                 (snd (timer_gen_init {| ti_start_time := 0; ti_timeout := 0; ti_expire_time := 0; ti_stopped := true |}
                         2 3 7 (VStr [115; 101; 103]%Z))))
  = Some (VList [VStr [115; 101; 103]%Z]).
Proof. exact ex_init_scalar_string. Qed.
Print Assumptions C19_ex_gen_timer_init.
