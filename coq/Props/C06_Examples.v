(* C06 -- NON-VACUITY of the theorems of Props/C06.v (and Props/C06_Bridge.v).

   "Beside each theorem prove an Example that a concrete non-trivial state meets its hypotheses; an implication no
   reachable state satisfies means nothing."  Every theorem below instantiates ALL hypotheses of one or several
   theorems of Props/C06.v at closed terms -- histories of five processes on a PreemptiveResource / PriorityResource /
   Resource of capacity 2 with waiting, an eviction, a release, a stale release -- proves them together, and adds the
   concrete content of the instantiated conclusion (who holds, who waits, who is granted, who is evicted), obtained by
   running the model and, where a conclusion is a Prop, by applying the very lemma that closes the theorem.

   The history (C06_ex_hist, kind KPreempt, capacity 2, t0 = 0):
       t=0  p0 requests (prio 5)             -> request 0 granted
            p1 requests (prio 3)             -> request 1 granted          (resource full)
            p2 requests (prio 4)             -> request 2 waits
            p3 requests (prio 1, preempt)    -> request 3 goes to the head of the queue, evicts request 0 (key (5,0,True) >
                                                (1,0,False)): p0 gets Interrupt(Preempted(by=p3, usage_since=0)), 3 is granted
            p4 requests (prio 4)             -> request 4 waits behind request 2 (equal key: arrival order)
            the kernel processes the grant events of 0, 1, 3
       t=2  somebody releases request 1      -> Release event 5 triggered, slot free, 2 and 4 still wait  (C06_ex_freed)
            the kernel processes Release 5   -> rescan: request 2 (the head) is granted at t=2, request 4 still waits

   Coverage (hypothesis-carrying theorems of Props/C06.v -> witness):
     C06_users_le_capacity, C06_queue_sorted, C06_users_have_usage_since      -> C06_ex_reachable
     C06_grant_is_head, C06_no_overtaking                                     -> C06_ex_grant_head_no_overtaking
     C06_free_slot_has_release                                                -> C06_ex_free_slot_has_release
     C06_no_idle_slot_at_advance                                              -> C06_ex_no_idle_slot_at_advance
     C06_release_idempotent, C06_release_twice                                -> C06_ex_release_stale_and_twice
     C06_preempt_call                                                         -> C06_ex_preempt_call
     C06_victim_is_worst_ranked                                               -> C06_ex_victim_is_worst_ranked
     C06_preempt_request                                                      -> C06_ex_preempt_request
     C06_evictions_strict                                                     -> C06_ex_evictions_strict
     C06_only_preemptive_evicts                                               -> C06_ex_only_preemptive_evicts
   Unconditional (no hypotheses, nothing to witness): C06_rank_meaning (an equivalence for all k, x, y);
     C06_gen_resource_do_put, C06_gen_resource_do_get, C06_gen_preemptive_do_put (Props/C06_Bridge.v: equations for
     all capacities, states and requests). *)
From Coq Require Import ZArith List Bool Sorted Lia.
From ONL Require Import Res.Resource Res.ResourceProofs.
Import ListNotations.

(* a request object: id, process, priority, preempt flag, usage_since; all are created at t = 0 *)
Definition C06_rq (i p : nat) (prio : Z) (pre : bool) (since : option Z) : req := mkReq i p prio 0%Z pre since.

(* up to the end of instant 0: users = requests 1, 3; queue = requests 2, 4; nothing pending *)
Definition C06_ex_hist0 : list action :=
  [ ARequest 0 5%Z false; ARequest 1 3%Z false; ARequest 2 4%Z false; ARequest 3 1%Z true; ARequest 4 4%Z false;
    AProcess (EReq 0); AProcess (EReq 1); AProcess (EReq 3) ].
(* t = 2 *)
Definition C06_ex_hist2 : list action := C06_ex_hist0 ++ [AAdvance 2%Z].
(* request 1 released, its Release event (id 5) not yet processed *)
Definition C06_ex_freed : list action := C06_ex_hist2 ++ [ARelease 1].
(* Release 5 processed: request 2 granted *)
Definition C06_ex_hist : list action := C06_ex_freed ++ [AProcess (ERel 5)].

(* the states these histories lead to, written out *)
Definition C06_ex_evict03 : intr := mkIntr (C06_rq 0 0 5%Z false (Some 0%Z)) (C06_rq 3 3 1%Z true None) true.
Definition C06_ex_s0 : state :=
  mkState [C06_rq 1 1 3%Z false (Some 0%Z); C06_rq 3 3 1%Z true (Some 0%Z)]
          [C06_rq 2 2 4%Z false None; C06_rq 4 4 4%Z false None]
          [] [] [0; 1; 3] [C06_ex_evict03] [] 5 0%Z.
Definition C06_ex_s2 : state :=
  mkState (users C06_ex_s0) (queue C06_ex_s0) [] [] [0; 1; 3] [C06_ex_evict03] [] 5 2%Z.
Definition C06_ex_sfreed : state :=
  mkState [C06_rq 3 3 1%Z true (Some 0%Z)]
          [C06_rq 2 2 4%Z false None; C06_rq 4 4 4%Z false None]
          [] [ERel 5] [0; 1; 3] [C06_ex_evict03] [] 6 2%Z.
Definition C06_ex_send : state :=
  mkState [C06_rq 3 3 1%Z true (Some 0%Z); C06_rq 2 2 4%Z false (Some 2%Z)]
          [C06_rq 4 4 4%Z false None]
          [] [EReq 2] [0; 1; 3; 2] [C06_ex_evict03] [] 6 2%Z.

(* ---- hypotheses `1 <= cap`, `run k cap (init t0) acts = Some s` [, `In u (users s)`] ------------------------------
   covers C06_users_le_capacity, C06_queue_sorted, C06_users_have_usage_since.
   The history is admissible and leads to C06_ex_send; there the resource is full (2 users on capacity 2), the queue
   is sorted, and user request 2 -- granted by the rescan at t = 2 -- carries usage_since = 2 <= now.  The same holds
   in the intermediate state C06_ex_s0 where TWO requests wait, in rank order 2 before 4. *)
Definition C06_cap_ok : 1 <= 2 := le_S 1 1 (le_n 1).

Theorem C06_ex_reachable :
  1 <= 2
  /\ run KPreempt 2 (init 0%Z) C06_ex_hist = Some C06_ex_send
  /\ In (C06_rq 2 2 4%Z false (Some 2%Z)) (users C06_ex_send)
  /\ run KPreempt 2 (init 0%Z) C06_ex_hist0 = Some C06_ex_s0
  (* what the three theorems then say *)
  /\ length (users C06_ex_send) <= 2 /\ length (users C06_ex_send) = 2
  /\ StronglySorted (fun x y => rank_ltb KPreempt x y = true) (queue C06_ex_s0)
  /\ map rid (queue C06_ex_s0) = [2; 4]
  /\ (exists t, rsince (C06_rq 2 2 4%Z false (Some 2%Z)) = Some t /\ (t <= now C06_ex_send)%Z).
Proof.
  assert (Hr : run KPreempt 2 (init 0%Z) C06_ex_hist = Some C06_ex_send) by (vm_compute; reflexivity).
  assert (Hr0 : run KPreempt 2 (init 0%Z) C06_ex_hist0 = Some C06_ex_s0) by (vm_compute; reflexivity).
  assert (Hin : In (C06_rq 2 2 4%Z false (Some 2%Z)) (users C06_ex_send)) by (right; left; reflexivity).
  split; [exact C06_cap_ok|]. split; [exact Hr|]. split; [exact Hin|]. split; [exact Hr0|].
  split; [exact (users_le_capacity _ _ _ _ _ C06_cap_ok Hr)|]. split; [reflexivity|].
  split; [exact (queue_sorted _ _ _ _ _ C06_cap_ok Hr0)|]. split; [reflexivity|].
  exact (users_have_usage_since _ _ _ _ _ _ C06_cap_ok Hr Hin).
Qed.
Print Assumptions C06_ex_reachable.

(* ---- hypotheses `1 <= cap`, `run … = Some s`, `adm s a = true` [, `step k cap s a = Some s'`, `In x (qscan k s a)`,
        `In (rid x) (granted s')`, `In y (queue s')`] ------------------------------------------------------------------
   covers C06_grant_is_head, C06_no_overtaking.
   s = C06_ex_sfreed (one slot free, requests 2 and 4 waiting, Release 5 pending), a = the kernel processes Release 5.
   The scan starts on the queue [2; 4]; it grants exactly the prefix [2]; 4 stays; and the granted request 2 ranks
   before the waiting request 4. *)
Theorem C06_ex_grant_head_no_overtaking :
  let a := AProcess (ERel 5) in
  let x := C06_rq 2 2 4%Z false None in
  let y := C06_rq 4 4 4%Z false None in
  1 <= 2
  /\ run KPreempt 2 (init 0%Z) C06_ex_freed = Some C06_ex_sfreed
  /\ adm C06_ex_sfreed a = true
  /\ step KPreempt 2 C06_ex_sfreed a = Some C06_ex_send
  /\ In x (qscan KPreempt C06_ex_sfreed a) /\ In (rid x) (granted C06_ex_send) /\ In y (queue C06_ex_send)
  (* conclusions, concretely *)
  /\ qscan KPreempt C06_ex_sfreed a = [x] ++ queue C06_ex_send
  /\ granted C06_ex_send = granted C06_ex_sfreed ++ map rid [x]
  /\ rank_ltb KPreempt x y = true.
Proof.
  intros a x y.
  assert (Hr : run KPreempt 2 (init 0%Z) C06_ex_freed = Some C06_ex_sfreed) by (vm_compute; reflexivity).
  assert (Ha : adm C06_ex_sfreed a = true) by reflexivity.
  assert (Hs : step KPreempt 2 C06_ex_sfreed a = Some C06_ex_send) by (vm_compute; reflexivity).
  assert (Hx : In x (qscan KPreempt C06_ex_sfreed a)) by (left; reflexivity).
  assert (Hg : In (rid x) (granted C06_ex_send)) by (vm_compute; tauto).
  assert (Hy : In y (queue C06_ex_send)) by (left; reflexivity).
  split; [exact C06_cap_ok|]. split; [exact Hr|]. split; [exact Ha|]. split; [exact Hs|].
  split; [exact Hx|]. split; [exact Hg|]. split; [exact Hy|].
  split; [reflexivity|]. split; [reflexivity|].
  exact (no_overtaking _ _ _ _ _ _ _ C06_cap_ok Hr Ha Hs x y Hx Hg Hy).
Qed.
Print Assumptions C06_ex_grant_head_no_overtaking.

(* ---- hypotheses `1 <= cap`, `run … = Some s`, `length (users s) < cap`, `queue s <> []` ------------------------------
   covers C06_free_slot_has_release.
   C06_ex_sfreed: one user on capacity 2 while two requests wait -- and indeed Release 5 is triggered and unprocessed. *)
Theorem C06_ex_free_slot_has_release :
  1 <= 2
  /\ run KPreempt 2 (init 0%Z) C06_ex_freed = Some C06_ex_sfreed
  /\ length (users C06_ex_sfreed) < 2
  /\ queue C06_ex_sfreed <> []
  /\ In (ERel 5) (pending C06_ex_sfreed).
Proof.
  split; [exact C06_cap_ok|]. split; [vm_compute; reflexivity|]. split; [vm_compute; lia|].
  split; [discriminate|]. left; reflexivity.
Qed.
Print Assumptions C06_ex_free_slot_has_release.

(* ---- hypotheses `1 <= cap`, `run … = Some s`, `adm s (AAdvance t) = true`, `queue s <> []` ----------------------------
   covers C06_no_idle_slot_at_advance.
   C06_ex_s0 (end of instant 0): every event processed, so the clock may move to 2; requests 2 and 4 wait; both slots
   are taken. *)
Theorem C06_ex_no_idle_slot_at_advance :
  1 <= 2
  /\ run KPreempt 2 (init 0%Z) C06_ex_hist0 = Some C06_ex_s0
  /\ adm C06_ex_s0 (AAdvance 2%Z) = true
  /\ queue C06_ex_s0 <> []
  /\ length (users C06_ex_s0) = 2.
Proof.
  assert (Hr : run KPreempt 2 (init 0%Z) C06_ex_hist0 = Some C06_ex_s0) by (vm_compute; reflexivity).
  assert (Ha : adm C06_ex_s0 (AAdvance 2%Z) = true) by reflexivity.
  assert (Hq : queue C06_ex_s0 <> []) by discriminate.
  split; [exact C06_cap_ok|]. split; [exact Hr|]. split; [exact Ha|]. split; [exact Hq|].
  exact (no_idle_slot_at_advance _ _ _ _ _ _ C06_cap_ok Hr Ha Hq).
Qed.
Print Assumptions C06_ex_no_idle_slot_at_advance.

(* ---- hypotheses `1 <= cap`, `run … = Some s`, `~ In r (map rid (users s))` / `step k cap s (ARelease r) = Some s1` ----
   covers C06_release_idempotent, C06_release_twice.
   In C06_ex_s2 (t = 2, users 1 and 3): request 0 was evicted, so releasing it is a stale release -- users and queue
   stay, one Release event is triggered.  Releasing request 1 (a user) gives C06_ex_sfreed; releasing it AGAIN there
   changes nothing but triggers Release 6. *)
Theorem C06_ex_release_stale_and_twice :
  1 <= 2
  /\ run KPreempt 2 (init 0%Z) C06_ex_hist2 = Some C06_ex_s2
  /\ ~ In 0 (map rid (users C06_ex_s2))
  /\ step KPreempt 2 C06_ex_s2 (ARelease 1) = Some C06_ex_sfreed
  (* conclusions, concretely *)
  /\ step KPreempt 2 C06_ex_s2 (ARelease 0) =
       Some (mkState (users C06_ex_s2) (queue C06_ex_s2) [] [ERel 5] [0; 1; 3] [C06_ex_evict03] [] 6 2%Z)
  /\ step KPreempt 2 C06_ex_sfreed (ARelease 1) =
       Some (mkState (users C06_ex_sfreed) (queue C06_ex_sfreed) [] [ERel 5; ERel 6] [0; 1; 3] [C06_ex_evict03] [] 7 2%Z).
Proof.
  assert (Hr : run KPreempt 2 (init 0%Z) C06_ex_hist2 = Some C06_ex_s2) by (vm_compute; reflexivity).
  assert (Hn : ~ In 0 (map rid (users C06_ex_s2))) by (vm_compute; intros [H|[H|[]]]; discriminate).
  assert (Hs : step KPreempt 2 C06_ex_s2 (ARelease 1) = Some C06_ex_sfreed) by (vm_compute; reflexivity).
  split; [exact C06_cap_ok|]. split; [exact Hr|]. split; [exact Hn|]. split; [exact Hs|].
  split.
  - rewrite (release_idempotent _ _ _ _ _ 0 C06_cap_ok Hr Hn). reflexivity.
  - rewrite (release_twice _ _ _ _ _ 1 _ C06_cap_ok Hr Hs). reflexivity.
Qed.
Print Assumptions C06_ex_release_stale_and_twice.

(* ---- hypotheses of C06_preempt_call: `1 <= cap`, `length (users s) <= cap`, `NoDup (map rid (users s))`,
        `forall p, act = Some p -> forall u, In u (users s) -> rproc u <> p` ------------------------------------------------
   The state in which the history's fourth request is examined by PreemptiveResource._do_put: users 0 (prio 5) and 1
   (prio 3) on capacity 2, request 2 waiting; e = request 3 (prio 1, preempt) made by the active process p3.  The
   resource is full, so the second branch applies: the victim is w = request 0 (l1 = [], l2 = [request 1]), e preempts
   and its key is strictly smaller, so request 0 is evicted and notified, request 3 gets the slot. *)
Definition C06_ex_sfull : state :=
  mkState [C06_rq 0 0 5%Z false (Some 0%Z); C06_rq 1 1 3%Z false (Some 0%Z)]
          [C06_rq 3 3 1%Z true None; C06_rq 2 2 4%Z false None]
          [] [EReq 0; EReq 1] [0; 1] [] [] 4 0%Z.

Theorem C06_ex_preempt_call :
  let s := C06_ex_sfull in
  let e := C06_rq 3 3 1%Z true None in
  let w := C06_rq 0 0 5%Z false (Some 0%Z) in
  1 <= 2
  /\ length (users s) <= 2
  /\ NoDup (map rid (users s))
  /\ (forall p, Some 3 = Some p -> forall u, In u (users s) -> rproc u <> p)
  (* the branch taken and its content *)
  /\ (length (users s) <? 2) = false
  /\ users s = [] ++ w :: [C06_rq 1 1 3%Z false (Some 0%Z)]
  /\ rpre e && key_ltb (rkey e) (rkey w) = true
  /\ do_put KPreempt 2 (Some 3) s e =
       Some (mkState [C06_rq 1 1 3%Z false (Some 0%Z); C06_rq 3 3 1%Z true (Some 0%Z)] (queue s) []
                     [EReq 0; EReq 1; EReq 3] [0; 1; 3] [mkIntr w e true] [] 4 0%Z, true, true).
Proof.
  intros s e w.
  split; [exact C06_cap_ok|]. split; [vm_compute; lia|].
  split; [vm_compute; repeat constructor; simpl; intuition discriminate|].
  split; [intros p Hp u [Hu|[Hu|[]]]; injection Hp as <-; subst u; discriminate|].
  repeat split.
Qed.
Print Assumptions C06_ex_preempt_call.

(* ---- hypotheses `1 <= cap`, `run KPreempt … = Some s`, `worst (users s) = Some w`, `In u (users s)` ------------------
   covers C06_victim_is_worst_ranked.
   After the first three requests (users 0 and 1): sorted(users, key)[-1] is request 0 (prio 5), and the other user,
   request 1 (prio 3), ranks strictly before it. *)
Theorem C06_ex_victim_is_worst_ranked :
  let w := C06_rq 0 0 5%Z false (Some 0%Z) in
  let u := C06_rq 1 1 3%Z false (Some 0%Z) in
  exists s,
  1 <= 2
  /\ run KPreempt 2 (init 0%Z) (firstn 3 C06_ex_hist0) = Some s
  /\ worst (users s) = Some w
  /\ In u (users s)
  /\ u <> w /\ rank_ltb KPreempt u w = true.
Proof.
  intros w u. eexists. split; [exact C06_cap_ok|]. split; [vm_compute; reflexivity|].
  split; [reflexivity|]. split; [right; left; reflexivity|]. split; [discriminate|reflexivity].
Qed.
Print Assumptions C06_ex_victim_is_worst_ranked.

(* ---- hypotheses `1 <= cap`, `run KPreempt … = Some s`, `adm s (ARequest p prio pre) = true`, `queue s = []` ----------
   covers C06_preempt_request.
   Capacity 2, requests 0 (prio 5) and 1 (prio 3) granted and their grant events processed, clock at 1, nobody
   waiting.  Process 2 then requests with prio 1 and preempt=True: the resource is full, so request 0 (the worst) is
   evicted, Preempted(by=p2, usage_since=0) goes to p0, and request 2 holds the slot since t = 1.  The same request
   WITHOUT preempt merely queues. *)
Definition C06_ex_hist_pr : list action :=
  [ ARequest 0 5%Z false; ARequest 1 3%Z false; AProcess (EReq 0); AProcess (EReq 1); AAdvance 1%Z ].
Definition C06_ex_spr : state :=
  mkState [C06_rq 0 0 5%Z false (Some 0%Z); C06_rq 1 1 3%Z false (Some 0%Z)] [] [] [] [0; 1] [] [] 2 1%Z.

Theorem C06_ex_preempt_request :
  let e := mkReq 2 2 1%Z 1%Z true None in
  let w := C06_rq 0 0 5%Z false (Some 0%Z) in
  1 <= 2
  /\ run KPreempt 2 (init 0%Z) C06_ex_hist_pr = Some C06_ex_spr
  /\ adm C06_ex_spr (ARequest 2 1%Z true) = true
  /\ queue C06_ex_spr = []
  (* the branch taken and its content *)
  /\ (length (users C06_ex_spr) <? 2) = false
  /\ new_req C06_ex_spr 2 1%Z true = e
  /\ true && key_ltb (rkey e) (rkey w) = true
  /\ step KPreempt 2 C06_ex_spr (ARequest 2 1%Z true) =
       Some (mkState [C06_rq 1 1 3%Z false (Some 0%Z); mkReq 2 2 1%Z 1%Z true (Some 1%Z)] [] [] [EReq 2] [0; 1; 2]
                     [mkIntr w e true] [] 3 1%Z)
  /\ adm C06_ex_spr (ARequest 2 1%Z false) = true
  /\ step KPreempt 2 C06_ex_spr (ARequest 2 1%Z false) =
       Some (mkState (users C06_ex_spr) [mkReq 2 2 1%Z 1%Z false None] [] [] [0; 1] [] [] 3 1%Z).
Proof.
  intros e w. split; [exact C06_cap_ok|]. split; [vm_compute; reflexivity|]. repeat split.
Qed.
Print Assumptions C06_ex_preempt_request.

(* ---- hypotheses `1 <= cap`, `run … = Some s`, `In i (intrs s)` ------------------------------------------------------
   covers C06_evictions_strict.
   The full history contains the eviction of request 0 (key (5,0,True)) by request 3 (key (1,0,False), preempt). *)
Theorem C06_ex_evictions_strict :
  1 <= 2
  /\ run KPreempt 2 (init 0%Z) C06_ex_hist = Some C06_ex_send
  /\ In C06_ex_evict03 (intrs C06_ex_send)
  /\ key_ltb (rkey (iby C06_ex_evict03)) (rkey (ivictim C06_ex_evict03)) = true /\ rpre (iby C06_ex_evict03) = true
  /\ intr_fields C06_ex_evict03 = (0, 3, Some 0%Z).
Proof.
  assert (Hr : run KPreempt 2 (init 0%Z) C06_ex_hist = Some C06_ex_send) by (vm_compute; reflexivity).
  assert (Hi : In C06_ex_evict03 (intrs C06_ex_send)) by (left; reflexivity).
  split; [exact C06_cap_ok|]. split; [exact Hr|]. split; [exact Hi|].
  destruct (evictions_strict _ _ _ _ _ _ C06_cap_ok Hr Hi) as [H1 H2].
  split; [exact H1|]. split; [exact H2|reflexivity].
Qed.
Print Assumptions C06_ex_evictions_strict.

(* ---- hypotheses `1 <= cap`, `k <> KPreempt`, `run … = Some s` ---------------------------------------------------------
   covers C06_only_preemptive_evicts (and once more C06_users_le_capacity / C06_queue_sorted for the other two kinds).
   The same five requests on a PriorityResource: request 3 (prio 1, preempt flag ignored) goes to the head of the
   queue but evicts nobody; after request 1 is released at t = 2 it is request 3 that is granted.  On a plain Resource
   the queue is in arrival order and request 2 is granted. *)
Definition C06_ex_hist_np : list action :=
  [ ARequest 0 5%Z false; ARequest 1 3%Z false; ARequest 2 4%Z false; ARequest 3 1%Z true; ARequest 4 4%Z false;
    AProcess (EReq 0); AProcess (EReq 1); AAdvance 2%Z; ARelease 1; AProcess (ERel 5) ].

Theorem C06_ex_only_preemptive_evicts :
  exists sp sr,
  1 <= 2
  /\ KPrio <> KPreempt /\ KRes <> KPreempt
  /\ run KPrio 2 (init 0%Z) C06_ex_hist_np = Some sp
  /\ run KRes 2 (init 0%Z) C06_ex_hist_np = Some sr
  /\ intrs sp = [] /\ intrs sr = []
  /\ map rid (users sp) = [0; 3] /\ map rid (queue sp) = [2; 4]
  /\ map rid (users sr) = [0; 2] /\ map rid (queue sr) = [3; 4].
Proof.
  eexists. eexists. split; [exact C06_cap_ok|]. split; [discriminate|]. split; [discriminate|].
  split; [vm_compute; reflexivity|]. split; [vm_compute; reflexivity|]. repeat split.
Qed.
Print Assumptions C06_ex_only_preemptive_evicts.
