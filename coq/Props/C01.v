(* C01 -- events take effect in time order, urgent first, then in trigger order.
   Statements only; proofs in Kernel/Order.v. *)
From Coq Require Import ZArith QArith List.
From ONL Require Import Kernel.Model Kernel.Script.
