(* C01 -- events take effect in time order, urgent first, then in trigger order.
   Only statements, each closed by the lemma of Kernel/Order.v that proves it, and its assumptions.
   All statements are about the executable kernel model Kernel/Model.v ([step], [run], [do_call], [schedule]),
   for every code table [codes] (all process automata, any number of processes) and every execution.
   [exec codes s l s']: a sequence of kernel transitions (a [step] popping entry m is labelled [Some m]; module-level
   API calls and the prelude of run() are labelled [None]); [C01_run_is_execution] etc. show that [run], [step] and
   module-level code only perform such executions.  [good]: the agenda invariant + the priority-class invariant. *)
From Coq Require Import ZArith QArith List.
From ONL Require Import Kernel.Model Kernel.Keys Kernel.Inv Kernel.Order.
Import ListNotations.

(* run / step / module-level code are executions; the initial state is good and goodness is preserved *)
Theorem C01_run_is_execution : forall fuel codes u s s' r,
  run fuel codes u s = (s', r) -> exists l, exec codes s l s'.
Proof. exact run_exec. Qed.
Print Assumptions C01_run_is_execution.

Theorem C01_step_is_execution : forall fuel codes s s' r,
  step fuel codes s = (s', r) -> exists l, exec codes s l s'.
Proof. exact step_exec. Qed.
Print Assumptions C01_step_is_execution.

Theorem C01_module_code_is_execution : forall (A : Type) codes (f : frag A) s s' r,
  run_frag codes f s = (s', r) -> exists l, exec codes s l s'.
Proof. exact @run_frag_exec. Qed.
Print Assumptions C01_module_code_is_execution.

Theorem C01_good_init : forall t0, good (init_state t0).
Proof. exact good_init. Qed.
Print Assumptions C01_good_init.

Theorem C01_good_preserved : forall codes s l s', good s -> exec codes s l s' -> good s'.
Proof. exact exec_good. Qed.
Print Assumptions C01_good_preserved.

(* agenda invariant in every reachable state: nothing pending lies in the past, insertion ids come from the
   counter, ids are pairwise distinct, hence any two pending entries are strictly ordered by their keys *)
Theorem C01_agenda_invariant : forall codes t0 l s,
  exec codes (init_state t0) l s ->
  (forall x, In x (agenda s) -> now s <= e_time x) /\
  (forall x, In x (agenda s) -> (e_eid x < next_eid s)%nat) /\
  NoDup (map e_eid (agenda s)) /\
  (forall x y, In x (agenda s) -> In y (agenda s) -> x <> y -> key_lt x y \/ key_lt y x).
Proof. exact agenda_invariant. Qed.
Print Assumptions C01_agenda_invariant.

(* simulated time never decreases *)
Theorem C01_now_monotone : forall codes s l1 s1 l2 s2,
  good s -> exec codes s l1 s1 -> exec codes s1 l2 s2 -> now s1 <= now s2.
Proof. exact now_monotone. Qed.
Print Assumptions C01_now_monotone.

Theorem C01_run_now_monotone : forall fuel codes u s s' r,
  good s -> run fuel codes u s = (s', r) -> now s <= now s' /\ good s'.
Proof. exact run_now_monotone. Qed.
Print Assumptions C01_run_now_monotone.

Theorem C01_step_now_monotone : forall fuel codes s s' r,
  good s -> step fuel codes s = (s', r) -> now s <= now s' /\ good s'.
Proof. exact step_now_monotone. Qed.
Print Assumptions C01_step_now_monotone.

(* schedule inserts at exactly now + delay *)
Theorem C01_schedule_inserts : forall e pr d s,
  exists x, agenda (schedule e pr d s) = agenda s ++ [x] /\
            e_time x == now s + d /\ e_prio x = pr /\ e_eid x = next_eid s /\ e_ev x = e /\
            next_eid (schedule e pr d s) = S (next_eid s) /\ now (schedule e pr d s) = now s.
Proof. exact schedule_inserts. Qed.
Print Assumptions C01_schedule_inserts.

(* whatever is pending takes effect -- if at all -- in a step that sets the clock to exactly its time, and while
   it is pending the clock has not passed that time: never earlier, never later *)
Theorem C01_takes_effect_exactly : forall codes s x l s',
  good s -> In x (agenda s) -> exec codes s l s' ->
  (In x (agenda s') /\ now s' <= e_time x) \/
  (exists l1 l2 sa sb, l = l1 ++ Some x :: l2 /\ exec codes s l1 sa /\ In x (agenda sa) /\
                       ktrans codes sa (Some x) sb /\ now sb = e_time x /\ exec codes sb l2 s').
Proof. exact pending_takes_effect_exactly. Qed.
Print Assumptions C01_takes_effect_exactly.

(* a timeout created at t0 with delay d >= 0 is due at t0 + d and takes effect in a step with now == t0 + d *)
Theorem C01_timeout_takes_effect_exactly : forall codes s d v s1 e l s',
  good s -> do_call codes (CTimeout d v) s = (s1, Ok (VEv e)) -> exec codes s1 l s' ->
  0 <= d /\
  exists x, e_ev x = e /\ e_prio x = NORMAL /\ e_eid x = next_eid s /\ e_time x == now s + d /\
            agenda s1 = agenda s ++ [x] /\
    ((In x (agenda s') /\ now s' <= now s + d) \/
     (exists l1 l2 sa sb, l = l1 ++ Some x :: l2 /\ exec codes s1 l1 sa /\ ktrans codes sa (Some x) sb /\
                          now sb == now s + d /\ exec codes sb l2 s')).
Proof. exact timeout_takes_effect_exactly. Qed.
Print Assumptions C01_timeout_takes_effect_exactly.

(* when a step advances the clock, nothing pending before or after it is due earlier than the new time *)
Theorem C01_nothing_skipped : forall codes s m s',
  good s -> ktrans codes s (Some m) s' ->
  now s' = e_time m /\ now s <= now s' /\
  (forall x, In x (agenda s) -> e_time m <= e_time x) /\
  (forall x, In x (agenda s') -> now s' <= e_time x).
Proof. exact nothing_skipped. Qed.
Print Assumptions C01_nothing_skipped.

(* run() returning normally has processed everything *)
Theorem C01_run_all_drains : forall fuel codes s s', run fuel codes UNone s = (s', ROk) -> agenda s' = [].
Proof. exact run_all_drains. Qed.
Print Assumptions C01_run_all_drains.

(* pop order = key order among simultaneously pending entries *)
Theorem C01_pop_order : forall codes s l1 a l2 s' b,
  good s -> exec codes s (l1 ++ Some a :: l2) s' ->
  In b (agenda s) -> ~ In (Some b) l1 -> b <> a -> key_lt a b.
Proof. exact pop_order. Qed.
Print Assumptions C01_pop_order.

(* same instant, same class: processed in trigger (insertion) order, wherever they were inserted *)
Theorem C01_same_class_fifo : forall codes s l1 b l2 s' a,
  good s -> exec codes s (l1 ++ Some b :: l2) s' -> In (Some a) (l1 ++ Some b :: l2) ->
  e_time a == e_time b -> e_prio a = e_prio b -> (e_eid a < e_eid b)%nat ->
  In (Some a) l1.
Proof. exact same_class_fifo. Qed.
Print Assumptions C01_same_class_fifo.

(* urgent before normal at one instant *)
Theorem C01_urgent_first : forall codes s a b l1 l2 s',
  good s -> In a (agenda s) -> In b (agenda s) ->
  e_time a == e_time b -> (e_prio a < e_prio b)%nat ->
  exec codes s (l1 ++ Some b :: l2) s' -> In (Some a) l1.
Proof. exact urgent_first. Qed.
Print Assumptions C01_urgent_first.

(* Initialize, Interruption and the numeric-until sentinel are URGENT, everything else NORMAL *)
Theorem C01_priority_classes : forall codes t0 l s x,
  exec codes (init_state t0) l s -> In x (agenda s) ->
  exists ev, nth_error (events s) (e_ev x) = Some ev /\
             (urgent_kind (kind ev) -> e_prio x = URGENT) /\ (~ urgent_kind (kind ev) -> e_prio x = NORMAL).
Proof. exact priority_classes. Qed.
Print Assumptions C01_priority_classes.

Theorem C01_initialize_urgent : forall codes code arg s pr,
  nth_error codes code = Some pr ->
  let s' := fst (call_spawn codes code arg s) in
  exists x ev, agenda s' = agenda s ++ [x] /\ e_prio x = URGENT /\ e_time x == now s /\ e_eid x = next_eid s /\
               nth_error (events s') (e_ev x) = Some ev /\ kind ev = KInit (length (procs s)).
Proof. exact spawn_schedules_initialize_urgent. Qed.
Print Assumptions C01_initialize_urgent.

Theorem C01_interruption_urgent : forall e cause s s',
  call_interrupt e cause s = (s', Ok VNone) ->
  exists x ev p, agenda s' = agenda s ++ [x] /\ e_prio x = URGENT /\ e_time x == now s /\ e_eid x = next_eid s /\
                 nth_error (events s') (e_ev x) = Some ev /\ kind ev = KInterruption p.
Proof. exact interrupt_schedules_urgent. Qed.
Print Assumptions C01_interruption_urgent.

Theorem C01_until_sentinel_urgent : forall t s s1,
  run_prelude (UNum t) s = inr s1 ->
  now s < t /\
  exists x ev, agenda s1 = agenda s ++ [x] /\ e_prio x = URGENT /\ e_time x == t /\ e_eid x = next_eid s /\
               nth_error (events s1) (e_ev x) = Some ev /\ kind ev = KSentinel.
Proof. exact until_sentinel_urgent. Qed.
Print Assumptions C01_until_sentinel_urgent.

Theorem C01_trigger_normal : forall e o s,
  exists x, agenda (trigger_event e o s) = agenda s ++ [x] /\ e_prio x = NORMAL /\ e_time x == now s /\
            e_eid x = next_eid s /\ e_ev x = e.
Proof. exact trigger_schedules_normal. Qed.
Print Assumptions C01_trigger_normal.

(* a negative delay is refused with ValueError and the state is unchanged; any other delay is accepted *)
Theorem C01_negative_delay_refused : forall codes d v s,
  d < 0 -> do_call codes (CTimeout d v) s = (s, Fail (kexn EValue M_negative_delay)).
Proof. exact negative_delay_refused. Qed.
Print Assumptions C01_negative_delay_refused.

Theorem C01_nonnegative_delay_accepted : forall codes d v s,
  0 <= d -> exists e s', do_call codes (CTimeout d v) s = (s', Ok (VEv e)).
Proof. exact nonnegative_delay_accepted. Qed.
Print Assumptions C01_nonnegative_delay_accepted.
