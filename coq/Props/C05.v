(* C05 -- condition events fire exactly when their predicate first holds, with exact value.
   Statements only; proofs in Kernel/Cond.v (executions as sequences of primitives), Kernel/CondInv.v (invariants)
   and Kernel/CondProofs.v (theorems).

   Vocabulary (all defined in those files, about the definitions of Kernel/Model.v):
     reach codes X s     s is a state of SOME execution of the program [codes] (any code table of process automata, any
                         module-level code, any sequence of run()/step() calls, any fuel), INCLUDING the states in the
                         middle of a step; X lists the events that received an explicit succeed()/fail() from program text.
     creach codes X s    the same, restricted to step boundaries of executions in which no exception escaped from the
                         middle of a callback loop (DESIGN section 4, hypothesis (ii)); [clean_step] is one such step.
     cinv X s            the state invariant: agenda entries are triggered; operands are older than their condition;
                         processed => triggered; where _check/_build_value callbacks sit (a _check of c only on operands of
                         c, at most once per operand position; _build_value first in the callback list of its condition);
                         a pending condition's predicate is false; a triggered condition not in X is justified.
     procpos s ops       number of operand positions whose event is processed (callbacks = None) in s.
     detached s c        some condition that has c (transitively) as an operand has been processed: Condition.
                         _remove_check_callbacks is recursive and has then unsubscribed c from its operands (finding
                         "nested-cond-detached", C05_all_of_refuted_when_detached).
     kproc ev            ev is a Process event (its outcome may be overwritten when program text calls succeed()/fail() on
                         a live process; the exactness of the forwarded exception excepts that misuse).
     leaves evs ops l    l = the processed leaves of the operand tree ops, left to right, nested conditions flattened, each
                         with its value -- the specification of Condition._populate_value. *)
From Coq Require Import ZArith QArith List Bool.
From ONL Require Import Kernel.Model Kernel.Cond Kernel.CondInv Kernel.CondProofs.
Import ListNotations.

(* ---- the execution relations cover every execution of the model ---- *)

Theorem C05_executions_covered :
  forall codes X s, reach codes X s ->
    (forall A (f : frag A), exists X', reach codes (X ++ X') (fst (exec_top codes f s))) /\
    (forall fuel s' r, step fuel codes s = (s', r) -> exists X', reach codes (X ++ X') s') /\
    (forall fuel u, exists X', reach codes (X ++ X') (fst (run fuel codes u s))).
Proof.
  intros codes X s R. split; [intros A f; apply reach_exec_top, R|]. split; [intros fuel s' r; apply reach_step, R|intros fuel u; apply reach_run, R].
Qed.
Print Assumptions C05_executions_covered.

Theorem C05_clean_executions_covered :
  forall codes X s, creach codes X s ->
    reach codes X s /\
    (forall A (f : frag A), exists X', creach codes (X ++ X') (fst (exec_top codes f s))) /\
    (forall u s1, run_prelude u s = inr s1 -> exists X', creach codes (X ++ X') s1) /\
    (forall fuel s', step fuel codes s = (s', ROk) -> exists X', creach codes (X ++ X') s') /\
    (forall fuel s' e, clean_step fuel codes s s' e -> exists X', creach codes (X ++ X') s').
Proof.
  intros codes X s C. split; [apply creach_reach, C|]. split; [intros A f; apply creach_exec_top, C|].
  split; [intros u s1; apply creach_prelude, C|]. split; [intros fuel s'; apply creach_step_ok, C|intros fuel s' e; apply creach_step, C].
Qed.
Print Assumptions C05_clean_executions_covered.

(* ---- invariants ---- *)

Theorem C05_invariant : forall codes X s, reach codes X s -> cinv X s.
Proof. exact reach_cinv. Qed.
Print Assumptions C05_invariant.

Theorem C05_count_le_operands :
  forall codes X s c cev all ops n, creach codes X s -> get_event c s = Some cev -> kind cev = KCond all ops n ->
    (n <= procpos s ops)%nat /\ (procpos s ops <= length ops)%nat.
Proof. exact cond_count_le. Qed.
Print Assumptions C05_count_le_operands.

Theorem C05_pending_boundary :
  forall codes X s c cev all ops n,
    creach codes X s -> get_event c s = Some cev -> kind cev = KCond all ops n -> out cev = None -> ~ detached s c ->
    n = procpos s ops /\ cond_evaluate all (length ops) n = false /\ attached s c ops /\
    (forall o oev, In o ops -> get_event o s = Some oev -> cbs oev = None -> is_failed oev = true -> kproc oev).
Proof. exact cond_pending_boundary. Qed.
Print Assumptions C05_pending_boundary.

(* ---- cond_triggers_when: at construction ---- *)

Theorem C05_trigger_at_construction :
  forall codes X all es s, reach codes X s -> all_valid es s = true ->
    let s' := fst (call_cond all es s) in
    snd (call_cond all es s) = Ok (VEv (length (events s))) /\ cond_made s s' all es /\ cinv X s'.
Proof. exact cond_construction. Qed.
Print Assumptions C05_trigger_at_construction.

Theorem C05_empty_operands_immediate :
  forall all s, let s' := fst (call_cond all [] s) in
    get_event (length (events s)) s' = Some (mkEvent (Some []) (Some (Ok (VCond []))) false (KCond all [] 0)) /\
    agenda s' = agenda s ++ [mkEntry (Qred (now s + 0)) NORMAL (next_eid s) (length (events s))].
Proof. exact cond_empty_immediate. Qed.
Print Assumptions C05_empty_operands_immediate.

Theorem C05_any_of_at_construction :
  forall es s cev n, all_valid es s = true -> es <> [] ->
    get_event (length (events s)) (fst (call_cond false es s)) = Some cev -> kind cev = KCond false es n ->
    (out cev = None <-> procpos s es = 0%nat).
Proof. exact any_of_at_construction. Qed.
Print Assumptions C05_any_of_at_construction.

Theorem C05_all_of_at_construction :
  forall es s cev n, all_valid es s = true ->
    get_event (length (events s)) (fst (call_cond true es s)) = Some cev -> kind cev = KCond true es n ->
    (out cev = None -> (procpos s es < length es)%nat) /\
    ((exists v, out cev = Some (Ok v)) -> procpos s es = length es) /\
    (forall x, out cev = Some (Fail x) ->
       exists o oev, In o es /\ get_event o s = Some oev /\ cbs oev = None /\ out oev = Some (Fail x)).
Proof. exact all_of_at_construction. Qed.
Print Assumptions C05_all_of_at_construction.

Theorem C05_construction_refused :
  forall codes all es s, all_valid es s = false ->
    call_cond all es s = (s, Fail (kexn EAttribute M_not_an_event)) /\
    do_call codes (if all then CAllOf es else CAnyOf es) s = (s, Fail (kexn EAttribute M_not_an_event)).
Proof. exact cond_construction_refused. Qed.
Print Assumptions C05_construction_refused.

(* ---- cond_triggers_when / cond_fails_with_operand / nested: one completed step, seen from a pending condition ---- *)

Theorem C05_cond_step :
  forall codes X fuel s s' e c cev all ops n,
    creach codes X s -> clean_step fuel codes s s' e ->
    get_event c s = Some cev -> kind cev = KCond all ops n -> out cev = None -> ~ detached s c ->
    exists X', etrace codes X' s s' /\ creach codes (X ++ X') s' /\
      (forall o, is_proc s' o = true <-> (o = e \/ is_proc s o = true)) /\
      (~ In c (X ++ X') ->
       exists cev' n' eev', get_event c s' = Some cev' /\ kind cev' = KCond all ops n' /\ get_event e s' = Some eev' /\
         (n' <= procpos s' ops)%nat /\
         (~ In e ops -> out cev' = None) /\
         (In e ops ->
            (out cev' = None /\ all = true /\ n' = procpos s' ops /\ cond_evaluate all (length ops) n' = false /\
               (is_failed eev' = false \/ kproc eev')) \/
            (exists x, out cev' = Some (Fail x) /\ defused eev' = true /\ (out eev' = Some (Fail x) \/ kproc eev')) \/
            (out cev' = Some (Ok VNone) /\ cond_evaluate all (length ops) n' = true /\ (is_failed eev' = false \/ kproc eev')))).
Proof. exact cond_step. Qed.
Print Assumptions C05_cond_step.

Theorem C05_never_earlier :
  forall codes X fuel s s' e c cev all ops n,
    creach codes X s -> clean_step fuel codes s s' e ->
    get_event c s = Some cev -> kind cev = KCond all ops n -> out cev = None -> ~ detached s c -> ~ In e ops ->
    exists X', etrace codes X' s s' /\
      (~ In c (X ++ X') -> exists cev' n', get_event c s' = Some cev' /\ kind cev' = KCond all ops n' /\ out cev' = None).
Proof. exact cond_not_earlier. Qed.
Print Assumptions C05_never_earlier.

Theorem C05_any_of_first :
  forall codes X fuel s s' e c cev ops n,
    creach codes X s -> clean_step fuel codes s s' e ->
    get_event c s = Some cev -> kind cev = KCond false ops n -> out cev = None -> ~ detached s c -> In e ops ->
    procpos s ops = 0%nat /\
    exists X', etrace codes X' s s' /\
      (~ In c (X ++ X') ->
       exists cev' n' eev', get_event c s' = Some cev' /\ kind cev' = KCond false ops n' /\ get_event e s' = Some eev' /\
         ((exists x, out cev' = Some (Fail x) /\ defused eev' = true /\ (out eev' = Some (Fail x) \/ kproc eev')) \/
          (out cev' = Some (Ok VNone) /\ (is_failed eev' = false \/ kproc eev')))).
Proof. exact any_of_first. Qed.
Print Assumptions C05_any_of_first.

Theorem C05_all_of_last :
  forall codes X fuel s s' e c cev ops n,
    creach codes X s -> clean_step fuel codes s s' e ->
    get_event c s = Some cev -> kind cev = KCond true ops n -> out cev = None -> ~ detached s c -> In e ops ->
    (procpos s ops < length ops)%nat /\
    exists X', etrace codes X' s s' /\
      (~ In c (X ++ X') ->
       exists cev' n' eev', get_event c s' = Some cev' /\ kind cev' = KCond true ops n' /\ get_event e s' = Some eev' /\
         ((out cev' = None /\ (procpos s' ops < length ops)%nat /\ (is_failed eev' = false \/ kproc eev')) \/
          (exists x, out cev' = Some (Fail x) /\ defused eev' = true /\ (out eev' = Some (Fail x) \/ kproc eev')) \/
          (out cev' = Some (Ok VNone) /\ (forall o, In o ops -> o = e \/ is_proc s o = true) /\
             (is_failed eev' = false \/ kproc eev')))).
Proof. exact all_of_last. Qed.
Print Assumptions C05_all_of_last.

(* ---- cond_fails_with_operand, _check in isolation ---- *)

Theorem C05_check_fails_with_operand :
  forall c o s cev oev all ops n x,
    get_event c s = Some cev -> kind cev = KCond all ops n -> out cev = None ->
    get_event o s = Some oev -> out oev = Some (Fail x) -> c <> o ->
    let s' := cond_check c o s in
    (exists cev', get_event c s' = Some cev' /\ out cev' = Some (Fail x) /\ kind cev' = KCond all ops (S n)) /\
    (exists oev', get_event o s' = Some oev' /\ defused oev' = true /\ out oev' = Some (Fail x)) /\
    agenda s' = agenda s ++ [mkEntry (Qred (now s + 0)) NORMAL (next_eid s) c].
Proof. exact check_fails_with_operand. Qed.
Print Assumptions C05_check_fails_with_operand.

Theorem C05_check_succeeds_when :
  forall c o s cev oev all ops n,
    get_event c s = Some cev -> kind cev = KCond all ops n -> out cev = None ->
    get_event o s = Some oev -> is_failed oev = false -> c <> o ->
    let s' := cond_check c o s in
    exists cev', get_event c s' = Some cev' /\ kind cev' = KCond all ops (S n) /\
      out cev' = (if cond_evaluate all (length ops) (S n) then Some (Ok VNone) else None) /\
      (forall a, a <> c -> get_event a s' = get_event a s).
Proof. exact check_succeeds_when. Qed.
Print Assumptions C05_check_succeeds_when.

(* ---- cond_value_exact ---- *)

Theorem C05_value_exact :
  forall codes X fuel s s' c cev all ops n v0,
    creach codes X s -> clean_step fuel codes s s' c ->
    get_event c s = Some cev -> kind cev = KCond all ops n -> ops <> [] -> out cev = Some (Ok v0) ->
    exists items cev', leaves (events s) ops items /\ get_event c s' = Some cev' /\ out cev' = Some (Ok (VCond items)).
Proof. exact cond_value_exact. Qed.
Print Assumptions C05_value_exact.

Theorem C05_value_unique :
  forall evs ops items, leaves evs ops items -> forall items', leaves evs ops items' -> items = items'.
Proof. exact leaves_fun. Qed.
Print Assumptions C05_value_unique.

(* ---- late_operands_ignored ---- *)

Theorem C05_late_check_ignored :
  forall c o s cev, get_event c s = Some cev -> out cev <> None -> cond_check c o s = s.
Proof. exact late_check_ignored. Qed.
Print Assumptions C05_late_check_ignored.

Theorem C05_late_failure_surfaces :
  forall fuel codes s m rest ev l x,
    pop_min (agenda s) = Some (m, rest) -> get_event (e_ev m) s = Some ev -> cbs ev = Some l ->
    out ev = Some (Fail x) -> defused ev = false -> (forall c, In c l -> late_cb s c) ->
    exists s', step fuel codes s = (s', RRaise x) /\
               get_event (e_ev m) s' = Some (ev_set_cbs None ev) /\ agenda s' = rest.
Proof. exact late_failure_surfaces. Qed.
Print Assumptions C05_late_failure_surfaces.

(* ---- triggered once ---- *)

Theorem C05_outcome_final :
  forall X s s' c cev, ptrace X s s' -> get_event c s = Some cev -> is_cond cev = true ->
    exists cev', get_event c s' = Some cev' /\ is_cond cev' = true /\ final_out (out cev) (out cev').
Proof. exact cond_outcome_final. Qed.
Print Assumptions C05_outcome_final.

(* ---- nested conditions: the hypothesis "not detached" is necessary (finding nested-cond-detached) ---- *)

Theorem C05_all_of_refuted_when_detached :
  exists (codes : list prog) X s c cev ops n,
    creach codes X s /\ get_event c s = Some cev /\ kind cev = KCond true ops n /\ out cev = None /\
    (forall o, In o ops -> is_proc s o = true) /\ agenda s = [] /\ detached s c.
Proof. exact all_of_refuted_when_detached. Qed.
Print Assumptions C05_all_of_refuted_when_detached.

(* ---- the model's internal-error result is not reached by _build_value ---- *)

Theorem C05_build_value_never_broken :
  forall codes X s c cev, reach codes X s -> get_event c s = Some cev -> is_cond cev = true -> out cev <> None ->
    snd (cond_build c s) = ROk.
Proof. intros codes X s c cev R. apply (cond_build_ok X s c cev), (reach_cinv _ _ _ R). Qed.
Print Assumptions C05_build_value_never_broken.
