(* C08 (conservation), share of WFQ and VirtualClock -- NON-VACUITY of Props/C08_WFQ.v.
   Witnesses (Elem/WFQInst.v, ex_wcfg / ex_wacts and ex_vcfg / ex_vacts: executions observed on the real code, corpus/C14): WFQ with
   two classes, a 1536-byte and two 96-byte packets at 0 (the small packet of class 1 overtakes); VirtualClock with four flows and four
   equal stamps.  The states and traces are named by projection out of the computed run (fx_s n, fx_tr n = after the first n actions)
   so that they are never printed in normal form.
     C08_ex_wfq_run      covers C08_wfq_conserves, C08_wfq_flow_fifo, C08_wfq_never_raises (wcfg_ok, wadm, admissible execution,
                         reachable state; stopped after 14 actions: one forwarded, one in transmission, one queued)
     C08_ex_wfq_drained  covers C08_wfq_drained (nothing urgent, no transmission pending: the complete execution)
     C08_ex_vc_run       covers C08_vc_conserves, C08_vc_flow_fifo, C08_vc_never_raises
     C08_ex_vc_drained   covers C08_vc_drained
   No theorem of Props/C08_WFQ.v is unconditional.
   The conclusions are obtained by applying the theorem to the witness.  Statement files are compiled independently (and in
   parallel) by the pipeline, so one statement file cannot import another: [C08_x] below is a LOCAL abbreviation of the proof
   term that closes theorem C08_x in Props/C08_WFQ.v (there: `Proof. exact <that term>. Qed.`), hence has the same statement.
   Helper facts are stated with `Fact` (they are not obligations); every `Theorem` is a witness and is followed by
   Print Assumptions. *)
From Coq Require Import ZArith QArith List Bool Permutation.
From ONL Require Import Elem.Packet Elem.StoreQ Elem.WFQServer Elem.WFQServerProofs Elem.WFQServerTrace Elem.WFQ Elem.WFQProofs
  Elem.VC Elem.VCProofs Elem.WFQInst.
Import ListNotations.

Local Notation C08_wfq_conserves := wfq_conserves.
Local Notation C08_vc_conserves := vc_conserves.
Local Notation C08_wfq_flow_fifo := wfq_flow_fifo.
Local Notation C08_vc_flow_fifo := vc_flow_fifo.
Local Notation C08_wfq_drained := wfq_drained.
Local Notation C08_vc_drained := vc_drained.
Local Notation C08_wfq_never_raises := wfq_never_raises.
Local Notation C08_vc_never_raises := vc_never_raises.

Fact fx_wadm n : wadm ex_wcfg (firstn n ex_wacts).
Proof. intros p Hp. apply ex_wadm. rewrite <- (firstn_skipn n ex_wacts). apply in_or_app. left. exact Hp. Qed.
Fact fx_vadm n : vadm ex_vcfg (firstn n ex_vacts).
Proof. intros p Hp. apply ex_vadm. rewrite <- (firstn_skipn n ex_vacts). apply in_or_app. left. exact Hp. Qed.

Fact vc_run_reach' cfg acts s' tr : vadm cfg acts -> vc_run cfg (vc0 cfg) acts = Some (s', tr) -> vreach cfg s'.
Proof. intros C H. eapply run_reach; [apply reach0|exact C|exact H]. Qed.

Definition fx_run (n : nat) := wfq_run ex_wcfg (wfq0 ex_wcfg) (firstn n ex_wacts).
Definition fx_s (n : nat) : wfq ex_wcfg := match fx_run n with Some (s, _) => s | None => wfq0 ex_wcfg end.
Definition fx_tr (n : nat) : list (tev (WS ex_wcfg)) := match fx_run n with Some (_, tr) => tr | None => [] end.
Definition vx_run (n : nat) := vc_run ex_vcfg (vc0 ex_vcfg) (firstn n ex_vacts).
Definition vx_s (n : nat) : vc ex_vcfg := match vx_run n with Some (s, _) => s | None => vc0 ex_vcfg end.
Definition vx_tr (n : nat) : list (tev (VS ex_vcfg)) := match vx_run n with Some (_, tr) => tr | None => [] end.

Strategy expand [fx_run vx_run].
Fact some_proj {A B : Type} (r : option (A * B)) (a : A) (b : B) :
  (match r with Some _ => true | None => false end) = true ->
  r = Some (match r with Some (s, _) => s | None => a end, match r with Some (_, t) => t | None => b end).
Proof. destruct r as [[s t]|]; [reflexivity|discriminate]. Qed.

Ltac by_proj := unfold fx_s, fx_tr, vx_s, vx_tr; apply some_proj; vm_compute; reflexivity.
Fact fx_mid0 : fx_run 14 = Some (fx_s 14, fx_tr 14). Proof. by_proj. Qed.
Fact fx_end0 : fx_run 22 = Some (fx_s 22, fx_tr 22). Proof. by_proj. Qed.
Fact vx_mid0 : vx_run 16 = Some (vx_s 16, vx_tr 16). Proof. by_proj. Qed.
Fact vx_end0 : vx_run 29 = Some (vx_s 29, vx_tr 29). Proof. by_proj. Qed.
Fact fx_mid : wfq_run ex_wcfg (wfq0 ex_wcfg) (firstn 14 ex_wacts) = Some (fx_s 14, fx_tr 14).
Proof. exact fx_mid0. Qed.
Fact fx_end : wfq_run ex_wcfg (wfq0 ex_wcfg) ex_wacts = Some (fx_s 22, fx_tr 22).
Proof. exact fx_end0. Qed.
Fact vx_mid : vc_run ex_vcfg (vc0 ex_vcfg) (firstn 16 ex_vacts) = Some (vx_s 16, vx_tr 16).
Proof. exact vx_mid0. Qed.
Fact vx_end : vc_run ex_vcfg (vc0 ex_vcfg) ex_vacts = Some (vx_s 29, vx_tr 29).
Proof. exact vx_end0. Qed.

(* covers: C08_wfq_conserves, C08_wfq_flow_fifo, C08_wfq_never_raises *)
Theorem C08_ex_wfq_run :
  let s' := fx_s 14 in let tr := fx_tr 14 in
  wcfg_ok ex_wcfg /\ wadm ex_wcfg (firstn 14 ex_wacts) /\
    wfq_run ex_wcfg (wfq0 ex_wcfg) (firstn 14 ex_wacts) = Some (s', tr) /\
    puts (WS ex_wcfg) tr = [ex_p0; ex_p1; ex_p2] /\ fwds (WS ex_wcfg) tr = [ex_p1] /\ held (WS ex_wcfg) s' = [ex_p0; ex_p2] /\
    Permutation (puts (WS ex_wcfg) tr) (fwds (WS ex_wcfg) tr ++ held (WS ex_wcfg) s') /\
    (forall f, only f (fwds (WS ex_wcfg) tr) ++ only f (held (WS ex_wcfg) s') = only f (puts (WS ex_wcfg) tr)) /\
    only 0 (held (WS ex_wcfg) s') = [ex_p0; ex_p2] /\
    wreach ex_wcfg s' /\ (forall a, (forall p, a = FPut p -> wconf ex_wcfg p) -> wfq_act ex_wcfg s' a <> Raises).
Proof.
  cbv zeta. split; [exact ex_wcfg_ok|]. split; [exact (fx_wadm 14)|]. split; [exact fx_mid|].
  assert (HR : wreach ex_wcfg (fx_s 14)) by exact (wfq_run_reach ex_wcfg _ _ _ (fx_wadm 14) fx_mid).
  split; [vm_compute; reflexivity|]. split; [vm_compute; reflexivity|]. split; [vm_compute; reflexivity|].
  split; [exact (C08_wfq_conserves _ _ _ _ fx_mid)|].
  split; [exact (fun f => C08_wfq_flow_fifo _ ex_wcfg_ok _ _ _ f (fx_wadm 14) fx_mid)|].
  split; [vm_compute; reflexivity|]. split; [exact HR|].
  exact (fun a => C08_wfq_never_raises _ ex_wcfg_ok _ a HR).
Qed.
Print Assumptions C08_ex_wfq_run.

(* covers: C08_wfq_drained *)
Theorem C08_ex_wfq_drained :
  let s' := fx_s 22 in let tr := fx_tr 22 in
  wcfg_ok ex_wcfg /\ wadm ex_wcfg ex_wacts /\ wfq_run ex_wcfg (wfq0 ex_wcfg) ex_wacts = Some (s', tr) /\
    urgent s' = false /\ (forall e dl, chl s' <> CTx e dl) /\
    puts (WS ex_wcfg) tr = [ex_p0; ex_p1; ex_p2] /\ fwds (WS ex_wcfg) tr = [ex_p1; ex_p0; ex_p2] /\
    held (WS ex_wcfg) s' = [] /\ (forall f, qcount s' f = 0%Z /\ qbytes s' f = 0%Z).
Proof.
  cbv zeta. split; [exact ex_wcfg_ok|]. split; [exact ex_wadm|]. split; [exact fx_end|].
  assert (U : urgent (fx_s 22) = false) by (vm_compute; reflexivity).
  assert (N : forall e dl, chl (fx_s 22) <> CTx e dl) by (intros e dl; vm_compute; discriminate).
  split; [exact U|]. split; [exact N|]. split; [vm_compute; reflexivity|]. split; [vm_compute; reflexivity|].
  exact (C08_wfq_drained _ ex_wcfg_ok _ _ _ ex_wadm fx_end U N).
Qed.
Print Assumptions C08_ex_wfq_drained.

(* covers: C08_vc_conserves, C08_vc_flow_fifo, C08_vc_never_raises *)
Theorem C08_ex_vc_run :
  let s' := vx_s 16 in let tr := vx_tr 16 in
  vcfg_ok ex_vcfg /\ vadm ex_vcfg (firstn 16 ex_vacts) /\
    vc_run ex_vcfg (vc0 ex_vcfg) (firstn 16 ex_vacts) = Some (s', tr) /\
    puts (VS ex_vcfg) tr = [ex_q 0; ex_q 1; ex_q 2; ex_q 3] /\ fwds (VS ex_vcfg) tr = [ex_q 0] /\
    held (VS ex_vcfg) s' = [ex_q 1; ex_q 2; ex_q 3] /\
    Permutation (puts (VS ex_vcfg) tr) (fwds (VS ex_vcfg) tr ++ held (VS ex_vcfg) s') /\
    (forall f, only f (fwds (VS ex_vcfg) tr) ++ only f (held (VS ex_vcfg) s') = only f (puts (VS ex_vcfg) tr)) /\
    vreach ex_vcfg s' /\ (forall a, (forall p, a = FPut p -> vconf ex_vcfg p) -> vc_act ex_vcfg s' a <> Raises).
Proof.
  cbv zeta. split; [exact ex_vcfg_ok|]. split; [exact (fx_vadm 16)|]. split; [exact vx_mid|].
  assert (HR : vreach ex_vcfg (vx_s 16)) by exact (vc_run_reach' ex_vcfg _ _ _ (fx_vadm 16) vx_mid).
  split; [vm_compute; reflexivity|]. split; [vm_compute; reflexivity|]. split; [vm_compute; reflexivity|].
  split; [exact (C08_vc_conserves _ _ _ _ vx_mid)|].
  split; [exact (fun f => C08_vc_flow_fifo _ ex_vcfg_ok _ _ _ f (fx_vadm 16) vx_mid)|].
  split; [exact HR|].
  exact (fun a => C08_vc_never_raises _ ex_vcfg_ok _ a HR).
Qed.
Print Assumptions C08_ex_vc_run.

(* covers: C08_vc_drained *)
Theorem C08_ex_vc_drained :
  let s' := vx_s 29 in let tr := vx_tr 29 in
  vcfg_ok ex_vcfg /\ vadm ex_vcfg ex_vacts /\ vc_run ex_vcfg (vc0 ex_vcfg) ex_vacts = Some (s', tr) /\
    urgent s' = false /\ (forall e dl, chl s' <> CTx e dl) /\
    puts (VS ex_vcfg) tr = [ex_q 0; ex_q 1; ex_q 2; ex_q 3] /\ fwds (VS ex_vcfg) tr = [ex_q 0; ex_q 1; ex_q 2; ex_q 3] /\
    held (VS ex_vcfg) s' = [] /\ (forall f, qcount s' f = 0%Z /\ qbytes s' f = 0%Z).
Proof.
  cbv zeta. split; [exact ex_vcfg_ok|]. split; [exact ex_vadm|]. split; [exact vx_end|].
  assert (U : urgent (vx_s 29) = false) by (vm_compute; reflexivity).
  assert (N : forall e dl, chl (vx_s 29) <> CTx e dl) by (intros e dl; vm_compute; discriminate).
  split; [exact U|]. split; [exact N|]. split; [vm_compute; reflexivity|]. split; [vm_compute; reflexivity|].
  exact (C08_vc_drained _ ex_vcfg_ok _ _ _ ex_vadm vx_end U N).
Qed.
Print Assumptions C08_ex_vc_drained.
