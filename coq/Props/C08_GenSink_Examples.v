(* C08 -- generator law, sink books, abstract wiring -- NON-VACUITY of Props/C08_GenSink.v and Props/C08_Net.v
   (Props/C08_BridgeSink.v has one theorem, C08_gen_packetsink_put, which is unconditional).
     C08_ex_generator_law        covers C08_generator_law (admissible execution of the generator + nth_error premise: the SECOND
                                 emission, at 1 + (1/2 + 3)) and C08_generator_until_finish (admissible execution; the last firing
                                 is at 9/2 >= finish = 4 and draws nothing)
     C08_ex_network_conserves    covers C08_network_conserves: a three-node fan-out wiring with a drop at two nodes and a packet held
     C08_ex_network_quiescent    covers C08_network_quiescent: the same wiring later, nothing held
   Unconditional (no witness needed): C08_sink_books (for every delivery sequence), C08_gen_packetsink_put.
   Already witnesses of the three wiring hypotheses, for EVERY execution of a composite: C08_pipe_network_instance,
   C08_pipe_pipeline_network (Props/C08_Pipe.v).
   The conclusions are obtained by applying the theorem to the witness.  Statement files are compiled independently (and in
   parallel) by the pipeline, so one statement file cannot import another: [C08_x] below is a LOCAL abbreviation of the proof
   term that closes theorem C08_x in Props/C08_GenSink.v / Props/C08_Net.v (there: `Proof. exact <that term>. Qed.`), hence has the same statement.
   Helper facts are stated with `Fact` (they are not obligations); every `Theorem` is a witness and is followed by
   Print Assumptions. *)
From Coq Require Import ZArith QArith List Arith Lia.
From ONL Require Import Elem.Packet Elem.GenSink Elem.GenSinkProofs Elem.Network.
Import ListNotations.

Local Notation C08_generator_law := generator_law_nth.
Local Notation C08_generator_until_finish := gen_draw_iff.
Local Notation C08_network_conserves := network_conserves.
Local Notation C08_network_quiescent := network_quiescent.

Definition gx_c : gcfg := {| g_init := 1; g_finish := Some 4; g_flow := 7 |}.
Definition gx_acts : list gaction :=
  [GStart; GAdvance 1; GInitFire (Some (1#2)); GAdvance (3#2); GFire 100 (Some 3); GAdvance (9#2); GFire 200 None].

(* covers: C08_generator_law, C08_generator_until_finish *)
Theorem C08_ex_generator_law :
  exists g tr t ct, gen_run gx_c (gen0 0) gx_acts = Some (g, tr) /\
    nth_error (emissions tr) 1 = Some (t, (2%Z, 200%Z, ct, 7%Z)) /\
    adraws tr = [1 # 2; 3] /\ sdraws tr = [100%Z; 200%Z] /\
    t == 0 + g_init gx_c + qsum (firstn 2 (adraws tr)) /\ t == 9 # 2 /\ ct == t /\
    Forall (fun e => match e with
                     | (t, GInitFire a, _) | (t, GFire _ a, _) => (a <> None <-> before_finish gx_c t = true)
                     | _ => True
                     end) tr.
Proof.
  destruct (gen_run gx_c (gen0 0) gx_acts) as [[g tr]|] eqn:E; [|vm_compute in E; discriminate].
  pose proof (fun k t i s ct f => C08_generator_law gx_c 0 _ _ _ k t i s ct f E) as HL.
  pose proof (C08_generator_until_finish gx_c _ _ _ _ E) as HU.
  vm_compute in E. injection E as <- <-.
  eexists _, _, _, _. split; [reflexivity|]. split; [vm_compute; reflexivity|].
  split; [vm_compute; reflexivity|]. split; [vm_compute; reflexivity|].
  destruct (HL 1%nat _ _ _ _ _ eq_refl) as (H1 & H2 & _).
  split; [exact H1|]. split; [reflexivity|]. split; [exact H2|exact HU].
Qed.
Print Assumptions C08_ex_generator_law.

Local Close Scope Q_scope.
(* node 0 (a lossy classifier) gets uids 1..5 injected, drops 5, sends 1,3 to node 1 and 2,4 to node 2; node 1 has delivered 1
   and still holds 3; node 2 gets uid 6 injected as well, has delivered 2 and 6, dropped 4 *)
Definition nx_sel {A} (a b c d : A) (i : nat) : A := match i with 0 => a | 1 => b | 2 => c | _ => d end.
Definition nx_inp := nx_sel [1; 2; 3; 4; 5] [1; 3] [6; 2; 4] [].
Definition nx_fwd := nx_sel [1; 2; 3; 4] [1] [2; 6] [].
Definition nx_drp := nx_sel [5] [] [4] [].
Definition nx_held := nx_sel [] [3] [] ([] : list nat).
Definition nx_inj := nx_sel [1; 2; 3; 4; 5] [] [6] [].
Definition nx_tosink := nx_sel [] [1] [2; 6] [].
Definition nx_sent (i j : nat) : list nat := match i, j with 0, 1 => [1; 3] | 0, 2 => [2; 4] | _, _ => [] end.
(* the same network later: node 1 has delivered 3 too *)
Definition nq_fwd := nx_sel [1; 2; 3; 4] [1; 3] [2; 6] [].
Definition nq_held := nx_sel [] [] [] ([] : list nat).
Definition nq_tosink := nx_sel [] [1; 3] [2; 6] [].

Ltac nx_solve := intros i u Hi; destruct i as [|[|[|i]]]; [| | |lia]; cbv [cnt sum_n count_occ nx_sel nx_inp nx_fwd nx_drp nx_held nx_inj nx_tosink nx_sent nq_fwd nq_held nq_tosink];
  repeat (destruct (Nat.eq_dec _ u)); lia.

(* covers: C08_network_conserves *)
Theorem C08_ex_network_conserves :
  (forall i u, i < 3 -> cnt u (nx_inp i) = cnt u (nx_fwd i) + cnt u (nx_drp i) + cnt u (nx_held i)) /\
  (forall i u, i < 3 -> cnt u (nx_fwd i) = sum_n 3 (fun j => cnt u (nx_sent i j)) + cnt u (nx_tosink i)) /\
  (forall j u, j < 3 -> cnt u (nx_inp j) = cnt u (nx_inj j) + sum_n 3 (fun i => cnt u (nx_sent i j))) /\
  (forall u, sum_n 3 (fun j => cnt u (nx_inj j)) =
             sum_n 3 (fun i => cnt u (nx_tosink i)) + sum_n 3 (fun i => cnt u (nx_drp i)) + sum_n 3 (fun i => cnt u (nx_held i))) /\
  sum_n 3 (fun i => cnt 3 (nx_held i)) = 1 /\ sum_n 3 (fun i => cnt 4 (nx_drp i)) = 1 /\ sum_n 3 (fun i => cnt 6 (nx_tosink i)) = 1.
Proof.
  assert (H1 : forall i u, i < 3 -> cnt u (nx_inp i) = cnt u (nx_fwd i) + cnt u (nx_drp i) + cnt u (nx_held i)) by nx_solve.
  assert (H2 : forall i u, i < 3 -> cnt u (nx_fwd i) = sum_n 3 (fun j => cnt u (nx_sent i j)) + cnt u (nx_tosink i)) by nx_solve.
  assert (H3 : forall j u, j < 3 -> cnt u (nx_inp j) = cnt u (nx_inj j) + sum_n 3 (fun i => cnt u (nx_sent i j))) by nx_solve.
  split; [exact H1|]. split; [exact H2|]. split; [exact H3|].
  split; [exact (C08_network_conserves 3 _ _ _ _ _ _ _ H1 H2 H3)|]. repeat split; reflexivity.
Qed.
Print Assumptions C08_ex_network_conserves.

(* covers: C08_network_quiescent *)
Theorem C08_ex_network_quiescent :
  (forall i u, i < 3 -> cnt u (nx_inp i) = cnt u (nq_fwd i) + cnt u (nx_drp i) + cnt u (nq_held i)) /\
  (forall i u, i < 3 -> cnt u (nq_fwd i) = sum_n 3 (fun j => cnt u (nx_sent i j)) + cnt u (nq_tosink i)) /\
  (forall j u, j < 3 -> cnt u (nx_inp j) = cnt u (nx_inj j) + sum_n 3 (fun i => cnt u (nx_sent i j))) /\
  (forall i, i < 3 -> nq_held i = []) /\
  (forall u, sum_n 3 (fun j => cnt u (nx_inj j)) = sum_n 3 (fun i => cnt u (nq_tosink i)) + sum_n 3 (fun i => cnt u (nx_drp i))) /\
  sum_n 3 (fun i => cnt 3 (nq_tosink i)) = 1 /\ sum_n 3 (fun i => cnt 5 (nx_drp i)) = 1.
Proof.
  assert (H1 : forall i u, i < 3 -> cnt u (nx_inp i) = cnt u (nq_fwd i) + cnt u (nx_drp i) + cnt u (nq_held i)) by nx_solve.
  assert (H2 : forall i u, i < 3 -> cnt u (nq_fwd i) = sum_n 3 (fun j => cnt u (nx_sent i j)) + cnt u (nq_tosink i)) by nx_solve.
  assert (H3 : forall j u, j < 3 -> cnt u (nx_inp j) = cnt u (nx_inj j) + sum_n 3 (fun i => cnt u (nx_sent i j))) by nx_solve.
  assert (H4 : forall i, i < 3 -> nq_held i = []) by (intros i Hi; destruct i as [|[|[|i]]]; reflexivity).
  split; [exact H1|]. split; [exact H2|]. split; [exact H3|]. split; [exact H4|].
  split; [exact (C08_network_quiescent 3 _ _ _ _ _ _ _ H1 H2 H3 H4)|]. split; reflexivity.
Qed.
Print Assumptions C08_ex_network_quiescent.
