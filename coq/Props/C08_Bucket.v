(* C08, share of the token buckets.  Statements are added as the proofs land. *)
From ONL Require Import Elem.Bucket Elem.TwoRate.
