(* C08, share of TokenBucket and TwoRateTokenBucket: packets are never lost, duplicated or invented.
   Only statements, closed by the lemma that proves them, and their assumptions.  Packets are records with
   their object identity (uid) and identifying fields, so list equalities below are about the very packets. *)
From Coq Require Import ZArith QArith List.
From ONL Require Import Elem.Packet Elem.StoreQ Elem.Bucket Elem.BucketProofs Elem.TwoRate Elem.TwoRateProofs.
Import ListNotations.

(* put-in = forwarded ++ held (packet in service, then the store incl. a granted get), in order: nothing is
   dropped, duplicated or invented, and every forwarded packet is the very packet put in *)
Theorem C08_tb_conserves : forall c t0 acts s tr,
  0 < rate c -> tb_run c (tb0 true c t0) acts = Some (s, tr) ->
  map snd (puts tr) = map snd (fwds tr) ++ tb_held s.
Proof. exact tb_conserves. Qed.
Print Assumptions C08_tb_conserves.

Theorem C08_tb_counters : forall c t0 acts s tr,
  0 < rate c -> tb_run c (tb0 true c t0) acts = Some (s, tr) ->
  nrecv s = Z.of_nat (length (puts tr)) /\ nsent s = Z.of_nat (length (fwds tr)).
Proof. exact tb_counters. Qed.
Print Assumptions C08_tb_counters.

Theorem C08_tb_flow_fifo : forall c t0 acts s tr,
  0 < rate c -> tb_run c (tb0 true c t0) acts = Some (s, tr) ->
  forall f, exists rest, of_flow f (map snd (puts tr)) = of_flow f (map snd (fwds tr)) ++ rest.
Proof. exact tb_flow_fifo. Qed.
Print Assumptions C08_tb_flow_fifo.

(* nothing enabled but puts and the passing of time, no timeout pending => nothing held, all forwarded.
   (Sizes >= 0 and peak > 0: otherwise the kernel rejects the spacing timeout with ValueError.) *)
Theorem C08_tb_drained : forall c t0 acts s tr,
  0 < rate c -> tb_run c (tb0 true c t0) acts = Some (s, tr) ->
  (forall k, peak_on c = Some k -> 0 < k) -> Forall (fun x => 0 <= sz (snd x)) (puts tr) ->
  phase s = PIdle ->
  (forall a, (forall p, a <> TPut p) -> (forall t, a <> TAdvance t) -> tb_act c s a = None) ->
  tb_held s = [] /\ map snd (fwds tr) = map snd (puts tr).
Proof. exact tb_drained. Qed.
Print Assumptions C08_tb_drained.

(* a packet in service is never stuck: its timeout is pending, not passed, and when due the step is enabled *)
Theorem C08_tb_timer_enabled : forall c t0 acts s tr,
  0 < rate c -> tb_run c (tb0 true c t0) acts = Some (s, tr) ->
  (forall k, peak_on c = Some k -> 0 < k) -> Forall (fun x => 0 <= sz (snd x)) (puts tr) ->
  forall p dl, phase s = PTok p dl \/ phase s = PPeak p dl ->
    tnow s <= dl /\ (dl == tnow s -> exists s' o, tb_act c s TTimer = Some (s', o)).
Proof. exact tb_timer_enabled. Qed.
Print Assumptions C08_tb_timer_enabled.

Theorem C08_trtb_conserves : forall c t0 acts s tr,
  trwf c -> tr_run true true c (tr0 true c t0) acts = Some (s, tr) ->
  map snd (rputs tr) = map snd (rfwds tr) ++ tr_held s.
Proof. exact trtb_conserves. Qed.
Print Assumptions C08_trtb_conserves.

Theorem C08_trtb_counters : forall c t0 acts s tr,
  trwf c -> tr_run true true c (tr0 true c t0) acts = Some (s, tr) ->
  rrecv s = Z.of_nat (length (rputs tr)) /\ rsent s = Z.of_nat (length (rfwds tr)) /\
  length (rcols tr) = length (rfwds tr).
Proof. exact trtb_counters. Qed.
Print Assumptions C08_trtb_counters.

Theorem C08_trtb_flow_fifo : forall c t0 acts s tr,
  trwf c -> tr_run true true c (tr0 true c t0) acts = Some (s, tr) ->
  forall f, exists rest, of_flow f (map snd (rputs tr)) = of_flow f (map snd (rfwds tr)) ++ rest.
Proof. exact trtb_flow_fifo. Qed.
Print Assumptions C08_trtb_flow_fifo.

Theorem C08_trtb_drained : forall c t0 acts s tr,
  trwf c -> tr_run true true c (tr0 true c t0) acts = Some (s, tr) ->
  rphase_ s = RIdle ->
  (forall a, (forall p, a <> RPut p) -> (forall t, a <> RAdvance t) -> tr_act true true c s a = None) ->
  tr_held s = [] /\ map snd (rfwds tr) = map snd (rputs tr).
Proof. exact trtb_drained. Qed.
Print Assumptions C08_trtb_drained.

Theorem C08_trtb_timer_enabled : forall c t0 acts s tr,
  trwf c -> tr_run true true c (tr0 true c t0) acts = Some (s, tr) ->
  forall p dl, rphase_ s = RWaitPeak p dl \/ rphase_ s = RWaitCommit p dl ->
    rnow s <= dl /\ (dl == rnow s -> exists s' o, tr_act true true c s RTimer = Some (s', o)).
Proof. exact trtb_timer_enabled. Qed.
Print Assumptions C08_trtb_timer_enabled.
