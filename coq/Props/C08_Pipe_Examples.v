(* C08 -- "... and any pipeline built from them" -- NON-VACUITY of Props/C08_Pipe.v: for every theorem there that has hypotheses
   (an admissible execution of a composite, laws / timed / tagged of the parts, well-formed configurations, an admissible put ...)
   a concrete non-trivial instance that satisfies all of them at once, with the instantiated conclusion.
   Executions: the four of Elem/ComposeExample.v -- Port(1024 bit/s, 2 packets) >> Wire(1/2) >> TokenBucket(512 bit/s, 128 B), three
   packets, one refused by the port, one delayed by the bucket (seen as A >> B with A = the port, B = wire >> bucket; complete,
   stopped after 14 actions, and the remainder run from that NON-initial state); fan-in of two rate-0 ports into SP; fan-out
   Wire -> FlowDemux -> two ports with a flow that has no route -- and, for the adapters, the non-vacuity executions of the element
   models (Elem/*Proofs.v).  States and traces are named by projection out of the computed run (px_s n, px_tr n ...).
     C08_ex_pipe_compose        C08_pipe_compose_conserves, C08_pipe_series_conserves, C08_pipe_compose_flow_fifo,
                                C08_pipe_compose_drained, C08_pipe_network_instance
     C08_ex_pipe_compose_held   the same three conservation theorems with packets held in both stages
     C08_ex_pipe_projection     C08_pipe_projection, C08_pipe_series_clock, C08_pipe_hands        (from a non-initial state pair)
     C08_ex_pipe_pipeline       C08_pipe_series_laws, C08_pipe_pipeline_laws, C08_pipe_series_timed, C08_pipe_pipeline_timed,
                                C08_pipe_pipeline_tagged, C08_pipe_pipeline_network, C08_pipe_pipeline_views
     C08_ex_pipe_port_wire_tb   C08_pipe_port_wire_tb (incl. its inner premises: sizes >= 0, nothing urgent, no deadline)
     C08_ex_pipe_par            C08_pipe_par_projection, C08_pipe_par_tagged, C08_pipe_par_laws_by_flow
     C08_ex_pipe_fanin          C08_pipe_fanin_conserves, C08_pipe_fanin_flow_fifo (both disjuncts), C08_pipe_fanin_drained,
                                C08_pipe_fanin_hands
     C08_ex_pipe_demux          the inner premises (an admissible put) of C08_pipe_demux_elem and C08_pipe_demux_routes
     C08_ex_pipe_fanout         C08_pipe_fanout_laws (premises of its three implications), C08_pipe_fanout_conserves
     C08_ex_pipe_X_adapter      C08_pipe_X_adapter_exact for X = wire, port, tb, trtb, drr, mq, srv (WFQ), oport (REDPort with draws):
                                a model execution (+ no_draw / put_ok / draw_det), the interface execution the first half yields,
                                and the second half applied to it
     C08_ex_pipe_configs        the configuration premises of C08_pipe_tb_laws, C08_pipe_mq_laws, C08_pipe_sp_laws,
                                C08_pipe_rr_wrr_laws, C08_pipe_wfq_vc_laws, C08_pipe_drr_laws, C08_pipe_trtb_laws
   Unconditional (no witness needed): C08_pipe_adapters_tagged, C08_pipe_wire_laws, C08_pipe_port_laws, C08_pipe_oport_laws, the
   second conjunct of C08_pipe_demux_routes.  Already witnesses (computed executions): C08_pipe_example_run / _held / _sp / _fanin /
   _fanout / _views in Props/C08_Pipe.v.
   The conclusions are obtained by applying the theorem to the witness.  Statement files are compiled independently (and in
   parallel) by the pipeline, so one statement file cannot import another: [C08_x] below is a LOCAL abbreviation of the proof
   term that closes theorem C08_x in Props/C08_Pipe.v (there: `Proof. exact <that term>. Qed.`), hence has the same statement.
   Helper facts are stated with `Fact` (they are not obligations); every `Theorem` is a witness and is followed by
   Print Assumptions. *)
From Coq Require Import ZArith QArith List Bool Permutation Arith.
From ONL Require Import Elem.Packet Elem.StoreQ
  Elem.HeapList Elem.WFQServer Elem.WFQServerProofs Elem.WFQServerTrace Elem.WFQ Elem.WFQProofs Elem.VC Elem.VCProofs Elem.WFQInst
  Elem.DRR Elem.DRRInv Elem.DRRProofs Elem.DRRLive Elem.DRRExample Elem.TwoRate Elem.TwoRateProofs Elem.Red
  Elem.Wire Elem.WireProofs Elem.Port Elem.PortProofs Elem.Bucket Elem.BucketProofs Elem.SchedBase Elem.SchedBaseProofs Elem.SP Elem.SPProofs
  Route.Demux Route.DemuxProofs Elem.Network Elem.Iface Elem.Compose Elem.ComposePar Elem.ComposeHands Elem.AdaptWire Elem.AdaptPort Elem.AdaptBucket Elem.AdaptSched
  Elem.AdaptSrv Elem.AdaptDRR Elem.AdaptTwoRate Elem.AdaptRed Elem.AdaptTagged Elem.ComposeFan Elem.ComposeNet Elem.ComposeExample.
Import ListNotations.
Local Open Scope Q_scope.

Local Notation C08_pipe_projection := series_projection.
Local Notation C08_pipe_compose_conserves := compose_conserves.
Local Notation C08_pipe_series_conserves := series_conserves.
Local Notation C08_pipe_compose_flow_fifo := compose_flow_fifo.
Local Notation C08_pipe_compose_drained :=
  (fun A B CA DA DB acts s tr H Acc U Dl => app_eq_nil _ _ (compose_drained A B CA DA DB acts s tr H Acc U Dl)).
Local Notation C08_pipe_series_laws := series_laws.
Local Notation C08_pipe_pipeline_laws := pipeline_laws.
Local Notation C08_pipe_series_timed := series_timed.
Local Notation C08_pipe_series_clock := series_clock.
Local Notation C08_pipe_pipeline_timed := pipeline_timed.
Local Notation C08_pipe_hands := series_hands.
Local Notation C08_pipe_pipeline_tagged := pipeline_tagged.
Local Notation C08_pipe_adapters_tagged := (conj wire_elem_tagged (conj port_elem_tagged (conj tb_elem_tagged mq_elem_tagged))).
Local Notation C08_pipe_par_projection := par_projection.
Local Notation C08_pipe_fanin_conserves := fanin_conserves.
Local Notation C08_pipe_fanin_flow_fifo := fanin_flow_fifo.
Local Notation C08_pipe_fanin_drained := fanin_drained.
Local Notation C08_pipe_par_tagged := par_tagged.
Local Notation C08_pipe_fanin_hands := fanin_hands.
Local Notation C08_pipe_par_laws_by_flow := par_laws_by_flow.
Local Notation C08_pipe_demux_elem :=
  (fun route t0 => conj (demux_elem_laws route t0) (conj (demux_elem_timed route t0) (conj (demux_elem_tagged route t0) (demux_put_once route)))).
Local Notation C08_pipe_demux_routes := (conj fibdemux_put_deliveries flowdemux2_routes).
Local Notation C08_pipe_fanout_laws :=
  (fun route t0 A B C => conj (fanout_laws route t0 A B C) (conj (fanout_timed route t0 A B C) (fanout_tagged route t0 A B C))).
Local Notation C08_pipe_fanout_conserves := fanout_conserves.
Local Notation C08_pipe_network_instance := compose_network.
Local Notation C08_pipe_pipeline_network := pipeline_network.
Local Notation C08_pipe_pipeline_views := pipeline_views.
Local Notation C08_pipe_wire_adapter_exact :=
  (fun loss t0 w w' => conj (fun acts tr => wire_run_elem loss t0 acts w w' tr) (fun acts tr => wire_elem_run loss t0 acts w w' tr)).
Local Notation C08_pipe_port_adapter_exact :=
  (fun c t0 s s' => conj (fun acts tr => port_run_elem c t0 acts s s' tr) (fun acts tr => port_elem_run c t0 acts s s' tr)).
Local Notation C08_pipe_tb_adapter_exact :=
  (fun c t0 s s' => conj (fun acts tr => tb_run_elem c t0 acts s s' tr) (fun acts tr => tb_elem_run c t0 acts s s' tr)).
Local Notation C08_pipe_mq_adapter_exact :=
  (fun c s s' => conj (fun acts tr => mq_run_elem c acts s s' tr) (fun acts tr => mq_elem_run c acts s s' tr)).
Local Notation C08_pipe_srv_adapter_exact :=
  (fun S rate st0 confb s s' => conj (fun acts tr => srv_run_elem S rate st0 confb acts s s' tr)
                                     (fun acts tr => srv_elem_run S rate st0 confb acts s s' tr)).
Local Notation C08_pipe_drr_adapter_exact :=
  (fun c t0 s s' => conj (fun acts tr => drr_run_elem c t0 acts s s' tr) (fun acts tr => drr_elem_run c t0 acts s s' tr)).
Local Notation C08_pipe_trtb_adapter_exact :=
  (fun c t0 s s' => conj (fun acts tr => tr_run_elem c t0 acts s s' tr) (fun acts tr => trtb_elem_run c t0 acts s s' tr)).
Local Notation C08_pipe_oport_adapter_exact :=
  (fun c t0 => conj (oport_elem_run c t0) (conj (port_run_oelem c t0) (conj red_draw_det tail_draw_det))).
Local Notation C08_pipe_wire_laws := (fun loss t0 => conj (wire_elem_laws loss t0) (wire_elem_timed loss t0)).
Local Notation C08_pipe_port_laws := (fun c t0 => conj (port_elem_laws c t0) (port_elem_timed c t0)).
Local Notation C08_pipe_tb_laws := (fun c t0 R K => conj (tb_elem_laws c t0 (conj R K)) (tb_elem_timed c t0)).
Local Notation C08_pipe_mq_laws := (fun c Ok => conj (mq_elem_laws c Ok) (mq_elem_timed c)).
Local Notation C08_pipe_sp_laws := sp_elem_laws.
Local Notation C08_pipe_rr_wrr_laws := (conj rr_elem_laws wrr_elem_laws).
Local Definition C08_pipe_wfq_vc_laws :
  (forall cfg, wcfg_ok cfg -> laws (wfq_elem cfg) /\ timed (wfq_elem cfg) /\ tagged (wfq_elem cfg)) /\
  (forall cfg, vcfg_ok cfg -> laws (vc_elem cfg) /\ timed (vc_elem cfg) /\ tagged (vc_elem cfg)) :=
  conj (fun cfg Ok => conj (wfq_elem_laws cfg Ok) (conj (srv_elem_timed _ _ _ _) (wfq_elem_tagged cfg)))
       (fun cfg Ok => conj (vc_elem_laws cfg Ok) (conj (srv_elem_timed _ _ _ _) (vc_elem_tagged cfg))).
Local Notation C08_pipe_drr_laws :=
  (fun cfg t0 W => conj (drr_elem_laws cfg t0 W) (conj (drr_elem_timed cfg t0) (drr_elem_tagged cfg t0))).
Local Notation C08_pipe_trtb_laws :=
  (fun c t0 W => conj (trtb_elem_laws c t0 W) (conj (trtb_elem_timed c t0) (trtb_elem_tagged c t0))).
Local Notation C08_pipe_port_wire_tb := port_wire_tb_conserves.

Fact some_proj {A B : Type} (r : option (A * B)) (a : A) (b : B) :
  (match r with Some _ => true | None => false end) = true ->
  r = Some (match r with Some (s, _) => s | None => a end, match r with Some (_, t) => t | None => b end).
Proof. destruct r as [[s t]|]; [reflexivity|discriminate]. Qed.

(* ---- the three-stage example of Elem/ComposeExample.v, seen as A >> B with A = the port, B = wire >> bucket ---- *)
Definition px_A : elem := port_elem ex_port 0.
Definition px_W : elem := wire_elem None 0.
Definition px_T : elem := tb_elem ex_tb 0.
Definition px_B : elem := px_W >> px_T.
Definition px_run (n : nat) := run (px_A >> px_B) (init (px_A >> px_B)) (firstn n ComposeExample.ex_acts).
Definition px_s (n : nat) : st (px_A >> px_B) := match px_run n with Some (s, _) => s | None => init (px_A >> px_B) end.
Definition px_tr (n : nat) : list (tev (lab (px_A >> px_B))) := match px_run n with Some (_, tr) => tr | None => [] end.
Strategy expand [px_run].
Fact px_ok n : (match px_run n with Some _ => true | None => false end) = true -> px_run n = Some (px_s n, px_tr n).
Proof. unfold px_s, px_tr. apply some_proj. Qed.
Fact px_end : run (px_A >> px_B) (init (px_A >> px_B)) ComposeExample.ex_acts = Some (px_s 28, px_tr 28).
Proof. exact (px_ok 28 ltac:(vm_compute; reflexivity)). Qed.
Fact px_mid : run (px_A >> px_B) (init (px_A >> px_B)) (firstn 14 ComposeExample.ex_acts) = Some (px_s 14, px_tr 14).
Proof. exact (px_ok 14 ltac:(vm_compute; reflexivity)). Qed.

Fact px_tb_peak : forall k, peak_on ex_tb = Some k -> 0 < k.
Proof. intros k H. vm_compute in H. discriminate. Qed.
Fact px_lawsA : laws px_A. Proof. exact (proj1 (C08_pipe_port_laws ex_port 0)). Qed.
Fact px_lawsW : laws px_W. Proof. exact (proj1 (C08_pipe_wire_laws None 0)). Qed.
Fact px_lawsT : laws px_T. Proof. exact (proj1 (C08_pipe_tb_laws ex_tb 0 eq_refl px_tb_peak)). Qed.
Fact px_lawsB : laws px_B. Proof. exact (C08_pipe_series_laws _ _ px_lawsW px_lawsT). Qed.
Fact px_timedA : timed px_A. Proof. exact (proj2 (C08_pipe_port_laws ex_port 0)). Qed.
Fact px_timedW : timed px_W. Proof. exact (proj2 (C08_pipe_wire_laws None 0)). Qed.
Fact px_timedT : timed px_T. Proof. exact (proj2 (C08_pipe_tb_laws ex_tb 0 eq_refl px_tb_peak)). Qed.
Fact px_timedB : timed px_B. Proof. exact (C08_pipe_series_timed _ _ px_timedW px_timedT). Qed.
Fact px_taggedA : tagged px_A. Proof. exact (proj1 (proj2 C08_pipe_adapters_tagged) ex_port 0). Qed.
Fact px_taggedW : tagged px_W. Proof. exact (proj1 C08_pipe_adapters_tagged None 0). Qed.
Fact px_taggedT : tagged px_T. Proof. exact (proj1 (proj2 (proj2 C08_pipe_adapters_tagged)) ex_tb 0). Qed.

Fact px_puts_end : puts (px_tr 28) = [xp 0; xp 1; xp 2]. Proof. vm_compute. reflexivity. Qed.

(* covers: C08_pipe_compose_conserves, C08_pipe_series_conserves, C08_pipe_compose_flow_fifo, C08_pipe_compose_drained,
   C08_pipe_network_instance *)
Theorem C08_ex_pipe_compose :
  let s := px_s 28 in let tr := px_tr 28 in
  conserves px_A /\ conserves px_B /\ flow_fifo px_A 0 /\ flow_fifo px_B 0 /\ drained px_A /\ drained px_B /\
  run (px_A >> px_B) (init (px_A >> px_B)) ComposeExample.ex_acts = Some (s, tr) /\
  Forall (fun p => accepts (px_A >> px_B) p = true) (puts tr) /\
  urgent (px_A >> px_B) s = false /\ deadline (px_A >> px_B) s = None /\
  puts tr = [xp 0; xp 1; xp 2] /\ fwds tr = [xp 0; xp 1] /\ drops tr = [xp 2] /\
  Permutation (puts tr) (fwds tr ++ drops tr ++ held (px_A >> px_B) s) /\
  sublist (filter (on_flow 0) (fwds tr)) (filter (on_flow 0) (puts tr)) /\
  held px_A (fst s) = [] /\ held px_B (snd s) = [].
Proof.
  cbv zeta.
  assert (U : urgent (px_A >> px_B) (px_s 28) = false) by (vm_compute; reflexivity).
  assert (D : deadline (px_A >> px_B) (px_s 28) = None) by (vm_compute; reflexivity).
  assert (Acc : Forall (fun p => accepts (px_A >> px_B) p = true) (puts (px_tr 28))).
  { rewrite px_puts_end. repeat constructor. }
  split; [exact (l_conserves _ px_lawsA)|]. split; [exact (l_conserves _ px_lawsB)|].
  split; [exact (l_fifo _ px_lawsA 0%Z)|]. split; [exact (l_fifo _ px_lawsB 0%Z)|].
  split; [exact (l_drained _ px_lawsA)|]. split; [exact (l_drained _ px_lawsB)|].
  split; [exact px_end|]. split; [exact Acc|]. split; [exact U|]. split; [exact D|].
  split; [exact px_puts_end|]. split; [vm_compute; reflexivity|]. split; [vm_compute; reflexivity|].
  split; [exact (C08_pipe_series_conserves _ _ (l_conserves _ px_lawsA) (l_conserves _ px_lawsB) _ _ _ px_end)|].
  split; [exact (C08_pipe_compose_flow_fifo _ _ 0%Z (l_fifo _ px_lawsA 0%Z) (l_fifo _ px_lawsB 0%Z) _ _ _ px_end)|].
  exact (C08_pipe_compose_drained _ _ (l_conserves _ px_lawsA) (l_drained _ px_lawsA) (l_drained _ px_lawsB) _ _ _ px_end Acc U D).
Qed.
Print Assumptions C08_ex_pipe_compose.

(* the same execution stopped after 14 actions: the stages hold packets.  covers (again, with held <> []):
   C08_pipe_compose_conserves, C08_pipe_series_conserves, C08_pipe_network_instance *)
Theorem C08_ex_pipe_compose_held :
  let s := px_s 14 in let tr := px_tr 14 in
  conserves px_A /\ conserves px_B /\
  run (px_A >> px_B) (init (px_A >> px_B)) (firstn 14 ComposeExample.ex_acts) = Some (s, tr) /\
  puts tr = [xp 0; xp 1; xp 2] /\ fwds tr = [] /\ drops tr = [xp 2] /\ held px_A (fst s) = [xp 1] /\ held px_B (snd s) = [xp 0] /\
  (exists trA trB,
    run px_A (init px_A) (actsA px_A px_B (firstn 14 ComposeExample.ex_acts)) = Some (fst s, trA) /\
    run px_B (init px_B) (actsB px_A px_B (init px_A) (firstn 14 ComposeExample.ex_acts)) = Some (snd s, trB) /\
    puts trA = puts tr /\ puts trB = fwds trA /\ fwds trB = fwds tr /\
    Permutation (puts trA) (fwds trB ++ drops trA ++ drops trB ++ held px_A (fst s) ++ held px_B (snd s))) /\
  (exists trA trB,
    run px_A (init px_A) (actsA px_A px_B (firstn 14 ComposeExample.ex_acts)) = Some (fst s, trA) /\
    run px_B (init px_B) (actsB px_A px_B (init px_A) (firstn 14 ComposeExample.ex_acts)) = Some (snd s, trB) /\
    puts trA = puts tr /\ fwds trB = fwds tr /\
    ((forall i u, i < 2 -> cnt u (n_inp px_A px_B trA trB i) = cnt u (n_fwd px_A px_B trA trB i) + cnt u (n_drp px_A px_B trA trB i) + cnt u (n_held px_A px_B (fst s) (snd s) i)) /\
     (forall i u, i < 2 -> cnt u (n_fwd px_A px_B trA trB i) = sum_n 2 (fun j => cnt u (n_sent px_A trA i j)) + cnt u (n_tosink px_B trB i)) /\
     (forall j u, j < 2 -> cnt u (n_inp px_A px_B trA trB j) = cnt u (n_inj px_A trA j) + sum_n 2 (fun i => cnt u (n_sent px_A trA i j))) /\
     (forall u, cnt u (uids (puts tr)) =
                cnt u (uids (fwds tr)) + (cnt u (uids (drops trA)) + cnt u (uids (drops trB)))
                + (cnt u (uids (held px_A (fst s))) + cnt u (uids (held px_B (snd s))))))%nat).
Proof.
  cbv zeta. pose proof (l_conserves _ px_lawsA) as CA. pose proof (l_conserves _ px_lawsB) as CB.
  split; [exact CA|]. split; [exact CB|]. split; [exact px_mid|].
  split; [vm_compute; reflexivity|]. split; [vm_compute; reflexivity|]. split; [vm_compute; reflexivity|].
  split; [vm_compute; reflexivity|]. split; [vm_compute; reflexivity|].
  split; [exact (C08_pipe_compose_conserves _ _ CA CB _ _ _ px_mid)|].
  exact (C08_pipe_network_instance _ _ CA CB _ _ _ px_mid).
Qed.
Print Assumptions C08_ex_pipe_compose_held.

(* an execution of A >> B from a NON-initial pair of states (the one reached after 14 actions; clocks equal 1).
   covers: C08_pipe_projection, C08_pipe_series_clock, C08_pipe_hands *)
Definition px_rest : list (iact (lab (px_A >> px_B))) := skipn 14 ComposeExample.ex_acts.
Definition px_run2 := run (px_A >> px_B) (px_s 14) px_rest.
Definition px_s2 : st (px_A >> px_B) := match px_run2 with Some (s, _) => s | None => init (px_A >> px_B) end.
Definition px_tr2 : list (tev (lab (px_A >> px_B))) := match px_run2 with Some (_, tr) => tr | None => [] end.
Strategy expand [px_run2].
Fact px_second0 : px_run2 = Some (px_s2, px_tr2).
Proof. unfold px_s2, px_tr2. apply some_proj. vm_compute. reflexivity. Qed.
Fact px_second : run (px_A >> px_B) (fst (px_s 14), snd (px_s 14)) px_rest = Some ((fst px_s2, snd px_s2), px_tr2).
Proof. rewrite <- !surjective_pairing. exact px_second0. Qed.
Definition px_runA2 := run px_A (fst (px_s 14)) (actsA px_A px_B px_rest).
Definition px_sA2 : st px_A := match px_runA2 with Some (s, _) => s | None => init px_A end.
Definition px_trA2 : list (tev (lab px_A)) := match px_runA2 with Some (_, tr) => tr | None => [] end.
Strategy expand [px_runA2].
Fact px_secondA0 : px_runA2 = Some (px_sA2, px_trA2).
Proof. unfold px_sA2, px_trA2. apply some_proj. vm_compute. reflexivity. Qed.
Fact px_secondA : run px_A (fst (px_s 14)) (actsA px_A px_B px_rest) = Some (px_sA2, px_trA2).
Proof. exact px_secondA0. Qed.

Theorem C08_ex_pipe_projection :
  let sA := fst (px_s 14) in let sB := snd (px_s 14) in let sA' := fst px_s2 in let sB' := snd px_s2 in let tr := px_tr2 in
  timed px_A /\ timed px_B /\ tagged px_A /\
  run (px_A >> px_B) (sA, sB) px_rest = Some ((sA', sB'), tr) /\
  run px_A sA (actsA px_A px_B px_rest) = Some (px_sA2, px_trA2) /\
  now px_A sA = now px_B sB /\ now px_A sA == 1 /\ held px_A sA = [xp 1] /\ held px_B sB = [xp 0] /\
  puts tr = [] /\ fwds tr = [xp 0; xp 1] /\ hands 0 tr = [xp 1] /\ fwds px_trA2 = [xp 1] /\
  (exists trA trB,
    run px_A sA (actsA px_A px_B px_rest) = Some (sA', trA) /\ run px_B sB (actsB px_A px_B sA px_rest) = Some (sB', trB) /\
    puts trA = puts tr /\ puts trB = fwds trA /\ fwds trB = fwds tr /\ Permutation (drops tr) (drops trA ++ drops trB)) /\
  now px_A sA' = now px_B sB' /\ now px_A sA' == 7 # 2 /\
  hands (pred (width px_A)) tr = fwds px_trA2.
Proof.
  cbv zeta. assert (N : now px_A (fst (px_s 14)) = now px_B (snd (px_s 14))) by (vm_compute; reflexivity).
  split; [exact px_timedA|]. split; [exact px_timedB|]. split; [exact px_taggedA|].
  split; [exact px_second|]. split; [exact px_secondA|]. split; [exact N|].
  split; [vm_compute; reflexivity|]. split; [vm_compute; reflexivity|]. split; [vm_compute; reflexivity|].
  split; [vm_compute; reflexivity|]. split; [vm_compute; reflexivity|]. split; [vm_compute; reflexivity|].
  split; [vm_compute; reflexivity|].
  split; [exact (C08_pipe_projection _ _ _ _ _ _ _ _ px_second)|].
  split; [exact (C08_pipe_series_clock _ _ px_timedA px_timedB _ _ _ _ _ _ px_second N)|].
  split; [vm_compute; reflexivity|].
  exact (C08_pipe_hands _ px_B px_taggedA _ _ _ _ _ _ _ px_second px_secondA).
Qed.
Print Assumptions C08_ex_pipe_projection.

(* covers: C08_pipe_series_laws, C08_pipe_pipeline_laws, C08_pipe_series_timed, C08_pipe_pipeline_timed,
   C08_pipe_pipeline_tagged, C08_pipe_pipeline_network, C08_pipe_pipeline_views  (E = the port, es = [wire; bucket]) *)
Fact px_pipe_end : run (pipeline px_A [px_W; px_T]) (init (pipeline px_A [px_W; px_T])) ComposeExample.ex_acts = Some (px_s 28, px_tr 28).
Proof. exact px_end. Qed.

Theorem C08_ex_pipe_pipeline :
  let E := pipeline px_A [px_W; px_T] in let s := px_s 28 in let tr := px_tr 28 in
  laws px_A /\ laws px_B /\ Forall laws [px_W; px_T] /\ timed px_A /\ timed px_B /\ Forall timed [px_W; px_T] /\
  tagged px_A /\ Forall tagged [px_W; px_T] /\ conserves px_A /\ Forall conserves [px_W; px_T] /\
  run E (init E) ComposeExample.ex_acts = Some (s, tr) /\
  laws (px_A >> px_B) /\ laws E /\ timed (px_A >> px_B) /\ timed E /\ tagged E /\
  (exists vs, pviews [px_W; px_T] px_A ComposeExample.ex_acts = Some vs /\ length vs = 3%nat /\ Forall v_ok vs /\ chained vs /\
              v_puts (nthv vs 0) = [xp 0; xp 1; xp 2] /\ v_fwds (nthv vs 2) = [xp 0; xp 1] /\
              v_drops (nthv vs 0) = [xp 2] /\ v_puts (nthv vs 1) = [xp 0; xp 1]) /\
  (exists vs, pviews [px_W; px_T] px_A ComposeExample.ex_acts = Some vs /\ length vs = 3%nat /\
    let n := length vs in
    ((forall i u, i < n -> cnt u (c_inp vs i) = cnt u (c_fwd vs i) + cnt u (c_drp vs i) + cnt u (c_held vs i)) /\
     (forall i u, i < n -> cnt u (c_fwd vs i) = sum_n n (fun j => cnt u (c_sent vs i j)) + cnt u (c_tosink vs i)) /\
     (forall j u, j < n -> cnt u (c_inp vs j) = cnt u (c_inj vs j) + sum_n n (fun i => cnt u (c_sent vs i j))) /\
     (forall u, cnt u (uids (puts tr)) =
                cnt u (uids (fwds tr)) + sum_n n (fun i => cnt u (c_drp vs i)) + sum_n n (fun i => cnt u (c_held vs i))))%nat).
Proof.
  cbv zeta.
  assert (FL : Forall laws [px_W; px_T]) by exact (Forall_cons _ px_lawsW (Forall_cons _ px_lawsT (Forall_nil _))).
  assert (FT : Forall timed [px_W; px_T]) by exact (Forall_cons _ px_timedW (Forall_cons _ px_timedT (Forall_nil _))).
  assert (FG : Forall tagged [px_W; px_T]) by exact (Forall_cons _ px_taggedW (Forall_cons _ px_taggedT (Forall_nil _))).
  assert (FC : Forall conserves [px_W; px_T]) by exact (Forall_cons _ ((l_conserves _ px_lawsW)) (Forall_cons _ ((l_conserves _ px_lawsT)) (Forall_nil _))).
  pose proof (C08_pipe_pipeline_laws _ _ px_lawsA FL) as LE.
  split; [exact px_lawsA|]. split; [exact px_lawsB|]. split; [exact FL|]. split; [exact px_timedA|]. split; [exact px_timedB|].
  split; [exact FT|]. split; [exact px_taggedA|]. split; [exact FG|]. split; [exact (l_conserves _ px_lawsA)|]. split; [exact FC|].
  split; [exact px_pipe_end|].
  split; [exact (C08_pipe_series_laws _ _ px_lawsA px_lawsB)|]. split; [exact LE|].
  split; [exact (C08_pipe_series_timed _ _ px_timedA px_timedB)|].
  split; [exact (C08_pipe_pipeline_timed _ _ px_timedA FT)|].
  split; [exact (C08_pipe_pipeline_tagged _ _ px_taggedA FG)|].
  split.
  - destruct (C08_pipe_pipeline_views _ _ (l_conserves _ px_lawsA) FC _ _ _ px_pipe_end) as (vs & Hv & Hl & Hok & Hch & _).
    exists vs. split; [exact Hv|]. split; [exact Hl|]. split; [exact Hok|]. split; [exact Hch|].
    pose proof ex_pipe_views as X. unfold px_A, px_W, px_T in Hv. rewrite X in Hv. injection Hv as <-. repeat split; reflexivity.
  - exact (C08_pipe_pipeline_network _ _ (l_conserves _ px_lawsA) FC _ _ _ px_pipe_end).
Qed.
Print Assumptions C08_ex_pipe_pipeline.

(* covers: C08_pipe_port_wire_tb (with its inner hypotheses: sizes >= 0, nothing urgent, no deadline) *)
Theorem C08_ex_pipe_port_wire_tb :
  let E := pipeline (port_elem ex_port 0) [wire_elem None 0; tb_elem ex_tb 0] in let s := px_s 28 in let tr := px_tr 28 in
  0 < Bucket.rate ex_tb /\ (forall k, peak_on ex_tb = Some k -> 0 < k) /\
  run E (init E) ComposeExample.ex_acts = Some (s, tr) /\
  Forall (fun p => (0 <= psize p)%Z) (puts tr) /\ urgent E s = false /\ deadline E s = None /\
  puts tr = [xp 0; xp 1; xp 2] /\ fwds tr = [xp 0; xp 1] /\ drops tr = [xp 2] /\
  Permutation (puts tr) (fwds tr ++ drops tr).
Proof.
  cbv zeta.
  assert (Sz : Forall (fun p => (0 <= psize p)%Z) (puts (px_tr 28))).
  { rewrite px_puts_end. repeat constructor; vm_compute; discriminate. }
  assert (U : urgent (pipeline (port_elem ex_port 0) [wire_elem None 0; tb_elem ex_tb 0]) (px_s 28) = false) by (vm_compute; reflexivity).
  assert (D : deadline (pipeline (port_elem ex_port 0) [wire_elem None 0; tb_elem ex_tb 0]) (px_s 28) = None) by (vm_compute; reflexivity).
  split; [reflexivity|]. split; [exact px_tb_peak|]. split; [exact px_pipe_end|]. split; [exact Sz|]. split; [exact U|]. split; [exact D|].
  split; [exact px_puts_end|]. split; [vm_compute; reflexivity|]. split; [vm_compute; reflexivity|].
  destruct (C08_pipe_port_wire_tb ex_port None ex_tb 0 eq_refl px_tb_peak _ _ _ px_pipe_end) as (_ & _ & H). exact (H Sz U D).
Qed.
Print Assumptions C08_ex_pipe_port_wire_tb.

(* ---- fan-in: two rate-0 ports into one SP (ex3_net of Elem/ComposeExample.v) ---- *)
Definition fi_A : elem := port_elem ex2_port 0.
Definition fi_C : elem := sp_elem 1024 (fun f => f) [0%Z; 1%Z] [(0%Z, 1%Z); (1%Z, 2%Z)].
Definition fi_E : elem := fanin ex3_sel fi_A fi_A fi_C.
Definition fi_run := run fi_E (init fi_E) ex3_acts.
Definition fi_s : st fi_E := match fi_run with Some (s, _) => s | None => init fi_E end.
Definition fi_tr : list (tev (lab fi_E)) := match fi_run with Some (_, tr) => tr | None => [] end.
Strategy expand [fi_run].
Fact fi_end0 : fi_run = Some (fi_s, fi_tr).
Proof. unfold fi_s, fi_tr. apply some_proj. vm_compute. reflexivity. Qed.
Fact fi_end : run (fanin ex3_sel fi_A fi_A fi_C) (init (fanin ex3_sel fi_A fi_A fi_C)) ex3_acts = Some (fi_s, fi_tr).
Proof. exact fi_end0. Qed.
(* what the two branches (without the scheduler) see of it *)
Definition fi_pacts : list (iact (lab (par ex3_sel fi_A fi_A))) := actsA (par ex3_sel fi_A fi_A) fi_C ex3_acts.
Definition fi_prun := run (par ex3_sel fi_A fi_A) (init (par ex3_sel fi_A fi_A)) fi_pacts.
Definition fi_ps : st (par ex3_sel fi_A fi_A) := match fi_prun with Some (s, _) => s | None => init (par ex3_sel fi_A fi_A) end.
Definition fi_ptr : list (tev (lab (par ex3_sel fi_A fi_A))) := match fi_prun with Some (_, tr) => tr | None => [] end.
Strategy expand [fi_prun].
Fact fi_pend0 : fi_prun = Some (fi_ps, fi_ptr).
Proof. unfold fi_ps, fi_ptr. apply some_proj. vm_compute. reflexivity. Qed.
Fact fi_pend : run (par ex3_sel fi_A fi_A) (init fi_A, init fi_A) fi_pacts = Some ((fst fi_ps, snd fi_ps), fi_ptr).
Proof. rewrite <- surjective_pairing. exact fi_pend0. Qed.

Fact fi_tbl_pos : forall k p, In (k, p) [(0%Z, 1%Z); (1%Z, 2%Z)] -> (0 < p)%Z.
Proof. intros k p [H|[H|[]]]; injection H as _ <-; reflexivity. Qed.
Fact fi_lawsA : laws fi_A. Proof. exact (proj1 (C08_pipe_port_laws ex2_port 0)). Qed.
Fact fi_lawsC : laws fi_C. Proof. exact (C08_pipe_sp_laws 1024 (fun f => f) _ _ eq_refl fi_tbl_pos). Qed.
Fact fi_taggedA : tagged fi_A. Proof. exact (proj1 (proj2 C08_pipe_adapters_tagged) ex2_port 0). Qed.
Fact fi_sel0 : forall p, on_flow 0 p = true -> ex3_sel p = true.
Proof. intros p H. exact H. Qed.
Fact fi_sel1 : forall p, on_flow 1 p = true -> ex3_sel p = false.
Proof. intros p H. unfold on_flow in H. apply Z.eqb_eq in H. unfold ex3_sel. rewrite H. reflexivity. Qed.

(* covers: C08_pipe_par_projection, C08_pipe_par_tagged, C08_pipe_par_laws_by_flow *)
Theorem C08_ex_pipe_par :
  (forall p, ex3_sel p = (fun f => Z.eqb f 0) (flow p)) /\ laws fi_A /\ tagged fi_A /\
  run (par ex3_sel fi_A fi_A) (init fi_A, init fi_A) fi_pacts = Some ((fst fi_ps, snd fi_ps), fi_ptr) /\
  puts fi_ptr = [yp 0 0; yp 1 1] /\ fwds fi_ptr = [yp 0 0; yp 1 1] /\
  (exists trA trB,
    run fi_A (init fi_A) (pactsA ex3_sel fi_A fi_A fi_pacts) = Some (fst fi_ps, trA) /\
    run fi_A (init fi_A) (pactsB ex3_sel fi_A fi_A fi_pacts) = Some (snd fi_ps, trB) /\
    interleave (puts trA) (puts trB) (puts fi_ptr) /\ interleave (fwds trA) (fwds trB) (fwds fi_ptr) /\
    interleave (drops trA) (drops trB) (drops fi_ptr) /\
    Forall (fun p => ex3_sel p = true) (puts trA) /\ Forall (fun p => ex3_sel p = false) (puts trB)) /\
  laws (par ex3_sel fi_A fi_A) /\ tagged (par ex3_sel fi_A fi_A).
Proof.
  split; [intros p; reflexivity|]. split; [exact fi_lawsA|]. split; [exact fi_taggedA|]. split; [exact fi_pend|].
  split; [vm_compute; reflexivity|]. split; [vm_compute; reflexivity|].
  split; [exact (C08_pipe_par_projection _ _ _ _ _ _ _ _ _ fi_pend)|].
  split; [exact (C08_pipe_par_laws_by_flow ex3_sel (fun f => Z.eqb f 0) _ _ (fun p => eq_refl) fi_lawsA fi_lawsA)|].
  exact (C08_pipe_par_tagged _ _ _ fi_taggedA fi_taggedA).
Qed.
Print Assumptions C08_ex_pipe_par.

(* covers: C08_pipe_fanin_conserves, C08_pipe_fanin_flow_fifo (both disjuncts), C08_pipe_fanin_drained, C08_pipe_fanin_hands *)
Theorem C08_ex_pipe_fanin :
  let s := fi_s in let tr := fi_tr in
  conserves fi_A /\ conserves fi_C /\ drained fi_A /\ drained fi_C /\ tagged fi_A /\
  ((forall p, on_flow 0 p = true -> ex3_sel p = true) /\ flow_fifo fi_A 0) /\
  ((forall p, on_flow 1 p = true -> ex3_sel p = false) /\ flow_fifo fi_A 1) /\ flow_fifo fi_C 0 /\ flow_fifo fi_C 1 /\
  run (fanin ex3_sel fi_A fi_A fi_C) (init (fanin ex3_sel fi_A fi_A fi_C)) ex3_acts = Some (s, tr) /\
  Forall (fun p => accepts (fanin ex3_sel fi_A fi_A fi_C) p = true) (puts tr) /\
  urgent (fanin ex3_sel fi_A fi_A fi_C) s = false /\ deadline (fanin ex3_sel fi_A fi_A fi_C) s = None /\
  puts tr = [yp 0 0; yp 1 1] /\ fwds tr = [yp 1 1; yp 0 0] /\ hands 1 tr = [yp 0 0; yp 1 1] /\
  Permutation (puts tr) (fwds tr ++ drops tr ++ (held fi_A (fst (fst s)) ++ held fi_A (snd (fst s))) ++ held fi_C (snd s)) /\
  sublist (filter (on_flow 0) (fwds tr)) (filter (on_flow 0) (puts tr)) /\
  sublist (filter (on_flow 1) (fwds tr)) (filter (on_flow 1) (puts tr)) /\
  held (fanin ex3_sel fi_A fi_A fi_C) s = [] /\
  (exists trA trB,
    run fi_A (init fi_A) (pactsA ex3_sel fi_A fi_A (actsA (par ex3_sel fi_A fi_A) fi_C ex3_acts)) = Some (fst (fst s), trA) /\
    run fi_A (init fi_A) (pactsB ex3_sel fi_A fi_A (actsA (par ex3_sel fi_A fi_A) fi_C ex3_acts)) = Some (snd (fst s), trB) /\
    interleave (fwds trA) (fwds trB) (hands (pred (width fi_A + width fi_A)%nat) tr)).
Proof.
  cbv zeta. pose proof (l_conserves _ fi_lawsA) as CA. pose proof (l_conserves _ fi_lawsC) as CC.
  pose proof (l_drained _ fi_lawsA) as DA. pose proof (l_drained _ fi_lawsC) as DC.
  assert (P : puts fi_tr = [yp 0 0; yp 1 1]) by (vm_compute; reflexivity).
  assert (Acc : Forall (fun p => accepts (fanin ex3_sel fi_A fi_A fi_C) p = true) (puts fi_tr)).
  { rewrite P. repeat constructor. }
  assert (U : urgent (fanin ex3_sel fi_A fi_A fi_C) fi_s = false) by (vm_compute; reflexivity).
  assert (D : deadline (fanin ex3_sel fi_A fi_A fi_C) fi_s = None) by (vm_compute; reflexivity).
  split; [exact CA|]. split; [exact CC|]. split; [exact DA|]. split; [exact DC|]. split; [exact fi_taggedA|].
  split; [exact (conj fi_sel0 (l_fifo _ fi_lawsA 0%Z))|]. split; [exact (conj fi_sel1 (l_fifo _ fi_lawsA 1%Z))|].
  split; [exact (l_fifo _ fi_lawsC 0%Z)|]. split; [exact (l_fifo _ fi_lawsC 1%Z)|].
  split; [exact fi_end|]. split; [exact Acc|]. split; [exact U|]. split; [exact D|]. split; [exact P|].
  split; [vm_compute; reflexivity|]. split; [vm_compute; reflexivity|].
  split; [exact (C08_pipe_fanin_conserves _ _ _ _ CA CA CC _ _ _ fi_end)|].
  split; [exact (C08_pipe_fanin_flow_fifo _ _ _ _ 0%Z CA CA (or_introl (conj fi_sel0 (l_fifo _ fi_lawsA 0%Z))) (l_fifo _ fi_lawsC 0%Z) _ _ _ fi_end)|].
  split; [exact (C08_pipe_fanin_flow_fifo _ _ _ _ 1%Z CA CA (or_intror (conj fi_sel1 (l_fifo _ fi_lawsA 1%Z))) (l_fifo _ fi_lawsC 1%Z) _ _ _ fi_end)|].
  split; [exact (C08_pipe_fanin_drained _ _ _ _ CA CA DA DA DC _ _ _ fi_end Acc U D)|].
  exact (C08_pipe_fanin_hands _ _ _ fi_C fi_taggedA fi_taggedA _ _ _ fi_end).
Qed.
Print Assumptions C08_ex_pipe_fanin.

(* ---- fan-out: Wire -> FlowDemux(two outputs, no default) -> two rate-0 ports (ex4_net of Elem/ComposeExample.v) ---- *)
Definition fo_W : elem := wire_elem None 0.
Definition fo_P : elem := port_elem ex2_port 0.
Definition fo_E : elem := fanout ex4_route 0 fo_W fo_P fo_P.
Definition fo_run := run fo_E (init fo_E) ex4_acts.
Definition fo_s : st fo_E := match fo_run with Some (s, _) => s | None => init fo_E end.
Definition fo_tr : list (tev (lab fo_E)) := match fo_run with Some (_, tr) => tr | None => [] end.
Strategy expand [fo_run].
Fact fo_end0 : fo_run = Some (fo_s, fo_tr).
Proof. unfold fo_s, fo_tr. apply some_proj. vm_compute. reflexivity. Qed.
Fact fo_end : run (fanout ex4_route 0 fo_W fo_P fo_P) (init (fanout ex4_route 0 fo_W fo_P fo_P)) ex4_acts = Some (fo_s, fo_tr).
Proof. exact fo_end0. Qed.
Fact fo_lawsW : laws fo_W. Proof. exact (proj1 (C08_pipe_wire_laws None 0)). Qed.
Fact fo_lawsP : laws fo_P. Proof. exact (proj1 (C08_pipe_port_laws ex2_port 0)). Qed.
Fact fo_timedW : timed fo_W. Proof. exact (proj2 (C08_pipe_wire_laws None 0)). Qed.
Fact fo_timedP : timed fo_P. Proof. exact (proj2 (C08_pipe_port_laws ex2_port 0)). Qed.
Fact fo_taggedW : tagged fo_W. Proof. exact (proj1 C08_pipe_adapters_tagged None 0). Qed.
Fact fo_taggedP : tagged fo_P. Proof. exact (proj1 (proj2 C08_pipe_adapters_tagged) ex2_port 0). Qed.

(* a FIBDemux: flows 3 -> output 1, 4 -> out of range -> default, 9 -> end device 4 *)
Definition fo_fib : fibdemux_cfg :=
  {| fb_fib := Some [(3, 1); (4, 7); (5, -1)]%Z; fb_outs := Some 2%nat; fb_ends := [(9%Z, 4%nat)]; fb_default := true |}.

(* covers the inner hypotheses of C08_pipe_demux_elem and C08_pipe_demux_routes: a put into the demultiplexer that is
   admissible, once with a route (handed on), once without (discarded); a put into a FIBDemux *)
Theorem C08_ex_pipe_demux :
  demux_put ex4_route (yp 0 0) 5 = Some (5, [EForward (yp 0 0)]) /\
  demux_put ex4_route (yp 2 2) 5 = Some (5, [EDrop (yp 2 2)]) /\
  deliverable (ex4_route (flow (yp 0 0))) = true /\ deliverable (ex4_route (flow (yp 2 2))) = false /\
  (o_fwds [EForward (yp 0 0)] ++ o_drops [EForward (yp 0 0)] = [yp 0 0] /\
   (o_fwds [EForward (yp 0 0)] = [yp 0 0] <-> deliverable (ex4_route (flow (yp 0 0))) = true)) /\
  (o_fwds [EDrop (yp 2 2)] ++ o_drops [EDrop (yp 2 2)] = [yp 2 2] /\
   (o_fwds [EDrop (yp 2 2)] = [yp 2 2] <-> deliverable (ex4_route (flow (yp 2 2))) = true)) /\
  demux_put (fibdemux true true fo_fib) (yp 7 3) 5 = Some (5, [EForward (yp 7 3)]) /\
  fst (fib_deliveries true true true fo_fib [] (flow (yp 7 3))) = [OOut 1] /\
  length (o_fwds [EForward (yp 7 3)]) = length (fst (fib_deliveries true true true fo_fib [] (flow (yp 7 3)))).
Proof.
  destruct (C08_pipe_demux_elem ex4_route 0) as (_ & _ & _ & HD). destruct C08_pipe_demux_routes as (HR & _).
  assert (P0 : demux_put ex4_route (yp 0 0) 5 = Some (5, [EForward (yp 0 0)])) by reflexivity.
  assert (P2 : demux_put ex4_route (yp 2 2) 5 = Some (5, [EDrop (yp 2 2)])) by reflexivity.
  assert (P7 : demux_put (fibdemux true true fo_fib) (yp 7 3) 5 = Some (5, [EForward (yp 7 3)])) by reflexivity.
  split; [exact P0|]. split; [exact P2|]. split; [reflexivity|]. split; [reflexivity|].
  split; [exact (proj2 (HD _ _ _ _ P0))|]. split; [exact (proj2 (HD _ _ _ _ P2))|].
  split; [exact P7|]. split; [reflexivity|]. exact (HR _ _ _ _ _ P7).
Qed.
Print Assumptions C08_ex_pipe_demux.

(* covers: C08_pipe_fanout_laws (the premises of its three implications), C08_pipe_fanout_conserves *)
Theorem C08_ex_pipe_fanout :
  let s := fo_s in let tr := fo_tr in
  laws fo_W /\ laws fo_P /\ timed fo_W /\ timed fo_P /\ tagged fo_W /\ tagged fo_P /\ conserves fo_W /\ conserves fo_P /\
  run (fanout ex4_route 0 fo_W fo_P fo_P) (init (fanout ex4_route 0 fo_W fo_P fo_P)) ex4_acts = Some (s, tr) /\
  puts tr = [yp 0 0; yp 1 1; yp 2 2] /\ fwds tr = [yp 1 1; yp 0 0] /\ drops tr = [yp 2 2] /\
  laws (fanout ex4_route 0 fo_W fo_P fo_P) /\ timed (fanout ex4_route 0 fo_W fo_P fo_P) /\ tagged (fanout ex4_route 0 fo_W fo_P fo_P) /\
  Permutation (puts tr) (fwds tr ++ drops tr ++ held fo_W (fst s) ++ held fo_P (fst (snd (snd s))) ++ held fo_P (snd (snd (snd s)))).
Proof.
  cbv zeta. pose proof (l_conserves _ fo_lawsW) as CW. pose proof (l_conserves _ fo_lawsP) as CP.
  destruct (C08_pipe_fanout_laws ex4_route 0 fo_W fo_P fo_P) as (HL & HT & HG).
  split; [exact fo_lawsW|]. split; [exact fo_lawsP|]. split; [exact fo_timedW|]. split; [exact fo_timedP|].
  split; [exact fo_taggedW|]. split; [exact fo_taggedP|]. split; [exact CW|]. split; [exact CP|]. split; [exact fo_end|].
  split; [vm_compute; reflexivity|]. split; [vm_compute; reflexivity|]. split; [vm_compute; reflexivity|].
  split; [exact (HL fo_lawsW fo_lawsP fo_lawsP)|]. split; [exact (HT fo_timedW fo_timedP fo_timedP)|].
  split; [exact (HG fo_taggedW fo_taggedP fo_taggedP)|].
  exact (C08_pipe_fanout_conserves _ _ _ _ _ CW CP CP _ _ _ fo_end).
Qed.
Print Assumptions C08_ex_pipe_fanout.

(* ================= the adapters: model executions and interface executions ================= *)
(* each witness: an admissible execution of the MODEL (the one of the element's own non-vacuity example), the side
   condition of the adapter theorem, the interface execution the first half of the theorem yields from it (which is the
   hypothesis of the second half), and the second half applied to that *)
Theorem C08_ex_pipe_wire_adapter :
  exists w' tr, wire_run WireProofs.ex_loss (wire0 0) WireProofs.ex_acts = Some (w', tr) /\
    run (wire_elem WireProofs.ex_loss 0) (wire0 0) (map w_of WireProofs.ex_acts) = Some (w', map w_ev tr) /\
    fwds (map w_ev tr) = [WireProofs.ex_p 0; WireProofs.ex_p 1; WireProofs.ex_p 3] /\ drops (map w_ev tr) = [WireProofs.ex_p 2] /\
    exists tr0, wire_run WireProofs.ex_loss (wire0 0) (map w_to (map w_of WireProofs.ex_acts)) = Some (w', tr0) /\
                map w_ev tr = map w_ev tr0 /\ map w_of (map w_to (map w_of WireProofs.ex_acts)) = map w_of WireProofs.ex_acts.
Proof.
  destruct (wire_run WireProofs.ex_loss (wire0 0) WireProofs.ex_acts) as [[w tr]|] eqn:E; [|vm_compute in E; discriminate].
  exists w, tr. split; [reflexivity|].
  destruct (C08_pipe_wire_adapter_exact WireProofs.ex_loss 0 (wire0 0) w) as (H1 & H2).
  pose proof (H1 _ _ E) as R. split; [exact R|]. pose proof (H2 _ _ R) as R2.
  vm_compute in E. injection E as <- <-. split; [vm_compute; reflexivity|]. split; [vm_compute; reflexivity|]. exact R2.
Qed.
Print Assumptions C08_ex_pipe_wire_adapter.

Theorem C08_ex_pipe_port_adapter :
  exists s' tr, Forall no_draw PortProofs.ex_acts /\ port_run PortProofs.ex_cfg (port0 0) PortProofs.ex_acts = Some (s', tr) /\
    run (port_elem PortProofs.ex_cfg 0) (port0 0) (map p_of PortProofs.ex_acts) = Some (s', map p_ev tr) /\
    map uid (fwds (map p_ev tr)) = [0; 1; 4]%nat /\ map uid (drops (map p_ev tr)) = [2; 3]%nat /\
    exists tr0, port_run PortProofs.ex_cfg (port0 0) (map p_to (map p_of PortProofs.ex_acts)) = Some (s', tr0) /\
                map p_ev tr = map p_ev tr0 /\ map p_of (map p_to (map p_of PortProofs.ex_acts)) = map p_of PortProofs.ex_acts /\
                Forall no_draw (map p_to (map p_of PortProofs.ex_acts)).
Proof.
  destruct (port_run PortProofs.ex_cfg (port0 0) PortProofs.ex_acts) as [[s tr]|] eqn:E; [|vm_compute in E; discriminate].
  exists s, tr. assert (ND : Forall no_draw PortProofs.ex_acts) by (unfold PortProofs.ex_acts; repeat constructor).
  split; [exact ND|]. split; [reflexivity|].
  destruct (C08_pipe_port_adapter_exact PortProofs.ex_cfg 0 (port0 0) s) as (H1 & H2).
  pose proof (H1 _ _ ND E) as R. split; [exact R|]. pose proof (H2 _ _ R) as R2.
  vm_compute in E. injection E as <- <-. split; [vm_compute; reflexivity|]. split; [vm_compute; reflexivity|]. exact R2.
Qed.
Print Assumptions C08_ex_pipe_port_adapter.

Theorem C08_ex_pipe_tb_adapter :
  exists s' tr, tb_run BucketProofs.ex_c (tb0 true BucketProofs.ex_c 0) BucketProofs.ex_acts = Some (s', tr) /\
    run (tb_elem BucketProofs.ex_c 0) (tb0 true BucketProofs.ex_c 0) (map t_of BucketProofs.ex_acts) = Some (s', map t_ev tr) /\
    fwds (map t_ev tr) = [BucketProofs.ex_p0; BucketProofs.ex_p1] /\
    exists tr0, tb_run BucketProofs.ex_c (tb0 true BucketProofs.ex_c 0) (map t_to (map t_of BucketProofs.ex_acts)) = Some (s', tr0) /\
                map t_ev tr = map t_ev tr0 /\ map t_of (map t_to (map t_of BucketProofs.ex_acts)) = map t_of BucketProofs.ex_acts.
Proof.
  destruct (tb_run BucketProofs.ex_c (tb0 true BucketProofs.ex_c 0) BucketProofs.ex_acts) as [[s tr]|] eqn:E; [|vm_compute in E; discriminate].
  exists s, tr. split; [reflexivity|].
  destruct (C08_pipe_tb_adapter_exact BucketProofs.ex_c 0 (tb0 true BucketProofs.ex_c 0) s) as (H1 & H2).
  pose proof (H1 _ _ E) as R. split; [exact R|]. pose proof (H2 _ _ R) as R2.
  vm_compute in E. injection E as <- <-. split; [vm_compute; reflexivity|]. exact R2.
Qed.
Print Assumptions C08_ex_pipe_tb_adapter.

Theorem C08_ex_pipe_trtb_adapter :
  exists s' tr, tr_run true true rx_c (tr0 true rx_c 0) rx_acts = Some (s', tr) /\
    Iface.run (trtb_elem rx_c 0) (tr0 true rx_c 0) (map r_of rx_acts) = Some (s', map r_ev tr) /\
    Iface.fwds (map r_ev tr) = [rx_p 0 256; rx_p 1 256; rx_p 2 256; rx_p 3 128] /\
    exists trm, tr_run true true rx_c (tr0 true rx_c 0) (map r_to (map r_of rx_acts)) = Some (s', trm) /\
                map r_ev tr = map r_ev trm /\ map r_of (map r_to (map r_of rx_acts)) = map r_of rx_acts.
Proof.
  destruct (tr_run true true rx_c (tr0 true rx_c 0) rx_acts) as [[s tr]|] eqn:E; [|vm_compute in E; discriminate].
  exists s, tr. split; [reflexivity|].
  destruct (C08_pipe_trtb_adapter_exact rx_c 0 (tr0 true rx_c 0) s) as (H1 & H2).
  pose proof (H1 _ _ E) as R. split; [exact R|]. pose proof (H2 _ _ R) as R2.
  vm_compute in E. injection E as <- <-. split; [vm_compute; reflexivity|]. exact R2.
Qed.
Print Assumptions C08_ex_pipe_trtb_adapter.

Theorem C08_ex_pipe_drr_adapter :
  exists s' tr, drr_run dex_cfg (drr0 0) dex_acts = Some (s', tr) /\
    Iface.run (drr_elem dex_cfg 0) (drr0 0) (map d_of dex_acts) = Some (s', map d_ev tr) /\
    map uid (Iface.fwds (map d_ev tr)) = [1; 2; 0; 3; 4]%nat /\
    exists tr0, drr_run dex_cfg (drr0 0) (map d_to (map d_of dex_acts)) = Some (s', tr0) /\
                map d_ev tr = map d_ev tr0 /\ map d_of (map d_to (map d_of dex_acts)) = map d_of dex_acts.
Proof.
  destruct (drr_run dex_cfg (drr0 0) dex_acts) as [[s tr]|] eqn:E; [|vm_compute in E; discriminate].
  exists s, tr. split; [reflexivity|].
  destruct (C08_pipe_drr_adapter_exact dex_cfg 0 (drr0 0) s) as (H1 & H2).
  pose proof (H1 _ _ E) as R. split; [exact R|]. pose proof (H2 _ _ R) as R2.
  vm_compute in E. injection E as <- <-. split; [vm_compute; reflexivity|]. exact R2.
Qed.
Print Assumptions C08_ex_pipe_drr_adapter.

(* SP as a configuration of the multi-queue automaton *)
Definition ax_cm : Z -> Z := cls_of [(0, 10); (1, 10); (2, 11)]%Z.
Definition ax_tbl : list (Z * Z) := [(10, 1); (11, 2)]%Z.
Definition ax_cfg : mq_cfg := sp_cfg true 1024 ax_cm [0; 1; 2]%Z ax_tbl.
Definition ax_run := mq_run ax_cfg (mq0 ax_cfg) sp_ex_acts.
Definition ax_s : mq := match ax_run with Some (s, _) => s | None => mq0 ax_cfg end.
Definition ax_tr : list SchedBase.tev := match ax_run with Some (_, tr) => tr | None => [] end.
Strategy expand [ax_run].
Fact ax_end0 : ax_run = Some (ax_s, ax_tr).
Proof. unfold ax_s, ax_tr. apply some_proj. vm_compute. reflexivity. Qed.
Fact ax_end : mq_run ax_cfg (mq0 ax_cfg) sp_ex_acts = Some (ax_s, ax_tr).
Proof. exact ax_end0. Qed.

Theorem C08_ex_pipe_mq_adapter :
  mq_run ax_cfg (mq0 ax_cfg) sp_ex_acts = Some (ax_s, ax_tr) /\
  run (mq_elem ax_cfg) (mq0 ax_cfg) (map s_of sp_ex_acts) = Some (ax_s, map s_ev ax_tr) /\
  map uid (fwds (map s_ev ax_tr)) = [2; 0; 1; 3]%nat /\
  exists tr0, mq_run ax_cfg (mq0 ax_cfg) (map s_to (map s_of sp_ex_acts)) = Some (ax_s, tr0) /\
              map s_ev ax_tr = map s_ev tr0 /\ map s_of (map s_to (map s_of sp_ex_acts)) = map s_of sp_ex_acts.
Proof.
  destruct (C08_pipe_mq_adapter_exact ax_cfg (mq0 ax_cfg) ax_s) as (H1 & H2).
  pose proof (H1 _ _ ax_end) as R. split; [exact ax_end|]. split; [exact R|]. split; [vm_compute; reflexivity|]. exact (H2 _ _ R).
Qed.
Print Assumptions C08_ex_pipe_mq_adapter.

(* WFQ through the generic server adapter *)
Definition bx_run := WFQServer.run (WS ex_wcfg) (wrate ex_wcfg) (wfq0 ex_wcfg) ex_wacts.
Definition bx_s : srv (WS ex_wcfg) := match bx_run with Some (s, _) => s | None => wfq0 ex_wcfg end.
Definition bx_tr : list (WFQServer.tev (WS ex_wcfg)) := match bx_run with Some (_, tr) => tr | None => [] end.
Strategy expand [bx_run].
Fact bx_end0 : bx_run = Some (bx_s, bx_tr).
Proof. unfold bx_s, bx_tr. apply some_proj. vm_compute. reflexivity. Qed.
Fact bx_end : WFQServer.run (WS ex_wcfg) (wrate ex_wcfg) (wfq0 ex_wcfg) ex_wacts = Some (bx_s, bx_tr).
Proof. exact bx_end0. Qed.
Fact bx_put_ok : Forall (put_ok (wconfb ex_wcfg)) ex_wacts.
Proof.
  unfold ex_wacts.
  repeat (constructor; [intros p H; first [discriminate H | injection H as <-; vm_compute; reflexivity]|]). constructor.
Qed.

Theorem C08_ex_pipe_srv_adapter :
  Forall (put_ok (wconfb ex_wcfg)) ex_wacts /\
  WFQServer.run (WS ex_wcfg) (wrate ex_wcfg) (wfq0 ex_wcfg) ex_wacts = Some (bx_s, bx_tr) /\
  Iface.run (srv_elem (WS ex_wcfg) (wrate ex_wcfg) wst0 (wconfb ex_wcfg)) (wfq0 ex_wcfg) (map f_of ex_wacts) = Some (bx_s, map (f_ev (WS ex_wcfg)) bx_tr) /\
  Iface.fwds (map (f_ev (WS ex_wcfg)) bx_tr) = [WFQInst.ex_p1; WFQInst.ex_p0; WFQInst.ex_p2] /\
  exists tr0, WFQServer.run (WS ex_wcfg) (wrate ex_wcfg) (wfq0 ex_wcfg) (map f_to (map f_of ex_wacts)) = Some (bx_s, tr0) /\
              map (f_ev (WS ex_wcfg)) bx_tr = map (f_ev (WS ex_wcfg)) tr0 /\ map f_of (map f_to (map f_of ex_wacts)) = map f_of ex_wacts /\
              Forall (put_ok (wconfb ex_wcfg)) (map f_to (map f_of ex_wacts)).
Proof.
  destruct (C08_pipe_srv_adapter_exact (WS ex_wcfg) (wrate ex_wcfg) wst0 (wconfb ex_wcfg) (wfq0 ex_wcfg) bx_s) as (H1 & H2).
  pose proof (H1 _ _ bx_put_ok bx_end) as R. split; [exact bx_put_ok|]. split; [exact bx_end|]. split; [exact R|].
  split; [vm_compute; reflexivity|]. exact (H2 _ _ R).
Qed.
Print Assumptions C08_ex_pipe_srv_adapter.

(* REDPort: the third put is refused on a draw (u = 1/4 below the drop probability 5/16), the fourth is kept on a draw *)
Definition ox_rc : redcfg := {| r_min := 128; r_max := 256; r_maxp := 1 # 2; r_qlimit := 384; r_w := 1; r_lb := true |}.
Definition ox_cfg : pcfg := red_cfg all_fixed 1024 ox_rc (Some 0%Z).
Definition oq (u : nat) (f sz : Z) : pkt := mkp u (Z.of_nat u + 1) f sz 0.
Definition ox_acts : list paction :=
  [PInit; PPut (oq 0 1 192) None; PPut (oq 1 0 128) None; PPut (oq 2 1 64) (Some (1#4)); PPut (oq 3 0 64) (Some (7#8));
   PStoreCb; PStoreCb; PStoreCb; Port.PGet; PAdvance (3#2); PTimer; Port.PGet; PAdvance (5#2); PTimer; Port.PGet; PAdvance 3; PTimer].

Theorem C08_ex_pipe_oport_adapter :
  exists s' tr0, draw_det ox_cfg /\ port_run ox_cfg (port0 0) ox_acts = Some (s', tr0) /\
    map uid (PortProofs.puts tr0) = [0; 1; 2; 3]%nat /\ map uid (forwarded tr0) = [0; 1; 3]%nat /\ map uid (dropped tr0) = [2]%nat /\
    exists tr, Iface.run (oport_elem ox_cfg 0) (port0 0, []) (flat_map o_of ox_acts) = Some ((s', []), tr) /\
      Iface.puts tr = PortProofs.puts tr0 /\ Iface.fwds tr = forwarded tr0 /\ Iface.drops tr = dropped tr0 /\
      exists tr1, port_run ox_cfg (port0 0) (o_model ox_cfg (port0 0) [] (flat_map o_of ox_acts)) = Some (s', tr1) /\
        Iface.puts tr = PortProofs.puts tr1 /\ Iface.fwds tr = forwarded tr1 /\ Iface.drops tr = dropped tr1.
Proof.
  destruct (port_run ox_cfg (port0 0) ox_acts) as [[s tr0]|] eqn:E; [|vm_compute in E; discriminate].
  exists s, tr0. destruct (C08_pipe_oport_adapter_exact ox_cfg 0) as (H1 & H2 & H3 & _).
  pose proof (H3 all_fixed 1024 ox_rc (Some 0%Z)) as DD. split; [exact DD|]. split; [reflexivity|].
  destruct (H2 DD _ _ _ _ E) as (tr & R & P1 & P2 & P3).
  pose proof (H1 _ _ _ _ _ _ R) as R1.
  vm_compute in E. injection E as <- <-.
  split; [vm_compute; reflexivity|]. split; [vm_compute; reflexivity|]. split; [vm_compute; reflexivity|].
  exists tr. split; [exact R|]. split; [exact P1|]. split; [exact P2|]. split; [exact P3|]. exact R1.
Qed.
Print Assumptions C08_ex_pipe_oport_adapter.

(* ---- the element configurations used above are well formed: the hypotheses of the per-element law theorems ---- *)
Fact cx_peak : forall k, peak_on BucketProofs.ex_c = Some k -> 0 < k.
Proof. intros k H. vm_compute in H. injection H as <-. reflexivity. Qed.
Fact cx_tbl_pos : forall k p, In (k, p) ax_tbl -> (0 < p)%Z.
Proof. intros k p [H|[H|[]]]; injection H as _ <-; reflexivity. Qed.
Fact cx_ws_pos : forall f w, In (f, w) [(0, 2); (1, 1)]%Z -> (0 < w)%Z.
Proof. intros k p [H|[H|[]]]; injection H as _ <-; reflexivity. Qed.
Fact cx_rx_wf : trwf rx_c.
Proof. apply trwf_pir; reflexivity. Qed.

Theorem C08_ex_pipe_configs :
  (0 < Bucket.rate BucketProofs.ex_c /\ (forall k, peak_on BucketProofs.ex_c = Some k -> 0 < k) /\ peak_on BucketProofs.ex_c = Some 4096) /\
  cfg_ok ax_cfg /\
  (0 < 1024 /\ forall k p, In (k, p) ax_tbl -> (0 < p)%Z) /\
  (0 < 1024 /\ forall f w, In (f, w) [(0, 2); (1, 1)]%Z -> (0 < w)%Z) /\
  wcfg_ok ex_wcfg /\ vcfg_ok ex_vcfg /\ dwf dex_cfg /\ trwf rx_c /\
  laws (tb_elem BucketProofs.ex_c 0) /\ timed (tb_elem BucketProofs.ex_c 0) /\
  laws (mq_elem ax_cfg) /\ laws (sp_elem 1024 ax_cm [0; 1; 2]%Z ax_tbl) /\ laws (rr_elem 1024 [0; 1]%Z) /\
  laws (wrr_elem 1024 [(0, 2); (1, 1)]%Z) /\
  laws (wfq_elem ex_wcfg) /\ tagged (wfq_elem ex_wcfg) /\ laws (vc_elem ex_vcfg) /\ tagged (vc_elem ex_vcfg) /\
  laws (drr_elem dex_cfg 0) /\ tagged (drr_elem dex_cfg 0) /\ laws (trtb_elem rx_c 0) /\ tagged (trtb_elem rx_c 0) /\
  Permutation (puts (map s_ev ax_tr)) (fwds (map s_ev ax_tr) ++ drops (map s_ev ax_tr) ++ held (mq_elem ax_cfg) ax_s).
Proof.
  assert (OK : cfg_ok ax_cfg) by exact (sp_cfg_ok true 1024 ax_cm [0; 1; 2]%Z ax_tbl eq_refl cx_tbl_pos).
  pose proof (proj1 (C08_pipe_mq_laws ax_cfg OK)) as LM.
  split; [exact (conj eq_refl (conj cx_peak eq_refl))|]. split; [exact OK|]. split; [exact (conj eq_refl cx_tbl_pos)|].
  split; [exact (conj eq_refl cx_ws_pos)|]. split; [exact ex_wcfg_ok|]. split; [exact ex_vcfg_ok|]. split; [exact dex_wf|].
  split; [exact cx_rx_wf|].
  split; [exact (proj1 (C08_pipe_tb_laws BucketProofs.ex_c 0 eq_refl cx_peak))|].
  split; [exact (proj2 (C08_pipe_tb_laws BucketProofs.ex_c 0 eq_refl cx_peak))|].
  split; [exact LM|].
  split; [exact (C08_pipe_sp_laws 1024 ax_cm [0; 1; 2]%Z ax_tbl eq_refl cx_tbl_pos)|].
  split; [exact (proj1 C08_pipe_rr_wrr_laws 1024 [0; 1]%Z eq_refl)|].
  split; [exact (proj2 C08_pipe_rr_wrr_laws 1024 [(0, 2); (1, 1)]%Z eq_refl cx_ws_pos)|].
  destruct (proj1 C08_pipe_wfq_vc_laws ex_wcfg ex_wcfg_ok) as (W1 & _ & W3).
  destruct (proj2 C08_pipe_wfq_vc_laws ex_vcfg ex_vcfg_ok) as (V1 & _ & V3).
  destruct (C08_pipe_drr_laws dex_cfg 0 dex_wf) as (D1 & _ & D3).
  destruct (C08_pipe_trtb_laws rx_c 0 cx_rx_wf) as (R1 & _ & R3).
  split; [exact W1|]. split; [exact W3|]. split; [exact V1|]. split; [exact V3|]. split; [exact D1|]. split; [exact D3|].
  split; [exact R1|]. split; [exact R3|].
  destruct (C08_pipe_mq_adapter_exact ax_cfg (mq0 ax_cfg) ax_s) as (H1 & _).
  exact (l_conserves _ LM _ _ _ (H1 _ _ ax_end)).
Qed.
Print Assumptions C08_ex_pipe_configs.
