(* C18 -- demuxes, switches, hubs, splitters and fat-tree FIBs deliver to the right place.
   Only statements, closed by the lemma that proves them, and their assumptions.
   Models: Route/Demux.v, Route/Hub.v, Route/FatTree.v, Route/Fib.v (tied to /repo by props/c18.py). *)
From Coq Require Import ZArith List Bool Arith.
From ONL Require Import Route.Demux Route.Hub Route.FatTree Route.Fib.
From ONL Require Import Route.DemuxProofs Route.HubProofs Route.FatTreeProofs Route.FibProofs Route.FatTreeFibProofs.
Import ListNotations.

(* ---- demuxes and switches -------------------------------------------------------------------- *)

(* FlowDemux: flow f goes to output f; otherwise to the default output; otherwise nowhere *)
Theorem C18_flowdemux_rule : forall (c : flowdemux_cfg) (f : Z),
  ((0 <= f < Z.of_nat (fd_nouts c))%Z -> flowdemux true c f = OOut (Z.to_nat f)) /\
  (~ (0 <= f < Z.of_nat (fd_nouts c))%Z -> fd_default c = true -> flowdemux true c f = ODefault) /\
  (~ (0 <= f < Z.of_nat (fd_nouts c))%Z -> fd_default c = false -> flowdemux true c f = ONowhere).
Proof. exact flowdemux_rule. Qed.
Print Assumptions C18_flowdemux_rule.

(* FIBDemux with any table t (the empty one included), any outputs (none included): the registered end
   device; else outs[t[f]]; else (port out of range, or flow not in the table) default / nowhere *)
Theorem C18_fibdemux_rule : forall (c : fibdemux_cfg) (t : list (Z * Z)) (f : Z),
  fb_fib c = Some t ->
  (forall d, lookup (fb_ends c) f = Some d -> fibdemux true true c f = OEnd d) /\
  (lookup (fb_ends c) f = None ->
     (forall p, lookup t f = Some p -> (0 <= p < Z.of_nat (nouts c))%Z -> fibdemux true true c f = OOut (Z.to_nat p)) /\
     (forall p, lookup t f = Some p -> (p < - Z.of_nat (nouts c) \/ Z.of_nat (nouts c) <= p)%Z ->
                fibdemux true true c f = dflt (fb_default c)) /\
     (lookup t f = None -> fibdemux true true c f = dflt (fb_default c))).
Proof. exact fibdemux_rule. Qed.
Print Assumptions C18_fibdemux_rule.

Theorem C18_fibdemux_empty_table : forall c f,
  fb_fib c = Some [] -> lookup (fb_ends c) f = None -> fibdemux true true c f = dflt (fb_default c).
Proof. exact fibdemux_empty_table. Qed.
Print Assumptions C18_fibdemux_empty_table.

Theorem C18_fibdemux_never_raises : forall c t f, fb_fib c = Some t -> forall e, fibdemux true true c f <> OError e.
Proof. exact fibdemux_total. Qed.
Print Assumptions C18_fibdemux_never_raises.

(* every packet reaches exactly one output (none when the rule says nowhere), also when the chosen
   output raises from its own put(): then the exception reaches the caller *)
Theorem C18_exactly_one_output : forall c raising f,
  let r := fib_deliveries true true true c raising f in
  (deliverable (fibdemux true true c f) = true -> fst r = [fibdemux true true c f]) /\
  (deliverable (fibdemux true true c f) = false -> fst r = []) /\
  (length (fst r) <= 1) /\
  (forall i, fibdemux true true c f = OOut i -> In i raising -> snd r = Some KeyError).
Proof. exact exactly_one_output. Qed.
Print Assumptions C18_exactly_one_output.

Theorem C18_simple_switch_rule : forall nports f,
  ((0 <= f < Z.of_nat nports)%Z -> simple_switch true nports f = OOut (Z.to_nat f)) /\
  (~ (0 <= f < Z.of_nat nports)%Z -> simple_switch true nports f = ONowhere).
Proof. exact simple_switch_rule. Qed.
Print Assumptions C18_simple_switch_rule.

(* FairPacketSwitch: scheduler i gets the packet exactly when the FIBDemux rule names egress port i;
   the flow class is handed to the scheduler and has no influence on the port *)
Theorem C18_fair_switch_rule : forall (c : fair_cfg) (f : Z),
  fair_switch true true c f = fibdemux true true (fair_demux_cfg c) f /\
  (forall i cl, fair_reaches true true c f = Some (i, cl) <-> (fibdemux true true (fair_demux_cfg c) f = OOut i /\ cl = fs_class c f)) /\
  (forall cls', fair_switch true true {| fs_nports := fs_nports c; fs_fib := fs_fib c; fs_ends := fs_ends c; fs_class := cls' |} f
                = fair_switch true true c f).
Proof. exact fair_switch_rule. Qed.
Print Assumptions C18_fair_switch_rule.

(* ---- hub and splitter ------------------------------------------------------------------------ *)

(* events (endpoint index, through its port device?) of one Hub.put: no index twice; an index occurs
   iff that endpoint's element_id differs from packet.src, with the port flag of that endpoint *)
Theorem C18_hub_repeats : forall (s : hub_state) (src : Z),
  NoDup (map fst (hub_put s src)) /\
  (forall i v, In (i, v) (hub_put s src) <-> exists e, nth_error s i = Some e /\ ep_id e <> src /\ v = ep_port e) /\
  (forall i e, nth_error s i = Some e -> ep_id e = src -> ~ In i (map fst (hub_put s src))).
Proof. exact hub_repeats. Qed.
Print Assumptions C18_hub_repeats.

Theorem C18_hub_make : forall eids ports,
  (ports = [] -> hub_make true eids ports = inl (map (fun i => {| ep_id := i; ep_port := false |}) eids)) /\
  (ports <> [] -> length ports = length eids ->
     exists s, hub_make true eids ports = inl s /\ length s = length eids /\
       forall i e, nth_error s i = Some e <->
                   exists id p, nth_error eids i = Some id /\ nth_error ports i = Some p /\ e = {| ep_id := id; ep_port := p |}) /\
  (ports <> [] -> length ports <> length eids -> hub_make true eids ports = inr HValueError).
Proof. exact hub_make_spec. Qed.
Print Assumptions C18_hub_make.

(* dynamic attachment: the send that follows ANY sequence of add_endpoint / element_id reassignments / earlier
   sends is repeated to exactly the endpoints attached so far other than the sender (nothing is remembered
   from earlier packets) *)
Theorem C18_hub_repeats_dynamic : forall (s : hub_state) (pre : list hub_act) (src : Z) (post : list hub_act),
  let cur := hub_after s pre in
  nth_error (hub_run s (pre ++ HSend src :: post)) (count_sends pre) = Some (hub_put cur src) /\
  NoDup (map fst (hub_put cur src)) /\
  (forall i v, In (i, v) (hub_put cur src) <-> exists e, nth_error cur i = Some e /\ ep_id e <> src /\ v = ep_port e) /\
  (forall i e, nth_error cur i = Some e -> ep_id e = src -> ~ In i (map fst (hub_put cur src))).
Proof. exact hub_repeats_dynamic. Qed.
Print Assumptions C18_hub_repeats_dynamic.

Theorem C18_hub_attached_so_far : forall (s : hub_state) (es : list hub_ep) (src : Z) (i : nat) (v : bool),
  In (i, v) (hub_put (hub_after s (map HAttach es)) src) <->
  exists e, nth_error (s ++ es) i = Some e /\ ep_id e <> src /\ v = ep_port e.
Proof. exact hub_attached_so_far. Qed.
Print Assumptions C18_hub_attached_so_far.

(* Splitter / NSplitter: see HubProofs.splitter_copies for the reading of the seven clauses *)
Theorem C18_splitter_copies : forall (att : list bool) (h : heap) (o : nat) (p : pobj),
  hget h o = Some p ->
  let h' := fst (splitter_put true att h o) in
  let ds := snd (splitter_put true att h o) in
  map fst ds = attached_from 0 att /\
  (forall o', In (0, o') ds -> o' = o) /\
  (forall i o', In (i, o') ds -> i <> 0 -> length h <= o' /\ o' <> o /\ hget h' o' = Some p) /\
  NoDup (map snd ds) /\
  (forall x, x < length h -> hget h' x = hget h x) /\
  (forall i1 o1 i2 o2 f v, In (i1, o1) ds -> In (i2, o2) ds -> o1 <> o2 ->
                           hget (hset h' o1 f v) o2 = hget h' o2) /\
  (forall i1 o1 f v, In (i1, o1) ds ->
                     hget (hset h' o1 f v) o1 = Some (set_hdr p f v) /\
                     forall g, hdr (set_hdr p f v) g = if field_eqb g f then v else hdr p g).
Proof. exact splitter_copies. Qed.
Print Assumptions C18_splitter_copies.

(* ---- fat tree, for every even k >= 2 ---------------------------------------------------------- *)

Theorem C18_ft_counts : forall k, Nat.even k = true -> 2 <= k ->
  length (ft_cores k) = (k / 2) * (k / 2) /\
  2 * length (ft_aggrs k) = k * k /\
  2 * length (ft_edgesw k) = k * k /\
  4 * length (ft_hosts k) = k * k * k /\
  NoDup (ft_cores k ++ ft_aggrs k ++ ft_edgesw k ++ ft_hosts k) /\
  length (ft_cores k ++ ft_aggrs k ++ ft_edgesw k ++ ft_hosts k) = ft_nnodes k /\
  (forall sw, In sw (ft_edgesw k) -> length (hosts_of k sw) = k / 2 /\ forall x, In x (hosts_of k sw) -> In x (ft_hosts k)).
Proof. exact ft_counts. Qed.
Print Assumptions C18_ft_counts.

Theorem C18_ft_degrees : forall k, Nat.even k = true -> 2 <= k ->
  (forall v, In v (ft_switches k) -> degree (ft_edges k) v = k) /\
  (forall v, In v (ft_hosts k) -> degree (ft_edges k) v = 1).
Proof. exact ft_degrees. Qed.
Print Assumptions C18_ft_degrees.

(* hostdist k x y (2, 4 or 6) is the graph distance between hosts x and y of fattree k *)
Theorem C18_hostdist_is_distance : forall k, Nat.even k = true -> 2 <= k ->
  forall x y, is_host k x = true -> is_host k y = true ->
  (forall rest, walkb (ft_edges k) (x :: rest) = true -> last (x :: rest) x = y -> hostdist k x y <= length rest) /\
  (exists rest, walkb (ft_edges k) (x :: rest) = true /\ last (x :: rest) x = y /\ length rest = hostdist k x y) /\
  (x <> y -> hostdist k x y = 2 \/ hostdist k x y = 4 \/ hostdist k x y = 6).
Proof. exact hostdist_is_distance. Qed.
Print Assumptions C18_hostdist_is_distance.

(* what the per-run Coq check path_ok of every generated path establishes (the part of "shortest path"
   that is a theorem; that networkx produces such paths is checked per run, not proved) *)
Theorem C18_path_ok_shortest_partial : forall k src dst p, Nat.even k = true -> 2 <= k -> path_ok k src dst p = true ->
  exists rest, p = src :: rest /\ last p src = dst /\ walkb (ft_edges k) p = true /\ nodupb p = true /\
    forall rest', walkb (ft_edges k) (src :: rest') = true -> last (src :: rest') src = dst -> length rest <= length rest'.
Proof. exact path_ok_shortest. Qed.
Print Assumptions C18_path_ok_shortest_partial.

(* ---- forwarding tables, any graph ------------------------------------------------------------- *)

Theorem C18_fib_follows_path : forall (nb : nbfun) (tcp : bool) (flows : list flow),
  (NoDup (map fid flows) /\
   forall fl, In fl flows -> (0 <= fid fl < 10000)%Z /\ NoDup (fpath fl) /\
     forall a z, In (a, z) (segs (fpath fl)) -> In z (nb a) /\ (tcp = true -> In a (nb z))) ->
  exists t, gen_fib nb tcp flows = Some t /\
    (forall fl i a z, In fl flows -> nth_error (fpath fl) i = Some a -> nth_error (fpath fl) (S i) = Some z ->
       (exists port, tget t a (fid fl) = Some (port, z) /\ p2n (nb a) port = Some z) /\
       (tcp = true -> exists rp, tget t z (ack_class (fid fl)) = Some (rp, a) /\ p2n (nb z) rp = Some a)) /\
    (tcp = false -> forall n c, (10000 <= c)%Z -> tget t n c = None).
Proof. exact fib_follows_path. Qed.
Print Assumptions C18_fib_follows_path.

Theorem C18_routed_delivery : forall (nb : nbfun) (tcp : bool) (flows : list flow) (t : table) (nports : nat -> nat),
  flows_ok nb tcp flows -> gen_fib nb tcp flows = Some t ->
  forall fl src rest fuel, In fl flows -> fpath fl = src :: rest -> length (fpath fl) <= fuel ->
    (forall n, In n (fpath fl) -> length (nb n) <= nports n) ->
    route true true fuel (mk_net nb t flows tcp nports) src (fid fl) [] = Delivered (sink_of (fid fl)) (fpath fl) /\
    (tcp = true -> forall dst, last_node (fpath fl) = Some dst ->
       route true true fuel (mk_net nb t flows tcp nports) dst (ack_class (fid fl)) []
       = Delivered (sink_of (ack_class (fid fl))) (rev (fpath fl))).
Proof. exact routed_delivery. Qed.
Print Assumptions C18_routed_delivery.

Theorem C18_fattree_delivery : forall k tcp flows,
  Nat.even k = true -> 2 <= k ->
  NoDup (map fid flows) ->
  (forall fl, In fl flows -> (0 <= fid fl < 10000)%Z /\ exists src dst, path_ok k src dst (fpath fl) = true) ->
  exists t, gen_fib (nbrs (ft_edges k)) tcp flows = Some t /\
    forall fl src dst, In fl flows -> path_ok k src dst (fpath fl) = true ->
      let w := mk_net (nbrs (ft_edges k)) t flows tcp (fun _ => k) in
      route true true 7 w src (fid fl) [] = Delivered (sink_of (fid fl)) (fpath fl) /\
      (tcp = true -> route true true 7 w dst (ack_class (fid fl)) [] = Delivered (sink_of (ack_class (fid fl))) (rev (fpath fl))).
Proof. exact fattree_delivery. Qed.
Print Assumptions C18_fattree_delivery.

(* ---- the code as found at the pinned commit violates the statements (before the fix: commits) --- *)

Theorem C18_flowdemux_refuted_before_fix :
  exists c f, (f < 0)%Z /\ flowdemux false c f = OOut 1 /\
  exists c' f', (f' < 0)%Z /\ flowdemux false c' f' = OError IndexError.
Proof. exact flowdemux_refuted_before_fix. Qed.
Print Assumptions C18_flowdemux_refuted_before_fix.

Theorem C18_fibdemux_refuted_before_fix :
  (exists c f, fb_fib c = Some [] /\ fb_default c = true /\ fibdemux false true c f = OError ValueError) /\
  (exists c t f, fb_fib c = Some t /\ nouts c = 0 /\ fb_default c = true /\ lookup (fb_ends c) f = None /\
                 fibdemux true false c f = OError AssertionError).
Proof. exact fibdemux_refuted_before_fix. Qed.
Print Assumptions C18_fibdemux_refuted_before_fix.

Theorem C18_exactly_one_refuted_before_fix :
  exists c raising f, length (fst (fib_deliveries true true false c raising f)) = 2.
Proof. exact exactly_one_refuted_before_fix. Qed.
Print Assumptions C18_exactly_one_refuted_before_fix.

Theorem C18_hub_refuted_before_fix : exists eids, eids <> [] /\ hub_make false eids [] = inr HIndexError.
Proof. exact hub_refuted_before_fix. Qed.
Print Assumptions C18_hub_refuted_before_fix.

Theorem C18_routed_delivery_refuted_before_fix :
  exists nb flows t fl, flows_ok nb false flows /\ gen_fib nb false flows = Some t /\ In fl flows /\
    route false true 5 (mk_net nb t flows false (fun n => length (nb n))) 0 (fid fl) [] = Raised ValueError [0; 1].
Proof. exact routed_delivery_refuted_before_fix. Qed.
Print Assumptions C18_routed_delivery_refuted_before_fix.
