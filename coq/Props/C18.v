(* C18 -- placeholder while the proofs are being written *)
From ONL Require Import Route.Demux Route.Hub Route.FatTree Route.Fib.
