(* C04 -- NON-VACUITY of the theorems of Props/C04.v: for every theorem that has hypotheses, a concrete non-trivial reachable state
   (or pair of states, or resumption) on which ALL its hypotheses hold together, with the concrete content of its conclusion there.

   The instance (Kernel/IntrWitness.v), family F: a victim (process 0) that waits for timeout(5), re-yields it after the first
   Interrupt and ends after the second; an interrupter (process 1) that waits for timeout(1), issues interrupt(7), interrupt(8),
   interrupt(9) on the victim in one resumption, yields its (processed) timeout again and ends.  [f_at k] is the state k steps after
   the module-level code; everything of interest happens at t = 1:
     f_at 0 / 1 / 2   nothing started / the victim started / both started, the interrupter's timeout (event 5) is next
     f_at 3           interruptions 6, 7, 8 pending (URGENT, eids 4 < 5 < 6) with two NORMAL entries (the victim's timeout, eid 2 -- OLDER
                      than the interruptions -- and the interrupter's termination); the interrupter is dead, the victim alive
     f_at 4           Interrupt(7) delivered, the victim re-attached to event 4;   f_at 5   Interrupt(8) delivered, the victim ended
     f_at 6           interruption 8 (for a dead process) dropped;                 f_at 7   the interrupter's termination processed
   exC_* (Kernel/IntrExamples.v): a process that interrupts itself.

   Coverage (theorem of Props/C04.v -> witness below):
     C04_invariant, C04_process_has_initialize, C04_waiter_unique ................. C04_ex_reach
     C04_interrupt_refused_dead, C04_dead_forever, C04_interrupt_refused_after_end,
       C04_events_monotone ....................................................... C04_ex_interrupt_refused_dead
     C04_interrupt_refused_self ................................................... C04_ex_interrupt_refused_self
     C04_finish_is_dead ........................................................... C04_ex_finish_is_dead
     C04_interrupt_accepted, C04_later_issue_later_eid ............................ C04_ex_interrupt_accepted
     C04_interruption_entry, C04_processed_interruption_gone, C04_pending_interruption_scheduled, C04_interrupt_before_normal,
       C04_interrupts_in_issue_order, C04_interrupt_step, C04_init_before_interrupt,
       C04_interrupt_callback_only_own_event ...................................... C04_ex_pending_interruptions
     C04_clock_frozen ............................................................. C04_ex_clock_frozen
     C04_interrupt_delivery, C04_detached_nowhere, C04_resume_feeds_outcome ....... C04_ex_interrupt_delivery
     C04_interrupt_dead_dropped ................................................... C04_ex_interrupt_dead_dropped
     C04_resumed_only_by_target, C04_untouched_unless_resumed ..................... C04_ex_resumed_only_by_target
     C04_yield_processed_continues ................................................ C04_ex_yield_processed_continues
     C04_yield_pending_waits ...................................................... C04_ex_yield_pending_waits
     C04_not_started, C04_not_started_untouched, C04_first_resumption_is_none ..... C04_ex_not_started
     C04_interruption_keeps_cause ................................................. C04_ex_interruption_keeps_cause
     C04_reach_run ................................................................ C04_ex_reach_run
   Unconditional (only typing binders / let): C04_detach_keeps_others.

   Proofs: computation on the closed terms (process records are kept abstract behind [get_proc .. = Some pr]: their normal forms
   contain the compiled programs), the deciders of Kernel/IntrWitness.v, and the lemma that closes the covered theorem (the name after
   [exact] in Props/C04.v) applied to the witness where a conclusion is not computable. *)
From Coq Require Import ZArith QArith List Bool Lia.
From ONL Require Import Kernel.Model Kernel.Keys Kernel.Script Kernel.IntrBase Kernel.IntrInv Kernel.IntrStep Kernel.Intr Kernel.IntrExamples
  Kernel.IntrWitness.
Import ListNotations.

(* [x = Some _] facts by computation on a projection, keeping the record abstract *)
Ltac proj H f := apply (opt_proj f _ _ _ H); vm_compute; reflexivity.
Ltac inl := vm_compute; tauto.

(* ---- C04_invariant (reach codes s), C04_process_has_initialize (reach /\ get_proc p s = Some pr), C04_waiter_unique (reach /\
   get_proc /\ live s p): the state with three pending interruptions ------------------------------------------------------------- *)
Theorem C04_ex_reach :
  exists pr, reach f_codes (f_at 3) /\ good (f_at 3) /\ get_proc 0%nat (f_at 3) = Some pr /\ live (f_at 3) 0%nat /\
    pev pr = 0%nat /\ ptarget pr = Some 4%nat /\
    (exists iev, get_event 1%nat (f_at 3) = Some iev /\ kind iev = KInit 0%nat) /\
    (exists tev, get_event 4%nat (f_at 3) = Some tev /\ cbs tev = Some [CbResume 0%nat]) /\
    map e_ev (agenda (f_at 3)) = [4; 6; 7; 8; 2]%nat.
Proof.
  assert (R : reach f_codes (f_at 3)) by (apply f_reach; lia).
  destruct (get_proc 0%nat (f_at 3)) as [pr|] eqn:Hp; [|vm_compute in Hp; discriminate].
  exists pr. split; [exact R|]. split; [apply reach_good with f_codes, R|]. split; [reflexivity|].
  split; [apply live_b_ok; vm_compute; reflexivity|].
  split; [proj Hp pev|]. split; [proj Hp ptarget|]. split; [eexists; split; [vm_compute; reflexivity|reflexivity]|].
  split; [eexists; split; [vm_compute; reflexivity|reflexivity]|]. vm_compute. reflexivity.
Qed.
Print Assumptions C04_ex_reach.

(* ---- C04_interrupt_refused_dead (get_event e s = Some ev /\ kind ev = KProcess p /\ out ev <> None), C04_dead_forever (pevK s /\
   trans_star codes s s' /\ dead s p), C04_interrupt_refused_after_end (reach /\ dead s p /\ trans_star), C04_events_monotone (pevK /\
   trans_star /\ get_event e s = Some ev).  In f_at 3 the interrupter (process 1, event 2) has ended and its Process event is
   triggered but NOT processed; four steps later (f_at 7) it is processed: refused in both ------------------------------------------- *)
Theorem C04_ex_interrupt_refused_dead :
  exists ev ev', reach f_codes (f_at 3) /\ pevK (f_at 3) /\ dead (f_at 3) 1%nat /\ trans_star f_codes (f_at 3) (f_at 7) /\
    get_event 2%nat (f_at 3) = Some ev /\ kind ev = KProcess 1%nat /\ out ev <> None /\ cbs ev <> None /\ In f_p2 (agenda (f_at 3)) /\
    do_call f_codes (CInterrupt 2%nat (VInt 1)) (f_at 3) = (f_at 3, Fail (kexn ERuntime M_terminated)) /\
    dead (f_at 7) 1%nat /\ get_event 2%nat (f_at 7) = Some ev' /\ cbs ev' = None /\ ev_mono ev ev' /\
    do_call f_codes (CInterrupt 2%nat (VInt 1)) (f_at 7) = (f_at 7, Fail (kexn ERuntime M_terminated)).
Proof.
  assert (R : reach f_codes (f_at 3)) by (apply f_reach; lia).
  assert (K : pevK (f_at 3)) by (apply iS_pev, (reach_good _ _ R)).
  assert (D : dead (f_at 3) 1%nat) by (apply dead_b_ok; vm_compute; reflexivity).
  assert (T : trans_star f_codes (f_at 3) (f_at 7)) by apply (f_trans 3 4).
  assert (E : exists ev, get_event 2%nat (f_at 3) = Some ev /\ kind ev = KProcess 1%nat /\ out ev <> None /\ cbs ev <> None).
  { eexists. split; [vm_compute; reflexivity|]. split; [reflexivity|]. split; discriminate. }
  destruct E as (ev & E & Ek & Eo & Ec).
  destruct (events_monotone f_codes _ _ 2%nat ev K T E) as (ev' & E' & M).
  exists ev, ev'. split; [exact R|]. split; [exact K|]. split; [exact D|]. split; [exact T|]. split; [exact E|]. split; [exact Ek|].
  split; [exact Eo|]. split; [exact Ec|]. split; [inl|].
  split; [apply (interrupt_refused_dead f_codes _ 2%nat ev 1%nat _ E Ek Eo)|].
  split; [apply (dead_forever f_codes _ _ 1%nat K T D)|]. split; [exact E'|].
  split; [proj E' cbs|]. split; [exact M|].
  vm_compute. reflexivity.
Qed.
Print Assumptions C04_ex_interrupt_refused_dead.

(* ---- C04_interrupt_refused_self (get_event e s = Some ev /\ kind ev = KProcess p /\ out ev = None /\ active s = Some p): the state
   in which the body of a process that interrupts itself starts to run (its Initialize popped, the process active); the step from
   exC_s1 passes through it and logs the RuntimeError ------------------------------------------------------------------------------ *)
Theorem C04_ex_interrupt_refused_self :
  let s := set_active (Some 0%nat) (popped (mkEntry 0 URGENT 0%nat 1%nat) [] exC_s1) in
  exists ev, pop_min (agenda exC_s1) = Some (mkEntry 0 URGENT 0%nat 1%nat, []) /\
    get_event 0%nat s = Some ev /\ kind ev = KProcess 0%nat /\ out ev = None /\ active s = Some 0%nat /\
    do_call exC_codes (CInterrupt 0%nat VNone) s = (s, Fail (kexn ERuntime M_self_interrupt)) /\
    hd_error (obs (fst (step 10 exC_codes exC_s1))) = Some (OLog (Some 0%nat) 0 (VList [VInt 2; VExn ERuntime [VInt M_self_interrupt]])).
Proof.
  cbn zeta. eexists. split; [vm_compute; reflexivity|]. split; [vm_compute; reflexivity|]. split; [reflexivity|]. split; [reflexivity|].
  split; [reflexivity|]. split; vm_compute; reflexivity.
Qed.
Print Assumptions C04_ex_interrupt_refused_self.

(* ---- C04_finish_is_dead (get_proc p s = Some pr /\ get_event (pev pr) s = Some ev): the live victim in f_at 4 ------------------ *)
Theorem C04_ex_finish_is_dead :
  exists pr ev, get_proc 0%nat (f_at 4) = Some pr /\ get_event (pev pr) (f_at 4) = Some ev /\ out ev = None /\
    dead (proc_finish 0%nat pr (Ok (VInt 3)) (f_at 4)) 0%nat /\
    map e_ev (agenda (proc_finish 0%nat pr (Ok (VInt 3)) (f_at 4))) = [4; 7; 8; 2; 0]%nat.
Proof.
  destruct (get_proc 0%nat (f_at 4)) as [pr|] eqn:Hp; [|vm_compute in Hp; discriminate].
  assert (Pe : pev pr = 0%nat) by proj Hp pev.
  assert (E : exists ev, get_event 0%nat (f_at 4) = Some ev /\ out ev = None) by (eexists; split; [vm_compute; reflexivity|reflexivity]).
  destruct E as (ev & E & O). exists pr, ev. split; [reflexivity|]. rewrite Pe. split; [exact E|]. split; [exact O|].
  assert (E' : get_event (pev pr) (f_at 4) = Some ev) by (rewrite Pe; exact E).
  destruct (finish_is_dead 0%nat pr (Ok (VInt 3)) (f_at 4) ev Hp E') as (D & _ & A).
  split; [exact D|]. rewrite A, map_app. cbn [map e_ev]. rewrite Pe. vm_compute. reflexivity.
Qed.
Print Assumptions C04_ex_finish_is_dead.

(* ---- C04_interrupt_accepted (get_event e s = Some ev /\ kind ev = KProcess p /\ out ev = None /\ active s <> Some p),
   C04_later_issue_later_eid (reach /\ the same /\ In x (agenda s)): a FOURTH interrupt() on the victim, issued at module level in
   f_at 3 while three are pending: its entry goes behind them (eid 8 > 6) ----------------------------------------------------------- *)
Theorem C04_ex_interrupt_accepted :
  exists ev, reach f_codes (f_at 3) /\ get_event 0%nat (f_at 3) = Some ev /\ kind ev = KProcess 0%nat /\ out ev = None /\
    active (f_at 3) <> Some 0%nat /\ In f_x8 (agenda (f_at 3)) /\
    let s' := fst (do_call f_codes (CInterrupt 0%nat (VInt 10)) (f_at 3)) in
    snd (do_call f_codes (CInterrupt 0%nat (VInt 10)) (f_at 3)) = Ok VNone /\
    agenda s' = agenda (f_at 3) ++ [mkEntry 1 URGENT 8%nat 9%nat] /\ (e_eid f_x8 < 8)%nat /\
    nth_error (events s') 9 = Some (mkEvent (Some [CbInterrupt 9%nat]) (Some (Fail (EInterrupt, [VInt 10]))) true (KInterruption 0%nat)).
Proof.
  eexists. split; [apply f_reach; lia|]. split; [vm_compute; reflexivity|]. split; [reflexivity|]. split; [reflexivity|].
  split; [vm_compute; discriminate|]. split; [inl|]. cbn zeta. split; [vm_compute; reflexivity|]. split; [vm_compute; reflexivity|].
  split; [vm_compute; lia|vm_compute; reflexivity].
Qed.
Print Assumptions C04_ex_interrupt_accepted.

(* ---- C04_interruption_entry, C04_processed_interruption_gone (reach /\ In x (agenda s) /\ get_event (e_ev x) s = Some iev /\
   kind iev = KInterruption p), C04_pending_interruption_scheduled (reach /\ get_event i s = Some iev /\ kind .. /\ cbs iev <> None),
   C04_interrupt_before_normal (.. /\ In y (agenda s) /\ e_prio y = NORMAL /\ pop_min (agenda s) = Some (m, rest)),
   C04_interrupts_in_issue_order (two interruptions x, y with e_eid x < e_eid y /\ pop_min ..),
   C04_interrupt_step, C04_init_before_interrupt (reach /\ pop_min .. /\ get_event (e_ev m) s = Some iev /\ kind iev = KInterruption p
   [/\ get_event ie s = Some ev /\ kind ev = KInit p]), C04_interrupt_callback_only_own_event (reach /\ get_event e s = Some ev /\
   cbs ev = Some l /\ In (CbInterrupt i) l): f_at 3, three pending interruptions and two NORMAL entries, one of them (the victim's
   timeout, eid 2) OLDER than all interruptions ------------------------------------------------------------------------------------ *)
Theorem C04_ex_pending_interruptions :
  exists ix iy iz ini, reach f_codes (f_at 3) /\
    agenda (f_at 3) = [f_t4; f_x6; f_x7; f_x8; f_p2] /\ pop_min (agenda (f_at 3)) = Some (f_x6, [f_t4; f_x7; f_x8; f_p2]) /\
    get_event 6%nat (f_at 3) = Some ix /\ kind ix = KInterruption 0%nat /\ cbs ix = Some [CbInterrupt 6%nat] /\
    get_event 7%nat (f_at 3) = Some iy /\ kind iy = KInterruption 0%nat /\ cbs iy = Some [CbInterrupt 7%nat] /\
    get_event 8%nat (f_at 3) = Some iz /\ kind iz = KInterruption 0%nat /\ cbs iz = Some [CbInterrupt 8%nat] /\
    out ix = Some (Fail (EInterrupt, [VInt 7])) /\ out iy = Some (Fail (EInterrupt, [VInt 8])) /\ out iz = Some (Fail (EInterrupt, [VInt 9])) /\
    (e_eid f_x6 < e_eid f_x7 < e_eid f_x8)%nat /\ e_prio f_t4 = NORMAL /\ e_prio f_p2 = NORMAL /\ (e_eid f_t4 < e_eid f_x6)%nat /\
    get_event 1%nat (f_at 3) = Some ini /\ kind ini = KInit 0%nat /\ cbs ini = None /\
    now (f_at 3) == 1 /\ e_time f_x6 == now (f_at 3).
Proof.
  eexists _, _, _, _. split; [apply f_reach; lia|]. split; [vm_compute; reflexivity|]. split; [vm_compute; reflexivity|].
  split; [vm_compute; reflexivity|]. split; [reflexivity|]. split; [reflexivity|].
  split; [vm_compute; reflexivity|]. split; [reflexivity|]. split; [reflexivity|].
  split; [vm_compute; reflexivity|]. split; [reflexivity|]. split; [reflexivity|].
  split; [reflexivity|]. split; [reflexivity|]. split; [reflexivity|]. split; [vm_compute; lia|]. split; [reflexivity|]. split; [reflexivity|].
  split; [vm_compute; lia|]. split; [vm_compute; reflexivity|]. split; [reflexivity|]. split; [reflexivity|].
  split; vm_compute; reflexivity.
Qed.
Print Assumptions C04_ex_pending_interruptions.

(* ---- C04_clock_frozen (reach s /\ reach s' /\ In x (agenda s) /\ In x (agenda s') /\ the event of x is an Interruption in both):
   interruption 7 is pending before and after the delivery of interruption 6 ------------------------------------------------------- *)
Theorem C04_ex_clock_frozen :
  exists iev iev', reach f_codes (f_at 3) /\ reach f_codes (f_at 4) /\ In f_x7 (agenda (f_at 3)) /\ In f_x7 (agenda (f_at 4)) /\
    get_event (e_ev f_x7) (f_at 3) = Some iev /\ kind iev = KInterruption 0%nat /\
    get_event (e_ev f_x7) (f_at 4) = Some iev' /\ kind iev' = KInterruption 0%nat /\
    f_at 4 <> f_at 3 /\ now (f_at 4) == now (f_at 3).
Proof.
  eexists _, _. split; [apply f_reach; lia|]. split; [apply f_reach; lia|]. split; [inl|]. split; [inl|].
  split; [vm_compute; reflexivity|]. split; [reflexivity|]. split; [vm_compute; reflexivity|]. split; [reflexivity|].
  split; [|vm_compute; reflexivity]. intros H. apply (f_equal (fun s => length (agenda s))) in H. vm_compute in H. discriminate.
Qed.
Print Assumptions C04_ex_clock_frozen.
(* ---- C04_interrupt_delivery (reach /\ pop_min (agenda s) = Some (m, rest) /\ get_event (e_ev m) s = Some iev /\ kind iev =
   KInterruption p /\ get_proc p s = Some pr /\ live s p /\ ptarget pr <> Some (e_ev m)), C04_detached_nowhere (reach /\ get_proc /\
   ptarget pr = Some t /\ get_event t s = Some tev /\ cbs tev = Some l /\ In (CbResume p) l /\ t <> e_ev m), C04_resume_feeds_outcome
   (get_event e s = Some ev /\ get_proc p s = Some pr /\ out ev = Some o): f_at 3, the victim waits for its timeout (event 4).  What
   the two deliveries do: Interrupt(7) at t = 1, the victim re-yields event 4 and is attached to it again, once; then Interrupt(8),
   in issue order, the victim ends; event 4 keeps its outcome and is left without callbacks --------------------------------------- *)
Theorem C04_ex_interrupt_delivery :
  exists iev pr tev, reach f_codes (f_at 3) /\ pop_min (agenda (f_at 3)) = Some (f_x6, [f_t4; f_x7; f_x8; f_p2]) /\
    get_event (e_ev f_x6) (f_at 3) = Some iev /\ kind iev = KInterruption 0%nat /\ out iev = Some (Fail (EInterrupt, [VInt 7])) /\
    get_proc 0%nat (f_at 3) = Some pr /\ live (f_at 3) 0%nat /\ ptarget pr <> Some (e_ev f_x6) /\
    ptarget pr = Some 4%nat /\ get_event 4%nat (f_at 3) = Some tev /\ cbs tev = Some [CbResume 0%nat] /\
    In (CbResume 0%nat) [CbResume 0%nat] /\ 4%nat <> e_ev f_x6 /\
    (* after the step *)
    firstn 2 (obs (f_at 4)) = [OLog (Some 0%nat) 1 (VList [VInt 1; VInt 1; VList [VInt 1; VExn EInterrupt [VInt 7]]]); OStep 6%nat 1] /\
    option_map ptarget (get_proc 0%nat (f_at 4)) = Some (Some 4%nat) /\
    option_map cbs (get_event 4%nat (f_at 4)) = Some (Some [CbResume 0%nat]) /\
    pop_min (agenda (f_at 4)) = Some (f_x7, [f_t4; f_x8; f_p2]) /\
    (* after the next one *)
    firstn 3 (obs (f_at 5)) = [OLog (Some 0%nat) 1 (VList [VInt 3; VExn EInterrupt [VInt 8]]);
                               OLog (Some 0%nat) 1 (VList [VInt 1; VInt 1; VList [VInt 1; VExn EInterrupt [VInt 8]]]); OStep 7%nat 1] /\
    dead (f_at 5) 0%nat /\
    option_map (fun e => (cbs e, out e)) (get_event 4%nat (f_at 5)) = Some (Some [], Some (Ok VNone)).
Proof.
  destruct (get_proc 0%nat (f_at 3)) as [pr|] eqn:Hp; [|vm_compute in Hp; discriminate].
  assert (Pt : ptarget pr = Some 4%nat) by proj Hp ptarget.
  eexists _, pr, _. split; [apply f_reach; lia|]. split; [vm_compute; reflexivity|]. split; [vm_compute; reflexivity|].
  split; [reflexivity|]. split; [reflexivity|]. split; [reflexivity|]. split; [apply live_b_ok; vm_compute; reflexivity|].
  split; [rewrite Pt; vm_compute; discriminate|]. split; [exact Pt|]. split; [vm_compute; reflexivity|]. split; [reflexivity|].
  split; [left; reflexivity|]. split; [vm_compute; discriminate|].
  split; [vm_compute; reflexivity|]. split; [vm_compute; reflexivity|]. split; [vm_compute; reflexivity|]. split; [vm_compute; reflexivity|].
  split; [vm_compute; reflexivity|]. split; [apply dead_b_ok; vm_compute; reflexivity|]. vm_compute. reflexivity.
Qed.
Print Assumptions C04_ex_interrupt_delivery.

(* ---- C04_interrupt_dead_dropped (reach /\ pop_min .. = Some (m, rest) /\ get_event (e_ev m) s = Some iev /\ kind iev =
   KInterruption p /\ dead s p [/\ cbs iev = Some [CbInterrupt (e_ev m)]]): in f_at 5 the victim has ended and interruption 8 (cause 9)
   is the minimum of the agenda: the step only removes it -------------------------------------------------------------------------- *)
Theorem C04_ex_interrupt_dead_dropped :
  let rest := [f_t4; f_p2; mkEntry 1 NORMAL 8%nat 0%nat] in
  exists iev, reach f_codes (f_at 5) /\ pop_min (agenda (f_at 5)) = Some (f_x8, rest) /\
    get_event (e_ev f_x8) (f_at 5) = Some iev /\ kind iev = KInterruption 0%nat /\ dead (f_at 5) 0%nat /\
    cbs iev = Some [CbInterrupt (e_ev f_x8)] /\
    step 10 f_codes (f_at 5) = (popped f_x8 rest (f_at 5), ROk) /\
    filter (fun o => match o with OStep _ _ => false | _ => true end) (obs (f_at 6)) =
    filter (fun o => match o with OStep _ _ => false | _ => true end) (obs (f_at 5)).
Proof.
  cbn zeta. eexists. split; [apply f_reach; lia|]. split; [vm_compute; reflexivity|]. split; [vm_compute; reflexivity|].
  split; [reflexivity|]. split; [apply dead_b_ok; vm_compute; reflexivity|]. split; [reflexivity|].
  split; vm_compute; reflexivity.
Qed.
Print Assumptions C04_ex_interrupt_dead_dropped.

(* ---- C04_resumed_only_by_target (reach /\ pop_min .. /\ get_event (e_ev m) s = Some ev /\ cbs ev = Some l /\ In (CbResume q) l),
   C04_untouched_unless_resumed (.. /\ get_proc q s = Some pr /\ ~ In (CbResume q) l /\ kind ev <> KInterruption q): in f_at 2 the
   interrupter's timeout (event 5) is processed next; it resumes process 1 only.  The victim's record is the same after that step
   although it was interrupted three times in it ------------------------------------------------------------------------------------ *)
Theorem C04_ex_resumed_only_by_target :
  exists ev pr1 pr0, reach f_codes (f_at 2) /\ pop_min (agenda (f_at 2)) = Some (mkEntry 1 NORMAL 3%nat 5%nat, [f_t4]) /\
    get_event 5%nat (f_at 2) = Some ev /\ cbs ev = Some [CbResume 1%nat] /\ In (CbResume 1%nat) [CbResume 1%nat] /\ kind ev = KTimeout /\
    get_proc 1%nat (f_at 2) = Some pr1 /\ ptarget pr1 = Some 5%nat /\
    get_proc 0%nat (f_at 2) = Some pr0 /\ ~ In (CbResume 0%nat) [CbResume 1%nat] /\ kind ev <> KInterruption 0%nat /\
    get_proc 0%nat (fst (step 10 f_codes (f_at 2))) = Some pr0 /\ length (agenda (fst (step 10 f_codes (f_at 2)))) = 5%nat.
Proof.
  assert (R : reach f_codes (f_at 2)) by (apply f_reach; lia).
  destruct (get_proc 1%nat (f_at 2)) as [pr1|] eqn:Hp1; [|vm_compute in Hp1; discriminate].
  destruct (get_proc 0%nat (f_at 2)) as [pr0|] eqn:Hp0; [|vm_compute in Hp0; discriminate].
  assert (P : pop_min (agenda (f_at 2)) = Some (mkEntry 1 NORMAL 3%nat 5%nat, [f_t4])) by (vm_compute; reflexivity).
  assert (E : exists ev, get_event 5%nat (f_at 2) = Some ev /\ cbs ev = Some [CbResume 1%nat] /\ kind ev = KTimeout)
    by (eexists; split; [vm_compute; reflexivity|split; reflexivity]).
  destruct E as (ev & E & C & K).
  assert (N : ~ In (CbResume 0%nat) [CbResume 1%nat]) by (intros [X|[]]; discriminate).
  assert (NK : kind ev <> KInterruption 0%nat) by (rewrite K; discriminate).
  exists ev, pr1, pr0. split; [exact R|]. split; [exact P|]. split; [exact E|]. split; [exact C|]. split; [left; reflexivity|].
  split; [exact K|]. split; [reflexivity|]. split; [proj Hp1 ptarget|]. split; [reflexivity|]. split; [exact N|]. split; [exact NK|].
  split; [|vm_compute; reflexivity].
  apply (untouched_unless_resumed 10 f_codes (f_at 2) _ _ ev _ 0%nat pr0 R P E C Hp0 N NK).
Qed.
Print Assumptions C04_ex_resumed_only_by_target.

(* ---- C04_yield_processed_continues (run_frag codes (resume (pcode pr) (pst pr) o) s1 = (s2, FrYield (VEv e') a) /\
   get_event e' (put_proc p (proc_set_st pr a) s2) = Some ev' /\ cbs ev' = None): the resumption of the interrupter by its timeout
   (event 5) in f_at 2: it issues the three interrupts (agenda 4, 6, 7, 8 at the yield) and yields event 5 AGAIN, which is being
   processed: it goes on at once with the value of event 5 ------------------------------------------------------------------------- *)
Theorem C04_ex_yield_processed_continues :
  exists pr s2 a ev', pop_min (agenda (f_at 2)) = Some (f_m5, [f_t4]) /\ get_proc 1%nat (f_at 2) = Some pr /\
    run_frag f_codes (resume (pcode pr) (pst pr) (Ok VNone)) f_s1_5 = (s2, FrYield (VEv 5%nat) a) /\
    get_event 5%nat (put_proc 1%nat (proc_set_st pr a) s2) = Some ev' /\ cbs ev' = None /\
    map e_ev (agenda s2) = [4; 6; 7; 8]%nat /\
    resume_with 9 f_codes 1%nat pr (Ok VNone) f_s1_5 = resume_loop 9 f_codes 1%nat 5%nat (put_proc 1%nat (proc_set_st pr a) s2).
Proof.
  assert (X : option_map (fun x => (fst (fst x), option_map cbs (get_event 5%nat (snd x)), map e_ev (agenda (snd (fst x)))))
                (yield_at f_codes 1%nat (Ok VNone) f_s1_5 (f_at 2)) = Some (5%nat, Some None, [4; 6; 7; 8]%nat)) by (vm_compute; reflexivity).
  destruct (yield_at_ok _ _ _ _ _ _ _ X) as (pr & e' & s2 & a & Hp & RF & Fb). cbn [fst snd] in Fb. injection Fb as -> Xc Xa.
  destruct (get_event 5%nat (put_proc 1%nat (proc_set_st pr a) s2)) as [ev'|] eqn:E; [|discriminate Xc].
  cbn [option_map] in Xc. injection Xc as Xc.
  exists pr, s2, a, ev'. split; [vm_compute; reflexivity|]. split; [exact Hp|]. split; [exact RF|]. split; [exact E|].
  split; [exact Xc|]. split; [exact Xa|]. apply (yield_processed_continues 9 f_codes 1%nat pr (Ok VNone) f_s1_5 s2 a 5%nat ev' RF E Xc).
Qed.
Print Assumptions C04_ex_yield_processed_continues.

(* ---- C04_yield_pending_waits (run_frag .. = (s2, FrYield (VEv e') a) /\ get_event e' s3 = Some ev' /\ cbs ev' = Some l /\
   get_proc p s2 = Some pr): the victim receives Interrupt(7) in f_s1_retry (the state C04_interrupt_delivery describes: detached
   from event 4) and yields its old target 4 again, which is pending with no callback left: it is attached again, once ----------- *)
Theorem C04_ex_yield_pending_waits :
  exists pr s2 a ev', get_proc 0%nat (f_at 3) = Some pr /\
    run_frag f_codes (resume (pcode pr) (pst pr) (Fail (EInterrupt, [VInt 7]))) f_s1_retry = (s2, FrYield (VEv 4%nat) a) /\
    let s3 := put_proc 0%nat (proc_set_st pr a) s2 in
    get_event 4%nat s3 = Some ev' /\ cbs ev' = Some [] /\ out ev' = Some (Ok VNone) /\ get_proc 0%nat s2 = Some pr /\
    resume_with 9 f_codes 0%nat pr (Fail (EInterrupt, [VInt 7])) f_s1_retry = (proc_wait 0%nat 4%nat s3, ROk) /\
    get_event 4%nat (proc_wait 0%nat 4%nat s3) = Some (ev_set_cbs (Some [CbResume 0%nat]) ev') /\
    get_proc 0%nat (proc_wait 0%nat 4%nat s3) = Some (proc_set_target (Some 4%nat) (proc_set_st pr a)).
Proof.
  assert (X : option_map (fun x => (fst (fst x), option_map (fun e => (cbs e, out e)) (get_event 4%nat (snd x))))
                (yield_at f_codes 0%nat (Fail (EInterrupt, [VInt 7])) f_s1_retry (f_at 3)) = Some (4%nat, Some (Some [], Some (Ok VNone))))
    by (vm_compute; reflexivity).
  destruct (yield_at_ok _ _ _ _ _ _ _ X) as (pr & e' & s2 & a & Hp & RF & Fb). cbn [fst snd] in Fb. injection Fb as -> Xc.
  destruct (get_event 4%nat (put_proc 0%nat (proc_set_st pr a) s2)) as [ev'|] eqn:E; [|discriminate Xc].
  cbn [option_map] in Xc. injection Xc as Xc Xo.
  destruct f_retry_ok as (K & Pk).
  assert (Hp2 : get_proc 0%nat s2 = Some pr).
  { pose proof (run_frag_keeps_proc f_codes (resume (pcode pr) (pst pr) (Fail (EInterrupt, [VInt 7]))) f_s1_retry 0%nat pr K (Pk _ _ Hp)) as Y.
    rewrite RF in Y. exact Y. }
  exists pr, s2, a, ev'. split; [exact Hp|]. split; [exact RF|]. cbn zeta. split; [exact E|]. split; [exact Xc|]. split; [exact Xo|].
  split; [exact Hp2|].
  exact (yield_pending_waits 9 f_codes 0%nat pr (Fail (EInterrupt, [VInt 7])) f_s1_retry s2 a 4%nat ev' [] RF E Xc Hp2).
Qed.
Print Assumptions C04_ex_yield_pending_waits.

(* ---- C04_not_started (reach /\ get_event ie s = Some ev /\ kind ev = KInit p /\ cbs ev <> None), C04_not_started_untouched
   (.. /\ get_proc p s = Some pr /\ pop_min (agenda s) = Some (m, rest) /\ e_ev m <> ie), C04_first_resumption_is_none (reach /\
   pop_min .. /\ get_event (e_ev m) s = Some ev /\ kind ev = KInit p).  f_at 0: the step pops the victim's Initialize (event 1) while
   the interrupter (Initialize = event 3) has not started: its record is untouched.  f_at 1: the interrupter's Initialize is popped,
   the victim already runs ------------------------------------------------------------------------------------------------------------ *)
Theorem C04_ex_not_started :
  exists ev3 pr1 ev1, reach f_codes (f_at 0) /\ get_event 3%nat (f_at 0) = Some ev3 /\ kind ev3 = KInit 1%nat /\ cbs ev3 <> None /\
    get_proc 1%nat (f_at 0) = Some pr1 /\ ptarget pr1 = Some 3%nat /\
    pop_min (agenda (f_at 0)) = Some (mkEntry 0 URGENT 0%nat 1%nat, [mkEntry 0 URGENT 1%nat 3%nat]) /\ 1%nat <> 3%nat /\
    get_event 1%nat (f_at 0) = Some ev1 /\ kind ev1 = KInit 0%nat /\ cbs ev1 = Some [CbResume 0%nat] /\
    get_proc 1%nat (f_at 1) = Some pr1 /\
    reach f_codes (f_at 1) /\ pop_min (agenda (f_at 1)) = Some (mkEntry 0 URGENT 1%nat 3%nat, [f_t4]) /\
    get_event 3%nat (f_at 1) = Some ev3 /\
    hd_error (obs (f_at 2)) = Some (OLog (Some 1%nat) 0 (VList [VInt 0])).
Proof.
  assert (R : reach f_codes (f_at 0)) by (apply f_reach; lia).
  destruct (get_proc 1%nat (f_at 0)) as [pr1|] eqn:Hp; [|vm_compute in Hp; discriminate].
  assert (E3 : exists ev3, get_event 3%nat (f_at 0) = Some ev3 /\ kind ev3 = KInit 1%nat /\ cbs ev3 <> None /\ get_event 3%nat (f_at 1) = Some ev3).
  { eexists. split; [vm_compute; reflexivity|]. split; [reflexivity|]. split; [discriminate|vm_compute; reflexivity]. }
  destruct E3 as (ev3 & E3 & K3 & C3 & E3').
  assert (P : pop_min (agenda (f_at 0)) = Some (mkEntry 0 URGENT 0%nat 1%nat, [mkEntry 0 URGENT 1%nat 3%nat])) by (vm_compute; reflexivity).
  exists ev3, pr1. eexists. split; [exact R|]. split; [exact E3|]. split; [exact K3|]. split; [exact C3|]. split; [reflexivity|].
  split; [proj Hp ptarget|]. split; [exact P|]. split; [discriminate|]. split; [vm_compute; reflexivity|]. split; [reflexivity|].
  split; [reflexivity|].
  split; [apply (not_started_untouched 10 f_codes (f_at 0) 3%nat ev3 1%nat pr1 _ _ R E3 K3 C3 Hp P); discriminate|].
  split; [apply f_reach; lia|]. split; [vm_compute; reflexivity|]. split; [exact E3'|]. vm_compute. reflexivity.
Qed.
Print Assumptions C04_ex_not_started.

(* ---- C04_interruption_keeps_cause (reach s /\ trans_star codes s s' /\ get_event i s = Some iev /\ kind iev = KInterruption p /\
   out iev = Some (Fail (EInterrupt, [cause]))): interruption 8 from its issue (f_at 3) until after it was dropped (f_at 6) -------- *)
Theorem C04_ex_interruption_keeps_cause :
  exists iev iev', reach f_codes (f_at 3) /\ trans_star f_codes (f_at 3) (f_at 6) /\
    get_event 8%nat (f_at 3) = Some iev /\ kind iev = KInterruption 0%nat /\ out iev = Some (Fail (EInterrupt, [VInt 9])) /\
    cbs iev = Some [CbInterrupt 8%nat] /\
    get_event 8%nat (f_at 6) = Some iev' /\ kind iev' = KInterruption 0%nat /\ out iev' = Some (Fail (EInterrupt, [VInt 9])) /\
    cbs iev' = None.
Proof.
  eexists _, _. split; [apply f_reach; lia|]. split; [apply (f_trans 3 3)|]. split; [vm_compute; reflexivity|].
  split; [reflexivity|]. split; [reflexivity|]. split; [reflexivity|]. split; [vm_compute; reflexivity|]. repeat split.
Qed.
Print Assumptions C04_ex_interruption_keeps_cause.

(* ---- C04_reach_run (reach s /\ forall s1, run_prelude u s = inr s1 -> steps_clean fuel fuel codes s1): run() from f_at 0 to the
   end (nine steps, all clean: interrupts never cut a callback loop short) ------------------------------------------------------------ *)
Theorem C04_ex_reach_run :
  reach f_codes (f_at 0) /\ (forall s1, run_prelude UNone (f_at 0) = inr s1 -> steps_clean 12 12 f_codes s1) /\
  snd (run 12 f_codes UNone (f_at 0)) = ROk /\ agenda (fst (run 12 f_codes UNone (f_at 0))) = [] /\
  now (fst (run 12 f_codes UNone (f_at 0))) == 5 /\ reach f_codes (fst (run 12 f_codes UNone (f_at 0))).
Proof.
  assert (R : reach f_codes (f_at 0)) by (apply f_reach; lia).
  assert (S : forall s1, run_prelude UNone (f_at 0) = inr s1 -> steps_clean 12 12 f_codes s1).
  { intros s1 H. cbn [run_prelude] in H. injection H as <-. vm_compute. repeat split. }
  split; [exact R|]. split; [exact S|]. split; [vm_compute; reflexivity|]. split; [vm_compute; reflexivity|].
  split; [vm_compute; reflexivity|]. apply reach_run; assumption.
Qed.
Print Assumptions C04_ex_reach_run.
