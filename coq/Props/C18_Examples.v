(* C18 -- NON-VACUITY of the theorems of Props/C18.v (and Props/C18_Bridge.v).
   An implication no reachable state satisfies means nothing: every theorem below is a machine-checked witness that ALL
   hypotheses of the theorems it covers -- the premises of every clause, where the theorem is a conjunction of
   implications -- hold together on a concrete, non-trivial instance (a demux with end devices, a table with a valid, an
   out-of-range and a missing entry, an output that raises; a hub with three endpoints and port devices; a splitter with
   four outputs one of which is detached; the fat tree with k = 4 and two flows that share links; a small general graph
   with two flows sharing a link), together with what the theorem's conclusion says there.

   Coverage (every hypothesis-carrying theorem of Props/C18.v):
     C18_ex_flowdemux          C18_flowdemux_rule, C18_simple_switch_rule             (premises of all clauses)
     C18_ex_fibdemux           C18_fibdemux_rule, C18_fibdemux_never_raises, C18_fibdemux_empty_table
     C18_ex_exactly_one        C18_exactly_one_output                                 (premises of all four clauses)
     C18_ex_fair_switch        C18_fair_switch_rule                                   (both sides of the equivalence)
     C18_ex_hub                C18_hub_repeats, C18_hub_make                          (premises of all clauses)
     C18_ex_splitter           C18_splitter_copies
     C18_ex_fattree_shape      C18_ft_counts, C18_ft_degrees, C18_hostdist_is_distance
     C18_ex_path_ok            C18_path_ok_shortest_partial
     C18_ex_fib_follows_path   C18_fib_follows_path
     C18_ex_routed_delivery    C18_routed_delivery
     C18_ex_fattree_delivery   C18_fattree_delivery
   Unconditional (equations for every configuration, no premises): C18_gen_flowdemux_put, C18_gen_fibdemux_put.
   Already witnesses (existential statements): C18_flowdemux_refuted_before_fix, C18_fibdemux_refuted_before_fix,
     C18_exactly_one_refuted_before_fix, C18_hub_refuted_before_fix, C18_routed_delivery_refuted_before_fix. *)
From Coq Require Import ZArith List Bool Arith Lia.
From ONL Require Import Route.Demux Route.Hub Route.FatTree Route.Fib.
From ONL Require Import Route.DemuxProofs Route.HubProofs Route.FatTreeProofs Route.FibProofs Route.FatTreeFibProofs.
Import ListNotations.

(* ---- demuxes and switches -------------------------------------------------------------------- *)

(* Covers C18_flowdemux_rule and C18_simple_switch_rule.  A FlowDemux with 3 outputs: flow 2 is in range; flow 5 is
   not and there is a default output; flow -1 is not (it would index from the end in Python) and there is none.
   A SimplePacketSwitch with 4 ports: flow 3 in range, flow -2 not. *)
Theorem C18_ex_flowdemux :
  let c := {| fd_nouts := 3; fd_default := true |} in
  let c' := {| fd_nouts := 3; fd_default := false |} in
  ((0 <= 2 < Z.of_nat (fd_nouts c))%Z /\ flowdemux true c 2 = OOut 2) /\
  (~ (0 <= 5 < Z.of_nat (fd_nouts c))%Z /\ fd_default c = true /\ flowdemux true c 5 = ODefault) /\
  (~ (0 <= -1 < Z.of_nat (fd_nouts c'))%Z /\ fd_default c' = false /\ flowdemux true c' (-1) = ONowhere) /\
  ((0 <= 3 < Z.of_nat 4)%Z /\ simple_switch true 4 3 = OOut 3) /\
  (~ (0 <= -2 < Z.of_nat 4)%Z /\ simple_switch true 4 (-2) = ONowhere).
Proof. cbv zeta. cbn. repeat split; try reflexivity; try lia. Qed.
Print Assumptions C18_ex_flowdemux.

(* the FIBDemux used below: table {1: 2, 3: 7, 4: 0}, three outputs, end device 5 registered for flow 9, a default output *)
Definition cFib : fibdemux_cfg :=
  {| fb_fib := Some [(1, 2); (3, 7); (4, 0)]%Z; fb_outs := Some 3; fb_ends := [(9%Z, 5)]; fb_default := true |}.
(* an EMPTY table (a valid table), two outputs, the same end device, no default output *)
Definition cFib0 : fibdemux_cfg :=
  {| fb_fib := Some []; fb_outs := Some 2; fb_ends := [(9%Z, 5)]; fb_default := false |}.

(* Covers C18_fibdemux_rule (every clause: flow 9 has an end device; flow 1 has none and the table names port 2 of 3;
   flow 3's port 7 is out of range; flow 8 is not in the table), C18_fibdemux_never_raises (a table is given) and
   C18_fibdemux_empty_table (table {}, flow 1 has no end device). *)
Theorem C18_ex_fibdemux :
  fb_fib cFib = Some [(1, 2); (3, 7); (4, 0)]%Z /\
  (lookup (fb_ends cFib) 9 = Some 5 /\ fibdemux true true cFib 9 = OEnd 5) /\
  (lookup (fb_ends cFib) 1 = None /\ lookup [(1, 2); (3, 7); (4, 0)]%Z 1 = Some 2%Z /\ (0 <= 2 < Z.of_nat (nouts cFib))%Z /\
   fibdemux true true cFib 1 = OOut 2) /\
  (lookup (fb_ends cFib) 3 = None /\ lookup [(1, 2); (3, 7); (4, 0)]%Z 3 = Some 7%Z /\
   (7 < - Z.of_nat (nouts cFib) \/ Z.of_nat (nouts cFib) <= 7)%Z /\ fibdemux true true cFib 3 = ODefault) /\
  (lookup (fb_ends cFib) 8 = None /\ lookup [(1, 2); (3, 7); (4, 0)]%Z 8 = None /\ fibdemux true true cFib 8 = ODefault) /\
  (forall f e, fibdemux true true cFib f <> OError e) /\
  (fb_fib cFib0 = Some [] /\ lookup (fb_ends cFib0) 1 = None /\ fibdemux true true cFib0 1 = ONowhere /\
   fibdemux true true cFib0 9 = OEnd 5).
Proof.
  split; [reflexivity|]. split; [split; reflexivity|].
  split; [repeat split; try reflexivity; cbn; lia|].
  split; [repeat split; try reflexivity; cbn; lia|].
  split; [repeat split; reflexivity|].
  split; [intros f e; apply (fibdemux_total cFib _ f eq_refl)|].
  repeat split; reflexivity.
Qed.
Print Assumptions C18_ex_fibdemux.

(* Covers C18_exactly_one_output, all four clauses: output 2 raises KeyError from its own put().  Flow 1 is deliverable
   (to output 2): exactly that one delivery, and the exception reaches the caller (no second delivery to the default
   output); flow 9 goes to its end device, once; with the empty table and no default, flow 1 is not deliverable:
   nothing is delivered. *)
Theorem C18_ex_exactly_one :
  (deliverable (fibdemux true true cFib 1) = true /\ fibdemux true true cFib 1 = OOut 2 /\ In 2 [2] /\
   fib_deliveries true true true cFib [2] 1 = ([OOut 2], Some KeyError)) /\
  (deliverable (fibdemux true true cFib 9) = true /\ fib_deliveries true true true cFib [2] 9 = ([OEnd 5], None)) /\
  (deliverable (fibdemux true true cFib0 1) = false /\ fib_deliveries true true true cFib0 [2] 1 = ([], None)) /\
  length (fst (fib_deliveries true true true cFib [2] 1)) <= 1.
Proof. repeat split; try reflexivity; cbn; auto. Qed.
Print Assumptions C18_ex_exactly_one.

(* Covers C18_fair_switch_rule: a FairPacketSwitch with 4 ports, table {1: 2, 2: 0}, end device 3 for flow 7, classes
   f mod 2.  Flow 1 reaches scheduler 2 under class 1 -- both sides of the equivalence hold for (2, 1); flow 7 reaches no
   scheduler (its end device takes it); another class function does not change the port. *)
Theorem C18_ex_fair_switch :
  let c := {| fs_nports := 4; fs_fib := Some [(1, 2); (2, 0)]%Z; fs_ends := [(7%Z, 3)]; fs_class := fun f => (f mod 2)%Z |} in
  fair_switch true true c 1 = OOut 2 /\
  fair_reaches true true c 1 = Some (2, 1%Z) /\
  (fibdemux true true (fair_demux_cfg c) 1 = OOut 2 /\ 1%Z = fs_class c 1) /\
  fair_reaches true true c 2 = Some (0, 0%Z) /\
  fair_switch true true c 7 = OEnd 3 /\ fair_reaches true true c 7 = None /\
  fair_switch true true {| fs_nports := 4; fs_fib := fs_fib c; fs_ends := fs_ends c; fs_class := fun _ => 9%Z |} 1 = OOut 2.
Proof. cbv zeta. repeat split; reflexivity. Qed.
Print Assumptions C18_ex_fair_switch.

(* ---- hub and splitter ------------------------------------------------------------------------ *)

(* Covers C18_hub_make (all three clauses) and C18_hub_repeats.  Endpoints with element ids 10, 20, 30: with the port
   list [yes; no; yes] the hub is built; a packet from 20 is repeated to endpoints 0 and 2, through their port devices,
   and not to endpoint 1 (whose id is the source); with no port list every endpoint is attached directly; with a port
   list of the wrong length the constructor raises ValueError. *)
Theorem C18_ex_hub :
  let s := [ {| ep_id := 10; ep_port := true |}; {| ep_id := 20; ep_port := false |}; {| ep_id := 30; ep_port := true |} ] in
  ([true; false; true] <> [] /\ length [true; false; true] = length [10; 20; 30]%Z /\
   hub_make true [10; 20; 30]%Z [true; false; true] = inl s) /\
  (hub_make true [10; 20; 30]%Z [] =
   inl [ {| ep_id := 10; ep_port := false |}; {| ep_id := 20; ep_port := false |}; {| ep_id := 30; ep_port := false |} ]) /\
  ([true; false] <> [] /\ length [true; false] <> length [10; 20; 30]%Z /\
   hub_make true [10; 20; 30]%Z [true; false] = inr HValueError) /\
  hub_put s 20 = [(0, true); (2, true)] /\
  (nth_error s 1 = Some {| ep_id := 20; ep_port := false |} /\ ~ In 1 (map fst (hub_put s 20))) /\
  (In (2, true) (hub_put s 20) /\ exists e, nth_error s 2 = Some e /\ ep_id e <> 20%Z /\ true = ep_port e) /\
  hub_put s 99 = [(0, true); (1, false); (2, true)].
Proof.
  cbv zeta. repeat split; try reflexivity; try discriminate.
  - cbn. intros [H|[H|[]]]; discriminate.
  - cbn. auto.
  - eexists. split; [reflexivity|]. split; [discriminate|reflexivity].
Qed.
Print Assumptions C18_ex_hub.

(* Covers C18_splitter_copies: a heap with two packets, the NSplitter has outputs 0, 1, 3 attached and 2 detached, and
   is handed object 1 (flow 3, src 7, dst 8, size 100; dict references 5 and 6).  Output 0 gets object 1 itself, outputs 1
   and 3 get the fresh objects 2 and 3 with the same header and the same dict references; writing dst = 99 into the copy
   at output 1 leaves the original and the other copy untouched. *)
Definition pA : pobj := {| hdr := mk_hdr [0; 64; 0; 0; 1; 2; 1; 0; 0; 0; 0]%Z; perhop_ref := 3; prio_ref := 4 |}.
Definition pB : pobj := {| hdr := mk_hdr [0; 100; 1; 0; 7; 8; 3; 0; 0; 0; 0]%Z; perhop_ref := 5; prio_ref := 6 |}.
Theorem C18_ex_splitter :
  let att := [true; true; false; true] in
  let h := [pA; pB] in
  let h' := fst (splitter_put true att h 1) in
  let ds := snd (splitter_put true att h 1) in
  hget h 1 = Some pB /\
  ds = [(0, 1); (1, 2); (3, 3)] /\ map fst ds = attached_from 0 att /\ length h' = 4 /\
  hget h' 2 = Some pB /\ hget h' 3 = Some pB /\ hget h' 0 = Some pA /\
  let h2 := hset h' 2 FDst 99%Z in
  option_map hdr_list (hget h2 2) = Some [0; 100; 1; 0; 7; 99; 3; 0; 0; 0; 0]%Z /\
  option_map hdr_list (hget h2 1) = Some [0; 100; 1; 0; 7; 8; 3; 0; 0; 0; 0]%Z /\
  option_map hdr_list (hget h2 3) = Some [0; 100; 1; 0; 7; 8; 3; 0; 0; 0; 0]%Z /\
  option_map perhop_ref (hget h2 2) = Some 5 /\ option_map prio_ref (hget h2 2) = Some 6.
Proof. cbv zeta. repeat split; reflexivity. Qed.
Print Assumptions C18_ex_splitter.

(* ---- fat tree --------------------------------------------------------------------------------- *)

(* Covers C18_ft_counts, C18_ft_degrees, C18_hostdist_is_distance with k = 4 (even, >= 2): 4 core, 8 aggregation, 8 edge
   switches, 16 hosts, 36 nodes; edge switch 6 (a member of ft_edgesw) has the 2 hosts 20, 21; core switch 0, aggregation
   switch 4 and edge switch 6 (members of ft_switches) have degree 4, host 20 degree 1; hosts 20 and 35 are different
   hosts in different pods: distance 6, and [20; 6; 4; 0; 16; 19; 35] is a walk of that length between them. *)
Theorem C18_ex_fattree_shape :
  Nat.even 4 = true /\ 2 <= 4 /\
  (length (ft_cores 4), length (ft_aggrs 4), length (ft_edgesw 4), length (ft_hosts 4), ft_nnodes 4) = (4, 8, 8, 16, 36) /\
  (In 6 (ft_edgesw 4) /\ hosts_of 4 6 = [20; 21]) /\
  (In 0 (ft_switches 4) /\ In 4 (ft_switches 4) /\ In 6 (ft_switches 4) /\
   map (degree (ft_edges 4)) [0; 4; 6] = [4; 4; 4]) /\
  (In 20 (ft_hosts 4) /\ degree (ft_edges 4) 20 = 1) /\
  (is_host 4 20 = true /\ is_host 4 35 = true /\ 20 <> 35 /\ hostdist 4 20 35 = 6 /\
   walkb (ft_edges 4) (20 :: [6; 4; 0; 16; 19; 35]) = true /\ last (20 :: [6; 4; 0; 16; 19; 35]) 20 = 35 /\
   length [6; 4; 0; 16; 19; 35] = hostdist 4 20 35 /\
   hostdist 4 20 21 = 2 /\ hostdist 4 20 22 = 4).
Proof.
  split; [reflexivity|]. split; [lia|]. split; [vm_compute; reflexivity|].
  split; [split; [vm_compute; auto 20|vm_compute; reflexivity]|].
  split; [split; [vm_compute; auto 30|split; [vm_compute; auto 30|split; [vm_compute; auto 30|vm_compute; reflexivity]]]|].
  split; [split; [vm_compute; auto 30|vm_compute; reflexivity]|].
  repeat split; try (vm_compute; reflexivity). lia.
Qed.
Print Assumptions C18_ex_fattree_shape.

(* the two flows used below (tests/apps/fattree.py style, k = 4): flow 1 from host 20 to host 35 through core switch 0,
   flow 2 from host 21 to host 22 inside pod 0; both use the link 6 - 4 *)
Definition flowsFT : list flow :=
  [ {| fid := 1%Z; fpath := [20; 6; 4; 0; 16; 19; 35] |}; {| fid := 2%Z; fpath := [21; 6; 4; 7; 22] |} ].

(* Covers C18_path_ok_shortest_partial: k = 4, and the per-run check accepts both paths (distinct hosts, a simple walk of
   length hostdist + 1); then they are shortest. *)
Theorem C18_ex_path_ok :
  Nat.even 4 = true /\ 2 <= 4 /\
  path_ok 4 20 35 [20; 6; 4; 0; 16; 19; 35] = true /\ path_ok 4 21 22 [21; 6; 4; 7; 22] = true /\
  (forall rest', walkb (ft_edges 4) (20 :: rest') = true -> last (20 :: rest') 20 = 35 -> 6 <= length rest') /\
  path_ok 4 20 35 [20; 6; 4; 2; 16; 19; 35] = false.
Proof.
  split; [reflexivity|]. split; [lia|]. split; [vm_compute; reflexivity|]. split; [vm_compute; reflexivity|].
  split; [|vm_compute; reflexivity].
  destruct (path_ok_shortest 4 20 35 [20; 6; 4; 0; 16; 19; 35] eq_refl ltac:(lia) ltac:(vm_compute; reflexivity))
    as (rest & Hp & _ & _ & _ & Hmin).
  injection Hp as <-. exact Hmin.
Qed.
Print Assumptions C18_ex_path_ok.

(* ---- forwarding tables ------------------------------------------------------------------------ *)

(* Covers C18_fib_follows_path on the fat tree's neighbour lists, with reverse (TCP) entries: distinct flow ids 1, 2 in
   [0, 10000), simple paths, consecutive nodes adjacent in both directions.  The generated table has 20 assignments; at
   the shared switch 6 flow 1 and flow 2 leave through the same port (towards 4), and the ACK class 10001 at switch 4
   leads back to 6. *)
Theorem C18_ex_fib_follows_path :
  let nb := nbrs (ft_edges 4) in
  (NoDup (map fid flowsFT) /\
   forall fl, In fl flowsFT -> (0 <= fid fl < 10000)%Z /\ NoDup (fpath fl) /\
     forall a z, In (a, z) (segs (fpath fl)) -> In z (nb a) /\ (true = true -> In a (nb z))) /\
  exists t, gen_fib nb true flowsFT = Some t /\ length t = 20 /\
    tget t 6 1%Z = Some (0, 4) /\ tget t 6 2%Z = Some (0, 4) /\ p2n (nb 6) 0 = Some 4 /\
    tget t 4 10001%Z = Some (0, 6) /\ p2n (nb 4) 0 = Some 6 /\
    tget t 4 1%Z = Some (2, 0) /\ tget t 4 2%Z = Some (1, 7) /\ tget t 35 10001%Z = Some (0, 19).
Proof.
  cbv zeta. split.
  - split; [cbn; repeat constructor; cbn; intuition discriminate|].
    intros fl [<-|[<-|[]]]; cbn [fid fpath]; (split; [lia|]);
      (split; [apply nodupb_NoDup; reflexivity|apply (walkb_walk_ok (ft_edges 4) true); vm_compute; reflexivity]).
  - destruct (gen_fib (nbrs (ft_edges 4)) true flowsFT) as [t|] eqn:Ht; [|vm_compute in Ht; discriminate].
    exists t. split; [reflexivity|]. vm_compute in Ht. injection Ht as <-. repeat split; vm_compute; reflexivity.
Qed.
Print Assumptions C18_ex_fib_follows_path.

(* Covers C18_routed_delivery on a graph that is not a fat tree: a triangle with a tail (edges 0-1, 1-2, 0-2, 2-3), flows
   5 = 0 -> 1 -> 2 -> 3 and 6 = 1 -> 2 sharing the link 1-2, TCP entries, every switch with one port per neighbour, fuel 4 =
   the length of the path.  Flow 5's packet visits exactly its path and ends in sink 5; its ACK class travels back. *)
Definition gTri : graph := [(0, 1); (1, 2); (0, 2); (2, 3)].
Definition flowsTri : list flow := [ {| fid := 5%Z; fpath := [0; 1; 2; 3] |}; {| fid := 6%Z; fpath := [1; 2] |} ].
Theorem C18_ex_routed_delivery :
  let nb := nbrs gTri in
  let fl := {| fid := 5%Z; fpath := [0; 1; 2; 3] |} in
  map nb [0; 1; 2; 3] = [[1; 2]; [0; 2]; [1; 0; 3]; [2]] /\
  flows_ok nb true flowsTri /\
  exists t, gen_fib nb true flowsTri = Some t /\
    In fl flowsTri /\ fpath fl = 0 :: [1; 2; 3] /\ length (fpath fl) <= 4 /\
    (forall n, In n (fpath fl) -> length (nb n) <= length (nb n)) /\
    last_node (fpath fl) = Some 3 /\
    route true true 4 (mk_net nb t flowsTri true (fun n => length (nb n))) 0 5%Z [] = Delivered 5 [0; 1; 2; 3] /\
    route true true 4 (mk_net nb t flowsTri true (fun n => length (nb n))) 3 10005%Z [] = Delivered (Z.to_nat 10005) [3; 2; 1; 0] /\
    route true true 4 (mk_net nb t flowsTri true (fun n => length (nb n))) 1 6%Z [] = Delivered 6 [1; 2].
Proof.
  cbv zeta.
  assert (Hok : flows_ok (nbrs gTri) true flowsTri).
  { split; [cbn; repeat constructor; cbn; intuition discriminate|].
    intros fl [<-|[<-|[]]]; cbn [fid fpath]; (split; [lia|]);
      (split; [apply nodupb_NoDup; reflexivity|apply (walkb_walk_ok gTri true); vm_compute; reflexivity]). }
  split; [vm_compute; reflexivity|]. split; [exact Hok|].
  destruct (gen_fib (nbrs gTri) true flowsTri) as [t|] eqn:Ht; [|vm_compute in Ht; discriminate].
  exists t. split; [reflexivity|]. split; [left; reflexivity|]. split; [reflexivity|]. split; [cbn; lia|].
  split; [intros n _; apply le_n|]. split; [reflexivity|].
  destruct (routed_delivery (nbrs gTri) true flowsTri t (fun n => length (nbrs gTri n)) Hok Ht
              {| fid := 5%Z; fpath := [0; 1; 2; 3] |} 0 [1; 2; 3] 4 (or_introl eq_refl) eq_refl ltac:(cbn; lia)
              (fun n _ => le_n _)) as [R1 R2].
  split; [exact R1|]. split; [exact (R2 eq_refl 3 eq_refl)|].
  vm_compute in Ht. injection Ht as <-. vm_compute. reflexivity.
Qed.
Print Assumptions C18_ex_routed_delivery.

(* Covers C18_fattree_delivery: k = 4, TCP entries, the two flows above: distinct ids in range, each path accepted by
   path_ok for its (src, dst).  In the simulated fat tree of 4-port FIB switches flow 1's packet put in at host 20 arrives
   at sink 1 having visited exactly its path, flow 2's at sink 2, and the ACK class of flow 1 put in at host 35 arrives at
   the ACK sink 10001 along the reverse path -- although both flows cross the link 6 - 4. *)
Theorem C18_ex_fattree_delivery :
  Nat.even 4 = true /\ 2 <= 4 /\ NoDup (map fid flowsFT) /\
  (forall fl, In fl flowsFT -> (0 <= fid fl < 10000)%Z /\ exists src dst, path_ok 4 src dst (fpath fl) = true) /\
  exists t, gen_fib (nbrs (ft_edges 4)) true flowsFT = Some t /\
    let w := mk_net (nbrs (ft_edges 4)) t flowsFT true (fun _ => 4) in
    route true true 7 w 20 1%Z [] = Delivered 1 [20; 6; 4; 0; 16; 19; 35] /\
    route true true 7 w 35 10001%Z [] = Delivered (Z.to_nat 10001) [35; 19; 16; 0; 4; 6; 20] /\
    route true true 7 w 21 2%Z [] = Delivered 2 [21; 6; 4; 7; 22] /\
    route true true 7 w 22 10002%Z [] = Delivered (Z.to_nat 10002) [22; 7; 4; 6; 21].
Proof.
  assert (Hnd : NoDup (map fid flowsFT)) by (cbn; repeat constructor; cbn; intuition discriminate).
  assert (Hfl : forall fl, In fl flowsFT -> (0 <= fid fl < 10000)%Z /\ exists src dst, path_ok 4 src dst (fpath fl) = true).
  { intros fl [<-|[<-|[]]]; cbn [fid fpath]; (split; [lia|]).
    - exists 20, 35. vm_compute. reflexivity.
    - exists 21, 22. vm_compute. reflexivity. }
  split; [reflexivity|]. split; [lia|]. split; [exact Hnd|]. split; [exact Hfl|].
  destruct (fattree_delivery 4 true flowsFT eq_refl ltac:(lia) Hnd Hfl) as (t & Ht & Hdel).
  exists t. split; [exact Ht|]. cbv zeta.
  destruct (Hdel {| fid := 1%Z; fpath := [20; 6; 4; 0; 16; 19; 35] |} 20 35 (or_introl eq_refl) ltac:(vm_compute; reflexivity))
    as [A1 A2].
  destruct (Hdel {| fid := 2%Z; fpath := [21; 6; 4; 7; 22] |} 21 22 (or_intror (or_introl eq_refl)) ltac:(vm_compute; reflexivity))
    as [B1 B2].
  split; [exact A1|]. split; [exact (A2 eq_refl)|]. split; [exact B1|exact (B2 eq_refl)].
Qed.
Print Assumptions C18_ex_fattree_delivery.
