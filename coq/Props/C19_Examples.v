(* C19 -- NON-VACUITY of the theorems of Props/C19.v (and Props/C19_Bridge.v, Props/C19_BridgeRun.v).

   "Beside each theorem prove an Example that a concrete non-trivial state meets its hypotheses; an implication no
   reachable state satisfies means nothing."  Every theorem below instantiates ALL hypotheses of one or several
   theorems of Props/C19.v at closed terms -- histories of one-shot and auto-restart timers with expiries, a restart at
   the very expiry instant, restarts and a stop from the callback, restarts while Initialize is still pending, calls on
   an expired timer -- proves them together, and states the concrete content of the instantiated conclusions (the
   instants and arguments of the callback invocations), obtained by running the model and by applying the very lemmas
   that close the theorems.

   Coverage (hypothesis-carrying theorems of Props/C19.v -> witness):
     C19_fires_at_expiry                        -> C19_ex_fires_at_expiry  (both disjuncts)
     C19_expired_one_shot_never_refires         -> C19_ex_expired_one_shot_never_refires
     C19_auto_restart_period                    -> C19_ex_auto_restart_period
     C19_stop_is_final                          -> C19_ex_stop_is_final  (stop by a foreign process; stop from the callback)
     C19_restart_rebases                        -> C19_ex_restart_rebases  (restart at the expiry instant, Timeout not yet processed)
     C19_restart_rebases_from_callback,
       C19_fires_only_at_expire_time            -> C19_ex_restart_from_callback
     C19_no_double_fire, C19_timer_never_raises,
       C19_single_live_process                  -> C19_ex_any_history
     C19_gen_timer_restart (Props/C19_Bridge.v) -> C19_ex_gen_timer_restart
   Already witnesses (existential statements): C19_raises_before_fix_scalar_args,
     C19_raises_before_fix_restart_from_callback, C19_raises_before_fix_restart_after_expiry.
   Unconditional (nothing to witness): C19_gen_timer_stop (Props/C19_Bridge.v); C19_gen_timer_run_init,
     C19_gen_timer_run_timeout, C19_gen_timer_run_interrupt, C19_gen_timer_run_explicit (Props/C19_BridgeRun.v):
     equations for all states. *)
From Coq Require Import ZArith QArith List Sorted Lia.
From ONL Require Import Elem.Timer Elem.TimerProofs Gen.Extracted_timer Elem.TimerBridge.
Import ListNotations.
Local Open Scope Q_scope.

(* state and trace a history leads to from a given start state (the theorems below prove timer_run … = Some (state, trace),
   so the defaults are never used) *)
Definition C19_st (s0 : timer) (acts : list taction) : timer :=
  match timer_run fixed s0 acts with Some (st, _) => st | None => s0 end.
Definition C19_tr (s0 : timer) (acts : list taction) : list tev :=
  match timer_run fixed s0 acts with Some (_, tr) => tr | None => [] end.

(* ---- hypotheses `0 < tau`, `norm_args fixed a = Some l`, `forallb quiet acts = true`,
        `timer_run fixed (timer0 fixed t0 tau false a) acts = Some (st, tr)` ----------------------------------------------
   covers C19_fires_at_expiry.  One-shot Timer(5) with the scalar argument 7 created at 1: the callback runs once, at 6,
   with [7]; stopped at 3 (a prefix of the same history) nothing has fired and the clock is before 6. *)
Definition C19_ex_one_shot : timer := timer0 fixed 1 5 false (AScalar 7).
Definition C19_ex_acts1 : list taction :=
  [ TProcInit 0; TAdvance 3; TAdvance 6; TProcTimeout 0 []; TProcEnd 0; TAdvance 20 ].

Theorem C19_ex_fires_at_expiry :
  let st := C19_st C19_ex_one_shot C19_ex_acts1 in
  let tr := C19_tr C19_ex_one_shot C19_ex_acts1 in
  let st3 := C19_st C19_ex_one_shot (firstn 2 C19_ex_acts1) in
  let tr3 := C19_tr C19_ex_one_shot (firstn 2 C19_ex_acts1) in
  0 < 5 /\ norm_args fixed (AScalar 7) = Some [7%Z]
  /\ forallb quiet C19_ex_acts1 = true
  /\ timer_run fixed C19_ex_one_shot C19_ex_acts1 = Some (st, tr)
  /\ timer_run fixed C19_ex_one_shot (firstn 2 C19_ex_acts1) = Some (st3, tr3)
  (* conclusions *)
  /\ (exists t, fires tr = [(t, [7%Z])] /\ t == 1 + 5)
  /\ fires tr = [(6, [7%Z])] /\ tnow st = 20
  /\ (fires tr3 = [] /\ tnow st3 <= 1 + 5) /\ tnow st3 = 3.
Proof.
  intros st tr st3 tr3.
  assert (Ht : 0 < 5) by reflexivity.
  assert (Hr : timer_run fixed C19_ex_one_shot C19_ex_acts1 = Some (st, tr)) by (vm_compute; reflexivity).
  assert (Hr3 : timer_run fixed C19_ex_one_shot (firstn 2 C19_ex_acts1) = Some (st3, tr3)) by (vm_compute; reflexivity).
  split; [exact Ht|]. split; [reflexivity|]. split; [reflexivity|]. split; [exact Hr|]. split; [exact Hr3|].
  split.
  { destruct (fires_at_expiry 1 5 (AScalar 7) [7%Z] C19_ex_acts1 st tr Ht eq_refl eq_refl Hr) as [[F _]|H]; [|exact H].
    exfalso. vm_compute in F. discriminate F. }
  split; [vm_compute; reflexivity|]. split; [vm_compute; reflexivity|].
  split; [|vm_compute; reflexivity].
  destruct (fires_at_expiry 1 5 (AScalar 7) [7%Z] (firstn 2 C19_ex_acts1) st3 tr3 Ht eq_refl eq_refl Hr3)
    as [H|(t & F & _)]; [exact H|].
  exfalso. vm_compute in F. discriminate F.
Qed.
Print Assumptions C19_ex_fires_at_expiry.

(* ---- … `forallb quiet pre = true`, `timer_run … pre = Some (st1, tr1)`, `fires tr1 <> []`,
        `timer_run fixed st1 post = Some (st, tr)` ---------------------------------------------------------------------------
   covers C19_expired_one_shot_never_refires.  After the callback ran at 6: restart(3) in the same instant, the Process
   event, the clock to 9, stop(), restart(2), the clock to 30 -- all admissible, nothing raises, nothing fires. *)
Definition C19_ex_post1 : list taction := [ TRestart 3; TProcEnd 0; TAdvance 9; TStop; TRestart 2; TAdvance 30 ].

Theorem C19_ex_expired_one_shot_never_refires :
  let pre := firstn 4 C19_ex_acts1 in
  let st1 := C19_st C19_ex_one_shot pre in
  let tr1 := C19_tr C19_ex_one_shot pre in
  let st := C19_st st1 C19_ex_post1 in
  let tr := C19_tr st1 C19_ex_post1 in
  0 < 5 /\ norm_args fixed (AScalar 7) = Some [7%Z]
  /\ forallb quiet pre = true
  /\ timer_run fixed C19_ex_one_shot pre = Some (st1, tr1)
  /\ fires tr1 <> []
  /\ timer_run fixed st1 C19_ex_post1 = Some (st, tr)
  (* conclusion *)
  /\ fires tr = [] /\ length tr = 6%nat /\ tnow st = 30 /\ err st = None.
Proof.
  intros pre st1 tr1 st tr.
  assert (Ht : 0 < 5) by reflexivity.
  assert (Hr1 : timer_run fixed C19_ex_one_shot pre = Some (st1, tr1)) by (vm_compute; reflexivity).
  assert (Hf : fires tr1 <> []) by (vm_compute; discriminate).
  assert (Hr : timer_run fixed st1 C19_ex_post1 = Some (st, tr)) by (vm_compute; reflexivity).
  split; [exact Ht|]. split; [reflexivity|]. split; [reflexivity|]. split; [exact Hr1|]. split; [exact Hf|].
  split; [exact Hr|].
  split; [exact (expired_one_shot_never_refires 1 5 (AScalar 7) [7%Z] pre C19_ex_post1 st1 tr1 st tr Ht eq_refl eq_refl Hr1 Hf Hr)|].
  repeat split; vm_compute; reflexivity.
Qed.
Print Assumptions C19_ex_expired_one_shot_never_refires.

(* ---- hypotheses as for C19_fires_at_expiry with auto_restart = true: covers C19_auto_restart_period -----------------------
   Timer(5, auto_restart, args [1; 2]) created at 1: callbacks at 6, 11, 16; at 18 the clock is before the next expiry 21. *)
Definition C19_ex_auto : timer := timer0 fixed 1 5 true (AList [1; 2]%Z).
Definition C19_ex_acts3 : list taction :=
  [ TProcInit 0; TAdvance 6; TProcTimeout 0 []; TAdvance 11; TProcTimeout 0 []; TAdvance 16; TProcTimeout 0 []; TAdvance 18 ].

Theorem C19_ex_auto_restart_period :
  let st := C19_st C19_ex_auto C19_ex_acts3 in
  let tr := C19_tr C19_ex_auto C19_ex_acts3 in
  0 < 5 /\ norm_args fixed (AList [1; 2]%Z) = Some [1; 2]%Z
  /\ forallb quiet C19_ex_acts3 = true
  /\ timer_run fixed C19_ex_auto C19_ex_acts3 = Some (st, tr)
  (* conclusions *)
  /\ (forall k f, nth_error (fires tr) k = Some f ->
        fst f == 1 + 5 + inject_Z (Z.of_nat k) * 5 /\ snd f = [1; 2]%Z)
  /\ tnow st <= 1 + 5 + inject_Z (Z.of_nat (length (fires tr))) * 5
  /\ fires tr = [(6, [1; 2]%Z); (11, [1; 2]%Z); (16, [1; 2]%Z)] /\ tnow st = 18.
Proof.
  intros st tr.
  assert (Ht : 0 < 5) by reflexivity.
  assert (Hr : timer_run fixed C19_ex_auto C19_ex_acts3 = Some (st, tr)) by (vm_compute; reflexivity).
  split; [exact Ht|]. split; [reflexivity|]. split; [reflexivity|]. split; [exact Hr|].
  destruct (auto_restart_period 1 5 (AList [1; 2]%Z) [1; 2]%Z C19_ex_acts3 st tr Ht eq_refl eq_refl Hr) as [P1 P2].
  split; [exact P1|]. split; [exact P2|]. split; vm_compute; reflexivity.
Qed.
Print Assumptions C19_ex_auto_restart_period.

(* ---- hypotheses `timer_run fixed (timer0 …) (pre ++ post) = Some (st, tr)`, `exists x, In x pre /\ is_stop x` --------------
   covers C19_stop_is_final, for both kinds of stop.  (a) The auto-restart timer fires at 6, a foreign process stops it
   at 8; then the old Timeout at 11 is processed (no callback), restart(4), the clock to 30: nothing fires.
   (b) The callback at 6 calls stop() itself; the Timeout re-armed for 11 is processed without a callback. *)
Definition C19_ex_pre4 : list taction := [ TProcInit 0; TAdvance 6; TProcTimeout 0 []; TAdvance 8; TStop ].
Definition C19_ex_post4 : list taction := [ TAdvance 11; TProcTimeout 0 []; TRestart 4; TProcEnd 0; TAdvance 30 ].
Definition C19_ex_pre4b : list taction := [ TProcInit 0; TAdvance 6; TProcTimeout 0 [CStop] ].
Definition C19_ex_post4b : list taction := [ TAdvance 11; TProcTimeout 0 []; TProcEnd 0; TRestart 4; TAdvance 30 ].

Theorem C19_ex_stop_is_final :
  let st := C19_st C19_ex_auto (C19_ex_pre4 ++ C19_ex_post4) in
  let tr := C19_tr C19_ex_auto (C19_ex_pre4 ++ C19_ex_post4) in
  let stb := C19_st C19_ex_auto (C19_ex_pre4b ++ C19_ex_post4b) in
  let trb := C19_tr C19_ex_auto (C19_ex_pre4b ++ C19_ex_post4b) in
  timer_run fixed C19_ex_auto (C19_ex_pre4 ++ C19_ex_post4) = Some (st, tr)
  /\ (exists x, In x C19_ex_pre4 /\ is_stop x)
  /\ timer_run fixed C19_ex_auto (C19_ex_pre4b ++ C19_ex_post4b) = Some (stb, trb)
  /\ (exists x, In x C19_ex_pre4b /\ is_stop x)
  (* conclusions *)
  /\ (exists st1 tr1 tr2, timer_run fixed C19_ex_auto C19_ex_pre4 = Some (st1, tr1) /\
                          timer_run fixed st1 C19_ex_post4 = Some (st, tr2) /\ tr = tr1 ++ tr2 /\
                          stopped st1 = true /\ fires tr2 = [])
  /\ fires tr = [(6, [1; 2]%Z)] /\ tnow st = 30
  /\ (exists st1 tr1 tr2, timer_run fixed C19_ex_auto C19_ex_pre4b = Some (st1, tr1) /\
                          timer_run fixed st1 C19_ex_post4b = Some (stb, tr2) /\ trb = tr1 ++ tr2 /\
                          stopped st1 = true /\ fires tr2 = [])
  /\ fires trb = [(6, [1; 2]%Z)] /\ tnow stb = 30.
Proof.
  intros st tr stb trb.
  assert (Hr : timer_run fixed C19_ex_auto (C19_ex_pre4 ++ C19_ex_post4) = Some (st, tr)) by (vm_compute; reflexivity).
  assert (Hs : exists x, In x C19_ex_pre4 /\ is_stop x).
  { exists TStop. split; [do 4 right; left; reflexivity|left; reflexivity]. }
  assert (Hrb : timer_run fixed C19_ex_auto (C19_ex_pre4b ++ C19_ex_post4b) = Some (stb, trb)) by (vm_compute; reflexivity).
  assert (Hsb : exists x, In x C19_ex_pre4b /\ is_stop x).
  { exists (TProcTimeout 0 [CStop]). split; [do 2 right; left; reflexivity|].
    right. exists 0%nat, [CStop]. split; [reflexivity|left; reflexivity]. }
  split; [exact Hr|]. split; [exact Hs|]. split; [exact Hrb|]. split; [exact Hsb|].
  split; [exact (stop_is_final 1 5 true (AList [1; 2]%Z) C19_ex_pre4 C19_ex_post4 st tr Hr Hs)|].
  split; [vm_compute; reflexivity|]. split; [vm_compute; reflexivity|].
  split; [exact (stop_is_final 1 5 true (AList [1; 2]%Z) C19_ex_pre4b C19_ex_post4b stb trb Hrb Hsb)|].
  split; vm_compute; reflexivity.
Qed.
Print Assumptions C19_ex_stop_is_final.

(* ---- hypotheses `norm_args fixed a = Some l`, `timer_run fixed (timer0 …) pre = Some (st, trp)`, `stopped st = false`,
        `cur_alive st = true`, `0 < tau'`, `forallb quiet acts = true`, `timer_run fixed st (TRestart tau' :: acts) = Some (st', tr)` ----
   covers C19_restart_rebases, at the sharpest instant: one-shot Timer(5) created at 0; at 5 -- the expiry instant, the
   Timeout not yet processed -- a foreign process calls restart(3).  The old process is interrupted and ends, the new one
   waits until 8: the callback runs at 8 = 5 + 3 and NOT at the old expiry 5. *)
Definition C19_ex_one_shot0 : timer := timer0 fixed 0 5 false (AScalar 7).
Definition C19_ex_pre5 : list taction := [ TProcInit 0; TAdvance 5 ].
Definition C19_ex_acts5 : list taction :=
  [ TProcInterrupt 0; TProcInit 1; TProcEnd 0; TAdvance 8; TProcTimeout 1 []; TProcEnd 1; TAdvance 20 ].

Theorem C19_ex_restart_rebases :
  let st := C19_st C19_ex_one_shot0 C19_ex_pre5 in
  let trp := C19_tr C19_ex_one_shot0 C19_ex_pre5 in
  let st' := C19_st st (TRestart 3 :: C19_ex_acts5) in
  let tr := C19_tr st (TRestart 3 :: C19_ex_acts5) in
  norm_args fixed (AScalar 7) = Some [7%Z]
  /\ timer_run fixed C19_ex_one_shot0 C19_ex_pre5 = Some (st, trp)
  /\ stopped st = false /\ cur_alive st = true /\ 0 < 3
  /\ forallb quiet C19_ex_acts5 = true
  /\ timer_run fixed st (TRestart 3 :: C19_ex_acts5) = Some (st', tr)
  (* the state at the call: the clock is AT the old expiry *)
  /\ tnow st = 5 /\ expire st == 5 /\ fires trp = []
  (* conclusions *)
  /\ fires_from false (tnow st + 3) 3 [7%Z] (fires tr) (tnow st')
  /\ Forall (fun f => tnow st + 3 <= fst f) (fires tr)
  /\ fires tr = [(8, [7%Z])] /\ tnow st' = 20.
Proof.
  intros st trp st' tr.
  assert (Hrp : timer_run fixed C19_ex_one_shot0 C19_ex_pre5 = Some (st, trp)) by (vm_compute; reflexivity).
  assert (Hs : stopped st = false) by (vm_compute; reflexivity).
  assert (Ha : cur_alive st = true) by (vm_compute; reflexivity).
  assert (Ht : 0 < 3) by reflexivity.
  assert (Hr : timer_run fixed st (TRestart 3 :: C19_ex_acts5) = Some (st', tr)) by (vm_compute; reflexivity).
  split; [reflexivity|]. split; [exact Hrp|]. split; [exact Hs|]. split; [exact Ha|]. split; [exact Ht|].
  split; [reflexivity|]. split; [exact Hr|].
  split; [vm_compute; reflexivity|]. split; [vm_compute; reflexivity|]. split; [vm_compute; reflexivity|].
  destruct (restart_rebases 0 5 false (AScalar 7) [7%Z] C19_ex_pre5 st trp 3 C19_ex_acts5 st' tr eq_refl Hrp Hs Ha Ht eq_refl Hr)
    as [R1 R2].
  split; [exact R1|]. split; [exact R2|]. split; vm_compute; reflexivity.
Qed.
Print Assumptions C19_ex_restart_rebases.

(* ---- hypotheses … `~ In CStop cs0`, `timer_run fixed st (TProcTimeout i (cs0 ++ [CRestart tau']) :: acts) = Some (st', tr)`;
        `timer_act fixed st x = Some (st', outs)`, `outs <> []` -------------------------------------------------------------------
   covers C19_restart_rebases_from_callback, C19_fires_only_at_expire_time.  Auto-restart Timer(5, args [4]) created at 0.
   Its callback at 5 calls restart(1) and then restart(2) on its own timer (the way the TCP sender re-arms its
   retransmission timer): this callback is at 5, the next ones at 7 and 9 -- period 2 from the instant of the call. *)
Definition C19_ex_auto0 : timer := timer0 fixed 0 5 true (AList [4]%Z).
Definition C19_ex_acts6 : list taction := [ TAdvance 7; TProcTimeout 0 []; TAdvance 9; TProcTimeout 0 []; TAdvance 10 ].

Theorem C19_ex_restart_from_callback :
  let st := C19_st C19_ex_auto0 C19_ex_pre5 in
  let trp := C19_tr C19_ex_auto0 C19_ex_pre5 in
  let x := TProcTimeout 0 ([CRestart 1] ++ [CRestart 2]) in
  let st' := C19_st st (x :: C19_ex_acts6) in
  let tr := C19_tr st (x :: C19_ex_acts6) in
  let st1 := C19_st st [x] in
  norm_args fixed (AList [4]%Z) = Some [4%Z]
  /\ timer_run fixed C19_ex_auto0 C19_ex_pre5 = Some (st, trp)
  /\ stopped st = false /\ ~ In CStop [CRestart 1] /\ 0 < 2
  /\ forallb quiet C19_ex_acts6 = true
  /\ timer_run fixed st (x :: C19_ex_acts6) = Some (st', tr)
  /\ timer_act fixed st x = Some (st1, [OFire [4%Z]]) /\ [OFire [4%Z]] <> []
  (* conclusions *)
  /\ (exists rest, fires tr = (tnow st, [4%Z]) :: rest /\
                   fires_from true (tnow st + 2) 2 [4%Z] rest (tnow st') /\
                   Forall (fun f => tnow st + 2 <= fst f) rest)
  /\ fires tr = [(5, [4%Z]); (7, [4%Z]); (9, [4%Z])] /\ tnow st' = 10
  /\ (stopped st = false /\ tnow st == expire st /\ tnow st1 = tnow st /\ exists cs, x = TProcTimeout (cur st) cs)
  /\ expire st1 == 7 /\ tmo st1 == 2.
Proof.
  intros st trp x st' tr st1.
  assert (Hrp : timer_run fixed C19_ex_auto0 C19_ex_pre5 = Some (st, trp)) by (vm_compute; reflexivity).
  assert (Hs : stopped st = false) by (vm_compute; reflexivity).
  assert (Hn : ~ In CStop [CRestart 1]) by (intros [H|[]]; discriminate H).
  assert (Ht : 0 < 2) by reflexivity.
  assert (Hr : timer_run fixed st (x :: C19_ex_acts6) = Some (st', tr)) by (vm_compute; reflexivity).
  assert (Ha : timer_act fixed st x = Some (st1, [OFire [4%Z]])) by (vm_compute; reflexivity).
  assert (Ho : [OFire [4%Z]] <> []) by discriminate.
  split; [reflexivity|]. split; [exact Hrp|]. split; [exact Hs|]. split; [exact Hn|]. split; [exact Ht|].
  split; [reflexivity|]. split; [exact Hr|]. split; [exact Ha|]. split; [exact Ho|].
  split; [exact (restart_rebases_from_callback 0 5 true (AList [4]%Z) [4%Z] C19_ex_pre5 st trp 0%nat [CRestart 1] 2
                   C19_ex_acts6 st' tr eq_refl Hrp Hs Hn Ht eq_refl Hr)|].
  split; [vm_compute; reflexivity|]. split; [vm_compute; reflexivity|].
  destruct (fires_only_at_expire_time 0 5 true (AList [4]%Z) [4%Z] C19_ex_pre5 st trp x st1 _ eq_refl Hrp Ha Ho)
    as (_ & F2 & F3 & F4 & F5).
  split; [exact (conj F2 (conj F3 (conj F4 F5)))|]. split; vm_compute; reflexivity.
Qed.
Print Assumptions C19_ex_restart_from_callback.

(* ---- hypotheses `norm_args fixed a = Some l`, `timer_run fixed (timer0 fixed t0 tau au a) acts = Some (st, tr)` ------------
   covers C19_no_double_fire, C19_timer_never_raises, C19_single_live_process, on a history that is anything but quiet:
   auto-restart Timer(5, scalar 7) created at 0; restart(3) and restart(4) in the instant of creation, while the
   Initialize of every process is still pending; the callback at 4 restarts with 2; fires at 6; restart(1) by a foreign
   process at 6 right after that callback; the callback at 7 calls stop(); restart(9) afterwards arms process 4 for 16.
   Five timer processes were created; the callback ran at 4, 6, 7 -- strictly increasing, always with [7]. *)
Definition C19_ex_acts7 : list taction :=
  [ TRestart 3; TRestart 4; TProcInit 0; TProcInterrupt 0; TProcInit 1; TProcInterrupt 1; TProcInit 2;
    TAdvance 4; TProcTimeout 2 [CRestart 2]; TProcEnd 0;
    TAdvance 6; TProcTimeout 2 []; TRestart 1; TProcInterrupt 2; TProcInit 3; TProcEnd 1;
    TAdvance 7; TProcTimeout 3 [CStop]; TRestart 9; TProcInterrupt 3; TProcInit 4;
    TAdvance 16 ].
Definition C19_ex_auto7 : timer := timer0 fixed 0 5 true (AScalar 7).

Theorem C19_ex_any_history :
  let st := C19_st C19_ex_auto7 C19_ex_acts7 in
  let tr := C19_tr C19_ex_auto7 C19_ex_acts7 in
  norm_args fixed (AScalar 7) = Some [7%Z]
  /\ timer_run fixed C19_ex_auto7 C19_ex_acts7 = Some (st, tr)
  (* conclusions *)
  /\ StronglySorted before (fires tr) /\ Forall (fun f => 0 < fst f /\ snd f = [7%Z]) (fires tr)
  /\ fires tr = [(4, [7%Z]); (6, [7%Z]); (7, [7%Z])]
  /\ err st = None
  /\ (forall i p, nth_error (procs st) i = Some p -> alive p = true -> intr p = 0%nat -> i = cur st)
  /\ (exists p, nth_error (procs st) (cur st) = Some p /\ intr p = 0%nat /\
        forall d, ph p = PWait d -> tnow st <= d /\ (stopped st = false -> d == expire st))
  /\ length (procs st) = 5%nat /\ cur st = 4%nat /\ map alive (procs st) = [false; false; false; false; true]
  /\ stopped st = true.
Proof.
  intros st tr.
  assert (Hr : timer_run fixed C19_ex_auto7 C19_ex_acts7 = Some (st, tr)) by (vm_compute; reflexivity).
  split; [reflexivity|]. split; [exact Hr|].
  destruct (no_double_fire 0 5 true (AScalar 7) C19_ex_acts7 st tr [7%Z] eq_refl Hr) as [D1 D2].
  split; [exact D1|]. split; [exact D2|]. split; [vm_compute; reflexivity|].
  split; [exact (timer_never_raises 0 5 true (AScalar 7) C19_ex_acts7 st tr Hr)|].
  destruct (single_live_process 0 5 true (AScalar 7) C19_ex_acts7 st tr Hr) as [S1 S2].
  split; [exact S1|]. split; [exact S2|]. repeat split; vm_compute; reflexivity.
Qed.
Print Assumptions C19_ex_any_history.

(* ---- Props/C19_Bridge.v: hypothesis `nth_error (procs st) (cur st) = Some p` ------------------------------------------------
   covers C19_gen_timer_restart.  st = the state of C19_ex_restart_rebases at the expiry instant 5; self.proc is process 0,
   waiting; restart(3) by a foreign process: the translated body re-bases the fields, interrupts self.proc and then
   replaces it by a new process. *)
Theorem C19_ex_gen_timer_restart :
  let st := C19_st C19_ex_one_shot0 C19_ex_pre5 in
  let p := {| ph := PWait (0 + (0 + 5 - 0)); intr := 0 |} in
  let g := timer_gen_restart None 3 6 st in
  nth_error (procs st) (cur st) = Some p
  /\ do_restart fixed None 3 st = timer_fx_run st (fst g) (snd g)
  /\ snd g = [FxInterrupt; FxNewProc]
  /\ fst g = {| t_start_time := 5; t_timeout := 3; t_expire_time := 5 + 3; t_stopped := false |}
  /\ length (procs (do_restart fixed None 3 st)) = 2%nat /\ cur (do_restart fixed None 3 st) = 1%nat.
Proof.
  intros st p g.
  assert (Hp : nth_error (procs st) (cur st) = Some p) by (vm_compute; reflexivity).
  split; [exact Hp|].
  destruct (bridge_timer_restart None 3 6 st p Hp) as [B1 B2].
  split; [exact B1|]. split; [exact B2|]. repeat split; vm_compute; reflexivity.
Qed.
Print Assumptions C19_ex_gen_timer_restart.
