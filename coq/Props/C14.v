(* C14 -- WFQ and VirtualClock transmit in virtual-finish-stamp order.
   Only statements, closed by the lemma that proves them.  Vocabulary: see Props/C08_WFQ.v, and
     fin / vtime / last_time / active (stm s)   WFQ.finish_times / vtime / last_time / active_set in state s
     (stm s : vst) c                              VC.aux_vc[c]
     insys s                                      packets put and not yet noticed as finished by run() (= held s whenever the
                                                  clock may move)
     sel_ok cls pre cur tr                        (Elem/WFQServerTrace.v) along the trace: whenever an entry leaves the
                                                  PriorityStore (is "selected") nothing else is selected and pending, and it has
                                                  STRICTLY the least key (stamp, arrival instant, arrival counter) of all entries
                                                  in the store, none of its class that arrived earlier is waiting; every
                                                  transmission start (FChildInit) starts exactly the selected entry, and no time
                                                  passes between selection and start
     strictly_least cls x l1 l2                   entry_ltb x y = true for every other entry y of the store l1 ++ x :: l2 *)
From Coq Require Import ZArith QArith Qminmax Qabs List Bool Permutation.
From ONL Require Import Elem.Packet Elem.StoreQ Elem.HeapList Elem.Heap Elem.HeapProofs Elem.WFQServer Elem.WFQServerProofs
  Elem.WFQServerTrace Elem.WFQ Elem.WFQProofs Elem.VC Elem.VCProofs Elem.WFQInst Elem.WFQFair.
Import ListNotations.

(* every arriving packet of class c -- also the first one of a busy period -- is stamped
   F = max(F_c, V) + 8*size/(rate*w_c); V is the virtual time at the arrival; F_c is remembered; the item put
   into the store carries the stamp, the arrival instant and the arrival counter *)
Theorem C14_wfq_stamp : forall (cfg : wcfg), wcfg_ok cfg -> wfix_first cfg = true -> forall s p,
  wreach cfg s -> wconf cfg p ->
  exists s' w F,
    wfq_act cfg s (FPut p) = Ok (s', []) /\
    zlookup (wcls cfg p) (wweights cfg) = Some w /\
    F == Qmax (fin (stm s) (wcls cfg p)) (vtime (stm s')) + (inject_Z (psize p) * 8) / (wrate cfg * inject_Z w) /\
    fin (stm s') (wcls cfg p) == F /\
    (forall c, c <> wcls cfg p -> insys (WS cfg) s <> [] -> fin (stm s') c == fin (stm s) c) /\
    exists F', F' == F /\
      items (store s') = items (store s) ++ [(now s, {| istamp := F'; iseq := S (seq s); ipkt := p |})].
Proof. exact wfq_stamp. Qed.
Print Assumptions C14_wfq_stamp.

(* between consecutive updates V grows by dt / (sum of the weights of the active classes); updates happen at every
   put and when run() notices the end of a transmission; when nothing is left V and all F return to 0; no other
   action touches vtime, last_time, the active set or the stamps *)
Theorem C14_wfq_vtime : forall (cfg : wcfg), wcfg_ok cfg -> forall s a s' o,
  wreach cfg s -> (forall p, a = FPut p -> wconf cfg p) -> wfq_act cfg s a = Ok (s', o) ->
  match a with
  | FPut _ =>
      last_time (stm s') = now s /\
      (insys (WS cfg) s = [] -> vtime (stm s') == 0) /\
      (insys (WS cfg) s <> [] -> exists W, weight_sum (wweights cfg) (active (stm s)) = Some W /\ (0 < W)%Z /\
                            vtime (stm s') == vtime (stm s) + (now s - last_time (stm s)) / inject_Z W)
  | FChildEnd =>
      last_time (stm s') = now s /\
      exists W, weight_sum (wweights cfg) (active (stm s)) = Some W /\ (0 < W)%Z /\
        (insys (WS cfg) s' <> [] -> vtime (stm s') == vtime (stm s) + (now s - last_time (stm s)) / inject_Z W /\
                             forall c, fin (stm s') c == fin (stm s) c) /\
        (insys (WS cfg) s' = [] -> vtime (stm s') == 0 /\ forall c, fin (stm s') c == 0)
  | _ => stm s' = stm s
  end.
Proof. exact wfq_vtime. Qed.
Print Assumptions C14_wfq_vtime.

(* the active set is the set of classes with a packet in the system; the time of the last update is never in the future *)
Theorem C14_wfq_active : forall (cfg : wcfg), wcfg_ok cfg -> forall s c,
  wreach cfg s -> (In c (active (stm s)) <-> exists p, In p (insys (WS cfg) s) /\ wcls cfg p = c).
Proof. exact wfq_active. Qed.
Print Assumptions C14_wfq_active.

Theorem C14_wfq_last_le : forall (cfg : wcfg), wcfg_ok cfg -> forall s, wreach cfg s -> last_time (stm s) <= now s.
Proof. exact wfq_last_time_le. Qed.
Print Assumptions C14_wfq_last_le.

(* V and all F are 0 whenever nothing is in the system: initially and after the scheduler emptied *)
Theorem C14_wfq_reset : forall (cfg : wcfg), wcfg_ok cfg -> forall s,
  wreach cfg s -> insys (WS cfg) s = [] -> vtime (stm s) == 0 /\ forall c, fin (stm s) c == 0.
Proof. exact wfq_reset. Qed.
Print Assumptions C14_wfq_reset.

(* VirtualClock: auxVC_c := max(now, auxVC_c) + vtick_c, and that is the stamp of the item *)
Theorem C14_vc_stamp : forall (cfg : vcfg) s p,
  vreach cfg s -> vconf cfg p ->
  exists s' vt,
    vc_act cfg s (FPut p) = Ok (s', []) /\
    zlookup (vcls cfg p) (vticks cfg) = Some vt /\
    (stm s' : vst) (vcls cfg p) == Qmax (now s) ((stm s : vst) (vcls cfg p)) + vt /\
    (forall c, c <> vcls cfg p -> (stm s' : vst) c == (stm s : vst) c) /\
    exists F', F' == (stm s' : vst) (vcls cfg p) /\
      items (store s') = items (store s) ++ [(now s, {| istamp := F'; iseq := S (seq s); ipkt := p |})].
Proof. exact vc_stamp_thm. Qed.
Print Assumptions C14_vc_stamp.

(* each transmission start takes the entry that, at its selection in that same instant, had strictly the least
   (stamp, arrival instant, arrival order) of all entries in the store *)
Theorem C14_wfq_stamp_order_service : forall (cfg : wcfg), wcfg_ok cfg -> forall acts s' tr,
  wadm cfg acts -> wfq_run cfg (wfq0 cfg) acts = Some (s', tr) -> sel_ok (WS cfg) (wcls cfg) (wfq0 cfg) None tr.
Proof. exact wfq_stamp_order_service. Qed.
Print Assumptions C14_wfq_stamp_order_service.

Theorem C14_vc_stamp_order_service : forall (cfg : vcfg), vcfg_ok cfg -> forall acts s' tr,
  vadm cfg acts -> vc_run cfg (vc0 cfg) acts = Some (s', tr) -> sel_ok (VS cfg) (vcls cfg) (vc0 cfg) None tr.
Proof. exact vc_stamp_order_service. Qed.
Print Assumptions C14_vc_stamp_order_service.

(* static backlog: if every packet is put before the first transmission starts (static_from false acts: no FPut
   after an FChildInit), then at every later state s' of the execution, any two classes i, j that still hold a
   packet (waiting, selected or in transmission) satisfy  | W_i/w_i - W_j/w_j | <= Lmax/w_i + Lmax/w_j,
   W_c = started_bytes c tr = bytes of class c whose transmission has started, Lmax any bound on the packet sizes *)
Theorem C14_wfq_static_fairness : forall (cfg : wcfg), wcfg_ok cfg -> wfix_first cfg = true ->
  forall Lmax : Z, (0 <= Lmax)%Z ->
  forall acts s' tr i j wi wj,
    wadm cfg acts -> (forall p, In (FPut p) acts -> (psize p <= Lmax)%Z) -> static_from false acts ->
    wfq_run cfg (wfq0 cfg) acts = Some (s', tr) ->
    zlookup i (wweights cfg) = Some wi -> zlookup j (wweights cfg) = Some wj ->
    holds cfg i s' -> holds cfg j s' ->
    Qabs (inject_Z (started_bytes cfg i tr) / inject_Z wi - inject_Z (started_bytes cfg j tr) / inject_Z wj)
      <= inject_Z Lmax / inject_Z wi + inject_Z Lmax / inject_Z wj.
Proof. exact wfq_static_fairness_thm. Qed.
Print Assumptions C14_wfq_static_fairness.

(* the order only ever compares keys (stamp, arrival instant, arrival counter): it is a strict weak order, strict and
   total on keys with different counters, so equal stamps cannot make a comparison fail; and the model's "pop the
   least key" is what CPython's heapq (transcribed in Elem/Heap.v) returns from any heap holding the same entries *)
Theorem C14_key_order_total : forall a b : entry,
  iseq (snd a) <> iseq (snd b) -> entry_ltb a b = true \/ entry_ltb b a = true.
Proof. exact entry_ltb_seq_total. Qed.
Print Assumptions C14_key_order_total.

Theorem C14_wfq_store_keys_distinct : forall (cfg : wcfg), wcfg_ok cfg -> forall s,
  wreach cfg s -> distinct_keys entry_ltb (items (store s)).
Proof. exact wfq_store_distinct_keys. Qed.
Print Assumptions C14_wfq_store_keys_distinct.

Theorem C14_vc_store_keys_distinct : forall (cfg : vcfg), vcfg_ok cfg -> forall s,
  vreach cfg s -> distinct_keys entry_ltb (items (store s)).
Proof. exact vc_store_distinct_keys. Qed.
Print Assumptions C14_vc_store_keys_distinct.

Theorem C14_pq_refines_heapq_pop : forall (h l : list entry),
  heap_inv entry_ltb h -> Permutation h l -> distinct_keys entry_ltb l ->
  forall m l', pq_pop l = Some (m, l') ->
  exists h', heappop entry_ltb h = Some (m, h') /\ heap_inv entry_ltb h' /\ Permutation h' l' /\ distinct_keys entry_ltb l'.
Proof. exact pq_refines_heapq_pop. Qed.
Print Assumptions C14_pq_refines_heapq_pop.

Theorem C14_pq_refines_heapq_push : forall (h l : list entry) x,
  heap_inv entry_ltb h -> Permutation h l ->
  exists h', heappush entry_ltb h x = Some h' /\ heap_inv entry_ltb h' /\ Permutation h' (pq_push x l).
Proof. exact pq_refines_heapq_push. Qed.
Print Assumptions C14_pq_refines_heapq_push.

(* neither scheduler raises on any configured packet in any reachable state (equal stamps included) *)
Theorem C14_wfq_never_raises : forall (cfg : wcfg), wcfg_ok cfg -> forall s a,
  wreach cfg s -> (forall p, a = FPut p -> wconf cfg p) -> wfq_act cfg s a <> Raises.
Proof. exact wfq_never_raises. Qed.
Print Assumptions C14_wfq_never_raises.

Theorem C14_vc_never_raises : forall (cfg : vcfg), vcfg_ok cfg -> forall s a,
  vreach cfg s -> (forall p, a = FPut p -> vconf cfg p) -> vc_act cfg s a <> Raises.
Proof. exact vc_never_raises. Qed.
Print Assumptions C14_vc_never_raises.

(* the WFQ.put of the pinned commit (before fix: d1c8660) left the first packet of a busy period with stamp 0 *)
Theorem C14_wfq_stamp_refuted_before_fix :
  exists cfg p s' w,
    wcfg_ok cfg /\ wconf cfg p /\ wfix_first cfg = false /\
    wfq_act cfg (wfq0 cfg) (FPut p) = Ok (s', []) /\ zlookup (wcls cfg p) (wweights cfg) = Some w /\
    ~ fin (stm s') (wcls cfg p) ==
      Qmax (fin (stm (wfq0 cfg)) (wcls cfg p)) (vtime (stm s')) + (inject_Z (psize p) * 8) / (wrate cfg * inject_Z w).
Proof. exact wfq_stamp_refuted_unfixed. Qed.
Print Assumptions C14_wfq_stamp_refuted_before_fix.
