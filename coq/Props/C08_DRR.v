(* C08 (DRR part) -- packets are never lost, duplicated or invented by the DRR scheduler.
   Only statements, closed by the lemma that proves them, and their assumptions.  Model: Elem/DRR.v. *)
From Coq Require Import ZArith QArith List Bool.
From ONL Require Import Elem.Packet Elem.StoreQ Elem.DRR Elem.DRRInv Elem.DRRProofs.
Import ListNotations.

(* for every admissible execution and every class: the packets put in are exactly the packets forwarded followed by the
   packets still held (store, granted get, head_of_line, in transmission), as lists of the very packets; every
   packet put in belongs to a configured class; there is no drop rule *)
Theorem C08_drr_conserves : forall (cfg : dcfg) (t0 : Q) (acts : list daction) (d : drr) (tr : list dtev),
  dwf cfg -> drr_run cfg (drr0 t0) acts = Some (d, tr) ->
  (forall c, dof_cls cfg c (dputs tr) = dof_cls cfg c (dfwds tr) ++ dheld cfg d c)
  /\ (forall p, In p (dputs tr) -> In (dcls cfg p) (dclasses cfg))
  /\ dlmax d = dmaxsize (dputs tr).
Proof. exact drr_conserves_l. Qed.
Print Assumptions C08_drr_conserves.

Theorem C08_drr_flow_fifo : forall (cfg : dcfg) (t0 : Q) (acts : list daction) (d : drr) (tr : list dtev),
  dwf cfg -> drr_run cfg (drr0 t0) acts = Some (d, tr) ->
  forall f, dof_flow f (dputs tr) = dof_flow f (dfwds tr) ++ dof_flow f (dheld cfg d (df2c cfg f)).
Proof. exact drr_flow_fifo_l. Qed.
Print Assumptions C08_drr_flow_fifo.

(* in a state with nothing enabled and no deadline pending nothing is held *)
Theorem C08_drr_drained : forall (cfg : dcfg) (t0 : Q) (acts : list daction) (d : drr) (tr : list dtev),
  dwf cfg -> drr_run cfg (drr0 t0) acts = Some (d, tr) -> durgent cfg d = false ->
  (forall p dl, dchd d <> DCTx p dl) -> forall c, dheld cfg d c = [].
Proof. exact drr_drained_l. Qed.
Print Assumptions C08_drr_drained.
