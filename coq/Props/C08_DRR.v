(* C08 (DRR part) -- packets are never lost, duplicated or invented by the DRR scheduler.
   Only statements, closed by the lemma that proves them, and their assumptions.  Model: Elem/DRR.v. *)
From Coq Require Import ZArith QArith List Bool.
From ONL Require Import Elem.Packet Elem.StoreQ Elem.DRR Elem.DRRInv Elem.DRRProofs Elem.DRRLive.
Import ListNotations.

(* for every admissible execution and every class: the packets put in are exactly the packets forwarded followed by the
   packets still held (store, granted get, head_of_line, in transmission), as lists of the very packets; every
   packet put in belongs to a configured class; there is no drop rule *)
Theorem C08_drr_conserves : forall (cfg : dcfg) (t0 : Q) (acts : list daction) (d : drr) (tr : list dtev),
  dwf cfg -> drr_run cfg (drr0 t0) acts = Some (d, tr) ->
  (forall c, dof_cls cfg c (dputs tr) = dof_cls cfg c (dfwds tr) ++ dheld cfg d c)
  /\ (forall p, In p (dputs tr) -> In (dcls cfg p) (dclasses cfg))
  /\ dlmax d = dmaxsize (dputs tr).
Proof. exact drr_conserves_l. Qed.
Print Assumptions C08_drr_conserves.

Theorem C08_drr_flow_fifo : forall (cfg : dcfg) (t0 : Q) (acts : list daction) (d : drr) (tr : list dtev),
  dwf cfg -> drr_run cfg (drr0 t0) acts = Some (d, tr) ->
  forall f, dof_flow f (dputs tr) = dof_flow f (dfwds tr) ++ dof_flow f (dheld cfg d (df2c cfg f)).
Proof. exact drr_flow_fifo_l. Qed.
Print Assumptions C08_drr_flow_fifo.

(* in a state with nothing enabled and no deadline pending nothing is held *)
Theorem C08_drr_drained : forall (cfg : dcfg) (t0 : Q) (acts : list daction) (d : drr) (tr : list dtev),
  dwf cfg -> drr_run cfg (drr0 t0) acts = Some (d, tr) -> durgent cfg d = false ->
  (forall p dl, dchd d <> DCTx p dl) -> forall c, dheld cfg d c = [].
Proof. exact drr_drained_l. Qed.
Print Assumptions C08_drr_drained.

(* no admissible execution over the configured classes reaches an error state (the model's only failures are disabled
   actions): every action whose guard holds is accepted -- the run() process never raises and never spins *)
Theorem C08_drr_no_error : forall (cfg : dcfg) (t0 : Q) (acts : list daction) (d : drr) (tr : list dtev),
  dwf cfg -> drr_run cfg (drr0 t0) acts = Some (d, tr) ->
  (dctrl d = DKFresh -> exists r, drr_act cfg d DInit = Some r)
  /\ (forall x, get (dtok d) = GGranted x -> exists r, drr_act cfg d (DGetDone None) = Some r)
  /\ (forall c x, get (dst d c) = GGranted x -> exists r, drr_act cfg d (DGetDone (Some c)) = Some r)
  /\ (forall p, dchd d = DCStart p -> exists r, drr_act cfg d DChildInit = Some r)
  /\ (forall p dl, dchd d = DCTx p dl -> dl == dnow d -> exists r, drr_act cfg d DChildTimer = Some r)
  /\ (forall p, dchd d = DCDone p -> exists r, drr_act cfg d DChildEnd = Some r)
  /\ ((pend (dtok d) > 0)%nat -> exists r, drr_act cfg d (DStoreCb None) = Some r)
  /\ (forall c, In c (dclasses cfg) -> (pend (dst d c) > 0)%nat -> exists r, drr_act cfg d (DStoreCb (Some c)) = Some r)
  /\ (forall p, In (dcls cfg p) (dclasses cfg) -> (0 < psize p)%Z -> exists r, drr_act cfg d (DPut p) = Some r)
  /\ (forall t, durgent cfg d = false -> dnow d < t -> (forall p dl, dchd d = DCTx p dl -> t <= dl) ->
      exists r, drr_act cfg d (DAdvance t) = Some r).
Proof. exact drr_progress_l. Qed.
Print Assumptions C08_drr_no_error.
