(* C15 -- round-robin family: the RR and WRR clauses.  Only statements + exact + assumptions.
   tr_visits tr: the classes run() tested, in order, with the outcome (true = it took one packet of the class, false = it
   found the class empty and moved on).  walk pass cursor visits: the specification of cyclic visiting -- every visit is to
   the class of the next slot in declaration order (slots whose allowance is used up are passed over, after the last slot
   the pass starts again); a visit that takes a packet uses one unit of the slot's allowance (RR: 1, WRR: weight), a visit
   that finds the class empty ends the slot.  *_visit says the whole visit sequence of every execution follows it;
   *_visit_meaning says what a visit does to the queues; *_starts_follow_visits that the sequence of transmission starts
   is exactly the sequence of visits that took a packet (pclass = class of the packet's flow; identity map here). *)
From Coq Require Import ZArith QArith List.
From ONL Require Import Elem.Packet Elem.StoreQ Elem.SchedBase Elem.SchedBaseProofs Elem.SP Elem.SPProofs Elem.RR Elem.RRProofs Elem.WRR Elem.WRRProofs.
Import ListNotations.

(* ================= RR ================= *)
(* classes are visited cyclically in declaration order, one packet (RR) resp. up to weight packets (WRR) per visit *)
Theorem C15_rr_visit : forall (r : Q) (fl : list Z) acts s tr,
  0 < r ->
  rr_run r fl acts = Some (s, tr) ->
  exists k, walk (pass (rr_cfg r fl)) (pass (rr_cfg r fl)) (tr_visits tr) = Some k /\
            norm (pass (rr_cfg r fl)) k = norm (pass (rr_cfg r fl)) (cursor (rr_cfg r fl) s).
Proof. exact rr_visit. Qed.
Print Assumptions C15_rr_visit.

(* a class is skipped only when it holds nothing; a class that is served hands over the head of its queue *)
Theorem C15_rr_visit_meaning : forall (r : Q) (fl : list Z) acts s tr a s' o f b,
  0 < r ->
  rr_run r fl acts = Some (s, tr) -> rr_act r fl s a = Some (s', o) -> In (OVisit f b) o ->
  if b then exists x rest, items (mstores s f) = x :: rest /\ get (mstores s' f) = GGranted x /\ items (mstores s' f) = rest
  else items (mstores s f) = [] /\ held_class (rr_cfg r fl) s f = [].
Proof. exact rr_visit_meaning. Qed.
Print Assumptions C15_rr_visit_meaning.

(* the classes of the transmission starts, in order, are the classes of the visits that took a packet (the last one possibly still pending) *)
Theorem C15_rr_starts_follow_visits : forall (r : Q) (fl : list Z) acts s tr,
  0 < r ->
  rr_run r fl acts = Some (s, tr) -> served (tr_visits tr) = map (pclass (rr_cfg r fl)) (tr_starts tr) ++ pending (rr_cfg r fl) s.
Proof. exact rr_starts_follow_visits. Qed.
Print Assumptions C15_rr_starts_follow_visits.

(* ================= WRR ================= *)
Theorem C15_wrr_visit : forall (r : Q) (ws : list (Z * Z)) acts s tr,
  0 < r ->
  wrr_run r ws acts = Some (s, tr) ->
  exists k, walk (pass (wrr_cfg r ws)) (pass (wrr_cfg r ws)) (tr_visits tr) = Some k /\
            norm (pass (wrr_cfg r ws)) k = norm (pass (wrr_cfg r ws)) (cursor (wrr_cfg r ws) s).
Proof. exact wrr_visit. Qed.
Print Assumptions C15_wrr_visit.

Theorem C15_wrr_visit_meaning : forall (r : Q) (ws : list (Z * Z)) acts s tr a s' o f b,
  0 < r ->
  wrr_run r ws acts = Some (s, tr) -> wrr_act r ws s a = Some (s', o) -> In (OVisit f b) o ->
  if b then exists x rest, items (mstores s f) = x :: rest /\ get (mstores s' f) = GGranted x /\ items (mstores s' f) = rest
  else items (mstores s f) = [] /\ held_class (wrr_cfg r ws) s f = [].
Proof. exact wrr_visit_meaning. Qed.
Print Assumptions C15_wrr_visit_meaning.

Theorem C15_wrr_starts_follow_visits : forall (r : Q) (ws : list (Z * Z)) acts s tr,
  0 < r ->
  wrr_run r ws acts = Some (s, tr) -> served (tr_visits tr) = map (pclass (wrr_cfg r ws)) (tr_starts tr) ++ pending (wrr_cfg r ws) s.
Proof. exact wrr_starts_follow_visits. Qed.
Print Assumptions C15_wrr_starts_follow_visits.
