(* C08 (conservation), share of WFQ and VirtualClock.  Only statements, closed by the lemma that proves them.
   Vocabulary (Elem/WFQServer.v, WFQServerProofs.v, WFQServerTrace.v, WFQInst.v):
     wfq_run cfg (wfq0 cfg) acts = Some (s', tr)   the action list is an admissible execution (every action enabled,
                                                   nothing raises) from the initial state; tr is its trace
     wadm / vadm cfg acts                          the upstream puts only packets of configured classes, size >= 0
     puts tr / fwds tr                             packets put in / forwarded (out.put) along the trace, in order
     held s                                        packets in the store, in a granted get, handed to send_packet, in transmission
     only f l                                      the sub-list of the packets of flow f *)
From Coq Require Import ZArith QArith List Bool Permutation.
From ONL Require Import Elem.Packet Elem.StoreQ Elem.WFQServer Elem.WFQServerProofs Elem.WFQServerTrace Elem.WFQ Elem.WFQProofs
  Elem.VC Elem.VCProofs Elem.WFQInst.
Import ListNotations.

(* for all executions: packets put in = forwarded (+) still held, as multisets of packet records (uid included:
   a forwarded packet IS a packet that was put, with its fields unchanged); WFQ/VC have no drop rule *)
Theorem C08_wfq_conserves : forall (cfg : wcfg) acts s' tr,
  wfq_run cfg (wfq0 cfg) acts = Some (s', tr) ->
  Permutation (puts (WS cfg) tr) (fwds (WS cfg) tr ++ held (WS cfg) s').
Proof. exact wfq_conserves. Qed.
Print Assumptions C08_wfq_conserves.

Theorem C08_vc_conserves : forall (cfg : vcfg) acts s' tr,
  vc_run cfg (vc0 cfg) acts = Some (s', tr) ->
  Permutation (puts (VS cfg) tr) (fwds (VS cfg) tr ++ held (VS cfg) s').
Proof. exact vc_conserves. Qed.
Print Assumptions C08_vc_conserves.

(* the packets of a flow forwarded so far, followed by those of it still held, are exactly the packets of that
   flow put in, in the order they were put: per-flow FIFO (also with several flows on one class) *)
Theorem C08_wfq_flow_fifo : forall (cfg : wcfg), wcfg_ok cfg -> forall acts s' tr f,
  wadm cfg acts -> wfq_run cfg (wfq0 cfg) acts = Some (s', tr) ->
  only f (fwds (WS cfg) tr) ++ only f (held (WS cfg) s') = only f (puts (WS cfg) tr).
Proof. exact wfq_flow_fifo. Qed.
Print Assumptions C08_wfq_flow_fifo.

Theorem C08_vc_flow_fifo : forall (cfg : vcfg), vcfg_ok cfg -> forall acts s' tr f,
  vadm cfg acts -> vc_run cfg (vc0 cfg) acts = Some (s', tr) ->
  only f (fwds (VS cfg) tr) ++ only f (held (VS cfg) s') = only f (puts (VS cfg) tr).
Proof. exact vc_flow_fifo. Qed.
Print Assumptions C08_vc_flow_fifo.

(* in a state with nothing enabled and no deadline (the simulation ran out of events) nothing is held and the
   counters are back to 0; and no reachable state raises on a configured packet *)
Theorem C08_wfq_drained : forall (cfg : wcfg), wcfg_ok cfg -> forall acts s' tr,
  wadm cfg acts -> wfq_run cfg (wfq0 cfg) acts = Some (s', tr) ->
  urgent s' = false -> (forall e dl, chl s' <> CTx e dl) ->
  held (WS cfg) s' = [] /\ (forall f, qcount s' f = 0%Z /\ qbytes s' f = 0%Z).
Proof. exact wfq_drained. Qed.
Print Assumptions C08_wfq_drained.

Theorem C08_vc_drained : forall (cfg : vcfg), vcfg_ok cfg -> forall acts s' tr,
  vadm cfg acts -> vc_run cfg (vc0 cfg) acts = Some (s', tr) ->
  urgent s' = false -> (forall e dl, chl s' <> CTx e dl) ->
  held (VS cfg) s' = [] /\ (forall f, qcount s' f = 0%Z /\ qbytes s' f = 0%Z).
Proof. exact vc_drained. Qed.
Print Assumptions C08_vc_drained.

Theorem C08_wfq_never_raises : forall (cfg : wcfg), wcfg_ok cfg -> forall s a,
  wreach cfg s -> (forall p, a = FPut p -> wconf cfg p) -> wfq_act cfg s a <> Raises.
Proof. exact wfq_never_raises. Qed.
Print Assumptions C08_wfq_never_raises.

Theorem C08_vc_never_raises : forall (cfg : vcfg), vcfg_ok cfg -> forall s a,
  vreach cfg s -> (forall p, a = FPut p -> vconf cfg p) -> vc_act cfg s a <> Raises.
Proof. exact vc_never_raises. Qed.
Print Assumptions C08_vc_never_raises.
