(* C11 -- NON-VACUITY of the theorems of Props/C11.v.
   Every theorem of Props/C11.v that has hypotheses is matched here by a machine-checked witness: a concrete,
   non-trivial execution (several packets, a packet that has to wait for tokens, a packet larger than the bucket,
   a negative initial time, all three colours ...) on which ALL hypotheses of the theorem hold simultaneously,
   together with the concrete content of the theorem's conclusion on that execution (obtained by applying the
   theorem itself to the witness, or by computation).  An implication no reachable state satisfies means nothing;
   these witnesses show the hypotheses are met by real executions.

   Coverage (theorem of Props/C11.v  ->  witness below):
     C11_tb_recurrence, C11_tb_fifo, C11_tb_lossless                      -> C11_ex_tb_admissible
     C11_tb_release_instant (indexed clause), C11_tb_head_instant,
     C11_tb_initially_full, C11_tb_conformance, C11_tb_departure_instant  -> C11_ex_tb_indexed
       (peak_on = None branch), C11_tb_peak_spacing (None branch)
     C11_tb_peak_spacing / C11_tb_departure_instant (peak_on = Some branch),
     C11_tb_release_instant (clause on a packet still waiting: PTok)     -> C11_ex_tb_peak
     C11_tb_release_is_least                                              -> C11_ex_tb_release_is_least
     C11_trtb_recurrence, C11_trtb_is_recurrence, C11_trtb_fifo,
     C11_trtb_lossless                                                    -> C11_ex_trtb_admissible
     C11_trtb_colour_iff, C11_trtb_shapes_against, C11_trtb_green_conforms -> C11_ex_trtb_indexed
     all seven two-rate theorems in the configuration WITHOUT PIR
     (shaping against (CIR, CBS), yellow = waited for committed tokens)  -> C11_ex_trtb_no_pir
   Unconditional theorems (no hypotheses): none.
   Already witnesses (existential statements, each exhibits its own execution):
     C11_tb_initially_full_refuted_before_fix, C11_trtb_yellow_refuted_before_fix,
     C11_trtb_red_refuted_before_fix, C11_trtb_initially_full_refuted_before_fix. *)
From Coq Require Import ZArith QArith Qminmax List.
From ONL Require Import Elem.Packet Elem.StoreQ Elem.Bucket Elem.BucketProofs Elem.TwoRate Elem.TwoRateProofs.
From ONL Require Import Props.C11.
Import ListNotations.

(* ================================ TokenBucket ================================ *)

(* Witness A: rate 512 bit/s (64 B/s), bucket 256 B, no peak rate, initial time -4 (negative: the case the repaired
   constructor is about).  p0 (128 B) and p1 (256 B) arrive together at -3, p2 (512 B: larger than the bucket) at -2.
     p0: bucket full (256): debited and forwarded at -3, 128 tokens left;
     p1: 128 < 256: waits 128/64 = 2 s for exactly the missing tokens: debited at -1;
     p2: reaches the head at -1 with an empty bucket, waits 512/64 = 8 s: debited at 7 (the bucket never holds 512;
         the conformance bound uses max(B, size) for that reason).
   The execution ends quiescent (store empty, server waiting on its get). *)
Definition tbA_c : tbcfg := {| rate := 512; bsize := 256; peak := None |}.
Definition tbA_p0 : pkt := mkp 0 1 0 128 (-3).
Definition tbA_p1 : pkt := mkp 1 2 1 256 (-3).
Definition tbA_p2 : pkt := mkp 2 3 0 512 (-2).
Definition tbA_acts : list taction :=
  [TInit; TAdvance (-3); TPut tbA_p0; TPut tbA_p1; TStoreCb; TStoreCb; TGet; TGet;
   TAdvance (-2); TPut tbA_p2; TStoreCb; TAdvance (-1); TTimer; TGet; TAdvance 7; TTimer].
Definition tbA_run := tb_run tbA_c (tb0 true tbA_c (-4)) tbA_acts.
Definition tbA_s : tb := match tbA_run with Some (s, _) => s | None => tb0 true tbA_c (-4) end.
Definition tbA_tr : list tev := match tbA_run with Some (_, tr) => tr | None => [] end.

(* hypotheses of C11_tb_recurrence / C11_tb_fifo / C11_tb_lossless, and what the execution is *)
Theorem C11_ex_tb_admissible :
  (* hypotheses *)
  0 < rate tbA_c /\
  tb_run tbA_c (tb0 true tbA_c (-4)) tbA_acts = Some (tbA_s, tbA_tr) /\
  tb_quiescent tbA_s /\
  (* the execution: arrivals, head instants, token-debit instants, departures *)
  puts tbA_tr = [(-3, tbA_p0); (-3, tbA_p1); (-2, tbA_p2)] /\
  heads tbA_tr = [(-3, tbA_p0); (-3, tbA_p1); (-1, tbA_p2)] /\
  debits tbA_tr = [(-3, tbA_p0); (-1, tbA_p1); (7, tbA_p2)] /\
  fwds tbA_tr = [(-3, tbA_p0); (-1, tbA_p1); (7, tbA_p2)] /\
  (* conclusions of the three theorems on it *)
  (exists R, chain tbA_c (bsize tbA_c) (-4) (-4) R /\ puts tbA_tr = sv_arr R ++ sq_held (tq tbA_s) /\
             tb_matches tbA_s tbA_tr R) /\
  (exists rest, map snd (puts tbA_tr) = map snd (fwds tbA_tr) ++ rest) /\
  map snd (fwds tbA_tr) = [tbA_p0; tbA_p1; tbA_p2] /\
  map snd (fwds tbA_tr) = map snd (puts tbA_tr).
Proof.
  assert (Hr : 0 < rate tbA_c) by reflexivity.
  assert (Hrun : tb_run tbA_c (tb0 true tbA_c (-4)) tbA_acts = Some (tbA_s, tbA_tr)) by (vm_compute; reflexivity).
  assert (HQ : tb_quiescent tbA_s) by (split; vm_compute; reflexivity).
  split; [exact Hr|]. split; [exact Hrun|]. split; [exact HQ|].
  split; [vm_compute; reflexivity|]. split; [vm_compute; reflexivity|].
  split; [vm_compute; reflexivity|]. split; [vm_compute; reflexivity|].
  split; [exact (C11_tb_recurrence _ _ _ _ _ Hr Hrun)|].
  split; [exact (C11_tb_fifo _ _ _ _ _ Hr Hrun)|].
  split; [vm_compute; reflexivity|].
  exact (C11_tb_lossless _ _ _ _ _ Hr Hrun HQ).
Qed.
Print Assumptions C11_ex_tb_admissible.

(* the indexed hypotheses (nth_error premises, i <= j, sz p <= bsize c) of C11_tb_release_instant,
   C11_tb_head_instant, C11_tb_initially_full, C11_tb_conformance, C11_tb_departure_instant and
   C11_tb_peak_spacing hold on witness A; the conformance bound is attained with EQUALITY over the windows
   0..2 and 1..2 (the bucket delays nothing needlessly), and is strict nowhere it should not be *)
Theorem C11_ex_tb_indexed :
  0 < rate tbA_c /\ tb_run tbA_c (tb0 true tbA_c (-4)) tbA_acts = Some (tbA_s, tbA_tr) /\
  (* C11_tb_release_instant at k = 1 (the packet that waited), C11_tb_conformance at i = 0, j = 2 and i = 1, j = 2 *)
  nth_error (debits tbA_tr) 0 = Some (-3, tbA_p0) /\
  nth_error (debits tbA_tr) 1 = Some (-1, tbA_p1) /\
  nth_error (debits tbA_tr) 2 = Some (7, tbA_p2) /\
  (0 <= 2)%nat /\ (1 <= 2)%nat /\
  (* C11_tb_initially_full: first debit, packet within the bucket *)
  sz tbA_p0 <= bsize tbA_c /\
  (* C11_tb_head_instant at k = 2 (a packet that found the server busy) *)
  nth_error (heads tbA_tr) 2 = Some (-1, tbA_p2) /\
  (* C11_tb_departure_instant at k = 1, C11_tb_peak_spacing at k = 1 *)
  nth_error (fwds tbA_tr) 1 = Some (-1, tbA_p1) /\
  nth_error (fwds tbA_tr) 2 = Some (7, tbA_p2) /\
  peak_on tbA_c = None /\
  (* ---- conclusions, instantiated ---- *)
  (* release instant of p1: head at -3 with 128 tokens, earliest instant with 256 tokens is -1 *)
  release (rate tbA_c) (-3) 128 (sz tbA_p1) == -1 /\
  (exists h lvl,
     (exists h', nth_error (heads tbA_tr) 1 = Some (h', tbA_p1) /\ h' == h) /\ lvl <= bsize tbA_c /\
     h <= -1 /\ -1 == release (rate tbA_c) h lvl (sz tbA_p1) /\
     (forall t', h <= t' -> t' < -1 -> tokens_at (bsize tbA_c) (rate tbA_c) h lvl (sz tbA_p1) t' < sz tbA_p1)) /\
  (* head instant of p2 = max(arrival -2, previous departure -1) *)
  (exists a, nth_error (puts tbA_tr) 2 = Some (a, tbA_p2) /\ a <= -1 /\
     exists d p', nth_error (fwds tbA_tr) 1 = Some (d, p') /\ -1 == Qmax a d) /\
  (* initially full at the negative initial time: p0 is debited the instant it arrives *)
  (exists a, nth_error (puts tbA_tr) 0 = Some (a, tbA_p0) /\ -3 == Qmax a (-4)) /\
  (* conformance: 128 + 256 + 512 = 896 = max(256, 128) + 64 * 10;  256 + 512 = 768 = 256 + 64 * 8 *)
  bytes (slice 0 2 (debits tbA_tr)) == 896 /\
  Qmax (bsize tbA_c) (sz tbA_p0) + fill (rate tbA_c) (7 - -3) == 896 /\
  bytes (slice 0 2 (debits tbA_tr)) <= Qmax (bsize tbA_c) (sz tbA_p0) + fill (rate tbA_c) (7 - -3) /\
  bytes (slice 1 2 (debits tbA_tr)) == 768 /\
  Qmax (bsize tbA_c) (sz tbA_p1) + fill (rate tbA_c) (7 - -1) == 768 /\
  bytes (slice 1 2 (debits tbA_tr)) <= Qmax (bsize tbA_c) (sz tbA_p1) + fill (rate tbA_c) (7 - -1) /\
  (* departure = debit instant without a peak rate; departures in order *)
  (exists d, nth_error (debits tbA_tr) 1 = Some (d, tbA_p1) /\ -1 == d) /\
  -1 <= 7.
Proof.
  assert (Hr : 0 < rate tbA_c) by reflexivity.
  assert (Hrun : tb_run tbA_c (tb0 true tbA_c (-4)) tbA_acts = Some (tbA_s, tbA_tr)) by (vm_compute; reflexivity).
  assert (D0 : nth_error (debits tbA_tr) 0 = Some (-3, tbA_p0)) by (vm_compute; reflexivity).
  assert (D1 : nth_error (debits tbA_tr) 1 = Some (-1, tbA_p1)) by (vm_compute; reflexivity).
  assert (D2 : nth_error (debits tbA_tr) 2 = Some (7, tbA_p2)) by (vm_compute; reflexivity).
  assert (H2 : nth_error (heads tbA_tr) 2 = Some (-1, tbA_p2)) by (vm_compute; reflexivity).
  assert (F1 : nth_error (fwds tbA_tr) 1 = Some (-1, tbA_p1)) by (vm_compute; reflexivity).
  assert (F2 : nth_error (fwds tbA_tr) 2 = Some (7, tbA_p2)) by (vm_compute; reflexivity).
  assert (S0 : sz tbA_p0 <= bsize tbA_c) by (vm_compute; discriminate).
  assert (PK : peak_on tbA_c = None) by reflexivity.
  split; [exact Hr|]. split; [exact Hrun|]. split; [exact D0|]. split; [exact D1|]. split; [exact D2|].
  split; [repeat constructor|]. split; [repeat constructor|]. split; [exact S0|]. split; [exact H2|].
  split; [exact F1|]. split; [exact F2|]. split; [exact PK|].
  split; [vm_compute; reflexivity|].
  split.
  { destruct (C11_tb_release_instant _ _ _ _ _ Hr Hrun) as [K _].
    destruct (K _ _ _ D1) as (h & lvl & A & B & _ & C & D & _ & E). exists h, lvl. repeat split; assumption. }
  split; [exact (C11_tb_head_instant _ _ _ _ _ Hr Hrun _ _ _ H2)|].
  split; [exact (C11_tb_initially_full _ _ _ _ _ Hr Hrun _ _ D0 S0)|].
  split; [vm_compute; reflexivity|]. split; [vm_compute; reflexivity|].
  split; [exact (proj2 (C11_tb_conformance _ _ _ _ _ Hr Hrun 0%nat 2%nat _ _ _ _ (le_S _ _ (le_S _ _ (le_n 0))) D0 D2))|].
  split; [vm_compute; reflexivity|]. split; [vm_compute; reflexivity|].
  split; [exact (proj2 (C11_tb_conformance _ _ _ _ _ Hr Hrun 1%nat 2%nat _ _ _ _ (le_S _ _ (le_n 1)) D1 D2))|].
  split.
  { destruct (C11_tb_departure_instant _ _ _ _ _ Hr Hrun _ _ _ F1) as (d & Hd & E & _). exists d. split; [exact Hd|exact (E PK)]. }
  exact (proj1 (C11_tb_peak_spacing _ _ _ _ _ Hr Hrun _ _ _ _ _ F1 F2) PK).
Qed.
Print Assumptions C11_ex_tb_indexed.

(* Witness B: rate 1024 bit/s (128 B/s), bucket 256 B, PEAK 4096 bit/s (512 B/s); burst of p0 (256 B), p1 (128 B),
   p2 (256 B) at 0; the execution is stopped at instant 2 while p2 is still waiting for its tokens (phase PTok).
     p0: debit 0, leaves 256/512 = 1/2 later;   p1: head 1/2 with 64 tokens, waits 1/2: debit 1, leaves 5/4;
     p2: head 5/4 with 32 tokens, needs 224 more = 7/4 s: deadline 3, not yet passed at 2. *)
Definition tbB_c : tbcfg := {| rate := 1024; bsize := 256; peak := Some 4096 |}.
Definition tbB_p0 : pkt := mkp 0 1 0 256 0.
Definition tbB_p1 : pkt := mkp 1 2 1 128 0.
Definition tbB_p2 : pkt := mkp 2 3 0 256 0.
Definition tbB_acts : list taction :=
  [TInit; TPut tbB_p0; TPut tbB_p1; TPut tbB_p2; TStoreCb; TStoreCb; TStoreCb; TGet; TAdvance (1 # 2); TTimer; TGet;
   TAdvance 1; TTimer; TAdvance (5 # 4); TTimer; TGet; TAdvance 2].
Definition tbB_run := tb_run tbB_c (tb0 true tbB_c 0) tbB_acts.
Definition tbB_s : tb := match tbB_run with Some (s, _) => s | None => tb0 true tbB_c 0 end.
Definition tbB_tr : list tev := match tbB_run with Some (_, tr) => tr | None => [] end.

Theorem C11_ex_tb_peak :
  0 < rate tbB_c /\ tb_run tbB_c (tb0 true tbB_c 0) tbB_acts = Some (tbB_s, tbB_tr) /\
  (* C11_tb_peak_spacing at k = 0, C11_tb_departure_instant at k = 1, with a peak rate *)
  nth_error (fwds tbB_tr) 0 = Some (1 # 2, tbB_p0) /\
  nth_error (fwds tbB_tr) 1 = Some (5 # 4, tbB_p1) /\
  peak_on tbB_c = Some 4096 /\
  (* second clause of C11_tb_release_instant: a packet waiting for tokens *)
  phase tbB_s = PTok tbB_p2 3 /\ tnow tbB_s = 2 /\
  (* the execution *)
  heads tbB_tr = [(0, tbB_p0); (1 # 2, tbB_p1); (5 # 4, tbB_p2)] /\
  debits tbB_tr = [(0, tbB_p0); (1, tbB_p1)] /\
  (* ---- conclusions, instantiated ---- *)
  (1 # 2) + spacing 4096 (sz tbB_p1) <= 5 # 4 /\ spacing 4096 (sz tbB_p1) == 1 # 4 /\
  (exists d, nth_error (debits tbB_tr) 1 = Some (d, tbB_p1) /\ 5 # 4 == d + spacing 4096 (sz tbB_p1)) /\
  tnow tbB_s <= 3 /\
  (* ... and the packet in service is exactly what is missing from the departures *)
  (exists rest, map snd (puts tbB_tr) = map snd (fwds tbB_tr) ++ rest) /\
  map snd (puts tbB_tr) = map snd (fwds tbB_tr) ++ [tbB_p2].
Proof.
  assert (Hr : 0 < rate tbB_c) by reflexivity.
  assert (Hrun : tb_run tbB_c (tb0 true tbB_c 0) tbB_acts = Some (tbB_s, tbB_tr)) by (vm_compute; reflexivity).
  assert (F0 : nth_error (fwds tbB_tr) 0 = Some (1 # 2, tbB_p0)) by (vm_compute; reflexivity).
  assert (F1 : nth_error (fwds tbB_tr) 1 = Some (5 # 4, tbB_p1)) by (vm_compute; reflexivity).
  assert (PK : peak_on tbB_c = Some 4096) by reflexivity.
  assert (PH : phase tbB_s = PTok tbB_p2 3) by (vm_compute; reflexivity).
  split; [exact Hr|]. split; [exact Hrun|]. split; [exact F0|]. split; [exact F1|]. split; [exact PK|].
  split; [exact PH|]. split; [vm_compute; reflexivity|].
  split; [vm_compute; reflexivity|]. split; [vm_compute; reflexivity|].
  split; [exact (proj2 (C11_tb_peak_spacing _ _ _ _ _ Hr Hrun _ _ _ _ _ F0 F1) _ PK)|].
  split; [vm_compute; reflexivity|].
  split.
  { destruct (C11_tb_departure_instant _ _ _ _ _ Hr Hrun _ _ _ F1) as (d & Hd & _ & E). exists d. split; [exact Hd|exact (E _ PK)]. }
  split; [exact (proj2 (C11_tb_release_instant _ _ _ _ _ Hr Hrun) _ _ (or_introl PH))|].
  split; [exact (C11_tb_fifo _ _ _ _ _ Hr Hrun)|].
  vm_compute; reflexivity.
Qed.
Print Assumptions C11_ex_tb_peak.

(* C11_tb_release_is_least: 0 < r and lvl <= B, at the values of p1 in witness A (B = 256, r = 512, head at -3
   with 128 tokens, size 256): the release instant is -1, the bucket then holds exactly 256, and one second
   earlier it held only 192 *)
Theorem C11_ex_tb_release_is_least :
  0 < 512 /\ 128 <= 256 /\
  release 512 (-3) 128 256 == -1 /\
  -3 <= release 512 (-3) 128 256 /\
  256 <= tokens_at 256 512 (-3) 128 256 (release 512 (-3) 128 256) /\
  tokens_at 256 512 (-3) 128 256 (-1) == 256 /\
  tokens_at 256 512 (-3) 128 256 (-2) == 192 /\
  (forall t, -3 <= t -> t < release 512 (-3) 128 256 -> tokens_at 256 512 (-3) 128 256 t < 256).
Proof.
  assert (Hr : 0 < 512) by reflexivity.
  assert (Hl : 128 <= 256) by (vm_compute; discriminate).
  destruct (C11_tb_release_is_least 256 512 (-3) 128 256 Hr Hl) as (A & B & C).
  split; [exact Hr|]. split; [exact Hl|]. split; [vm_compute; reflexivity|].
  split; [exact A|]. split; [exact B|]. split; [vm_compute; reflexivity|]. split; [vm_compute; reflexivity|].
  exact C.
Qed.
Print Assumptions C11_ex_tb_release_is_least.

(* ================================ TwoRateTokenBucket ================================ *)

(* Witness C: CIR 1024 bit/s (128 B/s), CBS 256 B, PIR 2048 bit/s (256 B/s), PBS 512 B, initial time 0.
   Four 256-byte packets at 1 (both buckets full), a 128-byte packet at 6:
     q0 green (256 <= 256 committed, 256 <= 512 peak), q1 yellow (committed bucket empty, 256 peak tokens left),
     q2 red (peak bucket empty: waits 256/256 = 1 s, leaves at 2; the committed bucket refills meanwhile to 128),
     q3 red again (head at 2 with 0 peak tokens: leaves at 3), q4 at 6 green (both buckets refilled). *)
Definition trC_c : trcfg := {| cir := 1024; cbs := 256; pk := Some (2048, 512) |}.
Definition trC_q (i : nat) (size : Z) (t : Q) : pkt := mkp i (Z.of_nat i + 1) 0 size t.
Definition trC_acts : list raction :=
  [RInit; RAdvance 1; RPut (trC_q 0 256 1); RPut (trC_q 1 256 1); RPut (trC_q 2 256 1); RPut (trC_q 3 256 1);
   RStoreCb; RStoreCb; RStoreCb; RStoreCb; RGet; RGet; RGet; RAdvance 2; RTimer; RGet; RAdvance 3; RTimer;
   RAdvance 6; RPut (trC_q 4 128 6); RStoreCb; RGet].
Definition trC_run := tr_run true true trC_c (tr0 true trC_c 0) trC_acts.
Definition trC_s : trtb := match trC_run with Some (s, _) => s | None => tr0 true trC_c 0 end.
Definition trC_tr : list rev := match trC_run with Some (_, tr) => tr | None => [] end.

Theorem C11_ex_trtb_admissible :
  (* hypotheses of C11_trtb_recurrence / _is_recurrence / _fifo / _lossless (and 0 <= cbs of _green_conforms) *)
  trwf trC_c /\ 0 <= cbs trC_c /\
  tr_run true true trC_c (tr0 true trC_c 0) trC_acts = Some (trC_s, trC_tr) /\
  tr_quiescent trC_s /\
  (* the execution *)
  rputs trC_tr = [(1, trC_q 0 256 1); (1, trC_q 1 256 1); (1, trC_q 2 256 1); (1, trC_q 3 256 1); (6, trC_q 4 128 6)] /\
  rheads trC_tr = [(1, trC_q 0 256 1); (1, trC_q 1 256 1); (1, trC_q 2 256 1); (2, trC_q 3 256 1); (6, trC_q 4 128 6)] /\
  rfwds trC_tr = [(1, trC_q 0 256 1); (1, trC_q 1 256 1); (2, trC_q 2 256 1); (3, trC_q 3 256 1); (6, trC_q 4 128 6)] /\
  rcols trC_tr = [Green; Yellow; Red; Red; Green] /\
  (* conclusions *)
  (exists R, rchain trC_c (cbs trC_c) (tr_P0 trC_c) 0 R /\ rputs trC_tr = rv_arr R ++ sq_held (rq trC_s) /\
             tr_matches trC_s trC_tr R) /\
  rec_cols trC_c 0 (rputs trC_tr) = [Green; Yellow; Red; Red; Green] /\
  (exists n, rcols trC_tr = firstn n (rec_cols trC_c 0 (rputs trC_tr)) /\
             tpe (rfwds trC_tr) (firstn n (rec_deps trC_c 0 (rputs trC_tr))) /\
             n = length (rfwds trC_tr) /\ (tr_quiescent trC_s -> n = length (rputs trC_tr))) /\
  (exists rest, map snd (rputs trC_tr) = map snd (rfwds trC_tr) ++ rest) /\
  map snd (rfwds trC_tr) = map snd (rputs trC_tr).
Proof.
  assert (Hwf : trwf trC_c) by (apply trwf_pir; reflexivity).
  assert (Hrun : tr_run true true trC_c (tr0 true trC_c 0) trC_acts = Some (trC_s, trC_tr)) by (vm_compute; reflexivity).
  assert (HQ : tr_quiescent trC_s) by (split; vm_compute; reflexivity).
  split; [exact Hwf|]. split; [vm_compute; discriminate|]. split; [exact Hrun|]. split; [exact HQ|].
  split; [vm_compute; reflexivity|]. split; [vm_compute; reflexivity|].
  split; [vm_compute; reflexivity|]. split; [vm_compute; reflexivity|].
  split; [exact (C11_trtb_recurrence _ _ _ _ _ Hwf Hrun)|].
  split; [vm_compute; reflexivity|].
  split; [exact (C11_trtb_is_recurrence _ _ _ _ _ Hwf Hrun)|].
  split; [exact (C11_trtb_fifo _ _ _ _ _ Hwf Hrun)|].
  exact (C11_trtb_lossless _ _ _ _ _ Hwf Hrun HQ).
Qed.
Print Assumptions C11_ex_trtb_admissible.

(* indexed hypotheses of C11_trtb_colour_iff (k = 1 yellow, k = 2 red), C11_trtb_shapes_against and
   C11_trtb_green_conforms (windows 0..4 and 1..3) on witness C *)
Theorem C11_ex_trtb_indexed :
  trwf trC_c /\ 0 <= cbs trC_c /\
  tr_run true true trC_c (tr0 true trC_c 0) trC_acts = Some (trC_s, trC_tr) /\
  nth_error (rfwds trC_tr) 0 = Some (1, trC_q 0 256 1) /\
  nth_error (rfwds trC_tr) 1 = Some (1, trC_q 1 256 1) /\
  nth_error (rfwds trC_tr) 2 = Some (2, trC_q 2 256 1) /\
  nth_error (rfwds trC_tr) 3 = Some (3, trC_q 3 256 1) /\
  nth_error (rfwds trC_tr) 4 = Some (6, trC_q 4 128 6) /\
  (0 <= 4)%nat /\ (1 <= 3)%nat /\
  (* ---- conclusions, instantiated ---- *)
  (* colour of departure 2 is Red, and Red is exactly "peak tokens short", with a real wait (head 1 < departure 2) *)
  (exists col h c1 p1,
     nth_error (rcols trC_tr) 2 = Some col /\ col = Red /\
     (exists h', nth_error (rheads trC_tr) 2 = Some (h', trC_q 2 256 1) /\ h' == h) /\
     (col = Red <-> pk trC_c <> None /\ p1 < sz (trC_q 2 256 1)) /\
     2 == tr_dep trC_c h c1 p1 (sz (trC_q 2 256 1)) /\ h < 2) /\
  (* colour of departure 1 is Yellow: committed tokens short, peak tokens cover it, no wait *)
  (exists col h c1 p1,
     nth_error (rcols trC_tr) 1 = Some col /\ col = Yellow /\
     (col = Yellow <-> c1 < sz (trC_q 1 256 1) /\ (pk trC_c <> None -> sz (trC_q 1 256 1) <= p1)) /\
     1 == h) /\
  (* shaping against (PIR, PBS) = (256 B/s, 512 B): 1152 bytes in 5 s <= 512 + 1280; the burst 1..3 is tight:
     768 = 512 + 256 * (3 - 1) ... *)
  shape_rate trC_c = 2048 /\ shape_size trC_c = 512 /\
  bytes (slice 0 4 (rfwds trC_tr)) == 1152 /\
  bytes (slice 0 4 (rfwds trC_tr)) <= Qmax (shape_size trC_c) (sz (trC_q 0 256 1)) + fill (shape_rate trC_c) (6 - 1) /\
  bytes (slice 1 3 (rfwds trC_tr)) == 768 /\
  Qmax (shape_size trC_c) (sz (trC_q 1 256 1)) + fill (shape_rate trC_c) (3 - 1) == 1024 /\
  bytes (slice 1 3 (rfwds trC_tr)) <= Qmax (shape_size trC_c) (sz (trC_q 1 256 1)) + fill (shape_rate trC_c) (3 - 1) /\
  (* green traffic: 256 + 128 = 384 green bytes over 0..4 within 256 + 128 * 5; no green byte over 1..3 *)
  gbytes (slice 0 4 (rfwds trC_tr)) (slice 0 4 (rcols trC_tr)) == 384 /\
  gbytes (slice 0 4 (rfwds trC_tr)) (slice 0 4 (rcols trC_tr)) <= cbs trC_c + fill (cir trC_c) (6 - 1) /\
  gbytes (slice 1 3 (rfwds trC_tr)) (slice 1 3 (rcols trC_tr)) == 0.
Proof.
  assert (Hwf : trwf trC_c) by (apply trwf_pir; reflexivity).
  assert (Hcb : 0 <= cbs trC_c) by (vm_compute; discriminate).
  assert (Hrun : tr_run true true trC_c (tr0 true trC_c 0) trC_acts = Some (trC_s, trC_tr)) by (vm_compute; reflexivity).
  assert (F0 : nth_error (rfwds trC_tr) 0 = Some (1, trC_q 0 256 1)) by (vm_compute; reflexivity).
  assert (F1 : nth_error (rfwds trC_tr) 1 = Some (1, trC_q 1 256 1)) by (vm_compute; reflexivity).
  assert (F2 : nth_error (rfwds trC_tr) 2 = Some (2, trC_q 2 256 1)) by (vm_compute; reflexivity).
  assert (F3 : nth_error (rfwds trC_tr) 3 = Some (3, trC_q 3 256 1)) by (vm_compute; reflexivity).
  assert (F4 : nth_error (rfwds trC_tr) 4 = Some (6, trC_q 4 128 6)) by (vm_compute; reflexivity).
  assert (L04 : (0 <= 4)%nat) by (repeat constructor).
  assert (L13 : (1 <= 3)%nat) by (repeat constructor).
  split; [exact Hwf|]. split; [exact Hcb|]. split; [exact Hrun|].
  split; [exact F0|]. split; [exact F1|]. split; [exact F2|]. split; [exact F3|]. split; [exact F4|].
  split; [exact L04|]. split; [exact L13|].
  split.
  { destruct (C11_trtb_colour_iff _ _ _ _ _ Hwf Hrun _ _ _ F2) as (col & h & c1 & p1 & Hc & Hh & _ & _ & _ & _ & HR & Hd & _ & _ & Hw).
    assert (Ec : col = Red) by (vm_compute in Hc; injection Hc as <-; reflexivity).
    exists col, h, c1, p1. split; [exact Hc|]. split; [exact Ec|]. split; [exact Hh|]. split; [exact HR|].
    split; [exact Hd|exact (Hw Ec)]. }
  split.
  { destruct (C11_trtb_colour_iff _ _ _ _ _ Hwf Hrun _ _ _ F1) as (col & h & c1 & p1 & Hc & _ & _ & _ & _ & HY & _ & _ & _ & Hn & _).
    assert (Ec : col = Yellow) by (vm_compute in Hc; injection Hc as <-; reflexivity).
    exists col, h, c1, p1. split; [exact Hc|]. split; [exact Ec|]. split; [exact HY|].
    apply Hn; [discriminate|rewrite Ec; discriminate]. }
  split; [reflexivity|]. split; [reflexivity|].
  split; [vm_compute; reflexivity|].
  split; [exact (proj2 (C11_trtb_shapes_against _ _ _ _ _ Hwf Hrun _ _ _ _ _ _ L04 F0 F4))|].
  split; [vm_compute; reflexivity|]. split; [vm_compute; reflexivity|].
  split; [exact (proj2 (C11_trtb_shapes_against _ _ _ _ _ Hwf Hrun _ _ _ _ _ _ L13 F1 F3))|].
  split; [vm_compute; reflexivity|].
  split; [exact (C11_trtb_green_conforms _ _ _ _ _ Hwf Hcb Hrun _ _ _ _ _ _ L04 F0 F4)|].
  vm_compute; reflexivity.
Qed.
Print Assumptions C11_ex_trtb_indexed.

(* Witness D: NO PIR: CIR 1024 bit/s (128 B/s), CBS 256 B, initial time 0.  d0 (256 B) and d1 (128 B) at 1, d2 (128 B) at 4:
     d0 green (bucket full), d1 yellow: the committed bucket is empty, it waits 128/128 = 1 s for committed tokens and
     leaves at 2 (the bucket shapes against (CIR, CBS)), d2 green (bucket refilled to 256 by 4). *)
Definition trD_c : trcfg := {| cir := 1024; cbs := 256; pk := None |}.
Definition trD_acts : list raction :=
  [RInit; RAdvance 1; RPut (trC_q 0 256 1); RPut (trC_q 1 128 1); RStoreCb; RStoreCb; RGet; RGet;
   RAdvance 2; RTimer; RAdvance 4; RPut (trC_q 2 128 4); RStoreCb; RGet].
Definition trD_run := tr_run true true trD_c (tr0 true trD_c 0) trD_acts.
Definition trD_s : trtb := match trD_run with Some (s, _) => s | None => tr0 true trD_c 0 end.
Definition trD_tr : list rev := match trD_run with Some (_, tr) => tr | None => [] end.

Theorem C11_ex_trtb_no_pir :
  trwf trD_c /\ 0 <= cbs trD_c /\ pk trD_c = None /\
  tr_run true true trD_c (tr0 true trD_c 0) trD_acts = Some (trD_s, trD_tr) /\
  tr_quiescent trD_s /\
  nth_error (rfwds trD_tr) 0 = Some (1, trC_q 0 256 1) /\
  nth_error (rfwds trD_tr) 1 = Some (2, trC_q 1 128 1) /\
  nth_error (rfwds trD_tr) 2 = Some (4, trC_q 2 128 4) /\
  (0 <= 1)%nat /\ (0 <= 2)%nat /\
  (* the execution *)
  rfwds trD_tr = [(1, trC_q 0 256 1); (2, trC_q 1 128 1); (4, trC_q 2 128 4)] /\
  rcols trD_tr = [Green; Yellow; Green] /\
  (* conclusions: recurrence, colours, shaping against (CIR, CBS) attained with equality over 0..1, green bound *)
  (exists R, rchain trD_c (cbs trD_c) (tr_P0 trD_c) 0 R /\ rputs trD_tr = rv_arr R ++ sq_held (rq trD_s) /\
             tr_matches trD_s trD_tr R) /\
  rec_cols trD_c 0 (rputs trD_tr) = [Green; Yellow; Green] /\
  (exists col h c1 p1,
     nth_error (rcols trD_tr) 1 = Some col /\ col = Yellow /\
     (col = Yellow <-> c1 < sz (trC_q 1 128 1) /\ (pk trD_c <> None -> sz (trC_q 1 128 1) <= p1)) /\
     2 == tr_dep trD_c h c1 p1 (sz (trC_q 1 128 1)) /\ h <= 2) /\
  shape_rate trD_c = 1024 /\ shape_size trD_c = 256 /\
  bytes (slice 0 1 (rfwds trD_tr)) == 384 /\
  Qmax (shape_size trD_c) (sz (trC_q 0 256 1)) + fill (shape_rate trD_c) (2 - 1) == 384 /\
  bytes (slice 0 1 (rfwds trD_tr)) <= Qmax (shape_size trD_c) (sz (trC_q 0 256 1)) + fill (shape_rate trD_c) (2 - 1) /\
  gbytes (slice 0 2 (rfwds trD_tr)) (slice 0 2 (rcols trD_tr)) == 384 /\
  gbytes (slice 0 2 (rfwds trD_tr)) (slice 0 2 (rcols trD_tr)) <= cbs trD_c + fill (cir trD_c) (4 - 1) /\
  map snd (rfwds trD_tr) = map snd (rputs trD_tr).
Proof.
  assert (Hwf : trwf trD_c) by (split; [reflexivity|intros a b E; discriminate E]).
  assert (Hcb : 0 <= cbs trD_c) by (vm_compute; discriminate).
  assert (Hrun : tr_run true true trD_c (tr0 true trD_c 0) trD_acts = Some (trD_s, trD_tr)) by (vm_compute; reflexivity).
  assert (HQ : tr_quiescent trD_s) by (split; vm_compute; reflexivity).
  assert (F0 : nth_error (rfwds trD_tr) 0 = Some (1, trC_q 0 256 1)) by (vm_compute; reflexivity).
  assert (F1 : nth_error (rfwds trD_tr) 1 = Some (2, trC_q 1 128 1)) by (vm_compute; reflexivity).
  assert (F2 : nth_error (rfwds trD_tr) 2 = Some (4, trC_q 2 128 4)) by (vm_compute; reflexivity).
  assert (L01 : (0 <= 1)%nat) by (repeat constructor).
  assert (L02 : (0 <= 2)%nat) by (repeat constructor).
  split; [exact Hwf|]. split; [exact Hcb|]. split; [reflexivity|]. split; [exact Hrun|]. split; [exact HQ|].
  split; [exact F0|]. split; [exact F1|]. split; [exact F2|]. split; [exact L01|]. split; [exact L02|].
  split; [vm_compute; reflexivity|]. split; [vm_compute; reflexivity|].
  split; [exact (C11_trtb_recurrence _ _ _ _ _ Hwf Hrun)|].
  split; [vm_compute; reflexivity|].
  split.
  { destruct (C11_trtb_colour_iff _ _ _ _ _ Hwf Hrun _ _ _ F1) as (col & h & c1 & p1 & Hc & _ & _ & _ & _ & HY & _ & Hd & Hle & _).
    assert (Ec : col = Yellow) by (vm_compute in Hc; injection Hc as <-; reflexivity).
    exists col, h, c1, p1. split; [exact Hc|]. split; [exact Ec|]. split; [exact HY|]. split; [exact Hd|exact Hle]. }
  split; [reflexivity|]. split; [reflexivity|].
  split; [vm_compute; reflexivity|]. split; [vm_compute; reflexivity|].
  split; [exact (proj2 (C11_trtb_shapes_against _ _ _ _ _ Hwf Hrun _ _ _ _ _ _ L01 F0 F1))|].
  split; [vm_compute; reflexivity|].
  split; [exact (C11_trtb_green_conforms _ _ _ _ _ Hwf Hcb Hrun _ _ _ _ _ _ L02 F0 F2)|].
  exact (C11_trtb_lossless _ _ _ _ _ Hwf Hrun HQ).
Qed.
Print Assumptions C11_ex_trtb_no_pir.
