(* C08, the Wire's share -- NON-VACUITY of Props/C08_Wire.v: for every theorem there that has hypotheses, a concrete non-trivial
   execution that satisfies all of them at once, with the instantiated conclusion.
   Witness (Elem/WireProofs.v, ex_acts): loss rate 1/4, four packets of two flows; p0 propagates until 2, p1 queues behind it,
   p2 is lost on its draw, p3 arrives at an idle wire.
     C08_ex_wire_run                    covers C08_wire_conserves, C08_wire_flow_fifo            (hyp: admissible execution)
     C08_ex_wire_held                   covers C08_wire_conserves_uids (and conserves, with a packet still propagating)
     C08_ex_wire_delivers_what_was_put  covers C08_wire_delivers_what_was_put                    (+ nth_error premise)
     C08_ex_wire_drained                covers C08_wire_drained   (reachable, no timeout pending, nothing but put/advance enabled)
   No theorem of Props/C08_Wire.v is unconditional.
   The conclusions are obtained by applying the theorem to the witness.  Statement files are compiled independently (and in
   parallel) by the pipeline, so one statement file cannot import another: [C08_x] below is a LOCAL abbreviation of the proof
   term that closes theorem C08_x in Props/C08_Wire.v (there: `Proof. exact <that term>. Qed.`), hence has the same statement.
   Helper facts are stated with `Fact` (they are not obligations); every `Theorem` is a witness and is followed by
   Print Assumptions. *)
From Coq Require Import ZArith QArith List Bool Permutation.
From ONL Require Import Elem.Packet Elem.StoreQ Elem.Wire Elem.WireProofs.
Import ListNotations.

Local Notation C08_wire_conserves := wire_conserves.
Local Notation C08_wire_conserves_uids := wire_conserves_uids.
Local Notation C08_wire_delivers_what_was_put := wire_delivers_what_was_put.
Local Notation C08_wire_flow_fifo := wire_flow_fifo.
Local Notation C08_wire_drained := wire_drained.

(* covers: C08_wire_conserves, C08_wire_flow_fifo -- the complete example execution (one packet lost, nothing held at the end) *)
Theorem C08_ex_wire_run :
  exists w tr, wire_run ex_loss (wire0 0) ex_acts = Some (w, tr) /\
    map snd (arrivals tr) = [ex_p 0; ex_p 1; ex_p 2; ex_p 3] /\
    map snd (tdeliv tr) = [ex_p 0; ex_p 1; ex_p 3] /\ map snd (tlost tr) = [ex_p 2] /\ wheld w = [] /\
    Permutation (map snd (arrivals tr)) (map snd (tdeliv tr) ++ map snd (tlost tr) ++ wheld w) /\
    subseq (filter (fun p => Z.eqb (flow p) 1) (map snd (tdeliv tr)))
           (filter (fun p => Z.eqb (flow p) 1) (map snd (arrivals tr))) /\
    filter (fun p => Z.eqb (flow p) 1) (map snd (tdeliv tr)) = [ex_p 1; ex_p 3].
Proof.
  destruct (wire_run ex_loss (wire0 0) ex_acts) as [[w tr]|] eqn:E; [|vm_compute in E; discriminate].
  exists w, tr. split; [reflexivity|].
  pose proof (C08_wire_conserves _ _ _ _ _ E) as HC. pose proof (C08_wire_flow_fifo _ _ _ _ _ E 1%Z) as HF.
  vm_compute in E. injection E as <- <-.
  split; [reflexivity|]. split; [reflexivity|]. split; [reflexivity|]. split; [reflexivity|].
  split; [exact HC|]. split; [exact HF|]. reflexivity.
Qed.
Print Assumptions C08_ex_wire_run.

(* covers: C08_wire_conserves_uids (and C08_wire_conserves) -- the same execution stopped after 17 actions: p3 is propagating *)
Theorem C08_ex_wire_held :
  exists w tr, wire_run ex_loss (wire0 0) (firstn 17 ex_acts) = Some (w, tr) /\
    map snd (arrivals tr) = [ex_p 0; ex_p 1; ex_p 2; ex_p 3] /\
    map snd (tdeliv tr) = [ex_p 0; ex_p 1] /\ map snd (tlost tr) = [ex_p 2] /\ wheld w = [ex_p 3] /\
    Permutation (map uid (map snd (arrivals tr)))
                (map uid (map snd (tdeliv tr)) ++ map uid (map snd (tlost tr)) ++ map uid (wheld w)).
Proof.
  destruct (wire_run ex_loss (wire0 0) (firstn 17 ex_acts)) as [[w tr]|] eqn:E; [|vm_compute in E; discriminate].
  exists w, tr. split; [reflexivity|].
  pose proof (C08_wire_conserves_uids _ _ _ _ _ E) as HC.
  vm_compute in E. injection E as <- <-.
  repeat (split; [reflexivity|]). exact HC.
Qed.
Print Assumptions C08_ex_wire_held.

(* covers: C08_wire_delivers_what_was_put -- the second delivery (p1, at 2) is the packet put in at 1 *)
Theorem C08_ex_wire_delivers_what_was_put :
  exists w tr t, wire_run ex_loss (wire0 0) ex_acts = Some (w, tr) /\
    nth_error (tdeliv tr) 1 = Some (t, ex_p 1) /\ t == 2 /\
    exists i a, nth_error (arrivals tr) i = Some (a, ex_p 1) /\ a <= t.
Proof.
  destruct (wire_run ex_loss (wire0 0) ex_acts) as [[w tr]|] eqn:E; [|vm_compute in E; discriminate].
  pose proof (C08_wire_delivers_what_was_put _ _ _ _ _ E 1%nat) as HD.
  vm_compute in E. injection E as <- <-.
  eexists _, _, _. split; [reflexivity|]. split; [vm_compute; reflexivity|]. split; [reflexivity|].
  apply HD. vm_compute. reflexivity.
Qed.
Print Assumptions C08_ex_wire_delivers_what_was_put.

(* covers: C08_wire_drained -- the final state: reachable by an execution with four arrivals, nothing but put / advance enabled *)
Theorem C08_ex_wire_drained :
  exists w, (exists acts tr, wire_run ex_loss (wire0 0) acts = Some (w, tr) /\ length (arrivals tr) = 4%nat) /\
    hold w = None /\
    (forall a, (forall p, a <> WPut p) -> (forall t, a <> WAdvance t) -> wire_act ex_loss w a = None) /\
    wheld w = [].
Proof.
  destruct (wire_run ex_loss (wire0 0) ex_acts) as [[w tr]|] eqn:E; [|vm_compute in E; discriminate].
  exists w. split; [exists ex_acts, tr; split; [exact E|]; vm_compute in E; injection E as <- <-; reflexivity|].
  vm_compute in E. injection E as <- <-.
  split; [reflexivity|]. split; [|reflexivity].
  intros a HP HA. destruct a; try reflexivity; [exfalso; eapply HP; reflexivity|exfalso; eapply HA; reflexivity].
Qed.
Print Assumptions C08_ex_wire_drained.
