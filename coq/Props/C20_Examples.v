(* C20 -- NON-VACUITY of the statements of Props/C20.v.

   Every theorem of Props/C20.v has hypotheses; each is listed above a witness below: a machine-checked statement that
   ALL its hypotheses hold simultaneously at concrete closed terms, followed by what its conclusion then says about them
   (obtained by applying the very lemma that closes the theorem in Props/C20.v, or by computation).

   The instance: factor 1/2, initial simulated time 2, real_start 7 (the wall-clock reading of the last sync()); a kernel
   whose agenda holds occurrences due at simulated times 5/2, 3, 3, 9/2, i.e. at wall times 29/4, 15/2, 15/2, 33/4; the
   wall clock is scripted per step: sleeps that return early (step 1), late (step 2), no sleep needed (step 3), a long
   sleep (step 4).  The kernel: K = list of due times, peek = head, step = pop and report the time processed.
   The model does not normalise the rationals it computes: 4 # 32 is the sleep of 1/8, 10 # 8 the lag 5/4, 28 # 32 = 7/8.

   Unconditional theorems (Props/C20_Bridge.v, second tie): C20_gen_rt_step, C20_gen_rt_sync -- no witness needed.
   Hypothesis-carrying theorems and the witness that covers each:
     C20_same_events                          C20_ex_same_events          (a non-strict run of four steps that proceeds, and a
                                                                           strict run that stops with 'too slow' at its third step)
     C20_never_early, C20_sleeps_exact        C20_ex_never_early_sleeps_exact
     C20_strict_iff                           C20_ex_strict_iff           (lag above `factor`: raises; lag exactly `factor`: does not)
     C20_nonstrict_never_raises               C20_ex_nonstrict_never_raises
     C20_proceeds_when_reached                C20_ex_proceeds_when_reached *)
From Coq Require Import ZArith QArith List Bool.
From ONL Require Import Rt.Realtime Rt.RealtimeProofs.
Import ListNotations.

Definition xc (s : bool) : rtcfg := {| factor := 1 # 2; strict := s; env_start := 2 |}.
Definition xrs : Q := 7.

(* a concrete kernel: the state is the list of due times, a step pops the head and reports it *)
Definition xpeek (k : list Q) : option Q := hd_error k.
Definition xkstep (k : list Q) : list Q * Q := (tl k, hd 0 k).
Definition xk0 : list Q := [5 # 2; 3; 3; 9 # 2].

(* per-step wall-clock readings *)
Definition xclk1 : list Q := [7; 57 # 8; 29 # 4].        (* due 29/4: sleep(1/4) returns after 1/8, sleep(1/8) on time *)
Definition xclk2 : list Q := [59 # 8; 61 # 8].           (* due 15/2: sleep(1/8) returns 1/8 late *)
Definition xclk3 : list Q := [61 # 8].                   (* due 15/2: already past, no sleep *)
Definition xclk4 : list Q := [31 # 4; 17 # 2].           (* due 33/4: sleep(1/2) returns 1/4 late *)

(* covers C20_same_events (rt_run .. = (k', results, o)), twice: a non-strict run that proceeds through all four steps, and
   a strict run whose third step finds the clock 1 > factor past the due instant and raises: in both the kernel steps
   performed are exactly those of the plain Environment *)
Theorem C20_ex_same_events :
  rt_run (list Q) Q xpeek xkstep (xc false) xrs xk0 [xclk1; xclk2; xclk3; xclk4] = ([], [5 # 2; 3; 3; 9 # 2], RProceed) /\
  plain_run (list Q) Q xkstep xk0 (length [5 # 2; 3; 3; 9 # 2]) = ([], [5 # 2; 3; 3; 9 # 2]) /\
  rt_run (list Q) Q xpeek xkstep (xc true) xrs xk0 [[7; 7; 57 # 8; 29 # 4]; [59 # 8; 59 # 8; 61 # 8]; [17 # 2; 35 # 4]; xclk4]
    = ([3; 9 # 2], [5 # 2; 3], RTooSlow (10 # 8)) /\
  plain_run (list Q) Q xkstep xk0 (length [5 # 2; 3]) = ([3; 9 # 2], [5 # 2; 3]).
Proof.
  assert (H1 : rt_run (list Q) Q xpeek xkstep (xc false) xrs xk0 [xclk1; xclk2; xclk3; xclk4]
               = ([], [5 # 2; 3; 3; 9 # 2], RProceed)) by (vm_compute; reflexivity).
  assert (H2 : rt_run (list Q) Q xpeek xkstep (xc true) xrs xk0
                 [[7; 7; 57 # 8; 29 # 4]; [59 # 8; 59 # 8; 61 # 8]; [17 # 2; 35 # 4]; xclk4]
               = ([3; 9 # 2], [5 # 2; 3], RTooSlow (10 # 8))) by (vm_compute; reflexivity).
  split; [exact H1|]. split; [exact (rt_same_events _ _ _ _ _ _ _ _ _ _ _ H1)|].
  split; [exact H2|exact (rt_same_events _ _ _ _ _ _ _ _ _ _ _ H2)].
Qed.
Print Assumptions C20_ex_same_events.

(* covers C20_never_early (rt_step .. = (RProceed, sl, used)) and C20_sleeps_exact (+ strict c = false): the first step above;
   and C20_never_early once more in strict mode (the first reading is the lateness check, lag 1/4 <= factor) *)
Theorem C20_ex_never_early_sleeps_exact :
  strict (xc false) = false /\
  rt_step (xc false) xrs (Some (5 # 2)) xclk1 = (RProceed, [1 # 4; 4 # 32], [7; 57 # 8; 29 # 4]) /\
  real_time_of (xc false) xrs (5 # 2) == 29 # 4 /\
  (exists pre r, [7; 57 # 8; 29 # 4] = pre ++ [r] /\ real_time_of (xc false) xrs (5 # 2) <= r) /\
  (exists pre r, [7; 57 # 8; 29 # 4] = pre ++ [r] /\ Forall (fun x => x < real_time_of (xc false) xrs (5 # 2)) pre /\
                 [1 # 4; 4 # 32] = map (fun x => real_time_of (xc false) xrs (5 # 2) - x) pre) /\
  rt_step (xc true) xrs (Some (5 # 2)) [15 # 2; 15 # 2] = (RProceed, [], [15 # 2; 15 # 2]) /\
  (exists pre r, [15 # 2; 15 # 2] = pre ++ [r] /\ real_time_of (xc true) xrs (5 # 2) <= r).
Proof.
  assert (S : strict (xc false) = false) by reflexivity.
  assert (H : rt_step (xc false) xrs (Some (5 # 2)) xclk1 = (RProceed, [1 # 4; 4 # 32], [7; 57 # 8; 29 # 4]))
    by (vm_compute; reflexivity).
  assert (H' : rt_step (xc true) xrs (Some (5 # 2)) [15 # 2; 15 # 2] = (RProceed, [], [15 # 2; 15 # 2]))
    by (vm_compute; reflexivity).
  split; [exact S|]. split; [exact H|]. split; [vm_compute; reflexivity|].
  split; [exact (rt_never_early _ _ _ _ _ _ H)|]. split; [exact (rt_sleeps_exact _ _ _ _ _ _ S H)|].
  split; [exact H'|exact (rt_never_early _ _ _ _ _ _ H')].
Qed.
Print Assumptions C20_ex_never_early_sleeps_exact.

(* covers C20_strict_iff (strict c = true): due wall time 29/4, factor 1/2.  First reading 8 (lag 3/4 > factor): raises, the
   message carries the second reading's lag; first reading 31/4 (lag exactly = factor): does not raise *)
Theorem C20_ex_strict_iff :
  strict (xc true) = true /\
  (factor (xc true) < 8 - real_time_of (xc true) xrs (5 # 2)) /\
  rt_step (xc true) xrs (Some (5 # 2)) [8; 65 # 8; 9] = (RTooSlow (28 # 32), [], [8; 65 # 8]) /\
  (exists d, fst (fst (rt_step (xc true) xrs (Some (5 # 2)) (8 :: (65 # 8) :: [9]))) = RTooSlow d) /\
  ~ (factor (xc true) < (31 # 4) - real_time_of (xc true) xrs (5 # 2)) /\
  rt_step (xc true) xrs (Some (5 # 2)) [31 # 4; 31 # 4] = (RProceed, [], [31 # 4; 31 # 4]) /\
  ~ (exists d, fst (fst (rt_step (xc true) xrs (Some (5 # 2)) ((31 # 4) :: (31 # 4) :: []))) = RTooSlow d).
Proof.
  assert (S : strict (xc true) = true) by reflexivity.
  assert (L : factor (xc true) < 8 - real_time_of (xc true) xrs (5 # 2)) by (vm_compute; reflexivity).
  assert (NL : ~ (factor (xc true) < (31 # 4) - real_time_of (xc true) xrs (5 # 2))) by (vm_compute; discriminate).
  split; [exact S|]. split; [exact L|]. split; [vm_compute; reflexivity|].
  split; [exact (proj2 (rt_strict_iff _ xrs (5 # 2) 8 (65 # 8) [9] S) L)|].
  split; [exact NL|]. split; [vm_compute; reflexivity|].
  intros E. exact (NL (proj1 (rt_strict_iff _ xrs (5 # 2) (31 # 4) (31 # 4) [] S) E)).
Qed.
Print Assumptions C20_ex_strict_iff.

(* covers C20_nonstrict_never_raises (strict c = false): the clock is 93 past the due instant, the step just proceeds *)
Theorem C20_ex_nonstrict_never_raises :
  strict (xc false) = false /\
  rt_step (xc false) xrs (Some (5 # 2)) [401 # 4; 102] = (RProceed, [], [401 # 4]) /\
  (forall d, fst (fst (rt_step (xc false) xrs (Some (5 # 2)) [401 # 4; 102])) <> RTooSlow d).
Proof.
  assert (S : strict (xc false) = false) by reflexivity.
  split; [exact S|]. split; [vm_compute; reflexivity|]. exact (rt_nonstrict_never_raises _ _ _ _ S).
Qed.
Print Assumptions C20_ex_nonstrict_never_raises.

(* covers C20_proceeds_when_reached (strict c = false, some reading reaches the due real time): three sleeps that all return
   early, the fourth reading reaches 29/4 *)
Theorem C20_ex_proceeds_when_reached :
  strict (xc false) = false /\
  Exists (fun r => real_time_of (xc false) xrs (5 # 2) <= r) [7; 57 # 8; 115 # 16; 29 # 4; 8] /\
  (exists sl used, rt_step (xc false) xrs (Some (5 # 2)) [7; 57 # 8; 115 # 16; 29 # 4; 8] = (RProceed, sl, used)) /\
  rt_step (xc false) xrs (Some (5 # 2)) [7; 57 # 8; 115 # 16; 29 # 4; 8]
    = (RProceed, [1 # 4; 4 # 32; 4 # 64], [7; 57 # 8; 115 # 16; 29 # 4]).
Proof.
  assert (S : strict (xc false) = false) by reflexivity.
  assert (E : Exists (fun r => real_time_of (xc false) xrs (5 # 2) <= r) [7; 57 # 8; 115 # 16; 29 # 4; 8]).
  { apply Exists_cons_tl, Exists_cons_tl, Exists_cons_tl, Exists_cons_hd. vm_compute. discriminate. }
  split; [exact S|]. split; [exact E|]. split; [exact (rt_proceeds_when_reached _ _ _ _ S E)|].
  vm_compute. reflexivity.
Qed.
Print Assumptions C20_ex_proceeds_when_reached.
