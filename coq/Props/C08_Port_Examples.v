(* C08, the share of Port / REDPort -- NON-VACUITY of Props/C08_Port.v: concrete non-trivial executions that satisfy the
   hypotheses of its theorems, with the instantiated conclusions.
   Witnesses: (Elem/PortProofs.v, ex_cfg / ex_acts) tail-drop port, 64 bit/s, limit 3 packets: a burst of four at 0 (two refused),
   a fifth packet arriving exactly at the first departure; and a REDPort whose third put is refused on its draw.
     C08_ex_port_run      covers C08_port_conserves, C08_port_flow_fifo, C08_port_drained (final state: nothing urgent, not serving)
     C08_ex_port_held     covers C08_port_conserves again, stopped while one packet is in transmission and one queued
     C08_ex_port_red_run  covers C08_port_conserves / C08_port_flow_fifo for a drop policy that consumes random draws (RED)
   No theorem of Props/C08_Port.v is unconditional.
   The conclusions are obtained by applying the theorem to the witness.  Statement files are compiled independently (and in
   parallel) by the pipeline, so one statement file cannot import another: [C08_x] below is a LOCAL abbreviation of the proof
   term that closes theorem C08_x in Props/C08_Port.v (there: `Proof. exact <that term>. Qed.`), hence has the same statement.
   Helper facts are stated with `Fact` (they are not obligations); every `Theorem` is a witness and is followed by
   Print Assumptions. *)
From Coq Require Import ZArith QArith List Bool Permutation.
From ONL Require Import Elem.Packet Elem.StoreQ Elem.Port Elem.Red Elem.PortProofs.
Import ListNotations.

Local Notation C08_port_conserves := port_conserves.
Local Notation C08_port_flow_fifo := port_flow_fifo.
Local Notation C08_port_drained := port_drained.

(* covers: C08_port_conserves, C08_port_flow_fifo, C08_port_drained -- the complete example execution *)
Theorem C08_ex_port_run :
  exists s tr, port_run ex_cfg (port0 0) ex_acts = Some (s, tr) /\
    map uid (puts tr) = [0; 1; 2; 3; 4]%nat /\ map uid (forwarded tr) = [0; 1; 4]%nat /\
    map uid (dropped tr) = [2; 3]%nat /\ port_held s = [] /\ pdrop s = 2%Z /\
    Permutation (puts tr) (forwarded tr ++ dropped tr ++ port_held s) /\
    subseq (filter (fun p => Z.eqb (flow p) 0) (forwarded tr)) (filter (fun p => Z.eqb (flow p) 0) (puts tr)) /\
    map uid (filter (fun p => Z.eqb (flow p) 0) (forwarded tr)) = [0; 4]%nat /\
    purgent s = false /\ psvc s = None.
Proof.
  destruct (port_run ex_cfg (port0 0) ex_acts) as [[s tr]|] eqn:E; [|vm_compute in E; discriminate].
  exists s, tr. split; [reflexivity|].
  destruct (C08_port_conserves _ _ _ _ _ E) as (HC & _). 
  destruct (C08_port_flow_fifo _ _ _ _ _ (fun p => Z.eqb (flow p) 0) E) as (HF & _).
  vm_compute in E. injection E as <- <-.
  repeat (split; [reflexivity|]). split; [exact HC|]. split; [exact HF|]. repeat split; reflexivity.
Qed.
Print Assumptions C08_ex_port_run.

(* covers: C08_port_conserves -- the same execution stopped after 11 actions (held = [1; 4]) *)
Theorem C08_ex_port_held :
  exists s tr, port_run ex_cfg (port0 0) (firstn 11 ex_acts) = Some (s, tr) /\
    map uid (puts tr) = [0; 1; 2; 3; 4]%nat /\ map uid (forwarded tr) = [0]%nat /\
    map uid (dropped tr) = [2; 3]%nat /\ map uid (port_held s) = [1; 4]%nat /\
    Permutation (puts tr) (forwarded tr ++ dropped tr ++ port_held s) /\
    map snd (accepted tr) = forwarded tr ++ port_held s.
Proof.
  destruct (port_run ex_cfg (port0 0) (firstn 11 ex_acts)) as [[s tr]|] eqn:E; [|vm_compute in E; discriminate].
  exists s, tr. split; [reflexivity|].
  destruct (C08_port_conserves _ _ _ _ _ E) as (HC & _ & HA).
  vm_compute in E. injection E as <- <-.
  repeat (split; [reflexivity|]). split; [exact HC|exact HA].
Qed.
Print Assumptions C08_ex_port_held.

(* REDPort(1024 bit/s; min 128, max 256, maxp 1/2, limit 384 bytes, w = 1): the queue average seen by the third put is 208, drop
   probability 5/16; its draw 1/4 is below: refused; the fourth put draws 7/8: kept *)
Definition rd_cfg : pcfg :=
  red_cfg all_fixed 1024 {| r_min := 128; r_max := 256; r_maxp := 1 # 2; r_qlimit := 384; r_w := 1; r_lb := true |} (Some 0%Z).
Definition rd_p (u : nat) (f sz : Z) : pkt := mkp u (Z.of_nat u + 1) f sz 0.
Definition rd_acts : list paction :=
  [PInit; PPut (rd_p 0 1 192) None; PPut (rd_p 1 0 128) None; PPut (rd_p 2 1 64) (Some (1#4)); PPut (rd_p 3 0 64) (Some (7#8));
   PStoreCb; PStoreCb; PStoreCb; PGet; PAdvance (3#2); PTimer; PGet; PAdvance (5#2); PTimer; PGet; PAdvance 3; PTimer].

(* covers: C08_port_conserves, C08_port_flow_fifo, C08_port_drained -- REDPort: the third put is dropped on a draw, the fourth kept on a draw *)
Theorem C08_ex_port_red_run :
  exists s tr, port_run rd_cfg (port0 0) rd_acts = Some (s, tr) /\
    map uid (puts tr) = [0; 1; 2; 3]%nat /\ map uid (forwarded tr) = [0; 1; 3]%nat /\
    map uid (dropped tr) = [2]%nat /\ port_held s = [] /\ pdrop s = 1%Z /\
    Permutation (puts tr) (forwarded tr ++ dropped tr ++ port_held s) /\
    subseq (filter (fun p => Z.eqb (flow p) 0) (forwarded tr)) (filter (fun p => Z.eqb (flow p) 0) (puts tr)) /\
    purgent s = false /\ psvc s = None.
Proof.
  destruct (port_run rd_cfg (port0 0) rd_acts) as [[s tr]|] eqn:E; [|vm_compute in E; discriminate].
  exists s, tr. split; [reflexivity|].
  destruct (C08_port_conserves _ _ _ _ _ E) as (HC & _).
  destruct (C08_port_flow_fifo _ _ _ _ _ (fun p => Z.eqb (flow p) 0) E) as (HF & _).
  vm_compute in E. injection E as <- <-.
  repeat (split; [reflexivity|]). split; [exact HC|]. split; [exact HF|]. split; reflexivity.
Qed.
Print Assumptions C08_ex_port_red_run.
