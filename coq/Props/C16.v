(* C16 -- TCP acknowledgements are cumulative and correct; all data gets through.
   Only statements, closed by the lemma that proves them, and their assumptions. *)
From Coq Require Import ZArith List.
From ONL Require Import Tcp.Sink Tcp.SinkProofs.
Import ListNotations.
Open Scope Z_scope.

(* The ACK returned for the k-th arriving segment is the length of the contiguous prefix [0,n)
   received so far: every byte below it was covered by some arrival, the byte at it was not. *)
Theorem C16_ack_is_prefix : forall segs : list (Z * Z),
  (forall g, In g segs -> 0 <= fst g /\ 0 <= snd g) ->
  forall k a, nth_error (acks true sink0 segs) k = Some a -> prefix_len (firstn (S k) segs) a.
Proof. exact ack_is_prefix. Qed.
Print Assumptions C16_ack_is_prefix.

Theorem C16_ack_monotone : forall segs : list (Z * Z),
  (forall g, In g segs -> 0 <= fst g /\ 0 <= snd g) ->
  forall i j a b, (i <= j)%nat ->
  nth_error (acks true sink0 segs) i = Some a -> nth_error (acks true sink0 segs) j = Some b -> a <= b.
Proof. exact ack_monotone. Qed.
Print Assumptions C16_ack_monotone.

(* the ACK choice of the pinned commit (before the fix: commit) violates monotonicity *)
Theorem C16_ack_refuted_before_fix :
  exists segs, (forall g, In g segs -> 0 <= fst g /\ 0 <= snd g) /\
    exists i j a b, (i <= j)%nat /\ nth_error (acks false sink0 segs) i = Some a /\
                    nth_error (acks false sink0 segs) j = Some b /\ b < a.
Proof. exact ack_refuted_unfixed. Qed.
Print Assumptions C16_ack_refuted_before_fix.
