(* C16 -- TCP acknowledgements are cumulative and correct; all data gets through.
   Only statements, closed by the lemma that proves them, and their assumptions. *)
From Coq Require Import ZArith QArith List.
From ONL Require Import Tcp.Sink Tcp.SinkProofs Tcp.Sender Tcp.SenderProofs Tcp.Loop Tcp.LoopProofs Tcp.LoopLive Tcp.LoopLossfree.
Import ListNotations.
Open Scope Z_scope.

(* The ACK returned for the k-th arriving segment is the length of the contiguous prefix [0,n)
   received so far: every byte below it was covered by some arrival, the byte at it was not. *)
Theorem C16_ack_is_prefix : forall segs : list (Z * Z),
  (forall g, In g segs -> 0 <= fst g /\ 0 <= snd g) ->
  forall k a, nth_error (acks true sink0 segs) k = Some a -> prefix_len (firstn (S k) segs) a.
Proof. exact ack_is_prefix. Qed.
Print Assumptions C16_ack_is_prefix.

Theorem C16_ack_monotone : forall segs : list (Z * Z),
  (forall g, In g segs -> 0 <= fst g /\ 0 <= snd g) ->
  forall i j a b, (i <= j)%nat ->
  nth_error (acks true sink0 segs) i = Some a -> nth_error (acks true sink0 segs) j = Some b -> a <= b.
Proof. exact ack_monotone. Qed.
Print Assumptions C16_ack_monotone.

(* the ACK choice of the pinned commit (before the fix: commit) violates monotonicity *)
Theorem C16_ack_refuted_before_fix :
  exists segs, (forall g, In g segs -> 0 <= fst g /\ 0 <= snd g) /\
    exists i j a b, (i <= j)%nat /\ nth_error (acks false sink0 segs) i = Some a /\
                    nth_error (acks false sink0 segs) j = Some b /\ b < a.
Proof. exact ack_refuted_unfixed. Qed.
Print Assumptions C16_ack_refuted_before_fix.

(* ------------------------------------------------------------------------------------------------ *)
(* Sender and closed loop.  Models: Tcp/Sender.v (TCPPacketGenerator), Tcp/Loop.v (sender, sink, two
   Wires with constant delay, droppers by transmission index, agenda ordered like the kernel's).
   [repaired] = the three fix: commits (eae436e, 5f98ada, 5f6e664); the correspondence runs [current]. *)

Theorem C16_current_is_repaired : current = repaired.
Proof. exact current_is_repaired. Qed.
Print Assumptions C16_current_is_repaired.

(* the sender alone: for every history of ACKs (any numbers, any packet ids, samples >= 0), expiries,
   store callbacks and resumptions nothing is raised (KeyError, ZeroDivisionError, ValueError); the
   only "error" left is the model-level NotEnabled for an event that cannot occur in the state *)
Theorem C16_sender_never_raises : forall c cw0 ss0 rtt0,
  0 < mss c -> (zq (mss c) <= cw0)%Q -> (0 < rtt0)%Q ->
  forall evs x, Forall sample_ok evs -> run repaired c (init cw0 ss0 rtt0) evs = Raise x -> x = NotEnabled.
Proof. exact sender_never_raises. Qed.
Print Assumptions C16_sender_never_raises.

Theorem C16_sender_raises_before_fix :
  exists c evs, Forall sample_ok evs /\
    run (mkfx true false false) c (init (1024 # 1) (65535 # 1) (1 # 16)) evs = Raise (KeyErr 512).
Proof. exact sender_raises_before_fix. Qed.
Print Assumptions C16_sender_raises_before_fix.

(* the closed loop never raises: any flow, MSS > 0, delay >= 0, drop sets, CUBIC oracle, fuel *)
Theorem C16_loop_never_raises : forall lc cw ss rtt0 orc,
  lc_ok lc -> (zq (mss (lc_cfg lc)) <= cw)%Q -> (0 < rtt0)%Q ->
  forall fuel st e, lrun fuel lc (linit cw ss rtt0 orc) <> LRaised st e.
Proof. exact loop_never_raises. Qed.
Print Assumptions C16_loop_never_raises.

Theorem C16_loop_raises_before_fix :
  exists st, lrun 200 lc_found (linit (1000 # 1) (65535 # 1) (1 # 4) []) = LRaised st (LSender (KeyErr 1000)).
Proof. exact loop_raises_before_fix. Qed.
Print Assumptions C16_loop_raises_before_fix.

(* in every reachable state: last_ack <= contiguous prefix held by the sink <= next_seq *)
Theorem C16_last_ack_le_prefix_le_next_seq : forall lc cw ss rtt0 orc st,
  lc_ok lc -> (zq (mss (lc_cfg lc)) <= cw)%Q -> (0 < rtt0)%Q ->
  lreach lc (linit cw ss rtt0 orc) st ->
  last_ack (l_snd st) <= nse (l_sink st) <= next_seq (l_snd st) /\ sink_prefix (l_sink st) (nse (l_sink st)).
Proof. exact loop_last_ack_le_prefix_le_next_seq. Qed.
Print Assumptions C16_last_ack_le_prefix_le_next_seq.

(* last_ack never decreases along any run of the loop (repaired sink + FIFO ACK wire) *)
Theorem C16_last_ack_monotone : forall lc cw ss rtt0 orc st st',
  lc_ok lc -> (zq (mss (lc_cfg lc)) <= cw)%Q -> (0 < rtt0)%Q ->
  lreach lc (linit cw ss rtt0 orc) st -> lreach lc st st' ->
  last_ack (l_snd st) <= last_ack (l_snd st').
Proof. exact loop_last_ack_monotone. Qed.
Print Assumptions C16_last_ack_monotone.

(* unfinished => pending work: the timer of the first unacknowledged segment is armed and has its
   kernel event on the agenda, or an event that resumes the sender process is on the agenda *)
Theorem C16_unfinished_has_pending : forall lc cw ss rtt0 orc st,
  lc_ok2 lc -> (zq (mss (lc_cfg lc)) <= cw)%Q -> (0 < rtt0)%Q -> fsize (lc_cfg lc) <> 0 ->
  lreach lc (linit cw ss rtt0 orc) st ->
  last_ack (l_snd st) < fsize (lc_cfg lc) -> pending_work lc st.
Proof. exact loop_unfinished_has_pending. Qed.
Print Assumptions C16_unfinished_has_pending.

Theorem C16_not_quiescent_while_unfinished : forall lc cw ss rtt0 orc st,
  lc_ok2 lc -> (zq (mss (lc_cfg lc)) <= cw)%Q -> (0 < rtt0)%Q -> fsize (lc_cfg lc) <> 0 ->
  lreach lc (linit cw ss rtt0 orc) st ->
  (last_ack (l_snd st) < fsize (lc_cfg lc) \/ nse (l_sink st) < fsize (lc_cfg lc)) -> l_agenda st <> [].
Proof. exact loop_not_quiescent_while_unfinished. Qed.
Print Assumptions C16_not_quiescent_while_unfinished.

(* reliable_delivery, safety half (the liveness half -- the loop does become quiescent -- is tested,
   LoopProofs.reliable_delivery_statement): a quiescent loop has delivered everything *)
Theorem C16_reliable_delivery_partial : forall lc cw ss rtt0 orc st,
  lc_ok2 lc -> (zq (mss (lc_cfg lc)) <= cw)%Q -> (0 < rtt0)%Q -> fsize (lc_cfg lc) <> 0 ->
  lreach lc (linit cw ss rtt0 orc) st -> l_agenda st = [] ->
  last_ack (l_snd st) = fsize (lc_cfg lc) /\ nse (l_sink st) = fsize (lc_cfg lc) /\
  sink_prefix (l_sink st) (fsize (lc_cfg lc)).
Proof. exact loop_quiescent_complete. Qed.
Print Assumptions C16_reliable_delivery_partial.

(* every state the executable runner ends in is reachable, so the theorems above apply to it *)
Theorem C16_runner_reaches : forall lc st0 fuel st, lreach lc st0 st -> lreach lc st0 (lfinal (lrun fuel lc st)).
Proof. intros lc st0 fuel st. apply lrun_reach. Qed.
Print Assumptions C16_runner_reaches.

(* lossfree_no_retransmit, proved part (LoopProofs.lossfree_no_retransmit_statement is checked by the
   monitor): a segment is transmitted again only by its timer's expiry or a third-or-later duplicate *)
Theorem C16_lossfree_no_retransmit_partial : forall fx c s e s' o id z,
  0 <= dupack s -> step fx c s e = Ok s' o -> In (Tx id z) o ->
  e = EWake \/ e = EExpire id \/
  (exists pid sample orc, e = EAck id pid sample orc /\ id = last_ack s /\ 3 <= dupack s + 1).
Proof. exact retransmission_needs_expiry_or_third_dup. Qed.
Print Assumptions C16_lossfree_no_retransmit_partial.

(* ------------------------------------------------------------------------------------------------ *)
(* Towards liveness.  (a) Everything but transmitting is finite work: after k agenda steps,
   k <= 3 + flow size + 10 * (data packets handed to the data path so far); so the runner can only
   run out of fuel by transmitting that often. *)
Theorem C16_work_bounded_by_transmissions : forall lc cw ss rtt0 orc k st,
  lc_ok2 lc -> (zq (mss (lc_cfg lc)) <= cw)%Q -> (0 < rtt0)%Q -> fsize (lc_cfg lc) <> 0 ->
  lsteps lc k (linit cw ss rtt0 orc) st ->
  Z.of_nat k <= 3 + fsize (lc_cfg lc) + 10 * Z.of_nat (l_n1 st).
Proof. exact loop_work_bounded. Qed.
Print Assumptions C16_work_bounded_by_transmissions.

Theorem C16_out_of_fuel_needs_transmissions : forall lc cw ss rtt0 orc fuel st,
  lc_ok2 lc -> (zq (mss (lc_cfg lc)) <= cw)%Q -> (0 < rtt0)%Q -> fsize (lc_cfg lc) <> 0 ->
  lrun fuel lc (linit cw ss rtt0 orc) = LFuel st ->
  Z.of_nat fuel <= 3 + fsize (lc_cfg lc) + 10 * Z.of_nat (l_n1 st).
Proof. exact loop_out_of_fuel_needs_transmissions. Qed.
Print Assumptions C16_out_of_fuel_needs_transmissions.

(* (b) lossfree_no_retransmit, in full: no drops, one-way delay d >= 0, initial RTT estimate rtt0 with
   d < rtt0 (first RTO 2*rtt0 > RTT = 2d) and rtt0 <> 2d (then srtt never equals 2d and the RTO
   stays strictly above the RTT; at rtt0 = 2d the estimator reaches RTO = RTT exactly and the timer wins
   the same-instant race against the ACK).  In every reachable state the transmission log is
   0, MSS, 2 MSS, ... : every segment is handed to the data path exactly once. *)
Theorem C16_lossfree_no_retransmit : forall lc,
  lc_ok2 lc -> lc_drop_data lc = [] -> lc_drop_ack lc = [] ->
  forall (cw ss rtt0 : Q) (orc : list Q),
  (zq (mss (lc_cfg lc)) <= cw)%Q -> (lc_delay lc < rtt0)%Q -> ~ (rtt0 == (2 # 1) * lc_delay lc)%Q ->
  forall st, lreach lc (linit cw ss rtt0 orc) st ->
  NoDup (map dl_id (l_d1 st)) /\
  exists nN : nat, map dl_id (rev (l_d1 st)) = seg_ids (mss (lc_cfg lc)) 0 nN /\
                   Z.of_nat nN * mss (lc_cfg lc) = next_seq (l_snd st) /\ l_n1 st = nN.
Proof.
  intros lc H1 H2 H3 cw ss rtt0 orc H4 H5 H6 st Hr. split.
  - eapply lossfree_no_retransmit; eauto.
  - eapply lossfree_transmissions; eauto.
Qed.
Print Assumptions C16_lossfree_no_retransmit.

(* (c) reliable_delivery for the loss-free loop, with an explicit fuel bound: with more than
   3 + 11 * size steps of fuel the runner ends quiescent (unless t_max cuts it short) with
   last_ack = size, the sink holding exactly [0,size), and no segment sent twice *)
Theorem C16_lossfree_terminates : forall lc,
  lc_ok2 lc -> lc_drop_data lc = [] -> lc_drop_ack lc = [] ->
  forall (cw ss rtt0 : Q) (orc : list Q),
  (zq (mss (lc_cfg lc)) <= cw)%Q -> (lc_delay lc < rtt0)%Q -> ~ (rtt0 == (2 # 1) * lc_delay lc)%Q ->
  forall fuel : nat, fsize (lc_cfg lc) <> 0 -> 3 + 11 * fsize (lc_cfg lc) < Z.of_nat fuel ->
  match lrun fuel lc (linit cw ss rtt0 orc) with
  | LQuiescent st => last_ack (l_snd st) = fsize (lc_cfg lc) /\ nse (l_sink st) = fsize (lc_cfg lc) /\
                     sink_prefix (l_sink st) (fsize (lc_cfg lc)) /\ NoDup (map dl_id (l_d1 st))
  | LStopped st => exists a rest, l_agenda st = a :: rest /\ (lc_tmax lc <= ae_time a)%Q
  | LFuel _ | LRaised _ _ => False
  end.
Proof. exact lossfree_terminates. Qed.
Print Assumptions C16_lossfree_terminates.
