(* C11 -- token-bucket output conforms to (rate, bucket) and delays nothing needlessly; two-rate colours.
   Only statements, closed by the lemma that proves them, and their assumptions.
   Vocabulary (Elem/Bucket.v, Elem/BucketProofs.v): tb_run c (tb0 true c t0) acts = Some (s, tr) says that
   acts is an admissible execution of the (repaired) TokenBucket from its initial state at instant t0;
   puts / heads / debits / fwds tr are its timed put() calls, the instants packets reached the head of the
   queue with the server free, the instants their tokens were taken, and their departures (out.put). *)
From Coq Require Import ZArith QArith Qminmax List.
From ONL Require Import Elem.Packet Elem.StoreQ Elem.Bucket Elem.BucketProofs Elem.TwoRate Elem.TwoRateProofs.
Import ListNotations.

(* ---------------- TokenBucket ---------------- *)

(* every admissible execution is an instance of the recurrence: service k concerns arrival k; it reaches
   the head at max(arrival_k, departure_(k-1)); the bucket then holds min(B, L + rate*(h - U)/8) where (L, U)
   are level and instant of the previous debit ((B, t0) at first: initially full); the debit instant is
   [release]; the departure is 8*size/peak later; at most the packet in service is still missing from the
   debits/departures, and its stored deadline is the recurrence's instant, not yet passed *)
Theorem C11_tb_recurrence : forall c t0 acts s tr,
  0 < rate c -> tb_run c (tb0 true c t0) acts = Some (s, tr) ->
  exists R, chain c (bsize c) t0 t0 R /\ puts tr = sv_arr R ++ sq_held (tq s) /\ tb_matches s tr R.
Proof. exact tb_spec. Qed.
Print Assumptions C11_tb_recurrence.

(* [release] is the EARLIEST instant >= h at which the bucket holds the packet's size *)
Theorem C11_tb_release_is_least : forall B r h lvl size,
  0 < r -> lvl <= B ->
  let d := release r h lvl size in
  h <= d /\ size <= tokens_at B r h lvl size d /\
  (forall t, h <= t -> t < d -> tokens_at B r h lvl size t < size).
Proof. exact release_least. Qed.
Print Assumptions C11_tb_release_is_least.

Theorem C11_tb_release_instant : forall c t0 acts s tr,
  0 < rate c -> tb_run c (tb0 true c t0) acts = Some (s, tr) ->
  (forall k t p, nth_error (debits tr) k = Some (t, p) ->
     exists h lvl,
       (exists h', nth_error (heads tr) k = Some (h', p) /\ h' == h) /\
       lvl <= bsize c /\ (k = 0%nat -> lvl == refill (bsize c) (rate c) (bsize c) t0 h) /\
       h <= t /\ t == release (rate c) h lvl (sz p) /\
       sz p <= tokens_at (bsize c) (rate c) h lvl (sz p) t /\
       (forall t', h <= t' -> t' < t -> tokens_at (bsize c) (rate c) h lvl (sz p) t' < sz p)) /\
  (forall p dl, phase s = PTok p dl \/ phase s = PPeak p dl -> tnow s <= dl).
Proof. exact tb_release_instant. Qed.
Print Assumptions C11_tb_release_instant.

(* no needless delay before the head either: packet k is at the head, server free, at
   max(arrival_k, departure_(k-1)) *)
Theorem C11_tb_head_instant : forall c t0 acts s tr,
  0 < rate c -> tb_run c (tb0 true c t0) acts = Some (s, tr) ->
  forall k h p, nth_error (heads tr) k = Some (h, p) ->
    exists a, nth_error (puts tr) k = Some (a, p) /\ a <= h /\
      match k with
      | O => h == Qmax a t0
      | S k' => exists d p', nth_error (fwds tr) k' = Some (d, p') /\ h == Qmax a d
      end.
Proof. exact tb_head_instant. Qed.
Print Assumptions C11_tb_head_instant.

(* initially full: the first packet, if the bucket can hold it, is debited the instant it arrives *)
Theorem C11_tb_initially_full : forall c t0 acts s tr,
  0 < rate c -> tb_run c (tb0 true c t0) acts = Some (s, tr) ->
  forall t p, nth_error (debits tr) 0 = Some (t, p) -> sz p <= bsize c ->
    exists a, nth_error (puts tr) 0 = Some (a, p) /\ t == Qmax a t0.
Proof. exact tb_initially_full. Qed.
Print Assumptions C11_tb_initially_full.

(* the constructor of the pinned commit (update_time = 0.0) violates it for a negative initial time *)
Theorem C11_tb_initially_full_refuted_before_fix :
  exists c t0 acts s tr t p a,
    0 < rate c /\ tb_run c (tb0 false c t0) acts = Some (s, tr) /\
    nth_error (debits tr) 0 = Some (t, p) /\ sz p <= bsize c /\
    nth_error (puts tr) 0 = Some (a, p) /\ ~ t == Qmax a t0.
Proof. exact tb_initially_full_refuted_before_fix. Qed.
Print Assumptions C11_tb_initially_full_refuted_before_fix.

(* for debit instants t_i <= t_j of departures i <= j:
   size_i + ... + size_j <= max(B, size_i) + rate * (t_j - t_i) / 8 *)
Theorem C11_tb_conformance : forall c t0 acts s tr,
  0 < rate c -> tb_run c (tb0 true c t0) acts = Some (s, tr) ->
  forall i j ti pi tj pj, (i <= j)%nat ->
    nth_error (debits tr) i = Some (ti, pi) -> nth_error (debits tr) j = Some (tj, pj) ->
    ti <= tj /\
    bytes (slice i j (debits tr)) <= Qmax (bsize c) (sz pi) + fill (rate c) (tj - ti).
Proof. exact tb_conformance. Qed.
Print Assumptions C11_tb_conformance.

(* the packet leaves 8*size/peak after its debit when a peak rate is set, else at the debit instant *)
Theorem C11_tb_departure_instant : forall c t0 acts s tr,
  0 < rate c -> tb_run c (tb0 true c t0) acts = Some (s, tr) ->
  forall k t p, nth_error (fwds tr) k = Some (t, p) ->
    exists d, nth_error (debits tr) k = Some (d, p) /\
      (peak_on c = None -> t == d) /\ (forall pk, peak_on c = Some pk -> t == d + spacing pk (sz p)).
Proof. exact tb_departure_instant. Qed.
Print Assumptions C11_tb_departure_instant.

(* consecutive departures are at least 8*size/peak (of the later packet) apart *)
Theorem C11_tb_peak_spacing : forall c t0 acts s tr,
  0 < rate c -> tb_run c (tb0 true c t0) acts = Some (s, tr) ->
  forall k t1 p1 t2 p2,
    nth_error (fwds tr) k = Some (t1, p1) -> nth_error (fwds tr) (S k) = Some (t2, p2) ->
    (peak_on c = None -> t1 <= t2) /\ forall pk, peak_on c = Some pk -> t1 + spacing pk (sz p2) <= t2.
Proof. exact tb_peak_spacing. Qed.
Print Assumptions C11_tb_peak_spacing.

(* first in first out: the departures are, in order, a prefix of the arrivals *)
Theorem C11_tb_fifo : forall c t0 acts s tr,
  0 < rate c -> tb_run c (tb0 true c t0) acts = Some (s, tr) ->
  exists rest, map snd (puts tr) = map snd (fwds tr) ++ rest.
Proof. exact tb_fifo. Qed.
Print Assumptions C11_tb_fifo.

(* nothing is lost: once nothing of the bucket is due and no timeout is pending, every packet put in has left *)
Theorem C11_tb_lossless : forall c t0 acts s tr,
  0 < rate c -> tb_run c (tb0 true c t0) acts = Some (s, tr) -> tb_quiescent s ->
  map snd (fwds tr) = map snd (puts tr).
Proof. exact tb_lossless. Qed.
Print Assumptions C11_tb_lossless.

(* ---------------- TwoRateTokenBucket ---------------- *)
(* tr_run true true c (tr0 true c t0) acts = Some (s, tr): an admissible execution of the repaired two-rate
   bucket; rputs / rheads / rfwds tr its timed arrivals, head instants and departures, rcols tr the colours of
   the departures in order.  trwf c: CIR > 0 and PIR > 0 when given.  Both buckets start full at t0. *)

(* every admissible execution is an instance of the two-rate recurrence (rchain): head instant
   max(arrival, previous departure), both buckets refilled min(size, level + rate*(h - U)/8), colour tr_colour,
   departure tr_dep, tokens left tr_postC / tr_postP *)
Theorem C11_trtb_recurrence : forall c t0 acts s tr,
  trwf c -> tr_run true true c (tr0 true c t0) acts = Some (s, tr) ->
  exists R, rchain c (cbs c) (tr_P0 c) t0 R /\ rputs tr = rv_arr R ++ sq_held (rq s) /\ tr_matches s tr R.
Proof. exact trtb_spec. Qed.
Print Assumptions C11_trtb_recurrence.

(* ... hence colours and departures are, in order, what the executable recurrence tr_rec computes from the
   arrivals alone (all of them once the bucket is quiescent) *)
Theorem C11_trtb_is_recurrence : forall c t0 acts s tr,
  trwf c -> tr_run true true c (tr0 true c t0) acts = Some (s, tr) ->
  exists n, rcols tr = firstn n (rec_cols c t0 (rputs tr)) /\ tpe (rfwds tr) (firstn n (rec_deps c t0 (rputs tr))) /\
            n = length (rfwds tr) /\ (tr_quiescent s -> n = length (rputs tr)).
Proof. exact trtb_is_recurrence. Qed.
Print Assumptions C11_trtb_is_recurrence.

(* green iff all configured buckets cover the packet on arrival at the head of the queue, yellow iff only the
   committed tokens are short, red iff the peak tokens are short - and then it waits for them *)
Theorem C11_trtb_colour_iff : forall c t0 acts s tr,
  trwf c -> tr_run true true c (tr0 true c t0) acts = Some (s, tr) ->
  forall k t p, nth_error (rfwds tr) k = Some (t, p) ->
    exists col h c1 p1,
      nth_error (rcols tr) k = Some col /\
      (exists h', nth_error (rheads tr) k = Some (h', p) /\ h' == h) /\
      c1 <= cbs c /\
      (k = 0%nat -> c1 == refill (cbs c) (cir c) (cbs c) t0 h /\
                   forall pir pbs, pk c = Some (pir, pbs) -> p1 == refill pbs pir pbs t0 h) /\
      (col = Green <-> sz p <= c1 /\ (pk c <> None -> sz p <= p1)) /\
      (col = Yellow <-> c1 < sz p /\ (pk c <> None -> sz p <= p1)) /\
      (col = Red <-> pk c <> None /\ p1 < sz p) /\
      t == tr_dep c h c1 p1 (sz p) /\ h <= t /\
      (pk c <> None -> col <> Red -> t == h) /\ (col = Red -> h < t).
Proof. exact trtb_colour_iff. Qed.
Print Assumptions C11_trtb_colour_iff.

(* the code of the pinned commit: a yellow packet emptied the committed bucket ... *)
Theorem C11_trtb_yellow_refuted_before_fix :
  exists c t0 acts s tr, trwf c /\ tr_run false true c (tr0 true c t0) acts = Some (s, tr) /\ tr_quiescent s /\
    rcols tr = [Green; Yellow; Yellow] /\ rec_cols c t0 (rputs tr) = [Green; Yellow; Green].
Proof. exact trtb_yellow_refuted_before_fix. Qed.
Print Assumptions C11_trtb_yellow_refuted_before_fix.

(* ... and the committed tokens of a red packet's wait were lost ... *)
Theorem C11_trtb_red_refuted_before_fix :
  exists c t0 acts s tr, trwf c /\ tr_run true false c (tr0 true c t0) acts = Some (s, tr) /\ tr_quiescent s /\
    rcols tr = [Green; Green; Green; Red; Yellow] /\ rec_cols c t0 (rputs tr) = [Green; Green; Green; Red; Green].
Proof. exact trtb_red_refuted_before_fix. Qed.
Print Assumptions C11_trtb_red_refuted_before_fix.

(* ... and with a negative initial time the full buckets were drained by the first refill *)
Theorem C11_trtb_initially_full_refuted_before_fix :
  exists c t0 acts s tr p, trwf c /\ tr_run true true c (tr0 false c t0) acts = Some (s, tr) /\
    rputs tr = [(-1 # 2, p)] /\ sz p <= cbs c /\ sz p <= tr_P0 c /\ rfwds tr = [(-7 # 64, p)] /\ rcols tr = [Red].
Proof. exact trtb_initially_full_refuted_before_fix. Qed.
Print Assumptions C11_trtb_initially_full_refuted_before_fix.

(* shapes against (PIR, PBS) - or (CIR, CBS) without PIR: the conformance inequality over all i <= j *)
Theorem C11_trtb_shapes_against : forall c t0 acts s tr,
  trwf c -> tr_run true true c (tr0 true c t0) acts = Some (s, tr) ->
  forall i j ti pi tj pj, (i <= j)%nat ->
    nth_error (rfwds tr) i = Some (ti, pi) -> nth_error (rfwds tr) j = Some (tj, pj) ->
    ti <= tj /\
    bytes (slice i j (rfwds tr)) <= Qmax (shape_size c) (sz pi) + fill (shape_rate c) (tj - ti).
Proof. exact trtb_shapes_against. Qed.
Print Assumptions C11_trtb_shapes_against.

(* green traffic conforms to (CIR, CBS): over any window of departures the green bytes are within
   CBS + CIR * (t_j - t_i) / 8 *)
Theorem C11_trtb_green_conforms : forall c t0 acts s tr,
  trwf c -> 0 <= cbs c -> tr_run true true c (tr0 true c t0) acts = Some (s, tr) ->
  forall i j ti pi tj pj, (i <= j)%nat ->
    nth_error (rfwds tr) i = Some (ti, pi) -> nth_error (rfwds tr) j = Some (tj, pj) ->
    gbytes (slice i j (rfwds tr)) (slice i j (rcols tr)) <= cbs c + fill (cir c) (tj - ti).
Proof. exact trtb_green_conforms. Qed.
Print Assumptions C11_trtb_green_conforms.

Theorem C11_trtb_fifo : forall c t0 acts s tr,
  trwf c -> tr_run true true c (tr0 true c t0) acts = Some (s, tr) ->
  exists rest, map snd (rputs tr) = map snd (rfwds tr) ++ rest.
Proof. exact trtb_fifo. Qed.
Print Assumptions C11_trtb_fifo.

Theorem C11_trtb_lossless : forall c t0 acts s tr,
  trwf c -> tr_run true true c (tr0 true c t0) acts = Some (s, tr) -> tr_quiescent s ->
  map snd (rfwds tr) = map snd (rputs tr).
Proof. exact trtb_lossless. Qed.
Print Assumptions C11_trtb_lossless.
