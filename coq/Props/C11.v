(* C11 -- token-bucket output conforms to (rate, bucket) and delays nothing needlessly; two-rate colours.
   Only statements, closed by the lemma that proves them, and their assumptions.
   Vocabulary (Elem/Bucket.v, Elem/BucketProofs.v): tb_run c (tb0 true c t0) acts = Some (s, tr) says that
   acts is an admissible execution of the (repaired) TokenBucket from its initial state at instant t0;
   puts / heads / debits / fwds tr are its timed put() calls, the instants packets reached the head of the
   queue with the server free, the instants their tokens were taken, and their departures (out.put). *)
From Coq Require Import ZArith QArith Qminmax List.
From ONL Require Import Elem.Packet Elem.StoreQ Elem.Bucket Elem.BucketProofs.
Import ListNotations.

(* ---------------- TokenBucket ---------------- *)

(* every admissible execution is an instance of the recurrence: service k concerns arrival k; it reaches
   the head at max(arrival_k, departure_(k-1)); the bucket then holds min(B, L + rate*(h - U)/8) where (L, U)
   are level and instant of the previous debit ((B, t0) at first: initially full); the debit instant is
   [release]; the departure is 8*size/peak later; at most the packet in service is still missing from the
   debits/departures, and its stored deadline is the recurrence's instant, not yet passed *)
Theorem C11_tb_recurrence : forall c t0 acts s tr,
  0 < rate c -> tb_run c (tb0 true c t0) acts = Some (s, tr) ->
  exists R, chain c (bsize c) t0 t0 R /\ puts tr = sv_arr R ++ sq_held (tq s) /\ tb_matches s tr R.
Proof. exact tb_spec. Qed.
Print Assumptions C11_tb_recurrence.

(* [release] is the EARLIEST instant >= h at which the bucket holds the packet's size *)
Theorem C11_tb_release_is_least : forall B r h lvl size,
  0 < r -> lvl <= B ->
  let d := release r h lvl size in
  h <= d /\ size <= tokens_at B r h lvl size d /\
  (forall t, h <= t -> t < d -> tokens_at B r h lvl size t < size).
Proof. exact release_least. Qed.
Print Assumptions C11_tb_release_is_least.

Theorem C11_tb_release_instant : forall c t0 acts s tr,
  0 < rate c -> tb_run c (tb0 true c t0) acts = Some (s, tr) ->
  (forall k t p, nth_error (debits tr) k = Some (t, p) ->
     exists h lvl,
       (exists h', nth_error (heads tr) k = Some (h', p) /\ h' == h) /\
       lvl <= bsize c /\ (k = 0%nat -> lvl == refill (bsize c) (rate c) (bsize c) t0 h) /\
       h <= t /\ t == release (rate c) h lvl (sz p) /\
       sz p <= tokens_at (bsize c) (rate c) h lvl (sz p) t /\
       (forall t', h <= t' -> t' < t -> tokens_at (bsize c) (rate c) h lvl (sz p) t' < sz p)) /\
  (forall p dl, phase s = PTok p dl \/ phase s = PPeak p dl -> tnow s <= dl).
Proof. exact tb_release_instant. Qed.
Print Assumptions C11_tb_release_instant.

(* no needless delay before the head either: packet k is at the head, server free, at
   max(arrival_k, departure_(k-1)) *)
Theorem C11_tb_head_instant : forall c t0 acts s tr,
  0 < rate c -> tb_run c (tb0 true c t0) acts = Some (s, tr) ->
  forall k h p, nth_error (heads tr) k = Some (h, p) ->
    exists a, nth_error (puts tr) k = Some (a, p) /\ a <= h /\
      match k with
      | O => h == Qmax a t0
      | S k' => exists d p', nth_error (fwds tr) k' = Some (d, p') /\ h == Qmax a d
      end.
Proof. exact tb_head_instant. Qed.
Print Assumptions C11_tb_head_instant.

(* initially full: the first packet, if the bucket can hold it, is debited the instant it arrives *)
Theorem C11_tb_initially_full : forall c t0 acts s tr,
  0 < rate c -> tb_run c (tb0 true c t0) acts = Some (s, tr) ->
  forall t p, nth_error (debits tr) 0 = Some (t, p) -> sz p <= bsize c ->
    exists a, nth_error (puts tr) 0 = Some (a, p) /\ t == Qmax a t0.
Proof. exact tb_initially_full. Qed.
Print Assumptions C11_tb_initially_full.

(* the constructor of the pinned commit (update_time = 0.0) violates it for a negative initial time *)
Theorem C11_tb_initially_full_refuted_before_fix :
  exists c t0 acts s tr t p a,
    0 < rate c /\ tb_run c (tb0 false c t0) acts = Some (s, tr) /\
    nth_error (debits tr) 0 = Some (t, p) /\ sz p <= bsize c /\
    nth_error (puts tr) 0 = Some (a, p) /\ ~ t == Qmax a t0.
Proof. exact tb_initially_full_refuted_before_fix. Qed.
Print Assumptions C11_tb_initially_full_refuted_before_fix.

(* for debit instants t_i <= t_j of departures i <= j:
   size_i + ... + size_j <= max(B, size_i) + rate * (t_j - t_i) / 8 *)
Theorem C11_tb_conformance : forall c t0 acts s tr,
  0 < rate c -> tb_run c (tb0 true c t0) acts = Some (s, tr) ->
  forall i j ti pi tj pj, (i <= j)%nat ->
    nth_error (debits tr) i = Some (ti, pi) -> nth_error (debits tr) j = Some (tj, pj) ->
    ti <= tj /\
    bytes (slice i j (debits tr)) <= Qmax (bsize c) (sz pi) + fill (rate c) (tj - ti).
Proof. exact tb_conformance. Qed.
Print Assumptions C11_tb_conformance.

(* consecutive departures are at least 8*size/peak (of the later packet) apart *)
Theorem C11_tb_peak_spacing : forall c t0 acts s tr,
  0 < rate c -> tb_run c (tb0 true c t0) acts = Some (s, tr) ->
  forall k t1 p1 t2 p2,
    nth_error (fwds tr) k = Some (t1, p1) -> nth_error (fwds tr) (S k) = Some (t2, p2) ->
    (peak_on c = None -> t1 <= t2) /\ forall pk, peak_on c = Some pk -> t1 + spacing pk (sz p2) <= t2.
Proof. exact tb_peak_spacing. Qed.
Print Assumptions C11_tb_peak_spacing.

(* first in first out: the departures are, in order, a prefix of the arrivals *)
Theorem C11_tb_fifo : forall c t0 acts s tr,
  0 < rate c -> tb_run c (tb0 true c t0) acts = Some (s, tr) ->
  exists rest, map snd (puts tr) = map snd (fwds tr) ++ rest.
Proof. exact tb_fifo. Qed.
Print Assumptions C11_tb_fifo.

(* nothing is lost: once nothing of the bucket is due and no timeout is pending, every packet put in has left *)
Theorem C11_tb_lossless : forall c t0 acts s tr,
  0 < rate c -> tb_run c (tb0 true c t0) acts = Some (s, tr) -> tb_quiescent s ->
  map snd (fwds tr) = map snd (puts tr).
Proof. exact tb_lossless. Qed.
Print Assumptions C11_tb_lossless.
