(* C11 -- token buckets.  Statements are added as BucketProofs.v / TwoRateProofs.v land. *)
From ONL Require Import Elem.Bucket Elem.TwoRate.
