(* C08 -- packet conservation, the share of SP, RR, WRR -- NON-VACUITY of Props/C08_MQ.v.
   Witnesses (Elem/SPProofs.v sp_ex_acts, Elem/RRProofs.v rr_ex_acts, Elem/WRRProofs.v wrr_ex_acts: executions observed on the real
   schedulers): four 128-byte packets put at 0 before the wake-up token is processed, 1 s of transmission each; SP with flows 0,1 in
   class 10 (priority 1) and flow 2 in class 11 (priority 2); RR over flows 0,1; WRR with weights 2,1.
     C08_ex_sp_run / C08_ex_rr_run / C08_ex_wrr_run              cover C08_X_flow_fifo, C08_X_conserves (rate > 0, admissible
                                                                 execution; stopped after 18 actions: one forwarded, one in
                                                                 transmission, two queued)
     C08_ex_sp_drained / C08_ex_rr_drained / C08_ex_wrr_drained  cover C08_X_drained (+ positive priorities / weights, nothing
                                                                 urgent, no transmission pending: the complete executions)
   No theorem of Props/C08_MQ.v is unconditional.
   The conclusions are obtained by applying the theorem to the witness.  Statement files are compiled independently (and in
   parallel) by the pipeline, so one statement file cannot import another: [C08_x] below is a LOCAL abbreviation of the proof
   term that closes theorem C08_x in Props/C08_MQ.v (there: `Proof. exact <that term>. Qed.`), hence has the same statement.
   Helper facts are stated with `Fact` (they are not obligations); every `Theorem` is a witness and is followed by
   Print Assumptions. *)
From Coq Require Import ZArith QArith List.
From ONL Require Import Elem.Packet Elem.StoreQ Elem.SchedBase Elem.SchedBaseProofs Elem.SP Elem.SPProofs Elem.RR Elem.RRProofs Elem.WRR Elem.WRRProofs.
Import ListNotations.

Local Notation C08_sp_flow_fifo := sp_flow_fifo.
Local Notation C08_sp_conserves := sp_conserves.
Local Notation C08_sp_drained := sp_drained.
Local Notation C08_rr_flow_fifo := rr_flow_fifo.
Local Notation C08_rr_conserves := rr_conserves.
Local Notation C08_rr_drained := rr_drained.
Local Notation C08_wrr_flow_fifo := wrr_flow_fifo.
Local Notation C08_wrr_conserves := wrr_conserves.
Local Notation C08_wrr_drained := wrr_drained.

Definition sx_cm : Z -> Z := cls_of [(0, 10); (1, 10); (2, 11)]%Z.
Definition sx_fl : list Z := [0; 1; 2]%Z.
Definition sx_tbl : list (Z * Z) := [(10, 1); (11, 2)]%Z.
Definition sx_cfg : mq_cfg := sp_cfg true 1024 sx_cm sx_fl sx_tbl.
Definition rrx_cfg : mq_cfg := rr_cfg 1024 [0; 1]%Z.
Definition wx_ws : list (Z * Z) := [(0, 2); (1, 1)]%Z.
Definition wx_cfg : mq_cfg := wrr_cfg 1024 wx_ws.

Fact sx_tbl_pos : forall k p, In (k, p) sx_tbl -> (0 < p)%Z.
Proof. intros k p [H|[H|[]]]; injection H as _ <-; reflexivity. Qed.
Fact wx_ws_pos : forall f w, In (f, w) wx_ws -> (0 < w)%Z.
Proof. intros k p [H|[H|[]]]; injection H as _ <-; reflexivity. Qed.

(* covers: C08_sp_flow_fifo, C08_sp_conserves *)
Theorem C08_ex_sp_run :
  exists s tr, 0 < 1024 /\ sp_run 1024 sx_cm sx_fl sx_tbl (firstn 18 sp_ex_acts) = Some (s, tr) /\
    map uid (tr_puts tr) = [0; 1; 2; 3]%nat /\ map uid (tr_fwds tr) = [2]%nat /\
    map uid (held_class sx_cfg s 10) = [0; 1; 3]%nat /\ held_class sx_cfg s 11 = [] /\
    (forall k, filter (is_class sx_cfg k) (tr_puts tr) = filter (is_class sx_cfg k) (tr_fwds tr) ++ held_class sx_cfg s k) /\
    (forall f, filter (is_flow f) (tr_puts tr) = filter (is_flow f) (tr_fwds tr) ++ held_flow sx_cfg s f) /\
    (exists rest, filter (is_flow 2) (tr_puts tr) = filter (is_flow 2) (tr_fwds tr) ++ rest).
Proof.
  destruct (sp_run 1024 sx_cm sx_fl sx_tbl (firstn 18 sp_ex_acts)) as [[s tr]|] eqn:E; [|vm_compute in E; discriminate].
  exists s, tr. split; [reflexivity|]. split; [reflexivity|].
  destruct (C08_sp_conserves 1024 sx_cm sx_fl sx_tbl _ _ _ eq_refl E) as (HK & HF & _).
  pose proof (C08_sp_flow_fifo 1024 sx_cm sx_fl sx_tbl _ _ _ 2%Z eq_refl E) as HO.
  vm_compute in E. injection E as <- <-.
  repeat (split; [vm_compute; reflexivity|]). split; [exact HK|]. split; [exact HF|exact HO].
Qed.
Print Assumptions C08_ex_sp_run.

(* covers: C08_sp_drained *)
Theorem C08_ex_sp_drained :
  exists s tr, 0 < 1024 /\ (forall k p, In (k, p) sx_tbl -> (0 < p)%Z) /\
    sp_run 1024 sx_cm sx_fl sx_tbl sp_ex_acts = Some (s, tr) /\ urgent sx_cfg s = false /\
    (forall p dl, mchild s <> CTx p dl) /\
    map uid (tr_puts tr) = [0; 1; 2; 3]%nat /\ map uid (tr_fwds tr) = [2; 0; 1; 3]%nat /\
    (forall k, held_class sx_cfg s k = []) /\ mcur s = None /\ mpc s <> PSpin.
Proof.
  destruct (sp_run 1024 sx_cm sx_fl sx_tbl sp_ex_acts) as [[s tr]|] eqn:E; [|vm_compute in E; discriminate].
  exists s, tr. split; [reflexivity|]. split; [exact sx_tbl_pos|]. split; [reflexivity|].
  pose proof (C08_sp_drained 1024 sx_cm sx_fl sx_tbl _ _ _ eq_refl sx_tbl_pos E) as HD.
  vm_compute in E. injection E as <- <-.
  split; [vm_compute; reflexivity|]. split; [intros p dl; vm_compute; discriminate|].
  split; [vm_compute; reflexivity|]. split; [vm_compute; reflexivity|].
  destruct HD as (H1 & _ & H3 & _ & H5); [vm_compute; reflexivity|intros p dl; vm_compute; discriminate|].
  split; [exact H1|]. split; [exact H3|exact H5].
Qed.
Print Assumptions C08_ex_sp_drained.

(* covers: C08_rr_flow_fifo, C08_rr_conserves *)
Theorem C08_ex_rr_run :
  exists s tr, 0 < 1024 /\ rr_run 1024 [0; 1]%Z (firstn 18 rr_ex_acts) = Some (s, tr) /\
    map uid (tr_puts tr) = [0; 1; 2; 3]%nat /\ map uid (tr_fwds tr) = [0]%nat /\
    map uid (held_class rrx_cfg s 0) = [1; 3]%nat /\ map uid (held_class rrx_cfg s 1) = [2]%nat /\
    (forall k, filter (is_class rrx_cfg k) (tr_puts tr) = filter (is_class rrx_cfg k) (tr_fwds tr) ++ held_class rrx_cfg s k) /\
    (forall f, filter (is_flow f) (tr_puts tr) = filter (is_flow f) (tr_fwds tr) ++ held_flow rrx_cfg s f) /\
    (exists rest, filter (is_flow 0) (tr_puts tr) = filter (is_flow 0) (tr_fwds tr) ++ rest).
Proof.
  destruct (rr_run 1024 [0; 1]%Z (firstn 18 rr_ex_acts)) as [[s tr]|] eqn:E; [|vm_compute in E; discriminate].
  exists s, tr. split; [reflexivity|]. split; [reflexivity|].
  destruct (C08_rr_conserves 1024 [0; 1]%Z _ _ _ eq_refl E) as (HK & HF & _).
  pose proof (C08_rr_flow_fifo 1024 [0; 1]%Z _ _ _ 0%Z eq_refl E) as HO.
  vm_compute in E. injection E as <- <-.
  repeat (split; [vm_compute; reflexivity|]). split; [exact HK|]. split; [exact HF|exact HO].
Qed.
Print Assumptions C08_ex_rr_run.

(* covers: C08_rr_drained *)
Theorem C08_ex_rr_drained :
  exists s tr, 0 < 1024 /\ rr_run 1024 [0; 1]%Z rr_ex_acts = Some (s, tr) /\ urgent rrx_cfg s = false /\
    (forall p dl, mchild s <> CTx p dl) /\
    map uid (tr_puts tr) = [0; 1; 2; 3]%nat /\ map uid (tr_fwds tr) = [0; 2; 1; 3]%nat /\
    (forall k, held_class rrx_cfg s k = []) /\ mcur s = None /\ mpc s <> PSpin.
Proof.
  destruct (rr_run 1024 [0; 1]%Z rr_ex_acts) as [[s tr]|] eqn:E; [|vm_compute in E; discriminate].
  exists s, tr. split; [reflexivity|]. split; [reflexivity|].
  pose proof (C08_rr_drained 1024 [0; 1]%Z _ _ _ eq_refl E) as HD.
  vm_compute in E. injection E as <- <-.
  split; [vm_compute; reflexivity|]. split; [intros p dl; vm_compute; discriminate|].
  split; [vm_compute; reflexivity|]. split; [vm_compute; reflexivity|].
  destruct HD as (H1 & _ & H3 & _ & H5); [vm_compute; reflexivity|intros p dl; vm_compute; discriminate|].
  split; [exact H1|]. split; [exact H3|exact H5].
Qed.
Print Assumptions C08_ex_rr_drained.

(* covers: C08_wrr_flow_fifo, C08_wrr_conserves *)
Theorem C08_ex_wrr_run :
  exists s tr, 0 < 1024 /\ wrr_run 1024 wx_ws (firstn 18 wrr_ex_acts) = Some (s, tr) /\
    map uid (tr_puts tr) = [0; 1; 2; 3]%nat /\ map uid (tr_fwds tr) = [0]%nat /\
    map uid (held_class wx_cfg s 0) = [1; 3]%nat /\ map uid (held_class wx_cfg s 1) = [2]%nat /\
    (forall k, filter (is_class wx_cfg k) (tr_puts tr) = filter (is_class wx_cfg k) (tr_fwds tr) ++ held_class wx_cfg s k) /\
    (forall f, filter (is_flow f) (tr_puts tr) = filter (is_flow f) (tr_fwds tr) ++ held_flow wx_cfg s f) /\
    (exists rest, filter (is_flow 0) (tr_puts tr) = filter (is_flow 0) (tr_fwds tr) ++ rest).
Proof.
  destruct (wrr_run 1024 wx_ws (firstn 18 wrr_ex_acts)) as [[s tr]|] eqn:E; [|vm_compute in E; discriminate].
  exists s, tr. split; [reflexivity|]. split; [reflexivity|].
  destruct (C08_wrr_conserves 1024 wx_ws _ _ _ eq_refl E) as (HK & HF & _).
  pose proof (C08_wrr_flow_fifo 1024 wx_ws _ _ _ 0%Z eq_refl E) as HO.
  vm_compute in E. injection E as <- <-.
  repeat (split; [vm_compute; reflexivity|]). split; [exact HK|]. split; [exact HF|exact HO].
Qed.
Print Assumptions C08_ex_wrr_run.

(* covers: C08_wrr_drained *)
Theorem C08_ex_wrr_drained :
  exists s tr, 0 < 1024 /\ (forall f w, In (f, w) wx_ws -> (0 < w)%Z) /\
    wrr_run 1024 wx_ws wrr_ex_acts = Some (s, tr) /\ urgent wx_cfg s = false /\
    (forall p dl, mchild s <> CTx p dl) /\
    map uid (tr_puts tr) = [0; 1; 2; 3]%nat /\ map uid (tr_fwds tr) = [0; 1; 2; 3]%nat /\
    (forall k, held_class wx_cfg s k = []) /\ mcur s = None /\ mpc s <> PSpin.
Proof.
  destruct (wrr_run 1024 wx_ws wrr_ex_acts) as [[s tr]|] eqn:E; [|vm_compute in E; discriminate].
  exists s, tr. split; [reflexivity|]. split; [exact wx_ws_pos|]. split; [reflexivity|].
  pose proof (C08_wrr_drained 1024 wx_ws _ _ _ eq_refl wx_ws_pos E) as HD.
  vm_compute in E. injection E as <- <-.
  split; [vm_compute; reflexivity|]. split; [intros p dl; vm_compute; discriminate|].
  split; [vm_compute; reflexivity|]. split; [vm_compute; reflexivity|].
  destruct HD as (H1 & _ & H3 & _ & H5); [vm_compute; reflexivity|intros p dl; vm_compute; discriminate|].
  split; [exact H1|]. split; [exact H3|exact H5].
Qed.
Print Assumptions C08_ex_wrr_drained.
