(* C01 -- NON-VACUITY of the statements of Props/C01.v.

   Every theorem of Props/C01.v that has hypotheses is listed above a witness below: a machine-checked statement that
   ALL its hypotheses hold simultaneously at concrete closed terms, followed by what its conclusion then says about
   them (obtained by applying the very lemma that closes the theorem in Props/C01.v, or by computation).
   The concrete execution is the one of Kernel/OrderExamples.v (real kernel model [step]/[run]/[do_call], two script
   processes W and I, module-level timeouts): four occurrences coincide at instant 0 (two URGENT process starts, two
   NORMAL timeouts, inserted alternately), I interrupts W at instant 1/2 (an URGENT Interruption and two NORMAL Process
   events coincide there), W's abandoned timeout is processed at instant 1.  [oS n] = the state after n steps,
   [oL] = the nine popped entries in order; entries are written (time, class, insertion id, event).

   Unconditional theorems of Props/C01.v (only typing binders, no witness needed):
     C01_good_init, C01_schedule_inserts, C01_trigger_normal.
   Hypothesis-carrying theorems and the witness that covers each:
     C01_run_is_execution, C01_run_now_monotone, C01_run_all_drains        C01_ex_run
     C01_step_is_execution, C01_step_now_monotone                          C01_ex_step
     C01_module_code_is_execution                                          C01_ex_module_code
     C01_good_preserved, C01_agenda_invariant, C01_now_monotone            C01_ex_executions
     C01_takes_effect_exactly                                              C01_ex_takes_effect_exactly
     C01_timeout_takes_effect_exactly                                      C01_ex_timeout_takes_effect_exactly
     C01_nothing_skipped                                                   C01_ex_nothing_skipped
     C01_pop_order                                                         C01_ex_pop_order
     C01_same_class_fifo                                                   C01_ex_same_class_fifo
     C01_urgent_first                                                      C01_ex_urgent_first
     C01_priority_classes                                                  C01_ex_priority_classes
     C01_initialize_urgent                                                 C01_ex_initialize_urgent
     C01_interruption_urgent                                               C01_ex_interruption_urgent
     C01_until_sentinel_urgent                                             C01_ex_until_sentinel_urgent
     C01_negative_delay_refused, C01_nonnegative_delay_accepted            C01_ex_delay_sign
   Statement file Props/C01_Bridge.v (second tie): unconditional: C01_gen_schedule, C01_gen_peek, C01_gen_timeout_init,
   C01_gen_initialize_init; hypothesis-carrying:
     C01_gen_step                                                          C01_ex_gen_step
     C01_spawn_uses_init                                                   C01_ex_spawn_uses_init *)
From Coq Require Import ZArith QArith List Lia.
From ONL Require Import Kernel.Model Kernel.Script Kernel.Keys Kernel.Inv Kernel.Order Kernel.OrderExamples
  Gen.Extracted_kernel Kernel.LeafBridge.
Import ListNotations.
Local Open Scope nat_scope.

(* covers C01_run_is_execution (hypothesis: run ... = (s', r)), C01_run_now_monotone (+ good s),
   C01_run_all_drains (u = UNone, r = ROk): env.run() on the state after the module-level code processes all nine
   occurrences, ends at instant 1 with an empty agenda *)
Theorem C01_ex_run :
  good o0 /\ run 50 ocodes UNone o0 = (oS 9, ROk) /\
  (* content: four entries pending at 0 before, clock 0 -> 1, nothing pending after *)
  agenda o0 = [eT7; eIW; eT8; eII] /\ (now o0 == 0)%Q /\ (now (oS 9) == 1)%Q /\
  (now o0 <= now (oS 9))%Q /\ agenda (oS 9) = [] /\ (exists l, Order.exec ocodes o0 l (oS 9)).
Proof.
  assert (G : good o0) by exact o0_good.
  assert (R : run 50 ocodes UNone o0 = (oS 9, ROk)) by (vm_compute; reflexivity).
  split; [exact G|]. split; [exact R|].
  split; [vm_compute; reflexivity|]. split; [vm_compute; reflexivity|]. split; [vm_compute; reflexivity|].
  split; [exact (proj1 (run_now_monotone _ _ _ _ _ _ G R))|].
  split; [exact (run_all_drains _ _ _ _ R)|exact (run_exec _ _ _ _ _ _ R)].
Qed.
Print Assumptions C01_ex_run.

(* covers C01_step_is_execution (hypothesis: step ... = (s', r)), C01_step_now_monotone (+ good s): the fifth step
   (after the four occurrences of instant 0) pops I's timeout and moves the clock from 0 to 1/2 *)
Theorem C01_ex_step :
  good (oS 4) /\ step 50 ocodes (oS 4) = (oS 5, ROk) /\
  agenda (oS 4) = [eTW; eTI] /\ (now (oS 4) == 0)%Q /\ (now (oS 5) == 1 # 2)%Q /\ agenda (oS 5) = [eTW; eX; ePI] /\
  ((now (oS 4) <= now (oS 5))%Q /\ good (oS 5)) /\ (exists l, Order.exec ocodes (oS 4) l (oS 5)).
Proof.
  assert (G : good (oS 4)) by apply oS_good.
  assert (R : step 50 ocodes (oS 4) = (oS 5, ROk)) by (vm_compute; reflexivity).
  split; [exact G|]. split; [exact R|].
  split; [vm_compute; reflexivity|]. split; [vm_compute; reflexivity|]. split; [vm_compute; reflexivity|].
  split; [vm_compute; reflexivity|].
  split; [exact (step_now_monotone _ _ _ _ _ G R)|exact (step_exec _ _ _ _ _ R)].
Qed.
Print Assumptions C01_ex_step.

(* covers C01_module_code_is_execution (hypothesis: run_frag ... = (s', r)): the module-level code (two timeouts,
   two process creations: eight API calls) is an execution of eight call transitions *)
Theorem C01_ex_module_code :
  run_frag ocodes (Script.exec osetup []) (init_state 0) = (o0, FrRet VNone) /\
  Order.exec ocodes (init_state 0) (repeat None 8) o0 /\ agenda o0 = [eT7; eIW; eT8; eII] /\ next_eid o0 = 4.
Proof.
  split; [vm_compute; reflexivity|]. split; [exact o0_exec|]. split; vm_compute; reflexivity.
Qed.
Print Assumptions C01_ex_module_code.

(* covers C01_good_preserved (good s, exec s l s'), C01_agenda_invariant (exec from init_state),
   C01_now_monotone (good s, exec s l1 s1, exec s1 l2 s2): init --8 calls--> o0 --5 steps--> oS 5 --3 steps--> oS 8 *)
Theorem C01_ex_executions :
  good (init_state 0) /\
  Order.exec ocodes (init_state 0) (repeat None 8) o0 /\
  Order.exec ocodes o0 (map Some [eIW; eII; eT7; eT8; eTI]) (oS 5) /\
  Order.exec ocodes (oS 5) (map Some [eX; ePI; ePW]) (oS 8) /\
  (* content *)
  agenda (oS 5) = [eTW; eX; ePI] /\ agenda (oS 8) = [eTW] /\
  (now o0 == 0)%Q /\ (now (oS 5) == 1 # 2)%Q /\ (now (oS 8) == 1 # 2)%Q /\
  (now o0 <= now (oS 5))%Q /\ (now (oS 5) <= now (oS 8))%Q /\ good (oS 8) /\
  (forall x, In x (agenda (oS 5)) -> (now (oS 5) <= e_time x)%Q) /\
  (key_lt eX eTW \/ key_lt eTW eX).
Proof.
  assert (G : good (init_state 0)) by apply good_init.
  assert (E0 : Order.exec ocodes (init_state 0) (repeat None 8) o0) by exact o0_exec.
  assert (E1 : Order.exec ocodes o0 (map Some [eIW; eII; eT7; eT8; eTI]) (oS 5))
    by (apply (oS_exec 0 5); vm_compute; reflexivity).
  assert (E2 : Order.exec ocodes (oS 5) (map Some [eX; ePI; ePW]) (oS 8))
    by (apply (oS_exec 5 3); vm_compute; reflexivity).
  assert (A5 : agenda (oS 5) = [eTW; eX; ePI]) by (vm_compute; reflexivity).
  pose proof (exec_app _ _ _ _ _ _ E0 E1) as E05.
  destruct (agenda_invariant _ _ _ _ E05) as (I1 & _ & _ & I4).
  repeat (split; [first [assumption | vm_compute; reflexivity]|]).
  split; [exact (now_monotone _ _ _ _ _ _ G E0 E1)|].
  split; [exact (now_monotone _ _ _ _ _ _ o0_good E1 E2)|].
  split; [exact (exec_good _ _ _ _ o0_good (exec_app _ _ _ _ _ _ E1 E2))|].
  split; [exact I1|].
  apply I4; [rewrite A5; cbn; tauto|rewrite A5; cbn; tauto|discriminate].
Qed.
Print Assumptions C01_ex_executions.

(* covers C01_takes_effect_exactly (good s, In x (agenda s), exec s l s'): W's timeout(1), created at 0 (entry eTW,
   pending from the second step on).  Both alternatives of the conclusion occur: after six more steps it is still
   pending and the clock (1/2) has not passed its time; in the full run it is popped by the step that sets now = 1 *)
Theorem C01_ex_takes_effect_exactly :
  good (oS 2) /\ In eTW (agenda (oS 2)) /\
  Order.exec ocodes (oS 2) (map Some [eT7; eT8; eTI; eX; ePI; ePW]) (oS 8) /\
  Order.exec ocodes (oS 2) (map Some [eT7; eT8; eTI; eX; ePI; ePW] ++ Some eTW :: []) (oS 9) /\
  (* content *)
  (In eTW (agenda (oS 8)) /\ (now (oS 8) <= e_time eTW)%Q) /\ (now (oS 8) == 1 # 2)%Q /\
  ktrans ocodes (oS 8) (Some eTW) (oS 9) /\ now (oS 9) = e_time eTW /\ e_time eTW = 1%Q /\
  ((In eTW (agenda (oS 9)) /\ (now (oS 9) <= e_time eTW)%Q) \/
   (exists l1 l2 sa sb, map Some [eT7; eT8; eTI; eX; ePI; ePW] ++ Some eTW :: [] = l1 ++ Some eTW :: l2 /\
      Order.exec ocodes (oS 2) l1 sa /\ In eTW (agenda sa) /\ ktrans ocodes sa (Some eTW) sb /\
      now sb = e_time eTW /\ Order.exec ocodes sb l2 (oS 9))).
Proof.
  assert (G : good (oS 2)) by apply oS_good.
  assert (I : In eTW (agenda (oS 2))) by (vm_compute; tauto).
  assert (E1 : Order.exec ocodes (oS 2) (map Some [eT7; eT8; eTI; eX; ePI; ePW]) (oS 8))
    by (apply (oS_exec 2 6); vm_compute; reflexivity).
  assert (E2 : Order.exec ocodes (oS 2) (map Some [eT7; eT8; eTI; eX; ePI; ePW] ++ Some eTW :: []) (oS 9))
    by (apply (oS_exec 2 7); vm_compute; reflexivity).
  split; [exact G|]. split; [exact I|]. split; [exact E1|]. split; [exact E2|].
  split; [split; [vm_compute; tauto|vm_compute; discriminate]|].
  split; [vm_compute; reflexivity|].
  split; [apply (oS_trans 8 eTW []); vm_compute; reflexivity|].
  split; [vm_compute; reflexivity|]. split; [reflexivity|].
  exact (pending_takes_effect_exactly _ _ _ _ _ G I E2).
Qed.
Print Assumptions C01_ex_takes_effect_exactly.

(* covers C01_timeout_takes_effect_exactly (good s, do_call (CTimeout d v) s = (s1, Ok (VEv e)), exec s1 l s'):
   a timeout created at t0 = 1/2 (after five steps) with delay 1/4 is entry eN = (3/4, NORMAL, #8); three occurrences
   of instant 1/2 are processed first, then eN in a step that sets now = 3/4 = 1/2 + 1/4, then W's timeout at 1 *)
Theorem C01_ex_timeout_takes_effect_exactly :
  good (oS 5) /\ do_call ocodes (CTimeout (1 # 4) (VInt 9)) (oS 5) = (oF, Ok (VEv 9)) /\
  Order.exec ocodes oF (map Some [eX; ePI; ePW'] ++ Some eN :: [Some eTW]) (nsteps 50 ocodes 5 oF) /\
  (* content *)
  (now (oS 5) == 1 # 2)%Q /\ agenda oF = agenda (oS 5) ++ [eN] /\ next_eid (oS 5) = 8 /\
  (now (nsteps 50 ocodes 3 oF) == 1 # 2)%Q /\
  ktrans ocodes (nsteps 50 ocodes 3 oF) (Some eN) (nsteps 50 ocodes 4 oF) /\
  (now (nsteps 50 ocodes 4 oF) == (1 # 2) + (1 # 4))%Q /\ (now (nsteps 50 ocodes 5 oF) == 1)%Q /\
  ((0 <= 1 # 4)%Q /\
   exists x, e_ev x = 9 /\ e_prio x = NORMAL /\ e_eid x = next_eid (oS 5) /\ (e_time x == now (oS 5) + (1 # 4))%Q /\
             agenda oF = agenda (oS 5) ++ [x] /\
     ((In x (agenda (nsteps 50 ocodes 5 oF)) /\ (now (nsteps 50 ocodes 5 oF) <= now (oS 5) + (1 # 4))%Q) \/
      (exists l1 l2 sa sb, map Some [eX; ePI; ePW'] ++ Some eN :: [Some eTW] = l1 ++ Some x :: l2 /\
         Order.exec ocodes oF l1 sa /\ ktrans ocodes sa (Some x) sb /\
         (now sb == now (oS 5) + (1 # 4))%Q /\ Order.exec ocodes sb l2 (nsteps 50 ocodes 5 oF)))).
Proof.
  assert (G : good (oS 5)) by apply oS_good.
  assert (C : do_call ocodes (CTimeout (1 # 4) (VInt 9)) (oS 5) = (oF, Ok (VEv 9))) by (vm_compute; reflexivity).
  assert (E : Order.exec ocodes oF (map Some [eX; ePI; ePW'] ++ Some eN :: [Some eTW]) (nsteps 50 ocodes 5 oF))
    by (apply klabels_exec; vm_compute; reflexivity).
  split; [exact G|]. split; [exact C|]. split; [exact E|].
  split; [vm_compute; reflexivity|]. split; [vm_compute; reflexivity|]. split; [vm_compute; reflexivity|].
  split; [vm_compute; reflexivity|].
  split; [apply (nsteps_trans 50 ocodes 3 oF eN [eTW]); vm_compute; reflexivity|].
  split; [vm_compute; reflexivity|]. split; [vm_compute; reflexivity|].
  exact (timeout_takes_effect_exactly _ _ _ _ _ _ _ _ G C E).
Qed.
Print Assumptions C01_ex_timeout_takes_effect_exactly.

(* covers C01_nothing_skipped (good s, ktrans s (Some m) s'): the step that advances the clock from 0 to 1/2 pops
   I's timeout(1/2) while W's timeout(1) is pending: nothing pending before or after is due before 1/2 *)
Theorem C01_ex_nothing_skipped :
  good (oS 4) /\ ktrans ocodes (oS 4) (Some eTI) (oS 5) /\
  agenda (oS 4) = [eTW; eTI] /\ agenda (oS 5) = [eTW; eX; ePI] /\ (now (oS 4) == 0)%Q /\
  (now (oS 5) = e_time eTI /\ (now (oS 4) <= now (oS 5))%Q /\
   (forall x, In x (agenda (oS 4)) -> (e_time eTI <= e_time x)%Q) /\
   (forall x, In x (agenda (oS 5)) -> (now (oS 5) <= e_time x)%Q)).
Proof.
  assert (G : good (oS 4)) by apply oS_good.
  assert (T : ktrans ocodes (oS 4) (Some eTI) (oS 5)) by (apply (oS_trans 4 eTI [eTW]); vm_compute; reflexivity).
  split; [exact G|]. split; [exact T|].
  split; [vm_compute; reflexivity|]. split; [vm_compute; reflexivity|]. split; [vm_compute; reflexivity|].
  exact (nothing_skipped _ _ _ _ G T).
Qed.
Print Assumptions C01_ex_nothing_skipped.

(* covers C01_pop_order (good s, exec s (l1 ++ Some a :: l2) s', In b (agenda s), ~ In (Some b) l1, b <> a):
   at instant 0 the process start of I (a = eII, inserted LAST, #3) is popped while the timeout t7 (b = eT7, inserted
   FIRST, #0) is still pending: key a < key b because URGENT < NORMAL *)
Theorem C01_ex_pop_order :
  good o0 /\ Order.exec ocodes o0 ([Some eIW] ++ Some eII :: map Some [eT7; eT8; eTI; eX; ePI; ePW; eTW]) (oS 9) /\
  In eT7 (agenda o0) /\ ~ In (Some eT7) [Some eIW] /\ eT7 <> eII /\
  key_lt eII eT7.
Proof.
  assert (E : Order.exec ocodes o0 ([Some eIW] ++ Some eII :: map Some [eT7; eT8; eTI; eX; ePI; ePW; eTW]) (oS 9))
    by (apply (oS_exec 0 9); vm_compute; reflexivity).
  assert (I : In eT7 (agenda o0)) by (vm_compute; tauto).
  assert (N : ~ In (Some eT7) [Some eIW]) by (intros [H|[]]; discriminate H).
  assert (D : eT7 <> eII) by discriminate.
  split; [exact o0_good|]. split; [exact E|]. split; [exact I|]. split; [exact N|]. split; [exact D|].
  exact (pop_order _ _ _ _ _ _ _ o0_good E I N D).
Qed.
Print Assumptions C01_ex_pop_order.

(* covers C01_same_class_fifo (good s, exec s (l1 ++ Some b :: l2) s', In (Some a) (...), same time, same class,
   eid a < eid b): at instant 1/2 the Process events of I (a = ePI, #7) and of W (b = ePW, #8) are both NORMAL;
   b is not even on the agenda of the start state oS 5 (it is inserted by the Interruption step): a is processed first *)
Theorem C01_ex_same_class_fifo :
  good (oS 5) /\ Order.exec ocodes (oS 5) ([Some eX; Some ePI] ++ Some ePW :: [Some eTW]) (oS 9) /\
  In (Some ePI) ([Some eX; Some ePI] ++ Some ePW :: [Some eTW]) /\
  (e_time ePI == e_time ePW)%Q /\ e_prio ePI = e_prio ePW /\ e_eid ePI < e_eid ePW /\
  ~ In ePW (agenda (oS 5)) /\
  In (Some ePI) [Some eX; Some ePI].
Proof.
  assert (G : good (oS 5)) by apply oS_good.
  assert (E : Order.exec ocodes (oS 5) ([Some eX; Some ePI] ++ Some ePW :: [Some eTW]) (oS 9))
    by (apply (oS_exec 5 4); vm_compute; reflexivity).
  assert (I : In (Some ePI) ([Some eX; Some ePI] ++ Some ePW :: [Some eTW])) by (cbn; tauto).
  assert (T : (e_time ePI == e_time ePW)%Q) by reflexivity.
  assert (P : e_prio ePI = e_prio ePW) by reflexivity.
  assert (L : e_eid ePI < e_eid ePW) by (cbn; lia).
  split; [exact G|]. split; [exact E|]. split; [exact I|]. split; [exact T|]. split; [exact P|]. split; [exact L|].
  split; [vm_compute; intros [H|[H|[H|[]]]]; discriminate H|].
  exact (same_class_fifo _ _ _ _ _ _ _ G E I T P L).
Qed.
Print Assumptions C01_ex_same_class_fifo.

(* covers C01_urgent_first (good s, In a (agenda s), In b (agenda s), same time, prio a < prio b,
   exec s (l1 ++ Some b :: l2) s'), twice:
   (i) instant 0: process start of I (eII, #3) before the timeout t7 (eT7, #0) inserted three calls earlier;
   (ii) instant 1/2: the Interruption of W (eX, #6) before the Process event of I (ePI, #7) *)
Theorem C01_ex_urgent_first :
  (good o0 /\ In eII (agenda o0) /\ In eT7 (agenda o0) /\ (e_time eII == e_time eT7)%Q /\ e_prio eII < e_prio eT7 /\
   Order.exec ocodes o0 ([Some eIW; Some eII] ++ Some eT7 :: [Some eT8]) (oS 4) /\
   In (Some eII) [Some eIW; Some eII]) /\
  (good (oS 5) /\ In eX (agenda (oS 5)) /\ In ePI (agenda (oS 5)) /\ (e_time eX == e_time ePI)%Q /\
   e_prio eX < e_prio ePI /\
   Order.exec ocodes (oS 5) ([Some eX] ++ Some ePI :: [Some ePW]) (oS 8) /\
   In (Some eX) [Some eX]).
Proof.
  split.
  - assert (Ia : In eII (agenda o0)) by (vm_compute; tauto).
    assert (Ib : In eT7 (agenda o0)) by (vm_compute; tauto).
    assert (T : (e_time eII == e_time eT7)%Q) by reflexivity.
    assert (P : e_prio eII < e_prio eT7) by (cbn; unfold URGENT, NORMAL; lia).
    assert (E : Order.exec ocodes o0 ([Some eIW; Some eII] ++ Some eT7 :: [Some eT8]) (oS 4))
      by (apply (oS_exec 0 4); vm_compute; reflexivity).
    repeat (split; [assumption || exact o0_good|]).
    exact (urgent_first _ _ _ _ _ _ _ o0_good Ia Ib T P E).
  - assert (G : good (oS 5)) by apply oS_good.
    assert (Ia : In eX (agenda (oS 5))) by (vm_compute; tauto).
    assert (Ib : In ePI (agenda (oS 5))) by (vm_compute; tauto).
    assert (T : (e_time eX == e_time ePI)%Q) by reflexivity.
    assert (P : e_prio eX < e_prio ePI) by (cbn; unfold URGENT, NORMAL; lia).
    assert (E : Order.exec ocodes (oS 5) ([Some eX] ++ Some ePI :: [Some ePW]) (oS 8))
      by (apply (oS_exec 5 3); vm_compute; reflexivity).
    repeat (split; [assumption|]).
    exact (urgent_first _ _ _ _ _ _ _ G Ia Ib T P E).
Qed.
Print Assumptions C01_ex_urgent_first.

(* covers C01_priority_classes (exec from init_state, In x (agenda s)): the state oU reached by eight module-level
   calls, five steps and the prelude of run(until = 3/4) holds a NORMAL timeout, an URGENT Interruption, a NORMAL
   Process event and the URGENT until-sentinel *)
Theorem C01_ex_priority_classes :
  Order.exec ocodes (init_state 0) (repeat None 8 ++ map Some [eIW; eII; eT7; eT8; eTI] ++ [None]) oU /\
  agenda oU = [eTW; eX; ePI; eStop] /\
  In eX (agenda oU) /\ In eStop (agenda oU) /\ In ePI (agenda oU) /\
  map kind (events oU) = [KTimeout; KProcess 0; KInit 0; KTimeout; KProcess 1; KInit 1; KTimeout; KTimeout;
                          KInterruption 0; KSentinel] /\
  (exists ev, nth_error (events oU) (e_ev eStop) = Some ev /\
     (urgent_kind (kind ev) -> e_prio eStop = URGENT) /\ (~ urgent_kind (kind ev) -> e_prio eStop = NORMAL)) /\
  (exists ev, nth_error (events oU) (e_ev ePI) = Some ev /\
     (urgent_kind (kind ev) -> e_prio ePI = URGENT) /\ (~ urgent_kind (kind ev) -> e_prio ePI = NORMAL)).
Proof.
  assert (A : agenda oU = [eTW; eX; ePI; eStop]) by (vm_compute; reflexivity).
  assert (I1 : In eX (agenda oU)) by (rewrite A; cbn; tauto).
  assert (I2 : In eStop (agenda oU)) by (rewrite A; cbn; tauto).
  assert (I3 : In ePI (agenda oU)) by (rewrite A; cbn; tauto).
  split; [exact oU_exec|]. split; [exact A|]. split; [exact I1|]. split; [exact I2|]. split; [exact I3|].
  split; [vm_compute; reflexivity|].
  split; [exact (priority_classes _ _ _ _ _ oU_exec I2)|exact (priority_classes _ _ _ _ _ oU_exec I3)].
Qed.
Print Assumptions C01_ex_priority_classes.

(* covers C01_initialize_urgent (nth_error codes code = Some pr): a third process (code 1) created at instant 1/2 *)
Theorem C01_ex_initialize_urgent :
  nth_error ocodes 1 = Some (compile oI) /\
  agenda (fst (call_spawn ocodes 1 VNone (oS 5))) = agenda (oS 5) ++ [mkEntry (1 # 2) URGENT 8 10] /\
  (let s' := fst (call_spawn ocodes 1 VNone (oS 5)) in
   exists x ev, agenda s' = agenda (oS 5) ++ [x] /\ e_prio x = URGENT /\ (e_time x == now (oS 5))%Q /\
                e_eid x = next_eid (oS 5) /\ nth_error (events s') (e_ev x) = Some ev /\
                kind ev = KInit (length (procs (oS 5)))).
Proof.
  assert (H : nth_error ocodes 1 = Some (compile oI)) by reflexivity.
  split; [exact H|]. split; [vm_compute; reflexivity|].
  exact (spawn_schedules_initialize_urgent ocodes 1 VNone (oS 5) _ H).
Qed.
Print Assumptions C01_ex_initialize_urgent.

(* covers C01_interruption_urgent (call_interrupt e cause s = (s', Ok VNone)): W (Process event 1) is alive and
   waits for its timeout; interrupting it from module level at instant 0 (after four steps) *)
Theorem C01_ex_interruption_urgent :
  call_interrupt 1 (VInt 9) (oS 4) = (fst (call_interrupt 1 (VInt 9) (oS 4)), Ok VNone) /\
  agenda (fst (call_interrupt 1 (VInt 9) (oS 4))) = [eTW; eTI; mkEntry 0 URGENT 6 8] /\
  (exists x ev p, agenda (fst (call_interrupt 1 (VInt 9) (oS 4))) = agenda (oS 4) ++ [x] /\ e_prio x = URGENT /\
                  (e_time x == now (oS 4))%Q /\ e_eid x = next_eid (oS 4) /\
                  nth_error (events (fst (call_interrupt 1 (VInt 9) (oS 4)))) (e_ev x) = Some ev /\
                  kind ev = KInterruption p).
Proof.
  assert (H : call_interrupt 1 (VInt 9) (oS 4) = (fst (call_interrupt 1 (VInt 9) (oS 4)), Ok VNone))
    by (vm_compute; reflexivity).
  split; [exact H|]. split; [vm_compute; reflexivity|].
  exact (interrupt_schedules_urgent _ _ _ _ H).
Qed.
Print Assumptions C01_ex_interruption_urgent.

(* covers C01_until_sentinel_urgent (run_prelude (UNum t) s = inr s1): run(until = 3/4) entered at instant 1/2 *)
Theorem C01_ex_until_sentinel_urgent :
  run_prelude (UNum (3 # 4)) (oS 5) = inr oU /\
  (now (oS 5) == 1 # 2)%Q /\ agenda oU = agenda (oS 5) ++ [eStop] /\
  ((now (oS 5) < 3 # 4)%Q /\
   exists x ev, agenda oU = agenda (oS 5) ++ [x] /\ e_prio x = URGENT /\ (e_time x == 3 # 4)%Q /\
                e_eid x = next_eid (oS 5) /\ nth_error (events oU) (e_ev x) = Some ev /\ kind ev = KSentinel) /\
  (* and the run stops there: the sentinel is processed at 3/4 before W's timeout(1), which stays pending *)
  snd (run 50 ocodes (UNum (3 # 4)) (oS 5)) = RStop VNone /\
  (now (fst (run 50 ocodes (UNum (3 # 4)) (oS 5))) == 3 # 4)%Q /\
  agenda (fst (run 50 ocodes (UNum (3 # 4)) (oS 5))) = [eTW].
Proof.
  assert (H : run_prelude (UNum (3 # 4)) (oS 5) = inr oU) by (vm_compute; reflexivity).
  split; [exact H|]. split; [vm_compute; reflexivity|]. split; [vm_compute; reflexivity|].
  split; [exact (until_sentinel_urgent _ _ _ H)|].
  split; [vm_compute; reflexivity|]. split; vm_compute; reflexivity.
Qed.
Print Assumptions C01_ex_until_sentinel_urgent.

(* covers C01_negative_delay_refused (d < 0) and C01_nonnegative_delay_accepted (0 <= d, at the boundary d = 0) *)
Theorem C01_ex_delay_sign :
  (-1 # 2 < 0)%Q /\
  do_call ocodes (CTimeout (-1 # 2) VNone) (oS 5) = (oS 5, Fail (kexn EValue M_negative_delay)) /\
  (0 <= 0)%Q /\
  (exists e s', do_call ocodes (CTimeout 0 VNone) (oS 5) = (s', Ok (VEv e))) /\
  agenda (fst (do_call ocodes (CTimeout 0 VNone) (oS 5))) = agenda (oS 5) ++ [mkEntry (1 # 2) NORMAL 8 9].
Proof.
  assert (N : (-1 # 2 < 0)%Q) by reflexivity.
  assert (P : (0 <= 0)%Q) by discriminate.
  split; [exact N|]. split; [exact (negative_delay_refused ocodes _ VNone (oS 5) N)|].
  split; [exact P|]. split; [exact (nonnegative_delay_accepted ocodes _ VNone (oS 5) P)|].
  vm_compute. reflexivity.
Qed.
Print Assumptions C01_ex_delay_sign.

(* covers C01_gen_step of Props/C01_Bridge.v (snd (step fuel codes s) <> RBroken): the sixth step pops the Interruption
   of W, runs its callback (W resumes with the Interrupt, logs it and ends) and returns normally; the first step of
   run() on an empty agenda (EmptySchedule) is the other way through the generated body *)
Theorem C01_ex_gen_step :
  snd (step 50 ocodes (oS 5)) <> RBroken /\ step 50 ocodes (oS 5) = (oS 6, ROk) /\
  step_fx 50 ocodes (oS 5) (step_gen 50 ocodes (oS 5)) = Some (step 50 ocodes (oS 5)) /\
  snd (step 50 ocodes (oS 9)) <> RBroken /\ step 50 ocodes (oS 9) = (oS 9, REmpty) /\
  step_fx 50 ocodes (oS 9) (step_gen 50 ocodes (oS 9)) = Some (step 50 ocodes (oS 9)).
Proof.
  assert (H5 : snd (step 50 ocodes (oS 5)) <> RBroken) by (vm_compute; discriminate).
  assert (H9 : snd (step 50 ocodes (oS 9)) <> RBroken) by (vm_compute; discriminate).
  split; [exact H5|]. split; [vm_compute; reflexivity|]. split; [exact (bridge_step _ _ _ H5)|].
  split; [exact H9|]. split; [vm_compute; reflexivity|exact (bridge_step _ _ _ H9)].
Qed.
Print Assumptions C01_ex_gen_step.

(* covers C01_spawn_uses_init of Props/C01_Bridge.v (nth_error codes code = Some pr): a third process created at 1/2 *)
Theorem C01_ex_spawn_uses_init :
  nth_error ocodes 1 = Some (compile oI) /\
  (let p := length (procs (oS 5)) in
   let '(pe, s1) := new_event (mkEvent (Some []) None false (KProcess p)) (oS 5) in
   let s3 := fst (init_of_spawn p s1) in
   call_spawn ocodes 1 VNone (oS 5) =
     (set_procs (procs s3 ++ [mkProc (compile oI) (start (compile oI) VNone) pe (Some (length (events s1)))]) s3,
      Ok (VEv pe))) /\
  length (procs (oS 5)) = 2 /\ snd (call_spawn ocodes 1 VNone (oS 5)) = Ok (VEv 9).
Proof.
  assert (H : nth_error ocodes 1 = Some (compile oI)) by reflexivity.
  split; [exact H|]. split; [exact (spawn_uses_init ocodes 1 VNone (oS 5) _ H)|].
  split; vm_compute; reflexivity.
Qed.
Print Assumptions C01_ex_spawn_uses_init.
