(* C10 -- NON-VACUITY of the theorems of Props/C10.v (and Props/C10_Bridge.v).

   "Beside each theorem prove an Example that a concrete non-trivial state meets its hypotheses; an implication no
   reachable state satisfies means nothing."  Every theorem below instantiates ALL hypotheses of one or several
   theorems of Props/C10.v at closed terms -- a lossy wire execution with a burst, a loss, a later packet with a shorter
   delay and a packet still propagating; a loss-free one with a zero delay; a cable with traffic in both directions --
   proves them together, and states the concrete content of the instantiated conclusions (delivery instants, who is
   lost, what the recurrence gives), obtained by running the model and by applying the very lemmas that close the
   theorems.

   Lossy execution C10_ex_acts (loss rate 1/4, t0 = 0):
     t=0  p0 arrives, draws (u 1/2, delay 2): propagates until 2
     t=1  p1, p2, p3 arrive and wait
     t=2  p0 delivered; p1 (u 1/2, delay 1/2: due at 3/2, but behind p0) delivered at 2; p2 (u 0 < 1/4) LOST at 2;
          p3 (u 3/4, delay 3) dequeued at 2 -- the loss delayed nobody -- and propagates until 1 + 3 = 4
     t=3  p4 arrives and waits
     t=4  p3 delivered; p4 (u 1, delay 1/2: due at 7/2, a SHORTER delay than p3's) delivered at 4, not before p3
     t=5  p5 arrives at the idle wire, draws (u 1/2, delay 1): propagating until 6 when the execution stops

   Coverage (hypothesis-carrying theorems of Props/C10.v -> witness):
     C10_wire_spec, C10_wire_fifo, C10_wire_delivery_instants_sorted, C10_wire_loss_iff   -> C10_ex_wire_run
     C10_wire_delivery_time                                                               -> C10_ex_wire_delivery_time
     C10_wire_lost_never_delivered, C10_wire_lost_delays_nobody                           -> C10_ex_wire_lost
     C10_wire_no_loss_exactly_once                                                        -> C10_ex_wire_no_loss
     C10_wire_never_late                                                                  -> C10_ex_wire_never_late
     C10_cable_independent, C10_cable_outputs_go_across                                   -> C10_ex_cable_run
     C10_cable_independent_frame, C10_cable_commute                                       -> C10_ex_cable_steps
   Props/C10_BridgeRun.v (Wire.run as translated from the tree under test):
     C10_gen_wire_run_init, C10_gen_wire_run_get, C10_gen_wire_run_get_draws              -> C10_ex_gen_wire_run
   Unconditional (nothing to witness): C10_cable_wiring (a conjunction of equations);
     C10_gen_wire_put (Props/C10_Bridge.v: for all loss rates, states and packets);
     C10_gen_wire_run_timer, C10_gen_wire_run_get_explicit, C10_gen_wire_run_timer_explicit (Props/C10_BridgeRun.v:
     equations for all states and draws). *)
From Coq Require Import ZArith QArith Qminmax List Bool Sorted Lia.
From ONL Require Import Elem.Packet Elem.StoreQ Elem.Wire Elem.WireProofs Elem.Cable Elem.CableProofs.
From ONL Require Import Gen.Extracted_wire_run Elem.WireRunBridge.
Import ListNotations.

Definition C10_pk (i : nat) : pkt := mkp i (Z.of_nat i + 1) (Z.of_nat (i mod 2)) 1000 0.

Definition C10_ex_loss : option Q := Some (1 # 4).
Definition C10_ex_acts : list waction :=
  [ WInit; WPut (C10_pk 0); WStoreCb; WGet (Some (1 # 2)) (Some 2);
    WAdvance 1; WPut (C10_pk 1); WPut (C10_pk 2); WPut (C10_pk 3); WStoreCb; WStoreCb; WStoreCb;
    WAdvance 2; WTimer; WGet (Some (1 # 2)) (Some (1 # 2)); WGet (Some 0) None; WGet (Some (3 # 4)) (Some 3);
    WAdvance 3; WPut (C10_pk 4); WStoreCb;
    WAdvance 4; WTimer; WGet (Some 1) (Some (1 # 2));
    WAdvance 5; WPut (C10_pk 5); WStoreCb; WGet (Some (1 # 2)) (Some 1) ].

(* state, trace and recurrence outcomes of an execution from wire0 0 (the theorems below prove wire_run … = Some (state,
   trace) and wire_rec … = Some outcomes, so the defaults are never used) *)
Definition C10_st (loss : option Q) (acts : list waction) : wire :=
  match wire_run loss (wire0 0) acts with Some (w, _) => w | None => wire0 0 end.
Definition C10_tr (loss : option Q) (acts : list waction) : list tev :=
  match wire_run loss (wire0 0) acts with Some (_, tr) => tr | None => [] end.
Definition C10_rec (loss : option Q) (acts : list waction) : list outcome :=
  match wire_rec loss 0 (arrivals (C10_tr loss acts)) (draws (C10_tr loss acts)) with Some R => R | None => [] end.
(* readable forms: (instant, uid) *)
Definition C10_show (l : list (Q * pkt)) : list (Q * nat) := map (fun x => (Qred (fst x), uid (snd x))) l.
Definition C10_show_fate (f : fate) : option Q := match f with Lost => None | Deliv T => Some (Qred T) end.

(* ---- hypotheses `wire_run loss (wire0 t0) acts = Some (w, tr)`, `wire_rec loss t0 (arrivals tr) (draws tr) = Some R` ----
   covers C10_wire_spec (branch `hold w = Some …`: p5 is still propagating, its stored deadline 6 is its T),
   C10_wire_fifo, C10_wire_delivery_instants_sorted, C10_wire_loss_iff. *)
Theorem C10_ex_wire_run :
  let w := C10_st C10_ex_loss C10_ex_acts in
  let tr := C10_tr C10_ex_loss C10_ex_acts in
  let R := C10_rec C10_ex_loss C10_ex_acts in
  wire_run C10_ex_loss (wire0 0) C10_ex_acts = Some (w, tr)
  /\ wire_rec C10_ex_loss 0 (arrivals tr) (draws tr) = Some R
  (* what the execution looks like *)
  /\ C10_show (arrivals tr) = [(0, 0%nat); (1, 1%nat); (1, 2%nat); (1, 3%nat); (3, 4%nat); (5, 5%nat)]
  /\ C10_show (tdeliv tr) = [(2, 0%nat); (2, 1%nat); (4, 3%nat); (4, 4%nat)]
  /\ C10_show (tlost tr) = [(2, 2%nat)]
  /\ map Qred (tgets tr) = [0; 2; 2; 2; 4; 5]
  /\ map (fun o => (Qred (o_start o), C10_show_fate (o_fate o))) R
     = [(0, Some 2); (2, Some 2); (2, None); (2, Some 4); (4, Some 4); (5, Some 6)]
  /\ hold w = Some (C10_pk 5, 5 + (1 - (5 - 5)))
  (* C10_wire_spec *)
  /\ (exists R0, wire_rec C10_ex_loss 0 (arrivals tr) (draws tr) = Some R0
        /\ arrivals tr = map o_ap R0 ++ sq_held (wq w)
        /\ Forall2 Qeq (tgets tr) (map o_start R0)
        /\ tp_equiv (tlost tr) (exp_lost R0)
        /\ exists R' o T, R0 = R' ++ [o] /\ o_pkt o = C10_pk 5 /\ o_fate o = Deliv T /\ T == 5 + (1 - (5 - 5)) /\
                          tp_equiv (tdeliv tr) (exp_deliv R'))
  (* C10_wire_fifo, C10_wire_delivery_instants_sorted *)
  /\ subseq (map snd (tdeliv tr)) (map snd (arrivals tr))
  /\ StronglySorted (fun x y : Q * pkt => fst x <= fst y) (tdeliv tr)
  (* C10_wire_loss_iff, at the lost packet (index 2, draw 0 < 1/4) and at a kept one (index 3, draw 3/4) *)
  /\ tp_equiv (tlost tr) (exp_lost R)
  /\ (forall i o, nth_error R i = Some o ->
        exists u d, nth_error (draws tr) i = Some (u, d) /\
          (o_fate o = Lost <-> exists r x, C10_ex_loss = Some r /\ ~ r == 0 /\ u = Some x /\ x < r))
  /\ nth_error (draws tr) 2 = Some (Some 0, None) /\ nth_error (draws tr) 3 = Some (Some (3 # 4), Some 3).
Proof.
  intros w tr R.
  assert (Hr : wire_run C10_ex_loss (wire0 0) C10_ex_acts = Some (w, tr)) by (vm_compute; reflexivity).
  assert (HR : wire_rec C10_ex_loss 0 (arrivals tr) (draws tr) = Some R) by (vm_compute; reflexivity).
  assert (Hh : hold w = Some (C10_pk 5, 5 + (1 - (5 - 5)))) by (vm_compute; reflexivity).
  split; [exact Hr|]. split; [exact HR|].
  split; [vm_compute; reflexivity|]. split; [vm_compute; reflexivity|]. split; [vm_compute; reflexivity|].
  split; [vm_compute; reflexivity|]. split; [vm_compute; reflexivity|]. split; [exact Hh|].
  split.
  { destruct (wire_spec C10_ex_loss 0 C10_ex_acts w tr Hr) as (R0 & H1 & H2 & H3 & H4 & H5).
    exists R0. unfold deliveries_match in H5. rewrite Hh in H5. repeat (split; [assumption|]). exact H5. }
  split; [exact (wire_fifo C10_ex_loss 0 C10_ex_acts w tr Hr)|].
  split; [exact (wire_delivery_instants_sorted C10_ex_loss 0 C10_ex_acts w tr Hr)|].
  destruct (wire_loss_iff C10_ex_loss 0 C10_ex_acts w tr Hr R HR) as [L1 L2].
  split; [exact L1|]. split; [exact L2|]. split; vm_compute; reflexivity.
Qed.
Print Assumptions C10_ex_wire_run.

(* ---- hypotheses … and `nth_error (tdeliv tr) k = Some (t, p)` ----------------------------------------------------------
   covers C10_wire_delivery_time, at delivery k = 1: p1 at t = 2.  It is arrival i = 1 (a = 1) with delay 1/2: a + dd = 3/2
   <= 2, and 2 = max(3/2, completion of p0 = 2): held back by the packet in front, never longer.  And at k = 3: p4
   (a = 3, delay 1/2) at t = 4 = max(7/2, completion of p3 = 4). *)
Theorem C10_ex_wire_delivery_time :
  let w := C10_st C10_ex_loss C10_ex_acts in
  let tr := C10_tr C10_ex_loss C10_ex_acts in
  let R := C10_rec C10_ex_loss C10_ex_acts in
  wire_run C10_ex_loss (wire0 0) C10_ex_acts = Some (w, tr)
  /\ wire_rec C10_ex_loss 0 (arrivals tr) (draws tr) = Some R
  /\ nth_error (tdeliv tr) 1 = Some (2, C10_pk 1)
  /\ nth_error (tdeliv tr) 3 = Some (4, C10_pk 4)
  (* conclusion at k = 1, and its content *)
  /\ (exists i a u dd,
        nth_error (arrivals tr) i = Some (a, C10_pk 1) /\ nth_error (draws tr) i = Some (u, Some dd) /\
        a + dd <= 2 /\ (0 <= dd -> 2 == Qmax (a + dd) (last_fin 0 (firstn i R))) /\
        2 == deliver_at (Qmax a (last_fin 0 (firstn i R))) a dd)
  /\ nth_error (arrivals tr) 1 = Some (1, C10_pk 1) /\ nth_error (draws tr) 1 = Some (Some (1 # 2), Some (1 # 2))
  /\ last_fin 0 (firstn 1 R) == 2 /\ 2 == Qmax (1 + (1 # 2)) (last_fin 0 (firstn 1 R))
  (* content at k = 3 *)
  /\ nth_error (arrivals tr) 4 = Some (3, C10_pk 4) /\ nth_error (draws tr) 4 = Some (Some 1, Some (1 # 2))
  /\ last_fin 0 (firstn 4 R) == 4 /\ 4 == Qmax (3 + (1 # 2)) (last_fin 0 (firstn 4 R)).
Proof.
  intros w tr R.
  assert (Hr : wire_run C10_ex_loss (wire0 0) C10_ex_acts = Some (w, tr)) by (vm_compute; reflexivity).
  assert (HR : wire_rec C10_ex_loss 0 (arrivals tr) (draws tr) = Some R) by (vm_compute; reflexivity).
  assert (Hk : nth_error (tdeliv tr) 1 = Some (2, C10_pk 1)) by (vm_compute; reflexivity).
  split; [exact Hr|]. split; [exact HR|]. split; [exact Hk|]. split; [vm_compute; reflexivity|].
  split; [exact (wire_delivery_time C10_ex_loss 0 C10_ex_acts w tr Hr R HR 1%nat 2 (C10_pk 1) Hk)|].
  repeat split; vm_compute; reflexivity.
Qed.
Print Assumptions C10_ex_wire_delivery_time.

(* ---- hypotheses … `NoDup (map uid (map snd (arrivals tr)))`, `In (t, p) (tlost tr)`; `nth_error R i = Some o`,
        `o_fate o = Lost`, `nth_error R (S i) = Some o'` ----------------------------------------------------------------
   covers C10_wire_lost_never_delivered, C10_wire_lost_delays_nobody: p2 (index 2) is lost at 2; p3 (index 3, arrived
   at 1) is dequeued at max(1, 2) = 2, the very instant p2 was dequeued. *)
Theorem C10_ex_wire_lost :
  let w := C10_st C10_ex_loss C10_ex_acts in
  let tr := C10_tr C10_ex_loss C10_ex_acts in
  let R := C10_rec C10_ex_loss C10_ex_acts in
  let o := {| o_pkt := C10_pk 2; o_arr := 1; o_start := Qmax 1 2; o_fate := Lost |} in
  let o' := {| o_pkt := C10_pk 3; o_arr := 1; o_start := Qmax 1 (Qmax 1 2);
               o_fate := Deliv (deliver_at (Qmax 1 (Qmax 1 2)) 1 3) |} in
  wire_run C10_ex_loss (wire0 0) C10_ex_acts = Some (w, tr)
  /\ wire_rec C10_ex_loss 0 (arrivals tr) (draws tr) = Some R
  /\ NoDup (map uid (map snd (arrivals tr)))
  /\ In (2, C10_pk 2) (tlost tr)
  /\ nth_error R 2 = Some o /\ o_fate o = Lost /\ nth_error R 3 = Some o'
  (* conclusions *)
  /\ ~ In (C10_pk 2) (map snd (tdeliv tr)) /\ ~ In (C10_pk 2) (wheld w)
  /\ o_start o' = Qmax (o_arr o') (o_start o)
  /\ (exists ti ti', nth_error (tgets tr) 2 = Some ti /\ nth_error (tgets tr) 3 = Some ti' /\
                     ti == o_start o /\ ti' == Qmax (o_arr o') ti)
  /\ nth_error (tgets tr) 2 = Some 2 /\ nth_error (tgets tr) 3 = Some 2.
Proof.
  intros w tr R o o'.
  assert (Hr : wire_run C10_ex_loss (wire0 0) C10_ex_acts = Some (w, tr)) by (vm_compute; reflexivity).
  assert (HR : wire_rec C10_ex_loss 0 (arrivals tr) (draws tr) = Some R) by (vm_compute; reflexivity).
  assert (Hn : NoDup (map uid (map snd (arrivals tr)))).
  { vm_compute. repeat constructor; simpl; intuition discriminate. }
  assert (Hl : In (2, C10_pk 2) (tlost tr)) by (vm_compute; left; reflexivity).
  assert (H2 : nth_error R 2 = Some o) by (vm_compute; reflexivity).
  assert (H3 : nth_error R 3 = Some o') by (vm_compute; reflexivity).
  split; [exact Hr|]. split; [exact HR|]. split; [exact Hn|]. split; [exact Hl|].
  split; [exact H2|]. split; [reflexivity|]. split; [exact H3|].
  destruct (wire_lost_never_delivered C10_ex_loss 0 C10_ex_acts w tr Hr Hn 2 (C10_pk 2) Hl) as [N1 N2].
  split; [exact N1|]. split; [exact N2|].
  destruct (wire_lost_delays_nobody C10_ex_loss 0 C10_ex_acts w tr Hr R HR 2%nat o o' H2 eq_refl H3) as [S1 S2].
  split; [exact S1|]. split; [exact S2|]. split; vm_compute; reflexivity.
Qed.
Print Assumptions C10_ex_wire_lost.

(* ---- hypotheses `loss = None \/ exists r, loss = Some r /\ r == 0`, `wire_run … = Some (w, tr)` ---------------------------
   covers C10_wire_no_loss_exactly_once, for loss_rate None and for loss_rate 0 (the same execution is admissible for
   both: no uniform draw is made).  p0, p1 arrive at 0; p0 (delay 3) delivered at 3, p1 (delay 1) right behind it at 3;
   p2 arrives at 4 with delay 0 and is delivered at 4; p3 arrives at 4 (delay 2) and is still inside at the end. *)
Definition C10_ex_acts_nl : list waction :=
  [ WInit; WPut (C10_pk 0); WPut (C10_pk 1); WStoreCb; WStoreCb; WGet None (Some 3);
    WAdvance 3; WTimer; WGet None (Some 1);
    WAdvance 4; WPut (C10_pk 2); WStoreCb; WGet None (Some 0); WPut (C10_pk 3); WStoreCb; WGet None (Some 2) ].

Theorem C10_ex_wire_no_loss :
  let w := C10_st None C10_ex_acts_nl in
  let tr := C10_tr None C10_ex_acts_nl in
  ((None : option Q) = None \/ exists r : Q, None = Some r /\ r == 0)
  /\ wire_run None (wire0 0) C10_ex_acts_nl = Some (w, tr)
  /\ (Some 0 = None \/ exists r : Q, Some 0 = Some r /\ r == 0)
  /\ wire_run (Some 0) (wire0 0) C10_ex_acts_nl = Some (w, tr)
  (* conclusions *)
  /\ tlost tr = [] /\ map snd (arrivals tr) = map snd (tdeliv tr) ++ wheld w
  /\ C10_show (arrivals tr) = [(0, 0%nat); (0, 1%nat); (4, 2%nat); (4, 3%nat)]
  /\ C10_show (tdeliv tr) = [(3, 0%nat); (3, 1%nat); (4, 2%nat)]
  /\ wheld w = [C10_pk 3].
Proof.
  intros w tr.
  assert (H0 : (None : option Q) = None \/ exists r : Q, None = Some r /\ r == 0) by (left; reflexivity).
  assert (Hr : wire_run None (wire0 0) C10_ex_acts_nl = Some (w, tr)) by (vm_compute; reflexivity).
  split; [exact H0|]. split; [exact Hr|].
  split; [right; exists 0; split; reflexivity|]. split; [vm_compute; reflexivity|].
  destruct (wire_no_loss_exactly_once None 0 C10_ex_acts_nl w tr H0 Hr) as [E1 E2].
  split; [exact E1|]. split; [exact E2|]. repeat split; vm_compute; reflexivity.
Qed.
Print Assumptions C10_ex_wire_no_loss.

(* ---- hypothesis `exists acts tr, wire_run loss (wire0 t0) acts = Some (w, tr)` ---------------------------------------------
   covers C10_wire_never_late.  The end state of the lossy execution: now = 5, p5 propagating until 6.  The clock may
   move to 6 but not to 7. *)
Theorem C10_ex_wire_never_late :
  let w := C10_st C10_ex_loss C10_ex_acts in
  (exists acts tr, wire_run C10_ex_loss (wire0 0) acts = Some (w, tr))
  /\ hold w = Some (C10_pk 5, 5 + (1 - (5 - 5))) /\ wnow w = 5
  /\ wnow w <= 5 + (1 - (5 - 5))
  /\ (exists w', wire_act C10_ex_loss w (WAdvance 6) = Some (w', []))
  /\ wire_act C10_ex_loss w (WAdvance 7) = None.
Proof.
  intros w.
  assert (Hre : exists acts tr, wire_run C10_ex_loss (wire0 0) acts = Some (w, tr)).
  { exists C10_ex_acts, (C10_tr C10_ex_loss C10_ex_acts). vm_compute; reflexivity. }
  assert (Hh : hold w = Some (C10_pk 5, 5 + (1 - (5 - 5)))) by (vm_compute; reflexivity).
  destruct (wire_never_late C10_ex_loss 0 w Hre) as (N1 & _ & N3).
  split; [exact Hre|]. split; [exact Hh|]. split; [vm_compute; reflexivity|].
  split; [exact (N1 _ _ Hh)|].
  split; [eexists; vm_compute; reflexivity|].
  apply (N3 (C10_pk 5) (5 + (1 - (5 - 5))) 7 Hh). vm_compute; reflexivity.
Qed.
Print Assumptions C10_ex_wire_never_late.

(* ================================================================================================================ *)
(* A cable (no loss) with traffic in both directions at once: a0, a1 travel dev1 -> dev2 (direction D1), b0 travels
   dev2 -> dev1 (direction D2).  b0 (delay 1) is handed to dev1 at 1; a0 (delay 2) to dev2 at 2, a1 (delay 1/2, queued
   behind a0) to dev2 at 2. *)
Definition C10_ex_cacts : list caction :=
  [ CA D1 WInit; CA D2 WInit; CA D1 (WPut (C10_pk 0)); CA D2 (WPut (C10_pk 10)); CA D1 (WPut (C10_pk 1));
    CA D1 WStoreCb; CA D2 WStoreCb; CA D1 WStoreCb;
    CA D1 (WGet None (Some 2)); CA D2 (WGet None (Some 1));
    CAdvance 1; CA D2 WTimer; CAdvance 2; CA D1 WTimer; CA D1 (WGet None (Some (1 # 2))) ].
Definition C10_cst (acts : list caction) : cable :=
  match cable_run None (cable0 0) acts with Some (c, _) => c | None => cable0 0 end.
Definition C10_ctr (acts : list caction) : list ctev :=
  match cable_run None (cable0 0) acts with Some (_, tr) => tr | None => [] end.

(* ---- hypothesis `cable_run loss c acts = Some (c', tr)`: covers C10_cable_independent, C10_cable_outputs_go_across ---- *)
Theorem C10_ex_cable_run :
  let c' := C10_cst C10_ex_cacts in
  let tr := C10_ctr C10_ex_cacts in
  cable_run None (cable0 0) C10_ex_cacts = Some (c', tr)
  (* each direction, seen alone, is an admissible execution of one wire ... *)
  /\ wire_run None (cget (cable0 0) D1) (proj_acts D1 C10_ex_cacts) = Some (cget c' D1, proj_tr D1 tr)
  /\ wire_run None (cget (cable0 0) D2) (proj_acts D2 C10_ex_cacts) = Some (cget c' D2, proj_tr D2 tr)
  /\ length (proj_acts D1 C10_ex_cacts) = 10%nat /\ length (proj_acts D2 C10_ex_cacts) = 7%nat
  (* ... delivering only its own packets, at its own instants, to the device at the far end *)
  /\ C10_show (tdeliv (proj_tr D1 tr)) = [(2, 0%nat); (2, 1%nat)]
  /\ C10_show (tdeliv (proj_tr D2 tr)) = [(1, 10%nat)]
  /\ flat_map (fun e : ctev => map fst (snd e)) tr = [Dev1; Dev2; Dev2]
  /\ Forall (fun e : ctev => match e with
                             | (_, CA d _, outs) => Forall (fun o : cout => fst o = dir_dest d) outs
                             | (_, CAdvance _, outs) => outs = []
                             end) tr.
Proof.
  intros c' tr.
  assert (Hr : cable_run None (cable0 0) C10_ex_cacts = Some (c', tr)) by (vm_compute; reflexivity).
  split; [exact Hr|].
  split; [exact (cable_projection None D1 _ _ _ _ Hr)|]. split; [exact (cable_projection None D2 _ _ _ _ Hr)|].
  split; [reflexivity|]. split; [reflexivity|].
  split; [vm_compute; reflexivity|]. split; [vm_compute; reflexivity|]. split; [vm_compute; reflexivity|].
  exact (cable_outputs_go_across None _ _ _ _ Hr).
Qed.
Print Assumptions C10_ex_cable_run.

(* ---- hypotheses `cable_act loss c (CA d a) = Some (c', outs)`;
        `cable_act loss c (CA D1 a) = Some (c1, o1)`, `cable_act loss c1 (CA D2 b) = Some (c2, o2)` ------------------------------
   covers C10_cable_independent_frame (the timeout of direction D2 at t = 1 hands b0 to dev1 and leaves direction D1,
   where a0 is propagating and a1 waits, untouched) and C10_cable_commute (at t = 0 the two servers resume with their
   packets and draw their delays, D1 first or D2 first: same result). *)
Theorem C10_ex_cable_steps :
  let c := C10_cst (firstn 11 C10_ex_cacts) in
  let c' := C10_cst (firstn 12 C10_ex_cacts) in
  let k := C10_cst (firstn 8 C10_ex_cacts) in
  let k1 := C10_cst (firstn 9 C10_ex_cacts) in
  let k2 := C10_cst (firstn 10 C10_ex_cacts) in
  cable_act None c (CA D2 WTimer) = Some (c', [(Dev1, ODeliver (C10_pk 10))])
  /\ cable_act None k (CA D1 (WGet None (Some 2))) = Some (k1, [])
  /\ cable_act None k1 (CA D2 (WGet None (Some 1))) = Some (k2, [])
  (* frame *)
  /\ cget c' (other D2) = cget c (other D2)
  /\ Forall (fun o : cout => fst o = dir_dest D2) [(Dev1, ODeliver (C10_pk 10))]
  /\ wire_act None (cget c D2) WTimer = Some (cget c' D2, map snd [(Dev1, ODeliver (C10_pk 10))])
  /\ wheld (cget c D1) = [C10_pk 0; C10_pk 1]
  (* commute *)
  /\ (exists k1', cable_act None k (CA D2 (WGet None (Some 1))) = Some (k1', []) /\
                  cable_act None k1' (CA D1 (WGet None (Some 2))) = Some (k2, []))
  /\ hold (cw1 k2) = Some (C10_pk 0, 0 + (2 - (0 - 0))) /\ hold (cw2 k2) = Some (C10_pk 10, 0 + (1 - (0 - 0))).
Proof.
  intros c c' k k1 k2.
  assert (Ha : cable_act None c (CA D2 WTimer) = Some (c', [(Dev1, ODeliver (C10_pk 10))])) by (vm_compute; reflexivity).
  assert (H1 : cable_act None k (CA D1 (WGet None (Some 2))) = Some (k1, [])) by (vm_compute; reflexivity).
  assert (H2 : cable_act None k1 (CA D2 (WGet None (Some 1))) = Some (k2, [])) by (vm_compute; reflexivity).
  split; [exact Ha|]. split; [exact H1|]. split; [exact H2|].
  destruct (cable_frame None c D2 WTimer c' _ Ha) as (F1 & F2 & F3).
  split; [exact F1|]. split; [exact F2|]. split; [exact F3|]. split; [vm_compute; reflexivity|].
  split; [exact (cable_commute None k _ _ k1 [] k2 [] H1 H2)|].
  split; vm_compute; reflexivity.
Qed.
Print Assumptions C10_ex_cable_steps.

(* ================================================================================================================ *)
(* Props/C10_BridgeRun.v.
   ---- hypotheses `hold w = None`; `sq_take (wq w) = Some ((a0, p), q)`, `started w = true`;
        `wire_act loss w (WGet uo do) = Some r` ----------------------------------------------------------------------------
   covers C10_gen_wire_run_init (w = wire0 0), C10_gen_wire_run_get and C10_gen_wire_run_get_draws: in the lossy execution
   above, at t = 2, the state in which the server resumes with p3 (filed at 1; draws u = 3/4 >= 1/4: kept, delay 3: the
   translated code consumes both draws and asks for a timeout of 3 - (2 - 1) = 2) and, one step earlier, with p2 (u = 0 <
   1/4: lost, only the uniform draw is consumed). *)
Definition C10_rest (w : wire) : sq pkt := match sq_take (wq w) with Some (_, q) => q | None => wq w end.

Theorem C10_ex_gen_wire_run :
  let w := C10_st C10_ex_loss (firstn 15 C10_ex_acts) in
  let w2 := C10_st C10_ex_loss (firstn 14 C10_ex_acts) in
  let g := wire_gen_get C10_ex_loss w 1 false (3 # 4) 3 in
  let g2 := wire_gen_get C10_ex_loss w2 1 false 0 0 in
  hold (wire0 0) = None
  /\ hold w = None /\ sq_take (wq w) = Some ((1, C10_pk 3), C10_rest w) /\ started w = true
  /\ wire_act C10_ex_loss w (WGet (Some (3 # 4)) (Some 3)) = Some (C10_st C10_ex_loss (firstn 16 C10_ex_acts), [])
  /\ hold w2 = None /\ sq_take (wq w2) = Some ((1, C10_pk 2), C10_rest w2) /\ started w2 = true
  /\ wire_act C10_ex_loss w2 (WGet (Some 0) None) = Some (w, [OLost (C10_pk 2)])
  (* conclusions *)
  /\ wire_act C10_ex_loss (wire0 0) WInit
     = wire_run_step (set_started (wire0 0)) None 0 (wire_gen_init C10_ex_loss (wire0 0) 0 false true 0 0)
  /\ wire_act C10_ex_loss (wire0 0) WInit <> None
  /\ g = ([FxUniform; FxDelayDist], NxYield (RqTimeout (3 - (2 - 1))) PP2)
  /\ wire_act C10_ex_loss w (WGet (consumed is_uniform (fst g) (3 # 4)) (consumed is_delay (fst g) 3))
     = wire_run_step (with_q w (C10_rest w)) (Some (C10_pk 3)) (3 - (wnow w - 1)) g
  /\ (Some (3 # 4) = consumed is_uniform (fst g) (3 # 4) /\ Some 3 = consumed is_delay (fst g) 3)
  /\ g2 = ([FxUniform], NxYield RqStoreGet PP1)
  /\ (Some 0 = consumed is_uniform (fst g2) 0 /\ None = consumed is_delay (fst g2) 0).
Proof.
  intros w w2 g g2.
  assert (H0 : hold (wire0 0) = None) by reflexivity.
  assert (Hh : hold w = None) by (vm_compute; reflexivity).
  assert (Ht : sq_take (wq w) = Some ((1, C10_pk 3), C10_rest w)) by (vm_compute; reflexivity).
  assert (Hs : started w = true) by (vm_compute; reflexivity).
  assert (Ha : wire_act C10_ex_loss w (WGet (Some (3 # 4)) (Some 3)) = Some (C10_st C10_ex_loss (firstn 16 C10_ex_acts), []))
    by (vm_compute; reflexivity).
  assert (Hh2 : hold w2 = None) by (vm_compute; reflexivity).
  assert (Ht2 : sq_take (wq w2) = Some ((1, C10_pk 2), C10_rest w2)) by (vm_compute; reflexivity).
  assert (Hs2 : started w2 = true) by (vm_compute; reflexivity).
  assert (Ha2 : wire_act C10_ex_loss w2 (WGet (Some 0) None) = Some (w, [OLost (C10_pk 2)])) by (vm_compute; reflexivity).
  split; [exact H0|]. split; [exact Hh|]. split; [exact Ht|]. split; [exact Hs|]. split; [exact Ha|].
  split; [exact Hh2|]. split; [exact Ht2|]. split; [exact Hs2|]. split; [exact Ha2|].
  split; [exact (bridge_wire_run_init C10_ex_loss (wire0 0) 0 false true 0 0 H0)|].
  split; [vm_compute; discriminate|].
  split; [vm_compute; reflexivity|].
  split; [exact (bridge_wire_run_get C10_ex_loss w 1 (C10_pk 3) (C10_rest w) false (3 # 4) 3 Hh Ht Hs)|].
  split; [exact (bridge_wire_run_get_draws C10_ex_loss w 1 (C10_pk 3) (C10_rest w) false (Some (3 # 4)) (Some 3) _ Hh Ht Hs Ha)|].
  split; [vm_compute; reflexivity|].
  exact (bridge_wire_run_get_draws C10_ex_loss w2 1 (C10_pk 2) (C10_rest w2) false (Some 0) None _ Hh2 Ht2 Hs2 Ha2).
Qed.
Print Assumptions C10_ex_gen_wire_run.
