(* C08, the share of onl/netdev/switch.py and onl/netdev/demux.py: the switches as COMPOSED elements.
   Only statements, closed by the lemma that proves them, and their assumptions.
   Vocabulary (Elem/Iface.v, Compose*.v, ComposeSwitch.v, AdaptSwitch.v; Route/Demux.v for the decision functions):
     run E s acts = Some (s', tr)     acts is an admissible execution of the element E (every action enabled); tr its timed trace
     puts / fwds / drops tr           the packets put in / delivered at an output / discarded along tr (packet RECORDS: uid + header)
     demux_elem route t0              a FlowDemux / FIBDemux with decision function route : flow id -> output (stateless)
     bank t0 idx [E0; ..; En-1]       n elements side by side; a packet p goes to E(idx p)
     switch route t0 nouts Es         demux_elem route t0 >> bank t0 (bidx nouts route) Es; Es laid out as the demux's devices:
                                      outs, then the default output, then the end devices
     bank_has .. s i E sE             sE is the state of branch i inside the bank state s
     sswitch_elem n rate buf eid t0   SimplePacketSwitch(env, n, rate, buf): simple_switch true n over n Ports
     fswitch_elem c buf eid sched ends t0   FairPacketSwitch: fair_switch true true c over n branches `Port(rate 0, limit buf) >> sched`
     fork wa wb A B / mcast t0 want Es   replicating composition: branch i is given p iff want i p (NSplitter: always; Hub: iff
                                      endpoint i is not the packet's source)
     laws E = conserves E /\ (forall f, flow_fifo E f) /\ drained E  (Props/C08_Pipe.v) *)
From Coq Require Import ZArith QArith List Bool Permutation Arith.
From ONL Require Import Elem.Packet Elem.StoreQ Elem.HeapList Elem.WFQServer Elem.WFQ Elem.VC Elem.WFQInst Elem.DRR Elem.DRRInv
  Elem.SchedBase Elem.SchedBaseProofs Elem.SP Elem.Port Elem.PortProofs Route.Demux Route.DemuxProofs
  Elem.Iface Elem.Compose Elem.ComposePar Elem.ComposeHands Elem.ComposeFan Elem.ComposeSwitch
  Elem.ComposeCast Route.Hub Route.HubProofs Elem.AdaptPort Elem.AdaptSched Elem.AdaptSrv Elem.AdaptDRR Elem.AdaptSwitch
  Elem.AdaptCast Elem.ComposeRandom Elem.AdaptSwitchExample Elem.AdaptCastExample Elem.ComposeRandomExample.
Import ListNotations.
Local Open Scope Q_scope.

(* ================= n elements behind one demultiplexer, n arbitrary ================= *)
(* conservation, per-flow order and drained-at-quiescence for every switch whose branches satisfy them, for all port counts, all
   decision functions (tables, default output, end devices) and all admissible executions *)
Theorem C08_route_switch_laws : forall (route : Z -> output) (t0 : Q) (nouts : nat) (Es : list elem),
  (Forall laws Es -> laws (switch route t0 nouts Es)) /\
  (Forall timed Es -> timed (switch route t0 nouts Es)) /\
  (Forall tagged Es -> tagged (switch route t0 nouts Es)).
Proof. exact (fun route t0 nouts Es => conj (switch_laws route t0 nouts Es) (conj (switch_timed route t0 nouts Es) (switch_tagged route t0 nouts Es))). Qed.
Print Assumptions C08_route_switch_laws.

(* put into the switch = delivered at its outputs ++ discarded (no route; the branches' own counted drops) ++ held in the branches *)
Theorem C08_route_switch_conserves : forall (route : Z -> output) (t0 : Q) (nouts : nat) (Es : list elem),
  Forall laws Es -> forall acts s tr,
  run (switch route t0 nouts Es) (init (switch route t0 nouts Es)) acts = Some (s, tr) ->
  Permutation (puts tr) (fwds tr ++ drops tr ++ held (bank t0 (bidx nouts route) Es) (snd s)).
Proof. exact switch_conserves. Qed.
Print Assumptions C08_route_switch_conserves.

(* PROJECTION onto any one branch: inside ANY execution of the switch the device in slot i runs as it would alone; it was given
   exactly the packets the demux rule routes to slot i, in order (never a packet of another slot: nothing is duplicated or
   misdelivered by the demux); what it delivers is delivered by the switch; what it discards is discarded by the switch *)
Theorem C08_route_switch_branch : forall (route : Z -> output) (t0 : Q) (nouts : nat) (Es : list elem) acts s tr,
  run (switch route t0 nouts Es) (init (switch route t0 nouts Es)) acts = Some (s, tr) ->
  forall i E, nth_error Es i = Some E ->
  exists sE acts_i tr_i, bank_has t0 Es (bidx nouts route) (snd s) i E sE /\ run E (init E) acts_i = Some (sE, tr_i) /\
    puts tr_i = filter (fun p => routed route p && Nat.eqb (bidx nouts route p) i) (puts tr) /\
    sublist (fwds tr_i) (fwds tr) /\ (forall p, In p (drops tr_i) -> In p (drops tr)).
Proof. exact switch_branch_exists. Qed.
Print Assumptions C08_route_switch_branch.

(* a packet the demux has no route for (no output, no default, no end device) is discarded -- the documented no-route rule *)
Theorem C08_route_unrouted_discarded : forall (route : Z -> output) (t0 : Q) (nouts : nat) (Es : list elem) acts s tr,
  run (switch route t0 nouts Es) (init (switch route t0 nouts Es)) acts = Some (s, tr) ->
  forall p, In p (puts tr) -> routed route p = false -> In p (drops tr).
Proof. exact switch_unrouted_dropped. Qed.
Print Assumptions C08_route_unrouted_discarded.

(* ================= SimplePacketSwitch ================= *)
Theorem C08_route_sswitch_laws : forall (n : nat) (rate : Q) (buf : option Z) (eid : nat -> ekey) (t0 : Q),
  laws (sswitch_elem n rate buf eid t0) /\ timed (sswitch_elem n rate buf eid t0) /\ tagged (sswitch_elem n rate buf eid t0).
Proof. exact sswitch_laws. Qed.
Print Assumptions C08_route_sswitch_laws.

(* every port of the switch, for every number of ports and every admissible execution: it runs as a Port alone would (all of
   Props/C09.v and C08_Port.v apply to it), it was given exactly the packets of flow i, in order; its counted drops
   (packets_dropped) are exactly its refusals; puts = forwarded ++ refused ++ held; what it forwards is delivered by the switch;
   packets of a flow without a port are discarded by the demux *)
Theorem C08_route_sswitch_ports : forall (n : nat) (rate : Q) (buf : option Z) (eid : nat -> ekey) (t0 : Q) acts s tr,
  run (sswitch_elem n rate buf eid t0) (init (sswitch_elem n rate buf eid t0)) acts = Some (s, tr) ->
  (forall i, (i < n)%nat ->
     exists (sP : port) pacts ptr,
       bank_has t0 (map (sswitch_port rate buf eid t0) (List.seq 0 n)) (bidx n (simple_switch true n)) (snd s) i (sswitch_port rate buf eid t0 i) sP /\
       port_run (port_cfg all_fixed rate buf false (eid i)) (port0 t0) pacts = Some (sP, ptr) /\
       PortProofs.puts ptr = filter (fun p => Z.eqb (flow p) (Z.of_nat i)) (Iface.puts tr) /\
       sublist (forwarded ptr) (fwds tr) /\ (forall p, In p (dropped ptr) -> In p (drops tr)) /\
       pdrop sP = Z.of_nat (length (dropped ptr)) /\
       Permutation (PortProofs.puts ptr) (forwarded ptr ++ dropped ptr ++ port_held sP)) /\
  (forall p, In p (Iface.puts tr) -> ~ (0 <= flow p < Z.of_nat n)%Z -> In p (drops tr)).
Proof. exact sswitch_port_view. Qed.
Print Assumptions C08_route_sswitch_ports.

(* ================= FairPacketSwitch ================= *)
Theorem C08_route_fswitch_laws : forall (c : fair_cfg) (buf : option Z) (eid : nat -> ekey) (sched : elem) (ends : list elem) (t0 : Q),
  (laws sched -> Forall laws ends -> laws (fswitch_elem c buf eid sched ends t0)) /\
  (timed sched -> Forall timed ends -> timed (fswitch_elem c buf eid sched ends t0)) /\
  (tagged sched -> Forall tagged ends -> tagged (fswitch_elem c buf eid sched ends t0)).
Proof. exact fswitch_laws. Qed.
Print Assumptions C08_route_fswitch_laws.

(* with each of the four servers the class offers, each with the switch's own flow2class (ANY function: several flows per class) *)
Theorem C08_route_fswitch_servers : forall (c : fair_cfg) (buf : option Z) (eid : nat -> ekey) (t0 : Q),
  (forall r fl tbl, 0 < r -> (forall k p, In (k, p) tbl -> (0 < p)%Z) -> laws (fswitch_elem c buf eid (fs_sp c r fl tbl) [] t0)) /\
  (forall r ws, wcfg_ok {| wrate := r; wweights := ws; wf2c := fs_class c; wfix_first := true |} ->
                laws (fswitch_elem c buf eid (fs_wfq c r ws) [] t0)) /\
  (forall r vt, vcfg_ok {| vrate := r; vticks := vt; vf2c := fs_class c |} -> laws (fswitch_elem c buf eid (fs_vc c r vt) [] t0)) /\
  (forall r ws, dwf {| drate := r; dweights := ws; df2c := fs_class c |} -> laws (fswitch_elem c buf eid (fs_drr c r ws t0) [] t0)).
Proof. exact fswitch_servers_laws. Qed.
Print Assumptions C08_route_fswitch_servers.

(* every branch of the switch, inside ANY execution: the egress port and the scheduler run as they would alone; the egress port was
   given exactly the packets the FIB rule sends to output i (C18_fair_switch_rule), its counted drops are its refusals, the
   scheduler was given exactly what the egress port forwarded, and what the scheduler forwards is delivered by the switch *)
Theorem C08_route_fswitch_branches : forall (c : fair_cfg) (buf : option Z) (eid : nat -> ekey) (sched : elem) (ends : list elem) (t0 : Q) acts s tr,
  run (fswitch_elem c buf eid sched ends t0) (init (fswitch_elem c buf eid sched ends t0)) acts = Some (s, tr) ->
  forall i, (i < fs_nports c)%nat ->
  exists (sP : port) (sS : st sched) pacts ptr sacts str,
    port_run (port_cfg all_fixed 0 buf false (eid i)) (port0 t0) pacts = Some (sP, ptr) /\
    run sched (init sched) sacts = Some (sS, str) /\
    PortProofs.puts ptr = filter (fun p => output_eqb (fair_switch true true c (flow p)) (OOut i)) (Iface.puts tr) /\
    Iface.puts str = forwarded ptr /\ sublist (fwds str) (fwds tr) /\
    pdrop sP = Z.of_nat (length (dropped ptr)) /\ (forall p, In p (dropped ptr) -> In p (drops tr)).
Proof. exact fswitch_branch_view. Qed.
Print Assumptions C08_route_fswitch_branches.

(* ================= RandomDemux: the route comes from an oracle ================= *)
(* random.choices with one draw u, transcribed (cumulative weights, draw scaled by the total, bisect clamped to n - 1) and compared
   with CPython's on every run: the index is in range for EVERY weight list and draw (put() cannot raise IndexError, whatever the
   weights sum to), and with non-negative weights, a positive total and 0 <= u < 1 the chosen output has a positive weight *)
Theorem C08_route_choices_index : forall (ws : list Q) (u : Q),
  (ws <> [] -> (choices_index ws u < length ws)%nat) /\
  (Forall (fun w => 0 <= w) ws -> 0 < qsum ws -> 0 <= u -> u < 1 -> 0 < nth (choices_index ws u) ws 0).
Proof. exact (fun ws u => conj (choices_index_lt ws u) (choices_index_weight ws u)). Qed.
Print Assumptions C08_route_choices_index.

(* the demux with its choices given by an oracle c (any function of the packet; for pairwise distinct packets every tape of choices
   is one: C08_route_tape_choice): conservation, drained at quiescence, clock and stage numbering, for EVERY oracle *)
Theorem C08_route_rdemux_laws : forall (c : pkt -> nat) (t0 : Q) (Es : list elem),
  (Forall conserves Es -> conserves (rdemux_elem c t0 Es)) /\
  (Forall conserves Es -> Forall drained Es -> drained (rdemux_elem c t0 Es)) /\
  (Forall timed Es -> timed (rdemux_elem c t0 Es)) /\ (Forall tagged Es -> tagged (rdemux_elem c t0 Es)).
Proof. exact (fun c t0 Es => conj (rdemux_conserves c t0 Es) (conj (rdemux_drained c t0 Es) (conj (rdemux_timed c t0 Es) (rdemux_tagged c t0 Es)))). Qed.
Print Assumptions C08_route_rdemux_laws.

(* EXACTLY ONE OUTPUT, for every oracle and every admissible execution: the device behind output i runs as it would alone and was
   given exactly the packets the oracle sent to i, each once, in the order in which they were put in; what it delivers is
   delivered by the demux element; per-flow order holds per output whenever the device behind it keeps it *)
Theorem C08_route_rdemux_output : forall (c : pkt -> nat) (t0 : Q) (Es : list elem) acts s tr,
  run (rdemux_elem c t0 Es) (init (rdemux_elem c t0 Es)) acts = Some (s, tr) ->
  forall i E, nth_error Es i = Some E ->
  exists sE acts_i tr_i, bank_has t0 Es c (snd s) i E sE /\ run E (init E) acts_i = Some (sE, tr_i) /\
    puts tr_i = filter (fun p => Nat.eqb (c p) i) (puts tr) /\ sublist (fwds tr_i) (fwds tr) /\
    (forall f, flow_fifo E f ->
       sublist (filter (on_flow f) (fwds tr_i)) (filter (on_flow f) (filter (fun p => Nat.eqb (c p) i) (puts tr)))).
Proof. exact rdemux_output. Qed.
Print Assumptions C08_route_rdemux_output.

Theorem C08_route_tape_choice : forall (ps : list pkt) (tape : list nat),
  NoDup (map uid ps) -> length tape = length ps -> map (tape_fun ps tape) ps = tape.
Proof. exact tape_choice. Qed.
Print Assumptions C08_route_tape_choice.

(* ================= replicating elements: NSplitter and Hub ================= *)
(* A splitter legitimately duplicates; its conservation law is per output.  Two elements side by side, a packet put into BOTH
   (when wa / wb say so): each side of ANY execution is an admissible execution of that element alone, given exactly its packets *)
Theorem C08_route_fork_projection : forall (wa wb : pkt -> bool) (A B : elem) acts sA sB sA' sB' tr,
  run (fork wa wb A B) (sA, sB) acts = Some ((sA', sB'), tr) ->
  exists trA trB,
    run A sA (factsA wa wb A B acts) = Some (sA', trA) /\ run B sB (factsB wa wb A B acts) = Some (sB', trB) /\
    puts trA = filter wa (puts tr) /\ puts trB = filter wb (puts tr) /\
    interleave (fwds trA) (fwds trB) (fwds tr) /\ interleave (drops trA) (drops trB) (drops tr).
Proof. exact fork_projection. Qed.
Print Assumptions C08_route_fork_projection.

(* NSplitter over any number of outputs: EVERY output receives EVERY packet exactly once, in the order in which they were put in
   (the device behind it runs as it would alone); and each of them is forwarded by that device, discarded by its own rule, or held *)
Theorem C08_route_nsplitter_each_output : forall (t0 : Q) (Es : list elem) acts s tr,
  run (nsplitter_elem t0 Es) (init (nsplitter_elem t0 Es)) acts = Some (s, tr) ->
  forall i E, nth_error Es i = Some E -> conserves E ->
  exists sE acts_i tr_i, mcast_has t0 Es (fun _ _ => true) s i E sE /\ run E (init E) acts_i = Some (sE, tr_i) /\
    puts tr_i = puts tr /\ Permutation (puts tr) (fwds tr_i ++ drops tr_i ++ held E sE) /\ sublist (fwds tr_i) (fwds tr).
Proof. exact nsplitter_each_output. Qed.
Print Assumptions C08_route_nsplitter_each_output.

(* Hub: every endpoint receives exactly the packets that did not come from it (C18_hub_repeats' rule), each once, in order *)
Theorem C08_route_hub_each_output : forall (t0 : Q) (hs : hub_state) (src : pkt -> Z) (Es : list elem) acts s tr,
  run (hub_elem t0 hs src Es) (init (hub_elem t0 hs src Es)) acts = Some (s, tr) ->
  forall i E, nth_error Es i = Some E -> conserves E ->
  exists sE acts_i tr_i, mcast_has t0 Es (hub_want hs src) s i E sE /\ run E (init E) acts_i = Some (sE, tr_i) /\
    puts tr_i = filter (hub_want hs src i) (puts tr) /\
    (forall p, hub_want hs src i p = true <-> exists e, nth_error hs i = Some e /\ ep_id e <> src p) /\
    Permutation (filter (hub_want hs src i) (puts tr)) (fwds tr_i ++ drops tr_i ++ held E sE) /\ sublist (fwds tr_i) (fwds tr).
Proof. exact hub_each_output. Qed.
Print Assumptions C08_route_hub_each_output.

(* ================= non-vacuity: executions observed on the real classes, replayed ================= *)
(* SimplePacketSwitch(2 ports, 1024 bit/s, buffer 2), packets of flows 0, 0, 1, 2 at t = 0: one refused by port 0 and counted,
   one without a port, two delivered at t = 1 *)
Theorem C08_ex_sswitch_run :
  exists s tr, run ssw_E (init ssw_E) ssw_acts = Some (s, tr) /\
    uids_of (puts tr) = [0; 1; 2; 3]%nat /\ uids_of (fwds tr) = [0; 2]%nat /\ uids_of (drops tr) = [1; 3]%nat /\
    uids_of (hands 0 tr) = [0; 1; 2]%nat /\
    map (fun x => (fst x, uid (snd x))) (tfwds tr) = [(1, 0%nat); (1, 2%nat)] /\
    pdrop (fst (snd s)) = 1%Z /\ pdrop (fst (snd (snd s))) = 0%Z /\
    held ssw_E s = [] /\ urgent ssw_E s = false /\ deadline ssw_E s = None.
Proof. exact ssw_run. Qed.
Print Assumptions C08_ex_sswitch_run.

(* FairPacketSwitch(2 ports, SP, buffer 2; flows 0,2 -> class 10, flows 1,3 -> class 11; fib 0 -> 0, 1 -> 1, 2 -> 0), five packets:
   one refused by egress port 0 and counted, one of an unknown flow, three served by the ports' schedulers *)
Theorem C08_ex_fswitch_run :
  exists s tr, run fsw_E (init fsw_E) fsw_acts = Some (s, tr) /\
    uids_of (puts tr) = [0; 1; 2; 3; 4]%nat /\ uids_of (fwds tr) = [0; 2; 4]%nat /\ uids_of (drops tr) = [1; 3]%nat /\
    uids_of (hands 0 tr) = [0; 1; 2; 4]%nat /\ uids_of (hands 1 tr) = [0; 4]%nat /\ uids_of (hands 3 tr) = [2]%nat /\
    map (fun x => (fst x, uid (snd x))) (tfwds tr) = [(1, 0%nat); (1, 2%nat); (2, 4%nat)] /\
    pdrop (fst (fst (snd s))) = 1%Z /\
    held fsw_E s = [] /\ urgent fsw_E s = false /\ deadline fsw_E s = None.
Proof. exact fsw_run. Qed.
Print Assumptions C08_ex_fswitch_run.

(* NSplitter(2) in front of Port(1024 bit/s, limit 2) and Port(rate 0): both are given all three packets *)
Theorem C08_ex_nsplitter_run :
  exists s tr, run nsp_E (init nsp_E) nsp_acts = Some (s, tr) /\
    cuids (puts tr) = [0; 1; 2]%nat /\ cuids (fwds tr) = [0; 1; 2; 0]%nat /\ cuids (drops tr) = [1; 2]%nat /\
    precv (fst s) = 3%Z /\ pdrop (fst s) = 2%Z /\ precv (fst (snd s)) = 3%Z /\ pdrop (fst (snd s)) = 0%Z /\
    held nsp_E s = [] /\ urgent nsp_E s = false /\ deadline nsp_E s = None.
Proof. exact nsp_run. Qed.
Print Assumptions C08_ex_nsplitter_run.

(* Hub with three endpoints behind ports; packets from endpoints 0, 1, from outside, from 1: nobody gets its own packet *)
Theorem C08_ex_hub_run :
  exists s tr, run hub_E (init hub_E) hub_acts = Some (s, tr) /\
    cuids (puts tr) = [0; 1; 2; 3]%nat /\ cuids (fwds tr) = [0; 1; 1; 2; 2; 3; 3; 0]%nat /\ cuids (drops tr) = [2]%nat /\
    precv (fst s) = 3%Z /\ precv (fst (snd s)) = 2%Z /\ pdrop (fst (snd s)) = 1%Z /\ precv (fst (snd (snd s))) = 4%Z /\
    held hub_E s = [] /\ urgent hub_E s = false /\ deadline hub_E s = None.
Proof. exact hub_run. Qed.
Print Assumptions C08_ex_hub_run.

(* RandomDemux with relative weights [1/4, 1/4] (sum < 1) and scripted draws, probs reassigned before the fourth packet *)
Theorem C08_ex_randdemux_run :
  map (choices_index [1 # 4; 1 # 4]) [7 # 8; 1 # 8; 1 # 2] = [1; 0; 1]%nat /\ choices_index [0; 1] (3 # 8) = 1%nat /\
  exists s tr, run rdx_E (init rdx_E) rdx_acts = Some (s, tr) /\
    ruids (puts tr) = [0; 1; 2; 3]%nat /\ ruids (fwds tr) = [0; 2; 3; 1]%nat /\ ruids (drops tr) = [] /\
    ruids (hands 0 tr) = [0; 1; 2; 3]%nat /\ precv (fst (snd s)) = 1%Z /\ precv (fst (snd (snd s))) = 3%Z /\
    held rdx_E s = [] /\ urgent rdx_E s = false /\ deadline rdx_E s = None.
Proof. exact rdx_run. Qed.
Print Assumptions C08_ex_randdemux_run.
