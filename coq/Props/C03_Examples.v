(* C03 -- NON-VACUITY of the theorems of Props/C03.v: for every theorem that has hypotheses, a concrete non-trivial state /
   execution / plan on which ALL its hypotheses hold together, with the concrete content of its conclusion there.

   The instance (Kernel/Stop.v, Kernel/StopWitness.v; it is corpus/C03/until-event-loses-late-waiter.json):
     wit_codes     two processes.  Process 0: timeout 2, then G0.succeed(5).  Process 1: timeout 1, then yield G0 (a LATE waiter: it
                   registers on G0 at t = 1), log the value, timeout 1, log 99.
     wit_s0        the state after the module-level code  G0 = env.event(); probe(G0); spawn 0; spawn 1   (5 events, 2 agenda entries)
     wit_s0_idle   the same with one more event G3 (id 5) that nobody triggers
     wit_plan_all  [run(until=1); run(until=2); step(); run(until=G0); run(until=5/2); run()] -- every kind of stop point; 1 is the
                   instant process 1 resumes, 2 the instant the timeout of process 0 is due (NOT processed by run(until=2)), G0 is
                   processed at 2 with three callbacks (probe, stop, late waiter), 5/2 lies between two occurrences
     wit_plan_ev   [run(until=G0); step(); step(); run()]
     wit_logs      the nine user-visible records of the uninterrupted run()

   Coverage (theorem of Props/C03.v -> witness below):
     C03_run_deterministic, C03_run_split_deterministic           C03_ex_deterministic (their hypotheses only name the result)
     C03_calm_module_code, C03_calm_step, C03_calm_run            C03_ex_calm
     C03_calm_run_split                                           C03_ex_calm_run_split
     C03_run_until_number_past                                    C03_ex_run_until_number_past
     C03_run_until_number_spec                                    C03_ex_run_until_number_spec
     C03_run_until_event_processed                                C03_ex_run_until_event_processed
     C03_run_until_event_spec, C03_until_event_loop_invariant     C03_ex_run_until_event_spec  (RStop branch)
                                                                  C03_ex_run_until_event_exhausted  (RRaise branch of the spec)
     C03_run_until_event_exhausted                                C03_ex_run_until_event_exhausted
     C03_stop_after_all_callbacks                                 C03_ex_stop_after_all_callbacks
     C03_split_transparent_partial, C03_step_erase                C03_ex_split_transparent_partial
     C03_split_transparent_events_steps, .._events_steps_run      C03_ex_split_transparent_events_steps
     C03_split_transparent, C03_split_transparent_run,
       C03_scripts_parametric, C03_selfsim_module_code            C03_ex_split_transparent
     C03_ghost_transparent                                        C03_ex_ghost_transparent
   Unconditional (only typing binders): C03_calm_init, C03_run_is_free_run, C03_selfsim_init.
   Already a witness (exists ...): C03_split_refuted_before_fix.

   Proofs are by computation on the closed terms, and by applying the lemma that closes the covered theorem (the name after
   [exact] in Props/C03.v) to the witness for the parts that are not computable. *)
From Coq Require Import ZArith QArith List Lia.
From ONL Require Import Kernel.Model Kernel.Script Kernel.Keys Kernel.Inv Kernel.Order Kernel.Deliver Kernel.DeliverWf
  Kernel.DeliverVal Kernel.StopFrame Kernel.StopInv Kernel.Stop Kernel.StopSpec Kernel.StopErase Kernel.StopSplit Kernel.StopRen Kernel.StopSim
  Kernel.StopSimCalls Kernel.StopSimStep Kernel.StopGhost Kernel.StopScript Kernel.StopExamples Kernel.StopWitness.
Import ListNotations.

(* ---- C03_run_deterministic, C03_run_split_deterministic: hypotheses [run .. = x], [run .. = y] ------------------------------- *)
Theorem C03_ex_deterministic :
  let x := run 100 wit_codes (UNum 2) wit_s0 in
  let y := run_split 100 wit_codes wit_plan_all wit_s0 in
  run 100 wit_codes (UNum 2) wit_s0 = x /\ run_split 100 wit_codes wit_plan_all wit_s0 = y /\
  snd x = RStop VNone /\ snd y = [RStop VNone; RStop VNone; ROk; RStop (VInt 5); RStop VNone; ROk].
Proof. cbn zeta. split; [reflexivity|]. split; [reflexivity|]. split; vm_compute; reflexivity. Qed.
Print Assumptions C03_ex_deterministic.

(* ---- C03_calm_module_code (calm (init_state 0), f := the module-level code), C03_calm_step, C03_calm_run (calm wit_s0) ------- *)
Theorem C03_ex_calm :
  calm (init_state 0) /\ wit_s0 = fst (exec_top wit_codes (Script.exec wit_setup []) (init_state 0)) /\
  calm wit_s0 /\ length (agenda wit_s0) = 2%nat /\ length (events wit_s0) = 5%nat /\
  calm (fst (step 100 wit_codes wit_s0)) /\ snd (step 100 wit_codes wit_s0) = ROk /\
  calm (fst (run 100 wit_codes UNone wit_s0)) /\ snd (run 100 wit_codes UNone wit_s0) = ROk /\
  logs (fst (run 100 wit_codes UNone wit_s0)) = wit_logs.
Proof.
  assert (C0 : calm (init_state 0)) by apply calm_init.
  assert (C : calm wit_s0) by (unfold wit_s0; apply calm_exec_top, C0).
  split; [exact C0|]. split; [reflexivity|]. split; [exact C|]. split; [vm_compute; reflexivity|]. split; [vm_compute; reflexivity|].
  split; [apply calm_step, C|]. split; [vm_compute; reflexivity|]. split; [apply calm_run_none, C|].
  split; vm_compute; reflexivity.
Qed.
Print Assumptions C03_ex_calm.

(* ---- C03_calm_run_split: calm s /\ plan_returned fuel codes plan s ------------------------------------------------------------ *)
Theorem C03_ex_calm_run_split :
  calm wit_s0 /\ plan_returned 100 wit_codes wit_plan_all wit_s0 /\
  snd (run_split 100 wit_codes wit_plan_all wit_s0) = [RStop VNone; RStop VNone; ROk; RStop (VInt 5); RStop VNone; ROk] /\
  calm (fst (run_split 100 wit_codes wit_plan_all wit_s0)) /\ agenda (fst (run_split 100 wit_codes wit_plan_all wit_s0)) = [].
Proof.
  assert (P : plan_returned 100 wit_codes wit_plan_all wit_s0).
  { unfold wit_plan_all. cbn [plan_returned returned]. repeat split; right; eexists; vm_compute; reflexivity. }
  split; [exact ex_calm|]. split; [exact P|]. split; [vm_compute; reflexivity|].
  split; [apply calm_run_split; [exact ex_calm|exact P]|vm_compute; reflexivity].
Qed.
Print Assumptions C03_ex_calm_run_split.

(* ---- C03_run_until_number_past: hz <= now s, in a state whose clock has moved (s1 = after run(until=1)); hz = now s1 ------------ *)
Theorem C03_ex_run_until_number_past :
  let s1 := fst (run 100 wit_codes (UNum 1) wit_s0) in
  now s1 == 1 /\ 1 <= now s1 /\ agenda s1 <> [] /\
  run 100 wit_codes (UNum 1) s1 = (s1, RRaise (kexn EValue M_until_past)).
Proof.
  cbn zeta. split; [vm_compute; reflexivity|].
  assert (L : 1 <= now (fst (run 100 wit_codes (UNum 1) wit_s0))) by (vm_compute; discriminate).
  split; [exact L|]. split; [vm_compute; discriminate|]. apply run_num_past, L.
Qed.
Print Assumptions C03_ex_run_until_number_past.

(* ---- C03_run_until_number_spec: calm s /\ now s < hz /\ run .. (UNum hz) s = (s', r); the horizon 2 coincides with a due
   occurrence (the timeout of process 0, event 6), which stays on the agenda ------------------------------------------------------- *)
Theorem C03_ex_run_until_number_spec :
  exists s', calm wit_s0 /\ now wit_s0 < 2 /\ run 100 wit_codes (UNum 2) wit_s0 = (s', RStop VNone) /\
    now s' == 2 /\ map (fun y => (e_time y, e_prio y, e_ev y)) (agenda s') = [(2, NORMAL, 6%nat)] /\ calm s' /\
    e_ev (num_entry 2 wit_s0) = 5%nat /\
    (exists l l0, exec wit_codes (num_start 2 wit_s0) l s' /\ l = l0 ++ [Some (num_entry 2 wit_s0)]) /\
    logs s' = firstn 3 wit_logs.
Proof.
  destruct (run 100 wit_codes (UNum 2) wit_s0) as [s' r] eqn:R.
  assert (Er : r = RStop VNone) by (change r with (snd (s', r)); rewrite <- R; vm_compute; reflexivity). subst r.
  assert (Es : s' = fst (run 100 wit_codes (UNum 2) wit_s0)) by (rewrite R; reflexivity).
  assert (Lt : now wit_s0 < 2) by reflexivity.
  destruct (run_until_number_spec _ _ _ _ _ _ ex_calm Lt R) as (_ & _ & _ & _ & _ & l & Ex & _ & _ & _ & _ & (l0 & El & _) & _ & Cm).
  exists s'. split; [exact ex_calm|]. split; [exact Lt|]. split; [reflexivity|].
  split; [rewrite Es; vm_compute; reflexivity|]. split; [rewrite Es; vm_compute; reflexivity|]. split; [exact Cm|].
  split; [vm_compute; reflexivity|]. split; [|rewrite Es; vm_compute; reflexivity].
  exists l, l0. split; [exact Ex|exact El].
Qed.
Print Assumptions C03_ex_run_until_number_spec.

(* ---- C03_run_until_event_processed: get_event e s = Some ev /\ cbs ev = None (s1 = after run(until=G0); process 1 still runs) - *)
Theorem C03_ex_run_until_event_processed :
  let s1 := fst (run 100 wit_codes (UEv 0%nat) wit_s0) in
  exists ev, get_event 0%nat s1 = Some ev /\ cbs ev = None /\ raw_value ev = Some (VInt 5) /\ agenda s1 <> [] /\
    run 100 wit_codes (UEv 0%nat) s1 = (s1, RStop (VInt 5)).
Proof.
  cbn zeta. eexists. split; [vm_compute; reflexivity|]. split; [reflexivity|]. split; [reflexivity|].
  split; [vm_compute; discriminate|]. vm_compute. reflexivity.
Qed.
Print Assumptions C03_ex_run_until_event_processed.

(* ---- C03_run_until_event_spec, C03_until_event_loop_invariant: calm s /\ get_event e s = Some ev /\ cbs ev = Some l0
   /\ run .. (UEv e) s = (s', r).  G0 is pending with one callback (the probe); the call returns 5 at t = 2 after the late waiter
   (process 1, registered at t = 1 behind the stop callback) has been resumed: its two records are in the trace ------------------- *)
Theorem C03_ex_run_until_event_spec :
  exists ev s', calm wit_s0 /\ get_event 0%nat wit_s0 = Some ev /\ cbs ev = Some [CbProbe 1] /\
    run 100 wit_codes (UEv 0%nat) wit_s0 = (s', RStop (VInt 5)) /\
    je 0%nat (add_callback 0%nat CbStop wit_s0) /\
    now s' == 2 /\ calm s' /\ logs s' = firstn 7 wit_logs.
Proof.
  destruct (run 100 wit_codes (UEv 0%nat) wit_s0) as [s' r] eqn:R.
  assert (Er : r = RStop (VInt 5)) by (change r with (snd (s', r)); rewrite <- R; vm_compute; reflexivity). subst r.
  assert (Es : s' = fst (run 100 wit_codes (UEv 0%nat) wit_s0)) by (rewrite R; reflexivity).
  assert (H : exists ev, get_event 0%nat wit_s0 = Some ev /\ cbs ev = Some [CbProbe 1])
    by (eexists; split; [vm_compute; reflexivity|reflexivity]).
  destruct H as (ev & H & C).
  destruct (run_until_event_spec _ _ _ _ _ _ _ _ ex_calm H C R) as (_ & l1 & _ & Rr).
  destruct Rr as (? & ? & ? & ? & _ & _ & _ & _ & _ & _ & _ & _ & _ & Cm).
  exists ev, s'. split; [exact ex_calm|]. split; [exact H|]. split; [exact C|]. split; [reflexivity|].
  split; [exact (je_start _ _ _ _ ex_calm H C)|]. split; [rewrite Es; vm_compute; reflexivity|]. split; [exact Cm|].
  rewrite Es. vm_compute. reflexivity.
Qed.
Print Assumptions C03_ex_run_until_event_spec.

(* ---- C03_run_until_event_exhausted: je e s /\ ok_steps fuel codes s sk /\ agenda sk = [] (and the RRaise branch of
   C03_run_until_event_spec).  The until-event G3 is never triggered; both processes run to their end (eight steps, the whole trace
   of run()), then the agenda is empty: RuntimeError ---------------------------------------------------------------------------- *)
Theorem C03_ex_run_until_event_exhausted :
  let s := add_callback 5%nat CbStop wit_s0_idle in
  let sk := fst (nsteps 8 100 wit_codes s) in
  exists ev, calm wit_s0_idle /\ get_event 5%nat wit_s0_idle = Some ev /\ cbs ev = Some [] /\
    je 5%nat s /\ ok_steps 100 wit_codes s sk /\ agenda sk = [] /\
    run 100 wit_codes (UEv 5%nat) wit_s0_idle = (sk, RRaise (kexn ERuntime M_until_not_triggered)) /\
    (exists ev', get_event 5%nat sk = Some ev' /\ out ev' = None) /\ logs sk = wit_logs.
Proof.
  cbn zeta.
  assert (Cm : calm wit_s0_idle) by (unfold wit_s0_idle; apply calm_exec_top, calm_init).
  assert (H : exists ev, get_event 5%nat wit_s0_idle = Some ev /\ cbs ev = Some [])
    by (eexists; split; [vm_compute; reflexivity|reflexivity]).
  destruct H as (ev & H & C). exists ev.
  split; [exact Cm|]. split; [exact H|]. split; [exact C|]. split; [exact (je_start _ _ _ _ Cm H C)|].
  split; [apply (nsteps_ok_steps 100 wit_codes 8); vm_compute; reflexivity|]. split; [vm_compute; reflexivity|].
  split; [vm_compute; reflexivity|]. split; [eexists; split; [vm_compute; reflexivity|reflexivity]|vm_compute; reflexivity].
Qed.
Print Assumptions C03_ex_run_until_event_exhausted.

(* ---- C03_stop_after_all_callbacks: step .. s = (s', RStop v) /\ pop_min (agenda s) = Some (m, rest) /\
   get_event (e_ev m) s = Some ev /\ cbs ev = Some l.  s = the state of run(until=G0) in which G0 is about to be processed: three
   callbacks, the stop callback in the MIDDLE, the late waiter behind it ---------------------------------------------------------- *)
Theorem C03_ex_stop_after_all_callbacks :
  let sk := free_run 4 100 wit_codes (add_callback 0%nat CbStop wit_s0) in
  exists s' m rest ev, step 100 wit_codes sk = (s', RStop (VInt 5)) /\ pop_min (agenda sk) = Some (m, rest) /\ e_ev m = 0%nat /\
    get_event (e_ev m) sk = Some ev /\ cbs ev = Some [CbProbe 1; CbStop; CbResume 1%nat] /\
    cb_chain 100 wit_codes (e_ev m) [CbProbe 1; CbStop; CbResume 1%nat] (loop_start m rest sk) s'.
Proof.
  cbn zeta. set (sk := free_run 4 100 wit_codes (add_callback 0%nat CbStop wit_s0)).
  destruct (step 100 wit_codes sk) as [s' r] eqn:St.
  assert (Er : r = RStop (VInt 5)) by (change r with (snd (s', r)); rewrite <- St; vm_compute; reflexivity). subst r.
  destruct (pop_min (agenda sk)) as [[m rest]|] eqn:P; [|exfalso; revert P; vm_compute; discriminate].
  assert (Em : e_ev m = 0%nat).
  { assert (X : option_map (fun x => e_ev (fst x)) (pop_min (agenda sk)) = Some 0%nat) by (vm_compute; reflexivity).
    rewrite P in X. cbn in X. injection X as X. exact X. }
  assert (H : exists ev, get_event 0%nat sk = Some ev /\ cbs ev = Some [CbProbe 1; CbStop; CbResume 1%nat])
    by (eexists; split; [vm_compute; reflexivity|reflexivity]).
  destruct H as (ev & H & C).
  exists s', m, rest, ev. split; [reflexivity|]. split; [reflexivity|]. split; [exact Em|]. rewrite Em.
  split; [exact H|]. split; [exact C|].
  pose proof (step_stop_chain 100 wit_codes sk s' m rest ev [CbProbe 1; CbStop; CbResume 1%nat] (VInt 5) St P) as X. rewrite Em in X. exact (X H C).
Qed.
Print Assumptions C03_ex_stop_after_all_callbacks.

(* ---- C03_split_transparent_partial (uinv s), C03_step_erase (uinv s).  Partial transparency at wit_s0 with the plan of all kinds
   of stop points: the numbers of steps are 3, 2, 1, 1, 2, 2 (three of the eleven pop an inert sentinel).  Erasure commutes with
   the step of run(until=G0) that answers "stop": without the stop callback the same step answers ROk -------------------------- *)
Theorem C03_ex_split_transparent_partial :
  let sk := free_run 4 100 wit_codes (add_callback 0%nat CbStop wit_s0) in
  uinv wit_s0 /\
  erase (fst (run_split 100 wit_codes wit_plan_all wit_s0)) =
    ghost_run 100 wit_codes (combine wit_plan_all [3; 2; 1; 1; 2; 2]%nat) (erase wit_s0) /\
  uinv sk /\ erase sk <> sk /\ snd (step 100 wit_codes sk) = RStop (VInt 5) /\ snd (step 100 wit_codes (erase sk)) = ROk /\
  fst (step 100 wit_codes (erase sk)) = erase (fst (step 100 wit_codes sk)).
Proof.
  cbn zeta. pose proof ex_calm as (_ & U & _).
  assert (Uk : uinv (free_run 4 100 wit_codes (add_callback 0%nat CbStop wit_s0)))
    by (apply uinv_free_run, uinv_add_callback, U).
  split; [exact U|]. split; [vm_compute; reflexivity|]. split; [exact Uk|]. split; [vm_compute; discriminate|].
  split; [vm_compute; reflexivity|]. split; [vm_compute; reflexivity|]. apply step_erase, Uk.
Qed.
Print Assumptions C03_ex_split_transparent_partial.

(* ---- C03_split_transparent_events_steps (uinv s /\ no_horizon plan), C03_split_transparent_events_steps_run (.. /\ no_stop s /\
   run .. UNone s = (U, ROk) /\ agenda (split run) = []): stop at G0, two single steps, run to the end ------------------------------ *)
Theorem C03_ex_split_transparent_events_steps :
  exists U, uinv wit_s0 /\ no_stop wit_s0 /\ no_horizon wit_plan_ev /\
    run 100 wit_codes UNone wit_s0 = (U, ROk) /\ agenda (fst (run_split 100 wit_codes wit_plan_ev wit_s0)) = [] /\
    snd (run_split 100 wit_codes wit_plan_ev wit_s0) = [RStop (VInt 5); ROk; ROk; ROk] /\
    erase (fst (run_split 100 wit_codes wit_plan_ev wit_s0)) = free_run 8 100 wit_codes (erase wit_s0) /\
    logs (fst (run_split 100 wit_codes wit_plan_ev wit_s0)) = logs U /\ logs U = wit_logs.
Proof.
  destruct (run 100 wit_codes UNone wit_s0) as [U r] eqn:R.
  assert (Er : r = ROk) by (change r with (snd (U, r)); rewrite <- R; vm_compute; reflexivity). subst r.
  assert (Es : U = fst (run 100 wit_codes UNone wit_s0)) by (rewrite R; reflexivity).
  pose proof ex_calm as (G & Ui & _ & Ns & _).
  assert (Nh : no_horizon wit_plan_ev) by (intros st [<-|[<-|[<-|[<-|[]]]]]; exact I).
  assert (A : agenda (fst (run_split 100 wit_codes wit_plan_ev wit_s0)) = []) by (vm_compute; reflexivity).
  exists U. split; [exact Ui|]. split; [exact Ns|]. split; [exact Nh|]. split; [reflexivity|]. split; [exact A|].
  split; [vm_compute; reflexivity|]. split; [vm_compute; reflexivity|].
  split; [apply (split_transparent_events_steps_run 100 wit_codes wit_plan_ev wit_s0 U Ui Ns Nh R A)|].
  rewrite Es. vm_compute. reflexivity.
Qed.
Print Assumptions C03_ex_split_transparent_events_steps.

(* ---- C03_split_transparent, C03_split_transparent_run (parametric_codes codes /\ selfsim s0 /\ good s0 /\ uinv s0 /\ no_stop s0
   /\ never_broken (hence clean .. K for every K) /\ run .. UNone s0 = (U, ROk) /\ agenda (split run) = []),
   C03_scripts_parametric (forallb nopeek scripts = true), C03_selfsim_module_code (parametric_codes /\ nopeek l = true /\ selfsim s).
   Numeric horizons AT due instants; the split run allocates three sentinels (11 events against 8), so the renaming is not the
   identity on states, and the visible trace is the renamed trace of run() ---------------------------------------------------------- *)
Theorem C03_ex_split_transparent :
  exists U, forallb nopeek [wit_code0; wit_code1] = true /\ parametric_codes wit_codes /\
    nopeek wit_setup = true /\ selfsim (init_state 0) /\ selfsim wit_s0 /\ good wit_s0 /\ uinv wit_s0 /\ no_stop wit_s0 /\
    never_broken 100 wit_codes wit_s0 /\ (forall K, clean 100 wit_codes K wit_s0) /\
    run 100 wit_codes UNone wit_s0 = (U, ROk) /\ agenda (fst (run_split 100 wit_codes wit_plan_all wit_s0)) = [] /\
    length (events (fst (run_split 100 wit_codes wit_plan_all wit_s0))) = 11%nat /\ length (events U) = 8%nat /\
    (exists f, smono f /\ logs (fst (run_split 100 wit_codes wit_plan_all wit_s0)) = map (ren_obs f) (logs U)) /\
    logs (fst (run_split 100 wit_codes wit_plan_all wit_s0)) = wit_logs.
Proof.
  destruct (run 100 wit_codes UNone wit_s0) as [U r] eqn:R.
  assert (Er : r = ROk) by (change r with (snd (U, r)); rewrite <- R; vm_compute; reflexivity). subst r.
  assert (Es : U = fst (run 100 wit_codes UNone wit_s0)) by (rewrite R; reflexivity).
  pose proof ex_calm as (G & Ui & _ & Ns & _).
  assert (A : agenda (fst (run_split 100 wit_codes wit_plan_all wit_s0)) = []) by (vm_compute; reflexivity).
  exists U. split; [vm_compute; reflexivity|]. split; [exact ex_parametric|]. split; [reflexivity|].
  split; [apply selfsim_init|]. split; [exact ex_selfsim|]. split; [exact G|]. split; [exact Ui|]. split; [exact Ns|].
  split; [exact ex_never_broken|]. split; [apply never_broken_clean, ex_never_broken|]. split; [reflexivity|]. split; [exact A|].
  split; [vm_compute; reflexivity|]. split; [rewrite Es; vm_compute; reflexivity|].
  split; [apply (split_transparent_run wit_codes 100 wit_s0 _ U ex_parametric ex_selfsim G Ui Ns ex_never_broken R A)|].
  vm_compute. reflexivity.
Qed.
Print Assumptions C03_ex_split_transparent.

(* ---- C03_ghost_transparent: parametric_codes codes /\ bsim f g a b (and clean .. K a for the K it gives): a = b = wit_s0 with
   the identity renamings, three inert sentinels inserted at the horizons 1, 2, 5/2 ------------------------------------------------ *)
Theorem C03_ex_ghost_transparent :
  let items := combine wit_plan_all [3; 2; 1; 1; 2; 2]%nat in
  parametric_codes wit_codes /\ bsim (fun i => i) (fun i => i) wit_s0 wit_s0 /\ (forall K, clean 100 wit_codes K wit_s0) /\
  length (events (ghost_run 100 wit_codes items wit_s0)) = 11%nat /\
  exists K f' g', bsim f' g' (free_run K 100 wit_codes wit_s0) (ghost_run 100 wit_codes items wit_s0).
Proof.
  cbn zeta. pose proof ex_calm as (G & _).
  assert (B : bsim (fun i => i) (fun i => i) wit_s0 wit_s0) by (split; [exact ex_selfsim|split; exact G]).
  assert (Cl : forall K, clean 100 wit_codes K wit_s0) by (apply never_broken_clean, ex_never_broken).
  split; [exact ex_parametric|]. split; [exact B|]. split; [exact Cl|]. split; [vm_compute; reflexivity|].
  destruct (ghost_transparent wit_codes 100 ex_parametric (combine wit_plan_all [3; 2; 1; 1; 2; 2]%nat) _ _ _ _ B) as (K & HK).
  destruct (HK (Cl K)) as (f' & g' & B'). exists K, f', g'. exact B'.
Qed.
Print Assumptions C03_ex_ghost_transparent.
