(* C12 (DRR part) -- the DRR scheduler is work-conserving, transmits one packet at a time for exactly 8*size/rate,
   keeps per-flow order, transmits every accepted packet exactly once, and its counters are exact.
   Only statements, closed by the lemma that proves them, and their assumptions.  Model: Elem/DRR.v. *)
From Coq Require Import ZArith QArith List Bool.
From ONL Require Import Elem.Packet Elem.StoreQ Elem.DRR Elem.DRRInv Elem.DRRProofs Elem.DRRLive.
Import ListNotations.

(* whenever the clock may move on (nothing of the scheduler is due in the current instant) either a transmission is
   in progress (and ends strictly later) or no packet is held at all: never idle with a backlog *)
Theorem C12_drr_work_conserving : forall (cfg : dcfg) (t0 : Q) (acts : list daction) (d : drr) (tr : list dtev),
  dwf cfg -> drr_run cfg (drr0 t0) acts = Some (d, tr) -> durgent cfg d = false ->
  (exists p dl, dchd d = DCTx p dl /\ dnow d < dl) \/ (forall c, dheld cfg d c = []).
Proof. exact drr_work_conserving_l. Qed.
Print Assumptions C12_drr_work_conserving.

(* while a packet is being transmitted (DCTx p dl) no action starts another transmission, aborts this one or forwards
   anything; the clock never passes dl; the only way out is the timeout at exactly dl, which forwards p *)
Theorem C12_drr_one_at_a_time : forall (cfg : dcfg) (t0 : Q) (acts : list daction) (d : drr) (tr : list dtev)
    (a : daction) (d' : drr) (ev : list dout) (p : pkt) (dl : Q),
  dwf cfg -> drr_run cfg (drr0 t0) acts = Some (d, tr) -> drr_act cfg d a = Some (d', ev) ->
  dchd d = DCTx p dl ->
  dnow d <= dl /\
  ((a = DChildTimer /\ dnow d == dl /\ ev = [DOForward p] /\ dchd d' = DCDone p /\ dnow d' = dnow d)
   \/ (a <> DChildTimer /\ a <> DChildInit /\ dchd d' = DCTx p dl /\ dforwards ev = [] /\ dnow d' <= dl)).
Proof. exact drr_one_at_a_time_l. Qed.
Print Assumptions C12_drr_one_at_a_time.

(* a transmission that starts at instant s ends at s + 8*size/rate (with C12_drr_one_at_a_time: at exactly that instant) *)
Theorem C12_drr_tx_time : forall (cfg : dcfg) (t0 : Q) (acts : list daction) (d : drr) (tr : list dtev) (d' : drr) (ev : list dout),
  dwf cfg -> drr_run cfg (drr0 t0) acts = Some (d, tr) -> drr_act cfg d DChildInit = Some (d', ev) ->
  exists p dl, dchd d = DCStart p /\ dchd d' = DCTx p dl /\ dl == dnow d + inject_Z (8 * psize p) / drate cfg
               /\ dnow d' = dnow d /\ ev = [].
Proof. exact drr_tx_start_l. Qed.
Print Assumptions C12_drr_tx_time.

(* packets of one flow leave in arrival order: put in = forwarded ++ still held, as lists *)
Theorem C12_drr_flow_fifo : forall (cfg : dcfg) (t0 : Q) (acts : list daction) (d : drr) (tr : list dtev),
  dwf cfg -> drr_run cfg (drr0 t0) acts = Some (d, tr) ->
  forall f, dof_flow f (dputs tr) = dof_flow f (dfwds tr) ++ dof_flow f (dheld cfg d (df2c cfg f)).
Proof. exact drr_flow_fifo_l. Qed.
Print Assumptions C12_drr_flow_fifo.

(* once nothing is held every packet put in (also of several flows mapped onto one class) has been transmitted
   exactly once: per flow and per class the forwarded list IS the list put in *)
Theorem C12_drr_exactly_once : forall (cfg : dcfg) (t0 : Q) (acts : list daction) (d : drr) (tr : list dtev),
  dwf cfg -> drr_run cfg (drr0 t0) acts = Some (d, tr) -> (forall c, dheld cfg d c = []) ->
  (forall f, dof_flow f (dfwds tr) = dof_flow f (dputs tr)) /\ (forall c, dof_cls cfg c (dfwds tr) = dof_cls cfg c (dputs tr)).
Proof. exact drr_exactly_once_l. Qed.
Print Assumptions C12_drr_exactly_once.

(* queue_count[f] and queue_byte_size[f] are the packets / bytes of flow f waiting or in transmission;
   total_packets is the number of packets held *)
Theorem C12_drr_counters : forall (cfg : dcfg) (t0 : Q) (acts : list daction) (d : drr) (tr : list dtev),
  dwf cfg -> drr_run cfg (drr0 t0) acts = Some (d, tr) ->
  (forall f, dqcnt d f = Z.of_nat (length (dof_flow f (dall_held cfg d)))
             /\ dqbytes d f = dbytes (dof_flow f (dall_held cfg d)))
  /\ dtotal d = Z.of_nat (length (dall_held cfg d)).
Proof. exact drr_counters_l. Qed.
Print Assumptions C12_drr_counters.

(* back to back: d0 = a state in which a transmission has just ended; whatever happens next while the clock stands
   still (acts1 contains no DAdvance), once the clock may move on (d1 not urgent) with a packet still held, a
   transmission is in progress and it was started within acts1, i.e. at the very instant the previous one ended *)
Theorem C12_drr_back_to_back : forall (cfg : dcfg) (t0 : Q) (acts0 : list daction) (d0 : drr) (tr0 : list dtev)
    (acts1 : list daction) (d1 : drr) (tr1 : list dtev) (p0 : pkt),
  dwf cfg -> drr_run cfg (drr0 t0) acts0 = Some (d0, tr0) -> dchd d0 = DCDone p0 ->
  drr_run cfg d0 acts1 = Some (d1, tr1) -> (forall t, ~ In (DAdvance t) acts1) ->
  durgent cfg d1 = false -> (exists c, dheld cfg d1 c <> []) ->
  exists p dl, dchd d1 = DCTx p dl /\ In DChildInit acts1 /\ dnow d1 = dnow d0 /\ dnow d1 < dl.
Proof. exact drr_back_to_back_l. Qed.
Print Assumptions C12_drr_back_to_back.

(* no error state is reachable and run() never spins: in every reachable state every action whose kernel-level guard
   holds (Initialize pending, a granted get, the child's Initialize / due timeout / Process event, a pending StorePut,
   a put() of a configured class, a clock move that passes no deadline) is accepted by the model; in particular the
   round loop always reaches a yield (the fuel of dpasses suffices) *)
Theorem C12_drr_progress : forall (cfg : dcfg) (t0 : Q) (acts : list daction) (d : drr) (tr : list dtev),
  dwf cfg -> drr_run cfg (drr0 t0) acts = Some (d, tr) ->
  (dctrl d = DKFresh -> exists r, drr_act cfg d DInit = Some r)
  /\ (forall x, get (dtok d) = GGranted x -> exists r, drr_act cfg d (DGetDone None) = Some r)
  /\ (forall c x, get (dst d c) = GGranted x -> exists r, drr_act cfg d (DGetDone (Some c)) = Some r)
  /\ (forall p, dchd d = DCStart p -> exists r, drr_act cfg d DChildInit = Some r)
  /\ (forall p dl, dchd d = DCTx p dl -> dl == dnow d -> exists r, drr_act cfg d DChildTimer = Some r)
  /\ (forall p, dchd d = DCDone p -> exists r, drr_act cfg d DChildEnd = Some r)
  /\ ((pend (dtok d) > 0)%nat -> exists r, drr_act cfg d (DStoreCb None) = Some r)
  /\ (forall c, In c (dclasses cfg) -> (pend (dst d c) > 0)%nat -> exists r, drr_act cfg d (DStoreCb (Some c)) = Some r)
  /\ (forall p, In (dcls cfg p) (dclasses cfg) -> (0 < psize p)%Z -> exists r, drr_act cfg d (DPut p) = Some r)
  /\ (forall t, durgent cfg d = false -> dnow d < t -> (forall p dl, dchd d = DCTx p dl -> t <= dl) ->
      exists r, drr_act cfg d (DAdvance t) = Some r).
Proof. exact drr_progress_l. Qed.
Print Assumptions C12_drr_progress.
