(* C08, the Wire's share -- packets are never lost (except by the wire's documented loss rule),
   duplicated or invented.  Only statements, closed by the lemma that proves them. *)
From Coq Require Import ZArith QArith List Bool Permutation.
From ONL Require Import Elem.Packet Elem.StoreQ Elem.Wire Elem.WireProofs.
Import ListNotations.

(* For every admissible execution: the packets put in are, as a multiset of packet records (hence of
   uids), the packets delivered, those lost by the loss rule (exactly the ones whose draw was below the
   loss rate: C10_wire_loss_iff) and those still held (propagating, or in the store incl. a granted get). *)
Theorem C08_wire_conserves : forall loss t0 acts w tr,
  wire_run loss (wire0 t0) acts = Some (w, tr) ->
  Permutation (map snd (arrivals tr)) (map snd (tdeliv tr) ++ map snd (tlost tr) ++ wheld w).
Proof. exact wire_conserves. Qed.
Print Assumptions C08_wire_conserves.

Theorem C08_wire_conserves_uids : forall loss t0 acts w tr,
  wire_run loss (wire0 t0) acts = Some (w, tr) ->
  Permutation (map uid (map snd (arrivals tr)))
              (map uid (map snd (tdeliv tr)) ++ map uid (map snd (tlost tr)) ++ map uid (wheld w)).
Proof. exact wire_conserves_uids. Qed.
Print Assumptions C08_wire_conserves_uids.

(* Every delivered packet IS a packet put in: the same record (uid and all header fields), put in at an
   instant not later than its delivery. *)
Theorem C08_wire_delivers_what_was_put : forall loss t0 acts w tr,
  wire_run loss (wire0 t0) acts = Some (w, tr) ->
  forall k t p, nth_error (tdeliv tr) k = Some (t, p) -> exists i a, nth_error (arrivals tr) i = Some (a, p) /\ a <= t.
Proof. exact wire_delivers_what_was_put. Qed.
Print Assumptions C08_wire_delivers_what_was_put.

(* Packets of one flow leave in the order they entered. *)
Theorem C08_wire_flow_fifo : forall loss t0 acts w tr,
  wire_run loss (wire0 t0) acts = Some (w, tr) ->
  forall f, subseq (filter (fun p => Z.eqb (flow p) f) (map snd (tdeliv tr)))
                   (filter (fun p => Z.eqb (flow p) f) (map snd (arrivals tr))).
Proof. exact wire_flow_fifo. Qed.
Print Assumptions C08_wire_flow_fifo.

(* In a reachable state where no action other than a put or the passing of time is enabled and no
   deadline is pending, the wire holds nothing. *)
Theorem C08_wire_drained : forall loss t0 w,
  (exists acts tr, wire_run loss (wire0 t0) acts = Some (w, tr)) -> hold w = None ->
  (forall a, (forall p, a <> WPut p) -> (forall t, a <> WAdvance t) -> wire_act loss w a = None) ->
  wheld w = [].
Proof. exact wire_drained. Qed.
Print Assumptions C08_wire_drained.
