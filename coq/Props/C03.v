(* C03 -- runs are reproducible and unaffected by where they are stopped and resumed.
   Only statements, closed by the lemma that proves them, and their assumptions.  Proofs: Kernel/Stop*.v.
   All theorems are about Kernel/Model.v ([run], [run_prelude], [run_loop], [step]) and hold for every table of process
   automata [codes : list prog] (any number of processes, any state types, any arguments).

   Vocabulary (definitions in Kernel/Order.v, Deliver.v, DeliverVal.v, StopFrame.v, StopInv.v, StopSpec.v, Stop.v):
     exec codes s l s'        an execution of the kernel from s to s'; l lists, per transition, the agenda entry popped by a step
                              (Some m) or None for a module-level call / the prelude of run()                      (C01)
     calm s                   good (agenda invariant of C01) /\ uinv (C02) /\ no pending event carries a stop callback /\ every
                              pending URGENT entry is due now /\ a triggered, unprocessed event has an agenda entry.  It holds
                              in the initial state and is kept by module-level code, step(), run() and by every
                              run(until=...) that returns (the C03_calm theorems): the design's hypothesis (iii) "no stale stop callback
                              left by an earlier run() that ended with an exception" is this invariant.
     num_entry hz s / num_start hz s    the sentinel entry (due hz, URGENT, next insertion id, a fresh event) and the state in
                              which the loop of run(until=hz) starts
     popped_before hz x l     every label of l is a popped entry that is x or is due strictly before hz
     cb_chain fuel codes e l s s'   the callbacks l of e were invoked in order, each once, none ending the loop        (C02)
     loop_start m rest s      the state in which the callback loop of the step that pops m starts                    (C02)
     stable_kind k            every kind of event but Process events and conditions (whose outcome the kernel rewrites) (C02)
     stop / run_stop / run_split / plan_returned   stop points, what they do, plans, "every run(until=...) of the plan returned"
     free_run k / logs s      k times step() whatever the steps answer (the uninterrupted execution); the user-visible trace of s
                              (the OLog / OProbe records, in order)
     erase s / ghost_run      s without stop callbacks; a free run with inert sentinels inserted (Kernel/StopErase.v, StopSplit.v)
     parametric_codes codes   every automaton of the table treats event ids as opaque tokens and does not call env.peek()
                              (Kernel/StopRen.v); all programs compiled from scripts without peek are (C03_scripts_parametric)
     selfsim s                s is related to itself by the simulation relation with the identity renaming: its processes are
                              suspended parametric automata and every id in it has been allocated (holds initially, kept by
                              module-level script code: Kernel/StopExamples.v)
     clean / never_broken     the steps of the free run do not answer the explicit internal-error result RBroken
     ren_obs f / smono f      renaming of the event ids in a trace record; f strictly increasing *)
From Coq Require Import ZArith QArith List.
From ONL Require Import Kernel.Model Kernel.Script Kernel.Keys Kernel.Inv Kernel.Order Kernel.Deliver Kernel.DeliverWf
  Kernel.DeliverVal Kernel.StopFrame Kernel.StopInv Kernel.Stop Kernel.StopSpec Kernel.StopErase Kernel.StopSplit Kernel.StopRen Kernel.StopSim
  Kernel.StopSimCalls Kernel.StopSimStep Kernel.StopGhost Kernel.StopScript Kernel.StopExamples.
Import ListNotations.

(* ---- determinism ------------------------------------------------------------------------------------------------------- *)
Theorem C03_run_deterministic : forall fuel codes u s x y, run fuel codes u s = x -> run fuel codes u s = y -> x = y.
Proof. exact run_deterministic. Qed.
Print Assumptions C03_run_deterministic.

Theorem C03_run_split_deterministic : forall fuel codes plan s x y,
  run_split fuel codes plan s = x -> run_split fuel codes plan s = y -> x = y.
Proof. exact run_split_deterministic. Qed.
Print Assumptions C03_run_split_deterministic.

(* ---- the kernel as found violates split transparency ------------------------------------------------------------------- *)
Theorem C03_split_refuted_before_fix :
  exists fuel codes s0 plan,
    let S := fst (run_split_sel false fuel codes plan s0) in
    let U := run_sel false fuel codes UNone s0 in
    snd U = ROk /\ agenda (fst U) = [] /\ agenda S = [] /\
    snd (run_split_sel false fuel codes plan s0) = [RStop (VInt 5); ROk] /\
    logs S <> logs (fst U) /\ (length (logs S) < length (logs (fst U)))%nat.
Proof. exact split_refuted_before_fix. Qed.
Print Assumptions C03_split_refuted_before_fix.

(* ---- the invariant behind the specifications of run(until=...) ------------------------------------------------------------ *)

Theorem C03_calm_init : forall t0, calm (init_state t0).
Proof. exact calm_init. Qed.
Print Assumptions C03_calm_init.

Theorem C03_calm_module_code : forall A codes (f : frag A) s, calm s -> calm (fst (exec_top codes f s)).
Proof. exact (@calm_exec_top). Qed.
Print Assumptions C03_calm_module_code.

Theorem C03_calm_step : forall fuel codes s, calm s -> calm (fst (step fuel codes s)).
Proof. exact calm_step. Qed.
Print Assumptions C03_calm_step.

Theorem C03_calm_run : forall fuel codes s, calm s -> calm (fst (run fuel codes UNone s)).
Proof. exact calm_run_none. Qed.
Print Assumptions C03_calm_run.

(* a plan of stop points in which every run(until=...) returned (or was refused at once) ends in a calm state *)
Theorem C03_calm_run_split : forall fuel codes plan s,
  calm s -> plan_returned fuel codes plan s -> calm (fst (run_split fuel codes plan s)).
Proof. exact calm_run_split. Qed.
Print Assumptions C03_calm_run_split.

(* ---- run(until = number) -------------------------------------------------------------------------------------------------- *)

(* until <= now: ValueError, nothing changes (in any state) *)
Theorem C03_run_until_number_past : forall fuel codes hz s,
  hz <= now s -> run fuel codes (UNum hz) s = (s, RRaise (kexn EValue M_until_past)).
Proof. exact run_num_past. Qed.
Print Assumptions C03_run_until_number_past.

(* until > now: see Kernel/StopSpec.v *)
Theorem C03_run_until_number_spec : forall fuel codes hz s s' r,
  calm s -> now s < hz -> run fuel codes (UNum hz) s = (s', r) ->
  let x := num_entry hz s in
  run_prelude (UNum hz) s = inr (num_start hz s) /\ agenda (num_start hz s) = agenda s ++ [x] /\
  e_time x == hz /\ e_prio x = URGENT /\ e_eid x = next_eid s /\
  exists l, exec codes (num_start hz s) l s' /\ popped_before hz x l /\ now s' <= hz /\
    match r with
    | RStop v => v = VNone /\ now s' == hz /\ (exists l0, l = l0 ++ [Some x] /\ ~ In (Some x) l0) /\
                 (forall y, In y (agenda s') -> hz <= e_time y) /\ calm s'
    | RRaise _ | RFuel | RBroken => True
    | ROk | REmpty => False
    end.
Proof. exact run_until_number_spec. Qed.
Print Assumptions C03_run_until_number_spec.

(* ---- run(until = event) --------------------------------------------------------------------------------------------------- *)

(* an already processed event: its value at once, without stepping (in any state) *)
Theorem C03_run_until_event_processed : forall fuel codes e s ev,
  get_event e s = Some ev -> cbs ev = None ->
  run fuel codes (UEv e) s =
  (s, match raw_value ev with Some v => RStop v | None => RRaise (kexn EAttribute M_value_pending) end).
Proof. exact run_event_processed. Qed.
Print Assumptions C03_run_until_event_processed.

Theorem C03_run_until_event_spec : forall fuel codes e s s' r ev l0,
  calm s -> get_event e s = Some ev -> cbs ev = Some l0 -> run fuel codes (UEv e) s = (s', r) ->
  run_prelude (UEv e) s = inr (add_callback e CbStop s) /\
  exists l, exec codes (add_callback e CbStop s) l s' /\
    match r with
    | RStop v =>
        exists l0 m sk rest, l = l0 ++ [Some m] /\ not_for e l0 /\ e_ev m = e /\ exec codes (add_callback e CbStop s) l0 sk /\
          pop_min (agenda sk) = Some (m, rest) /\ step fuel codes sk = (s', RStop v) /\
          (exists evk lk, get_event e sk = Some evk /\ cbs evk = Some lk /\ cb_chain fuel codes e lk (loop_start m rest sk) s') /\
          (exists sm evm, vgrows (loop_start m rest sk) sm /\ get_event e sm = Some evm /\ out evm = Some (Ok v)) /\
          (exists ev', get_event e s' = Some ev' /\ cbs ev' = None /\ (stable_kind (kind ev') = true -> out ev' = Some (Ok v))) /\
          calm s'
    | RRaise x =>
        (x = kexn ERuntime M_until_not_triggered /\ agenda s' = [] /\ not_for e l /\
         exists ev', get_event e s' = Some ev' /\ out ev' = None) \/
        (exists l0 m, l = l0 ++ [Some m] /\ not_for e l0 /\
                      (e_ev m = e -> calm s' /\ exists ev', get_event e s' = Some ev' /\ cbs ev' = None))
    | RFuel | RBroken => True
    | ROk | REmpty => False
    end.
Proof. exact run_until_event_spec. Qed.
Print Assumptions C03_run_until_event_spec.

(* the agenda runs dry before the until-event is triggered: RuntimeError (never the AssertionError of run()) *)
Theorem C03_run_until_event_exhausted : forall fuel codes e s sk,
  je e s -> ok_steps fuel codes s sk -> agenda sk = [] ->
  exists k, forall n, (k <= n)%nat -> run_loop n fuel codes (UEv e) s = (sk, RRaise (kexn ERuntime M_until_not_triggered)).
Proof. exact run_until_event_exhausted. Qed.
Print Assumptions C03_run_until_event_exhausted.

Theorem C03_until_event_loop_invariant : forall e s ev l, calm s -> get_event e s = Some ev -> cbs ev = Some l -> je e (add_callback e CbStop s).
Proof. exact je_start. Qed.
Print Assumptions C03_until_event_loop_invariant.

(* the step that answers "stop" has invoked every callback of its event (the repaired step()) *)
Theorem C03_stop_after_all_callbacks : forall fuel codes s s' m rest ev l v,
  step fuel codes s = (s', RStop v) -> pop_min (agenda s) = Some (m, rest) ->
  get_event (e_ev m) s = Some ev -> cbs ev = Some l -> cb_chain fuel codes (e_ev m) l (loop_start m rest s) s'.
Proof. exact step_stop_chain. Qed.
Print Assumptions C03_stop_after_all_callbacks.

(* ---- split transparency --------------------------------------------------------------------------------------------------- *)

(* split_transparent_partial -- ALL stop points, ALL programs, no hypothesis but the well-formedness [uinv] that every execution
   has: with its stop callbacks erased, the split run IS the free run (step() repeated, whatever the steps answer: the
   uninterrupted execution) in which an INERT urgent event -- pre-triggered, without callbacks -- is scheduled at every accepted
   numeric horizon, for the numbers of steps the split run made.  [erase] changes callback lists only: clock, agenda, processes,
   shared variables and the whole trace of the split run are those of that free run. *)
Theorem C03_split_transparent_partial : forall fuel codes plan s,
  uinv s -> exists ks, length ks = length plan /\
    erase (fst (run_split fuel codes plan s)) = ghost_run fuel codes (combine plan ks) (erase s).
Proof. exact split_ghost. Qed.
Print Assumptions C03_split_transparent_partial.

(* plans of run(), run(until=event), step(n): nothing is inserted, the split run IS a free run *)
Theorem C03_split_transparent_events_steps : forall fuel codes plan s,
  uinv s -> no_horizon plan -> exists K, erase (fst (run_split fuel codes plan s)) = free_run K fuel codes (erase s).
Proof. exact split_transparent_events_steps. Qed.
Print Assumptions C03_split_transparent_events_steps.

(* ... and ends where the uninterrupted run() ends: identical traces, entry by entry *)
Theorem C03_split_transparent_events_steps_run : forall fuel codes plan s U,
  uinv s -> no_stop s -> no_horizon plan ->
  run fuel codes UNone s = (U, ROk) -> agenda (fst (run_split fuel codes plan s)) = [] ->
  erase (fst (run_split fuel codes plan s)) = U /\ obs (fst (run_split fuel codes plan s)) = obs U /\
  logs (fst (run_split fuel codes plan s)) = logs U.
Proof. exact split_transparent_events_steps_run. Qed.
Print Assumptions C03_split_transparent_events_steps_run.

(* the uninterrupted run() is a free run; a free run on an empty agenda stands still *)
Theorem C03_run_is_free_run : forall fuel codes s, exists k, fst (run fuel codes UNone s) = free_run k fuel codes s.
Proof. exact run_none_free. Qed.
Print Assumptions C03_run_is_free_run.

(* stop callbacks are invisible below run(): every step commutes with their erasure *)
Theorem C03_step_erase : forall fuel codes s, uinv s -> fst (step fuel codes (erase s)) = erase (fst (step fuel codes s)).
Proof. exact step_erase. Qed.
Print Assumptions C03_step_erase.

(* split_transparent -- ALL stop points (numeric horizons also AT due instants, until-events, single steps, run()), every table
   of parametric programs, every plan: the user-visible trace of the split run is the user-visible trace of the free run of K steps
   from the same state, event ids renamed by a strictly increasing map (sentinels take event ids, so everything created after a
   numeric stop is shifted): no record of any process is lost, duplicated or reordered by a stop.  Hypotheses: the initial state is
   well-formed (selfsim, good, uinv: every state reached from an initial state by module-level script code is) and carries no stale
   stop callback; the free run does not answer RBroken (the explicit internal-error result the design excludes). *)
Theorem C03_split_transparent : forall codes fuel s0 plan, parametric_codes codes ->
  selfsim s0 -> good s0 -> uinv s0 -> no_stop s0 ->
  exists K, clean fuel codes K s0 ->
    exists f, smono f /\ logs (fst (run_split fuel codes plan s0)) = map (ren_obs f) (logs (free_run K fuel codes s0)) /\
              (agenda (fst (run_split fuel codes plan s0)) = [] -> agenda (free_run K fuel codes s0) = []).
Proof. exact split_transparent. Qed.
Print Assumptions C03_split_transparent.

(* ... and when the uninterrupted run() returned normally and the split run has emptied the agenda as well: the split run shows
   exactly the (renamed) trace of run() *)
Theorem C03_split_transparent_run : forall codes fuel s0 plan U, parametric_codes codes ->
  selfsim s0 -> good s0 -> uinv s0 -> no_stop s0 -> never_broken fuel codes s0 ->
  run fuel codes UNone s0 = (U, ROk) -> agenda (fst (run_split fuel codes plan s0)) = [] ->
  exists f, smono f /\ logs (fst (run_split fuel codes plan s0)) = map (ren_obs f) (logs U).
Proof. exact split_transparent_run. Qed.
Print Assumptions C03_split_transparent_run.

(* inert sentinels are invisible to parametric programs: the layer between the two theorems above and C03_split_transparent_partial *)
Theorem C03_ghost_transparent : forall codes fuel, parametric_codes codes ->
  forall items f g a b, bsim f g a b ->
    exists K, clean fuel codes K a -> exists f' g', bsim f' g' (free_run K fuel codes a) (ghost_run fuel codes items b).
Proof. exact ghost_transparent. Qed.
Print Assumptions C03_ghost_transparent.

(* the class of programs is not small: every script without env.peek() compiles to a parametric program -- all generated
   families of the correspondence check *)
Theorem C03_scripts_parametric : forall scripts, forallb nopeek scripts = true -> parametric_codes (map compile scripts).
Proof. exact compile_parametric_codes. Qed.
Print Assumptions C03_scripts_parametric.

Theorem C03_selfsim_init : forall t0, selfsim (init_state t0).
Proof. exact selfsim_init. Qed.
Print Assumptions C03_selfsim_init.

Theorem C03_selfsim_module_code : forall codes l s,
  parametric_codes codes -> nopeek l = true -> selfsim s -> selfsim (fst (exec_top codes (Script.exec l []) s)).
Proof. exact selfsim_exec_top. Qed.
Print Assumptions C03_selfsim_module_code.
