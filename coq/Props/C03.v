(* C03 -- runs are reproducible and unaffected by where they are stopped and resumed.
   Only statements, closed by the lemma that proves them, and their assumptions.  Proofs: Kernel/Stop*.v.
   All theorems are about Kernel/Model.v ([run], [run_prelude], [run_loop], [step]) and hold for every table of process
   automata [codes : list prog] (any number of processes, any state types, any arguments). *)
From Coq Require Import ZArith QArith List.
From ONL Require Import Kernel.Model Kernel.Script Kernel.Stop.
Import ListNotations.

(* ---- determinism ------------------------------------------------------------------------------------------------------- *)
Theorem C03_run_deterministic : forall fuel codes u s x y, run fuel codes u s = x -> run fuel codes u s = y -> x = y.
Proof. exact run_deterministic. Qed.
Print Assumptions C03_run_deterministic.

Theorem C03_run_split_deterministic : forall fuel codes plan s x y,
  run_split fuel codes plan s = x -> run_split fuel codes plan s = y -> x = y.
Proof. exact run_split_deterministic. Qed.
Print Assumptions C03_run_split_deterministic.

(* ---- the kernel as found violates split transparency ------------------------------------------------------------------- *)
Theorem C03_split_refuted_before_fix :
  exists fuel codes s0 plan,
    let S := fst (run_split_sel false fuel codes plan s0) in
    let U := run_sel false fuel codes UNone s0 in
    snd U = ROk /\ agenda (fst U) = [] /\ agenda S = [] /\
    snd (run_split_sel false fuel codes plan s0) = [RStop (VInt 5); ROk] /\
    logs S <> logs (fst U) /\ (length (logs S) < length (logs (fst U)))%nat.
Proof. exact split_refuted_before_fix. Qed.
Print Assumptions C03_split_refuted_before_fix.
