(* C16 -- NON-VACUITY of the theorems of Props/C16.v, Props/C16_Live.v and Props/C16_Bridge.v.
   An implication no reachable state satisfies means nothing: every theorem below is a machine-checked witness that ALL
   hypotheses of the theorems it covers hold together on a concrete, non-trivial instance (a reordered arrival sequence
   with a duplicate and a late first segment; an ACK/expiry history of the sender with a fast retransmit and a timeout;
   an 8-segment flow over a path that drops two data packets and one ACK -- 120 agenda steps, 7 timer expiries, 22
   transmissions; the same flow over a loss-free path), together with what the theorem's conclusion says there.
   The witness terms are defined in Tcp/LoopExamples.v ([lstepsf] computes k agenda steps; [lstepsf_lsteps],
   [lstepsf_reach] turn the computation into the inductive [lsteps] / [lreach] of the theorems).

   Coverage (every hypothesis-carrying theorem of the three statement files):
     C16_ex_acks                      C16_ack_is_prefix, C16_ack_monotone
     C16_ex_sender_never_raises       C16_sender_never_raises
     C16_ex_loop_never_raises         C16_loop_never_raises
     C16_ex_reach_sandwich            C16_last_ack_le_prefix_le_next_seq, C16_runner_reaches
     C16_ex_last_ack_monotone         C16_last_ack_monotone
     C16_ex_unfinished                C16_unfinished_has_pending, C16_not_quiescent_while_unfinished
     C16_ex_quiescent                 C16_reliable_delivery_partial
     C16_ex_retransmission_causes     C16_lossfree_no_retransmit_partial
     C16_ex_work_bounded              C16_work_bounded_by_transmissions
     C16_ex_out_of_fuel               C16_out_of_fuel_needs_transmissions
     C16_ex_lossfree                  C16_lossfree_no_retransmit, C16_lossfree_terminates
     C16_ex_live                      C16_expiries_bounded, C16_work_bounded_by_expiries, C16_rto_lower_bound
     (C16_live_example, Props/C16_Live.v, is the witness of C16_reliable_delivery: its fuel bound is a number, 40047,
      and the run with that fuel is computed; for the 4096-byte flow used here the bound is about 4.7e12 steps)
   Unconditional (no hypotheses beyond typing binders): C16_current_is_repaired, C16_live_bound_unfolded,
     C16_gen_sink_put (for every sink state and segment).
   Already witnesses (existential statements): C16_ack_refuted_before_fix, C16_sender_raises_before_fix,
     C16_loop_raises_before_fix, C16_live_example. *)
From Coq Require Import ZArith QArith Qround List Lia.
From ONL Require Import Tcp.Sink Tcp.SinkProofs Tcp.Sender Tcp.SenderProofs Tcp.Loop Tcp.LoopProofs Tcp.LoopLive Tcp.LoopLossfree
  Tcp.LoopLive2 Tcp.LoopLive2F Tcp.LoopExamples.
Import ListNotations.
Open Scope Z_scope.

(* ------------------------------------------------------------------------------------------------ *)
(* The sink.  Covers C16_ack_is_prefix (k = 2, a = 1536) and C16_ack_monotone (i = 1, j = 5).
   Arrivals 512, 1024, 0, 512 (duplicate), 2048, 1536: ACKs 0, 0, 1536, 1536, 1536, 2560. *)
Theorem C16_ex_acks :
  (forall g, In g segsW -> 0 <= fst g /\ 0 <= snd g) /\
  acks true sink0 segsW = [0; 0; 1536; 1536; 1536; 2560] /\
  nth_error (acks true sink0 segsW) 2 = Some 1536 /\
  (1 <= 5)%nat /\ nth_error (acks true sink0 segsW) 1 = Some 0 /\ nth_error (acks true sink0 segsW) 5 = Some 2560 /\
  (* what the theorems say here *)
  prefix_len (firstn 3 segsW) 1536 /\ 0 <= 2560.
Proof.
  assert (Hnn : forall g, In g segsW -> 0 <= fst g /\ 0 <= snd g).
  { intros g Hg. unfold segsW in Hg. cbn [In] in Hg.
    repeat (destruct Hg as [<-|Hg]; [cbn; lia|]). contradiction. }
  split; [exact Hnn|]. split; [vm_compute; reflexivity|]. split; [vm_compute; reflexivity|].
  split; [lia|]. split; [vm_compute; reflexivity|]. split; [vm_compute; reflexivity|].
  split.
  - apply (ack_is_prefix segsW Hnn 2%nat 1536). vm_compute. reflexivity.
  - lia.
Qed.
Print Assumptions C16_ex_acks.

(* ------------------------------------------------------------------------------------------------ *)
(* The sender alone.  Covers C16_sender_never_raises: MSS 512 > 0, initial window 1024 >= MSS, rtt_estimate 1/16 > 0,
   a history of 10 events with samples >= 0 (new ACK, two wakes, three duplicates = fast retransmit of 512, expiry of
   timer 1024, cumulative ACK 2048) whose last event -- the expiry of a timer the cumulative ACK has stopped -- is
   refused: the run is Raise x, and x is NotEnabled.  Without that last event the run is Ok, with 4 transmissions
   of new data, the fast retransmit of 512 and the timeout retransmission of 1024 on the output. *)
Theorem C16_ex_sender_never_raises :
  0 < mss cS /\ (zq (mss cS) <= 1024 # 1)%Q /\ (0 < 1 # 16)%Q /\ Forall sample_ok hSbad /\ length hSbad = 10%nat /\
  run repaired cS sS0 hSbad = Raise NotEnabled /\
  (exists s o, run repaired cS sS0 hS = Ok s o /\
               txs o = [(0, 512); (512, 512); (1024, 512); (1536, 512); (512, 512); (1024, 512)] /\
               last_ack s = 2048 /\ next_seq s = 2048 /\ timers s = [] /\ (cwnd s == 1536 # 1)%Q /\ (ssthresh s == 1024 # 1)%Q).
Proof.
  split; [reflexivity|]. split; [cbn; discriminate|]. split; [reflexivity|].
  split; [repeat constructor; cbn; discriminate|]. split; [reflexivity|].
  split; [vm_compute; reflexivity|].
  eexists. eexists. split; [vm_compute; reflexivity|]. repeat split; vm_compute; reflexivity.
Qed.
Print Assumptions C16_ex_sender_never_raises.

(* Covers C16_lossfree_no_retransmit_partial, twice: (a) the state after [hS2] (dupack = 2), the third duplicate ACK 512
   makes the step emit Tx 512 -- the theorem's third disjunct, id = last_ack and 3 <= dupack + 1;  (b) one event later
   (dupack = 3) the expiry of timer 1024 emits Tx 1024 -- the second disjunct. *)
Theorem C16_ex_retransmission_causes :
  let sa := sender_after hS2 in
  let sb := sender_after (hS2 ++ [EAck 512 0 (1 # 8) 0]) in
  (0 <= dupack sa /\ dupack sa = 2 /\ last_ack sa = 512 /\
   exists s' o, step repaired cS sa (EAck 512 0 (1 # 8) 0) = Ok s' o /\ In (Tx 512 512) o /\ 3 <= dupack sa + 1) /\
  (0 <= dupack sb /\ dupack sb = 3 /\
   exists s' o, step repaired cS sb (EExpire 1024) = Ok s' o /\ In (Tx 1024 512) o /\ (rto s' == (2 # 1) * rto sb)%Q).
Proof.
  cbv zeta. split.
  - split; [vm_compute; discriminate|]. split; [vm_compute; reflexivity|]. split; [vm_compute; reflexivity|].
    eexists. eexists. split; [vm_compute; reflexivity|]. split; [cbn; auto|vm_compute; discriminate].
  - split; [vm_compute; discriminate|]. split; [vm_compute; reflexivity|].
    eexists. eexists. split; [vm_compute; reflexivity|]. split; [cbn; auto|vm_compute; reflexivity].
Qed.
Print Assumptions C16_ex_retransmission_causes.

(* ------------------------------------------------------------------------------------------------ *)
(* The closed loop with losses: [lcW] = 8 segments of 512 bytes, delay 1/4, data transmissions 1 and 6 and ACK
   transmission 2 dropped; initial window 2048, rtt_estimate 1/2.  [stW k] = the state after k agenda steps. *)

(* Covers C16_loop_never_raises (hypotheses lc_ok, cwnd >= MSS, rtt0 > 0; it then speaks about every fuel): the
   complete run is not trivial -- 120 steps to quiescence, 22 data packets offered to the dropper (3 of them
   retransmissions by timeout of segment 512 alone), 7 expiries. *)
Theorem C16_ex_loop_never_raises :
  lc_ok lcW /\ (zq (mss (lc_cfg lcW)) <= 2048 # 1)%Q /\ (0 < 1 # 2)%Q /\
  lrun 121 lcW stW0 = LQuiescent (stW 120) /\ l_agenda (stW 120) = [] /\
  l_n1 (stW 120) = 22%nat /\ l_n2 (stW 120) = 20%nat /\ nexp (stW 120) = 7%nat /\
  map dl_idx (filter dl_dropped (l_d1 (stW 120))) = [6; 1]%nat /\
  forall fuel st e, lrun fuel lcW stW0 <> LRaised st e.
Proof.
  assert (Hok : lc_ok lcW) by (constructor; cbn; [reflexivity|lia|discriminate]).
  split; [exact Hok|]. split; [cbn; discriminate|]. split; [reflexivity|].
  split; [vm_compute; reflexivity|]. split; [vm_compute; reflexivity|].
  split; [vm_compute; reflexivity|]. split; [vm_compute; reflexivity|]. split; [vm_compute; reflexivity|].
  split; [vm_compute; reflexivity|].
  apply loop_never_raises; [exact Hok|cbn; discriminate|reflexivity].
Qed.
Print Assumptions C16_ex_loop_never_raises.

(* Covers C16_last_ack_le_prefix_le_next_seq and C16_runner_reaches: the state after 82 steps (t = 7/4) is reachable;
   there last_ack = 3072 < next_seq_expected of the sink = 3584 < next_seq = 4096, all three different. *)
Theorem C16_ex_reach_sandwich :
  lc_ok lcW /\ (zq (mss (lc_cfg lcW)) <= 2048 # 1)%Q /\ (0 < 1 # 2)%Q /\
  lreach lcW stW0 (stW 82) /\
  last_ack (l_snd (stW 82)) = 3072 /\ nse (l_sink (stW 82)) = 3584 /\ next_seq (l_snd (stW 82)) = 4096 /\
  buf (l_sink (stW 82)) = [(0, 3584)] /\ sink_prefix (l_sink (stW 82)) 3584 /\
  (* the runner continued from there for 10 more steps ends in a reachable state, a different one *)
  lreach lcW stW0 (lfinal (lrun 10 lcW (stW 82))) /\ lfinal (lrun 10 lcW (stW 82)) = stW 92.
Proof.
  assert (Hok : lc_ok lcW) by (constructor; cbn; [reflexivity|lia|discriminate]).
  assert (Hr : lreach lcW stW0 (stW 82)) by (apply (lstepsf_reach lcW 82); vm_compute; reflexivity).
  split; [exact Hok|]. split; [cbn; discriminate|]. split; [reflexivity|]. split; [exact Hr|].
  split; [vm_compute; reflexivity|]. split; [vm_compute; reflexivity|]. split; [vm_compute; reflexivity|].
  split; [vm_compute; reflexivity|].
  split.
  - replace 3584 with (nse (l_sink (stW 82))) at 2 by (vm_compute; reflexivity).
    apply (loop_last_ack_le_prefix_le_next_seq lcW (2048 # 1) (65535 # 1) (1 # 2) [] (stW 82) Hok);
      [cbn; discriminate|reflexivity|exact Hr].
  - split; [apply lrun_reach; exact Hr|vm_compute; reflexivity].
Qed.
Print Assumptions C16_ex_reach_sandwich.

(* Covers C16_last_ack_monotone: two reachable states, the second reachable from the first (43 steps later), between
   them a fast retransmit and five expiries; last_ack 512 <= 3584. *)
Theorem C16_ex_last_ack_monotone :
  lc_ok lcW /\ (zq (mss (lc_cfg lcW)) <= 2048 # 1)%Q /\ (0 < 1 # 2)%Q /\
  lreach lcW stW0 (stW 55) /\ lreach lcW (stW 55) (stW 98) /\
  last_ack (l_snd (stW 55)) = 512 /\ last_ack (l_snd (stW 98)) = 3584 /\
  l_n1 (stW 55) = 12%nat /\ l_n1 (stW 98) = 22%nat.
Proof.
  split; [constructor; cbn; [reflexivity|lia|discriminate]|]. split; [cbn; discriminate|]. split; [reflexivity|].
  split; [apply (lstepsf_reach lcW 55); vm_compute; reflexivity|].
  split; [apply (lstepsf_reach lcW 43); vm_compute; reflexivity|].
  repeat split; vm_compute; reflexivity.
Qed.
Print Assumptions C16_ex_last_ack_monotone.

(* Covers C16_unfinished_has_pending and C16_not_quiescent_while_unfinished: lc_ok2 (4096 = 8 * 512), flow size <> 0,
   the reachable state after 82 steps has last_ack 3072 < 4096 (first disjunct of the second theorem; the sink is also
   still short: 3584 < 4096).  Conclusions there: pending_work holds through its FIRST disjunct -- the timer of segment
   3072 = last_ack is in the table and its Timeout is on the agenda -- and the agenda has 10 entries. *)
Theorem C16_ex_unfinished :
  lc_ok2 lcW /\ (zq (mss (lc_cfg lcW)) <= 2048 # 1)%Q /\ (0 < 1 # 2)%Q /\ fsize (lc_cfg lcW) <> 0 /\
  lreach lcW stW0 (stW 82) /\ last_ack (l_snd (stW 82)) < fsize (lc_cfg lcW) /\ nse (l_sink (stW 82)) < fsize (lc_cfg lcW) /\
  pending_work lcW (stW 82) /\
  In 3072 (keys (timers (l_snd (stW 82)))) /\ In (ATimerFire 3072) (map ae_ev (l_agenda (stW 82))) /\
  length (l_agenda (stW 82)) = 10%nat /\ l_agenda (stW 82) <> [].
Proof.
  assert (Hok : lc_ok2 lcW).
  { constructor; [constructor; cbn; [reflexivity|lia|discriminate]|]. exists 8. cbn. lia. }
  assert (Hr : lreach lcW stW0 (stW 82)) by (apply (lstepsf_reach lcW 82); vm_compute; reflexivity).
  assert (Hla : last_ack (l_snd (stW 82)) < fsize (lc_cfg lcW)) by (vm_compute; reflexivity).
  split; [exact Hok|]. split; [cbn; discriminate|]. split; [reflexivity|]. split; [cbn; discriminate|].
  split; [exact Hr|]. split; [exact Hla|]. split; [vm_compute; reflexivity|].
  split; [apply (loop_unfinished_has_pending lcW (2048 # 1) (65535 # 1) (1 # 2) [] (stW 82) Hok);
          [cbn; discriminate|reflexivity|cbn; discriminate|exact Hr|exact Hla]|].
  split; [vm_compute; auto|]. split; [vm_compute; auto 10|]. split; [vm_compute; reflexivity|].
  apply (loop_not_quiescent_while_unfinished lcW (2048 # 1) (65535 # 1) (1 # 2) [] (stW 82) Hok);
    [cbn; discriminate|reflexivity|cbn; discriminate|exact Hr|left; exact Hla].
Qed.
Print Assumptions C16_ex_unfinished.

(* Covers C16_reliable_delivery_partial: the reachable state after 120 steps has an empty agenda (t = 17, after the
   last stopped timer's Timeout was discarded); there last_ack = 4096, the sink holds exactly [0, 4096). *)
Theorem C16_ex_quiescent :
  lc_ok2 lcW /\ (zq (mss (lc_cfg lcW)) <= 2048 # 1)%Q /\ (0 < 1 # 2)%Q /\ fsize (lc_cfg lcW) <> 0 /\
  lreach lcW stW0 (stW 120) /\ l_agenda (stW 120) = [] /\ (l_now (stW 120) == 17 # 1)%Q /\
  last_ack (l_snd (stW 120)) = 4096 /\ nse (l_sink (stW 120)) = 4096 /\ buf (l_sink (stW 120)) = [(0, 4096)] /\
  sink_prefix (l_sink (stW 120)) (fsize (lc_cfg lcW)).
Proof.
  assert (Hok : lc_ok2 lcW).
  { constructor; [constructor; cbn; [reflexivity|lia|discriminate]|]. exists 8. cbn. lia. }
  assert (Hr : lreach lcW stW0 (stW 120)) by (apply (lstepsf_reach lcW 120); vm_compute; reflexivity).
  assert (Hq : l_agenda (stW 120) = []) by (vm_compute; reflexivity).
  split; [exact Hok|]. split; [cbn; discriminate|]. split; [reflexivity|]. split; [cbn; discriminate|].
  split; [exact Hr|]. split; [exact Hq|]. split; [vm_compute; reflexivity|].
  split; [vm_compute; reflexivity|]. split; [vm_compute; reflexivity|]. split; [vm_compute; reflexivity|].
  apply (loop_quiescent_complete lcW (2048 # 1) (65535 # 1) (1 # 2) [] (stW 120) Hok);
    [cbn; discriminate|reflexivity|cbn; discriminate|exact Hr|exact Hq].
Qed.
Print Assumptions C16_ex_quiescent.

(* Covers C16_work_bounded_by_transmissions: 82 agenda steps from the initial state; 18 data packets handed to the data
   path by then; 82 <= 3 + 4096 + 10 * 18.  (The same with the 1-byte segments of [lc_live], where the flow size does
   not dominate: 32 steps, 7 transmissions, 32 <= 3 + 4 + 70.) *)
Theorem C16_ex_work_bounded :
  lc_ok2 lcW /\ (zq (mss (lc_cfg lcW)) <= 2048 # 1)%Q /\ (0 < 1 # 2)%Q /\ fsize (lc_cfg lcW) <> 0 /\
  lsteps lcW 82 stW0 (stW 82) /\ l_n1 (stW 82) = 18%nat /\
  Z.of_nat 82 <= 3 + fsize (lc_cfg lcW) + 10 * Z.of_nat (l_n1 (stW 82)) /\
  (lc_ok2 lc_live /\ exists st, lsteps lc_live 32 (linit (2 # 1) (65535 # 1) 1 []) st /\ l_n1 st = 7%nat /\
                                Z.of_nat 32 <= 3 + fsize (lc_cfg lc_live) + 10 * Z.of_nat (l_n1 st)).
Proof.
  split; [constructor; [constructor; cbn; [reflexivity|lia|discriminate]|]; exists 8; cbn; lia|].
  split; [cbn; discriminate|]. split; [reflexivity|]. split; [cbn; discriminate|].
  split; [apply lstepsf_lsteps; vm_compute; reflexivity|]. split; [vm_compute; reflexivity|].
  split; [vm_compute; discriminate|].
  split; [constructor; [constructor; cbn; [reflexivity|lia|discriminate]|]; exists 4; cbn; lia|].
  eexists. split; [apply lstepsf_lsteps; vm_compute; reflexivity|]. split; [reflexivity|vm_compute; discriminate].
Qed.
Print Assumptions C16_ex_work_bounded.

(* Covers C16_out_of_fuel_needs_transmissions: with 50 steps of fuel the runner does end in LFuel (at t = 5/4, in the
   middle of the recovery); 12 data packets were transmitted by then; 50 <= 3 + 4096 + 120. *)
Theorem C16_ex_out_of_fuel :
  lc_ok2 lcW /\ (zq (mss (lc_cfg lcW)) <= 2048 # 1)%Q /\ (0 < 1 # 2)%Q /\ fsize (lc_cfg lcW) <> 0 /\
  lrun 50 lcW stW0 = LFuel (stW 50) /\ l_n1 (stW 50) = 12%nat /\ last_ack (l_snd (stW 50)) = 512 /\
  Z.of_nat 50 <= 3 + fsize (lc_cfg lcW) + 10 * Z.of_nat (l_n1 (stW 50)).
Proof.
  split; [constructor; [constructor; cbn; [reflexivity|lia|discriminate]|]; exists 8; cbn; lia|].
  split; [cbn; discriminate|]. split; [reflexivity|]. split; [cbn; discriminate|].
  split; [vm_compute; reflexivity|]. split; [vm_compute; reflexivity|]. split; [vm_compute; reflexivity|].
  vm_compute. discriminate.
Qed.
Print Assumptions C16_ex_out_of_fuel.

(* ------------------------------------------------------------------------------------------------ *)
(* The loss-free loop.  Covers C16_lossfree_no_retransmit and C16_lossfree_terminates: [lcF] has no drops, delay
   1/4 < rtt_estimate 1, and 1 <> 2 * 1/4.  In the reachable state after 46 steps (t = 3/4, 5 of 8 segments acknowledged
   at the sink side, 8 sent) the transmission log is 0, 512, ..., 3584, each once; with fuel 45060 > 3 + 11 * 4096 the
   runner ends quiescent after 64 steps with everything delivered and still 8 transmissions. *)
Theorem C16_ex_lossfree :
  lc_ok2 lcF /\ lc_drop_data lcF = [] /\ lc_drop_ack lcF = [] /\
  (zq (mss (lc_cfg lcF)) <= 2048 # 1)%Q /\ (lc_delay lcF < 1 # 1)%Q /\ ~ ((1 # 1) == (2 # 1) * lc_delay lcF)%Q /\
  lreach lcF stF0 (stF 46) /\ last_ack (l_snd (stF 46)) = 2048 /\ nse (l_sink (stF 46)) = 3584 /\
  map dl_id (rev (l_d1 (stF 46))) = [0; 512; 1024; 1536; 2048; 2560; 3072; 3584] /\
  map dl_id (rev (l_d1 (stF 46))) = seg_ids (mss (lc_cfg lcF)) 0 8 /\ NoDup (map dl_id (l_d1 (stF 46))) /\
  fsize (lc_cfg lcF) <> 0 /\ 3 + 11 * fsize (lc_cfg lcF) < Z.of_nat (Z.to_nat 45060) /\
  lrun (Z.to_nat 45060) lcF stF0 = LQuiescent (stF 64) /\
  last_ack (l_snd (stF 64)) = 4096 /\ nse (l_sink (stF 64)) = 4096 /\ l_n1 (stF 64) = 8%nat /\
  NoDup (map dl_id (l_d1 (stF 64))).
Proof.
  assert (Hok : lc_ok2 lcF).
  { constructor; [constructor; cbn; [reflexivity|lia|discriminate]|]. exists 8. cbn. lia. }
  assert (Hr : lreach lcF stF0 (stF 46)) by (apply (lstepsf_reach lcF 46); vm_compute; reflexivity).
  assert (Hne : ~ ((1 # 1) == (2 # 1) * lc_delay lcF)%Q) by (cbn; discriminate).
  split; [exact Hok|]. split; [reflexivity|]. split; [reflexivity|]. split; [cbn; discriminate|].
  split; [reflexivity|]. split; [exact Hne|]. split; [exact Hr|].
  split; [vm_compute; reflexivity|]. split; [vm_compute; reflexivity|]. split; [vm_compute; reflexivity|].
  split; [vm_compute; reflexivity|].
  split; [apply (lossfree_no_retransmit lcF Hok eq_refl eq_refl (2048 # 1) (65535 # 1) (1 # 1) []);
          [cbn; discriminate|reflexivity|exact Hne|exact Hr]|].
  split; [cbn; discriminate|]. split; [vm_compute; reflexivity|].
  assert (Hrun : lrun (Z.to_nat 45060) lcF stF0 = LQuiescent (stF 64)) by (vm_compute; reflexivity).
  split; [exact Hrun|]. split; [vm_compute; reflexivity|]. split; [vm_compute; reflexivity|].
  split; [vm_compute; reflexivity|].
  pose proof (lossfree_terminates lcF Hok eq_refl eq_refl (2048 # 1) (65535 # 1) (1 # 1) []) as T.
  specialize (T ltac:(cbn; discriminate) ltac:(reflexivity) Hne (Z.to_nat 45060) ltac:(cbn; discriminate)
                ltac:(vm_compute; reflexivity)).
  fold stF0 in T. rewrite Hrun in T. apply T.
Qed.
Print Assumptions C16_ex_lossfree.

(* ------------------------------------------------------------------------------------------------ *)
(* Props/C16_Live.v.  Covers C16_expiries_bounded, C16_work_bounded_by_expiries and C16_rto_lower_bound (the fourth
   theorem with these hypotheses, C16_reliable_delivery, needs fuel above the bound and has C16_live_example): lc_ok2,
   window, rtt_estimate 1/2 > 0, size <> 0, and a state reached by exactly 82 steps in which 5 timers have expired;
   the RTO in force there is 1/2 (it was 1, doubled to 2 ... by the expiries, and re-estimated by the new ACKs). *)
Theorem C16_ex_live :
  lc_ok2 lcW /\ (zq (mss (lc_cfg lcW)) <= 2048 # 1)%Q /\ (0 < 1 # 2)%Q /\ fsize (lc_cfg lcW) <> 0 /\
  lsteps lcW 82 stW0 (stW 82) /\ lreach lcW stW0 (stW 82) /\ nexp (stW 82) = 5%nat /\
  Z.of_nat (nexp (stW 82)) <= Bexp lcW (1 # 2) /\
  3 + Gnew lcW * fsize (lc_cfg lcW) + Cexp lcW * Z.of_nat (nexp (stW 82)) = 336081049 /\
  Z.of_nat 82 <= 3 + Gnew lcW * fsize (lc_cfg lcW) + Cexp lcW * Z.of_nat (nexp (stW 82)) /\
  (rto (l_snd (stW 82)) == 1 # 2)%Q /\
  (0 < (1 # 2) * geo (Z.to_nat (fsize (lc_cfg lcW))) <= rto (l_snd (stW 82)))%Q.
Proof.
  assert (Hok : lc_ok2 lcW).
  { constructor; [constructor; cbn; [reflexivity|lia|discriminate]|]. exists 8. cbn. lia. }
  assert (Hs : lsteps lcW 82 stW0 (stW 82)) by (apply lstepsf_lsteps; vm_compute; reflexivity).
  assert (Hr : lreach lcW stW0 (stW 82)) by (eapply lsteps_reach; exact Hs).
  split; [exact Hok|]. split; [cbn; discriminate|]. split; [reflexivity|]. split; [cbn; discriminate|].
  split; [exact Hs|]. split; [exact Hr|]. split; [vm_compute; reflexivity|].
  split; [apply (loop_expiries_bounded_explicit lcW (2048 # 1) (65535 # 1) (1 # 2) [] (stW 82) Hok);
          [cbn; discriminate|reflexivity|cbn; discriminate|exact Hr]|].
  split; [vm_compute; reflexivity|].
  split; [apply (loop_work_bounded_by_expiries lcW (2048 # 1) (65535 # 1) (1 # 2) [] 82 (stW 82) Hok);
          [cbn; discriminate|reflexivity|cbn; discriminate|exact Hs]|].
  split; [vm_compute; reflexivity|].
  apply (loop_rto_lower_bound lcW (2048 # 1) (65535 # 1) (1 # 2) [] (stW 82) Hok);
    [cbn; discriminate|reflexivity|cbn; discriminate|exact Hr].
Qed.
Print Assumptions C16_ex_live.
