(* C06 -- Resources never exceed capacity, grant in queue order, never idle a slot.
   Only statements, closed by the lemma that proves them, and their assumptions.

   The model (Res/Resource.v) is one Resource / PriorityResource / PreemptiveResource (k) of capacity cap as
   an automaton.  `run k cap (init t0) acts = Some s` says: the action list acts is an admissible history
   (adm holds before every action: a process holds or awaits at most one request, cancel/with-exit by the
   owner and not twice, the kernel processes only triggered events, the clock advances only when no
   triggered event of the resource is unprocessed, an ended process does nothing; a process MAY end while
   holding a slot or queueing) and leads to state s.  All theorems quantify over every
   kind, every capacity >= 1, every initial time and EVERY admissible history of any length: any number of
   processes, any priorities and preempt flags, any interleaving of operations and event processing within
   an instant. *)
From Coq Require Import ZArith List Bool Sorted.
From ONL Require Import Res.Resource Res.ResourceProofs.
Import ListNotations.

(* at most `capacity` users, always *)
Theorem C06_users_le_capacity : forall k cap t0 acts s, 1 <= cap ->
  run k cap (init t0) acts = Some s -> length (users s) <= cap.
Proof. exact users_le_capacity. Qed.
Print Assumptions C06_users_le_capacity.

(* the queue is always strictly sorted by rank ... *)
Theorem C06_queue_sorted : forall k cap t0 acts s, 1 <= cap ->
  run k cap (init t0) acts = Some s -> StronglySorted (fun x y => rank_ltb k x y = true) (queue s).
Proof. exact queue_sorted. Qed.
Print Assumptions C06_queue_sorted.

(* ... where rank = arrival for Resource, (priority, request time, preempting first, arrival) for the others *)
Theorem C06_rank_meaning : forall k x y, rank_ltb k x y = true <->
  match k with
  | KRes => rid x < rid y
  | _ => (rprio x < rprio y)%Z \/ (rprio x = rprio y /\
         ((rtime x < rtime y)%Z \/ (rtime x = rtime y /\
         ((rpre x = true /\ rpre y = false) \/ (rpre x = rpre y /\ rid x < rid y)))))
  end.
Proof. exact rank_meaning. Qed.
Print Assumptions C06_rank_meaning.

(* every admissible action succeeds (no exception), and the requests it grants are exactly a prefix `new`
   of the queue as it stands when the action's scan begins (qscan: the queue with the new request
   inserted / the cancelled request removed): grants take the first queue element, one by one *)
Theorem C06_grant_is_head : forall k cap t0 acts s a, 1 <= cap ->
  run k cap (init t0) acts = Some s -> adm s a = true ->
  exists s' new, step k cap s a = Some s' /\ qscan k s a = new ++ queue s' /\ granted s' = granted s ++ map rid new.
Proof. exact grant_is_head. Qed.
Print Assumptions C06_grant_is_head.

(* no overtaking: whoever is granted by an action ranks before everybody who still waits after it *)
Theorem C06_no_overtaking : forall k cap t0 acts s a s', 1 <= cap ->
  run k cap (init t0) acts = Some s -> adm s a = true -> step k cap s a = Some s' ->
  forall x y, In x (qscan k s a) -> In (rid x) (granted s') -> In y (queue s') -> rank_ltb k x y = true.
Proof. exact no_overtaking. Qed.
Print Assumptions C06_no_overtaking.

(* a free slot together with a waiter implies a triggered, unprocessed Release of this resource
   (whose processing rescans the queue) ... *)
Theorem C06_free_slot_has_release : forall k cap t0 acts s, 1 <= cap -> run k cap (init t0) acts = Some s ->
  length (users s) < cap -> queue s <> [] -> exists i, In (ERel i) (pending s).
Proof. exact free_slot_has_release. Qed.
Print Assumptions C06_free_slot_has_release.

(* ... hence whenever the clock may advance, nobody waits while a slot is free *)
Theorem C06_no_idle_slot_at_advance : forall k cap t0 acts s t, 1 <= cap -> run k cap (init t0) acts = Some s ->
  adm s (AAdvance t) = true -> queue s <> [] -> length (users s) = cap.
Proof. exact no_idle_slot_at_advance. Qed.
Print Assumptions C06_no_idle_slot_at_advance.

(* releasing a request that is not a user changes nothing, except that one more Release event is triggered *)
Theorem C06_release_idempotent : forall k cap t0 acts s r, 1 <= cap -> run k cap (init t0) acts = Some s ->
  ~ In r (map rid (users s)) ->
  step k cap s (ARelease r) =
    Some (mkState (users s) (queue s) (getq s) (pending s ++ [ERel (next_id s)]) (granted s) (intrs s) (dead s)
                  (S (next_id s)) (now s)).
Proof. exact release_idempotent. Qed.
Print Assumptions C06_release_idempotent.

(* in particular the second of two releases of the same request *)
Theorem C06_release_twice : forall k cap t0 acts s r s1, 1 <= cap -> run k cap (init t0) acts = Some s ->
  step k cap s (ARelease r) = Some s1 ->
  step k cap s1 (ARelease r) =
    Some (mkState (users s1) (queue s1) (getq s1) (pending s1 ++ [ERel (next_id s1)]) (granted s1) (intrs s1) (dead s1)
                  (S (next_id s1)) (now s1)).
Proof. exact release_twice. Qed.
Print Assumptions C06_release_twice.

(* One call of PreemptiveResource._do_put, exactly.  Free slot: plain grant.  Full: with w the LAST user of
   maximal key (users = l1 ++ w :: l2, nothing in l1 above w, everything in l2 strictly below w), w is
   evicted -- removed from users, eviction (victim w, by e) recorded; if w's process is still alive it gets
   Interrupt(Preempted(by = e's process, usage_since = w's usage_since, this resource)) (inotified) -- and e
   gets the slot in the same call IF AND ONLY IF e has preempt=True and w's key is strictly larger than e's;
   otherwise nothing changes.  (act = the active process; it holds nothing, so it is never the victim.) *)
Theorem C06_preempt_call : forall cap act s e, 1 <= cap -> length (users s) <= cap -> NoDup (map rid (users s)) ->
  (forall p, act = Some p -> forall u, In u (users s) -> rproc u <> p) ->
  if length (users s) <? cap then
    do_put KPreempt cap act s e =
      Some (mkState (users s ++ [grant (now s) e]) (queue s) (getq s) (pending s ++ [EReq (rid e)])
                    (granted s ++ [rid e]) (intrs s) (dead s) (next_id s) (now s), true, true)
  else exists w l1 l2, users s = l1 ++ w :: l2
       /\ (forall x, In x l1 -> key_ltb (rkey w) (rkey x) = false)
       /\ (forall x, In x l2 -> key_ltb (rkey x) (rkey w) = true)
       /\ do_put KPreempt cap act s e =
            if rpre e && key_ltb (rkey e) (rkey w)
            then Some (mkState ((l1 ++ l2) ++ [grant (now s) e]) (queue s) (getq s) (pending s ++ [EReq (rid e)])
                               (granted s ++ [rid e]) (intrs s ++ [mkIntr w e (negb (is_dead s (rproc w)))])
                               (dead s) (next_id s) (now s), true, true)
            else Some (s, false, false).
Proof. exact preempt_call. Qed.
Print Assumptions C06_preempt_call.

(* that user w -- worst (users s) is sorted(users, key)[-1] -- is the worst-ranked current user under the full rank
   (priority, time, preempting first, arrival), in every reachable state *)
Theorem C06_victim_is_worst_ranked : forall cap t0 acts s w u, 1 <= cap -> run KPreempt cap (init t0) acts = Some s ->
  worst (users s) = Some w -> In u (users s) -> u = w \/ rank_ltb KPreempt u w = true.
Proof. exact victim_is_worst_ranked. Qed.
Print Assumptions C06_victim_is_worst_ranked.

(* the same for a whole request() call on a PreemptiveResource nobody is waiting for, in any reachable state *)
Theorem C06_preempt_request : forall cap t0 acts s p prio pre, 1 <= cap ->
  run KPreempt cap (init t0) acts = Some s -> adm s (ARequest p prio pre) = true -> queue s = [] ->
  let e := new_req s p prio pre in
  if length (users s) <? cap then
    step KPreempt cap s (ARequest p prio pre) =
      Some (mkState (users s ++ [grant (now s) e]) [] [] (pending s ++ [EReq (next_id s)]) (granted s ++ [next_id s])
                    (intrs s) (dead s) (S (next_id s)) (now s))
  else exists w l1 l2, users s = l1 ++ w :: l2
       /\ (forall x, In x l1 -> key_ltb (rkey w) (rkey x) = false)
       /\ (forall x, In x l2 -> key_ltb (rkey x) (rkey w) = true)
       /\ step KPreempt cap s (ARequest p prio pre) =
            if pre && key_ltb (rkey e) (rkey w)
            then Some (mkState ((l1 ++ l2) ++ [grant (now s) e]) [] [] (pending s ++ [EReq (next_id s)])
                               (granted s ++ [next_id s]) (intrs s ++ [mkIntr w e (negb (is_dead s (rproc w)))])
                               (dead s) (S (next_id s)) (now s))
            else Some (mkState (users s) [e] [] (pending s) (granted s) (intrs s) (dead s) (S (next_id s)) (now s)).
Proof. exact preempt_request. Qed.
Print Assumptions C06_preempt_request.

(* over every history, including evictions that happen during a rescan (event processing, cancel) and evictions
   of users whose process has ended: the evicted user's key was strictly larger than the key of the preempting
   request that took its slot *)
Theorem C06_evictions_strict : forall k cap t0 acts s i, 1 <= cap -> run k cap (init t0) acts = Some s ->
  In i (intrs s) -> key_ltb (rkey (iby i)) (rkey (ivictim i)) = true /\ rpre (iby i) = true.
Proof. exact evictions_strict. Qed.
Print Assumptions C06_evictions_strict.

(* Resource and PriorityResource never interrupt anybody *)
Theorem C06_only_preemptive_evicts : forall k cap t0 acts s, 1 <= cap -> k <> KPreempt ->
  run k cap (init t0) acts = Some s -> intrs s = [].
Proof. exact only_preemptive_evicts. Qed.
Print Assumptions C06_only_preemptive_evicts.

(* every user carries its grant time: the usage_since that Preempted reports is a real time *)
Theorem C06_users_have_usage_since : forall k cap t0 acts s u, 1 <= cap -> run k cap (init t0) acts = Some s ->
  In u (users s) -> exists t, rsince u = Some t /\ (t <= now s)%Z.
Proof. exact users_have_usage_since. Qed.
Print Assumptions C06_users_have_usage_since.
