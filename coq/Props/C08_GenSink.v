(* C08 -- generator law and sink bookkeeping (statements only). *)
From Coq Require Import ZArith QArith List.
From ONL Require Import Elem.Packet Elem.GenSink Elem.GenSinkProofs.
Import ListNotations.

(* A DistPacketGenerator emits packet number k+1 (ids 1,2,...) at initial_delay plus the (k+1)-th partial
   sum of its inter-arrival draws, with the k-th drawn size, its creation time being the emission instant
   -- for every admissible execution of the generator automaton, whatever the draws. *)
Theorem C08_generator_law : forall c t0 acts g tr k t i s ct f,
  gen_run c (gen0 t0) acts = Some (g, tr) ->
  nth_error (emissions tr) k = Some (t, (i, s, ct, f)) ->
  t == t0 + g_init c + qsum (firstn (S k) (adraws tr)) /\ ct == t /\ i = (Z.of_nat k + 1)%Z /\
  nth_error (sdraws tr) k = Some s /\ f = g_flow c.
Proof. exact generator_law_nth. Qed.
Print Assumptions C08_generator_law.

(* ... and it goes on drawing exactly as long as the previous emission instant is before `finish` *)
Theorem C08_generator_until_finish : forall c acts g g' tr, gen_run c g acts = Some (g', tr) ->
  Forall (fun e => match e with
                   | (t, GInitFire a, _) | (t, GFire _ a, _) => (a <> None <-> before_finish c t = true)
                   | _ => True
                   end) tr.
Proof. exact gen_draw_iff. Qed.
Print Assumptions C08_generator_until_finish.

(* A PacketSink's per-key packet and byte counts, waits (arrival - creation), sizes, creation times,
   arrival times (absolute or inter-arrival, the first relative to 0) are exactly those of the packets
   delivered to it under that key, in delivery order -- for every delivery sequence. *)
Theorem C08_sink_books : forall c ds k,
  let r := lookup k (sink_run c ds) in
  let dk := of_key k ds in
  k_packets r = Z.of_nat (length dk) /\
  k_bytes r = zsum (map dsize dk) /\
  (rec_waits c = true -> k_waits r = map (fun d => dnow d - dptime d) dk /\ k_sizes r = map dsize dk /\ k_times r = map dptime dk) /\
  (rec_arrivals c = true ->
     (absolute_arrivals c = true -> k_arrivals r = map dnow dk) /\
     (absolute_arrivals c = false -> k_arrivals r = diffs 0 (map dnow dk)) /\
     k_first r = match dk with d :: _ => dnow d | [] => 0 end /\
     k_last r = last (map dnow dk) 0).
Proof. exact sink_books. Qed.
Print Assumptions C08_sink_books.
