(* C14 -- NON-VACUITY of the theorems of Props/C14.v, Props/C14_Bridge.v and Props/C14_BridgeVC.v.  Witness execution:
   Elem/WFQExamples.v ([fx_acts], accepted by the WFQ model with weights {0: 1, 1: 2} and by the VirtualClock model with
   vticks {0: 2, 1: 1}; rate 1024 bit/s; flows 1 and 5 share class 1): a static backlog p0 p1 p2 p3 at 0 -- p0 and p2
   get EQUAL stamps --, p5 arrives at 3 during a transmission, the scheduler empties at 8 (virtual time and stamps reset),
   p4 arrives at 9.  Service order p1 p0 p2 p3 p5 p4.

   Coverage (theorem -> witness):
     C14_wfq_stamp, C14_wfq_never_raises                                   -> C14_ex_wfq_stamp
     C14_wfq_vtime (put / end of a transmission / the end that empties the scheduler), C14_wfq_active,
     C14_wfq_last_le, C14_wfq_reset (a state that is not the initial one)   -> C14_ex_wfq_vtime
     C14_vc_stamp, C14_vc_never_raises                                      -> C14_ex_vc_stamp
     C14_wfq_stamp_order_service, C14_vc_stamp_order_service,
     C14_wfq_store_keys_distinct, C14_vc_store_keys_distinct                -> C14_ex_stamp_order_service
     C14_wfq_static_fairness                                                -> C14_ex_wfq_static_fairness
     C14_key_order_total, C14_pq_refines_heapq_pop, C14_pq_refines_heapq_push -> C14_ex_key_order_and_heap
     C14_gen_wfq_update_vtime, C14_gen_wfq_put, C14_gen_wfq_act_put         -> C14_ex_gen_wfq
     C14_gen_vc_put, C14_gen_vc_act_put                                     -> C14_ex_gen_vc
   Unconditional: C14_gen_wfq_reset_vtime.  Already a witness: C14_wfq_stamp_refuted_before_fix. *)
From Coq Require Import ZArith QArith Qminmax Qabs List Bool Permutation Lia.
From ONL Require Import Elem.Packet Elem.StoreQ Elem.HeapList Elem.Heap Elem.HeapProofs Elem.WFQServer Elem.WFQServerProofs
  Elem.WFQServerTrace Elem.WFQ Elem.WFQProofs Elem.VC Elem.VCProofs Elem.WFQInst Elem.WFQFair Elem.WFQExamples.
From ONL Require Import Gen.Extracted_wfq Elem.WFQBridge Gen.Extracted_vc Elem.VCBridge.
From ONL Require Import Props.C14 Props.C14_Bridge Props.C14_BridgeVC.
Import ListNotations.

(* the PriorityStore entries of the static backlog: (instant of the put, (stamp, arrival counter, packet)) *)
Definition fx_w0 : entry := (0, {| istamp := 2; iseq := 1; ipkt := fx_p0 |}).
Definition fx_w1 : entry := (0, {| istamp := 1; iseq := 2; ipkt := fx_p1 |}).
Definition fx_w2 : entry := (0, {| istamp := 2; iseq := 3; ipkt := fx_p2 |}).
Definition fx_w3 : entry := (0, {| istamp := 3; iseq := 4; ipkt := fx_p3 |}).

(* ---- WFQ: the stamp.  State after 17 actions: instant 3, p0 in transmission, p2 p3 waiting, F_0 = 3, V = 2/3 as of instant 2.
   put(p5), class 0, weight 1: V becomes 2/3 + (3 - 2)/3 = 1, stamp max(3, 1) + 8*128/1024 = 4.
   State after 38 actions: instant 9, idle since 8 (everything reset).  put(p4), class 1, weight 2: the FIRST packet of a busy
   period is stamped max(0, 0) + 8*128/(1024*2) = 1/2. *)
Theorem C14_ex_wfq_stamp :
  wcfg_ok wfx_cfg /\ wfix_first wfx_cfg = true /\
  wreach wfx_cfg (wfx_state 17) /\ wconf wfx_cfg fx_p5 /\
  wreach wfx_cfg (wfx_state 38) /\ wconf wfx_cfg fx_p4 /\
  (* the situation *)
  now (wfx_state 17) = 3 /\ insys (WS wfx_cfg) (wfx_state 17) = [fx_p0; fx_p2; fx_p3] /\
  fin (stm (wfx_state 17)) 0 = 3 /\ vtime (stm (wfx_state 17)) = 2 # 3 /\
  now (wfx_state 38) = 9 /\ insys (WS wfx_cfg) (wfx_state 38) = [] /\
  (* conclusions *)
  (exists F, wfq_act wfx_cfg (wfx_state 17) (FPut fx_p5) = Ok (wfx_state 18, []) /\
     zlookup (wcls wfx_cfg fx_p5) (wweights wfx_cfg) = Some 1%Z /\
     F == Qmax (fin (stm (wfx_state 17)) (wcls wfx_cfg fx_p5)) (vtime (stm (wfx_state 18)))
          + (inject_Z (psize fx_p5) * 8) / (wrate wfx_cfg * inject_Z 1) /\
     fin (stm (wfx_state 18)) (wcls wfx_cfg fx_p5) == F /\ F == 4 /\ vtime (stm (wfx_state 18)) == 1 /\
     fin (stm (wfx_state 18)) 1 == fin (stm (wfx_state 17)) 1 /\
     exists F', F' == F /\
       items (store (wfx_state 18)) = items (store (wfx_state 17)) ++ [(3, {| istamp := F'; iseq := 5; ipkt := fx_p5 |})]) /\
  (exists F, wfq_act wfx_cfg (wfx_state 38) (FPut fx_p4) = Ok (wfx_state 39, []) /\
     fin (stm (wfx_state 39)) (wcls wfx_cfg fx_p4) == F /\ F == 1 # 2 /\
     items (store (wfx_state 39)) = [(9, {| istamp := 1 # 2; iseq := 6; ipkt := fx_p4 |})]) /\
  wfq_act wfx_cfg (wfx_state 17) (FPut fx_p5) <> Raises /\
  (* run() noticing the end of the last transmission (state after 36 actions): update_vtime does not divide by zero *)
  wfq_act wfx_cfg (wfx_state 36) FChildEnd <> Raises.
Proof.
  assert (C5 : wconf wfx_cfg fx_p5) by (apply fx_wconf; cbn; tauto).
  assert (C4 : wconf wfx_cfg fx_p4) by (apply fx_wconf; cbn; tauto).
  split; [exact wfx_cfg_ok|]. split; [reflexivity|]. split; [exact (wfx_reach 17)|]. split; [exact C5|].
  split; [exact (wfx_reach 38)|]. split; [exact C4|].
  split; [vm_compute; reflexivity|]. split; [vm_compute; reflexivity|]. split; [vm_compute; reflexivity|].
  split; [vm_compute; reflexivity|]. split; [vm_compute; reflexivity|]. split; [vm_compute; reflexivity|].
  split.
  { destruct (C14_wfq_stamp _ wfx_cfg_ok eq_refl _ _ (wfx_reach 17) C5) as (s' & w & F & A & B & C & D & E & F' & G1 & G2).
    assert (Es : s' = wfx_state 18).
    { assert (X : wfq_act wfx_cfg (wfx_state 17) (FPut fx_p5) = Ok (wfx_state 18, [])) by (vm_compute; reflexivity).
      rewrite X in A. symmetry. exact (ok_state_eq _ _ _ _ A). }
    subst s'. assert (Ew : w = 1%Z) by (symmetry; exact (some_eq _ _ (eq_trans (eq_sym (eq_refl : zlookup (wcls wfx_cfg fx_p5) (wweights wfx_cfg) = Some 1%Z)) B))). subst w.
    exists F. split; [exact A|]. split; [exact B|]. split; [exact C|]. split; [exact D|].
    split; [rewrite <- D; vm_compute; reflexivity|]. split; [vm_compute; reflexivity|].
    assert (N01 : 1%Z <> wcls wfx_cfg fx_p5) by (vm_compute; discriminate).
    assert (I17 : insys (WS wfx_cfg) (wfx_state 17) <> []) by (vm_compute; discriminate).
    split; [exact (E 1%Z N01 I17)|].
    exists F'. split; [exact G1|exact G2]. }
  split.
  { destruct (C14_wfq_stamp _ wfx_cfg_ok eq_refl _ _ (wfx_reach 38) C4) as (s' & w & F & A & _ & _ & D & _).
    assert (Es : s' = wfx_state 39).
    { assert (X : wfq_act wfx_cfg (wfx_state 38) (FPut fx_p4) = Ok (wfx_state 39, [])) by (vm_compute; reflexivity).
      rewrite X in A. symmetry. exact (ok_state_eq _ _ _ _ A). }
    subst s'. exists F. split; [exact A|]. split; [exact D|]. split; [rewrite <- D; vm_compute; reflexivity|vm_compute; reflexivity]. }
  split.
  - apply (C14_wfq_never_raises _ wfx_cfg_ok _ _ (wfx_reach 17)). intros p E. injection E as <-. exact C5.
  - apply (C14_wfq_never_raises _ wfx_cfg_ok _ _ (wfx_reach 36)). intros p E. discriminate E.
Qed.
Print Assumptions C14_ex_wfq_stamp.

(* ---- WFQ: virtual time, active set, reset.  Three steps from reachable states: the put of p5 at 3 (state 17: classes 0 and 1
   active, weight sum 3), run() noticing the end of p1's transmission at 2 (state 13: the first update since 0), and run()
   noticing the end of the last transmission at 8 (state 36): the scheduler empties, V and all F return to 0. *)
Theorem C14_ex_wfq_vtime :
  wcfg_ok wfx_cfg /\
  wreach wfx_cfg (wfx_state 17) /\ (forall p, FPut fx_p5 = FPut p -> wconf wfx_cfg p) /\
  wfq_act wfx_cfg (wfx_state 17) (FPut fx_p5) = Ok (wfx_state 18, []) /\
  wreach wfx_cfg (wfx_state 13) /\ wfq_act wfx_cfg (wfx_state 13) FChildEnd = Ok (wfx_state 14, []) /\
  wreach wfx_cfg (wfx_state 36) /\ wfq_act wfx_cfg (wfx_state 36) FChildEnd = Ok (wfx_state 37, []) /\
  wreach wfx_cfg (wfx_state 37) /\ insys (WS wfx_cfg) (wfx_state 37) = [] /\
  (* the situation *)
  active (stm (wfx_state 17)) = [0; 1]%Z /\ insys (WS wfx_cfg) (wfx_state 17) <> [] /\
  vtime (stm (wfx_state 36)) = 3 /\ fin (stm (wfx_state 36)) 0 = 4 /\ now (wfx_state 37) = 8 /\
  (* conclusions *)
  (last_time (stm (wfx_state 18)) = now (wfx_state 17) /\
   exists W, weight_sum (wweights wfx_cfg) (active (stm (wfx_state 17))) = Some W /\ (0 < W)%Z /\ W = 3%Z /\
     vtime (stm (wfx_state 18)) == vtime (stm (wfx_state 17)) + (now (wfx_state 17) - last_time (stm (wfx_state 17))) / inject_Z W) /\
  (last_time (stm (wfx_state 14)) = now (wfx_state 13) /\
   exists W, weight_sum (wweights wfx_cfg) (active (stm (wfx_state 13))) = Some W /\ (0 < W)%Z /\
     vtime (stm (wfx_state 14)) == vtime (stm (wfx_state 13)) + (now (wfx_state 13) - last_time (stm (wfx_state 13))) / inject_Z W /\
     vtime (stm (wfx_state 14)) == 2 # 3) /\
  (last_time (stm (wfx_state 37)) = now (wfx_state 36) /\ vtime (stm (wfx_state 37)) == 0 /\ forall c, fin (stm (wfx_state 37)) c == 0) /\
  (forall c, In c (active (stm (wfx_state 17))) <-> exists p, In p (insys (WS wfx_cfg) (wfx_state 17)) /\ wcls wfx_cfg p = c) /\
  last_time (stm (wfx_state 17)) <= now (wfx_state 17) /\ last_time (stm (wfx_state 17)) = 2 /\
  (vtime (stm (wfx_state 37)) == 0 /\ forall c, fin (stm (wfx_state 37)) c == 0).
Proof.
  assert (C5 : forall p, FPut fx_p5 = FPut p -> wconf wfx_cfg p) by (intros p E; injection E as <-; apply fx_wconf; cbn; tauto).
  assert (A17 : wfq_act wfx_cfg (wfx_state 17) (FPut fx_p5) = Ok (wfx_state 18, [])) by (vm_compute; reflexivity).
  assert (A13 : wfq_act wfx_cfg (wfx_state 13) FChildEnd = Ok (wfx_state 14, [])) by (vm_compute; reflexivity).
  assert (A36 : wfq_act wfx_cfg (wfx_state 36) FChildEnd = Ok (wfx_state 37, [])) by (vm_compute; reflexivity).
  assert (I37 : insys (WS wfx_cfg) (wfx_state 37) = []) by (vm_compute; reflexivity).
  assert (I17 : insys (WS wfx_cfg) (wfx_state 17) <> []) by (vm_compute; discriminate).
  assert (NP : forall a p, a = FChildEnd -> a = FPut p -> wconf wfx_cfg p) by (intros a p -> E; discriminate E).
  split; [exact wfx_cfg_ok|]. split; [exact (wfx_reach 17)|]. split; [exact C5|]. split; [exact A17|].
  split; [exact (wfx_reach 13)|]. split; [exact A13|]. split; [exact (wfx_reach 36)|]. split; [exact A36|].
  split; [exact (wfx_reach 37)|]. split; [exact I37|].
  split; [vm_compute; reflexivity|]. split; [exact I17|]. split; [vm_compute; reflexivity|]. split; [vm_compute; reflexivity|].
  split; [vm_compute; reflexivity|].
  split.
  { pose proof (C14_wfq_vtime _ wfx_cfg_ok _ _ _ _ (wfx_reach 17) C5 A17) as (L & _ & K). cbv beta iota in K.
    destruct (K I17) as (W & W1 & W2 & W3). split; [exact L|]. exists W. split; [exact W1|]. split; [exact W2|].
    split; [|exact W3]. assert (X : weight_sum (wweights wfx_cfg) (active (stm (wfx_state 17))) = Some 3%Z) by (vm_compute; reflexivity).
    exact (some_eq _ _ (eq_trans (eq_sym W1) X)). }
  split.
  { pose proof (C14_wfq_vtime _ wfx_cfg_ok _ _ _ _ (wfx_reach 13) (fun p => NP _ p eq_refl) A13) as (L & W & W1 & W2 & K & _).
    split; [exact L|]. exists W. split; [exact W1|]. split; [exact W2|].
    assert (I14 : insys (WS wfx_cfg) (wfx_state 14) <> []) by (vm_compute; discriminate).
    split; [exact (proj1 (K I14))|vm_compute; reflexivity]. }
  split.
  { pose proof (C14_wfq_vtime _ wfx_cfg_ok _ _ _ _ (wfx_reach 36) (fun p => NP _ p eq_refl) A36) as (L & W & _ & _ & _ & K).
    split; [exact L|]. exact (K I37). }
  split; [intros c; exact (C14_wfq_active _ wfx_cfg_ok _ c (wfx_reach 17))|].
  split; [exact (C14_wfq_last_le _ wfx_cfg_ok _ (wfx_reach 17))|]. split; [vm_compute; reflexivity|].
  exact (C14_wfq_reset _ wfx_cfg_ok _ (wfx_reach 37) I37).
Qed.
Print Assumptions C14_ex_wfq_vtime.

(* ---- VirtualClock: the stamp.  State 17 (instant 3, auxVC_0 = 4): put(p5), class 0, vtick 2: max(3, 4) + 2 = 6 (the class clock
   leads).  State 38 (instant 9, auxVC_1 = 2): put(p4), class 1, vtick 1: max(9, 2) + 1 = 10 (real time leads). *)
Theorem C14_ex_vc_stamp :
  vcfg_ok vcx_cfg /\
  vreach vcx_cfg (vcx_state 17) /\ vconf vcx_cfg fx_p5 /\ vreach vcx_cfg (vcx_state 38) /\ vconf vcx_cfg fx_p4 /\
  now (vcx_state 17) = 3 /\ (stm (vcx_state 17) : vst) 0%Z = 4 /\ now (vcx_state 38) = 9 /\ (stm (vcx_state 38) : vst) 1%Z = 2 /\
  (* conclusions *)
  (exists vt, vc_act vcx_cfg (vcx_state 17) (FPut fx_p5) = Ok (vcx_state 18, []) /\
     zlookup (vcls vcx_cfg fx_p5) (vticks vcx_cfg) = Some vt /\ vt = 2 /\
     (stm (vcx_state 18) : vst) (vcls vcx_cfg fx_p5) == Qmax (now (vcx_state 17)) ((stm (vcx_state 17) : vst) (vcls vcx_cfg fx_p5)) + vt /\
     (stm (vcx_state 18) : vst) 0%Z == 6 /\ (stm (vcx_state 18) : vst) 1%Z == (stm (vcx_state 17) : vst) 1%Z /\
     exists F', F' == (stm (vcx_state 18) : vst) (vcls vcx_cfg fx_p5) /\
       items (store (vcx_state 18)) = items (store (vcx_state 17)) ++ [(3, {| istamp := F'; iseq := 5; ipkt := fx_p5 |})]) /\
  (exists vt, vc_act vcx_cfg (vcx_state 38) (FPut fx_p4) = Ok (vcx_state 39, []) /\
     (stm (vcx_state 39) : vst) (vcls vcx_cfg fx_p4) == Qmax (now (vcx_state 38)) ((stm (vcx_state 38) : vst) (vcls vcx_cfg fx_p4)) + vt /\
     (stm (vcx_state 39) : vst) 1%Z == 10) /\
  vc_act vcx_cfg (vcx_state 17) (FPut fx_p5) <> Raises.
Proof.
  assert (C5 : vconf vcx_cfg fx_p5) by (apply fx_vconf; cbn; tauto).
  assert (C4 : vconf vcx_cfg fx_p4) by (apply fx_vconf; cbn; tauto).
  split; [exact vcx_cfg_ok|]. split; [exact (vcx_reach 17)|]. split; [exact C5|]. split; [exact (vcx_reach 38)|]. split; [exact C4|].
  split; [vm_compute; reflexivity|]. split; [vm_compute; reflexivity|]. split; [vm_compute; reflexivity|]. split; [vm_compute; reflexivity|].
  split.
  { destruct (C14_vc_stamp _ _ _ (vcx_reach 17) C5) as (s' & vt & A & B & C & D & F' & G1 & G2).
    assert (Es : s' = vcx_state 18).
    { assert (X : vc_act vcx_cfg (vcx_state 17) (FPut fx_p5) = Ok (vcx_state 18, [])) by (vm_compute; reflexivity).
      rewrite X in A. symmetry. exact (ok_state_eq _ _ _ _ A). }
    subst s'. exists vt. split; [exact A|]. split; [exact B|].
    split; [exact (some_eq _ _ (eq_trans (eq_sym B) (eq_refl : zlookup (vcls vcx_cfg fx_p5) (vticks vcx_cfg) = Some 2)))|]. split; [exact C|]. split; [vm_compute; reflexivity|].
    assert (N01 : 1%Z <> vcls vcx_cfg fx_p5) by (vm_compute; discriminate).
    split; [exact (D 1%Z N01)|]. exists F'. split; [exact G1|exact G2]. }
  split.
  { destruct (C14_vc_stamp _ _ _ (vcx_reach 38) C4) as (s' & vt & A & _ & C & _).
    assert (Es : s' = vcx_state 39).
    { assert (X : vc_act vcx_cfg (vcx_state 38) (FPut fx_p4) = Ok (vcx_state 39, [])) by (vm_compute; reflexivity).
      rewrite X in A. symmetry. exact (ok_state_eq _ _ _ _ A). }
    subst s'. exists vt. split; [exact A|]. split; [exact C|vm_compute; reflexivity]. }
  apply (C14_vc_never_raises _ vcx_cfg_ok _ _ (vcx_reach 17)). intros p E. injection E as <-. exact C5.
Qed.
Print Assumptions C14_ex_vc_stamp.

(* ---- service in stamp order, both schedulers, on the whole execution; the store after the four puts at 0 holds two entries with
   EQUAL stamps (p0 and p2: 2) and still has pairwise distinct keys *)
Theorem C14_ex_stamp_order_service :
  wcfg_ok wfx_cfg /\ wadm wfx_cfg fx_acts /\
  wfq_run wfx_cfg (wfq0 wfx_cfg) fx_acts = Some (wfx_state 45, wfx_trace 45) /\
  vcfg_ok vcx_cfg /\ vadm vcx_cfg fx_acts /\
  vc_run vcx_cfg (vc0 vcx_cfg) fx_acts = Some (vcx_state 45, vcx_trace 45) /\
  wreach wfx_cfg (wfx_state 5) /\ vreach vcx_cfg (vcx_state 5) /\
  (* the execution *)
  items (store (wfx_state 5)) = [fx_w0; fx_w1; fx_w2; fx_w3] /\
  map (fun e => (uid (epkt e), istamp (snd e))) (items (store (vcx_state 5))) = [(0%nat, 2); (1%nat, 1); (2%nat, 2); (3%nat, 4)] /\
  fwds (WS wfx_cfg) (wfx_trace 45) = [fx_p1; fx_p0; fx_p2; fx_p3; fx_p5; fx_p4] /\
  fwds (VS vcx_cfg) (vcx_trace 45) = [fx_p1; fx_p0; fx_p2; fx_p3; fx_p5; fx_p4] /\
  (* conclusions *)
  sel_ok (WS wfx_cfg) (wcls wfx_cfg) (wfq0 wfx_cfg) None (wfx_trace 45) /\
  sel_ok (VS vcx_cfg) (vcls vcx_cfg) (vc0 vcx_cfg) None (vcx_trace 45) /\
  distinct_keys entry_ltb (items (store (wfx_state 5))) /\ distinct_keys entry_ltb (items (store (vcx_state 5))) /\
  entry_ltb fx_w0 fx_w2 = true.
Proof.
  assert (HW : wfq_run wfx_cfg (wfq0 wfx_cfg) fx_acts = Some (wfx_state 45, wfx_trace 45)) by (apply (wfx_run_ok 45); vm_compute; reflexivity).
  assert (HV : vc_run vcx_cfg (vc0 vcx_cfg) fx_acts = Some (vcx_state 45, vcx_trace 45)) by (apply (vcx_run_ok 45); vm_compute; reflexivity).
  split; [exact wfx_cfg_ok|]. split; [exact (wfx_adm 45)|]. split; [exact HW|].
  split; [exact vcx_cfg_ok|]. split; [exact (vcx_adm 45)|]. split; [exact HV|].
  split; [exact (wfx_reach 5)|]. split; [exact (vcx_reach 5)|].
  split; [vm_compute; reflexivity|]. split; [vm_compute; reflexivity|]. split; [vm_compute; reflexivity|]. split; [vm_compute; reflexivity|].
  split; [exact (C14_wfq_stamp_order_service _ wfx_cfg_ok _ _ _ (wfx_adm 45) HW)|].
  split; [exact (C14_vc_stamp_order_service _ vcx_cfg_ok _ _ _ (vcx_adm 45) HV)|].
  split; [exact (C14_wfq_store_keys_distinct _ wfx_cfg_ok _ (wfx_reach 5))|].
  split; [exact (C14_vc_store_keys_distinct _ vcx_cfg_ok _ (vcx_reach 5))|].
  vm_compute; reflexivity.
Qed.
Print Assumptions C14_ex_stamp_order_service.

(* ---- static backlog: the first 16 actions (all four puts, then only service: no FPut after the first FChildInit).  In the state
   reached p1 (class 1) has been transmitted and p0 (class 0) is in transmission; class 0 still holds p0 p3, class 1 holds p2:
   W_0 / w_0 = 256 / 1, W_1 / w_1 = 256 / 2, difference 128 <= 256/1 + 256/2 = 384 *)
Theorem C14_ex_wfq_static_fairness :
  wcfg_ok wfx_cfg /\ wfix_first wfx_cfg = true /\ (0 <= 256)%Z /\
  wadm wfx_cfg (firstn 16 fx_acts) /\ (forall p, In (FPut p) (firstn 16 fx_acts) -> (psize p <= 256)%Z) /\
  static_from false (firstn 16 fx_acts) /\
  wfq_run wfx_cfg (wfq0 wfx_cfg) (firstn 16 fx_acts) = Some (wfx_state 16, wfx_trace 16) /\
  zlookup 0%Z (wweights wfx_cfg) = Some 1%Z /\ zlookup 1%Z (wweights wfx_cfg) = Some 2%Z /\
  holds wfx_cfg 0 (wfx_state 16) /\ holds wfx_cfg 1 (wfx_state 16) /\
  (* the situation *)
  held (WS wfx_cfg) (wfx_state 16) = [fx_p0; fx_p2; fx_p3] /\
  started_bytes wfx_cfg 0 (wfx_trace 16) = 256%Z /\ started_bytes wfx_cfg 1 (wfx_trace 16) = 256%Z /\
  (* conclusion *)
  Qabs (inject_Z (started_bytes wfx_cfg 0 (wfx_trace 16)) / inject_Z 1 - inject_Z (started_bytes wfx_cfg 1 (wfx_trace 16)) / inject_Z 2)
    <= inject_Z 256 / inject_Z 1 + inject_Z 256 / inject_Z 2 /\
  Qabs (inject_Z (started_bytes wfx_cfg 0 (wfx_trace 16)) / inject_Z 1 - inject_Z (started_bytes wfx_cfg 1 (wfx_trace 16)) / inject_Z 2) == 128.
Proof.
  assert (SZ : forall p, In (FPut p) (firstn 16 fx_acts) -> (psize p <= 256)%Z).
  { intros p H. apply fx_puts in H. cbn in H.
    repeat (destruct H as [<-|H]; [vm_compute; discriminate|]). destruct H. }
  assert (SF : static_from false (firstn 16 fx_acts)) by (cbn; tauto).
  assert (HR : wfq_run wfx_cfg (wfq0 wfx_cfg) (firstn 16 fx_acts) = Some (wfx_state 16, wfx_trace 16)) by (apply (wfx_run_ok 16); vm_compute; reflexivity).
  assert (H0 : holds wfx_cfg 0 (wfx_state 16)) by (exists fx_p0; split; [vm_compute; tauto|reflexivity]).
  assert (H1 : holds wfx_cfg 1 (wfx_state 16)) by (exists fx_p2; split; [vm_compute; tauto|reflexivity]).
  assert (L : (0 <= 256)%Z) by lia.
  split; [exact wfx_cfg_ok|]. split; [reflexivity|]. split; [exact L|]. split; [exact (wfx_adm 16)|]. split; [exact SZ|].
  split; [exact SF|]. split; [exact HR|]. split; [reflexivity|]. split; [reflexivity|]. split; [exact H0|]. split; [exact H1|].
  split; [vm_compute; reflexivity|]. split; [vm_compute; reflexivity|]. split; [vm_compute; reflexivity|].
  split; [exact (C14_wfq_static_fairness _ wfx_cfg_ok eq_refl 256%Z L _ _ _ 0%Z 1%Z 1%Z 2%Z (wfx_adm 16) SZ SF HR eq_refl eq_refl H0 H1)|].
  vm_compute; reflexivity.
Qed.
Print Assumptions C14_ex_wfq_static_fairness.

(* ---- the key order and CPython's heapq.  l = the store after the four puts at 0 in arrival order; h = the array heapq holds after
   the same four pushes.  p0 and p2 have EQUAL stamps and arrival instants: the arrival counters 1 <> 3 decide, p0 first. *)
Definition fx_heap : list entry := [fx_w1; fx_w0; fx_w2; fx_w3].
Definition fx_w5 : entry := (3, {| istamp := 4; iseq := 5; ipkt := fx_p5 |}).

Theorem C14_ex_key_order_and_heap :
  (* C14_key_order_total *)
  iseq (snd fx_w0) <> iseq (snd fx_w2) /\ istamp (snd fx_w0) = istamp (snd fx_w2) /\ fst fx_w0 = fst fx_w2 /\
  (* C14_pq_refines_heapq_pop, C14_pq_refines_heapq_push *)
  heap_inv entry_ltb fx_heap /\ Permutation fx_heap [fx_w0; fx_w1; fx_w2; fx_w3] /\
  distinct_keys entry_ltb [fx_w0; fx_w1; fx_w2; fx_w3] /\
  pq_pop [fx_w0; fx_w1; fx_w2; fx_w3] = Some (fx_w1, [fx_w0; fx_w2; fx_w3]) /\
  heap_pushall entry_ltb [] [fx_w0; fx_w1; fx_w2; fx_w3] = Some fx_heap /\
  (* conclusions *)
  (entry_ltb fx_w0 fx_w2 = true \/ entry_ltb fx_w2 fx_w0 = true) /\ entry_ltb fx_w0 fx_w2 = true /\ entry_ltb fx_w2 fx_w0 = false /\
  (exists h', heappop entry_ltb fx_heap = Some (fx_w1, h') /\ heap_inv entry_ltb h' /\ Permutation h' [fx_w0; fx_w2; fx_w3] /\
              distinct_keys entry_ltb [fx_w0; fx_w2; fx_w3] /\ h' = [fx_w0; fx_w3; fx_w2]) /\
  (exists h', heappush entry_ltb fx_heap fx_w5 = Some h' /\ heap_inv entry_ltb h' /\
              Permutation h' (pq_push fx_w5 [fx_w0; fx_w1; fx_w2; fx_w3]) /\ h' = [fx_w1; fx_w0; fx_w2; fx_w3; fx_w5]).
Proof.
  assert (NE : iseq (snd fx_w0) <> iseq (snd fx_w2)) by (cbn; discriminate).
  assert (HI : heap_inv entry_ltb fx_heap).
  { intros i a p Hi Ha Hp. destruct i as [|[|[|[|i]]]]; [lia| | | |destruct i; discriminate Ha];
      cbn in Ha, Hp; injection Ha as <-; injection Hp as <-; vm_compute; reflexivity. }
  assert (PM : Permutation fx_heap [fx_w0; fx_w1; fx_w2; fx_w3]) by apply perm_swap.
  assert (DK : distinct_keys entry_ltb [fx_w0; fx_w1; fx_w2; fx_w3]).
  { assert (E : items (store (wfx_state 5)) = [fx_w0; fx_w1; fx_w2; fx_w3]) by (vm_compute; reflexivity).
    rewrite <- E. exact (C14_wfq_store_keys_distinct _ wfx_cfg_ok _ (wfx_reach 5)). }
  assert (PP : pq_pop [fx_w0; fx_w1; fx_w2; fx_w3] = Some (fx_w1, [fx_w0; fx_w2; fx_w3])) by (vm_compute; reflexivity).
  split; [exact NE|]. split; [reflexivity|]. split; [reflexivity|]. split; [exact HI|]. split; [exact PM|]. split; [exact DK|].
  split; [exact PP|]. split; [vm_compute; reflexivity|].
  split; [exact (C14_key_order_total _ _ NE)|]. split; [vm_compute; reflexivity|]. split; [vm_compute; reflexivity|].
  split.
  { destruct (C14_pq_refines_heapq_pop _ _ HI PM DK _ _ PP) as (h' & A & B & C & D).
    exists h'. split; [exact A|]. split; [exact B|]. split; [exact C|]. split; [exact D|].
    assert (X : heappop entry_ltb fx_heap = Some (fx_w1, [fx_w0; fx_w3; fx_w2])) by (vm_compute; reflexivity).
    exact (f_equal snd (some_eq _ _ (eq_trans (eq_sym A) X))). }
  destruct (C14_pq_refines_heapq_push _ _ fx_w5 HI PM) as (h' & A & B & C).
  exists h'. split; [exact A|]. split; [exact B|]. split; [exact C|].
  assert (X : heappush entry_ltb fx_heap fx_w5 = Some [fx_w1; fx_w0; fx_w2; fx_w3; fx_w5]) by (vm_compute; reflexivity).
  exact (some_eq _ _ (eq_trans (eq_sym A) X)).
Qed.
Print Assumptions C14_ex_key_order_and_heap.

(* ---- second tie, WFQ: the generated put / update_vtime on the fields of the state after 17 actions (instant 3, arrivals = 4,
   active set {0, 1} with weight sum 3 <> 0), packet p5 (class 0, weight 1) *)
Theorem C14_ex_gen_wfq :
  wfix_first wfx_cfg = true /\
  weight_sum (wweights wfx_cfg) (active (stm (wfx_state 17))) = Some 3%Z /\ 3%Z <> 0%Z /\
  zlookup (wf2c wfx_cfg (flow fx_p5)) (wweights wfx_cfg) = Some 1%Z /\
  (active (stm (wfx_state 17)) <> [] ->
     exists ws, weight_sum (wweights wfx_cfg) (active (stm (wfx_state 17))) = Some ws /\ ws <> 0%Z) /\
  active (stm (wfx_state 17)) <> [] /\ seq (wfx_state 17) = 4%nat /\
  (* conclusions *)
  (exists v, update_vtime wfx_cfg 3 (stm (wfx_state 17)) = Some v /\
             v == w_vtime (fst (wfq_gen_update_vtime wfx_cfg 3 (stm (wfx_state 17)) 4)) /\ v == 1) /\
  (exists s' F, wfq_put wfx_cfg 3 (stm (wfx_state 17)) fx_p5 = Some (s', F) /\
     wst_agrees s' (fst (wfq_gen_put wfx_cfg 3 (stm (wfx_state 17)) 4 fx_p5 1)) /\
     w_arrivals (fst (wfq_gen_put wfx_cfg 3 (stm (wfx_state 17)) 4 fx_p5 1)) = 5%Z /\
     F == w_finish_times (fst (wfq_gen_put wfx_cfg 3 (stm (wfx_state 17)) 4 fx_p5 1)) 0%Z /\ F == 4 /\
     snd (wfq_gen_put wfx_cfg 3 (stm (wfx_state 17)) 4 fx_p5 1)
       = [Extracted_wfq.FxAddToQueue; Extracted_wfq.FxActiveAdd 0%Z; Extracted_wfq.FxStorePut (w_finish_times (fst (wfq_gen_put wfx_cfg 3 (stm (wfx_state 17)) 4 fx_p5 1)) 0%Z) 3 5]) /\
  (exists sv' stamp, wfq_act wfx_cfg (wfx_state 17) (FPut fx_p5) = Ok (sv', []) /\
     store sv' = sq_put pq_push (now (wfx_state 17)) {| istamp := Qred stamp; iseq := seq sv'; ipkt := fx_p5 |} (store (wfx_state 17)) /\
     nrecv sv' = (nrecv (wfx_state 17) + 1)%Z /\ qcount sv' 0%Z = (qcount (wfx_state 17) 0%Z + 1)%Z).
Proof.
  assert (WS3 : weight_sum (wweights wfx_cfg) (active (stm (wfx_state 17))) = Some 3%Z) by (vm_compute; reflexivity).
  assert (N3 : 3%Z <> 0%Z) by discriminate.
  assert (ZL : zlookup (wf2c wfx_cfg (flow fx_p5)) (wweights wfx_cfg) = Some 1%Z) by reflexivity.
  assert (AW : active (stm (wfx_state 17)) <> [] ->
     exists ws, weight_sum (wweights wfx_cfg) (active (stm (wfx_state 17))) = Some ws /\ ws <> 0%Z) by (intros _; exists 3%Z; split; [exact WS3|exact N3]).
  assert (NN : now (wfx_state 17) = 3) by (vm_compute; reflexivity).
  assert (SQ : seq (wfx_state 17) = 4%nat) by (vm_compute; reflexivity).
  split; [reflexivity|]. split; [exact WS3|]. split; [exact N3|]. split; [exact ZL|]. split; [exact AW|].
  split; [vm_compute; discriminate|]. split; [exact SQ|].
  split.
  { destruct (C14_gen_wfq_update_vtime wfx_cfg 3 (stm (wfx_state 17)) 4 3 WS3 N3) as (v & A & B & _).
    exists v. split; [exact A|]. split; [exact B|].
    assert (X : update_vtime wfx_cfg 3 (stm (wfx_state 17)) = Some 1) by (vm_compute; reflexivity).
    rewrite (some_eq _ _ (eq_trans (eq_sym A) X)). reflexivity. }
  split.
  { destruct (C14_gen_wfq_put wfx_cfg 3 (stm (wfx_state 17)) 4 fx_p5 1 eq_refl ZL AW) as (s' & F & A & B & _ & D & E & G).
    exists s', F. split; [exact A|]. split; [exact B|]. split; [exact D|]. split; [exact E|].
    split; [|exact G]. assert (X : option_map snd (wfq_put wfx_cfg 3 (stm (wfx_state 17)) fx_p5) = Some 4) by (vm_compute; reflexivity).
    rewrite A in X. cbn [option_map snd] in X. rewrite (some_eq _ _ X). reflexivity. }
  pose proof (C14_gen_wfq_act_put wfx_cfg (wfx_state 17) fx_p5 1 eq_refl ZL AW) as (sv' & stamp & A & _ & C & _ & E & G & _).
  exists sv', stamp. split; [exact A|]. split; [exact C|]. split; [exact E|exact G].
Qed.
Print Assumptions C14_ex_gen_wfq.

(* ---- second tie, VirtualClock: the generated put on the fields of the state after 38 actions (instant 9, auxVC_1 = 2, arrivals 5),
   packet p4 (flow 1, class 1, vtick 1); VC.vc is not modelled: any function *)
Theorem C14_ex_gen_vc :
  zlookup (vf2c vcx_cfg (flow fx_p4)) (vticks vcx_cfg) = Some 1 /\ seq (vcx_state 38) = 5%nat /\ now (vcx_state 38) = 9 /\
  (* conclusions *)
  (exists s' F, vc_put vcx_cfg 9 (stm (vcx_state 38)) fx_p4 = Some (s', F) /\
     (forall k, s' k == v_aux_vc (fst (vc_gen_put vcx_cfg 9 (stm (vcx_state 38)) (fun _ => 7) 5 fx_p4 1)) k) /\
     v_arrivals (fst (vc_gen_put vcx_cfg 9 (stm (vcx_state 38)) (fun _ => 7) 5 fx_p4 1)) = 6%Z /\
     F == v_aux_vc (fst (vc_gen_put vcx_cfg 9 (stm (vcx_state 38)) (fun _ => 7) 5 fx_p4 1)) 1%Z /\ F == 10) /\
  (exists sv' stamp, vc_act vcx_cfg (vcx_state 38) (FPut fx_p4) = Ok (sv', []) /\
     store sv' = sq_put pq_push (now (vcx_state 38)) {| istamp := Qred stamp; iseq := seq sv'; ipkt := fx_p4 |} (store (vcx_state 38)) /\
     nrecv sv' = (nrecv (vcx_state 38) + 1)%Z /\ qcount sv' 1%Z = (qcount (vcx_state 38) 1%Z + 1)%Z).
Proof.
  assert (ZL : zlookup (vf2c vcx_cfg (flow fx_p4)) (vticks vcx_cfg) = Some 1) by reflexivity.
  split; [exact ZL|]. split; [vm_compute; reflexivity|]. split; [vm_compute; reflexivity|].
  split.
  { destruct (C14_gen_vc_put vcx_cfg 9 (stm (vcx_state 38)) (fun _ => 7) 5 fx_p4 1 ZL) as (s' & F & A & B & C & D & _).
    exists s', F. split; [exact A|]. split; [exact B|]. split; [exact C|]. split; [exact D|].
    assert (X : option_map snd (vc_put vcx_cfg 9 (stm (vcx_state 38)) fx_p4) = Some 10) by (vm_compute; reflexivity).
    rewrite A in X. cbn [option_map snd] in X. rewrite (some_eq _ _ X). reflexivity. }
  pose proof (C14_gen_vc_act_put vcx_cfg (vcx_state 38) (fun _ => 7) fx_p4 1 ZL) as (sv' & stamp & A & _ & C & _ & E & G & _).
  exists sv', stamp. split; [exact A|]. split; [exact C|]. split; [exact E|exact G].
Qed.
Print Assumptions C14_ex_gen_vc.
