(* C04 -- interrupts reach a live process once, in issue order, ahead of ordinary events.
   Statements only (each closed by the lemma of Kernel/Intr.v that proves it) and their assumptions.

   All statements are about the operational semantics of Kernel/Model.v (call_interrupt, do_interruption,
   resume_loop / resume_proc, run_callbacks, step) and quantify over ALL code tables [codes] (any number of process
   automata of any state type) and ALL states [s] reachable ([reach], Kernel/IntrStep.v) from [init_state] by
   module-level code ([exec_top], any fragment), run() preludes and steps, with no bound on their number.  An
   execution is followed up to the first step whose callback loop is cut short ([step_clean] fails: an exception
   escaping from the middle of the loop -- invalid yield, a forged event id -- or out-of-fuel; the StopSimulation of
   run(until=...) is NOT such a cut since the C03 repair: it is raised after the loop); after such a step the real
   kernel has dropped callbacks and no property is claimed (DESIGN.md section 4, hypothesis (ii)).  The function-level statements
   (refused, accepted, finish_is_dead, resume_feeds_outcome, yield_*, detach_keeps_others) hold in every state.

   Vocabulary (Kernel/Intr.v, Kernel/IntrStep.v, Kernel/IntrInv.v)
     dead s p / live s p     the Process event of p is triggered / pending (Process.triggered, .is_alive)
     trans_star codes s s'   s' is reached from s by any transitions (module-level code, preludes, steps)
     popped m rest s         the state in which the callbacks of the popped entry m run (clock set, callbacks := None)
     resume_with f codes p pr o s   the body of Process._resume once the outcome o is known: run the generator of
                             p (record pr) with o up to its next yield / end, then wait, loop or terminate
     cnt c l                 number of occurrences of callback c in l
     good s                  the invariant (Kernel/IntrInv.v): structure, waiter uniqueness, agenda facts

   How the clauses of the property map to the theorems
     refused (dead or self), state unchanged ............ interrupt_refused_dead/_self, finish_is_dead,
                                                          interrupt_refused_after_end
     accepted -> URGENT entry, delay 0 ................... interrupt_accepted, interruption_entry
     delivered exactly once .............................. interruption_entry (one entry), processed_interruption_gone,
                                                          pending_interruption_scheduled, interrupt_callback_only_own_event
     at the instant of issue ............................. interruption_entry (due now), clock_frozen, interrupt_step
     before every NORMAL event, in issue order ........... interrupt_before_normal, interrupts_in_issue_order,
                                                          later_issue_later_eid
     Interrupt(cause) thrown into the victim, detached ... interrupt_step, interrupt_delivery, resume_feeds_outcome,
                                                          waiter_unique
     victim ended meanwhile: dropped silently ............ interrupt_dead_dropped
     old target no longer resumes the victim ............. detached_nowhere, detach_keeps_others, resumed_only_by_target,
                                                          untouched_unless_resumed, yield_processed_continues,
                                                          yield_pending_waits
     never before the first statement .................... process_has_initialize, init_before_interrupt, not_started,
                                                          not_started_untouched, first_resumption_is_none
   Examples showing the hypotheses satisfiable on concrete reachable states: Kernel/IntrExamples.v. *)
From Coq Require Import ZArith QArith List Bool.
From ONL Require Import Kernel.Model Kernel.Keys Kernel.IntrBase Kernel.IntrInv Kernel.IntrStep Kernel.Intr Kernel.IntrExamples.
Import ListNotations.

(* the invariant holds in every reachable state *)
Theorem C04_invariant : forall codes s, reach codes s -> good s.
Proof. exact reach_good. Qed.
Print Assumptions C04_invariant.

(* ------------------------------------------------------------------------------------------------ *)
(* refused *)

Theorem C04_interrupt_refused_dead :
  forall codes s e ev p cause,
  get_event e s = Some ev -> kind ev = KProcess p -> out ev <> None ->
  do_call codes (CInterrupt e cause) s = (s, Fail (kexn ERuntime M_terminated)).
Proof. exact interrupt_refused_dead. Qed.
Print Assumptions C04_interrupt_refused_dead.

Theorem C04_interrupt_refused_self :
  forall codes s e ev p cause,
  get_event e s = Some ev -> kind ev = KProcess p -> out ev = None -> active s = Some p ->
  do_call codes (CInterrupt e cause) s = (s, Fail (kexn ERuntime M_self_interrupt)).
Proof. exact interrupt_refused_self. Qed.
Print Assumptions C04_interrupt_refused_self.

(* the generator ends: the Process event is triggered in the same resumption, before its entry is processed *)
Theorem C04_finish_is_dead :
  forall p pr o s ev,
  get_proc p s = Some pr -> get_event (pev pr) s = Some ev ->
  let s' := proc_finish p pr o s in
  dead s' p /\
  (exists ev', get_event (pev pr) s' = Some ev' /\ out ev' = Some o /\ cbs ev' = cbs ev) /\
  agenda s' = agenda s ++ [mkEntry (Qred (now s + 0)) NORMAL (next_eid s) (pev pr)].
Proof. exact finish_is_dead. Qed.
Print Assumptions C04_finish_is_dead.

Theorem C04_dead_forever :
  forall codes s s' p,
  pevK s -> trans_star codes s s' -> dead s p -> dead s' p /\ pevK s'.
Proof. exact dead_forever. Qed.
Print Assumptions C04_dead_forever.

(* the property clause: once the generator of p has ended, every later interrupt() on it raises RuntimeError and
   changes nothing -- whether or not the termination event has been processed meanwhile *)
Theorem C04_interrupt_refused_after_end :
  forall codes s s' p cause,
  reach codes s -> dead s p -> trans_star codes s s' ->
  exists e, (forall pr, get_proc p s' = Some pr -> pev pr = e) /\
            do_call codes (CInterrupt e cause) s' = (s', Fail (kexn ERuntime M_terminated)).
Proof. exact interrupt_refused_after_end. Qed.
Print Assumptions C04_interrupt_refused_after_end.

(* ------------------------------------------------------------------------------------------------ *)
(* accepted *)

Theorem C04_interrupt_accepted :
  forall codes s e ev p cause,
  get_event e s = Some ev -> kind ev = KProcess p -> out ev = None -> active s <> Some p ->
  let i := length (events s) in
  let s' := fst (do_call codes (CInterrupt e cause) s) in
  do_call codes (CInterrupt e cause) s = (s', Ok VNone) /\
  events s' = events s ++ [mkEvent (Some [CbInterrupt i]) (Some (Fail (EInterrupt, [cause]))) true (KInterruption p)] /\
  agenda s' = agenda s ++ [mkEntry (Qred (now s + 0)) URGENT (next_eid s) i] /\
  Qred (now s + 0) == now s /\
  next_eid s' = S (next_eid s) /\ procs s' = procs s /\ now s' = now s /\ active s' = active s.
Proof. exact interrupt_accepted. Qed.
Print Assumptions C04_interrupt_accepted.

(* ------------------------------------------------------------------------------------------------ *)
(* the pending interruption *)

Theorem C04_interruption_entry :
  forall codes s x iev p,
  reach codes s -> In x (agenda s) -> get_event (e_ev x) s = Some iev -> kind iev = KInterruption p ->
  e_time x == now s /\ e_prio x = URGENT /\ (e_eid x < next_eid s)%nat /\
  (forall y, In y (agenda s) -> e_ev y = e_ev x -> y = x) /\
  (exists cause others, out iev = Some (Fail (EInterrupt, [cause])) /\ defused iev = true /\
                        cbs iev = Some (CbInterrupt (e_ev x) :: others) /\ ~ In (CbInterrupt (e_ev x)) others) /\
  (exists pr, get_proc p s = Some pr).
Proof. exact interruption_entry. Qed.
Print Assumptions C04_interruption_entry.

(* a processed Interruption event is never on the agenda again: delivered at most once *)
Theorem C04_processed_interruption_gone :
  forall codes s x iev p,
  reach codes s -> In x (agenda s) -> get_event (e_ev x) s = Some iev -> kind iev = KInterruption p -> cbs iev <> None.
Proof. exact processed_interruption_gone. Qed.
Print Assumptions C04_processed_interruption_gone.

(* ... and an unprocessed one is on the agenda: delivered (or dropped) at least once if the run goes on *)
Theorem C04_pending_interruption_scheduled :
  forall codes s i iev p,
  reach codes s -> get_event i s = Some iev -> kind iev = KInterruption p -> cbs iev <> None ->
  exists x, In x (agenda s) /\ e_ev x = i.
Proof. exact pending_interruption_scheduled. Qed.
Print Assumptions C04_pending_interruption_scheduled.

(* the clock does not move while an interruption is pending: it takes effect at the instant of issue *)
Theorem C04_clock_frozen :
  forall codes s s' x iev iev' p,
  reach codes s -> reach codes s' -> In x (agenda s) -> In x (agenda s') ->
  get_event (e_ev x) s = Some iev -> kind iev = KInterruption p ->
  get_event (e_ev x) s' = Some iev' -> kind iev' = KInterruption p ->
  now s' == now s.
Proof. exact clock_frozen. Qed.
Print Assumptions C04_clock_frozen.

(* urgent before normal: while an interruption is pending, no NORMAL entry is the next one processed *)
Theorem C04_interrupt_before_normal :
  forall codes s m rest x y iev p,
  reach codes s -> In x (agenda s) -> get_event (e_ev x) s = Some iev -> kind iev = KInterruption p ->
  In y (agenda s) -> e_prio y = NORMAL -> pop_min (agenda s) = Some (m, rest) -> e_eid m <> e_eid y.
Proof. exact interrupt_before_normal. Qed.
Print Assumptions C04_interrupt_before_normal.

(* issue order: of two pending interruptions the one issued later (larger eid) is not processed first *)
Theorem C04_interrupts_in_issue_order :
  forall codes s m rest x y ix iy p q,
  reach codes s -> In x (agenda s) -> In y (agenda s) ->
  get_event (e_ev x) s = Some ix -> kind ix = KInterruption p ->
  get_event (e_ev y) s = Some iy -> kind iy = KInterruption q ->
  (e_eid x < e_eid y)%nat -> pop_min (agenda s) = Some (m, rest) -> e_eid m <> e_eid y.
Proof. exact interrupts_in_issue_order. Qed.
Print Assumptions C04_interrupts_in_issue_order.

(* ... and "issued later" is "larger eid": the entry of a new interrupt() lies above every pending entry *)
Theorem C04_later_issue_later_eid :
  forall codes s e ev p cause x,
  reach codes s -> get_event e s = Some ev -> kind ev = KProcess p -> out ev = None -> active s <> Some p ->
  In x (agenda s) ->
  exists y, agenda (fst (do_call codes (CInterrupt e cause) s)) = agenda s ++ [y] /\ (e_eid x < e_eid y)%nat /\
            e_ev y = length (events s).
Proof. exact later_issue_later_eid. Qed.
Print Assumptions C04_later_issue_later_eid.

Theorem C04_interrupt_step :
  forall fuel codes s m rest iev p,
  reach codes s -> pop_min (agenda s) = Some (m, rest) -> get_event (e_ev m) s = Some iev -> kind iev = KInterruption p ->
  exists cause others,
    out iev = Some (Fail (EInterrupt, [cause])) /\ cbs iev = Some (CbInterrupt (e_ev m) :: others) /\
    now (popped m rest s) == now s /\
    step fuel codes s =
      (let '(s2, r) := do_interruption fuel codes (e_ev m) (popped m rest s) in
       match r with
       | ROk => let '(s3, r3) := run_callbacks fuel codes (e_ev m) others s2 in
                (s3, match r3 with ROk => check_failure (e_ev m) s3 | _ => r3 end)
       | _ => (s2, r)
       end).
Proof. exact interrupt_step. Qed.
Print Assumptions C04_interrupt_step.

(* a resumption by event e feeds the automaton the outcome of e (a failure is marked defused first) *)
Theorem C04_resume_feeds_outcome :
  forall f codes p e s ev pr o,
  get_event e s = Some ev -> get_proc p s = Some pr -> out ev = Some o ->
  resume_loop (S f) codes p e s =
  resume_with f codes p pr o (match o with Fail _ => upd_event e ev_set_defused s | Ok _ => s end).
Proof. exact resume_feeds_outcome. Qed.
Print Assumptions C04_resume_feeds_outcome.

Theorem C04_interrupt_dead_dropped :
  forall fuel codes s m rest iev p,
  reach codes s -> pop_min (agenda s) = Some (m, rest) -> get_event (e_ev m) s = Some iev -> kind iev = KInterruption p ->
  dead s p ->
  do_interruption fuel codes (e_ev m) (popped m rest s) = (popped m rest s, ROk) /\
  (* nothing else waits on the interruption event (always so unless a process was made to yield it): the step
     only removes the entry and marks the event processed, and raises nothing *)
  (cbs iev = Some [CbInterrupt (e_ev m)] -> step fuel codes s = (popped m rest s, ROk)).
Proof. exact interrupt_dead_dropped. Qed.
Print Assumptions C04_interrupt_dead_dropped.

Theorem C04_interrupt_delivery :
  forall fuel codes s m rest iev p pr,
  reach codes s -> pop_min (agenda s) = Some (m, rest) -> get_event (e_ev m) s = Some iev -> kind iev = KInterruption p ->
  get_proc p s = Some pr -> live s p ->
  ptarget pr <> Some (e_ev m) ->            (* the victim was not made to wait for this very Interruption event *)
  exists cause t tev l,
    out iev = Some (Fail (EInterrupt, [cause])) /\
    (* the victim is suspended on exactly one event, once *)
    ptarget pr = Some t /\ get_event t s = Some tev /\ cbs tev = Some l /\ cnt (CbResume p) l = 1%nat /\
    (forall t' tev' l', get_event t' s = Some tev' -> cbs tev' = Some l' -> In (CbResume p) l' -> t' = t) /\
    (* _interrupt removes that _resume and resumes the victim with the interruption event ... *)
    let s2 := upd_event t (ev_set_cbs (Some (remove_first (CbResume p) l))) (popped m rest s) in
    do_interruption fuel codes (e_ev m) (popped m rest s) = resume_proc fuel codes p (e_ev m) s2 /\
    (* ... i.e. throws Interrupt(cause) into its generator, at the instant of issue *)
    now s2 == now s /\
    forall f, fuel = S f ->
      resume_proc fuel codes p (e_ev m) s2 =
      resume_with f codes p pr (Fail (EInterrupt, [cause])) (upd_event (e_ev m) ev_set_defused (set_active (Some p) s2)).
Proof. exact interrupt_delivery. Qed.
Print Assumptions C04_interrupt_delivery.

(* ------------------------------------------------------------------------------------------------ *)
(* the old target *)

(* after the detachment the victim's _resume is in no callback list at all *)
Theorem C04_detached_nowhere :
  forall codes s m rest p pr t tev l,
  reach codes s -> get_proc p s = Some pr -> ptarget pr = Some t -> get_event t s = Some tev -> cbs tev = Some l ->
  In (CbResume p) l -> t <> e_ev m ->
  let s2 := upd_event t (ev_set_cbs (Some (remove_first (CbResume p) l))) (popped m rest s) in
  forall t' tev' l', get_event t' s2 = Some tev' -> cbs tev' = Some l' -> ~ In (CbResume p) l'.
Proof. exact detached_nowhere. Qed.
Print Assumptions C04_detached_nowhere.

(* the old target keeps its outcome, defusal and kind, and every other callback, in order *)
Theorem C04_detach_keeps_others :
  forall t p l tev,
  let tev' := ev_set_cbs (Some (remove_first (CbResume p) l)) tev in
  out tev' = out tev /\ defused tev' = defused tev /\ kind tev' = kind tev /\
  (forall c, c <> CbResume p -> cnt c (remove_first (CbResume p) l) = cnt c l) /\
  (forall l1 l2, l = l1 ++ CbResume p :: l2 -> ~ In (CbResume p) l1 -> remove_first (CbResume p) l = l1 ++ l2) /\
  get_event t (upd_event t (ev_set_cbs (Some (remove_first (CbResume p) l))) (mkState 0 [] 0 (repeat tev (S t)) [] None [] [])) = Some tev'.
Proof. exact detach_keeps_others. Qed.
Print Assumptions C04_detach_keeps_others.

(* in every reachable state: processing an event resumes only processes whose CURRENT target it is (the event
   they yielded last), each once *)
Theorem C04_resumed_only_by_target :
  forall codes s m rest ev l q,
  reach codes s -> pop_min (agenda s) = Some (m, rest) -> get_event (e_ev m) s = Some ev -> cbs ev = Some l ->
  In (CbResume q) l ->
  exists pr, get_proc q s = Some pr /\ ptarget pr = Some (e_ev m) /\ cnt (CbResume q) l = 1%nat.
Proof. exact resumed_only_by_target. Qed.
Print Assumptions C04_resumed_only_by_target.

(* ... and a step leaves alone every process that is neither in the callback list of the processed event nor the
   victim of the processed interruption *)
Theorem C04_untouched_unless_resumed :
  forall fuel codes s m rest ev l q pr,
  reach codes s -> pop_min (agenda s) = Some (m, rest) -> get_event (e_ev m) s = Some ev -> cbs ev = Some l ->
  get_proc q s = Some pr -> ~ In (CbResume q) l -> kind ev <> KInterruption q ->
  get_proc q (fst (step fuel codes s)) = Some pr.
Proof. exact untouched_unless_resumed. Qed.
Print Assumptions C04_untouched_unless_resumed.

(* yielding an event that has been processed continues at once with that event's outcome ... *)
Theorem C04_yield_processed_continues :
  forall f codes p pr o s1 s2 a e' ev',
  run_frag codes (resume (pcode pr) (pst pr) o) s1 = (s2, FrYield (VEv e') a) ->
  get_event e' (put_proc p (proc_set_st pr a) s2) = Some ev' -> cbs ev' = None ->
  resume_with f codes p pr o s1 = resume_loop f codes p e' (put_proc p (proc_set_st pr a) s2).
Proof. exact yield_processed_continues. Qed.
Print Assumptions C04_yield_processed_continues.

(* ... and yielding a pending one appends the _resume to its list and makes it the target *)
Theorem C04_yield_pending_waits :
  forall f codes p pr o s1 s2 a e' ev' l,
  run_frag codes (resume (pcode pr) (pst pr) o) s1 = (s2, FrYield (VEv e') a) ->
  let s3 := put_proc p (proc_set_st pr a) s2 in
  get_event e' s3 = Some ev' -> cbs ev' = Some l -> get_proc p s2 = Some pr ->
  resume_with f codes p pr o s1 = (proc_wait p e' s3, ROk) /\
  get_event e' (proc_wait p e' s3) = Some (ev_set_cbs (Some (l ++ [CbResume p])) ev') /\
  get_proc p (proc_wait p e' s3) = Some (proc_set_target (Some e') (proc_set_st pr a)).
Proof. exact yield_pending_waits. Qed.
Print Assumptions C04_yield_pending_waits.

(* ------------------------------------------------------------------------------------------------ *)
(* Initialize first *)

Theorem C04_init_before_interrupt :
  forall codes s m rest iev p,
  reach codes s -> pop_min (agenda s) = Some (m, rest) -> get_event (e_ev m) s = Some iev -> kind iev = KInterruption p ->
  forall ie ev, get_event ie s = Some ev -> kind ev = KInit p -> cbs ev = None.
Proof. exact init_before_interrupt. Qed.
Print Assumptions C04_init_before_interrupt.

(* while its Initialize event is unprocessed a process sits at its start: it waits for that event only, whose first
   callback is its _resume and whose value is None *)
Theorem C04_not_started :
  forall codes s ie ev p,
  reach codes s -> get_event ie s = Some ev -> kind ev = KInit p -> cbs ev <> None ->
  exists pr r, get_proc p s = Some pr /\ ptarget pr = Some ie /\ cbs ev = Some (CbResume p :: r) /\ ~ In (CbResume p) r /\
               out ev = Some (Ok VNone) /\ (exists x, In x (agenda s) /\ e_ev x = ie /\ e_prio x = URGENT /\ e_time x == now s) /\
               (forall t' tev' l', get_event t' s = Some tev' -> cbs tev' = Some l' -> In (CbResume p) l' -> t' = ie).
Proof. exact not_started. Qed.
Print Assumptions C04_not_started.

(* hence no step touches it before its Initialize is processed ... *)
Theorem C04_not_started_untouched :
  forall fuel codes s ie ev p pr m rest,
  reach codes s -> get_event ie s = Some ev -> kind ev = KInit p -> cbs ev <> None -> get_proc p s = Some pr ->
  pop_min (agenda s) = Some (m, rest) -> e_ev m <> ie ->
  get_proc p (fst (step fuel codes s)) = Some pr.
Proof. exact not_started_untouched. Qed.
Print Assumptions C04_not_started_untouched.

(* ... and that step begins by sending None into the generator: the first resumption is never an Interrupt *)
Theorem C04_first_resumption_is_none :
  forall fuel codes s ev p m rest,
  reach codes s -> pop_min (agenda s) = Some (m, rest) -> get_event (e_ev m) s = Some ev -> kind ev = KInit p ->
  exists pr r,
    get_proc p s = Some pr /\ cbs ev = Some (CbResume p :: r) /\
    step fuel codes s =
      (let '(s2, r2) := resume_proc fuel codes p (e_ev m) (popped m rest s) in
       match r2 with
       | ROk => let '(s3, r3) := run_callbacks fuel codes (e_ev m) r s2 in
                (s3, match r3 with ROk => check_failure (e_ev m) s3 | _ => r3 end)
       | _ => (s2, r2)
       end) /\
    forall f, fuel = S f ->
      resume_proc fuel codes p (e_ev m) (popped m rest s) =
      resume_with f codes p pr (Ok VNone) (set_active (Some p) (popped m rest s)).
Proof. exact first_resumption_is_none. Qed.
Print Assumptions C04_first_resumption_is_none.

(* every process has its Initialize event (created right after its Process event) *)
Theorem C04_process_has_initialize :
  forall codes s p pr,
  reach codes s -> get_proc p s = Some pr ->
  exists iev, get_event (S (pev pr)) s = Some iev /\ kind iev = KInit p.
Proof. exact process_has_initialize. Qed.
Print Assumptions C04_process_has_initialize.

(* _interrupt of interruption i is a callback of event i only, once: it runs only in the step that processes i *)
Theorem C04_interrupt_callback_only_own_event :
  forall codes s e ev l i,
  reach codes s -> get_event e s = Some ev -> cbs ev = Some l -> In (CbInterrupt i) l ->
  e = i /\ cnt (CbInterrupt i) l = 1%nat /\ exists p, kind ev = KInterruption p.
Proof. exact interrupt_callback_only_own_event. Qed.
Print Assumptions C04_interrupt_callback_only_own_event.

(* waiter uniqueness, as a statement of its own *)
Theorem C04_waiter_unique :
  forall codes s p pr,
  reach codes s -> get_proc p s = Some pr -> live s p ->
  exists t tev l, ptarget pr = Some t /\ get_event t s = Some tev /\ cbs tev = Some l /\ cnt (CbResume p) l = 1%nat /\
    forall t' tev' l', get_event t' s = Some tev' -> cbs tev' = Some l' -> In (CbResume p) l' -> t' = t.
Proof. exact waiter_unique. Qed.
Print Assumptions C04_waiter_unique.

(* along every execution an event stays, keeps the shape of its kind, stays triggered / processed once it is, and an
   Initialize / Interruption event keeps its outcome *)
Theorem C04_events_monotone :
  forall codes s s' e ev,
  pevK s -> trans_star codes s s' -> get_event e s = Some ev ->
  exists ev', get_event e s' = Some ev' /\ ev_mono ev ev'.
Proof. exact events_monotone. Qed.
Print Assumptions C04_events_monotone.

(* the Interrupt(cause) delivered is the one issued: the interruption event keeps its outcome until (and after) it
   is processed, and once processed it stays processed *)
Theorem C04_interruption_keeps_cause :
  forall codes s s' i iev p cause,
  reach codes s -> trans_star codes s s' ->
  get_event i s = Some iev -> kind iev = KInterruption p -> out iev = Some (Fail (EInterrupt, [cause])) ->
  exists iev', get_event i s' = Some iev' /\ kind iev' = KInterruption p /\
               out iev' = Some (Fail (EInterrupt, [cause])) /\ (cbs iev = None -> cbs iev' = None).
Proof. exact interruption_keeps_cause. Qed.
Print Assumptions C04_interruption_keeps_cause.

(* run() stays inside the reachable states as long as every step it takes is clean *)
Theorem C04_reach_run :
  forall codes fuel u s,
  reach codes s ->
  (forall s1, run_prelude u s = inr s1 -> steps_clean fuel fuel codes s1) ->
  reach codes (fst (run fuel codes u s)).
Proof. exact reach_run. Qed.
Print Assumptions C04_reach_run.
