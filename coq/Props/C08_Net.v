(* C08 -- conservation composes: for any finite wiring of elements each of which conserves packets,
   injected = delivered to sinks + dropped by a documented rule + held (statements only). *)
From Coq Require Import Arith List.
From ONL Require Import Elem.Network.
Import ListNotations.

Theorem C08_network_conserves :
  forall (n : nat) (inp fwd drp held inj tosink : nat -> list nat) (sent : nat -> nat -> list nat),
  (forall i u, i < n -> cnt u (inp i) = cnt u (fwd i) + cnt u (drp i) + cnt u (held i)) ->
  (forall i u, i < n -> cnt u (fwd i) = sum_n n (fun j => cnt u (sent i j)) + cnt u (tosink i)) ->
  (forall j u, j < n -> cnt u (inp j) = cnt u (inj j) + sum_n n (fun i => cnt u (sent i j))) ->
  forall u, sum_n n (fun j => cnt u (inj j)) =
            sum_n n (fun i => cnt u (tosink i)) + sum_n n (fun i => cnt u (drp i)) + sum_n n (fun i => cnt u (held i)).
Proof. exact network_conserves. Qed.
Print Assumptions C08_network_conserves.

Theorem C08_network_quiescent :
  forall (n : nat) (inp fwd drp held inj tosink : nat -> list nat) (sent : nat -> nat -> list nat),
  (forall i u, i < n -> cnt u (inp i) = cnt u (fwd i) + cnt u (drp i) + cnt u (held i)) ->
  (forall i u, i < n -> cnt u (fwd i) = sum_n n (fun j => cnt u (sent i j)) + cnt u (tosink i)) ->
  (forall j u, j < n -> cnt u (inp j) = cnt u (inj j) + sum_n n (fun i => cnt u (sent i j))) ->
  (forall i, i < n -> held i = []) ->
  forall u, sum_n n (fun j => cnt u (inj j)) = sum_n n (fun i => cnt u (tosink i)) + sum_n n (fun i => cnt u (drp i)).
Proof. exact network_quiescent. Qed.
Print Assumptions C08_network_quiescent.
