(* C09 -- NON-VACUITY of the theorems of Props/C09.v (and Props/C09_Bridge*.v).

   "Beside each theorem prove an Example that a concrete non-trivial state meets its hypotheses; an implication no
   reachable state satisfies means nothing."  Every theorem below instantiates ALL hypotheses of one or several
   theorems of Props/C09.v at closed terms -- executions of a Port (packet limit, byte limit, no limit, rate 0) and of
   a REDPort with bursts, waiting, refusals, idle periods and uniform draws -- proves them together, and states the
   concrete content of the instantiated conclusions (departure instants, who is refused, counters, samples, averages),
   obtained by running the model and by applying the very lemmas that close the theorems.

   Port execution C09_ex_acts (rate 64 bit/s, so 8 bytes take 1 s; element id 1; limit 2 packets, or 24 bytes):
     t=0    run() starts; p0 (8 B) arrives, is handed to the server, transmission until 1
            p1 (16 B) arrives and waits; p2 (8 B) arrives: one packet waits already (24 B held) -> refused
     t=1/2  a PortMonitor sample         t=1  p0 leaves; p1 in transmission until 3; p3 (8 B) arrives and waits
     t=3    p1 leaves; p3 until 4        t=4  p3 leaves, the port is idle
     t=10   p4 (8 B) arrives on the idle port: transmission until 11
   REDPort execution C09_ex_racts (min 1, max 3, max_p 1/2, qlimit 4, weight 1, packet mode): nine arrivals in one
   instant while the first packet is in transmission; the average climbs 0, 0, 1/2, 5/4, 17/8, 41/16, 105/32, 233/64,
   553/128 through all four regions of the RED rule.

   Coverage (hypothesis-carrying theorems of Props/C09.v -> witness):
     C09_port_departure_recurrence, C09_port_never_late, C09_port_occupancy_le_limit, C09_port_counters,
       C09_port_bytes_exact, C09_port_perhop_stamp                              -> C09_ex_port_run
     C09_port_occupancy_le_limit (byte limit)                                   -> C09_ex_port_run_bytes
     C09_port_work_conserving                                                   -> C09_ex_port_work_conserving
     C09_port_drop_iff                                                          -> C09_ex_port_drop_iff
     C09_port_unlimited_never_drops                                             -> C09_ex_port_unlimited
     C09_monitor_samples                                                        -> C09_ex_monitor_samples
     C09_port_rate0_departs_at_arrival                                          -> C09_ex_port_rate0
     C09_red_perhop_stamp                                                       -> C09_ex_red_run
     C09_red_avg, C09_red_no_drop_below_min                                     -> C09_ex_red_below_min
     C09_red_curve                                                              -> C09_ex_red_curve
     C09_red_drop_at_limit                                                      -> C09_ex_red_drop_at_limit
     C09_red_avg_unchanged                                                      -> C09_ex_red_avg_unchanged
   Props/C09_BridgeRun.v (Port.run as translated from the tree under test):
     C09_gen_port_run_init, C09_gen_port_run_get, C09_gen_port_run_get_fields,
       C09_gen_port_run_timer_fields, C09_gen_port_run_timer_explicit           -> C09_ex_gen_port_run
   Already witnesses (existential statements): C09_port_drop_rule_refuted_before_fix,
     C09_port_bytes_exact_refuted_before_fix, C09_port_perhop_stamp_refuted_before_fix,
     C09_red_perhop_stamp_refuted_before_fix, C09_monitor_samples_refuted_before_fix.
   Unconditional (nothing to witness): C09_port_unlimited_raises_before_fix (an equation for all states and packets);
     C09_gen_port_put, C09_gen_port_put_effects (Props/C09_Bridge.v), C09_gen_portmon_sample (Props/C09_BridgeMon.v),
     C09_gen_red_put, C09_gen_red_put_avg, C09_gen_red_put_effects (Props/C09_BridgeRed.v);
     C09_gen_port_run_timer, C09_gen_port_run_get_explicit (Props/C09_BridgeRun.v: for all configurations and states). *)
From Coq Require Import ZArith QArith Qminmax List Bool Lia.
From ONL Require Import Elem.Packet Elem.StoreQ Elem.Port Elem.Red Elem.PortProofs Elem.RedProofs.
From ONL Require Import Gen.Extracted_port_run Elem.PortRunBridge.
Import ListNotations.

(* packet number u of flow 1 with the given size, created at t *)
Definition C09_pk (u : nat) (size : Z) (t : Q) : pkt := mkp u (Z.of_nat u) 1 size t.
Definition C09_p0 := C09_pk 0 8 0.
Definition C09_p1 := C09_pk 1 16 0.
Definition C09_p2 := C09_pk 2 8 0.
Definition C09_p3 := C09_pk 3 8 1.
Definition C09_p4 := C09_pk 4 8 10.

Definition C09_ex_acts : list paction :=
  [ PInit; PPut C09_p0 None; PStoreCb; PGet; PPut C09_p1 None; PPut C09_p2 None; PStoreCb;
    PAdvance (1 # 2); PSample true;
    PAdvance 1; PTimer; PGet; PPut C09_p3 None; PStoreCb;
    PAdvance 3; PTimer; PGet;
    PAdvance 4; PTimer;
    PAdvance 10; PPut C09_p4 None; PStoreCb; PGet ].

Definition C09_cP : pcfg := port_cfg all_fixed 64 (Some 2%Z) false (Some 1%Z).     (* at most 2 packets *)
Definition C09_cB : pcfg := port_cfg all_fixed 64 (Some 24%Z) true (Some 1%Z).     (* at most 24 bytes *)
Definition C09_cU : pcfg := port_cfg all_fixed 64 None false (Some 1%Z).           (* no limit *)
Definition C09_c0 : pcfg := port_cfg all_fixed 0 (Some 100%Z) true (Some 1%Z).     (* rate 0 *)

(* state and trace an execution leads to (the theorems below prove port_run … = Some (state, trace), so the default is
   never used) *)
Definition C09_st (c : pcfg) (acts : list paction) : port :=
  match port_run c (port0 0) acts with Some (s, _) => s | None => port0 0 end.
Definition C09_tr (c : pcfg) (acts : list paction) : list pev :=
  match port_run c (port0 0) acts with Some (_, tr) => tr | None => [] end.
(* readable form of a timed packet list: (instant, uid) *)
Definition C09_show (l : list (Q * pkt)) : list (Q * nat) := map (fun x => (Qred (fst x), uid (snd x))) l.

(* Forall put_nonneg on a closed action list *)
Ltac C09_nonneg := repeat (apply Forall_cons; [first [exact I | (vm_compute; discriminate)] |]); apply Forall_nil.

(* ---- hypotheses `port_run c (port0 t0) acts = Some (s, tr)`, `Forall put_nonneg acts`, `psvc s = Some (p, dl)`,
        `c_fix_rate0 c = true` -----------------------------------------------------------------------------------------
   covers C09_port_departure_recurrence, C09_port_never_late, C09_port_occupancy_le_limit, C09_port_counters,
   C09_port_bytes_exact, C09_port_perhop_stamp (s0 = port0 0). *)
Theorem C09_ex_port_run :
  let s := C09_st C09_cP C09_ex_acts in
  let tr := C09_tr C09_cP C09_ex_acts in
  port_run C09_cP (port0 0) C09_ex_acts = Some (s, tr)
  /\ Forall put_nonneg C09_ex_acts
  /\ psvc s = Some (C09_p4, 11)
  /\ c_fix_rate0 C09_cP = true
  (* the recurrence: arrivals 0, 0, 1, 10 of p0, p1, p3, p4 give departures 1, 3, 4 and, for the packet still held, 11 *)
  /\ (exists rest, tl_eq (dep_spec (txe C09_cP) (accepted tr)) (departures tr ++ rest) /\ map snd rest = port_held s)
  /\ C09_show (accepted tr) = [(0, 0%nat); (0, 1%nat); (1, 3%nat); (10, 4%nat)]
  /\ C09_show (dep_spec (txe C09_cP) (accepted tr)) = [(1, 0%nat); (3, 1%nat); (4, 3%nat); (11, 4%nat)]
  /\ C09_show (departures tr) = [(1, 0%nat); (3, 1%nat); (4, 3%nat)]
  /\ port_held s = [C09_p4]
  (* never late *)
  /\ pnow s <= 11
  (* occupancy, packet mode *)
  /\ ((Z.of_nat (length (items (pq s))) <= Z.max (2 - 1) 0)%Z /\ (Z.of_nat (length (port_held s)) <= Z.max 2 0)%Z)
  (* counters: 5 received = 4 accepted + 1 dropped (p2) *)
  /\ (precv s = Z.of_nat (length (puts tr)) /\ pdrop s = Z.of_nat (length (dropped tr)) /\
      precv s = (Z.of_nat (length (accepted tr)) + pdrop s)%Z)
  /\ (precv s = 5%Z /\ pdrop s = 1%Z /\ map uid (dropped tr) = [2%nat])
  (* bytes *)
  /\ pbytes s = sum_sizes (port_held s) /\ pbytes s = 8%Z
  (* stamps *)
  /\ Forall (stamped_as (Some 1%Z)) tr.
Proof.
  intros s tr.
  assert (Hr : port_run C09_cP (port0 0) C09_ex_acts = Some (s, tr)) by (vm_compute; reflexivity).
  assert (Hn : Forall put_nonneg C09_ex_acts) by C09_nonneg.
  assert (Hv : psvc s = Some (C09_p4, 11)) by (vm_compute; reflexivity).
  split; [exact Hr|]. split; [exact Hn|]. split; [exact Hv|]. split; [reflexivity|].
  split; [exact (port_departure_recurrence C09_cP 0 C09_ex_acts s tr Hr)|].
  split; [vm_compute; reflexivity|]. split; [vm_compute; reflexivity|]. split; [vm_compute; reflexivity|].
  split; [vm_compute; reflexivity|].
  split; [exact (port_never_late C09_cP 0 C09_ex_acts s tr Hn Hr C09_p4 11 Hv)|].
  split; [exact (port_occupancy_le_limit 64 2%Z false (Some 1%Z) 0 C09_ex_acts s tr Hn Hr)|].
  split; [exact (port_counters C09_cP 0 C09_ex_acts s tr Hr)|].
  split; [vm_compute; repeat split; reflexivity|].
  split; [exact (port_bytes_exact C09_cP 0 C09_ex_acts s tr eq_refl Hr)|].
  split; [vm_compute; reflexivity|].
  exact (port_perhop_stamp_eid 64 (Some 2%Z) false (Some 1%Z) (port0 0) C09_ex_acts s tr Hr).
Qed.
Print Assumptions C09_ex_port_run.

(* the same execution is admissible under the byte limit 24 (p0 + p1 = 24 B held when p2 arrives): occupancy in bytes *)
Theorem C09_ex_port_run_bytes :
  let s := C09_st C09_cB (firstn 7 C09_ex_acts) in
  let tr := C09_tr C09_cB (firstn 7 C09_ex_acts) in
  port_run C09_cB (port0 0) (firstn 7 C09_ex_acts) = Some (s, tr)
  /\ Forall put_nonneg (firstn 7 C09_ex_acts)
  /\ (sum_sizes (port_held s) <= Z.max 24 0)%Z
  /\ sum_sizes (port_held s) = 24%Z /\ map uid (dropped tr) = [2%nat].
Proof.
  intros s tr.
  assert (Hr : port_run C09_cB (port0 0) (firstn 7 C09_ex_acts) = Some (s, tr)) by (vm_compute; reflexivity).
  assert (Hn : Forall put_nonneg (firstn 7 C09_ex_acts)) by C09_nonneg.
  split; [exact Hr|]. split; [exact Hn|].
  split; [exact (port_occupancy_le_limit 64 24%Z true (Some 1%Z) 0 _ s tr Hn Hr)|].
  split; vm_compute; reflexivity.
Qed.
Print Assumptions C09_ex_port_run_bytes.

(* ---- hypotheses `port_run … = Some (s, tr)`, `port_act c s (PAdvance t) = Some (s', outs)` ---------------------------
   covers C09_port_work_conserving: at t = 10 with p4 in transmission until 11 the clock may move to 21/2 (first
   disjunct); at t = 4 after p3 left it may move to 10 because the port holds nothing (second disjunct). *)
Theorem C09_ex_port_work_conserving :
  let s := C09_st C09_cP C09_ex_acts in
  let tr := C09_tr C09_cP C09_ex_acts in
  let s4 := C09_st C09_cP (firstn 19 C09_ex_acts) in
  let tr4 := C09_tr C09_cP (firstn 19 C09_ex_acts) in
  port_run C09_cP (port0 0) C09_ex_acts = Some (s, tr)
  /\ port_act C09_cP s (PAdvance (21 # 2)) = Some (with_now s (21 # 2), [])
  /\ port_run C09_cP (port0 0) (firstn 19 C09_ex_acts) = Some (s4, tr4)
  /\ port_act C09_cP s4 (PAdvance 10) = Some (with_now s4 10, [])
  (* conclusions *)
  /\ (exists p dl, psvc s = Some (p, dl) /\ 21 # 2 <= dl)
  /\ port_held s4 = [] /\ psvc s4 = None /\ pnow s4 == 4.
Proof.
  intros s tr s4 tr4.
  assert (Hr : port_run C09_cP (port0 0) C09_ex_acts = Some (s, tr)) by (vm_compute; reflexivity).
  assert (Ha : port_act C09_cP s (PAdvance (21 # 2)) = Some (with_now s (21 # 2), [])) by (vm_compute; reflexivity).
  assert (Hr4 : port_run C09_cP (port0 0) (firstn 19 C09_ex_acts) = Some (s4, tr4)) by (vm_compute; reflexivity).
  assert (Ha4 : port_act C09_cP s4 (PAdvance 10) = Some (with_now s4 10, [])) by (vm_compute; reflexivity).
  split; [exact Hr|]. split; [exact Ha|]. split; [exact Hr4|]. split; [exact Ha4|].
  split.
  - destruct (port_work_conserving C09_cP 0 _ s tr (21 # 2) _ _ Hr Ha) as [H|H]; [exact H|].
    exfalso. vm_compute in H. discriminate H.
  - repeat split; vm_compute; reflexivity.
Qed.
Print Assumptions C09_ex_port_work_conserving.

(* ---- hypotheses `port_run c (port0 t0) acts = Some (s, tr)`, `port_act c s (PPut p u) = Some (s', outs)` --------------
   covers C09_port_drop_iff.  s = the state in which p2 arrives (p0 in transmission, p1 waiting).
   Packet limit 2: one packet waits already, 1 >= 2 - 1: refused.  Byte limit 24: 24 + 8 > 24: refused.
   And an acceptance: p3 arriving at t = 1 (p1 in transmission, nobody waiting) under the packet limit. *)
Theorem C09_ex_port_drop_iff :
  let sP := C09_st C09_cP (firstn 5 C09_ex_acts) in
  let sB := C09_st C09_cB (firstn 5 C09_ex_acts) in
  let s3 := C09_st C09_cP (firstn 12 C09_ex_acts) in
  port_run C09_cP (port0 0) (firstn 5 C09_ex_acts) = Some (sP, C09_tr C09_cP (firstn 5 C09_ex_acts))
  /\ port_act C09_cP sP (PPut C09_p2 None) = Some (put_refuse sP 0, [OStamp (Some 1%Z) 0; ODrop C09_p2])
  /\ port_run C09_cB (port0 0) (firstn 5 C09_ex_acts) = Some (sB, C09_tr C09_cB (firstn 5 C09_ex_acts))
  /\ port_act C09_cB sB (PPut C09_p2 None) = Some (put_refuse sB 0, [OStamp (Some 1%Z) 0; ODrop C09_p2])
  /\ port_run C09_cP (port0 0) (firstn 12 C09_ex_acts) = Some (s3, C09_tr C09_cP (firstn 12 C09_ex_acts))
  /\ port_act C09_cP s3 (PPut C09_p3 None) = Some (put_accept s3 C09_p3 0, [OStamp (Some 1%Z) 1])
  (* the rule, on both sides of the equivalence *)
  /\ (Z.of_nat (length (items (pq sP))) >= 2 - 1)%Z
  /\ (sum_sizes (port_held sB) + psize C09_p2 > 24)%Z
  /\ ~ (Z.of_nat (length (items (pq s3))) >= 2 - 1)%Z
  /\ (In (ODrop C09_p2) [OStamp (Some 1%Z) 0; ODrop C09_p2] <-> (Z.of_nat (length (items (pq sP))) >= 2 - 1)%Z)
  /\ (In (ODrop C09_p3) [OStamp (Some 1%Z) 1] <-> (Z.of_nat (length (items (pq s3))) >= 2 - 1)%Z).
Proof.
  intros sP sB s3.
  assert (HrP : port_run C09_cP (port0 0) (firstn 5 C09_ex_acts) = Some (sP, C09_tr C09_cP (firstn 5 C09_ex_acts)))
    by (vm_compute; reflexivity).
  assert (HaP : port_act C09_cP sP (PPut C09_p2 None) = Some (put_refuse sP 0, [OStamp (Some 1%Z) 0; ODrop C09_p2]))
    by (vm_compute; reflexivity).
  assert (HrB : port_run C09_cB (port0 0) (firstn 5 C09_ex_acts) = Some (sB, C09_tr C09_cB (firstn 5 C09_ex_acts)))
    by (vm_compute; reflexivity).
  assert (HaB : port_act C09_cB sB (PPut C09_p2 None) = Some (put_refuse sB 0, [OStamp (Some 1%Z) 0; ODrop C09_p2]))
    by (vm_compute; reflexivity).
  assert (Hr3 : port_run C09_cP (port0 0) (firstn 12 C09_ex_acts) = Some (s3, C09_tr C09_cP (firstn 12 C09_ex_acts)))
    by (vm_compute; reflexivity).
  assert (Ha3 : port_act C09_cP s3 (PPut C09_p3 None) = Some (put_accept s3 C09_p3 0, [OStamp (Some 1%Z) 1]))
    by (vm_compute; reflexivity).
  split; [exact HrP|]. split; [exact HaP|]. split; [exact HrB|]. split; [exact HaB|]. split; [exact Hr3|]. split; [exact Ha3|].
  split; [vm_compute; discriminate|]. split; [vm_compute; reflexivity|]. split; [vm_compute; intros H; apply H; reflexivity|].
  split.
  - exact (proj1 (port_drop_iff 64 (Some 2%Z) false (Some 1%Z) 0 _ sP _ C09_p2 None _ _ HrP HaP)).
  - exact (proj1 (port_drop_iff 64 (Some 2%Z) false (Some 1%Z) 0 _ s3 _ C09_p3 None _ _ Hr3 Ha3)).
Qed.
Print Assumptions C09_ex_port_drop_iff.

(* ---- the same hypotheses with qlimit = None: covers C09_port_unlimited_never_drops.  p2 is accepted. *)
Theorem C09_ex_port_unlimited :
  let s := C09_st C09_cU (firstn 5 C09_ex_acts) in
  port_run C09_cU (port0 0) (firstn 5 C09_ex_acts) = Some (s, C09_tr C09_cU (firstn 5 C09_ex_acts))
  /\ port_act C09_cU s (PPut C09_p2 None) = Some (put_accept s C09_p2 0, [OStamp (Some 1%Z) 0])
  /\ ~ In (ODrop C09_p2) [OStamp (Some 1%Z) 0]
  /\ map uid (port_held (put_accept s C09_p2 0)) = [0; 1; 2]%nat.
Proof.
  intros s.
  assert (Hr : port_run C09_cU (port0 0) (firstn 5 C09_ex_acts) = Some (s, C09_tr C09_cU (firstn 5 C09_ex_acts)))
    by (vm_compute; reflexivity).
  assert (Ha : port_act C09_cU s (PPut C09_p2 None) = Some (put_accept s C09_p2 0, [OStamp (Some 1%Z) 0]))
    by (vm_compute; reflexivity).
  split; [exact Hr|]. split; [exact Ha|].
  split; [exact (port_unlimited_never_drops 64 false (Some 1%Z) 0 _ s _ C09_p2 None _ _ Hr Ha)|].
  vm_compute; reflexivity.
Qed.
Print Assumptions C09_ex_port_unlimited.

(* ---- hypotheses `c_fix_rate0 c = true`, `c_fix_mon c = true`, `port_run … = Some (s, tr)` --------------------------------
   covers C09_monitor_samples.  At t = 1/2: p0 (8 B) in transmission, p1 (16 B) waiting.  With the packet in service:
   2 packets, 24 bytes; without: 1 packet, 16 bytes. *)
Theorem C09_ex_monitor_samples :
  let s := C09_st C09_cP (firstn 8 C09_ex_acts) in
  let tr := C09_tr C09_cP (firstn 8 C09_ex_acts) in
  c_fix_rate0 C09_cP = true /\ c_fix_mon C09_cP = true
  /\ port_run C09_cP (port0 0) (firstn 8 C09_ex_acts) = Some (s, tr)
  /\ port_act C09_cP s (PSample true) = Some (s, [OSample 2 24])
  /\ port_act C09_cP s (PSample false) = Some (s, [OSample 1 16])
  /\ sum_sizes (port_held s) = 24%Z /\ sum_sizes (map snd (W s)) = 16%Z
  /\ (forall x, get (pq s) <> GGranted x)
  /\ length (port_held s) = 2%nat /\ length (W s) = 1%nat.
Proof.
  intros s tr.
  split; [reflexivity|]. split; [reflexivity|].
  split; [vm_compute; reflexivity|]. split; [vm_compute; reflexivity|]. split; [vm_compute; reflexivity|].
  split; [vm_compute; reflexivity|]. split; [vm_compute; reflexivity|].
  split; [intros x; vm_compute; discriminate|]. split; vm_compute; reflexivity.
Qed.
Print Assumptions C09_ex_monitor_samples.

(* ---- hypotheses `c_rate c <= 0`, `port_run … = Some (s, tr)` -------------------------------------------------------------
   covers C09_port_rate0_departs_at_arrival.  Rate 0: a burst of three at t = 0 and one packet at t = 1 leave at their
   arrival instants, in order. *)
Definition C09_ex_acts0 : list paction :=
  [ PInit; PPut C09_p0 None; PStoreCb; PGet; PPut C09_p1 None; PPut C09_p2 None; PStoreCb; PGet; PStoreCb; PGet;
    PAdvance 1; PPut C09_p3 None; PStoreCb; PGet; PAdvance 2 ].

Theorem C09_ex_port_rate0 :
  let s := C09_st C09_c0 C09_ex_acts0 in
  let tr := C09_tr C09_c0 C09_ex_acts0 in
  c_rate C09_c0 <= 0
  /\ port_run C09_c0 (port0 0) C09_ex_acts0 = Some (s, tr)
  /\ (exists rest, tl_eq (accepted tr) (departures tr ++ rest) /\ map snd rest = port_held s)
  /\ C09_show (accepted tr) = [(0, 0%nat); (0, 1%nat); (0, 2%nat); (1, 3%nat)]
  /\ C09_show (departures tr) = [(0, 0%nat); (0, 1%nat); (0, 2%nat); (1, 3%nat)]
  /\ port_held s = [] /\ pbytes s = 0%Z.
Proof.
  intros s tr.
  assert (H0 : c_rate C09_c0 <= 0) by (vm_compute; discriminate).
  assert (Hr : port_run C09_c0 (port0 0) C09_ex_acts0 = Some (s, tr)) by (vm_compute; reflexivity).
  split; [exact H0|]. split; [exact Hr|].
  split; [exact (port_rate0_departs_at_arrival C09_c0 0 _ s tr H0 Hr)|].
  repeat split; vm_compute; reflexivity.
Qed.
Print Assumptions C09_ex_port_rate0.

(* ================================================================================================================ *)
(* REDPort: min 1, max 3, max_p 1/2, qlimit 4, weight 1 (gain 1/2), packet mode; rate 64; element id 7.
   q0 goes into transmission; then q1 … q8 arrive in the same instant with the draws shown:
     packet  queue before  new average  region              draw   p(avg)    outcome
     q1      0             0            below min           -                accepted
     q2      1             1/2          below min           -                accepted
     q3      2             5/4          min..max            1/2    1/16      accepted
     q4      3             17/8         min..max            1/4    9/32      REFUSED
     q5      3             41/16        min..max            3/4    25/64     accepted
     q6      4             105/32       max..qlimit         1/2    1/2       REFUSED
     q7      4             233/64       max..qlimit         3/4    1/2       accepted
     q8      5             553/128      at or above qlimit  -                REFUSED                               *)
Definition C09_rc : redcfg := {| r_min := 1; r_max := 3; r_maxp := 1 # 2; r_qlimit := 4; r_w := 1; r_lb := false |}.
Definition C09_cR : pcfg := red_cfg all_fixed 64 C09_rc (Some 7%Z).
Definition C09_q (u : nat) : pkt := C09_pk u 8 0.
Definition C09_ex_racts : list paction :=
  [ PInit; PPut (C09_q 0) None; PStoreCb; PGet; PPut (C09_q 1) None; PPut (C09_q 2) None; PPut (C09_q 3) (Some (1 # 2));
    PPut (C09_q 4) (Some (1 # 4)); PPut (C09_q 5) (Some (3 # 4)); PPut (C09_q 6) (Some (1 # 2)); PPut (C09_q 7) (Some (3 # 4));
    PPut (C09_q 8) None; PStoreCb ].

(* ---- hypothesis `port_run (red_cfg all_fixed rate rc eid) s0 acts = Some (s, tr)`: covers C09_red_perhop_stamp ---- *)
Theorem C09_ex_red_run :
  let s := C09_st C09_cR C09_ex_racts in
  let tr := C09_tr C09_cR C09_ex_racts in
  port_run C09_cR (port0 0) C09_ex_racts = Some (s, tr)
  /\ Forall (stamped_as (Some 7%Z)) tr
  /\ map uid (dropped tr) = [4; 6; 8]%nat /\ length (items (pq s)) = 5%nat /\ pavg s = 553 # 128
  /\ (precv s = 9 /\ pdrop s = 3)%Z.
Proof.
  intros s tr.
  assert (Hr : port_run C09_cR (port0 0) C09_ex_racts = Some (s, tr)) by (vm_compute; reflexivity).
  split; [exact Hr|].
  split; [exact (red_perhop_stamp_eid 64 C09_rc (Some 7%Z) (port0 0) _ s tr Hr)|].
  repeat split; vm_compute; reflexivity.
Qed.
Print Assumptions C09_ex_red_run.

(* ---- hypotheses `red_wf rc`, `port_act (red_cfg f rate rc eid) s (PPut p u) = Some (s', outs)`, `pavg s' < r_min rc` ----
   covers C09_red_avg, C09_red_no_drop_below_min: q2 arrives, one packet waiting, average 0 -> 1/2 < 1. *)
Theorem C09_ex_red_below_min :
  let s := C09_st C09_cR (firstn 5 C09_ex_racts) in
  let s' := put_accept s (C09_q 2) (1 # 2) in
  red_wf C09_rc
  /\ port_run C09_cR (port0 0) (firstn 5 C09_ex_racts) = Some (s, C09_tr C09_cR (firstn 5 C09_ex_racts))
  /\ port_act C09_cR s (PPut (C09_q 2) None) = Some (s', [OStamp (Some 7%Z) 0])
  /\ pavg s' < r_min C09_rc
  (* conclusions *)
  /\ pavg s' == pavg s * (1 - Qpower 2 (- r_w C09_rc)) + red_cur C09_rc s * Qpower 2 (- r_w C09_rc)
  /\ pavg s == 0 /\ red_cur C09_rc s == 1 /\ pavg s' == 1 # 2
  /\ ~ In (ODrop (C09_q 2)) [OStamp (Some 7%Z) 0].
Proof.
  intros s s'.
  assert (Hw : red_wf C09_rc) by (split; vm_compute; discriminate).
  assert (Hr : port_run C09_cR (port0 0) (firstn 5 C09_ex_racts) = Some (s, C09_tr C09_cR (firstn 5 C09_ex_racts)))
    by (vm_compute; reflexivity).
  assert (Ha : port_act C09_cR s (PPut (C09_q 2) None) = Some (s', [OStamp (Some 7%Z) 0])) by (vm_compute; reflexivity).
  assert (Hl : pavg s' < r_min C09_rc) by (vm_compute; reflexivity).
  split; [exact Hw|]. split; [exact Hr|]. split; [exact Ha|]. split; [exact Hl|].
  split; [exact (red_avg all_fixed 64 C09_rc (Some 7%Z) s (C09_q 2) None s' _ Ha)|].
  split; [vm_compute; reflexivity|]. split; [vm_compute; reflexivity|]. split; [vm_compute; reflexivity|].
  exact (proj1 (red_no_drop_below_min all_fixed 64 C09_rc (Some 7%Z) s (C09_q 2) None s' _ Hw Ha Hl)).
Qed.
Print Assumptions C09_ex_red_below_min.

(* ---- hypotheses `red_wf rc`, `port_act … (PPut p u) = Some (s', outs)`, `r_min rc <= pavg s'`, `pavg s' < r_qlimit rc` ----
   covers C09_red_curve, on the rising part of the curve (q4: average 17/8, p = 1/2 * (17/8 - 1)/2 = 9/32, draw 1/4:
   refused; q3: average 5/4, p = 1/16, draw 1/2: accepted) and on its flat part (q6: average 105/32 >= max, p = 1/2,
   draw 1/2: refused). *)
Theorem C09_ex_red_curve :
  let s3 := C09_st C09_cR (firstn 6 C09_ex_racts) in
  let s4 := C09_st C09_cR (firstn 7 C09_ex_racts) in
  let s6 := C09_st C09_cR (firstn 9 C09_ex_racts) in
  red_wf C09_rc
  /\ port_run C09_cR (port0 0) (firstn 7 C09_ex_racts) = Some (s4, C09_tr C09_cR (firstn 7 C09_ex_racts))
  /\ port_act C09_cR s4 (PPut (C09_q 4) (Some (1 # 4))) = Some (put_refuse s4 (17 # 8), [OStamp (Some 7%Z) 0; ODrop (C09_q 4)])
  /\ r_min C09_rc <= 17 # 8 /\ 17 # 8 < r_qlimit C09_rc
  /\ port_act C09_cR s3 (PPut (C09_q 3) (Some (1 # 2))) = Some (put_accept s3 (C09_q 3) (5 # 4), [OStamp (Some 7%Z) 0])
  /\ r_min C09_rc <= 5 # 4 /\ 5 # 4 < r_qlimit C09_rc
  /\ port_act C09_cR s6 (PPut (C09_q 6) (Some (1 # 2))) = Some (put_refuse s6 (105 # 32), [OStamp (Some 7%Z) 0; ODrop (C09_q 6)])
  /\ r_min C09_rc <= 105 # 32 /\ 105 # 32 < r_qlimit C09_rc
  (* the curve *)
  /\ r_maxp C09_rc * (((17 # 8) - r_min C09_rc) / (r_max C09_rc - r_min C09_rc)) == 9 # 32 /\ 1 # 4 <= 9 # 32
  /\ r_maxp C09_rc * (((5 # 4) - r_min C09_rc) / (r_max C09_rc - r_min C09_rc)) == 1 # 16 /\ ~ 1 # 2 <= 1 # 16
  /\ r_max C09_rc <= 105 # 32 /\ 1 # 2 <= r_maxp C09_rc
  /\ (exists x, Some (1 # 4) = Some x /\
        (In (ODrop (C09_q 4)) [OStamp (Some 7%Z) 0; ODrop (C09_q 4)] <->
         x <= (if Qlt_le_dec (17 # 8) (r_max C09_rc)
               then r_maxp C09_rc * (((17 # 8) - r_min C09_rc) / (r_max C09_rc - r_min C09_rc)) else r_maxp C09_rc))).
Proof.
  intros s3 s4 s6.
  assert (Hw : red_wf C09_rc) by (split; vm_compute; discriminate).
  assert (Hr : port_run C09_cR (port0 0) (firstn 7 C09_ex_racts) = Some (s4, C09_tr C09_cR (firstn 7 C09_ex_racts)))
    by (vm_compute; reflexivity).
  assert (Ha : port_act C09_cR s4 (PPut (C09_q 4) (Some (1 # 4)))
               = Some (put_refuse s4 (17 # 8), [OStamp (Some 7%Z) 0; ODrop (C09_q 4)])) by (vm_compute; reflexivity).
  assert (H1 : r_min C09_rc <= pavg (put_refuse s4 (17 # 8))) by (vm_compute; discriminate).
  assert (H2 : pavg (put_refuse s4 (17 # 8)) < r_qlimit C09_rc) by (vm_compute; reflexivity).
  split; [exact Hw|]. split; [exact Hr|]. split; [exact Ha|]. split; [exact H1|]. split; [exact H2|].
  split; [vm_compute; reflexivity|]. split; [vm_compute; discriminate|]. split; [vm_compute; reflexivity|].
  split; [vm_compute; reflexivity|]. split; [vm_compute; discriminate|]. split; [vm_compute; reflexivity|].
  split; [vm_compute; reflexivity|]. split; [vm_compute; discriminate|].
  split; [vm_compute; reflexivity|]. split; [vm_compute; intros H; apply H; reflexivity|].
  split; [vm_compute; discriminate|]. split; [vm_compute; discriminate|].
  exact (red_curve_rule all_fixed 64 C09_rc (Some 7%Z) s4 (C09_q 4) (Some (1 # 4)) _ _ Hw Ha H1 H2).
Qed.
Print Assumptions C09_ex_red_curve.

(* ---- hypotheses `port_act … (PPut p u) = Some (s', outs)`, `r_qlimit rc <= pavg s'` -----------------------------------
   covers C09_red_drop_at_limit: q8 arrives with five packets waiting, average 553/128 >= 4: refused without a draw. *)
Theorem C09_ex_red_drop_at_limit :
  let s := C09_st C09_cR (firstn 11 C09_ex_racts) in
  port_run C09_cR (port0 0) (firstn 11 C09_ex_racts) = Some (s, C09_tr C09_cR (firstn 11 C09_ex_racts))
  /\ port_act C09_cR s (PPut (C09_q 8) None) = Some (put_refuse s (553 # 128), [OStamp (Some 7%Z) 0; ODrop (C09_q 8)])
  /\ r_qlimit C09_rc <= pavg (put_refuse s (553 # 128))
  /\ In (ODrop (C09_q 8)) [OStamp (Some 7%Z) 0; ODrop (C09_q 8)]
  /\ length (items (pq s)) = 5%nat.
Proof.
  intros s.
  assert (Ha : port_act C09_cR s (PPut (C09_q 8) None)
               = Some (put_refuse s (553 # 128), [OStamp (Some 7%Z) 0; ODrop (C09_q 8)])) by (vm_compute; reflexivity).
  assert (Hq : r_qlimit C09_rc <= pavg (put_refuse s (553 # 128))) by (vm_compute; discriminate).
  split; [vm_compute; reflexivity|]. split; [exact Ha|]. split; [exact Hq|].
  split; [exact (proj1 (red_drop_at_limit all_fixed 64 C09_rc (Some 7%Z) s (C09_q 8) None _ _ Ha Hq))|].
  vm_compute; reflexivity.
Qed.
Print Assumptions C09_ex_red_drop_at_limit.

(* ---- hypotheses `port_act c s a = Some (s', outs)`, `forall p u, a <> PPut p u` -----------------------------------------
   covers C09_red_avg_unchanged: the kernel processes a StorePut event after the burst; the average stays 553/128. *)
Theorem C09_ex_red_avg_unchanged :
  let s := C09_st C09_cR (firstn 12 C09_ex_racts) in
  let s' := C09_st C09_cR C09_ex_racts in
  port_act C09_cR s PStoreCb = Some (s', [])
  /\ (forall p u, PStoreCb <> PPut p u)
  /\ pavg s' = pavg s /\ pavg s = 553 # 128.
Proof.
  intros s s'.
  assert (Ha : port_act C09_cR s PStoreCb = Some (s', [])) by (vm_compute; reflexivity).
  assert (Hn : forall p u, PStoreCb <> PPut p u) by (intros p u; discriminate).
  split; [exact Ha|]. split; [exact Hn|].
  split; [exact (red_avg_unchanged C09_cR s PStoreCb s' [] Ha Hn)|]. vm_compute; reflexivity.
Qed.
Print Assumptions C09_ex_red_avg_unchanged.

(* ================================================================================================================ *)
(* Props/C09_BridgeRun.v.
   ---- hypotheses `psvc s = None`; `c_fix_rate0 c = true`; `port_run_step s (Some p) (port_gen_get c s p) = Some (s', outs)`;
        `port_run_step s (Some p) (port_gen_timer c s p) = Some (s', outs)`; `psvc s = Some (p, dl)` ------------------------
   covers C09_gen_port_run_init (s = port0 0), C09_gen_port_run_get, C09_gen_port_run_get_fields (the state of the Port
   execution above in which the server resumes with p0 at t = 0: the translated code asks for a timeout of 8*8/64 = 1),
   C09_gen_port_run_timer_fields, C09_gen_port_run_timer_explicit (the state at t = 1 in which that timeout is processed:
   byte_size 24 - 8 = 16, out.put(p0), back to the get, which finds p1). *)
Theorem C09_ex_gen_port_run :
  let sg := C09_st C09_cP (firstn 3 C09_ex_acts) in
  let sg1 := with_q sg (match sq_take (pq sg) with Some (_, q) => q | None => pq sg end) in
  let sg' := C09_st C09_cP (firstn 4 C09_ex_acts) in
  let st := C09_st C09_cP (firstn 10 C09_ex_acts) in
  let st' := C09_st C09_cP (firstn 11 C09_ex_acts) in
  psvc (port0 0) = None
  /\ c_fix_rate0 C09_cP = true
  /\ psvc sg1 = None
  /\ port_run_step sg1 (Some C09_p0) (port_gen_get C09_cP sg1 C09_p0) = Some (sg', [])
  /\ psvc st = Some (C09_p0, 1)
  /\ port_run_step st (Some C09_p0) (port_gen_timer C09_cP st C09_p0) = Some (st', [OForward C09_p0])
  (* conclusions *)
  /\ port_act C09_cP (port0 0) PInit
     = port_run_step (with_started (port0 0)) None (port_gen_init C09_cP (port0 0) 0 true)
  /\ port_act C09_cP (port0 0) PInit <> None
  /\ port_act C09_cP sg PGet = Some (sg', [])
  /\ snd (port_gen_get C09_cP sg1 C09_p0) = NxYield (RqTimeout (inject_Z (8 * 8) / 64)) PP2
  /\ port_run_fields sg' = fst (fst (port_gen_get C09_cP sg1 C09_p0))
  /\ port_run_fields sg' = {| pr_byte_size := 8; pr_busy := 1; pr_busy_packet_size := 8 |}
  /\ port_run_fields st' = fst (fst (port_gen_timer C09_cP st C09_p0))
  /\ port_run_fields st' = {| pr_byte_size := 16; pr_busy := 0; pr_busy_packet_size := 0 |}
  /\ (snd (fst (port_gen_timer C09_cP st C09_p0)) = [FxOutPut 1 (psize C09_p0) (pbytes st - psize C09_p0)] /\
      snd (port_gen_timer C09_cP st C09_p0) = NxYield RqStoreGet PP1)
  /\ pbytes st = 24%Z.
Proof.
  intros sg sg1 sg' st st'.
  assert (H0 : psvc (port0 0) = None) by reflexivity.
  assert (Hn : psvc sg1 = None) by (vm_compute; reflexivity).
  assert (Hg : port_run_step sg1 (Some C09_p0) (port_gen_get C09_cP sg1 C09_p0) = Some (sg', [])) by (vm_compute; reflexivity).
  assert (Hv : psvc st = Some (C09_p0, 1)) by (vm_compute; reflexivity).
  assert (Ht : port_run_step st (Some C09_p0) (port_gen_timer C09_cP st C09_p0) = Some (st', [OForward C09_p0]))
    by (vm_compute; reflexivity).
  split; [exact H0|]. split; [reflexivity|]. split; [exact Hn|]. split; [exact Hg|]. split; [exact Hv|]. split; [exact Ht|].
  split; [exact (bridge_port_run_init C09_cP (port0 0) 0 true H0)|].
  split; [vm_compute; discriminate|].
  split; [vm_compute; reflexivity|].
  split; [vm_compute; reflexivity|].
  split; [exact (port_run_step_fields_get C09_cP sg1 C09_p0 sg' [] Hn Hg)|].
  split; [vm_compute; reflexivity|].
  split; [exact (port_run_step_fields_timer C09_cP st C09_p0 st' _ Ht)|].
  split; [vm_compute; reflexivity|].
  split; [exact (port_run_timer_explicit C09_cP st C09_p0 1 Hv)|].
  vm_compute; reflexivity.
Qed.
Print Assumptions C09_ex_gen_port_run.
