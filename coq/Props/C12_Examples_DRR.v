(* C12 -- NON-VACUITY of the theorems of Props/C12_DRR.v.  Witness execution: Elem/DRRExample.v (dex_cfg, dex_acts: the
   action list the harness logged from a run of the real DRR): rate 8192 bit/s, classes 0 and 1 with weights 1 and 2
   (quanta 1500 and 3000), flows 1 and 7 share class 1; u0 (2000 B, flow 0), u1 (1000 B, flow 1), u2 (1000 B, flow 7),
   u3 (500 B, flow 0) arrive at 0, u4 (256 B, flow 1) arrives at 4 during the transmission of u3.  The 2000-byte head of
   class 0 is parked in the first round; departure order u1 u2 u0 u3 u4; the run ends drained.

   Coverage (theorem of Props/C12_DRR.v -> witness):
     C12_drr_work_conserving (both branches), C12_drr_flow_fifo, C12_drr_exactly_once,
     C12_drr_counters, C12_drr_tx_time, C12_drr_progress (several clauses enabled)       -> C12_ex_drr_execution
     C12_drr_one_at_a_time (both cases: the timeout ends it / a put() leaves it alone)     -> C12_ex_drr_one_at_a_time
     C12_drr_back_to_back                                                                  -> C12_ex_drr_back_to_back
   Unconditional: none. *)
From Coq Require Import ZArith QArith List Bool.
From ONL Require Import Elem.Packet Elem.StoreQ Elem.DRR Elem.DRRInv Elem.DRRProofs Elem.DRRLive Elem.DRRExample Elem.DRRWitness.
From ONL Require Import Props.C12_DRR.
Import ListNotations.

(* State W = after 31 actions (instant 4): u3 (class 0) is in transmission until 1125/256, u4 (flow 1, class 1) has just
   arrived and waits; u1 u2 u0 have left.  Final state: all 39 actions, drained. *)
Theorem C12_ex_drr_execution :
  (* hypotheses *)
  dwf dex_cfg /\
  drr_run dex_cfg (drr0 0) (firstn 31 dex_acts) = Some (dex_state 31, dex_trace 31) /\
  durgent dex_cfg (dex_state 31) = false /\
  drr_run dex_cfg (drr0 0) dex_acts = Some (dex_state 39, dex_trace 39) /\
  durgent dex_cfg (dex_state 39) = false /\
  (forall c, dheld dex_cfg (dex_state 39) c = []) /\
  (* C12_drr_tx_time: the state before the first transmission starts *)
  drr_run dex_cfg (drr0 0) (firstn 13 dex_acts) = Some (dex_state 13, dex_trace 13) /\
  drr_act dex_cfg (dex_state 13) DChildInit = Some (dex_state 14, []) /\
  (* the execution *)
  dnow (dex_state 31) = 4 /\
  dputs (dex_trace 31) = [dex_u0; dex_u1; dex_u2; dex_u3; dex_u4] /\ dfwds (dex_trace 31) = [dex_u1; dex_u2; dex_u0] /\
  dheld dex_cfg (dex_state 31) 0 = [dex_u3] /\ dheld dex_cfg (dex_state 31) 1 = [dex_u4] /\
  dfwds (dex_trace 39) = [dex_u1; dex_u2; dex_u0; dex_u3; dex_u4] /\
  (* conclusions at W *)
  (exists p dl, dchd (dex_state 31) = DCTx p dl /\ dnow (dex_state 31) < dl /\ p = dex_u3 /\ dl = 1125 # 256) /\
  dof_flow 1 (dputs (dex_trace 31)) = dof_flow 1 (dfwds (dex_trace 31)) ++ dof_flow 1 (dheld dex_cfg (dex_state 31) (df2c dex_cfg 1)) /\
  dof_flow 1 (dputs (dex_trace 31)) = [dex_u1; dex_u4] /\ dof_flow 1 (dfwds (dex_trace 31)) = [dex_u1] /\
  (dqcnt (dex_state 31) 0 = 1 /\ dqcnt (dex_state 31) 1 = 1 /\ dqcnt (dex_state 31) 7 = 0 /\ dqbytes (dex_state 31) 1 = 256 /\
   dqbytes (dex_state 31) 0 = 500 /\ dtotal (dex_state 31) = 2)%Z /\
  (forall f, dqcnt (dex_state 31) f = Z.of_nat (length (dof_flow f (dall_held dex_cfg (dex_state 31))))) /\
  dall_held dex_cfg (dex_state 31) = [dex_u3; dex_u4] /\
  (* conclusions at the final state: per flow and per class (flows 1 and 7 on class 1) everything left exactly once, in order *)
  (forall f, dof_flow f (dfwds (dex_trace 39)) = dof_flow f (dputs (dex_trace 39))) /\
  (forall c, dof_cls dex_cfg c (dfwds (dex_trace 39)) = dof_cls dex_cfg c (dputs (dex_trace 39))) /\
  dof_cls dex_cfg 1 (dfwds (dex_trace 39)) = [dex_u1; dex_u2; dex_u4] /\
  (* transmission time of u1: 8 * 1000 / 8192 = 125/128 *)
  (exists p dl, dchd (dex_state 13) = DCStart p /\ dchd (dex_state 14) = DCTx p dl /\
                dl == dnow (dex_state 13) + inject_Z (8 * psize p) / drate dex_cfg /\ p = dex_u1 /\ dl == 125 # 128) /\
  (* progress at W: the pending clauses are enabled -- a put() of a configured class and a clock move up to the deadline *)
  (exists r, drr_act dex_cfg (dex_state 31) (DPut dex_u2) = Some r) /\
  (exists r, drr_act dex_cfg (dex_state 31) (DAdvance (1125 # 256)) = Some r) /\
  (* progress at the state after 11 actions: run() holds a granted get on the store of class 0 *)
  get (dst (dex_state 11) 0) = GGranted (0, dex_u0) /\
  (exists r, drr_act dex_cfg (dex_state 11) (DGetDone (Some 0%Z)) = Some r).
Proof.
  assert (HW : drr_run dex_cfg (drr0 0) (firstn 31 dex_acts) = Some (dex_state 31, dex_trace 31)) by (vm_compute; reflexivity).
  assert (UW : durgent dex_cfg (dex_state 31) = false) by (vm_compute; reflexivity).
  assert (HF : drr_run dex_cfg (drr0 0) dex_acts = Some (dex_state 39, dex_trace 39)) by (vm_compute; reflexivity).
  assert (UF : durgent dex_cfg (dex_state 39) = false) by (vm_compute; reflexivity).
  assert (EF : forall c, dheld dex_cfg (dex_state 39) c = []).
  { destruct (C12_drr_work_conserving _ _ _ _ _ dex_wf HF UF) as [(p & dl & A & _)|N]; [|exact N]. vm_compute in A. discriminate A. }
  assert (H13 : drr_run dex_cfg (drr0 0) (firstn 13 dex_acts) = Some (dex_state 13, dex_trace 13)) by (vm_compute; reflexivity).
  assert (A13 : drr_act dex_cfg (dex_state 13) DChildInit = Some (dex_state 14, [])) by (vm_compute; reflexivity).
  assert (H11 : drr_run dex_cfg (drr0 0) (firstn 11 dex_acts) = Some (dex_state 11, dex_trace 11)) by (vm_compute; reflexivity).
  assert (G11 : get (dst (dex_state 11) 0) = GGranted (0, dex_u0)) by (vm_compute; reflexivity).
  split; [exact dex_wf|]. split; [exact HW|]. split; [exact UW|]. split; [exact HF|]. split; [exact UF|]. split; [exact EF|].
  split; [exact H13|]. split; [exact A13|].
  split; [vm_compute; reflexivity|]. split; [vm_compute; reflexivity|]. split; [vm_compute; reflexivity|].
  split; [vm_compute; reflexivity|]. split; [vm_compute; reflexivity|]. split; [vm_compute; reflexivity|].
  split.
  { destruct (C12_drr_work_conserving _ _ _ _ _ dex_wf HW UW) as [(p & dl & A & B)|N].
    - exists p, dl. split; [exact A|]. split; [exact B|]. vm_compute in A. injection A as <- <-. split; reflexivity.
    - exfalso. specialize (N 1%Z). vm_compute in N. discriminate N. }
  split; [exact (C12_drr_flow_fifo _ _ _ _ _ dex_wf HW 1%Z)|].
  split; [vm_compute; reflexivity|]. split; [vm_compute; reflexivity|].
  split; [repeat split; vm_compute; reflexivity|].
  split; [intros f; exact (proj1 (proj1 (C12_drr_counters _ _ _ _ _ dex_wf HW) f))|].
  split; [vm_compute; reflexivity|].
  destruct (C12_drr_exactly_once _ _ _ _ _ dex_wf HF EF) as [X1 X2].
  split; [exact X1|]. split; [exact X2|]. split; [vm_compute; reflexivity|].
  split.
  { destruct (C12_drr_tx_time _ _ _ _ _ _ _ dex_wf H13 A13) as (p & dl & A & B & C & _).
    exists p, dl. split; [exact A|]. split; [exact B|]. split; [exact C|].
    vm_compute in B. injection B as <- <-. split; reflexivity. }
  destruct (C12_drr_progress _ _ _ _ _ dex_wf HW) as (_ & _ & _ & _ & _ & _ & _ & _ & PP & PA).
  split; [apply PP; [vm_compute; right; left; reflexivity|reflexivity]|].
  split.
  { apply PA; [exact UW|vm_compute; reflexivity|]. intros p dl E. vm_compute in E. injection E as _ <-. vm_compute. discriminate. }
  split; [exact G11|].
  destruct (C12_drr_progress _ _ _ _ _ dex_wf H11) as (_ & _ & PG & _).
  exact (PG _ _ G11).
Qed.
Print Assumptions C12_ex_drr_execution.

(* while u3 is being transmitted (state after 28 actions, instant 4, deadline 1125/256) the put() of u4 neither ends nor
   disturbs the transmission; at the deadline (state after 32 actions) the timeout ends it by forwarding u3 *)
Theorem C12_ex_drr_one_at_a_time :
  dwf dex_cfg /\
  drr_run dex_cfg (drr0 0) (firstn 29 dex_acts) = Some (dex_state 29, dex_trace 29) /\
  drr_act dex_cfg (dex_state 29) (DPut dex_u4) = Some (dex_state 30, []) /\
  dchd (dex_state 29) = DCTx dex_u3 (1125 # 256) /\
  drr_run dex_cfg (drr0 0) (firstn 32 dex_acts) = Some (dex_state 32, dex_trace 32) /\
  drr_act dex_cfg (dex_state 32) DChildTimer = Some (dex_state 33, [DOForward dex_u3]) /\
  dchd (dex_state 32) = DCTx dex_u3 (1125 # 256) /\
  (* conclusions *)
  (dnow (dex_state 29) <= 1125 # 256 /\ dchd (dex_state 30) = DCTx dex_u3 (1125 # 256) /\ dnow (dex_state 30) <= 1125 # 256) /\
  (dnow (dex_state 32) == 1125 # 256 /\ dchd (dex_state 33) = DCDone dex_u3 /\ dnow (dex_state 33) = dnow (dex_state 32)).
Proof.
  assert (H29 : drr_run dex_cfg (drr0 0) (firstn 29 dex_acts) = Some (dex_state 29, dex_trace 29)) by (vm_compute; reflexivity).
  assert (A29 : drr_act dex_cfg (dex_state 29) (DPut dex_u4) = Some (dex_state 30, [])) by (vm_compute; reflexivity).
  assert (C29 : dchd (dex_state 29) = DCTx dex_u3 (1125 # 256)) by (vm_compute; reflexivity).
  assert (H32 : drr_run dex_cfg (drr0 0) (firstn 32 dex_acts) = Some (dex_state 32, dex_trace 32)) by (vm_compute; reflexivity).
  assert (A32 : drr_act dex_cfg (dex_state 32) DChildTimer = Some (dex_state 33, [DOForward dex_u3])) by (vm_compute; reflexivity).
  assert (C32 : dchd (dex_state 32) = DCTx dex_u3 (1125 # 256)) by (vm_compute; reflexivity).
  split; [exact dex_wf|]. split; [exact H29|]. split; [exact A29|]. split; [exact C29|]. split; [exact H32|]. split; [exact A32|].
  split; [exact C32|].
  split.
  { destruct (C12_drr_one_at_a_time _ _ _ _ _ _ _ _ _ _ dex_wf H29 A29 C29) as [L [(E & _)|(_ & _ & K & _ & M)]]; [discriminate E|].
    split; [exact L|]. split; [exact K|exact M]. }
  destruct (C12_drr_one_at_a_time _ _ _ _ _ _ _ _ _ _ dex_wf H32 A32 C32) as [_ [(_ & E & _ & K & M)|(N & _)]]; [|exfalso; apply N; reflexivity].
  split; [exact E|]. split; [exact K|exact M].
Qed.
Print Assumptions C12_ex_drr_one_at_a_time.

(* the transmission of u1 has just ended (state after 16 actions, instant 125/128, child DCDone u1) while u0, u3 (class 0) and
   u2 (class 1) are held; without a clock move run() debits class 1, takes u2 and starts its transmission *)
Definition dex_b2b_acts : list daction := [DChildEnd; DGetDone (Some 1%Z); DChildInit].
Definition dex_b2b_trace : list dtev :=
  match drr_run dex_cfg (dex_state 16) dex_b2b_acts with Some (_, tr) => tr | None => [] end.

Theorem C12_ex_drr_back_to_back :
  dwf dex_cfg /\
  drr_run dex_cfg (drr0 0) (firstn 16 dex_acts) = Some (dex_state 16, dex_trace 16) /\
  dchd (dex_state 16) = DCDone dex_u1 /\
  drr_run dex_cfg (dex_state 16) dex_b2b_acts = Some (dex_state 19, dex_b2b_trace) /\
  (forall t, ~ In (DAdvance t) dex_b2b_acts) /\
  durgent dex_cfg (dex_state 19) = false /\
  (exists c, dheld dex_cfg (dex_state 19) c <> []) /\
  (* conclusion *)
  dnow (dex_state 16) = 125 # 128 /\
  (exists p dl, dchd (dex_state 19) = DCTx p dl /\ In DChildInit dex_b2b_acts /\ dnow (dex_state 19) = dnow (dex_state 16) /\
                dnow (dex_state 19) < dl /\ p = dex_u2 /\ dl = 125 # 64).
Proof.
  assert (H16 : drr_run dex_cfg (drr0 0) (firstn 16 dex_acts) = Some (dex_state 16, dex_trace 16)) by (vm_compute; reflexivity).
  assert (C16 : dchd (dex_state 16) = DCDone dex_u1) by (vm_compute; reflexivity).
  assert (H19 : drr_run dex_cfg (dex_state 16) dex_b2b_acts = Some (dex_state 19, dex_b2b_trace)) by (vm_compute; reflexivity).
  assert (NA : forall t, ~ In (DAdvance t) dex_b2b_acts) by (intros t [H|[H|[H|[]]]]; discriminate H).
  assert (U19 : durgent dex_cfg (dex_state 19) = false) by (vm_compute; reflexivity).
  assert (B19 : exists c, dheld dex_cfg (dex_state 19) c <> []) by (exists 0%Z; vm_compute; discriminate).
  split; [exact dex_wf|]. split; [exact H16|]. split; [exact C16|]. split; [exact H19|]. split; [exact NA|]. split; [exact U19|].
  split; [exact B19|]. split; [vm_compute; reflexivity|].
  destruct (C12_drr_back_to_back _ _ _ _ _ _ _ _ _ dex_wf H16 C16 H19 NA U19 B19) as (p & dl & A & B & C & D).
  exists p, dl. split; [exact A|]. split; [exact B|]. split; [exact C|]. split; [exact D|].
  vm_compute in A. injection A as <- <-. split; reflexivity.
Qed.
Print Assumptions C12_ex_drr_back_to_back.
