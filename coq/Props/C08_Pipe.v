(* C08 -- "... and any pipeline built from them": a Coq model of COMPOSED elements and its theorems.
   Only statements, closed by the lemma that proves them, and their assumptions.
   Vocabulary (Elem/Iface.v, Elem/Compose.v, Elem/Adapt*.v):
     elem                      the common shape of the element models: state, labels of internal micro-steps, put / step /
                               advance (None = not admissible), urgent, deadline, held; outputs EForward p | EDrop p |
                               EHand k p (hand-over from stage k to stage k+1 inside a composite)
     run E s acts = Some (s', tr)   acts is an admissible execution of E from s (every action enabled); tr its timed trace
     puts tr / fwds tr / drops tr   the packets put in / forwarded / dropped along tr, in order (packet RECORDS: uid + header)
     A >> B  (= series A B)    series composition: state pair, every EForward of A is fed to B's put inside the same action
     actsA / actsB             what A / B see of a composite execution;  pipeline E [E1; ..; En] = E >> (E1 >> (.. >> En))
     conserves / flow_fifo / drained / laws   the three C08 statements in interface form
     wire_elem / port_elem / tb_elem / mq_elem (sp_elem, rr_elem, wrr_elem)   the adapters of the existing models
     par sel A B               two elements side by side (a packet goes to A iff sel p); fanin sel A B C = par sel A B >> C
     hands k tr                the packets shown as handed from stage k to stage k+1, in order;  tagged E: E numbers them consistently *)
From Coq Require Import ZArith QArith List Bool Permutation Arith.
From ONL Require Import Elem.Packet Elem.StoreQ
  Elem.HeapList Elem.WFQServer Elem.WFQServerProofs Elem.WFQServerTrace Elem.WFQ Elem.WFQProofs Elem.VC Elem.VCProofs Elem.WFQInst
  Elem.DRR Elem.DRRInv Elem.DRRProofs Elem.TwoRate Elem.TwoRateProofs Elem.Red
  Elem.Wire Elem.Port Elem.PortProofs Elem.Bucket Elem.BucketProofs Elem.SchedBase Elem.SchedBaseProofs Elem.SP
  Route.Demux Route.DemuxProofs Elem.Network Elem.Iface Elem.Compose Elem.ComposePar Elem.ComposeHands Elem.AdaptWire Elem.AdaptPort Elem.AdaptBucket Elem.AdaptSched
  Elem.AdaptSrv Elem.AdaptDRR Elem.AdaptTwoRate Elem.AdaptRed Elem.AdaptTagged Elem.ComposeFan Elem.ComposeNet Elem.ComposeExample.
Import ListNotations.
Local Open Scope Q_scope.

(* ================= the composite is made of its parts ================= *)
(* PROJECTION, for ALL elements A B and ALL admissible executions of A >> B from any pair of states: what A sees and what B
   sees are admissible executions of A alone and of B alone ending in the component states; A was given what was put into
   the composite; B was given exactly what A forwarded, in order; the composite forwards what B forwards; its drops are A's
   and B's.  (Like cable_projection for the two directions of a Cable, but here the two automata are coupled.) *)
Theorem C08_pipe_projection : forall (A B : elem) acts sA sB sA' sB' tr,
  run (A >> B) (sA, sB) acts = Some ((sA', sB'), tr) ->
  exists trA trB,
    run A sA (actsA A B acts) = Some (sA', trA) /\ run B sB (actsB A B sA acts) = Some (sB', trB) /\
    puts trA = puts tr /\ puts trB = fwds trA /\ fwds trB = fwds tr /\
    Permutation (drops tr) (drops trA ++ drops trB).
Proof. exact series_projection. Qed.
Print Assumptions C08_pipe_projection.

(* ================= the C08 laws compose ================= *)
(* injected into A = forwarded by B ++ dropped by A ++ dropped by B ++ held by A ++ held by B, as multisets of packet records *)
Theorem C08_pipe_compose_conserves : forall (A B : elem), conserves A -> conserves B -> forall acts s tr,
  run (A >> B) (init (A >> B)) acts = Some (s, tr) ->
  exists trA trB,
    run A (init A) (actsA A B acts) = Some (fst s, trA) /\ run B (init B) (actsB A B (init A) acts) = Some (snd s, trB) /\
    puts trA = puts tr /\ puts trB = fwds trA /\ fwds trB = fwds tr /\
    Permutation (puts trA) (fwds trB ++ drops trA ++ drops trB ++ held A (fst s) ++ held B (snd s)).
Proof. exact compose_conserves. Qed.
Print Assumptions C08_pipe_compose_conserves.

(* hence the composite is again an element that conserves packets (in its own vocabulary) *)
Theorem C08_pipe_series_conserves : forall (A B : elem), conserves A -> conserves B ->
  forall acts s tr, run (A >> B) (init (A >> B)) acts = Some (s, tr) ->
  Permutation (puts tr) (fwds tr ++ drops tr ++ held (A >> B) s).
Proof. exact series_conserves. Qed.
Print Assumptions C08_pipe_series_conserves.

(* packets of one flow leave the composite in the order in which they entered it *)
Theorem C08_pipe_compose_flow_fifo : forall (A B : elem) (f : Z), flow_fifo A f -> flow_fifo B f ->
  forall acts s tr, run (A >> B) (init (A >> B)) acts = Some (s, tr) ->
  sublist (filter (on_flow f) (fwds tr)) (filter (on_flow f) (puts tr)).
Proof. exact compose_flow_fifo. Qed.
Print Assumptions C08_pipe_compose_flow_fifo.

(* nothing of either stage due now and no deadline pending: neither stage holds a packet *)
Theorem C08_pipe_compose_drained : forall (A B : elem), conserves A -> drained A -> drained B ->
  forall acts s tr, run (A >> B) (init (A >> B)) acts = Some (s, tr) ->
  Forall (fun p => accepts (A >> B) p = true) (puts tr) ->
  urgent (A >> B) s = false -> deadline (A >> B) s = None -> held A (fst s) = [] /\ held B (snd s) = [].
Proof.
  exact (fun A B CA DA DB acts s tr H Acc U Dl => app_eq_nil _ _ (compose_drained A B CA DA DB acts s tr H Acc U Dl)).
Qed.
Print Assumptions C08_pipe_compose_drained.

Theorem C08_pipe_series_laws : forall (A B : elem), laws A -> laws B -> laws (A >> B).
Proof. exact series_laws. Qed.
Print Assumptions C08_pipe_series_laws.

(* by induction: every finite linear pipeline of law-abiding elements conserves packets, keeps per-flow order and drains *)
Theorem C08_pipe_pipeline_laws : forall (es : list elem) (E : elem), laws E -> Forall laws es -> laws (pipeline E es).
Proof. exact pipeline_laws. Qed.
Print Assumptions C08_pipe_pipeline_laws.

(* the stages share the clock; Advance is admissible only when nothing of any stage is due and no stage's deadline is passed *)
Theorem C08_pipe_series_timed : forall (A B : elem), timed A -> timed B -> timed (A >> B).
Proof. exact series_timed. Qed.
Print Assumptions C08_pipe_series_timed.

Theorem C08_pipe_series_clock : forall (A B : elem), timed A -> timed B -> forall acts sA sB sA' sB' tr,
  run (A >> B) (sA, sB) acts = Some ((sA', sB'), tr) -> now A sA = now B sB -> now A sA' = now B sB'.
Proof. exact series_clock. Qed.
Print Assumptions C08_pipe_series_clock.

Theorem C08_pipe_pipeline_timed : forall (es : list elem) (E : elem), timed E -> Forall timed es -> timed (pipeline E es).
Proof. exact pipeline_timed. Qed.
Print Assumptions C08_pipe_pipeline_timed.

(* ================= the hand-overs shown are the hand-overs made ================= *)
(* what any execution of A >> B shows at the boundary between A and B (this is what the correspondence compares with the taps
   between the stages of a real pipeline) is, in order, exactly what A forwarded, i.e. what was put into B *)
Theorem C08_pipe_hands : forall (A B : elem), tagged A -> forall acts sA sB s' tr sA' trA,
  run (A >> B) (sA, sB) acts = Some (s', tr) -> run A sA (actsA A B acts) = Some (sA', trA) ->
  hands (pred (width A)) tr = fwds trA.
Proof. exact series_hands. Qed.
Print Assumptions C08_pipe_hands.

Theorem C08_pipe_pipeline_tagged : forall (es : list elem) (E : elem), tagged E -> Forall tagged es -> tagged (pipeline E es).
Proof. exact pipeline_tagged. Qed.
Print Assumptions C08_pipe_pipeline_tagged.

Theorem C08_pipe_adapters_tagged :
  (forall loss t0, tagged (wire_elem loss t0)) /\ (forall c t0, tagged (port_elem c t0)) /\
  (forall c t0, tagged (tb_elem c t0)) /\ (forall c, tagged (mq_elem c)).
Proof. exact (conj wire_elem_tagged (conj port_elem_tagged (conj tb_elem_tagged mq_elem_tagged))). Qed.
Print Assumptions C08_pipe_adapters_tagged.

(* ================= fan-in ================= *)
(* two upstream elements side by side: each branch of ANY execution is an admissible execution of that element alone; what is
   put in, forwarded and dropped are interleavings of the branches' *)
Theorem C08_pipe_par_projection : forall (sel : pkt -> bool) (A B : elem) acts sA sB sA' sB' tr,
  run (par sel A B) (sA, sB) acts = Some ((sA', sB'), tr) ->
  exists trA trB,
    run A sA (pactsA sel A B acts) = Some (sA', trA) /\ run B sB (pactsB sel A B acts) = Some (sB', trB) /\
    interleave (puts trA) (puts trB) (puts tr) /\ interleave (fwds trA) (fwds trB) (fwds tr) /\
    interleave (drops trA) (drops trB) (drops tr) /\
    Forall (fun p => sel p = true) (puts trA) /\ Forall (fun p => sel p = false) (puts trB).
Proof. exact par_projection. Qed.
Print Assumptions C08_pipe_par_projection.

(* (A | B) >> C: injected into A and into B = forwarded by C ++ dropped by A, B, C ++ held by A, B, C *)
Theorem C08_pipe_fanin_conserves : forall (sel : pkt -> bool) (A B C : elem), conserves A -> conserves B -> conserves C ->
  forall acts s tr, run (fanin sel A B C) (init (fanin sel A B C)) acts = Some (s, tr) ->
  Permutation (puts tr) (fwds tr ++ drops tr ++ (held A (fst (fst s)) ++ held B (snd (fst s))) ++ held C (snd s)).
Proof. exact fanin_conserves. Qed.
Print Assumptions C08_pipe_fanin_conserves.

(* a flow injected into one branch only leaves the fan-in in the order in which it entered *)
Theorem C08_pipe_fanin_flow_fifo : forall (sel : pkt -> bool) (A B C : elem) (f : Z),
  conserves A -> conserves B ->
  ((forall p, on_flow f p = true -> sel p = true) /\ flow_fifo A f \/ (forall p, on_flow f p = true -> sel p = false) /\ flow_fifo B f) ->
  flow_fifo C f ->
  forall acts s tr, run (fanin sel A B C) (init (fanin sel A B C)) acts = Some (s, tr) ->
  sublist (filter (on_flow f) (fwds tr)) (filter (on_flow f) (puts tr)).
Proof. exact fanin_flow_fifo. Qed.
Print Assumptions C08_pipe_fanin_flow_fifo.

Theorem C08_pipe_fanin_drained : forall (sel : pkt -> bool) (A B C : elem),
  conserves A -> conserves B -> drained A -> drained B -> drained C -> drained (fanin sel A B C).
Proof. exact fanin_drained. Qed.
Print Assumptions C08_pipe_fanin_drained.

(* the hand-overs of a fan-in: what is shown in front of C is an interleaving of what A and what B forwarded *)
Theorem C08_pipe_par_tagged : forall (sel : pkt -> bool) (A B : elem), tagged A -> tagged B -> tagged (par sel A B).
Proof. exact par_tagged. Qed.
Print Assumptions C08_pipe_par_tagged.

Theorem C08_pipe_fanin_hands : forall (sel : pkt -> bool) (A B C : elem), tagged A -> tagged B -> forall acts s tr,
  run (fanin sel A B C) (init (fanin sel A B C)) acts = Some (s, tr) ->
  exists trA trB,
    run A (init A) (pactsA sel A B (actsA (par sel A B) C acts)) = Some (fst (fst s), trA) /\
    run B (init B) (pactsB sel A B (actsA (par sel A B) C acts)) = Some (snd (fst s), trB) /\
    interleave (fwds trA) (fwds trB) (hands (pred (width A + width B)%nat) tr).
Proof. exact fanin_hands. Qed.
Print Assumptions C08_pipe_fanin_hands.

(* ================= fan-out ================= *)
(* two elements side by side behind a classifier that looks at the flow id only: all three laws, for every flow *)
Theorem C08_pipe_par_laws_by_flow : forall (sel : pkt -> bool) (g : Z -> bool) (A B : elem),
  (forall p, sel p = g (flow p)) -> laws A -> laws B -> laws (par sel A B).
Proof. exact par_laws_by_flow. Qed.
Print Assumptions C08_pipe_par_laws_by_flow.

(* the demultiplexer (FlowDemux / FIBDemux: any decision function of Route/Demux.v) as a stateless element: every packet put
   in leaves it exactly once -- handed on iff the decision is a device, discarded iff it is "nowhere" *)
Theorem C08_pipe_demux_elem : forall (route : Z -> Demux.output) (t0 : Q),
  laws (demux_elem route t0) /\ timed (demux_elem route t0) /\ tagged (demux_elem route t0) /\
  (forall p s s' o, demux_put route p s = Some (s', o) ->
     s' = s /\ o_fwds o ++ o_drops o = [p] /\ (o_fwds o = [p] <-> deliverable (route (flow p)) = true)).
Proof.
  exact (fun route t0 => conj (demux_elem_laws route t0) (conj (demux_elem_timed route t0) (conj (demux_elem_tagged route t0)
                            (demux_put_once route)))).
Qed.
Print Assumptions C08_pipe_demux_elem.

(* C18's exactly-one-output theorem feeds the composition: the FIBDemux element hands a packet on as often as the delivery list
   of C18_exactly_one_output is long; FlowDemux(two outputs, no default) sends flow 0 to the first branch, flow 1 to the second
   and discards every other flow (C18_flowdemux_rule) *)
Theorem C08_pipe_demux_routes :
  (forall c p s s' o, demux_put (fibdemux true true c) p s = Some (s', o) ->
     length (o_fwds o) = length (fst (fib_deliveries true true true c [] (flow p)))) /\
  (let route := flowdemux true {| fd_nouts := 2; fd_default := false |} in
   forall p, (branch0 route p = true <-> flow p = 0%Z) /\ (routed route p = true <-> (0 <= flow p < 2)%Z) /\
             (routed route p = false -> route (flow p) = ONowhere)).
Proof. exact (conj fibdemux_put_deliveries flowdemux2_routes). Qed.
Print Assumptions C08_pipe_demux_routes.

(* A -> demux -> (B | C) *)
Theorem C08_pipe_fanout_laws : forall (route : Z -> Demux.output) (t0 : Q) (A B C : elem),
  (laws A -> laws B -> laws C -> laws (fanout route t0 A B C)) /\
  (timed A -> timed B -> timed C -> timed (fanout route t0 A B C)) /\
  (tagged A -> tagged B -> tagged C -> tagged (fanout route t0 A B C)).
Proof. exact (fun route t0 A B C => conj (fanout_laws route t0 A B C) (conj (fanout_timed route t0 A B C) (fanout_tagged route t0 A B C))). Qed.
Print Assumptions C08_pipe_fanout_laws.

(* injected into A = delivered by B and by C ++ dropped (by A, by the demux's no-route rule, by B, by C) ++ held by A, B, C *)
Theorem C08_pipe_fanout_conserves : forall (route : Z -> Demux.output) (t0 : Q) (A B C : elem),
  conserves A -> conserves B -> conserves C -> forall acts s tr,
  run (fanout route t0 A B C) (init (fanout route t0 A B C)) acts = Some (s, tr) ->
  Permutation (puts tr) (fwds tr ++ drops tr ++ held A (fst s) ++ held B (fst (snd (snd s))) ++ held C (snd (snd (snd s)))).
Proof. exact fanout_conserves. Qed.
Print Assumptions C08_pipe_fanout_conserves.

(* ================= the abstract composition theorem is instantiated ================= *)
(* For every execution of every series composition of two conserving elements, the wiring "node 0 = A, node 1 = B, injection
   into A, A sends what it forwards to B, B delivers to the sink" satisfies the three hypotheses of C08_network_conserves
   (Props/C08_Net.v); its conclusion is the conservation equation of the composite, per packet identity. *)
Theorem C08_pipe_network_instance : forall (A B : elem), conserves A -> conserves B -> forall acts s tr,
  run (A >> B) (init (A >> B)) acts = Some (s, tr) ->
  exists trA trB,
    run A (init A) (actsA A B acts) = Some (fst s, trA) /\ run B (init B) (actsB A B (init A) acts) = Some (snd s, trB) /\
    puts trA = puts tr /\ fwds trB = fwds tr /\
    ((forall i u, i < 2 -> cnt u (n_inp A B trA trB i) = cnt u (n_fwd A B trA trB i) + cnt u (n_drp A B trA trB i) + cnt u (n_held A B (fst s) (snd s) i)) /\
    (forall i u, i < 2 -> cnt u (n_fwd A B trA trB i) = sum_n 2 (fun j => cnt u (n_sent A trA i j)) + cnt u (n_tosink B trB i)) /\
    (forall j u, j < 2 -> cnt u (n_inp A B trA trB j) = cnt u (n_inj A trA j) + sum_n 2 (fun i => cnt u (n_sent A trA i j))) /\
    (forall u, cnt u (uids (puts tr)) =
               cnt u (uids (fwds tr)) + (cnt u (uids (drops trA)) + cnt u (uids (drops trB)))
               + (cnt u (uids (held A (fst s))) + cnt u (uids (held B (snd s))))))%nat.
Proof. exact compose_network. Qed.
Print Assumptions C08_pipe_network_instance.

(* ... and for linear pipelines of ANY length: the stage-by-stage views of an execution (what each stage was given, forwarded,
   dropped, holds: pviews) form a wiring "node i sends what it forwards to node i+1" that satisfies the three hypotheses of
   C08_network_conserves, for every execution of every finite pipeline of conserving elements; the conclusion is the
   end-to-end equation with the drops and the held packets of all stages summed *)
Theorem C08_pipe_pipeline_network : forall (es : list elem) (E : elem), conserves E -> Forall conserves es -> forall acts s tr,
  run (pipeline E es) (init (pipeline E es)) acts = Some (s, tr) ->
  exists vs, pviews es E acts = Some vs /\ length vs = S (length es) /\
    let n := length vs in
    ((forall i u, i < n -> cnt u (c_inp vs i) = cnt u (c_fwd vs i) + cnt u (c_drp vs i) + cnt u (c_held vs i)) /\
     (forall i u, i < n -> cnt u (c_fwd vs i) = sum_n n (fun j => cnt u (c_sent vs i j)) + cnt u (c_tosink vs i)) /\
     (forall j u, j < n -> cnt u (c_inp vs j) = cnt u (c_inj vs j) + sum_n n (fun i => cnt u (c_sent vs i j))) /\
     (forall u, cnt u (uids (puts tr)) =
                cnt u (uids (fwds tr)) + sum_n n (fun i => cnt u (c_drp vs i)) + sum_n n (fun i => cnt u (c_held vs i))))%nat.
Proof. exact pipeline_network. Qed.
Print Assumptions C08_pipe_pipeline_network.

(* the views are what the stages' own executions say, they are chained, and each satisfies its element's conservation law *)
Theorem C08_pipe_pipeline_views : forall (es : list elem) (E : elem), conserves E -> Forall conserves es -> forall acts s tr,
  run (pipeline E es) (init (pipeline E es)) acts = Some (s, tr) ->
  exists vs, pviews es E acts = Some vs /\ length vs = S (length es) /\ Forall v_ok vs /\ chained vs /\
             v_puts (nthv vs 0) = puts tr /\ v_fwds (nthv vs (length es)) = fwds tr.
Proof. exact pipeline_views. Qed.
Print Assumptions C08_pipe_pipeline_views.

(* ================= the adapters: the interface elements ARE the existing models ================= *)
Theorem C08_pipe_wire_adapter_exact : forall loss t0 w w',
  (forall acts tr, wire_run loss w acts = Some (w', tr) -> run (wire_elem loss t0) w (map w_of acts) = Some (w', map w_ev tr)) /\
  (forall acts tr, run (wire_elem loss t0) w acts = Some (w', tr) ->
     exists tr0, wire_run loss w (map w_to acts) = Some (w', tr0) /\ tr = map w_ev tr0 /\ map w_of (map w_to acts) = acts).
Proof. exact (fun loss t0 w w' => conj (fun acts tr => wire_run_elem loss t0 acts w w' tr) (fun acts tr => wire_elem_run loss t0 acts w w' tr)). Qed.
Print Assumptions C08_pipe_wire_adapter_exact.

Theorem C08_pipe_port_adapter_exact : forall c t0 s s',
  (forall acts tr, Forall no_draw acts -> port_run c s acts = Some (s', tr) -> run (port_elem c t0) s (map p_of acts) = Some (s', map p_ev tr)) /\
  (forall acts tr, run (port_elem c t0) s acts = Some (s', tr) ->
     exists tr0, port_run c s (map p_to acts) = Some (s', tr0) /\ tr = map p_ev tr0 /\
                 map p_of (map p_to acts) = acts /\ Forall no_draw (map p_to acts)).
Proof. exact (fun c t0 s s' => conj (fun acts tr => port_run_elem c t0 acts s s' tr) (fun acts tr => port_elem_run c t0 acts s s' tr)). Qed.
Print Assumptions C08_pipe_port_adapter_exact.

Theorem C08_pipe_tb_adapter_exact : forall c t0 s s',
  (forall acts tr, tb_run c s acts = Some (s', tr) -> run (tb_elem c t0) s (map t_of acts) = Some (s', map t_ev tr)) /\
  (forall acts tr, run (tb_elem c t0) s acts = Some (s', tr) ->
     exists tr0, tb_run c s (map t_to acts) = Some (s', tr0) /\ tr = map t_ev tr0 /\ map t_of (map t_to acts) = acts).
Proof. exact (fun c t0 s s' => conj (fun acts tr => tb_run_elem c t0 acts s s' tr) (fun acts tr => tb_elem_run c t0 acts s s' tr)). Qed.
Print Assumptions C08_pipe_tb_adapter_exact.

Theorem C08_pipe_mq_adapter_exact : forall c s s',
  (forall acts tr, mq_run c s acts = Some (s', tr) -> run (mq_elem c) s (map s_of acts) = Some (s', map s_ev tr)) /\
  (forall acts tr, run (mq_elem c) s acts = Some (s', tr) ->
     exists tr0, mq_run c s (map s_to acts) = Some (s', tr0) /\ tr = map s_ev tr0 /\ map s_of (map s_to acts) = acts).
Proof. exact (fun c s s' => conj (fun acts tr => mq_run_elem c acts s s' tr) (fun acts tr => mq_elem_run c acts s s' tr)). Qed.
Print Assumptions C08_pipe_mq_adapter_exact.

(* WFQ and VirtualClock (one automaton with a stamping discipline S): the adapter's put refuses unconfigured packets, so its
   executions are exactly the model's executions over configured packets (put_ok: every FPut carries a configured packet) *)
Theorem C08_pipe_srv_adapter_exact : forall (S : stamper) (rate : Q) (st0 : ST S) (confb : pkt -> bool) s s',
  (forall acts tr, Forall (put_ok confb) acts -> WFQServer.run S rate s acts = Some (s', tr) ->
     Iface.run (srv_elem S rate st0 confb) s (map f_of acts) = Some (s', map (f_ev S) tr)) /\
  (forall acts tr, Iface.run (srv_elem S rate st0 confb) s acts = Some (s', tr) ->
     exists tr0, WFQServer.run S rate s (map f_to acts) = Some (s', tr0) /\ tr = map (f_ev S) tr0 /\
                 map f_of (map f_to acts) = acts /\ Forall (put_ok confb) (map f_to acts)).
Proof.
  exact (fun S rate st0 confb s s' => conj (fun acts tr => srv_run_elem S rate st0 confb acts s s' tr)
                                           (fun acts tr => srv_elem_run S rate st0 confb acts s s' tr)).
Qed.
Print Assumptions C08_pipe_srv_adapter_exact.

Theorem C08_pipe_drr_adapter_exact : forall c t0 s s',
  (forall acts tr, drr_run c s acts = Some (s', tr) -> Iface.run (drr_elem c t0) s (map d_of acts) = Some (s', map d_ev tr)) /\
  (forall acts tr, Iface.run (drr_elem c t0) s acts = Some (s', tr) ->
     exists tr0, drr_run c s (map d_to acts) = Some (s', tr0) /\ tr = map d_ev tr0 /\ map d_of (map d_to acts) = acts).
Proof. exact (fun c t0 s s' => conj (fun acts tr => drr_run_elem c t0 acts s s' tr) (fun acts tr => drr_elem_run c t0 acts s s' tr)). Qed.
Print Assumptions C08_pipe_drr_adapter_exact.

Theorem C08_pipe_trtb_adapter_exact : forall c t0 s s',
  (forall acts tr, tr_run true true c s acts = Some (s', tr) -> Iface.run (trtb_elem c t0) s (map r_of acts) = Some (s', map r_ev tr)) /\
  (forall acts tr, Iface.run (trtb_elem c t0) s acts = Some (s', tr) ->
     exists tr0, tr_run true true c s (map r_to acts) = Some (s', tr0) /\ tr = map r_ev tr0 /\ map r_of (map r_to acts) = acts).
Proof. exact (fun c t0 s s' => conj (fun acts tr => tr_run_elem c t0 acts s s' tr) (fun acts tr => trtb_elem_run c t0 acts s s' tr)). Qed.
Print Assumptions C08_pipe_trtb_adapter_exact.

(* elements whose put() consumes a random draw (REDPort; any drop policy of Elem/Port.v): the adapter keeps an oracle tape of
   draws in its state (`OLoad u` appends the next value of random.uniform, a put consumes the head exactly when the policy asks
   for a draw), because in a composition the put is made inside an action of the UPSTREAM element.  Its executions are the
   executions of port_run: adapter -> model for every tape; model -> adapter (each draw loaded right before the put that
   consumes it) for every policy that asks for a determinate number of draws, which RED's and the tail-drop policy do *)
Theorem C08_pipe_oport_adapter_exact : forall c t0,
  (forall acts s tape s' tape' tr, Iface.run (oport_elem c t0) (s, tape) acts = Some ((s', tape'), tr) ->
     exists tr0, port_run c s (o_model c s tape acts) = Some (s', tr0) /\
                 Iface.puts tr = PortProofs.puts tr0 /\ Iface.fwds tr = forwarded tr0 /\ Iface.drops tr = dropped tr0) /\
  (draw_det c -> forall acts s s' tr0, port_run c s acts = Some (s', tr0) ->
     exists tr, Iface.run (oport_elem c t0) (s, []) (flat_map o_of acts) = Some ((s', []), tr) /\
                Iface.puts tr = PortProofs.puts tr0 /\ Iface.fwds tr = forwarded tr0 /\ Iface.drops tr = dropped tr0) /\
  (forall f rate rc eid, draw_det (red_cfg f rate rc eid)) /\ (forall f rate ql lb eid, draw_det (port_cfg f rate ql lb eid)).
Proof.
  exact (fun c t0 => conj (oport_elem_run c t0) (conj (port_run_oelem c t0) (conj red_draw_det tail_draw_det))).
Qed.
Print Assumptions C08_pipe_oport_adapter_exact.

(* the per-element C08 theorems in interface form *)
Theorem C08_pipe_wire_laws : forall loss t0, laws (wire_elem loss t0) /\ timed (wire_elem loss t0).
Proof. exact (fun loss t0 => conj (wire_elem_laws loss t0) (wire_elem_timed loss t0)). Qed.
Print Assumptions C08_pipe_wire_laws.

Theorem C08_pipe_port_laws : forall c t0, laws (port_elem c t0) /\ timed (port_elem c t0).
Proof. exact (fun c t0 => conj (port_elem_laws c t0) (port_elem_timed c t0)). Qed.
Print Assumptions C08_pipe_port_laws.

Theorem C08_pipe_tb_laws : forall c t0, 0 < Bucket.rate c -> (forall k, peak_on c = Some k -> 0 < k) ->
  laws (tb_elem c t0) /\ timed (tb_elem c t0).
Proof. exact (fun c t0 R K => conj (tb_elem_laws c t0 (conj R K)) (tb_elem_timed c t0)). Qed.
Print Assumptions C08_pipe_tb_laws.

(* SP, RR and WRR are configurations of one automaton: rate > 0, identity class map for the counting schedulers,
   every allowance (SP priority, WRR weight) positive *)
Theorem C08_pipe_mq_laws : forall c, cfg_ok c -> laws (mq_elem c) /\ timed (mq_elem c).
Proof. exact (fun c Ok => conj (mq_elem_laws c Ok) (mq_elem_timed c)). Qed.
Print Assumptions C08_pipe_mq_laws.

Theorem C08_pipe_sp_laws : forall r cm fl tbl, 0 < r -> (forall k p, In (k, p) tbl -> (0 < p)%Z) -> laws (sp_elem r cm fl tbl).
Proof. exact sp_elem_laws. Qed.
Print Assumptions C08_pipe_sp_laws.

Theorem C08_pipe_rr_wrr_laws :
  (forall r fl, 0 < r -> laws (rr_elem r fl)) /\
  (forall r ws, 0 < r -> (forall f w, In (f, w) ws -> (0 < w)%Z) -> laws (wrr_elem r ws)).
Proof. exact (conj rr_elem_laws wrr_elem_laws). Qed.
Print Assumptions C08_pipe_rr_wrr_laws.

Theorem C08_pipe_wfq_vc_laws :
  (forall cfg, wcfg_ok cfg -> laws (wfq_elem cfg) /\ timed (wfq_elem cfg) /\ tagged (wfq_elem cfg)) /\
  (forall cfg, vcfg_ok cfg -> laws (vc_elem cfg) /\ timed (vc_elem cfg) /\ tagged (vc_elem cfg)).
Proof.
  exact (conj (fun cfg Ok => conj (wfq_elem_laws cfg Ok) (conj (srv_elem_timed _ _ _ _) (wfq_elem_tagged cfg)))
              (fun cfg Ok => conj (vc_elem_laws cfg Ok) (conj (srv_elem_timed _ _ _ _) (vc_elem_tagged cfg)))).
Qed.
Print Assumptions C08_pipe_wfq_vc_laws.

Theorem C08_pipe_drr_laws : forall cfg t0, dwf cfg ->
  laws (drr_elem cfg t0) /\ timed (drr_elem cfg t0) /\ tagged (drr_elem cfg t0).
Proof. exact (fun cfg t0 W => conj (drr_elem_laws cfg t0 W) (conj (drr_elem_timed cfg t0) (drr_elem_tagged cfg t0))). Qed.
Print Assumptions C08_pipe_drr_laws.

Theorem C08_pipe_trtb_laws : forall c t0, trwf c ->
  laws (trtb_elem c t0) /\ timed (trtb_elem c t0) /\ tagged (trtb_elem c t0).
Proof. exact (fun c t0 W => conj (trtb_elem_laws c t0 W) (conj (trtb_elem_timed c t0) (trtb_elem_tagged c t0))). Qed.
Print Assumptions C08_pipe_trtb_laws.

(* REDPort (and the port under any other drop policy, draws or not) *)
Theorem C08_pipe_oport_laws : forall c t0, laws (oport_elem c t0) /\ timed (oport_elem c t0) /\ tagged (oport_elem c t0).
Proof. exact (fun c t0 => conj (oport_elem_laws c t0) (conj (oport_elem_timed c t0) (oport_elem_tagged c t0))). Qed.
Print Assumptions C08_pipe_oport_laws.

(* ================= a concrete family: Port >> Wire >> TokenBucket, every configuration ================= *)
(* every admissible execution of the three-stage pipeline: injected = delivered ++ dropped (port refusals, wire losses) ++
   held (by the port, the wire, the bucket), per-flow order kept end to end, and at quiescence nothing is held *)
Theorem C08_pipe_port_wire_tb : forall (pc : pcfg) (loss : option Q) (tc : tbcfg) (t0 : Q),
  0 < Bucket.rate tc -> (forall k, peak_on tc = Some k -> 0 < k) ->
  let E := pipeline (port_elem pc t0) [wire_elem loss t0; tb_elem tc t0] in
  forall acts s tr, run E (init E) acts = Some (s, tr) ->
    Permutation (puts tr) (fwds tr ++ drops tr ++ port_held (fst s) ++ wheld (fst (snd s)) ++ tb_held (snd (snd s)))
    /\ (forall f, sublist (filter (on_flow f) (fwds tr)) (filter (on_flow f) (puts tr)))
    /\ (Forall (fun p => (0 <= psize p)%Z) (puts tr) -> urgent E s = false -> deadline E s = None ->
        Permutation (puts tr) (fwds tr ++ drops tr)).
Proof. exact port_wire_tb_conserves. Qed.
Print Assumptions C08_pipe_port_wire_tb.

(* ================= non-vacuity: concrete executions, computed ================= *)
(* Port(1024 bit/s, 2 packets) >> Wire(delay 1/2) >> TokenBucket(512 bit/s, 128 B): three 128-byte packets at t = 0; the third
   is refused by the port; the other two cross the wire and the bucket (the second waits one second for tokens) *)
Example C08_pipe_example_run :
  exists s tr, run ex_pipe (init ex_pipe) ex_acts = Some (s, tr) /\
    puts tr = [xp 0; xp 1; xp 2] /\ fwds tr = [xp 0; xp 1] /\ drops tr = [xp 2] /\
    hands 0 tr = [xp 0; xp 1] /\ hands 1 tr = [xp 0; xp 1] /\
    tfwds tr = [(3 # 2, xp 0); (7 # 2, xp 1)] /\
    held ex_pipe s = [] /\ urgent ex_pipe s = false /\ deadline ex_pipe s = None.
Proof. exact ex_pipe_run. Qed.
Print Assumptions C08_pipe_example_run.

(* the same execution stopped after 14 actions: one packet is in the port's transmission, one propagates on the wire *)
Example C08_pipe_example_held :
  exists s tr, run ex_pipe (init ex_pipe) (firstn 14 ex_acts) = Some (s, tr) /\
    puts tr = [xp 0; xp 1; xp 2] /\ fwds tr = [] /\ drops tr = [xp 2] /\
    port_held (fst s) = [xp 1] /\ wheld (fst (snd s)) = [xp 0] /\ tb_held (snd (snd s)) = [] /\
    deadline ex_pipe s = Some (3 # 2).
Proof. exact ex_pipe_held. Qed.
Print Assumptions C08_pipe_example_held.

(* a scheduler in the middle: Wire >> SP(flows 0,1; priorities 1,2) >> Port, two flows *)
Example C08_pipe_example_sp :
  exists s tr, run ex2_pipe (init ex2_pipe) ex2_acts = Some (s, tr) /\
    puts tr = [yp 0 0; yp 1 1; yp 2 0] /\ fwds tr = [yp 1 1; yp 0 0; yp 2 0] /\ drops tr = [] /\ held ex2_pipe s = [].
Proof. exact ex2_pipe_run. Qed.
Print Assumptions C08_pipe_example_sp.

(* fan-in: two rate-0 ports (flow 0 / the other flows) into one SP; the scheduler serves flow 1 first *)
Example C08_pipe_example_fanin :
  exists s tr, run ex3_net (init ex3_net) ex3_acts = Some (s, tr) /\
    puts tr = [yp 0 0; yp 1 1] /\ fwds tr = [yp 1 1; yp 0 0] /\ drops tr = [] /\
    hands 1 tr = [yp 0 0; yp 1 1] /\ held ex3_net s = [] /\ urgent ex3_net s = false /\ deadline ex3_net s = None.
Proof. exact ex3_fanin_run. Qed.
Print Assumptions C08_pipe_example_fanin.

(* fan-out: Wire -> FlowDemux(two outputs, no default) -> two rate-0 ports; the packet of flow 2 is discarded by the demux *)
Example C08_pipe_example_fanout :
  exists s tr, run ex4_net (init ex4_net) ex4_acts = Some (s, tr) /\
    puts tr = [yp 0 0; yp 1 1; yp 2 2] /\ fwds tr = [yp 1 1; yp 0 0] /\ drops tr = [yp 2 2] /\
    hands 0 tr = [yp 0 0; yp 1 1; yp 2 2] /\ hands 1 tr = [yp 0 0; yp 1 1] /\
    held ex4_net s = [] /\ urgent ex4_net s = false /\ deadline ex4_net s = None.
Proof. exact ex4_fanout_run. Qed.
Print Assumptions C08_pipe_example_fanout.

(* the stage-by-stage views of the three-stage example *)
Example C08_pipe_example_views :
  pviews [wire_elem None 0; tb_elem ex_tb 0] (port_elem ex_port 0) ex_acts =
  Some [ {| v_puts := [xp 0; xp 1; xp 2]; v_fwds := [xp 0; xp 1]; v_drops := [xp 2]; v_held := [] |};
         {| v_puts := [xp 0; xp 1]; v_fwds := [xp 0; xp 1]; v_drops := []; v_held := [] |};
         {| v_puts := [xp 0; xp 1]; v_fwds := [xp 0; xp 1]; v_drops := []; v_held := [] |} ].
Proof. exact ex_pipe_views. Qed.
Print Assumptions C08_pipe_example_views.
