(* C12 (work-conserving, non-preemptive, rate-exact, per-flow FIFO, counters), share of WFQ and VirtualClock.
   Only statements, closed by the lemma that proves them.  Vocabulary: see Props/C08_WFQ.v, and
     wreach cfg s / vreach cfg s   s is reachable by an admissible execution over configured packets
     urgent s = false              nothing of the scheduler is due in the current instant (the clock may move)
     tx_ok rate cur tr             (Elem/WFQServerTrace.v) along the trace: a transmission starts (FChildInit) only when
                                   none is in progress and gets the end instant now + 8*size/rate; the only step that
                                   forwards is FChildTimer, it forwards the packet in transmission exactly at that end
                                   instant; no other step aborts it or lets the end instant pass
     starts_at t tr                scanning tr forward, the clock does not move before the next transmission start,
                                   and that start happens at instant t *)
From Coq Require Import ZArith QArith List Bool Permutation.
From ONL Require Import Elem.Packet Elem.StoreQ Elem.WFQServer Elem.WFQServerProofs Elem.WFQServerTrace Elem.WFQ Elem.WFQProofs
  Elem.VC Elem.VCProofs Elem.WFQInst.
Import ListNotations.

(* whenever the clock may move, a transmission is in progress (and not yet due) or no packet is held *)
Theorem C12_wfq_work_conserving : forall (cfg : wcfg), wcfg_ok cfg -> forall s,
  wreach cfg s -> urgent s = false -> (exists e dl, chl s = CTx e dl /\ now s < dl) \/ held (WS cfg) s = [].
Proof. exact wfq_work_conserving. Qed.
Print Assumptions C12_wfq_work_conserving.

Theorem C12_vc_work_conserving : forall (cfg : vcfg), vcfg_ok cfg -> forall s,
  vreach cfg s -> urgent s = false -> (exists e dl, chl s = CTx e dl /\ now s < dl) \/ held (VS cfg) s = [].
Proof. exact vc_work_conserving. Qed.
Print Assumptions C12_vc_work_conserving.

(* after any step of any execution: if a packet is held and no transmission is in progress, the next transmission
   starts before the clock moves (in particular at the next arrival into an idle scheduler) *)
Theorem C12_wfq_no_idle_backlog : forall (cfg : wcfg), wcfg_ok cfg -> forall acts s' tr,
  wadm cfg acts -> wfq_run cfg (wfq0 cfg) acts = Some (s', tr) ->
  forall tr1 a o s1 tr2, tr = tr1 ++ (a, o, s1) :: tr2 ->
  held (WS cfg) s1 <> [] -> (forall e dl, chl s1 <> CTx e dl) -> starts_at (WS cfg) (now s1) tr2.
Proof. exact wfq_no_idle_backlog. Qed.
Print Assumptions C12_wfq_no_idle_backlog.

Theorem C12_vc_no_idle_backlog : forall (cfg : vcfg), vcfg_ok cfg -> forall acts s' tr,
  vadm cfg acts -> vc_run cfg (vc0 cfg) acts = Some (s', tr) ->
  forall tr1 a o s1 tr2, tr = tr1 ++ (a, o, s1) :: tr2 ->
  held (VS cfg) s1 <> [] -> (forall e dl, chl s1 <> CTx e dl) -> starts_at (VS cfg) (now s1) tr2.
Proof. exact vc_no_idle_backlog. Qed.
Print Assumptions C12_vc_no_idle_backlog.

(* if a packet is held when a transmission ends, the next one starts at that very instant *)
Theorem C12_wfq_back_to_back : forall (cfg : wcfg), wcfg_ok cfg -> forall acts s' tr,
  wadm cfg acts -> wfq_run cfg (wfq0 cfg) acts = Some (s', tr) ->
  forall tr1 o s1 tr2, tr = tr1 ++ (FChildTimer, o, s1) :: tr2 -> held (WS cfg) s1 <> [] -> starts_at (WS cfg) (now s1) tr2.
Proof. exact wfq_back_to_back. Qed.
Print Assumptions C12_wfq_back_to_back.

Theorem C12_vc_back_to_back : forall (cfg : vcfg), vcfg_ok cfg -> forall acts s' tr,
  vadm cfg acts -> vc_run cfg (vc0 cfg) acts = Some (s', tr) ->
  forall tr1 o s1 tr2, tr = tr1 ++ (FChildTimer, o, s1) :: tr2 -> held (VS cfg) s1 <> [] -> starts_at (VS cfg) (now s1) tr2.
Proof. exact vc_back_to_back. Qed.
Print Assumptions C12_vc_back_to_back.

(* a transmission starts only when none is in progress; while one is in progress no step aborts it, forwards
   anything or passes its end instant, and it ends only at that instant with its own packet; nothing else forwards *)
Theorem C12_wfq_one_at_a_time : forall (cfg : wcfg), wcfg_ok cfg -> forall s a s' o,
  wreach cfg s -> wfq_act cfg s a = Ok (s', o) ->
  (a = FChildInit -> current_packet s = None /\
     exists e, chl s = CInit e /\ chl s' = CTx e (Qred (now s + tx_time (wrate cfg) (epkt e))) /\ current_packet s' = Some (epkt e)) /\
  (forall e dl, chl s = CTx e dl ->
     (a = FChildTimer /\ o = [OForward (epkt e)] /\ dl == now s /\ chl s' = CEnded e /\ current_packet s' = None) \/
     (a <> FChildTimer /\ chl s' = CTx e dl /\ o = [] /\ now s' <= dl)) /\
  (o <> [] -> a = FChildTimer).
Proof. exact wfq_one_at_a_time. Qed.
Print Assumptions C12_wfq_one_at_a_time.

Theorem C12_vc_one_at_a_time : forall (cfg : vcfg), vcfg_ok cfg -> forall s a s' o,
  vreach cfg s -> vc_act cfg s a = Ok (s', o) ->
  (a = FChildInit -> current_packet s = None /\
     exists e, chl s = CInit e /\ chl s' = CTx e (Qred (now s + tx_time (vrate cfg) (epkt e))) /\ current_packet s' = Some (epkt e)) /\
  (forall e dl, chl s = CTx e dl ->
     (a = FChildTimer /\ o = [OForward (epkt e)] /\ dl == now s /\ chl s' = CEnded e /\ current_packet s' = None) \/
     (a <> FChildTimer /\ chl s' = CTx e dl /\ o = [] /\ now s' <= dl)) /\
  (o <> [] -> a = FChildTimer).
Proof. exact vc_one_at_a_time. Qed.
Print Assumptions C12_vc_one_at_a_time.

(* along every execution each forwarded packet is the one whose transmission started last, forwarded exactly
   8*size/rate after that start (tx_time rate p = 8*size/rate) *)
Theorem C12_wfq_tx_time : forall (cfg : wcfg), wcfg_ok cfg -> forall acts s' tr,
  wadm cfg acts -> wfq_run cfg (wfq0 cfg) acts = Some (s', tr) -> tx_ok (WS cfg) (wrate cfg) None tr.
Proof. exact wfq_tx_time. Qed.
Print Assumptions C12_wfq_tx_time.

Theorem C12_vc_tx_time : forall (cfg : vcfg), vcfg_ok cfg -> forall acts s' tr,
  vadm cfg acts -> vc_run cfg (vc0 cfg) acts = Some (s', tr) -> tx_ok (VS cfg) (vrate cfg) None tr.
Proof. exact vc_tx_time. Qed.
Print Assumptions C12_vc_tx_time.

(* packets of one flow leave in arrival order *)
Theorem C12_wfq_flow_fifo : forall (cfg : wcfg), wcfg_ok cfg -> forall acts s' tr f,
  wadm cfg acts -> wfq_run cfg (wfq0 cfg) acts = Some (s', tr) ->
  only f (fwds (WS cfg) tr) ++ only f (held (WS cfg) s') = only f (puts (WS cfg) tr).
Proof. exact wfq_flow_fifo. Qed.
Print Assumptions C12_wfq_flow_fifo.

Theorem C12_vc_flow_fifo : forall (cfg : vcfg), vcfg_ok cfg -> forall acts s' tr f,
  vadm cfg acts -> vc_run cfg (vc0 cfg) acts = Some (s', tr) ->
  only f (fwds (VS cfg) tr) ++ only f (held (VS cfg) s') = only f (puts (VS cfg) tr).
Proof. exact vc_flow_fifo. Qed.
Print Assumptions C12_vc_flow_fifo.

(* every accepted packet is transmitted at most once, only accepted packets are transmitted, and when the
   execution has run out of events every accepted packet has been transmitted exactly once *)
Theorem C12_wfq_exactly_once : forall (cfg : wcfg), wcfg_ok cfg -> forall acts s' tr,
  wadm cfg acts -> wfq_run cfg (wfq0 cfg) acts = Some (s', tr) -> NoDup (map uid (puts (WS cfg) tr)) ->
  NoDup (map uid (fwds (WS cfg) tr)) /\ (forall p, In p (fwds (WS cfg) tr) -> In p (puts (WS cfg) tr)) /\
  (urgent s' = false -> (forall e dl, chl s' <> CTx e dl) -> Permutation (puts (WS cfg) tr) (fwds (WS cfg) tr)).
Proof. exact wfq_exactly_once. Qed.
Print Assumptions C12_wfq_exactly_once.

Theorem C12_vc_exactly_once : forall (cfg : vcfg), vcfg_ok cfg -> forall acts s' tr,
  vadm cfg acts -> vc_run cfg (vc0 cfg) acts = Some (s', tr) -> NoDup (map uid (puts (VS cfg) tr)) ->
  NoDup (map uid (fwds (VS cfg) tr)) /\ (forall p, In p (fwds (VS cfg) tr) -> In p (puts (VS cfg) tr)) /\
  (urgent s' = false -> (forall e dl, chl s' <> CTx e dl) -> Permutation (puts (VS cfg) tr) (fwds (VS cfg) tr)).
Proof. exact vc_exactly_once. Qed.
Print Assumptions C12_vc_exactly_once.

(* queue_count[f] / queue_byte_size[f] = packets / bytes of flow f waiting or in transmission; packets_received = arrivals *)
Theorem C12_wfq_counters : forall (cfg : wcfg) s,
  wreach cfg s -> (forall f, qcount s f = cnt f (held (WS cfg) s) /\ qbytes s f = byt f (held (WS cfg) s)) /\ nrecv s = Z.of_nat (seq s).
Proof. exact wfq_counters. Qed.
Print Assumptions C12_wfq_counters.

Theorem C12_vc_counters : forall (cfg : vcfg) s,
  vreach cfg s -> (forall f, qcount s f = cnt f (held (VS cfg) s) /\ qbytes s f = byt f (held (VS cfg) s)) /\ nrecv s = Z.of_nat (seq s).
Proof. exact vc_counters. Qed.
Print Assumptions C12_vc_counters.
