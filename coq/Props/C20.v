(* C20 -- real-time pacing never runs ahead of the wall clock and alters no result (statements only).
   The wall clock is an arbitrary sequence of readings (sleeps may return early or late, processes may
   consume any amount of wall time); the kernel is abstract (any state, any step function). *)
From Coq Require Import ZArith QArith List Bool.
From ONL Require Import Rt.Realtime Rt.RealtimeProofs.
Import ListNotations.

(* same event sequence, same values, same kernel state as the plain Environment, step for step *)
Theorem C20_same_events : forall (K R : Type) (peek : K -> option Q) (kstep : K -> K * R) c rs clocks k k' results o,
  rt_run K R peek kstep c rs k clocks = (k', results, o) ->
  plain_run K R kstep k (length results) = (k', results).
Proof. exact rt_same_events. Qed.
Print Assumptions C20_same_events.

(* an occurrence due at t is processed only after a clock reading >= real_start + (t - initial_time)*factor *)
Theorem C20_never_early : forall c rs t clock sl used,
  rt_step c rs (Some t) clock = (RProceed, sl, used) ->
  exists pre r, used = pre ++ [r] /\ real_time_of c rs t <= r.
Proof. exact rt_never_early. Qed.
Print Assumptions C20_never_early.

(* every earlier reading was before the due real time, and each sleep asked for exactly the missing time *)
Theorem C20_sleeps_exact : forall c rs t clock sl used,
  strict c = false ->
  rt_step c rs (Some t) clock = (RProceed, sl, used) ->
  exists pre r, used = pre ++ [r] /\ Forall (fun x => x < real_time_of c rs t) pre /\
                sl = map (fun x => real_time_of c rs t - x) pre.
Proof. exact rt_sleeps_exact. Qed.
Print Assumptions C20_sleeps_exact.

(* strict mode raises 'Simulation too slow' exactly when, on turning to the next occurrence, the clock
   is already more than `factor` past its due instant *)
Theorem C20_strict_iff : forall c rs t r1 r2 rest,
  strict c = true ->
  ((exists d, fst (fst (rt_step c rs (Some t) (r1 :: r2 :: rest))) = RTooSlow d)
   <-> factor c < r1 - real_time_of c rs t).
Proof. exact rt_strict_iff. Qed.
Print Assumptions C20_strict_iff.

Theorem C20_nonstrict_never_raises : forall c rs evt clock,
  strict c = false -> forall d, fst (fst (rt_step c rs evt clock)) <> RTooSlow d.
Proof. exact rt_nonstrict_never_raises. Qed.
Print Assumptions C20_nonstrict_never_raises.

(* the pacing never blocks forever: any clock that eventually reaches the due real time lets the step proceed *)
Theorem C20_proceeds_when_reached : forall c rs t clock,
  strict c = false -> Exists (fun r => real_time_of c rs t <= r) clock ->
  exists sl used, rt_step c rs (Some t) clock = (RProceed, sl, used).
Proof. exact rt_proceeds_when_reached. Qed.
Print Assumptions C20_proceeds_when_reached.
