(* C08, the share of Port / REDPort (any drop policy c): conservation, per-flow order, drained.
   Only statements, closed by the lemma that proves them, and their assumptions. *)
From Coq Require Import ZArith QArith List Bool Permutation.
From ONL Require Import Elem.Packet Elem.StoreQ Elem.Port Elem.Red Elem.PortProofs.
Import ListNotations.

(* put-in = forwarded + refused + held as multisets of the very packets (records with their uid and header
   fields); the refused ones are exactly the counted drops; accepted = forwarded ++ held as LISTS (FIFO) *)
Theorem C08_port_conserves : forall (c : pcfg) (t0 : Q) (acts : list paction) (s : port) (tr : list pev),
  port_run c (port0 t0) acts = Some (s, tr) ->
  Permutation (puts tr) (forwarded tr ++ dropped tr ++ port_held s)
  /\ pdrop s = Z.of_nat (length (dropped tr))
  /\ map snd (accepted tr) = forwarded tr ++ port_held s.
Proof. exact port_conserves. Qed.
Print Assumptions C08_port_conserves.

(* the packets of one flow (of any class f of packets) leave in the order in which they were put in *)
Theorem C08_port_flow_fifo : forall (c : pcfg) (t0 : Q) (acts : list paction) (s : port) (tr : list pev) (f : pkt -> bool),
  port_run c (port0 t0) acts = Some (s, tr) ->
  subseq (filter f (forwarded tr)) (filter f (puts tr))
  /\ exists rest, filter f (map snd (accepted tr)) = filter f (forwarded tr) ++ rest.
Proof. exact port_flow_fifo. Qed.
Print Assumptions C08_port_flow_fifo.

(* nothing enabled and no deadline pending (the port's share of "the simulation ran out of events"): nothing held *)
Theorem C08_port_drained : forall (c : pcfg) (t0 : Q) (acts : list paction) (s : port) (tr : list pev),
  port_run c (port0 t0) acts = Some (s, tr) -> purgent s = false -> psvc s = None -> port_held s = [].
Proof. exact port_drained. Qed.
Print Assumptions C08_port_drained.
