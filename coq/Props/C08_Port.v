(* C08 (Port share) -- placeholder until PortProofs.v lands. *)
From ONL Require Import Elem.Port Elem.Red.
