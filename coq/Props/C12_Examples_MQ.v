(* C12 -- NON-VACUITY of the theorems of Props/C12_MQ.v, Props/C12_BridgeMQ.v and Props/C12_BridgeMon.v (SP, RR, WRR,
   Monitor).  Every theorem there that has hypotheses is matched by a machine-checked witness: a concrete admissible
   execution of the scheduler (Elem/SchedExamples.v: five resp. four packets of three flows, arrivals during a
   transmission and exactly at a transmission end, several flows on one class for SP) on which ALL its hypotheses hold
   together, with the concrete content of the conclusion on that execution.

   Coverage (theorem -> witness):
     C12_sp_work_conserving (both branches), C12_sp_one_at_a_time_tx_time, C12_sp_flow_fifo,
     C12_sp_exactly_once, C12_sp_counters, C12_sp_never_spins, C12_sp_monitor_samples      -> C12_ex_sp_execution
     C12_sp_back_to_back                                                                     -> C12_ex_sp_back_to_back
     C12_rr_* (the same seven)   -> C12_ex_rr_execution       C12_rr_back_to_back   -> C12_ex_rr_back_to_back
     C12_wrr_* (the same seven)  -> C12_ex_wrr_execution      C12_wrr_back_to_back  -> C12_ex_wrr_back_to_back
     C12_gen_sp_put, C12_gen_mqs_put (hypotheses: configured class, non-negative size, identity class map)
                                                                                             -> C12_ex_gen_put
   Unconditional (no hypotheses): C12_gen_add_packet_to_queue, C12_gen_schedmon_sample. *)
From Coq Require Import ZArith QArith List Lia.
From ONL Require Import Elem.Packet Elem.StoreQ Elem.SchedBase Elem.SchedBaseProofs Elem.SP Elem.SPProofs Elem.RR Elem.RRProofs
  Elem.WRR Elem.WRRProofs Elem.SchedExamples Gen.Extracted_mq Elem.SchedBridge.
From ONL Require Import Props.C12_MQ Props.C12_BridgeMQ.
Import ListNotations.

(* pkt_eq_dec is opaque: concrete multiplicities are computed by case analysis on its (decidable) outcome *)
Ltac count_pkts :=
  vm_compute;
  repeat match goal with
         | |- context [pkt_eq_dec ?a ?b] =>
             let E := fresh "E" in
             destruct (pkt_eq_dec a b) as [E|E]; [try discriminate E|try (exfalso; apply E; reflexivity)]; clear E
         end;
  reflexivity.

(* ================= SP ================= *)
(* State W = after 31 actions (instant 3): a1 (class 10, priority 1) is being transmitted until 4 while b2 (class 11) waits;
   a0, b0, b1 have left.  The clock may move (SAdvance 4 is admissible): work conservation says a transmission is in
   progress.  Final state (39 actions, instant 5): drained, the clock may move, nothing is held. *)
Theorem C12_ex_sp_execution :
  (* hypotheses *)
  0 < spx_r /\ (forall k p, In (k, p) spx_tbl -> (0 < p)%Z) /\
  sp_run spx_r spx_cm spx_fl spx_tbl (firstn 31 spx_acts) = Some (spx_state 31, spx_trace 31) /\
  (exists x, sp_act spx_r spx_cm spx_fl spx_tbl (spx_state 31) (SAdvance 4) = Some x) /\
  sp_run spx_r spx_cm spx_fl spx_tbl spx_acts = Some (spx_state 39, spx_trace 39) /\
  (exists x, sp_act spx_r spx_cm spx_fl spx_tbl (spx_state 39) (SAdvance 6) = Some x) /\
  (* the execution *)
  mnow (spx_state 31) = 3 /\
  tr_puts (spx_trace 31) = [spx_a0; spx_a1; spx_b0; spx_b1; spx_b2] /\ tr_fwds (spx_trace 31) = [spx_a0; spx_b0; spx_b1] /\
  held_class spx_cfg (spx_state 31) 10 = [spx_a1] /\ held_class spx_cfg (spx_state 31) 11 = [spx_b2] /\
  tr_fwds (spx_trace 39) = [spx_a0; spx_b0; spx_b1; spx_a1; spx_b2] /\
  (* conclusions at W: work-conserving (a backlog, hence a transmission in progress), tx_wf, per-flow FIFO, exactly once,
     counters, never spins, Monitor samples with the packet in service excluded / included *)
  (exists p dl, mchild (spx_state 31) = CTx p dl /\ mcur (spx_state 31) = Some p /\ mnow (spx_state 31) < dl /\ p = spx_a1 /\ dl == 4) /\
  tx_wf spx_cfg None (spx_trace 31) /\ tx_wf spx_cfg None (spx_trace 39) /\
  filter (is_flow 2) (tr_puts (spx_trace 31)) = filter (is_flow 2) (tr_fwds (spx_trace 31)) ++ [spx_b2] /\
  (exists rest, filter (is_flow 2) (tr_puts (spx_trace 31)) = filter (is_flow 2) (tr_fwds (spx_trace 31)) ++ rest) /\
  count_occ pkt_eq_dec (tr_puts (spx_trace 31)) spx_b2
    = (count_occ pkt_eq_dec (tr_fwds (spx_trace 31)) spx_b2 + count_occ pkt_eq_dec (held_class spx_cfg (spx_state 31) (spx_cm (flow spx_b2))) spx_b2)%nat /\
  count_occ pkt_eq_dec (tr_puts (spx_trace 31)) spx_b2 = 1%nat /\ count_occ pkt_eq_dec (tr_fwds (spx_trace 31)) spx_b2 = 0%nat /\
  count_occ pkt_eq_dec (tr_fwds (spx_trace 31)) spx_b0 = 1%nat /\
  (mqc (spx_state 31) 0 = 0 /\ mqc (spx_state 31) 1 = 1 /\ mqc (spx_state 31) 2 = 1 /\ mqb (spx_state 31) 2 = 128 /\
   mtotal (spx_state 31) = 2 /\ mcur (spx_state 31) = Some spx_a1 /\ mrecv (spx_state 31) = 5)%Z /\
  (forall f, mqc (spx_state 31) f = Z.of_nat (length (held_flow spx_cfg (spx_state 31) f))) /\
  mpc (spx_state 31) <> PSpin /\
  sp_act spx_r spx_cm spx_fl spx_tbl (spx_state 31) (SSample false) = Some (spx_state 31, [OSample [(0, 0, 0); (1, 0, 0); (2, 1, 128)]%Z]) /\
  sp_act spx_r spx_cm spx_fl spx_tbl (spx_state 31) (SSample true) = Some (spx_state 31, [OSample [(0, 0, 0); (1, 1, 128); (2, 1, 128)]%Z]) /\
  waiting_flow spx_cfg (spx_state 31) 1 = [] /\ held_flow spx_cfg (spx_state 31) 1 = [spx_a1] /\
  (* conclusion at the final state: nothing is held *)
  (forall k, held_class spx_cfg (spx_state 39) k = []).
Proof.
  assert (Hr : 0 < spx_r) by reflexivity.
  assert (Hp : forall k p, In (k, p) spx_tbl -> (0 < p)%Z).
  { intros k p [H|[H|[]]]; injection H as <- <-; lia. }
  assert (HW : sp_run spx_r spx_cm spx_fl spx_tbl (firstn 31 spx_acts) = Some (spx_state 31, spx_trace 31)) by (vm_compute; reflexivity).
  assert (HF : sp_run spx_r spx_cm spx_fl spx_tbl spx_acts = Some (spx_state 39, spx_trace 39)) by (vm_compute; reflexivity).
  assert (AW : exists x, sp_act spx_r spx_cm spx_fl spx_tbl (spx_state 31) (SAdvance 4) = Some x) by (eexists; vm_compute; reflexivity).
  assert (AF : exists x, sp_act spx_r spx_cm spx_fl spx_tbl (spx_state 39) (SAdvance 6) = Some x) by (eexists; vm_compute; reflexivity).
  split; [exact Hr|]. split; [exact Hp|]. split; [exact HW|]. split; [exact AW|]. split; [exact HF|]. split; [exact AF|].
  split; [vm_compute; reflexivity|]. split; [vm_compute; reflexivity|]. split; [vm_compute; reflexivity|].
  split; [vm_compute; reflexivity|]. split; [vm_compute; reflexivity|]. split; [vm_compute; reflexivity|].
  split.
  { destruct AW as [x AW]. destruct (C12_sp_work_conserving _ _ _ _ _ _ _ _ _ Hr Hp HW AW) as [(p & dl & A & B & C)|N].
    - exists p, dl. split; [exact A|]. split; [exact B|]. split; [exact C|].
      vm_compute in A. injection A as <- <-. split; reflexivity.
    - exfalso. specialize (N 11%Z). vm_compute in N. discriminate N. }
  split; [exact (C12_sp_one_at_a_time_tx_time _ _ _ _ _ _ _ Hr HW)|].
  split; [exact (C12_sp_one_at_a_time_tx_time _ _ _ _ _ _ _ Hr HF)|].
  split; [vm_compute; reflexivity|].
  split; [exact (C12_sp_flow_fifo _ _ _ _ _ _ _ 2%Z Hr HW)|].
  split; [exact (C12_sp_exactly_once _ _ _ _ _ _ _ spx_b2 Hr HW)|].
  split; [count_pkts|]. split; [count_pkts|]. split; [count_pkts|].
  split; [repeat split; vm_compute; reflexivity|].
  split; [intros f; exact (proj1 (proj1 (C12_sp_counters _ _ _ _ _ _ _ Hr HW) f))|].
  split; [exact (C12_sp_never_spins _ _ _ _ _ _ _ Hr Hp HW)|].
  split; [rewrite (C12_sp_monitor_samples _ _ _ _ _ _ _ false Hr HW); vm_compute; reflexivity|].
  split; [rewrite (C12_sp_monitor_samples _ _ _ _ _ _ _ true Hr HW); vm_compute; reflexivity|].
  split; [vm_compute; reflexivity|]. split; [vm_compute; reflexivity|].
  destruct AF as [x AF]. destruct (C12_sp_work_conserving _ _ _ _ _ _ _ _ _ Hr Hp HF AF) as [(p & dl & A & _)|N]; [|exact N].
  vm_compute in A. discriminate A.
Qed.
Print Assumptions C12_ex_sp_execution.

(* SP: the transmission of the first packet ends at instant 1 (action 13: SChildTimer) while packets are held; run() resumes, takes the
   next packet and its transmission starts (OStart) before the clock can move: at instant 1 *)
Definition spx_b2b_acts : list saction := [SChildEnd; SGetDone (Some 11%Z); SChildInit].
Definition spx_b2b_trace : list tev :=
  match mq_run spx_cfg (spx_state 14) spx_b2b_acts with Some (_, tr) => tr | None => [] end.

Theorem C12_ex_sp_back_to_back :
  (* hypotheses of C12_sp_back_to_back *)
  0 < spx_r /\ (forall k p, In (k, p) spx_tbl -> (0 < p)%Z) /\
  sp_run spx_r spx_cm spx_fl spx_tbl (firstn 13 spx_acts) = Some (spx_state 13, spx_trace 13) /\
  sp_act spx_r spx_cm spx_fl spx_tbl (spx_state 13) SChildTimer = Some (spx_state 14, [OForward spx_a0]) /\
  (exists k, held_class spx_cfg (spx_state 14) k <> []) /\
  mq_run spx_cfg (spx_state 14) spx_b2b_acts = Some (spx_state 17, spx_b2b_trace) /\
  (forall t', ~ In (SAdvance t') spx_b2b_acts) /\
  (exists x, sp_act spx_r spx_cm spx_fl spx_tbl (spx_state 17) (SAdvance 2) = Some x) /\
  (* conclusion: a transmission start at the instant the previous one ended *)
  mnow (spx_state 14) = 1 /\
  nth_error spx_b2b_trace 2 = Some (1, SChildInit, [OStart spx_b0]) /\
  (exists e p, In e spx_b2b_trace /\ In (OStart p) (snd e) /\ fst (fst e) = mnow (spx_state 14)).
Proof.
  assert (Hr : 0 < spx_r) by reflexivity.
  assert (Hp : forall k p, In (k, p) spx_tbl -> (0 < p)%Z).
  { intros k p [H|[H|[]]]; injection H as <- <-; lia. }
  assert (H1 : sp_run spx_r spx_cm spx_fl spx_tbl (firstn 13 spx_acts) = Some (spx_state 13, spx_trace 13)) by (vm_compute; reflexivity).
  assert (H2 : sp_act spx_r spx_cm spx_fl spx_tbl (spx_state 13) SChildTimer = Some (spx_state 14, [OForward spx_a0])) by (vm_compute; reflexivity).
  assert (H3 : exists k, held_class spx_cfg (spx_state 14) k <> []) by (exists 11%Z; vm_compute; discriminate).
  assert (H4 : mq_run spx_cfg (spx_state 14) spx_b2b_acts = Some (spx_state 17, spx_b2b_trace)) by (vm_compute; reflexivity).
  assert (H5 : forall t', ~ In (SAdvance t') spx_b2b_acts) by (intros t' [H|[H|[H|[]]]]; discriminate H).
  assert (H6 : exists x, sp_act spx_r spx_cm spx_fl spx_tbl (spx_state 17) (SAdvance 2) = Some x) by (eexists; vm_compute; reflexivity).
  split; [exact Hr|]. split; [exact Hp|]. split; [exact H1|]. split; [exact H2|]. split; [exact H3|]. split; [exact H4|].
  split; [exact H5|]. split; [exact H6|]. split; [vm_compute; reflexivity|]. split; [vm_compute; reflexivity|].
  destruct H6 as [x H6].
  exact (C12_sp_back_to_back _ _ _ _ _ _ _ _ _ _ _ _ _ _ Hr Hp H1 H2 H3 H4 H5 H6).
Qed.
Print Assumptions C12_ex_sp_back_to_back.

(* ================= RR ================= *)
(* State W = after 24 actions (instant 2): rrx_y0 is being transmitted while other packets wait; the clock may move.
   Final state (32 actions): drained. *)
Theorem C12_ex_rr_execution :
  (* hypotheses *)
  0 < rrx_r /\
  rr_run rrx_r rrx_fl (firstn 24 rrx_acts) = Some (rrx_state 24, rrx_trace 24) /\
  (exists x, rr_act rrx_r rrx_fl (rrx_state 24) (SAdvance 3) = Some x) /\
  rr_run rrx_r rrx_fl rrx_acts = Some (rrx_state 32, rrx_trace 32) /\
  (exists x, rr_act rrx_r rrx_fl (rrx_state 32) (SAdvance 5) = Some x) /\
  (* the execution *)
  mnow (rrx_state 24) = 2 /\
  tr_puts (rrx_trace 24) = [rrx_x0; rrx_x1; rrx_y0; rrx_z0] /\ tr_fwds (rrx_trace 24) = [rrx_x0; rrx_z0] /\
  held_class rrx_cfg (rrx_state 24) 0 = [rrx_x1] /\ held_class rrx_cfg (rrx_state 24) 1 = [] /\ held_class rrx_cfg (rrx_state 24) 2 = [rrx_y0] /\
  tr_fwds (rrx_trace 32) = [rrx_x0; rrx_z0; rrx_y0; rrx_x1] /\
  (* conclusions at W *)
  (exists p dl, mchild (rrx_state 24) = CTx p dl /\ mcur (rrx_state 24) = Some p /\ mnow (rrx_state 24) < dl /\ p = rrx_y0 /\ dl == 3) /\
  tx_wf rrx_cfg None (rrx_trace 24) /\ tx_wf rrx_cfg None (rrx_trace 32) /\
  filter (is_flow 0) (tr_puts (rrx_trace 24)) = filter (is_flow 0) (tr_fwds (rrx_trace 24)) ++ [rrx_x1] /\
  (exists rest, filter (is_flow 0) (tr_puts (rrx_trace 24)) = filter (is_flow 0) (tr_fwds (rrx_trace 24)) ++ rest) /\
  count_occ pkt_eq_dec (tr_puts (rrx_trace 24)) rrx_x1
    = (count_occ pkt_eq_dec (tr_fwds (rrx_trace 24)) rrx_x1 + count_occ pkt_eq_dec (held_class rrx_cfg (rrx_state 24) (flow rrx_x1)) rrx_x1)%nat /\
  count_occ pkt_eq_dec (tr_puts (rrx_trace 24)) rrx_x1 = 1%nat /\ count_occ pkt_eq_dec (tr_fwds (rrx_trace 24)) rrx_x1 = 0%nat /\
  (mqc (rrx_state 24) 0 = 1 /\ mqc (rrx_state 24) 1 = 0 /\ mqc (rrx_state 24) 2 = 1 /\ mqb (rrx_state 24) 2 = 128 /\ mtotal (rrx_state 24) = 2 /\ mcur (rrx_state 24) = Some rrx_y0 /\ mrecv (rrx_state 24) = 4)%Z /\
  (forall f, mqc (rrx_state 24) f = Z.of_nat (length (held_flow rrx_cfg (rrx_state 24) f))) /\
  mpc (rrx_state 24) <> PSpin /\
  rr_act rrx_r rrx_fl (rrx_state 24) (SSample false) = Some (rrx_state 24, [OSample [(0, 1, 128); (1, 0, 0); (2, 0, 0)]%Z]) /\
  rr_act rrx_r rrx_fl (rrx_state 24) (SSample true) = Some (rrx_state 24, [OSample [(0, 1, 128); (1, 0, 0); (2, 1, 128)]%Z]) /\
  waiting_flow rrx_cfg (rrx_state 24) 2 = [] /\ held_flow rrx_cfg (rrx_state 24) 2 = [rrx_y0] /\
  (* conclusion at the final state: nothing is held *)
  (forall k, held_class rrx_cfg (rrx_state 32) k = []).
Proof.
  assert (Hr : 0 < rrx_r) by reflexivity.
  assert (HW : rr_run rrx_r rrx_fl (firstn 24 rrx_acts) = Some (rrx_state 24, rrx_trace 24)) by (vm_compute; reflexivity).
  assert (HF : rr_run rrx_r rrx_fl rrx_acts = Some (rrx_state 32, rrx_trace 32)) by (vm_compute; reflexivity).
  assert (AW : exists x, rr_act rrx_r rrx_fl (rrx_state 24) (SAdvance 3) = Some x) by (eexists; vm_compute; reflexivity).
  assert (AF : exists x, rr_act rrx_r rrx_fl (rrx_state 32) (SAdvance 5) = Some x) by (eexists; vm_compute; reflexivity).
  split; [exact Hr|]. split; [exact HW|]. split; [exact AW|]. split; [exact HF|]. split; [exact AF|].
  split; [vm_compute; reflexivity|]. split; [vm_compute; reflexivity|]. split; [vm_compute; reflexivity|].
  split; [vm_compute; reflexivity|]. split; [vm_compute; reflexivity|]. split; [vm_compute; reflexivity|]. split; [vm_compute; reflexivity|].
  split.
  { destruct AW as [x AW]. destruct (C12_rr_work_conserving _ _ _ _ _ _ _ Hr HW AW) as [(p & dl & A & B & C)|N].
    - exists p, dl. split; [exact A|]. split; [exact B|]. split; [exact C|].
      vm_compute in A. injection A as <- <-. split; reflexivity.
    - exfalso. specialize (N 0%Z). vm_compute in N. discriminate N. }
  split; [exact (C12_rr_one_at_a_time_tx_time _ _ _ _ _ Hr HW)|].
  split; [exact (C12_rr_one_at_a_time_tx_time _ _ _ _ _ Hr HF)|].
  split; [vm_compute; reflexivity|].
  split; [exact (C12_rr_flow_fifo _ _ _ _ _ 0%Z Hr HW)|].
  split; [exact (C12_rr_exactly_once _ _ _ _ _ rrx_x1 Hr HW)|].
  split; [count_pkts|]. split; [count_pkts|].
  split; [repeat split; vm_compute; reflexivity|].
  split; [intros f; exact (proj1 (proj1 (C12_rr_counters _ _ _ _ _ Hr HW) f))|].
  split; [exact (C12_rr_never_spins _ _ _ _ _ Hr HW)|].
  split; [rewrite (C12_rr_monitor_samples _ _ _ _ _ false Hr HW); vm_compute; reflexivity|].
  split; [rewrite (C12_rr_monitor_samples _ _ _ _ _ true Hr HW); vm_compute; reflexivity|].
  split; [vm_compute; reflexivity|]. split; [vm_compute; reflexivity|].
  destruct AF as [x AF]. destruct (C12_rr_work_conserving _ _ _ _ _ _ _ Hr HF AF) as [(p & dl & A & _)|N]; [|exact N].
  vm_compute in A. discriminate A.
Qed.
Print Assumptions C12_ex_rr_execution.

(* RR: the transmission of the first packet ends at instant 1 (action 15: SChildTimer) while packets are held; run() resumes, takes the
   next packet and its transmission starts (OStart) before the clock can move: at instant 1 *)
Definition rrx_b2b_acts : list saction := [SChildEnd; SGetDone (Some 1%Z); SChildInit].
Definition rrx_b2b_trace : list tev :=
  match mq_run rrx_cfg (rrx_state 16) rrx_b2b_acts with Some (_, tr) => tr | None => [] end.

Theorem C12_ex_rr_back_to_back :
  (* hypotheses of C12_rr_back_to_back *)
  0 < rrx_r /\
  rr_run rrx_r rrx_fl (firstn 15 rrx_acts) = Some (rrx_state 15, rrx_trace 15) /\
  rr_act rrx_r rrx_fl (rrx_state 15) SChildTimer = Some (rrx_state 16, [OForward rrx_x0]) /\
  (exists k, held_class rrx_cfg (rrx_state 16) k <> []) /\
  mq_run rrx_cfg (rrx_state 16) rrx_b2b_acts = Some (rrx_state 19, rrx_b2b_trace) /\
  (forall t', ~ In (SAdvance t') rrx_b2b_acts) /\
  (exists x, rr_act rrx_r rrx_fl (rrx_state 19) (SAdvance 2) = Some x) /\
  (* conclusion: a transmission start at the instant the previous one ended *)
  mnow (rrx_state 16) = 1 /\
  nth_error rrx_b2b_trace 2 = Some (1, SChildInit, [OStart rrx_z0]) /\
  (exists e p, In e rrx_b2b_trace /\ In (OStart p) (snd e) /\ fst (fst e) = mnow (rrx_state 16)).
Proof.
  assert (Hr : 0 < rrx_r) by reflexivity.
  assert (H1 : rr_run rrx_r rrx_fl (firstn 15 rrx_acts) = Some (rrx_state 15, rrx_trace 15)) by (vm_compute; reflexivity).
  assert (H2 : rr_act rrx_r rrx_fl (rrx_state 15) SChildTimer = Some (rrx_state 16, [OForward rrx_x0])) by (vm_compute; reflexivity).
  assert (H3 : exists k, held_class rrx_cfg (rrx_state 16) k <> []) by (exists 0%Z; vm_compute; discriminate).
  assert (H4 : mq_run rrx_cfg (rrx_state 16) rrx_b2b_acts = Some (rrx_state 19, rrx_b2b_trace)) by (vm_compute; reflexivity).
  assert (H5 : forall t', ~ In (SAdvance t') rrx_b2b_acts) by (intros t' [H|[H|[H|[]]]]; discriminate H).
  assert (H6 : exists x, rr_act rrx_r rrx_fl (rrx_state 19) (SAdvance 2) = Some x) by (eexists; vm_compute; reflexivity).
  split; [exact Hr|]. split; [exact H1|]. split; [exact H2|]. split; [exact H3|]. split; [exact H4|].
  split; [exact H5|]. split; [exact H6|]. split; [vm_compute; reflexivity|]. split; [vm_compute; reflexivity|].
  destruct H6 as [x H6].
  exact (C12_rr_back_to_back _ _ _ _ _ _ _ _ _ _ _ _ Hr H1 H2 H3 H4 H5 H6).
Qed.
Print Assumptions C12_ex_rr_back_to_back.

(* ================= WRR ================= *)
(* State W = after 19 actions (instant 1): rrx_x1 is being transmitted while other packets wait; the clock may move.
   Final state (32 actions): drained. *)
Theorem C12_ex_wrr_execution :
  (* hypotheses *)
  0 < wrx_r /\ (forall f w, In (f, w) wrx_ws -> (0 < w)%Z) /\
  wrr_run wrx_r wrx_ws (firstn 19 wrx_acts) = Some (wrx_state 19, wrx_trace 19) /\
  (exists x, wrr_act wrx_r wrx_ws (wrx_state 19) (SAdvance 2) = Some x) /\
  wrr_run wrx_r wrx_ws wrx_acts = Some (wrx_state 32, wrx_trace 32) /\
  (exists x, wrr_act wrx_r wrx_ws (wrx_state 32) (SAdvance 5) = Some x) /\
  (* the execution *)
  mnow (wrx_state 19) = 1 /\
  tr_puts (wrx_trace 19) = [rrx_x0; rrx_x1; rrx_y0; rrx_z0] /\ tr_fwds (wrx_trace 19) = [rrx_x0] /\
  held_class wrx_cfg (wrx_state 19) 0 = [rrx_x1] /\ held_class wrx_cfg (wrx_state 19) 1 = [rrx_z0] /\ held_class wrx_cfg (wrx_state 19) 2 = [rrx_y0] /\
  tr_fwds (wrx_trace 32) = [rrx_x0; rrx_x1; rrx_z0; rrx_y0] /\
  (* conclusions at W *)
  (exists p dl, mchild (wrx_state 19) = CTx p dl /\ mcur (wrx_state 19) = Some p /\ mnow (wrx_state 19) < dl /\ p = rrx_x1 /\ dl == 2) /\
  tx_wf wrx_cfg None (wrx_trace 19) /\ tx_wf wrx_cfg None (wrx_trace 32) /\
  filter (is_flow 2) (tr_puts (wrx_trace 19)) = filter (is_flow 2) (tr_fwds (wrx_trace 19)) ++ [rrx_y0] /\
  (exists rest, filter (is_flow 2) (tr_puts (wrx_trace 19)) = filter (is_flow 2) (tr_fwds (wrx_trace 19)) ++ rest) /\
  count_occ pkt_eq_dec (tr_puts (wrx_trace 19)) rrx_y0
    = (count_occ pkt_eq_dec (tr_fwds (wrx_trace 19)) rrx_y0 + count_occ pkt_eq_dec (held_class wrx_cfg (wrx_state 19) (flow rrx_y0)) rrx_y0)%nat /\
  count_occ pkt_eq_dec (tr_puts (wrx_trace 19)) rrx_y0 = 1%nat /\ count_occ pkt_eq_dec (tr_fwds (wrx_trace 19)) rrx_y0 = 0%nat /\
  (mqc (wrx_state 19) 0 = 1 /\ mqc (wrx_state 19) 1 = 1 /\ mqc (wrx_state 19) 2 = 1 /\ mqb (wrx_state 19) 0 = 128 /\ mtotal (wrx_state 19) = 3 /\ mcur (wrx_state 19) = Some rrx_x1 /\ mrecv (wrx_state 19) = 4)%Z /\
  (forall f, mqc (wrx_state 19) f = Z.of_nat (length (held_flow wrx_cfg (wrx_state 19) f))) /\
  mpc (wrx_state 19) <> PSpin /\
  wrr_act wrx_r wrx_ws (wrx_state 19) (SSample false) = Some (wrx_state 19, [OSample [(0, 0, 0); (1, 1, 128); (2, 1, 128)]%Z]) /\
  wrr_act wrx_r wrx_ws (wrx_state 19) (SSample true) = Some (wrx_state 19, [OSample [(0, 1, 128); (1, 1, 128); (2, 1, 128)]%Z]) /\
  waiting_flow wrx_cfg (wrx_state 19) 0 = [] /\ held_flow wrx_cfg (wrx_state 19) 0 = [rrx_x1] /\
  (* conclusion at the final state: nothing is held *)
  (forall k, held_class wrx_cfg (wrx_state 32) k = []).
Proof.
  assert (Hr : 0 < wrx_r) by reflexivity.
  assert (Hp : forall f w, In (f, w) wrx_ws -> (0 < w)%Z).
  { intros f w [H|[H|[H|[]]]]; injection H as <- <-; lia. }
  assert (HW : wrr_run wrx_r wrx_ws (firstn 19 wrx_acts) = Some (wrx_state 19, wrx_trace 19)) by (vm_compute; reflexivity).
  assert (HF : wrr_run wrx_r wrx_ws wrx_acts = Some (wrx_state 32, wrx_trace 32)) by (vm_compute; reflexivity).
  assert (AW : exists x, wrr_act wrx_r wrx_ws (wrx_state 19) (SAdvance 2) = Some x) by (eexists; vm_compute; reflexivity).
  assert (AF : exists x, wrr_act wrx_r wrx_ws (wrx_state 32) (SAdvance 5) = Some x) by (eexists; vm_compute; reflexivity).
  split; [exact Hr|]. split; [exact Hp|]. split; [exact HW|]. split; [exact AW|]. split; [exact HF|]. split; [exact AF|].
  split; [vm_compute; reflexivity|]. split; [vm_compute; reflexivity|]. split; [vm_compute; reflexivity|].
  split; [vm_compute; reflexivity|]. split; [vm_compute; reflexivity|]. split; [vm_compute; reflexivity|]. split; [vm_compute; reflexivity|].
  split.
  { destruct AW as [x AW]. destruct (C12_wrr_work_conserving _ _ _ _ _ _ _ Hr Hp HW AW) as [(p & dl & A & B & C)|N].
    - exists p, dl. split; [exact A|]. split; [exact B|]. split; [exact C|].
      vm_compute in A. injection A as <- <-. split; reflexivity.
    - exfalso. specialize (N 1%Z). vm_compute in N. discriminate N. }
  split; [exact (C12_wrr_one_at_a_time_tx_time _ _ _ _ _ Hr HW)|].
  split; [exact (C12_wrr_one_at_a_time_tx_time _ _ _ _ _ Hr HF)|].
  split; [vm_compute; reflexivity|].
  split; [exact (C12_wrr_flow_fifo _ _ _ _ _ 2%Z Hr HW)|].
  split; [exact (C12_wrr_exactly_once _ _ _ _ _ rrx_y0 Hr HW)|].
  split; [count_pkts|]. split; [count_pkts|].
  split; [repeat split; vm_compute; reflexivity|].
  split; [intros f; exact (proj1 (proj1 (C12_wrr_counters _ _ _ _ _ Hr HW) f))|].
  split; [exact (C12_wrr_never_spins _ _ _ _ _ Hr Hp HW)|].
  split; [rewrite (C12_wrr_monitor_samples _ _ _ _ _ false Hr HW); vm_compute; reflexivity|].
  split; [rewrite (C12_wrr_monitor_samples _ _ _ _ _ true Hr HW); vm_compute; reflexivity|].
  split; [vm_compute; reflexivity|]. split; [vm_compute; reflexivity|].
  destruct AF as [x AF]. destruct (C12_wrr_work_conserving _ _ _ _ _ _ _ Hr Hp HF AF) as [(p & dl & A & _)|N]; [|exact N].
  vm_compute in A. discriminate A.
Qed.
Print Assumptions C12_ex_wrr_execution.

(* WRR: the transmission of the first packet ends at instant 1 (action 15: SChildTimer) while packets are held; run() resumes, takes the
   next packet and its transmission starts (OStart) before the clock can move: at instant 1 *)
Definition wrx_b2b_acts : list saction := [SChildEnd; SGetDone (Some 0%Z); SChildInit].
Definition wrx_b2b_trace : list tev :=
  match mq_run wrx_cfg (wrx_state 16) wrx_b2b_acts with Some (_, tr) => tr | None => [] end.

Theorem C12_ex_wrr_back_to_back :
  (* hypotheses of C12_wrr_back_to_back *)
  0 < wrx_r /\ (forall f w, In (f, w) wrx_ws -> (0 < w)%Z) /\
  wrr_run wrx_r wrx_ws (firstn 15 wrx_acts) = Some (wrx_state 15, wrx_trace 15) /\
  wrr_act wrx_r wrx_ws (wrx_state 15) SChildTimer = Some (wrx_state 16, [OForward rrx_x0]) /\
  (exists k, held_class wrx_cfg (wrx_state 16) k <> []) /\
  mq_run wrx_cfg (wrx_state 16) wrx_b2b_acts = Some (wrx_state 19, wrx_b2b_trace) /\
  (forall t', ~ In (SAdvance t') wrx_b2b_acts) /\
  (exists x, wrr_act wrx_r wrx_ws (wrx_state 19) (SAdvance 2) = Some x) /\
  (* conclusion: a transmission start at the instant the previous one ended *)
  mnow (wrx_state 16) = 1 /\
  nth_error wrx_b2b_trace 2 = Some (1, SChildInit, [OStart rrx_x1]) /\
  (exists e p, In e wrx_b2b_trace /\ In (OStart p) (snd e) /\ fst (fst e) = mnow (wrx_state 16)).
Proof.
  assert (Hr : 0 < wrx_r) by reflexivity.
  assert (Hp : forall f w, In (f, w) wrx_ws -> (0 < w)%Z).
  { intros f w [H|[H|[H|[]]]]; injection H as <- <-; lia. }
  assert (H1 : wrr_run wrx_r wrx_ws (firstn 15 wrx_acts) = Some (wrx_state 15, wrx_trace 15)) by (vm_compute; reflexivity).
  assert (H2 : wrr_act wrx_r wrx_ws (wrx_state 15) SChildTimer = Some (wrx_state 16, [OForward rrx_x0])) by (vm_compute; reflexivity).
  assert (H3 : exists k, held_class wrx_cfg (wrx_state 16) k <> []) by (exists 1%Z; vm_compute; discriminate).
  assert (H4 : mq_run wrx_cfg (wrx_state 16) wrx_b2b_acts = Some (wrx_state 19, wrx_b2b_trace)) by (vm_compute; reflexivity).
  assert (H5 : forall t', ~ In (SAdvance t') wrx_b2b_acts) by (intros t' [H|[H|[H|[]]]]; discriminate H).
  assert (H6 : exists x, wrr_act wrx_r wrx_ws (wrx_state 19) (SAdvance 2) = Some x) by (eexists; vm_compute; reflexivity).
  split; [exact Hr|]. split; [exact Hp|]. split; [exact H1|]. split; [exact H2|]. split; [exact H3|]. split; [exact H4|].
  split; [exact H5|]. split; [exact H6|]. split; [vm_compute; reflexivity|]. split; [vm_compute; reflexivity|].
  destruct H6 as [x H6].
  exact (C12_wrr_back_to_back _ _ _ _ _ _ _ _ _ _ _ _ Hr Hp H1 H2 H3 H4 H5 H6).
Qed.
Print Assumptions C12_ex_wrr_back_to_back.

(* ================= second tie: the generated put() bodies ================= *)
(* hypotheses of C12_gen_sp_put (configured class, size >= 0) at the SP state in which a0 is being transmitted and b0
   (flow 2 -> class 11) arrives: no wake-up token (total_packets = 2), the packet goes into the store of its CLASS 11;
   at the initial state the first packet also puts the token.  Hypotheses of C12_gen_mqs_put (identity class map in
   addition) at the RR state in which z0 (flow 1) arrives during the transmission of x0. *)
Theorem C12_ex_gen_put :
  memZ (cls spx_cfg (flow spx_b0)) (classes spx_cfg) && Z.leb 0 (psize spx_b0) = true /\
  memZ (cls spx_cfg (flow spx_a0)) (classes spx_cfg) && Z.leb 0 (psize spx_a0) = true /\
  cls rrx_cfg (flow rrx_z0) = flow rrx_z0 /\
  memZ (cls rrx_cfg (flow rrx_z0)) (classes rrx_cfg) && Z.leb 0 (psize rrx_z0) = true /\
  (* conclusions *)
  mtotal (spx_state 10) = 2%Z /\
  snd (sp_gen_put spx_cfg (spx_state 10) spx_b0) = [FxStorePut 11%Z] /\
  snd (sp_gen_put spx_cfg (mq0 spx_cfg) spx_a0) = [FxToken; FxStorePut 10%Z] /\
  snd (mqs_gen_put rrx_cfg (rrx_state 12) rrx_z0) = [FxStorePut 1%Z] /\
  mq_act spx_cfg (spx_state 10) (SPut spx_b0)
    = Some (fold_left (mq_fx_apply spx_b0) (snd (sp_gen_put spx_cfg (spx_state 10) spx_b0))
                      (mq_with_fields (spx_state 10) (fst (sp_gen_put spx_cfg (spx_state 10) spx_b0))), []) /\
  mq_act rrx_cfg (rrx_state 12) (SPut rrx_z0)
    = Some (fold_left (mq_fx_apply rrx_z0) (snd (mqs_gen_put rrx_cfg (rrx_state 12) rrx_z0))
                      (mq_with_fields (rrx_state 12) (fst (mqs_gen_put rrx_cfg (rrx_state 12) rrx_z0))), []).
Proof.
  assert (H1 : memZ (cls spx_cfg (flow spx_b0)) (classes spx_cfg) && Z.leb 0 (psize spx_b0) = true) by reflexivity.
  assert (H2 : memZ (cls spx_cfg (flow spx_a0)) (classes spx_cfg) && Z.leb 0 (psize spx_a0) = true) by reflexivity.
  assert (H3 : cls rrx_cfg (flow rrx_z0) = flow rrx_z0) by reflexivity.
  assert (H4 : memZ (cls rrx_cfg (flow rrx_z0)) (classes rrx_cfg) && Z.leb 0 (psize rrx_z0) = true) by reflexivity.
  split; [exact H1|]. split; [exact H2|]. split; [exact H3|]. split; [exact H4|].
  split; [vm_compute; reflexivity|].
  pose proof (C12_gen_sp_put spx_cfg (spx_state 10) spx_b0 H1) as [A1 B1].
  pose proof (C12_gen_sp_put spx_cfg (mq0 spx_cfg) spx_a0 H2) as [_ B2].
  pose proof (C12_gen_mqs_put rrx_cfg (rrx_state 12) rrx_z0 H3 H4) as [A3 B3].
  split; [rewrite B1; vm_compute; reflexivity|]. split; [rewrite B2; vm_compute; reflexivity|].
  split; [rewrite B3; vm_compute; reflexivity|]. split; [exact A1|exact A3].
Qed.
Print Assumptions C12_ex_gen_put.
