(* C15 -- NON-VACUITY of the theorems of Props/C15_DRR.v and Props/C15_BridgeDRR.v.  Witness execution: Elem/DRRExample.v
   (dex_cfg, dex_acts, logged from a run of the real DRR; accessors in Elem/DRRWitness.v): rate 8192 bit/s, classes 0 and 1
   with weights 1 and 2 (quanta 1500 and 3000), flows 1 and 7 on class 1; u0 (2000 B, class 0: LARGER than the quantum),
   u1, u2 (1000 B, class 1), u3 (500 B, class 0) at 0; u4 (256 B, class 1) at 4.  Round 1: class 0 gets 1500, cannot afford
   u0: parked; class 1 gets 3000, sends u1 and u2, empties: credit forgotten.  Round 2: class 0 has 3000, sends u0 and u3.

   Coverage (theorem -> witness):
     C15_drr_quantum                                                        -> C15_ex_drr_quantum
     C15_drr_credit_bounds, C15_drr_visit_complete, C15_drr_credit_forgotten -> C15_ex_drr_credit
     C15_drr_visit                                                          -> C15_ex_drr_visit
     C15_drr_fairness                                                       -> C15_ex_drr_fairness
     C15_gen_drr_put                                                        -> C15_ex_gen_drr_put
   Unconditional: none. *)
From Coq Require Import ZArith QArith List Bool.
From Coq Require Import Qabs.
From ONL Require Import Elem.Packet Elem.StoreQ Elem.DRR Elem.DRRInv Elem.DRRProofs Elem.DRRVisit Elem.DRRFair Elem.DRRLive
  Elem.DRRExample Elem.DRRWitness Gen.Extracted_drr Elem.DRRBridge.
From ONL Require Import Props.C15_DRR Props.C15_BridgeDRR.
Import ListNotations.

Theorem C15_ex_drr_quantum :
  dwf dex_cfg /\ In (0, 1)%Z (dweights dex_cfg) /\ In (1, 2)%Z (dweights dex_cfg) /\
  (* conclusions: min weight 1, quanta 1500 and 3000 *)
  dminw (dweights dex_cfg) = 1%Z /\
  dquantum dex_cfg 1 == inject_Z (1500 * 2) / inject_Z (dminw (dweights dex_cfg)) /\
  dquantum dex_cfg 0 == 1500 /\ dquantum dex_cfg 1 == 3000 /\
  (exists x, In x (dweights dex_cfg) /\ snd x = dminw (dweights dex_cfg)) /\
  (forall x, In x (dweights dex_cfg) -> (dminw (dweights dex_cfg) <= snd x)%Z).
Proof.
  assert (I0 : In (0, 1)%Z (dweights dex_cfg)) by (left; reflexivity).
  assert (I1 : In (1, 2)%Z (dweights dex_cfg)) by (right; left; reflexivity).
  split; [exact dex_wf|]. split; [exact I0|]. split; [exact I1|]. split; [reflexivity|].
  destruct (C15_drr_quantum _ _ _ dex_wf I1) as (A & B & C).
  split; [exact A|]. split; [vm_compute; reflexivity|]. split; [vm_compute; reflexivity|]. split; [exact B|exact C].
Qed.
Print Assumptions C15_ex_drr_quantum.

(* State after 13 actions (instant 0, first round): class 1 is being visited (credit 3000, u1 about to be transmitted); class 0 is NOT
   being visited: its head u0 (2000 B) is parked with credit 1500 < 2000.
   State after 22 actions (instant 125/64): class 1 has sent u1 and u2 and holds nothing, its last transmission is debited: the
   remaining credit 3000 - 2000 = 1000 has been forgotten; one step earlier (state 21, debit pending) it was still 2000. *)
Theorem C15_ex_drr_credit :
  dwf dex_cfg /\
  drr_run dex_cfg (drr0 0) (firstn 13 dex_acts) = Some (dex_state 13, dex_trace 13) /\
  In 0%Z (dclasses dex_cfg) /\ In 1%Z (dclasses dex_cfg) /\
  dvisiting (dex_state 13) <> Some 0%Z /\
  drr_run dex_cfg (drr0 0) (firstn 22 dex_acts) = Some (dex_state 22, dex_trace 22) /\
  dheld dex_cfg (dex_state 22) 1 = [] /\ ddone dex_cfg (dex_state 22) 1 = 0%Z /\
  (* the situation *)
  dvisiting (dex_state 13) = Some 1%Z /\ dhol (dex_state 13) 0 = Some dex_u0 /\ dlmax (dex_state 13) = 2000%Z /\
  ddef (dex_state 21) 1 = 2000 /\ dfwds (dex_trace 22) = [dex_u1; dex_u2] /\
  (* conclusions *)
  (0 <= ddef (dex_state 13) 0 /\ ddef (dex_state 13) 0 < dquantum dex_cfg 0 + inject_Z (dlmax (dex_state 13))) /\
  (0 <= ddef (dex_state 13) 1 /\ ddef (dex_state 13) 1 < dquantum dex_cfg 1 + inject_Z (dlmax (dex_state 13))) /\
  ddef (dex_state 13) 0 = 1500 /\ ddef (dex_state 13) 1 = 3000 /\
  (hd_error (dheld dex_cfg (dex_state 13) 0) = Some dex_u0 /\ ddef (dex_state 13) 0 < inject_Z (psize dex_u0)) /\
  ddef (dex_state 22) 1 == 0.
Proof.
  assert (H13 : drr_run dex_cfg (drr0 0) (firstn 13 dex_acts) = Some (dex_state 13, dex_trace 13)) by (vm_compute; reflexivity).
  assert (H22 : drr_run dex_cfg (drr0 0) (firstn 22 dex_acts) = Some (dex_state 22, dex_trace 22)) by (vm_compute; reflexivity).
  assert (I0 : In 0%Z (dclasses dex_cfg)) by (left; reflexivity).
  assert (I1 : In 1%Z (dclasses dex_cfg)) by (right; left; reflexivity).
  assert (NV : dvisiting (dex_state 13) <> Some 0%Z) by (vm_compute; discriminate).
  assert (E22 : dheld dex_cfg (dex_state 22) 1 = []) by (vm_compute; reflexivity).
  assert (D22 : ddone dex_cfg (dex_state 22) 1 = 0%Z) by (vm_compute; reflexivity).
  assert (HOL : dhol (dex_state 13) 0 = Some dex_u0) by (vm_compute; reflexivity).
  split; [exact dex_wf|]. split; [exact H13|]. split; [exact I0|]. split; [exact I1|]. split; [exact NV|]. split; [exact H22|].
  split; [exact E22|]. split; [exact D22|].
  split; [vm_compute; reflexivity|]. split; [exact HOL|]. split; [vm_compute; reflexivity|]. split; [vm_compute; reflexivity|].
  split; [vm_compute; reflexivity|].
  split; [exact (C15_drr_credit_bounds _ _ _ _ _ dex_wf H13 _ I0)|].
  split; [exact (C15_drr_credit_bounds _ _ _ _ _ dex_wf H13 _ I1)|].
  split; [vm_compute; reflexivity|]. split; [vm_compute; reflexivity|].
  split.
  { pose proof (C15_drr_visit_complete _ _ _ _ _ dex_wf H13 _ NV) as K. rewrite HOL in K. exact K. }
  exact (C15_drr_credit_forgotten _ _ _ _ _ dex_wf H22 _ E22 D22).
Qed.
Print Assumptions C15_ex_drr_credit.

(* the visit rule on two actions: from the state after 11 actions run() receives u0 (DGetDone of class 0), cannot afford it, parks it
   and moves on to class 1, which gets its quantum; from the state after 21 actions run() resumes after the transmission of u2
   (DChildEnd): class 1 is debited and reset (empty), the round ends, a new round begins, class 0 gets a second quantum (3000 in all)
   and sends the parked u0 *)
Theorem C15_ex_drr_visit :
  dwf dex_cfg /\
  drr_run dex_cfg (drr0 0) (firstn 11 dex_acts) = Some (dex_state 11, dex_trace 11) /\
  drr_act dex_cfg (dex_state 11) (DGetDone (Some 0%Z)) = Some (dex_state 12, [DOPark 0 dex_u0; DOQuantum 1]) /\
  drr_run dex_cfg (drr0 0) (firstn 21 dex_acts) = Some (dex_state 21, dex_trace 21) /\
  drr_act dex_cfg (dex_state 21) DChildEnd
    = Some (dex_state 22, [DODebit 1 dex_u2 true; DOEnd 1; DOPass; DOQuantum 0; DOSend 0 dex_u0]) /\
  (* conclusions *)
  dspecs dex_cfg (dheld dex_cfg (dex_state 12)) (dabs (dex_state 11)) [DOPark 0 dex_u0; DOQuantum 1] (dabs (dex_state 12)) /\
  dspecs dex_cfg (dheld dex_cfg (dex_state 22)) (dabs (dex_state 21))
         [DODebit 1 dex_u2 true; DOEnd 1; DOPass; DOQuantum 0; DOSend 0 dex_u0] (dabs (dex_state 22)).
Proof.
  assert (H11 : drr_run dex_cfg (drr0 0) (firstn 11 dex_acts) = Some (dex_state 11, dex_trace 11)) by (vm_compute; reflexivity).
  assert (A11 : drr_act dex_cfg (dex_state 11) (DGetDone (Some 0%Z)) = Some (dex_state 12, [DOPark 0 dex_u0; DOQuantum 1])) by (vm_compute; reflexivity).
  assert (H21 : drr_run dex_cfg (drr0 0) (firstn 21 dex_acts) = Some (dex_state 21, dex_trace 21)) by (vm_compute; reflexivity).
  assert (A21 : drr_act dex_cfg (dex_state 21) DChildEnd
    = Some (dex_state 22, [DODebit 1 dex_u2 true; DOEnd 1; DOPass; DOQuantum 0; DOSend 0 dex_u0])) by (vm_compute; reflexivity).
  split; [exact dex_wf|]. split; [exact H11|]. split; [exact A11|]. split; [exact H21|]. split; [exact A21|].
  split; [exact (C15_drr_visit _ _ _ _ _ _ _ _ dex_wf H11 A11)|exact (C15_drr_visit _ _ _ _ _ _ _ _ dex_wf H21 A21)].
Qed.
Print Assumptions C15_ex_drr_visit.

(* fairness window: from the state after 13 actions through the next 7 actions (the transmission of u1 from start to end, its debit,
   the start of u2's transmission) classes 0 and 1 both hold packets all the time (class 0: u0 parked and u3; class 1: u1, u2);
   class 1 forwards 1000 bytes, class 0 nothing: |0/1500 - 1000/3000| = 1/3 < 4 + 3*2000*(1/1500 + 1/3000) = 10 *)
Definition dex_fair_acts : list daction := firstn 7 (skipn 13 dex_acts).
Definition dex_fair_trace : list dtev := match drr_run dex_cfg (dex_state 13) dex_fair_acts with Some (_, tr) => tr | None => [] end.

Theorem C15_ex_drr_fairness :
  dwf dex_cfg /\
  drr_run dex_cfg (drr0 0) (firstn 13 dex_acts) = Some (dex_state 13, dex_trace 13) /\
  drr_run dex_cfg (dex_state 13) dex_fair_acts = Some (dex_state 20, dex_fair_trace) /\
  In 0%Z (dclasses dex_cfg) /\ In 1%Z (dclasses dex_cfg) /\
  dalways dex_cfg (fun x => dheld dex_cfg x 0 <> [] /\ dheld dex_cfg x 1 <> []) (dex_state 13) dex_fair_acts /\
  (* the situation *)
  dsent dex_cfg 0 dex_fair_trace = 0%Z /\ dsent dex_cfg 1 dex_fair_trace = 1000%Z /\ dlmax (dex_state 20) = 2000%Z /\
  (* conclusion *)
  Qabs (inject_Z (dsent dex_cfg 0 dex_fair_trace) / dquantum dex_cfg 0 - inject_Z (dsent dex_cfg 1 dex_fair_trace) / dquantum dex_cfg 1)
    < 4 + 3 * inject_Z (dlmax (dex_state 20)) * (1 / dquantum dex_cfg 0 + 1 / dquantum dex_cfg 1) /\
  Qabs (inject_Z (dsent dex_cfg 0 dex_fair_trace) / dquantum dex_cfg 0 - inject_Z (dsent dex_cfg 1 dex_fair_trace) / dquantum dex_cfg 1) == 1 # 3 /\
  4 + 3 * inject_Z (dlmax (dex_state 20)) * (1 / dquantum dex_cfg 0 + 1 / dquantum dex_cfg 1) == 10.
Proof.
  assert (H13 : drr_run dex_cfg (drr0 0) (firstn 13 dex_acts) = Some (dex_state 13, dex_trace 13)) by (vm_compute; reflexivity).
  assert (H20 : drr_run dex_cfg (dex_state 13) dex_fair_acts = Some (dex_state 20, dex_fair_trace)) by (vm_compute; reflexivity).
  assert (I0 : In 0%Z (dclasses dex_cfg)) by (left; reflexivity).
  assert (I1 : In 1%Z (dclasses dex_cfg)) by (right; left; reflexivity).
  assert (AL : dalways dex_cfg (fun x => dheld dex_cfg x 0 <> [] /\ dheld dex_cfg x 1 <> []) (dex_state 13) dex_fair_acts).
  { vm_compute. repeat split; discriminate. }
  split; [exact dex_wf|]. split; [exact H13|]. split; [exact H20|]. split; [exact I0|]. split; [exact I1|]. split; [exact AL|].
  split; [vm_compute; reflexivity|]. split; [vm_compute; reflexivity|]. split; [vm_compute; reflexivity|].
  split; [exact (C15_drr_fairness _ _ _ _ _ _ _ _ _ _ dex_wf H13 H20 I0 I1 AL)|].
  split; vm_compute; reflexivity.
Qed.
Print Assumptions C15_ex_drr_fairness.

(* second tie: the generated DRR.put on the state after 29 actions (instant 4, u3 in transmission, total_packets = 1: no token) with
   u4 (flow 1 -> class 1), and on the initial state with u0 (total_packets = 0: the wake-up token first) *)
Theorem C15_ex_gen_drr_put :
  dmemZ (df2c dex_cfg (flow dex_u4)) (dclasses dex_cfg) && (0 <? psize dex_u4)%Z = true /\
  dmemZ (df2c dex_cfg (flow dex_u0)) (dclasses dex_cfg) && (0 <? psize dex_u0)%Z = true /\
  dtotal (dex_state 29) = 1%Z /\
  (* conclusions *)
  snd (drr_gen_put dex_cfg (dex_state 29) dex_u4) = [FxStorePut 1%Z] /\
  snd (drr_gen_put dex_cfg (drr0 0) dex_u0) = [FxToken; FxStorePut 0%Z] /\
  drr_act dex_cfg (dex_state 29) (DPut dex_u4)
    = Some (fold_left (drr_fx_apply dex_u4) (snd (drr_gen_put dex_cfg (dex_state 29) dex_u4))
                      (drr_with_fields (dex_state 29) (fst (drr_gen_put dex_cfg (dex_state 29) dex_u4)) dex_u4), []).
Proof.
  assert (H4 : dmemZ (df2c dex_cfg (flow dex_u4)) (dclasses dex_cfg) && (0 <? psize dex_u4)%Z = true) by reflexivity.
  assert (H0 : dmemZ (df2c dex_cfg (flow dex_u0)) (dclasses dex_cfg) && (0 <? psize dex_u0)%Z = true) by reflexivity.
  split; [exact H4|]. split; [exact H0|]. split; [vm_compute; reflexivity|].
  pose proof (C15_gen_drr_put dex_cfg (dex_state 29) dex_u4 H4) as [A1 B1].
  pose proof (C15_gen_drr_put dex_cfg (drr0 0) dex_u0 H0) as [_ B2].
  split; [rewrite B1; vm_compute; reflexivity|]. split; [rewrite B2; vm_compute; reflexivity|]. exact A1.
Qed.
Print Assumptions C15_ex_gen_drr_put.
