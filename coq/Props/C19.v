(* C19 -- a Timer fires exactly at its expiry, and stop/restart always take effect.
   Only statements, closed by the lemma that proves them, and their assumptions.

   Model: Elem/Timer.v; `fixed` = the code with the three repairs (scalar args wrapped, restart() from the
   callback returns after re-basing, restart() tests is_alive).  A history is ANY list of actions accepted by
   timer_run: stop()/restart(tau) by foreign processes at arbitrary instants (TStop, TRestart), the calls the
   callback makes on its own timer (the list carried by TProcTimeout), the kernel steps of the timer processes
   (Initialize, Timeout, Interruption, Process event) in any admissible order, clock advances.  Admissibility
   assumes only the kernel facts K1 (URGENT before NORMAL, everything due before the clock moves) and K2
   (Initialize before Interruption).  `fires tr` is the list of (instant, arguments) of the callback invocations.
   `quiet` histories contain no stop/restart call from anywhere ("unless it is stopped or restarted first").

   fires_from au E tau l fs tend   (Elem/TimerProofs.v)  :=
     (forall k f, nth_error fs k = Some f -> fst f == E + k * tau /\ snd f = l)     the k-th callback is at E + k tau
     /\ (if au then tend <= E + (length fs) * tau                                   the clock never passes the next expiry
         else length fs <= 1 /\ (fs = [] -> tend <= E)).                            one-shot: at most once *)
From Coq Require Import ZArith QArith List Sorted.
From ONL Require Import Elem.Timer Elem.TimerProofs.
Import ListNotations.
Local Open Scope Q_scope.

(* One-shot timer created at t0, no stop/restart: nothing before t0 + timeout, the clock cannot pass
   t0 + timeout without the callback, and the callback runs exactly once, at t0 + timeout, with exactly args. *)
Theorem C19_fires_at_expiry : forall t0 tau a l acts st tr,
  0 < tau -> norm_args fixed a = Some l -> forallb quiet acts = true ->
  timer_run fixed (timer0 fixed t0 tau false a) acts = Some (st, tr) ->
  (fires tr = [] /\ tnow st <= t0 + tau) \/ (exists t, fires tr = [(t, l)] /\ t == t0 + tau).
Proof. exact fires_at_expiry. Qed.
Print Assumptions C19_fires_at_expiry.

(* ... and once that callback ran, no continuation whatsoever (stops, restarts, anything) makes it run again. *)
Theorem C19_expired_one_shot_never_refires : forall t0 tau a l pre post st1 tr1 st tr,
  0 < tau -> norm_args fixed a = Some l -> forallb quiet pre = true ->
  timer_run fixed (timer0 fixed t0 tau false a) pre = Some (st1, tr1) -> fires tr1 <> [] ->
  timer_run fixed st1 post = Some (st, tr) -> fires tr = [].
Proof. exact expired_one_shot_never_refires. Qed.
Print Assumptions C19_expired_one_shot_never_refires.

(* Auto-restart timer, no stop/restart: the k-th callback (k = 0,1,...) runs at t0 + timeout + k timeout with
   exactly args, and the clock cannot pass the next expiry without it. *)
Theorem C19_auto_restart_period : forall t0 tau a l acts st tr,
  0 < tau -> norm_args fixed a = Some l -> forallb quiet acts = true ->
  timer_run fixed (timer0 fixed t0 tau true a) acts = Some (st, tr) ->
  (forall k f, nth_error (fires tr) k = Some f ->
     fst f == t0 + tau + inject_Z (Z.of_nat k) * tau /\ snd f = l) /\
  tnow st <= t0 + tau + inject_Z (Z.of_nat (length (fires tr))) * tau.
Proof. exact auto_restart_period. Qed.
Print Assumptions C19_auto_restart_period.

(* After a stop -- by a foreign process or from the callback -- the callback never runs again, whatever
   follows (restarts included). *)
Theorem C19_stop_is_final : forall t0 tau au a pre post st tr,
  timer_run fixed (timer0 fixed t0 tau au a) (pre ++ post) = Some (st, tr) ->
  (exists x, In x pre /\ is_stop x) ->
  exists st1 tr1 tr2, timer_run fixed (timer0 fixed t0 tau au a) pre = Some (st1, tr1) /\
                      timer_run fixed st1 post = Some (st, tr2) /\ tr = tr1 ++ tr2 /\
                      stopped st1 = true /\ fires tr2 = [].
Proof. exact stop_is_final. Qed.
Print Assumptions C19_stop_is_final.

(* restart(tau') by a foreign process at r = tnow st, in ANY reachable state in which the timer is still
   pending (not stopped, self.proc alive: before, exactly at -- Timeout not yet processed --, or, for
   auto-restart, after an expiry; any number of earlier calls in the same instant): from then on, until the next
   stop/restart, the firings are those of a fresh timer created at r with timeout tau': first at exactly
   r + tau', none earlier -- in particular none at an old expiry. *)
Theorem C19_restart_rebases : forall t0 tau au a l pre st trp tau' acts st' tr,
  norm_args fixed a = Some l ->
  timer_run fixed (timer0 fixed t0 tau au a) pre = Some (st, trp) ->
  stopped st = false -> cur_alive st = true -> 0 < tau' -> forallb quiet acts = true ->
  timer_run fixed st (TRestart tau' :: acts) = Some (st', tr) ->
  fires_from au (tnow st + tau') tau' l (fires tr) (tnow st') /\
  Forall (fun f => tnow st + tau' <= fst f) (fires tr).
Proof. exact restart_rebases. Qed.
Print Assumptions C19_restart_rebases.

(* restart(tau') as the last call of the callback (no stop among its calls), one-shot or auto-restart: this
   callback is at r = tnow st with args, the following firings are those of a fresh timer created at r. *)
Theorem C19_restart_rebases_from_callback : forall t0 tau au a l pre st trp i cs0 tau' acts st' tr,
  norm_args fixed a = Some l ->
  timer_run fixed (timer0 fixed t0 tau au a) pre = Some (st, trp) ->
  stopped st = false -> ~ In CStop cs0 -> 0 < tau' -> forallb quiet acts = true ->
  timer_run fixed st (TProcTimeout i (cs0 ++ [CRestart tau']) :: acts) = Some (st', tr) ->
  exists rest, fires tr = (tnow st, l) :: rest /\
               fires_from au (tnow st + tau') tau' l rest (tnow st') /\
               Forall (fun f => tnow st + tau' <= fst f) rest.
Proof. exact restart_rebases_from_callback. Qed.
Print Assumptions C19_restart_rebases_from_callback.

(* EVERY history: the instants of the callback invocations are strictly increasing (never two callbacks for one
   expiry, never two in one instant), all after t0, and every invocation carries exactly args. *)
Theorem C19_no_double_fire : forall t0 tau au a acts st tr l,
  norm_args fixed a = Some l ->
  timer_run fixed (timer0 fixed t0 tau au a) acts = Some (st, tr) ->
  StronglySorted before (fires tr) /\ Forall (fun f => t0 < fst f /\ snd f = l) (fires tr).
Proof. exact no_double_fire. Qed.
Print Assumptions C19_no_double_fire.

(* EVERY history: the callback runs only in the Timeout step of self.proc, only when not stopped, and only at
   the instant that expire_time holds at that moment. *)
Theorem C19_fires_only_at_expire_time : forall t0 tau au a l pre st trp x st' outs,
  norm_args fixed a = Some l ->
  timer_run fixed (timer0 fixed t0 tau au a) pre = Some (st, trp) ->
  timer_act fixed st x = Some (st', outs) -> outs <> [] ->
  outs = [OFire l] /\ stopped st = false /\ tnow st == expire st /\ tnow st' = tnow st /\
  exists cs, x = TProcTimeout (cur st) cs.
Proof. exact fires_only_at_expire_time. Qed.
Print Assumptions C19_fires_only_at_expire_time.

(* No admissible history reaches an error state (TypeError on scalar args, RuntimeError for interrupting
   oneself or a terminated process, a dangling self.proc). *)
Theorem C19_timer_never_raises : forall t0 tau au a acts st tr,
  timer_run fixed (timer0 fixed t0 tau au a) acts = Some (st, tr) -> err st = None.
Proof. exact timer_never_raises. Qed.
Print Assumptions C19_timer_never_raises.

(* The invariant: at most one live timer process has no interruption pending, and it is self.proc; while it
   sleeps and the timer is not stopped, its Timeout is due exactly at expire_time, which is not in the past. *)
Theorem C19_single_live_process : forall t0 tau au a acts st tr,
  timer_run fixed (timer0 fixed t0 tau au a) acts = Some (st, tr) ->
  (forall i p, nth_error (procs st) i = Some p -> alive p = true -> intr p = 0%nat -> i = cur st) /\
  (exists p, nth_error (procs st) (cur st) = Some p /\ intr p = 0%nat /\
     forall d, ph p = PWait d -> tnow st <= d /\ (stopped st = false -> d == expire st)).
Proof. exact single_live_process. Qed.
Print Assumptions C19_single_live_process.

(* The code before each of the three fix: commits reaches an error state. *)
Theorem C19_raises_before_fix_scalar_args :
  exists acts st tr,
    timer_run {| fx_wrap := false; fx_selfcb := true; fx_alive := true |}
              (timer0 {| fx_wrap := false; fx_selfcb := true; fx_alive := true |} 0 5 false (AScalar 7)) acts = Some (st, tr)
    /\ err st = Some ENotIterable.
Proof. exact raises_before_fix_scalar_args. Qed.
Print Assumptions C19_raises_before_fix_scalar_args.

Theorem C19_raises_before_fix_restart_from_callback :
  exists acts st tr,
    timer_run {| fx_wrap := true; fx_selfcb := false; fx_alive := true |}
              (timer0 {| fx_wrap := true; fx_selfcb := false; fx_alive := true |} 0 5 false (AScalar 7)) acts = Some (st, tr)
    /\ err st = Some EInterruptSelf.
Proof. exact raises_before_fix_restart_from_callback. Qed.
Print Assumptions C19_raises_before_fix_restart_from_callback.

Theorem C19_raises_before_fix_restart_after_expiry :
  exists acts st tr,
    timer_run {| fx_wrap := true; fx_selfcb := true; fx_alive := false |}
              (timer0 {| fx_wrap := true; fx_selfcb := true; fx_alive := false |} 0 5 false (AScalar 7)) acts = Some (st, tr)
    /\ err st = Some EInterruptDead.
Proof. exact raises_before_fix_restart_after_expiry. Qed.
Print Assumptions C19_raises_before_fix_restart_after_expiry.
