(* C19 -- a Timer fires exactly at its expiry, and stop/restart always take effect.
   Only statements, closed by the lemma that proves them, and their assumptions.
   Model: Elem/Timer.v (`fixed` = the code with the three repairs); an execution is any list of actions
   accepted by timer_run: calls by foreign processes, calls made by the callback, kernel steps. *)
From Coq Require Import ZArith QArith List.
From ONL Require Import Elem.Timer Elem.TimerProofs.
Import ListNotations.

(* No admissible history reaches an error state (TypeError on scalar args, RuntimeError for interrupting
   oneself or a terminated process, a dangling self.proc). *)
Theorem C19_timer_never_raises : forall t0 tau au a acts st tr,
  timer_run fixed (timer0 fixed t0 tau au a) acts = Some (st, tr) -> err st = None.
Proof. exact timer_never_raises. Qed.
Print Assumptions C19_timer_never_raises.

(* At most one live timer process has no interruption pending: it is self.proc; while it sleeps and the timer
   is not stopped, its Timeout is due exactly at expire_time, which is not in the past. *)
Theorem C19_single_live_process : forall t0 tau au a acts st tr,
  timer_run fixed (timer0 fixed t0 tau au a) acts = Some (st, tr) ->
  (forall i p, nth_error (procs st) i = Some p -> alive p = true -> intr p = 0%nat -> i = cur st) /\
  (exists p, nth_error (procs st) (cur st) = Some p /\ intr p = 0%nat /\
     forall d, ph p = PWait d -> (tnow st <= d)%Q /\ (stopped st = false -> (d == expire st)%Q)).
Proof. exact single_live_process. Qed.
Print Assumptions C19_single_live_process.

(* After a stop -- by a foreign process or from the callback -- the callback never runs again, whatever
   follows (restarts included). *)
Theorem C19_stop_is_final : forall t0 tau au a pre post st tr,
  timer_run fixed (timer0 fixed t0 tau au a) (pre ++ post) = Some (st, tr) ->
  (exists x, In x pre /\ is_stop x) ->
  exists st1 tr1 tr2, timer_run fixed (timer0 fixed t0 tau au a) pre = Some (st1, tr1) /\
                      timer_run fixed st1 post = Some (st, tr2) /\ tr = tr1 ++ tr2 /\
                      stopped st1 = true /\ fires tr2 = [].
Proof. exact stop_is_final. Qed.
Print Assumptions C19_stop_is_final.
