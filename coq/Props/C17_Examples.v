(* C17 -- NON-VACUITY of the theorems of Props/C17.v.
   An implication no reachable state satisfies means nothing: every theorem below is a machine-checked witness that ALL
   hypotheses of the theorems it covers hold together on a concrete, non-trivial instance -- states the sender really
   gets into along two histories (Tcp/SenderExamples.v): a Reno history with a new ACK, two resumptions, three duplicate
   ACKs (fast retransmit), a timer expiry and a cumulative ACK; a CUBIC history that goes through slow start, fast
   retransmit, deflation and two congestion-avoidance ACKs (start of an epoch, running epoch) -- together with what the
   theorem's conclusion says there (window values, segments on the output).

   Coverage (every hypothesis-carrying theorem of Props/C17.v):
     C17_ex_wake                 C17_send_guard, C17_window_respected, C17_wake_never_out_of_fuel
     C17_ex_ack_sends_no_new     C17_only_wake_sends_new_data
     C17_ex_history              C17_segments_consecutive, C17_cwnd_ge_mss, C17_never_zero_div
     C17_ex_new_ack              C17_new_ack_rule, C17_rto_formula, C17_no_deflate_before_third_dup
     C17_ex_reno_ack             C17_reno_ack_rule, C17_gen_reno_ack
     C17_ex_cubic_ack            C17_cubic_ack_rule, C17_gen_cubic_ack_received
     C17_ex_dupacks              C17_early_dup_rule, C17_fast_retransmit_rule, C17_more_dupacks_rule,
                                 C17_oracle_only_in_ack_received
     C17_ex_deflate              C17_deflate_then_count, C17_ack_received_sees_ack_cwnd
     C17_ex_timeout              C17_timeout_rule, C17_rto_doubles
     C17_ex_cubic_run            C17_stepx_is_step, C17_cubic_root_unreachable
     C17_ex_cubic_rules          C17_cubic_epoch_start_rule, C17_cubic_growth_rule, C17_cubic_slow_start_rule,
                                 C17_cubic_cnt_pos, C17_cubic_new_ack_rule
     C17_ex_app_limited          C17_app_send_guard, C17_app_window_respected, C17_app_buffer_respected,
                                 C17_app_other_events
     C17_ex_app_partial_tail     C17_app_partial_tail_waits, C17_app_partial_buffer_is_permanent
     C17_ex_app_writes           (C17_app_send_guard again: writes of 2, 3 and 4 MSS, numbering stays consecutive)
     C17_ex_app_plain            C17_app_plain_is_on_wake
   Unconditional (no hypotheses beyond typing binders): C17_fr_ssthresh_is_max, C17_cubic_friendliness_gain,
     C17_gen_timer_expired, C17_gen_dupack_over, C17_gen_fast_retransmit, C17_gen_more_dupacks, C17_gen_cubic_consts,
     C17_gen_cubic_timer_expired.
   Already a witness (existential statement): C17_deflate_refuted_before_fix. *)
From Coq Require Import ZArith QArith Qabs Qminmax List Lia.
From ONL Require Import Tcp.Sender Tcp.SenderProofs Gen.Extracted_cc Tcp.CcBridge Tcp.Cubic Tcp.CubicProofs Tcp.CubicBridge
  Tcp.SenderExamples Tcp.AppSender Tcp.AppSenderProofs Tcp.AppSenderExamples.
Import ListNotations.
Open Scope Z_scope.

(* the states used below, all on the Reno history [hS2 ++ ...] of Tcp/SenderExamples.v *)
Definition sWk : sender := sender_after (firstn 3 hS2).     (* after wake, ACK 512, hand-off: the process is about to resume *)
Definition sD1 : sender := sender_after (firstn 5 hS2).     (* one duplicate of ACK 512 *)
Definition sD2 : sender := sender_after hS2.                (* two duplicates *)
Definition sD3 : sender := sender_after (hS2 ++ [dupS]).    (* three: fast retransmit done *)

(* ------------------------------------------------------------------------------------------------ *)
(* Covers C17_send_guard, C17_window_respected, C17_wake_never_out_of_fuel: MSS 512 > 0; in [sWk] (last_ack 512, cwnd
   1536, next_seq 1024) the resumption is enabled and emits the two segments 1024 and 1536 -- next_seq moves, and the
   new data in flight, 2048 - 512 = 1536, is exactly the window. *)
Theorem C17_ex_wake :
  0 < mss cS /\
  exists s' outs, on_wake cS sWk = Ok s' outs /\ next_seq sWk < next_seq s' /\
    txs outs = [(1024, 512); (1536, 512)] /\ starts outs = [1024; 1536] /\
    next_seq sWk = 1024 /\ next_seq s' = 2048 /\ last_ack s' = 512 /\ (cwnd s' == 1536 # 1)%Q /\
    (zq (next_seq s' - last_ack s') <= cwnd s')%Q /\
    wake_spec cS (set_store sWk (tokens sWk) (pend sWk) false false) s' [] outs /\
    on_wake cS sWk <> Raise OutOfFuel.
Proof.
  split; [reflexivity|].
  destruct (on_wake cS sWk) as [s' outs|x] eqn:E; [|vm_compute in E; discriminate].
  exists s', outs. split; [reflexivity|].
  assert (Hlt : next_seq sWk < next_seq s').
  { vm_compute in E. injection E as <- _. reflexivity. }
  split; [exact Hlt|].
  split; [vm_compute in E; injection E as _ <-; reflexivity|].
  split; [vm_compute in E; injection E as _ <-; reflexivity|].
  split; [vm_compute; reflexivity|].
  split; [vm_compute in E; injection E as <- _; reflexivity|].
  split; [vm_compute in E; injection E as <- _; reflexivity|].
  split; [vm_compute in E; injection E as <- _; reflexivity|].
  split; [apply (window_respected cS sWk s' outs); [reflexivity|exact E|exact Hlt]|].
  split; [apply (send_guard cS sWk s' outs); [reflexivity|exact E]|].
  discriminate.
Qed.
Print Assumptions C17_ex_wake.

(* Covers C17_only_wake_sends_new_data: the event is the third duplicate ACK (not EWake), the step succeeds from [sD2]
   and does transmit something -- segment 512 again -- while next_seq stays 2048 and no timer is started. *)
Theorem C17_ex_ack_sends_no_new :
  dupS <> EWake /\
  exists s' outs, step current cS sD2 dupS = Ok s' outs /\ txs outs = [(512, 512)] /\
    next_seq s' = 2048 /\ next_seq sD2 = 2048 /\ in_sent 512 (sent sD2) = true /\
    retransmissions_only sD2 outs.
Proof.
  split; [discriminate|].
  destruct (step current cS sD2 dupS) as [s' outs|x] eqn:E; [|vm_compute in E; discriminate].
  exists s', outs. split; [reflexivity|].
  split; [vm_compute in E; injection E as _ <-; reflexivity|].
  split; [vm_compute in E; injection E as <- _; reflexivity|].
  split; [vm_compute; reflexivity|]. split; [vm_compute; reflexivity|].
  apply (only_wake_sends_new_data current cS sD2 dupS s' outs); [discriminate|exact E].
Qed.
Print Assumptions C17_ex_ack_sends_no_new.

(* Covers C17_segments_consecutive, C17_cwnd_ge_mss, C17_never_zero_div: the repaired code (fx_deflate3), MSS 512 > 0,
   initial window 1024 >= MSS; the history [hSca] of 11 events from the initial state runs without exception, its new
   segments are 0, 512, ..., 3072 = seg_ids 512 0 7; the window ends at 1536 >= 512 -- and on the shorter history that
   stops at the timer expiry it is EXACTLY one MSS, so the bound is attained; the next event after [hSca], a new ACK in
   congestion avoidance (cwnd 1536 > ssthresh 1024: the division MSS*MSS/cwnd is executed), succeeds: cwnd = 5120/3. *)
Theorem C17_ex_history :
  fx_deflate3 current = true /\ 0 < mss cS /\ (zq (mss cS) <= 1024 # 1)%Q /\
  exists s' outs, run current cS (init (1024 # 1) (65535 # 1) (1 # 16)) hSca = Ok s' outs /\ length hSca = 11%nat /\
    starts outs = [0; 512; 1024; 1536; 2048; 2560; 3072] /\ starts outs = seg_ids (mss cS) 0 7 /\
    next_seq s' = Z.of_nat 7 * mss cS /\ (cwnd s' == 1536 # 1)%Q /\ (zq (mss cS) <= cwnd s')%Q /\
    (exists s1 o1, run current cS (init (1024 # 1) (65535 # 1) (1 # 16)) (hS2 ++ [dupS; EExpire 1024]) = Ok s1 o1 /\
                   (cwnd s1 == zq (mss cS))%Q) /\
    (exists s2 o2, step current cS s' (EAck 2560 2048 (1 # 4) 0) = Ok s2 o2 /\ (cwnd s2 == 5120 # 3)%Q /\
                   ~ (cwnd s' <= ssthresh s')%Q) /\
    step current cS s' (EAck 2560 2048 (1 # 4) 0) <> Raise ZeroDiv.
Proof.
  split; [reflexivity|]. split; [reflexivity|]. split; [cbn; discriminate|].
  destruct (run current cS (init (1024 # 1) (65535 # 1) (1 # 16)) hSca) as [s' outs|x] eqn:E; [|vm_compute in E; discriminate].
  exists s', outs. split; [reflexivity|]. split; [reflexivity|].
  split; [vm_compute in E; injection E as _ <-; reflexivity|].
  split; [vm_compute in E; injection E as _ <-; reflexivity|].
  split; [vm_compute in E; injection E as <- _; reflexivity|].
  split; [vm_compute in E; injection E as <- _; reflexivity|].
  split; [apply (cwnd_ge_mss current cS (1024 # 1) (65535 # 1) (1 # 16) hSca s' outs);
          [reflexivity|reflexivity|cbn; discriminate|exact E]|].
  split; [eexists; eexists; split; [vm_compute; reflexivity|vm_compute; reflexivity]|].
  split.
  - destruct (step current cS s' (EAck 2560 2048 (1 # 4) 0)) as [s2 o2|x] eqn:E2;
      [|vm_compute in E; injection E as <- _; vm_compute in E2; discriminate].
    exists s2, o2. split; [reflexivity|].
    vm_compute in E; injection E as <- _. vm_compute in E2. injection E2 as <- _.
    split; [reflexivity|apply Qlt_not_le; reflexivity].
  - apply (never_zero_div current cS (1024 # 1) (65535 # 1) (1 # 16) hSca s' outs);
      [reflexivity|reflexivity|cbn; discriminate|exact E].
Qed.
Print Assumptions C17_ex_history.

(* Covers C17_new_ack_rule, C17_rto_formula, C17_no_deflate_before_third_dup: in [sD2] (last_ack 512, dupack 2, cwnd
   1536, segments 512, 1024, 1536 in flight) the new ACK 1536 arrives: repaired code, 1536 <> last_ack, 0 < dupack < 3,
   cc_ack and stop_all succeed (the timers of 512 and 1024 are stopped).  The window is NOT deflated: 1536 + 512 = 2048
   (slow start), last_ack = 1536, dupack = 0, RTO = srtt + 4 rttvar. *)
Theorem C17_ex_new_ack :
  fx_deflate3 current = true /\ 1536 <> last_ack sD2 /\ 0 <= dupack sD2 < 3 /\ 0 < dupack sD2 < 3 /\
  (exists cw ccnt cn t se outs,
     cc_ack cS (cwnd sD2) (ssthresh sD2) (cwnd_cnt sD2) (cnt sD2) 0 = Some (cw, ccnt, cn) /\
     stop_all (acked_ids current cS sD2 1536 1024) (timers sD2) (sent sD2) [] = Some (t, se, outs) /\
     outs = [TStop 512; TStop 1024] /\ se = [1536] /\ (cw == 2048 # 1)%Q) /\
  exists s' o, on_ack current cS sD2 1536 1024 (1 # 4) 0 = Ok s' o /\
    on_ack current cS sD2 1536 1024 (1 # 4) 0 = on_ack current cS (set_dupack sD2 0) 1536 1024 (1 # 4) 0 /\
    (cwnd sD2 == 1536 # 1)%Q /\ (cwnd s' == 2048 # 1)%Q /\ last_ack s' = 1536 /\ dupack s' = 0 /\
    (srtt s' == srtt sD2 + ((1 # 4) - srtt sD2) / (8 # 1))%Q /\ (rto s' == srtt s' + (4 # 1) * rttvar s')%Q.
Proof.
  assert (Hd : dupack sD2 = 2) by (vm_compute; reflexivity).
  split; [reflexivity|]. split; [vm_compute; discriminate|].
  split; [rewrite Hd; lia|]. split; [rewrite Hd; lia|].
  split; [do 6 eexists; split; [vm_compute; reflexivity|]; split; [vm_compute; reflexivity|];
          split; [reflexivity|]; split; reflexivity|].
  destruct (on_ack current cS sD2 1536 1024 (1 # 4) 0) as [s' o|x] eqn:E; [|vm_compute in E; discriminate].
  exists s', o. split; [reflexivity|].
  split; [rewrite <- E; apply no_deflate_before_third_dup; [reflexivity|vm_compute; discriminate|rewrite Hd; lia]|].
  split; [vm_compute; reflexivity|].
  split; [vm_compute in E; injection E as <- _; reflexivity|].
  destruct (rto_formula current cS sD2 1536 1024 (1 # 4) 0 s' o) as (F1 & F2 & F3 & F4 & F5);
    [vm_compute; discriminate|vm_compute; discriminate|exact E|].
  repeat split; assumption.
Qed.
Print Assumptions C17_ex_new_ack.

(* Covers C17_reno_ack_rule and C17_gen_reno_ack: a Reno configuration and a window <> 0, in both regimes: slow start
   (cwnd 1024 <= ssthresh 65535: + MSS) and congestion avoidance (cwnd 1536 > ssthresh 1024: + 512*512/1536). *)
Theorem C17_ex_reno_ack :
  calg cS = Reno /\ ~ ((1024 # 1) == 0)%Q /\ ~ ((1536 # 1) == 0)%Q /\
  (exists cw', cc_ack cS (1024 # 1) (65535 # 1) 0 0 0 = Some (cw', 0, 0%Q) /\ (cw' == 1536 # 1)%Q /\
               (cw' == x_cwnd (g_TCPReno_ack_received (mkcc (zq (mss cS)) (1024 # 1) (65535 # 1))))%Q) /\
  (exists cw', cc_ack cS (1536 # 1) (1024 # 1) 0 0 0 = Some (cw', 0, 0%Q) /\ (cw' == 5120 # 3)%Q /\
               (cw' == x_cwnd (g_TCPReno_ack_received (mkcc (zq (mss cS)) (1536 # 1) (1024 # 1))))%Q).
Proof.
  split; [reflexivity|]. split; [cbn; discriminate|]. split; [cbn; discriminate|].
  split; eexists; (split; [vm_compute; reflexivity|]); split; vm_compute; reflexivity.
Qed.
Print Assumptions C17_ex_reno_ack.

(* Covers C17_cubic_ack_rule and C17_gen_cubic_ack_received (one hypothesis: the configuration is CUBIC), in the three
   branches of the rule: slow start; congestion avoidance with cnt < cwnd_cnt (window grows, counter reset); and with
   cnt >= cwnd_cnt (counter incremented). *)
Theorem C17_ex_cubic_ack :
  calg cX = Cubic /\
  cc_ack cX (1280 # 1) (1280 # 1) 0 0 (7 # 1) = Some (((1280 # 1) + zq 512)%Q, 0, 0%Q) /\
  cc_ack cX (1792 # 1) (1280 # 1) 3 0 (2 # 1) = Some (((1792 # 1) + zq 512)%Q, 0, (2 # 1)%Q) /\
  cc_ack cX (1792 # 1) (1280 # 1) 1 0 (35840 # 1) = Some ((1792 # 1)%Q, 2, (35840 # 1)%Q).
Proof. repeat split; reflexivity. Qed.
Print Assumptions C17_ex_cubic_ack.

(* Covers C17_early_dup_rule (state [sD1]: dupack 1, 1 + 1 < 3), C17_fast_retransmit_rule and
   C17_oracle_only_in_ack_received (state [sD2]: dupack 2, the segment at last_ack = 512 is in flight; a duplicate does
   not reach ack_received()), C17_more_dupacks_rule (state [sD3]: dupack 3, cwnd 2560 >= 0, MSS > 0, 512 in flight).
   What happens: sD1 -> sD2 without output; sD2 -> sD3 with ssthresh = max(1024, 1536/2) = 1024, cwnd = 1024 + 3*512,
   Tx 512; from sD3 a fourth duplicate gives cwnd 3072 and Tx 512 again. *)
Theorem C17_ex_dupacks :
  (0 <= dupack sD1 /\ dupack sD1 + 1 < 3 /\ last_ack sD1 = 512 /\
   on_ack current cS sD1 512 0 (1 # 8) 0 = Ok sD2 []) /\
  (dupack sD2 = 2 /\ in_sent (last_ack sD2) (sent sD2) = true /\ ack_counts sD2 512 = false /\ last_ack sD2 = 512 /\
   (cwnd sD2 == 1536 # 1)%Q /\
   exists s', on_ack current cS sD2 512 0 (1 # 8) 0 = Ok s' [Tx 512 512] /\ dupack s' = 3 /\
              (ssthresh s' == 1024 # 1)%Q /\ (cwnd s' == 2560 # 1)%Q /\
              on_ack current cS sD2 512 0 (1 # 8) (99 # 1) = Ok s' [Tx 512 512]) /\
  (3 <= dupack sD3 /\ (0 <= cwnd sD3)%Q /\ 0 < mss cS /\ in_sent (last_ack sD3) (sent sD3) = true /\ last_ack sD3 = 512 /\
   exists s', on_ack current cS sD3 512 0 (1 # 8) 0 = Ok s' [Tx 512 512] /\ dupack s' = 4 /\
              (ssthresh s' == 1024 # 1)%Q /\ (cwnd s' == 3072 # 1)%Q).
Proof.
  split; [|split].
  - split; [vm_compute; discriminate|]. split; [vm_compute; reflexivity|]. split; [vm_compute; reflexivity|].
    vm_compute. reflexivity.
  - split; [vm_compute; reflexivity|]. split; [vm_compute; reflexivity|]. split; [vm_compute; reflexivity|].
    split; [vm_compute; reflexivity|]. split; [vm_compute; reflexivity|].
    eexists. split; [vm_compute; reflexivity|]. repeat split; vm_compute; reflexivity.
  - split; [vm_compute; discriminate|]. split; [vm_compute; discriminate|]. split; [reflexivity|].
    split; [vm_compute; reflexivity|]. split; [vm_compute; reflexivity|].
    eexists. split; [vm_compute; reflexivity|]. repeat split; vm_compute; reflexivity.
Qed.
Print Assumptions C17_ex_dupacks.

(* Covers C17_deflate_then_count and C17_ack_received_sees_ack_cwnd: in [sD3] (after fast retransmit: dupack 3, cwnd
   2560, ssthresh 1024) the new cumulative ACK 2048 arrives; repaired code, 2048 <> last_ack, 3 <= dupack, the ACK
   counts.  ack_received() sees cwnd = ssthresh = 1024 (deflated), and then counts: slow start, 1024 + 512 = 1536. *)
Theorem C17_ex_deflate :
  fx_deflate3 current = true /\ 2048 <> last_ack sD3 /\ 3 <= dupack sD3 /\ ack_counts sD3 2048 = true /\ 0 <= dupack sD3 /\
  (cwnd sD3 == 2560 # 1)%Q /\ (ack_cwnd current sD3 2048 == 1024 # 1)%Q /\
  on_ack current cS sD3 2048 1024 (1 # 4) 0 =
  on_ack current cS (set_dupack (set_cc sD3 (ssthresh sD3) (ssthresh sD3)) 0) 2048 1024 (1 # 4) 0 /\
  exists s' o, on_ack current cS sD3 2048 1024 (1 # 4) 0 = Ok s' o /\ (cwnd s' == 1536 # 1)%Q /\
               o = [TStop 512; TStop 1024; TStop 1536] /\ dupack s' = 0 /\ last_ack s' = 2048.
Proof.
  split; [reflexivity|]. split; [vm_compute; discriminate|]. split; [vm_compute; discriminate|].
  split; [vm_compute; reflexivity|]. split; [vm_compute; discriminate|].
  split; [vm_compute; reflexivity|]. split; [vm_compute; reflexivity|].
  split; [apply deflate_then_count; [reflexivity|vm_compute; discriminate|vm_compute; discriminate]|].
  eexists. eexists. split; [vm_compute; reflexivity|]. repeat split; vm_compute; reflexivity.
Qed.
Print Assumptions C17_ex_deflate.

(* Covers C17_timeout_rule and C17_rto_doubles: in [sD3] segment 1024 has a timer and is in flight: its expiry sets
   cwnd = 512, retransmits 1024 and re-arms with the doubled RTO; the ACK-free history of three expiries (1024, 512,
   1024 again) multiplies the RTO by 2^3. *)
Theorem C17_ex_timeout :
  has_timer 1024 (timers sD3) = true /\ in_sent 1024 (sent sD3) = true /\
  (exists s', on_timer current cS sD3 1024 = Ok s' [Tx 1024 512; TRestart 1024 (rto sD3 * (2 # 1))%Q] /\
              (cwnd s' == 512 # 1)%Q /\ (rto sD3 == 17 # 128)%Q /\ (rto s' == 17 # 64)%Q) /\
  0 < mss cS /\ no_ack [EExpire 1024; EExpire 512; EExpire 1024] /\
  expiries [EExpire 1024; EExpire 512; EExpire 1024] = 3%nat /\
  exists s' outs, run current cS sD3 [EExpire 1024; EExpire 512; EExpire 1024] = Ok s' outs /\
    txs outs = [(1024, 512); (512, 512); (1024, 512)] /\ (rto s' == 17 # 16)%Q /\
    (rto s' == rto sD3 * inject_Z (2 ^ Z.of_nat 3))%Q.
Proof.
  split; [vm_compute; reflexivity|]. split; [vm_compute; reflexivity|].
  split; [eexists; split; [apply timeout_rule; vm_compute; reflexivity|]; repeat split; vm_compute; reflexivity|].
  split; [reflexivity|]. split; [exact I|]. split; [reflexivity|].
  eexists. eexists. split; [vm_compute; reflexivity|]. repeat split; vm_compute; reflexivity.
Qed.
Print Assumptions C17_ex_timeout.

(* ------------------------------------------------------------------------------------------------ *)
(* CUBIC.  The history [hX4] (Tcp/SenderExamples.v): 12 events with the clock.
   Covers C17_cubic_root_unreachable (repaired code, MSS 512 > 0, initial window 2048 >= MSS: the run is not XCubicRoot
   -- it is XOk, and it did go through cubic_update twice) and C17_stepx_is_step (the 11th event, the ACK 3584 that
   starts the epoch, is an XOk step of the composed model: cnt becomes 286720, epoch_start = now = 5/4). *)
Theorem C17_ex_cubic_run :
  fx_deflate3 current = true /\ 0 < mss cX /\ (zq (mss cX) <= 2048 # 1)%Q /\ length hX4 = 12%nat /\
  (exists s cs o, runx current cX (init (2048 # 1) (65535 # 1) (1 # 4)) cubic0 hX4 = XOk s cs o /\
     txs o = [(0, 512); (512, 512); (1024, 512); (1536, 512); (2048, 512); (2560, 512); (512, 512);
              (3072, 512); (3584, 512); (4096, 512)] /\
     (cwnd s == 1792 # 1)%Q /\ (ssthresh s == 1280 # 1)%Q /\ cwnd_cnt s = 2 /\ (cnt s == 35840 # 1)%Q /\
     (c_epoch cs == 5 # 4)%Q /\ (c_origin cs == 1792 # 1)%Q) /\
  runx current cX (init (2048 # 1) (65535 # 1) (1 # 4)) cubic0 hX4 <> XCubicRoot /\
  (exists s' cs' o, stepx current cX (fst (xafter hX2)) (snd (xafter hX2)) (XAck 3584 3072 (1 # 4) (5 # 4)) = XOk s' cs' o /\
     (cnt s' == 286720 # 1)%Q /\ cwnd_cnt s' = 1 /\ (c_epoch cs' == 5 # 4)%Q /\
     exists ev, step current cX (fst (xafter hX2)) ev = Ok s' o /\
                match ev with EAck a p sm _ => 3584 = a /\ 3072 = p /\ (1 # 4) = sm | _ => False end).
Proof.
  split; [reflexivity|]. split; [reflexivity|]. split; [cbn; discriminate|]. split; [reflexivity|].
  split; [do 3 eexists; split; [vm_compute; reflexivity|]; repeat split; vm_compute; reflexivity|].
  split; [apply cubic_root_unreachable; [reflexivity|reflexivity|cbn; discriminate]|].
  destruct (stepx current cX (fst (xafter hX2)) (snd (xafter hX2)) (XAck 3584 3072 (1 # 4) (5 # 4))) as [s' cs' o| |] eqn:E;
    [|vm_compute in E; discriminate|vm_compute in E; discriminate].
  exists s', cs', o. split; [reflexivity|].
  split; [vm_compute in E; injection E as <- _ _; reflexivity|].
  split; [vm_compute in E; injection E as <- _ _; reflexivity|].
  split; [vm_compute in E; injection E as _ <- _; reflexivity|].
  destruct (stepx_is_step current cX _ _ _ s' cs' o E) as (ev & Hs & Hm).
  exists ev. split; [exact Hs|]. destruct ev; exact Hm.
Qed.
Print Assumptions C17_ex_cubic_run.

(* Covers C17_cubic_epoch_start_rule, C17_cubic_growth_rule, C17_cubic_slow_start_rule, C17_cubic_cnt_pos and
   C17_cubic_new_ack_rule, on the CUBIC epoch states the history really produces:
   (a) [csA] after [hX2] (no epoch running, d_min 1/4), cwnd 1792 > ssthresh 1280, W_last_max = 0: the ACK at t = 5/4 starts
       an epoch -- epoch_start 5/4, origin_point 1792, K = 0, cnt = 1792 / (0.4 * (1/4)^3) = 286720 > 0;
   (b) [csB] after [hX3] (epoch running since 5/4): the ACK at t = 3/2 gives t - K = 1/2, cnt = 1792 / (0.4 / 8) = 35840 > 0;
   (c) [csS] after [hX1], cwnd = ssthresh = 1280 (slow start): cubic_update is not called, cnt unchanged (None);
   (d) the new-ACK rule of TCPCubic in the sender states of (a) (no duplicates pending) and of (c) (dupack 3: the window
       ack_received() sees is the deflated one, 1280). *)
Theorem C17_ex_cubic_rules :
  let sA := fst (xafter hX2) in let csA := snd (xafter hX2) in
  let csB := snd (xafter hX3) in
  let sS := fst (xafter hX1) in let csS := snd (xafter hX1) in
  (~ ((1792 # 1) <= (1280 # 1))%Q /\ (c_epoch csA <= 0)%Q /\ ~ ((1792 # 1) < c_wlast csA)%Q /\ (0 < 1792 # 1)%Q /\
   exists cs' q, cubic_ack csA (1792 # 1) (1280 # 1) (1 # 4) (5 # 4) = CubOk cs' (Some q) /\
     (q == 286720 # 1)%Q /\ (0 < q)%Q /\ (c_epoch cs' == 5 # 4)%Q /\ (c_origin cs' == 1792 # 1)%Q /\ (c_k cs' == 0)%Q) /\
  (~ ((1792 # 1) <= (1280 # 1))%Q /\ (0 < c_epoch csB)%Q /\
   exists cs' q, cubic_ack csB (1792 # 1) (1280 # 1) (1 # 4) (3 # 2) = CubOk cs' (Some q) /\
     (q == 35840 # 1)%Q /\ (0 < q)%Q /\ (c_epoch cs' == 5 # 4)%Q) /\
  (((1280 # 1) <= (1280 # 1))%Q /\
   exists cs', cubic_ack csS (1280 # 1) (1280 # 1) (1 # 2) (1 # 1) = CubOk cs' None /\ (c_dmin cs' == 1 # 4)%Q) /\
  (calg cX = Cubic /\ ack_counts sA 3584 = true /\ 0 <= dupack sA /\ (ack_cwnd current sA 3584 == 1792 # 1)%Q /\
   (exists cs' q, cubic_ack csA (ack_cwnd current sA 3584) (ssthresh sA) (1 # 4) (5 # 4) = CubOk cs' (Some q) /\
                  (q == 286720 # 1)%Q) /\
   ack_counts sS 3072 = true /\ 0 <= dupack sS /\ dupack sS = 3 /\ (cwnd sS == 2816 # 1)%Q /\
   (ack_cwnd current sS 3072 == 1280 # 1)%Q /\
   (exists cs', cubic_ack csS (ack_cwnd current sS 3072) (ssthresh sS) (1 # 2) (1 # 1) = CubOk cs' None)).
Proof.
  cbv zeta. split; [|split; [|split]].
  - split; [apply Qlt_not_le; reflexivity|]. split; [vm_compute; discriminate|].
    split; [apply Qle_not_lt; vm_compute; discriminate|]. split; [reflexivity|].
    eexists. eexists. split; [vm_compute; reflexivity|]. repeat split; vm_compute; reflexivity.
  - split; [apply Qlt_not_le; reflexivity|]. split; [vm_compute; reflexivity|].
    eexists. eexists. split; [vm_compute; reflexivity|]. repeat split; vm_compute; reflexivity.
  - split; [apply Qle_refl|]. eexists. split; [vm_compute; reflexivity|]. vm_compute; reflexivity.
  - split; [reflexivity|]. split; [vm_compute; reflexivity|]. split; [vm_compute; discriminate|].
    split; [vm_compute; reflexivity|].
    split; [eexists; eexists; split; [vm_compute; reflexivity|vm_compute; reflexivity]|].
    split; [vm_compute; reflexivity|]. split; [vm_compute; discriminate|]. split; [vm_compute; reflexivity|].
    split; [vm_compute; reflexivity|]. split; [vm_compute; reflexivity|].
    eexists. vm_compute. reflexivity.
Qed.
Print Assumptions C17_ex_cubic_rules.

(* ------------------------------------------------------------------------------------------------ *)
(* The sender with an application process (Tcp/AppSenderExamples.v).
   Covers C17_app_send_guard, C17_app_window_respected, C17_app_buffer_respected, C17_app_other_events: one MSS of data
   per second, RTO 3/4 s, window 4 MSS, no ACKs.  Asleep until t = 1 ([sA 1]); the write at t = 1 resumes run(), segment 0
   goes out inside the window 2048 and inside the 512 buffered bytes; its timer expires at 7/4 (an event of Tcp/Sender.v:
   cwnd := 512) while run() sleeps for the next write; at t = 2 the write is taken (send_buffer 1024) but NOTHING is sent:
   next_seq + MSS = 1024 exceeds last_ack + cwnd = 512, the window in force at that resumption. *)
Theorem C17_ex_app_limited :
  0 < mss (ac_cfg acA) /\ (exists now, AAppWake 1 = AWake now \/ AAppWake 1 = AAppWake now) /\
  fetch_ok acA (sA 1) /\ (forall d, ap_sleep (aA 1) = Some (true, d) -> send_buffer (sA 1) <= next_seq (sA 1)) /\
  ap_sleep (aA 1) = Some (true, 1%Q) /\
  astep fxA 100 acA (sA 1) (aA 1) (AAppWake 1) = AOk (sA 2) (aA 2) [Tx 0 512; TStart 0 (6 # 8)] /\
  next_seq (sA 1) < next_seq (sA 2) /\ next_seq (sA 2) = 512 /\ send_buffer (sA 2) = 512 /\
  (zq (next_seq (sA 2) - last_ack (sA 1)) <= cwnd (sA 1))%Q /\ (cwnd (sA 1) == 2048 # 1)%Q /\
  (forall i z, In (Tx i z) [Tx 0 512; TStart 0 (6 # 8)] -> i + mss (ac_cfg acA) <= send_buffer (sA 2)) /\
  EExpire 0 <> EWake /\
  astep fxA 100 acA (sA 2) (aA 2) (AEv (EExpire 0)) =
    match step fxA (ac_cfg acA) (sA 2) (EExpire 0) with Ok s' o => AOk s' (aA 2) o | Raise x => ARaise x end /\
  (cwnd (sA 3) == 512 # 1)%Q /\ ap_sleep (aA 3) = Some (true, 2 # 1) /\
  astep fxA 100 acA (sA 3) (aA 3) (AAppWake (2 # 1)) = AOk (sA 4) (aA 4) [] /\
  next_seq (sA 4) = 512 /\ send_buffer (sA 4) = 1024 /\ waiting (sA 4) = true /\ last_ack (sA 4) = 0.
Proof.
  split; [reflexivity|]. split; [exists 1%Q; right; reflexivity|].
  split; [vm_compute; left; reflexivity|].
  split; [intros d _; vm_compute; discriminate|].
  split; [vm_compute; reflexivity|]. split; [vm_compute; reflexivity|].
  split; [vm_compute; reflexivity|]. split; [vm_compute; reflexivity|]. split; [vm_compute; reflexivity|].
  split; [vm_compute; discriminate|]. split; [vm_compute; reflexivity|].
  split; [intros i z [H|[H|[]]]; [injection H as <- _; vm_compute; discriminate|discriminate]|].
  split; [discriminate|]. split; [reflexivity|].
  split; [vm_compute; reflexivity|]. split; [vm_compute; reflexivity|]. split; [vm_compute; reflexivity|].
  repeat split; vm_compute; reflexivity.
Qed.
Print Assumptions C17_ex_app_limited.

(* Covers C17_app_partial_tail_waits, C17_app_partial_buffer_is_permanent: a bulk flow of 1280 bytes = 2.5 MSS.  The
   first resumption sends segments 0 and 512 and buffers the last 256 bytes ([sP]: next_seq 1024, send_buffer 1280);
   they are never sent: run() waits on its store, is not finished, and a later resumption (store token) changes nothing. *)
Definition sPw : sender := set_store sP O O false true.
Theorem C17_ex_app_partial_tail :
  txs (snd stP) = [(0, 512); (512, 512)] /\ next_seq sP = 1024 /\ send_buffer sP = 1280 /\
  waiting sP = true /\ finished sP = false /\
  match ac_finish acP with Some ft => (1 < ft)%Q | None => True end /\
  (fsize (ac_cfg acP) = 0 \/ next_seq sPw < fsize (ac_cfg acP)) /\
  next_seq sPw < send_buffer sPw < next_seq sPw + mss (ac_cfg acP) /\
  wake sPw = true /\ finished sPw = false /\ ap_sleep aP = None /\ ap_started aP = true /\
  arun 2 acP 1 MOuter sPw aP [] = AOk (set_store sPw O (pend sPw) true false) aP [] /\
  exists s', astep fxA 2 acP sPw aP (AWake 1) = AOk s' aP [] /\ next_seq s' = 1024 /\ send_buffer s' = 1280 /\ finished s' = false.
Proof.
  split; [vm_compute; reflexivity|]. split; [vm_compute; reflexivity|]. split; [vm_compute; reflexivity|].
  split; [vm_compute; reflexivity|]. split; [vm_compute; reflexivity|]. split; [exact I|].
  split; [right; vm_compute; reflexivity|]. split; [vm_compute; split; reflexivity|].
  split; [reflexivity|]. split; [vm_compute; reflexivity|]. split; [vm_compute; reflexivity|]. split; [vm_compute; reflexivity|].
  split; [vm_compute; reflexivity|].
  eexists. split; [vm_compute; reflexivity|]. repeat split.
Qed.
Print Assumptions C17_ex_app_partial_tail.

(* Application writes of 1024, 1536 and 2048 bytes, 1/4 s apart, window 16 MSS: nine segments 0, 512, ..., 4096, each of
   one MSS, numbered consecutively whatever the size of the write that made them available. *)
Theorem C17_ex_app_writes :
  txs (snd (stW 3)) = [(0, 512); (512, 512); (1024, 512); (1536, 512); (2048, 512); (2560, 512); (3072, 512); (3584, 512); (4096, 512)] /\
  starts (snd (stW 3)) = seg_ids 512 0 9 /\ next_seq (sW 3) = 4608 /\ send_buffer (sW 3) = 4608 /\
  send_buffer (sW 1) = 1024 /\ send_buffer (sW 2) = 2560.
Proof. repeat split; vm_compute; reflexivity. Qed.
Print Assumptions C17_ex_app_writes.

(* No application configured, on the Reno history of Tcp/SenderExamples.v: the plain configuration over [cS]
   (MSS 512, 4096 bytes) satisfies the hypotheses of C17_app_plain_is_on_wake; in [sWk] (after wake, ACK 512,
   hand-off) Sender.on_wake sends segments 1024 and 1536 and then waits on the store, and the application
   layer's run(), resumed in the same state, does exactly the same -- with fuel 12 and with fuel 5000. *)
Definition acS : acfg := mkacfg cS 0 None None None.
Theorem C17_ex_app_plain :
  ac_arr acS = None /\ ac_siz acS = None /\ ac_finish acS = None /\ Qeq_bool (ac_start acS) 0 = true /\
  0 < mss (ac_cfg acS) /\ ap_sleep app0 = None /\
  (exists s', on_wake (ac_cfg acS) sWk = Ok s' [Tx 1024 512; TStart 1024 (rto sWk); Tx 1536 512; TStart 1536 (rto sWk)] /\
     next_seq s' = 2048 /\ waiting s' = true /\
     astep fxA 12 acS sWk app0 (AWake 1) = AOk s' (mkapp 0 None true O O) [Tx 1024 512; TStart 1024 (rto sWk); Tx 1536 512; TStart 1536 (rto sWk)] /\
     astep fxA 5000 acS sWk app0 (AWake 1) = astep fxA 12 acS sWk app0 (AWake 1)).
Proof.
  split; [reflexivity|]. split; [reflexivity|]. split; [reflexivity|]. split; [reflexivity|].
  split; [reflexivity|]. split; [reflexivity|].
  eexists. split; [vm_compute; reflexivity|]. split; [reflexivity|]. split; [reflexivity|].
  split; vm_compute; reflexivity.
Qed.
Print Assumptions C17_ex_app_plain.
