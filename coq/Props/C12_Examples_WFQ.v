(* C12 -- NON-VACUITY of the theorems of Props/C12_WFQ.v (WFQ and VirtualClock).  Witness execution: Elem/WFQExamples.v
   (fx_acts, accepted by both models): a static backlog of four packets at 0 (two of them with EQUAL stamps), an arrival
   at 3 during a transmission, the scheduler empties at 8, an arrival at 9 into the idle scheduler; flows 1 and 5 share
   class 1.  Service order p1 p0 p2 p3 p5 p4.

   Coverage (theorem of Props/C12_WFQ.v -> witness), X = wfq / vc:
     C12_X_work_conserving (both branches), C12_X_tx_time, C12_X_flow_fifo,
     C12_X_exactly_once, C12_X_counters                                       -> C12_ex_X_execution
     C12_X_no_idle_backlog (arrival into the idle scheduler), C12_X_back_to_back -> C12_ex_X_trace_points
     C12_X_one_at_a_time (start / undisturbed by a put() / ended by its timeout) -> C12_ex_X_one_at_a_time
   Unconditional: none. *)
From Coq Require Import ZArith QArith List Bool Permutation.
From ONL Require Import Elem.Packet Elem.StoreQ Elem.WFQServer Elem.WFQServerProofs Elem.WFQServerTrace Elem.WFQ Elem.WFQProofs
  Elem.VC Elem.VCProofs Elem.WFQInst Elem.WFQExamples.
From ONL Require Import Props.C12_WFQ.
Import ListNotations.

(* the PriorityStore entry of p0: put at instant 0 with stamp 2 (under both disciplines) as arrival number 1 *)
Definition fx_e0 : entry := (0, {| istamp := 2; iseq := 1; ipkt := fx_p0 |}).

(* ================= WFQ ================= *)
(* State W = after 19 actions (instant 3): p0 is in transmission until 4; p2, p3 and p5 (just arrived) wait; p1 has left.
   The clock may move.  Final state (45 actions, instant 10): drained. *)
Theorem C12_ex_wfq_execution :
  (* hypotheses *)
  wcfg_ok wfx_cfg /\ wadm wfx_cfg fx_acts /\
  wfq_run wfx_cfg (wfq0 wfx_cfg) fx_acts = Some (wfx_state 45, wfx_trace 45) /\
  NoDup (map uid (puts (WS wfx_cfg) (wfx_trace 45))) /\
  wreach wfx_cfg (wfx_state 45) /\ urgent (wfx_state 45) = false /\ (forall e dl, chl (wfx_state 45) <> CTx e dl) /\
  wadm wfx_cfg (firstn 19 fx_acts) /\
  wfq_run wfx_cfg (wfq0 wfx_cfg) (firstn 19 fx_acts) = Some (wfx_state 19, wfx_trace 19) /\
  wreach wfx_cfg (wfx_state 19) /\ urgent (wfx_state 19) = false /\
  (* the execution *)
  now (wfx_state 19) = 3 /\
  puts (WS wfx_cfg) (wfx_trace 19) = [fx_p0; fx_p1; fx_p2; fx_p3; fx_p5] /\ fwds (WS wfx_cfg) (wfx_trace 19) = [fx_p1] /\
  held (WS wfx_cfg) (wfx_state 19) = [fx_p0; fx_p2; fx_p3; fx_p5] /\
  fwds (WS wfx_cfg) (wfx_trace 45) = [fx_p1; fx_p0; fx_p2; fx_p3; fx_p5; fx_p4] /\
  (* conclusions at W *)
  (exists e dl, chl (wfx_state 19) = CTx e dl /\ now (wfx_state 19) < dl /\ e = fx_e0 /\ dl = 4) /\
  only 0 (fwds (WS wfx_cfg) (wfx_trace 19)) ++ only 0 (held (WS wfx_cfg) (wfx_state 19)) = only 0 (puts (WS wfx_cfg) (wfx_trace 19)) /\
  only 0 (puts (WS wfx_cfg) (wfx_trace 19)) = [fx_p0; fx_p3; fx_p5] /\
  (qcount (wfx_state 19) 0 = 3 /\ qbytes (wfx_state 19) 0 = 512 /\ qcount (wfx_state 19) 1 = 0 /\ qcount (wfx_state 19) 5 = 1 /\
   nrecv (wfx_state 19) = 5)%Z /\
  (forall f, qcount (wfx_state 19) f = cnt f (held (WS wfx_cfg) (wfx_state 19)) /\ qbytes (wfx_state 19) f = byt f (held (WS wfx_cfg) (wfx_state 19))) /\
  (* conclusions on the whole execution *)
  held (WS wfx_cfg) (wfx_state 45) = [] /\
  tx_ok (WS wfx_cfg) (wrate wfx_cfg) None (wfx_trace 45) /\
  NoDup (map uid (fwds (WS wfx_cfg) (wfx_trace 45))) /\
  Permutation (puts (WS wfx_cfg) (wfx_trace 45)) (fwds (WS wfx_cfg) (wfx_trace 45)).
Proof.
  assert (HF : wfq_run wfx_cfg (wfq0 wfx_cfg) fx_acts = Some (wfx_state 45, wfx_trace 45)) by (apply (wfx_run_ok 45); vm_compute; reflexivity).
  assert (ND : NoDup (map uid (puts (WS wfx_cfg) (wfx_trace 45)))).
  { vm_compute. repeat constructor; cbn; intuition discriminate. }
  assert (UF : urgent (wfx_state 45) = false) by (vm_compute; reflexivity).
  assert (CF : forall e dl, chl (wfx_state 45) <> CTx e dl) by (intros e dl H; vm_compute in H; discriminate H).
  assert (HW : wfq_run wfx_cfg (wfq0 wfx_cfg) (firstn 19 fx_acts) = Some (wfx_state 19, wfx_trace 19)) by (apply (wfx_run_ok 19); vm_compute; reflexivity).
  assert (UW : urgent (wfx_state 19) = false) by (vm_compute; reflexivity).
  split; [exact wfx_cfg_ok|]. split; [exact (wfx_adm 45)|]. split; [exact HF|]. split; [exact ND|]. split; [exact (wfx_reach 45)|].
  split; [exact UF|]. split; [exact CF|]. split; [exact (wfx_adm 19)|]. split; [exact HW|]. split; [exact (wfx_reach 19)|].
  split; [exact UW|].
  split; [vm_compute; reflexivity|]. split; [vm_compute; reflexivity|]. split; [vm_compute; reflexivity|].
  split; [vm_compute; reflexivity|]. split; [vm_compute; reflexivity|].
  split.
  { destruct (C12_wfq_work_conserving _ wfx_cfg_ok _ (wfx_reach 19) UW) as [(e & dl & A & B)|N].
    - exists e, dl. split; [exact A|]. split; [exact B|]. vm_compute in A. injection A as <- <-. split; reflexivity.
    - exfalso. vm_compute in N. discriminate N. }
  split; [exact (C12_wfq_flow_fifo _ wfx_cfg_ok _ _ _ 0%Z (wfx_adm 19) HW)|].
  split; [vm_compute; reflexivity|].
  split; [repeat split; vm_compute; reflexivity|].
  split; [exact (proj1 (C12_wfq_counters _ _ (wfx_reach 19)))|].
  split.
  { destruct (C12_wfq_work_conserving _ wfx_cfg_ok _ (wfx_reach 45) UF) as [(e & dl & A & _)|N]; [|exact N].
    exfalso. exact (CF _ _ A). }
  split; [exact (C12_wfq_tx_time _ wfx_cfg_ok _ _ _ (wfx_adm 45) HF)|].
  destruct (C12_wfq_exactly_once _ wfx_cfg_ok _ _ _ (wfx_adm 45) HF ND) as (A & _ & C).
  split; [exact A|exact (C UF CF)].
Qed.
Print Assumptions C12_ex_wfq_execution.

(* two points of the trace: entry 12 is the timeout that ends the transmission of p1 at instant 2 with p0, p2, p3 held:
   the next transmission starts at 2; entry 38 is the put() of p4 at 9 into the idle scheduler: its transmission starts at 9 *)
Theorem C12_ex_wfq_trace_points :
  wcfg_ok wfx_cfg /\ wadm wfx_cfg fx_acts /\
  wfq_run wfx_cfg (wfq0 wfx_cfg) fx_acts = Some (wfx_state 45, wfx_trace 45) /\
  (* C12_wfq_back_to_back *)
  wfx_trace 45 = firstn 12 (wfx_trace 45) ++ (FChildTimer, [OForward fx_p1], wfx_state 13) :: skipn 13 (wfx_trace 45) /\
  held (WS wfx_cfg) (wfx_state 13) <> [] /\
  (* C12_wfq_no_idle_backlog *)
  wfx_trace 45 = firstn 38 (wfx_trace 45) ++ (FPut fx_p4, [], wfx_state 39) :: skipn 39 (wfx_trace 45) /\
  held (WS wfx_cfg) (wfx_state 39) <> [] /\ (forall e dl, chl (wfx_state 39) <> CTx e dl) /\
  (* conclusions *)
  held (WS wfx_cfg) (wfx_state 13) = [fx_p0; fx_p2; fx_p3] /\ now (wfx_state 13) = 2 /\
  starts_at (WS wfx_cfg) (now (wfx_state 13)) (skipn 13 (wfx_trace 45)) /\
  held (WS wfx_cfg) (wfx_state 39) = [fx_p4] /\ now (wfx_state 39) = 9 /\
  starts_at (WS wfx_cfg) (now (wfx_state 39)) (skipn 39 (wfx_trace 45)).
Proof.
  assert (HF : wfq_run wfx_cfg (wfq0 wfx_cfg) fx_acts = Some (wfx_state 45, wfx_trace 45)) by (apply (wfx_run_ok 45); vm_compute; reflexivity).
  assert (E12 : wfx_trace 45 = firstn 12 (wfx_trace 45) ++ (FChildTimer, [OForward fx_p1], wfx_state 13) :: skipn 13 (wfx_trace 45)).
  { apply split_nth. vm_compute. reflexivity. }
  assert (B13 : held (WS wfx_cfg) (wfx_state 13) <> []) by (vm_compute; discriminate).
  assert (E38 : wfx_trace 45 = firstn 38 (wfx_trace 45) ++ (FPut fx_p4, [], wfx_state 39) :: skipn 39 (wfx_trace 45)).
  { apply split_nth. vm_compute. reflexivity. }
  assert (B39 : held (WS wfx_cfg) (wfx_state 39) <> []) by (vm_compute; discriminate).
  assert (C39 : forall e dl, chl (wfx_state 39) <> CTx e dl) by (intros e dl H; vm_compute in H; discriminate H).
  split; [exact wfx_cfg_ok|]. split; [exact (wfx_adm 45)|]. split; [exact HF|]. split; [exact E12|]. split; [exact B13|].
  split; [exact E38|]. split; [exact B39|]. split; [exact C39|].
  split; [vm_compute; reflexivity|]. split; [vm_compute; reflexivity|].
  split; [exact (C12_wfq_back_to_back _ wfx_cfg_ok _ _ _ (wfx_adm 45) HF _ _ _ _ E12 B13)|].
  split; [vm_compute; reflexivity|]. split; [vm_compute; reflexivity|].
  exact (C12_wfq_no_idle_backlog _ wfx_cfg_ok _ _ _ (wfx_adm 45) HF _ _ _ _ _ E38 B39 C39).
Qed.
Print Assumptions C12_ex_wfq_trace_points.

(* three steps from reachable states: the start of the transmission of p0 (state after 15 actions), the put() of p5 during it
   (state after 17 actions), the timeout that ends it (state after 20 actions) *)
Theorem C12_ex_wfq_one_at_a_time :
  wcfg_ok wfx_cfg /\
  wreach wfx_cfg (wfx_state 15) /\ wfq_act wfx_cfg (wfx_state 15) FChildInit = Ok (wfx_state 16, []) /\
  wreach wfx_cfg (wfx_state 17) /\ wfq_act wfx_cfg (wfx_state 17) (FPut fx_p5) = Ok (wfx_state 18, []) /\
  chl (wfx_state 17) = CTx fx_e0 4 /\
  wreach wfx_cfg (wfx_state 20) /\ wfq_act wfx_cfg (wfx_state 20) FChildTimer = Ok (wfx_state 21, [OForward fx_p0]) /\
  chl (wfx_state 20) = CTx fx_e0 4 /\
  (* conclusions *)
  (current_packet (wfx_state 15) = None /\ chl (wfx_state 15) = CInit fx_e0 /\
   chl (wfx_state 16) = CTx fx_e0 (Qred (now (wfx_state 15) + tx_time (wrate wfx_cfg) (epkt fx_e0))) /\
   current_packet (wfx_state 16) = Some fx_p0 /\ tx_time (wrate wfx_cfg) fx_p0 == 2) /\
  (chl (wfx_state 18) = CTx fx_e0 4 /\ now (wfx_state 18) <= 4) /\
  (4 == now (wfx_state 20) /\ chl (wfx_state 21) = CEnded fx_e0 /\ current_packet (wfx_state 21) = None).
Proof.
  assert (A15 : wfq_act wfx_cfg (wfx_state 15) FChildInit = Ok (wfx_state 16, [])) by (vm_compute; reflexivity).
  assert (A17 : wfq_act wfx_cfg (wfx_state 17) (FPut fx_p5) = Ok (wfx_state 18, [])) by (vm_compute; reflexivity).
  assert (C17 : chl (wfx_state 17) = CTx fx_e0 4) by (vm_compute; reflexivity).
  assert (A20 : wfq_act wfx_cfg (wfx_state 20) FChildTimer = Ok (wfx_state 21, [OForward fx_p0])) by (vm_compute; reflexivity).
  assert (C20 : chl (wfx_state 20) = CTx fx_e0 4) by (vm_compute; reflexivity).
  split; [exact wfx_cfg_ok|]. split; [exact (wfx_reach 15)|]. split; [exact A15|]. split; [exact (wfx_reach 17)|]. split; [exact A17|].
  split; [exact C17|]. split; [exact (wfx_reach 20)|]. split; [exact A20|]. split; [exact C20|].
  split.
  { destruct (C12_wfq_one_at_a_time _ wfx_cfg_ok _ _ _ _ (wfx_reach 15) A15) as (S1 & _ & _).
    destruct (S1 eq_refl) as (N & e & E1 & E2 & E3).
    assert (Ee : e = fx_e0) by (vm_compute in E1; injection E1 as <-; reflexivity). subst e.
    split; [exact N|]. split; [exact E1|]. split; [exact E2|]. split; [exact E3|]. vm_compute; reflexivity. }
  split.
  { destruct (C12_wfq_one_at_a_time _ wfx_cfg_ok _ _ _ _ (wfx_reach 17) A17) as (_ & S2 & _).
    destruct (S2 _ _ C17) as [(E & _)|(_ & K & _ & L)]; [discriminate E|]. split; [exact K|exact L]. }
  destruct (C12_wfq_one_at_a_time _ wfx_cfg_ok _ _ _ _ (wfx_reach 20) A20) as (_ & S2 & _).
  destruct (S2 _ _ C20) as [(_ & _ & D & K & L)|(N & _)]; [|exfalso; apply N; reflexivity].
  split; [exact D|]. split; [exact K|exact L].
Qed.
Print Assumptions C12_ex_wfq_one_at_a_time.

(* ================= VirtualClock ================= *)
(* State W = after 19 actions (instant 3): p0 is in transmission until 4; p2, p3 and p5 (just arrived) wait; p1 has left.
   The clock may move.  Final state (45 actions, instant 10): drained. *)
Theorem C12_ex_vc_execution :
  (* hypotheses *)
  vcfg_ok vcx_cfg /\ vadm vcx_cfg fx_acts /\
  vc_run vcx_cfg (vc0 vcx_cfg) fx_acts = Some (vcx_state 45, vcx_trace 45) /\
  NoDup (map uid (puts (VS vcx_cfg) (vcx_trace 45))) /\
  vreach vcx_cfg (vcx_state 45) /\ urgent (vcx_state 45) = false /\ (forall e dl, chl (vcx_state 45) <> CTx e dl) /\
  vadm vcx_cfg (firstn 19 fx_acts) /\
  vc_run vcx_cfg (vc0 vcx_cfg) (firstn 19 fx_acts) = Some (vcx_state 19, vcx_trace 19) /\
  vreach vcx_cfg (vcx_state 19) /\ urgent (vcx_state 19) = false /\
  (* the execution *)
  now (vcx_state 19) = 3 /\
  puts (VS vcx_cfg) (vcx_trace 19) = [fx_p0; fx_p1; fx_p2; fx_p3; fx_p5] /\ fwds (VS vcx_cfg) (vcx_trace 19) = [fx_p1] /\
  held (VS vcx_cfg) (vcx_state 19) = [fx_p0; fx_p2; fx_p3; fx_p5] /\
  fwds (VS vcx_cfg) (vcx_trace 45) = [fx_p1; fx_p0; fx_p2; fx_p3; fx_p5; fx_p4] /\
  (* conclusions at W *)
  (exists e dl, chl (vcx_state 19) = CTx e dl /\ now (vcx_state 19) < dl /\ e = fx_e0 /\ dl = 4) /\
  only 0 (fwds (VS vcx_cfg) (vcx_trace 19)) ++ only 0 (held (VS vcx_cfg) (vcx_state 19)) = only 0 (puts (VS vcx_cfg) (vcx_trace 19)) /\
  only 0 (puts (VS vcx_cfg) (vcx_trace 19)) = [fx_p0; fx_p3; fx_p5] /\
  (qcount (vcx_state 19) 0 = 3 /\ qbytes (vcx_state 19) 0 = 512 /\ qcount (vcx_state 19) 1 = 0 /\ qcount (vcx_state 19) 5 = 1 /\
   nrecv (vcx_state 19) = 5)%Z /\
  (forall f, qcount (vcx_state 19) f = cnt f (held (VS vcx_cfg) (vcx_state 19)) /\ qbytes (vcx_state 19) f = byt f (held (VS vcx_cfg) (vcx_state 19))) /\
  (* conclusions on the whole execution *)
  held (VS vcx_cfg) (vcx_state 45) = [] /\
  tx_ok (VS vcx_cfg) (vrate vcx_cfg) None (vcx_trace 45) /\
  NoDup (map uid (fwds (VS vcx_cfg) (vcx_trace 45))) /\
  Permutation (puts (VS vcx_cfg) (vcx_trace 45)) (fwds (VS vcx_cfg) (vcx_trace 45)).
Proof.
  assert (HF : vc_run vcx_cfg (vc0 vcx_cfg) fx_acts = Some (vcx_state 45, vcx_trace 45)) by (apply (vcx_run_ok 45); vm_compute; reflexivity).
  assert (ND : NoDup (map uid (puts (VS vcx_cfg) (vcx_trace 45)))).
  { vm_compute. repeat constructor; cbn; intuition discriminate. }
  assert (UF : urgent (vcx_state 45) = false) by (vm_compute; reflexivity).
  assert (CF : forall e dl, chl (vcx_state 45) <> CTx e dl) by (intros e dl H; vm_compute in H; discriminate H).
  assert (HW : vc_run vcx_cfg (vc0 vcx_cfg) (firstn 19 fx_acts) = Some (vcx_state 19, vcx_trace 19)) by (apply (vcx_run_ok 19); vm_compute; reflexivity).
  assert (UW : urgent (vcx_state 19) = false) by (vm_compute; reflexivity).
  split; [exact vcx_cfg_ok|]. split; [exact (vcx_adm 45)|]. split; [exact HF|]. split; [exact ND|]. split; [exact (vcx_reach 45)|].
  split; [exact UF|]. split; [exact CF|]. split; [exact (vcx_adm 19)|]. split; [exact HW|]. split; [exact (vcx_reach 19)|].
  split; [exact UW|].
  split; [vm_compute; reflexivity|]. split; [vm_compute; reflexivity|]. split; [vm_compute; reflexivity|].
  split; [vm_compute; reflexivity|]. split; [vm_compute; reflexivity|].
  split.
  { destruct (C12_vc_work_conserving _ vcx_cfg_ok _ (vcx_reach 19) UW) as [(e & dl & A & B)|N].
    - exists e, dl. split; [exact A|]. split; [exact B|]. vm_compute in A. injection A as <- <-. split; reflexivity.
    - exfalso. vm_compute in N. discriminate N. }
  split; [exact (C12_vc_flow_fifo _ vcx_cfg_ok _ _ _ 0%Z (vcx_adm 19) HW)|].
  split; [vm_compute; reflexivity|].
  split; [repeat split; vm_compute; reflexivity|].
  split; [exact (proj1 (C12_vc_counters _ _ (vcx_reach 19)))|].
  split.
  { destruct (C12_vc_work_conserving _ vcx_cfg_ok _ (vcx_reach 45) UF) as [(e & dl & A & _)|N]; [|exact N].
    exfalso. exact (CF _ _ A). }
  split; [exact (C12_vc_tx_time _ vcx_cfg_ok _ _ _ (vcx_adm 45) HF)|].
  destruct (C12_vc_exactly_once _ vcx_cfg_ok _ _ _ (vcx_adm 45) HF ND) as (A & _ & C).
  split; [exact A|exact (C UF CF)].
Qed.
Print Assumptions C12_ex_vc_execution.

(* two points of the trace: entry 12 is the timeout that ends the transmission of p1 at instant 2 with p0, p2, p3 held:
   the next transmission starts at 2; entry 38 is the put() of p4 at 9 into the idle scheduler: its transmission starts at 9 *)
Theorem C12_ex_vc_trace_points :
  vcfg_ok vcx_cfg /\ vadm vcx_cfg fx_acts /\
  vc_run vcx_cfg (vc0 vcx_cfg) fx_acts = Some (vcx_state 45, vcx_trace 45) /\
  (* C12_vc_back_to_back *)
  vcx_trace 45 = firstn 12 (vcx_trace 45) ++ (FChildTimer, [OForward fx_p1], vcx_state 13) :: skipn 13 (vcx_trace 45) /\
  held (VS vcx_cfg) (vcx_state 13) <> [] /\
  (* C12_vc_no_idle_backlog *)
  vcx_trace 45 = firstn 38 (vcx_trace 45) ++ (FPut fx_p4, [], vcx_state 39) :: skipn 39 (vcx_trace 45) /\
  held (VS vcx_cfg) (vcx_state 39) <> [] /\ (forall e dl, chl (vcx_state 39) <> CTx e dl) /\
  (* conclusions *)
  held (VS vcx_cfg) (vcx_state 13) = [fx_p0; fx_p2; fx_p3] /\ now (vcx_state 13) = 2 /\
  starts_at (VS vcx_cfg) (now (vcx_state 13)) (skipn 13 (vcx_trace 45)) /\
  held (VS vcx_cfg) (vcx_state 39) = [fx_p4] /\ now (vcx_state 39) = 9 /\
  starts_at (VS vcx_cfg) (now (vcx_state 39)) (skipn 39 (vcx_trace 45)).
Proof.
  assert (HF : vc_run vcx_cfg (vc0 vcx_cfg) fx_acts = Some (vcx_state 45, vcx_trace 45)) by (apply (vcx_run_ok 45); vm_compute; reflexivity).
  assert (E12 : vcx_trace 45 = firstn 12 (vcx_trace 45) ++ (FChildTimer, [OForward fx_p1], vcx_state 13) :: skipn 13 (vcx_trace 45)).
  { apply split_nth. vm_compute. reflexivity. }
  assert (B13 : held (VS vcx_cfg) (vcx_state 13) <> []) by (vm_compute; discriminate).
  assert (E38 : vcx_trace 45 = firstn 38 (vcx_trace 45) ++ (FPut fx_p4, [], vcx_state 39) :: skipn 39 (vcx_trace 45)).
  { apply split_nth. vm_compute. reflexivity. }
  assert (B39 : held (VS vcx_cfg) (vcx_state 39) <> []) by (vm_compute; discriminate).
  assert (C39 : forall e dl, chl (vcx_state 39) <> CTx e dl) by (intros e dl H; vm_compute in H; discriminate H).
  split; [exact vcx_cfg_ok|]. split; [exact (vcx_adm 45)|]. split; [exact HF|]. split; [exact E12|]. split; [exact B13|].
  split; [exact E38|]. split; [exact B39|]. split; [exact C39|].
  split; [vm_compute; reflexivity|]. split; [vm_compute; reflexivity|].
  split; [exact (C12_vc_back_to_back _ vcx_cfg_ok _ _ _ (vcx_adm 45) HF _ _ _ _ E12 B13)|].
  split; [vm_compute; reflexivity|]. split; [vm_compute; reflexivity|].
  exact (C12_vc_no_idle_backlog _ vcx_cfg_ok _ _ _ (vcx_adm 45) HF _ _ _ _ _ E38 B39 C39).
Qed.
Print Assumptions C12_ex_vc_trace_points.

(* three steps from reachable states: the start of the transmission of p0 (state after 15 actions), the put() of p5 during it
   (state after 17 actions), the timeout that ends it (state after 20 actions) *)
Theorem C12_ex_vc_one_at_a_time :
  vcfg_ok vcx_cfg /\
  vreach vcx_cfg (vcx_state 15) /\ vc_act vcx_cfg (vcx_state 15) FChildInit = Ok (vcx_state 16, []) /\
  vreach vcx_cfg (vcx_state 17) /\ vc_act vcx_cfg (vcx_state 17) (FPut fx_p5) = Ok (vcx_state 18, []) /\
  chl (vcx_state 17) = CTx fx_e0 4 /\
  vreach vcx_cfg (vcx_state 20) /\ vc_act vcx_cfg (vcx_state 20) FChildTimer = Ok (vcx_state 21, [OForward fx_p0]) /\
  chl (vcx_state 20) = CTx fx_e0 4 /\
  (* conclusions *)
  (current_packet (vcx_state 15) = None /\ chl (vcx_state 15) = CInit fx_e0 /\
   chl (vcx_state 16) = CTx fx_e0 (Qred (now (vcx_state 15) + tx_time (vrate vcx_cfg) (epkt fx_e0))) /\
   current_packet (vcx_state 16) = Some fx_p0 /\ tx_time (vrate vcx_cfg) fx_p0 == 2) /\
  (chl (vcx_state 18) = CTx fx_e0 4 /\ now (vcx_state 18) <= 4) /\
  (4 == now (vcx_state 20) /\ chl (vcx_state 21) = CEnded fx_e0 /\ current_packet (vcx_state 21) = None).
Proof.
  assert (A15 : vc_act vcx_cfg (vcx_state 15) FChildInit = Ok (vcx_state 16, [])) by (vm_compute; reflexivity).
  assert (A17 : vc_act vcx_cfg (vcx_state 17) (FPut fx_p5) = Ok (vcx_state 18, [])) by (vm_compute; reflexivity).
  assert (C17 : chl (vcx_state 17) = CTx fx_e0 4) by (vm_compute; reflexivity).
  assert (A20 : vc_act vcx_cfg (vcx_state 20) FChildTimer = Ok (vcx_state 21, [OForward fx_p0])) by (vm_compute; reflexivity).
  assert (C20 : chl (vcx_state 20) = CTx fx_e0 4) by (vm_compute; reflexivity).
  split; [exact vcx_cfg_ok|]. split; [exact (vcx_reach 15)|]. split; [exact A15|]. split; [exact (vcx_reach 17)|]. split; [exact A17|].
  split; [exact C17|]. split; [exact (vcx_reach 20)|]. split; [exact A20|]. split; [exact C20|].
  split.
  { destruct (C12_vc_one_at_a_time _ vcx_cfg_ok _ _ _ _ (vcx_reach 15) A15) as (S1 & _ & _).
    destruct (S1 eq_refl) as (N & e & E1 & E2 & E3).
    assert (Ee : e = fx_e0) by (vm_compute in E1; injection E1 as <-; reflexivity). subst e.
    split; [exact N|]. split; [exact E1|]. split; [exact E2|]. split; [exact E3|]. vm_compute; reflexivity. }
  split.
  { destruct (C12_vc_one_at_a_time _ vcx_cfg_ok _ _ _ _ (vcx_reach 17) A17) as (_ & S2 & _).
    destruct (S2 _ _ C17) as [(E & _)|(_ & K & _ & L)]; [discriminate E|]. split; [exact K|exact L]. }
  destruct (C12_vc_one_at_a_time _ vcx_cfg_ok _ _ _ _ (vcx_reach 20) A20) as (_ & S2 & _).
  destruct (S2 _ _ C20) as [(_ & _ & D & K & L)|(N & _)]; [|exfalso; apply N; reflexivity].
  split; [exact D|]. split; [exact K|exact L].
Qed.
Print Assumptions C12_ex_vc_one_at_a_time.
