(* C13 -- static priority always serves the highest-priority backlogged flow.
   Only statements, closed by the lemma that proves them, and their assumptions.
   Model: Elem/SchedBase.v + Elem/SP.v (the repaired onl/scheduler/sp.py); sp_run r cm fl tbl acts = Some (s, tr) says that
   acts is an admissible execution (any interleaving of put() calls and kernel steps) from the initial state. *)
From Coq Require Import ZArith QArith List.
From ONL Require Import Elem.Packet Elem.StoreQ Elem.SchedBase Elem.SchedBaseProofs Elem.SP Elem.SPProofs.
Import ListNotations.

(* Whenever run() takes a packet out of the queue of class f (the scheduler commits to it: OVisit f true), every class g
   with a strictly larger priority value holds nothing -- neither in its store nor in a granted get -- and the clock
   does not move in this action.  For all rates > 0, all class maps, all priority tables, all executions. *)
Theorem C13_sp_strict : forall r cm fl tbl acts s tr a s' o f g,
  0 < r -> NoDup (map fst tbl) ->
  sp_run r cm fl tbl acts = Some (s, tr) -> sp_act r cm fl tbl s a = Some (s', o) ->
  In (OVisit f true) o -> higher tbl f g ->
  sq_held (mstores s' g) = [] /\ items (mstores s g) = [] /\ (exists rem, mpc s' = PGet f rem) /\ mnow s' = mnow s.
Proof. exact sp_strict_run. Qed.
Print Assumptions C13_sp_strict.

(* When the transmission timer of the committed packet p starts (two kernel steps later), every packet a flow of
   higher priority holds was put at this very instant, i.e. after the commit: nothing that waited before is overtaken. *)
Theorem C13_sp_strict_at_start : forall r cm fl tbl acts s tr s' o p g,
  0 < r -> NoDup (map fst tbl) ->
  sp_run r cm fl tbl acts = Some (s, tr) -> sp_act r cm fl tbl s SChildInit = Some (s', o) ->
  In (OStart p) o -> higher tbl (cm (flow p)) g -> Forall (fun x => fst x = mnow s) (sq_held (mstores s g)).
Proof. exact sp_strict_at_start_run. Qed.
Print Assumptions C13_sp_strict_at_start.

(* Between the commit and the start of the timer the clock cannot move. *)
Theorem C13_sp_commit_same_instant : forall r cm fl tbl acts s tr f t,
  0 < r -> sp_run r cm fl tbl acts = Some (s, tr) -> committed (sp_cfg true r cm fl tbl) s f -> sp_act r cm fl tbl s (SAdvance t) = None.
Proof. exact sp_commit_same_instant_run. Qed.
Print Assumptions C13_sp_commit_same_instant.

(* Non-preemptive: along every execution transmissions start only when none is in progress, each ends exactly
   8*size/rate after its start with the forwarding of the very packet started, and no other action ends it. *)
Theorem C13_sp_non_preemptive : forall r cm fl tbl acts s tr,
  0 < r -> sp_run r cm fl tbl acts = Some (s, tr) -> tx_wf (sp_cfg true r cm fl tbl) None tr.
Proof. exact sp_non_preemptive. Qed.
Print Assumptions C13_sp_non_preemptive.

(* The run() loop of the pinned commit (one packet per class per pass, no rescan) violates strictness. *)
Theorem C13_sp_strict_refuted_before_fix :
  exists r cm fl tbl acts s tr a s' o f g,
    0 < r /\ NoDup (map fst tbl) /\ (forall f p, In (f, p) tbl -> (0 < p)%Z) /\
    sp_run_unfixed r cm fl tbl acts = Some (s, tr) /\ mq_act (sp_cfg false r cm fl tbl) s a = Some (s', o) /\
    In (OVisit f true) o /\ higher tbl f g /\ items (mstores s g) <> [].
Proof. exact sp_strict_refuted_unfixed. Qed.
Print Assumptions C13_sp_strict_refuted_before_fix.
