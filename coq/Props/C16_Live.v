(* C16 -- reliable delivery, the liveness half: over any path that delays (constant one-way delay d >= 0)
   and drops finitely many data and ACK packets (two finite lists of dropped transmission indices), a
   TCPPacketGenerator keeps (re)transmitting until the sink holds every full MSS segment of the flow
   contiguously and the sender's acknowledged mark reaches the end of the data.
   Only statements, closed by the lemma that proves them, and their assumptions.
   Model: Tcp/Loop.v (the repaired sender, the sink, two Wires with the Store hand-offs, droppers, Timers
   as agenda entries, one Packet object per segment so that a retransmission restamps a copy still inside
   the wire).  Proofs: Tcp/LoopLive2.v (work is bounded by expiries), LoopLive2T.v (one agenda step,
   exactly; timing invariant of the wires), LoopLive2P.v (delivery deadlines of everything in flight),
   LoopLive2Q.v (the potential: every expiry lowers it), LoopLive2U.v (one kernel event per timer, the
   segment at last_ack is in flight), LoopLive2F.v (the bound and the conclusion). *)
From Coq Require Import ZArith QArith Qround List.
From ONL Require Import Tcp.Sink Tcp.SinkProofs Tcp.Sender Tcp.SenderProofs Tcp.Loop Tcp.LoopProofs Tcp.LoopLive
  Tcp.LoopLive2 Tcp.LoopLive2F.
Import ListNotations.
Open Scope Z_scope.

(* The explicit bounds.  nphase = size + number of listed drop indices + 1 (epochs: one per new ACK and
   per consumed drop index);  rho = rtt0 * (7/8)^size (lower bound of the RTO);  kappa = ceil(d / rho);
   Bexp = nphase * (3 size + 3 + 2 log2up(A1 + A2 + 1)) bounds the number of timer expiries;
   Gnew = 20 (size+1) + 11 and Cexp = 20 (size+1) + 10 are the prices of a new segment and of an expiry. *)
Theorem C16_live_bound_unfolded : forall lc rtt0,
  Bexp lc rtt0 = nphase lc * (3 * fsize (lc_cfg lc) + 3 + 2 * Z.log2_up (A1 lc rtt0 + A2 lc rtt0 + 1)) /\
  nphase lc = fsize (lc_cfg lc) + Z.of_nat (length (lc_drop_data lc)) + Z.of_nat (length (lc_drop_ack lc)) + 1 /\
  A1 lc rtt0 = (6 + Gnew lc * fsize (lc_cfg lc) + Cexp lc + Cexp lc * nphase lc * (3 * fsize (lc_cfg lc) + 3)) * kappa lc rtt0 /\
  A2 lc rtt0 = Cexp lc * nphase lc * kappa lc rtt0 /\
  kappa lc rtt0 = Qceiling (lc_delay lc / (rtt0 * geo (Z.to_nat (fsize (lc_cfg lc))))) /\
  Gnew lc = 20 * (fsize (lc_cfg lc) + 1) + 11 /\ Cexp lc = 20 * (fsize (lc_cfg lc) + 1) + 10.
Proof. intros. repeat split. Qed.
Print Assumptions C16_live_bound_unfolded.

(* RELIABLE DELIVERY.  Every flow of whole segments (size a positive multiple of MSS), MSS > 0, delay
   d >= 0, initial RTT estimate > 0, initial window >= MSS, any two finite drop lists, Reno or CUBIC with
   any oracle: with more than 3 + Gnew*size + Cexp*Bexp steps of fuel the runner never runs out of fuel
   and never raises; it ends with an empty agenda, last_ack = size, and the sink holding exactly
   [0, size) -- unless env.run(until=t_max) stops it first. *)
Theorem C16_reliable_delivery : forall lc cw ss rtt0 orc fuel,
  lc_ok2 lc -> (zq (mss (lc_cfg lc)) <= cw)%Q -> (0 < rtt0)%Q -> fsize (lc_cfg lc) <> 0 ->
  3 + Gnew lc * fsize (lc_cfg lc) + Cexp lc * Bexp lc rtt0 < Z.of_nat fuel ->
  match lrun fuel lc (linit cw ss rtt0 orc) with
  | LQuiescent st => last_ack (l_snd st) = fsize (lc_cfg lc) /\ nse (l_sink st) = fsize (lc_cfg lc) /\
                     sink_prefix (l_sink st) (fsize (lc_cfg lc))
  | LStopped st => exists a rest, l_agenda st = a :: rest /\ (lc_tmax lc <= ae_time a)%Q
  | LFuel _ | LRaised _ _ => False
  end.
Proof. exact loop_reliable_delivery. Qed.
Print Assumptions C16_reliable_delivery.

(* in every reachable state: the number of timer expiries (timeout_callback calls) so far *)
Theorem C16_expiries_bounded : forall lc cw ss rtt0 orc st,
  lc_ok2 lc -> (zq (mss (lc_cfg lc)) <= cw)%Q -> (0 < rtt0)%Q -> fsize (lc_cfg lc) <> 0 ->
  lreach lc (linit cw ss rtt0 orc) st -> Z.of_nat (nexp st) <= Bexp lc rtt0.
Proof. exact loop_expiries_bounded_explicit. Qed.
Print Assumptions C16_expiries_bounded.

(* only timer expiries keep the loop busy: new data, fast retransmissions (paid by the duplicate ACK
   that triggers them), duplicate ACKs and hand-offs are finite work *)
Theorem C16_work_bounded_by_expiries : forall lc cw ss rtt0 orc k st,
  lc_ok2 lc -> (zq (mss (lc_cfg lc)) <= cw)%Q -> (0 < rtt0)%Q -> fsize (lc_cfg lc) <> 0 ->
  lsteps lc k (linit cw ss rtt0 orc) st ->
  Z.of_nat k <= 3 + Gnew lc * fsize (lc_cfg lc) + Cexp lc * Z.of_nat (nexp st).
Proof. exact loop_work_bounded_by_expiries. Qed.
Print Assumptions C16_work_bounded_by_expiries.

(* the RTO never reaches 0 (Timer would raise ValueError), also with delay 0 where every sample is 0 *)
Theorem C16_rto_lower_bound : forall lc cw ss rtt0 orc st,
  lc_ok2 lc -> (zq (mss (lc_cfg lc)) <= cw)%Q -> (0 < rtt0)%Q -> fsize (lc_cfg lc) <> 0 ->
  lreach lc (linit cw ss rtt0 orc) st ->
  (0 < rtt0 * geo (Z.to_nat (fsize (lc_cfg lc))) <= rto (l_snd st))%Q.
Proof. exact loop_rto_lower_bound. Qed.
Print Assumptions C16_rto_lower_bound.

(* the hypotheses are satisfiable and the bound is a number: 4 one-byte segments, delay 1, drops *)
Theorem C16_live_example :
  lc_ok2 lc_live /\ (zq (mss (lc_cfg lc_live)) <= 2 # 1)%Q /\ fsize (lc_cfg lc_live) <> 0 /\
  Bexp lc_live 1 = 360 /\ 3 + Gnew lc_live * 4 + Cexp lc_live * Bexp lc_live 1 = 40047 /\
  exists st, lrun (Z.to_nat 40048) lc_live (linit (2 # 1) (65535 # 1) 1 []) = LQuiescent st /\
             last_ack (l_snd st) = 4 /\ nse (l_sink st) = 4 /\ nexp st = 3%nat /\ l_n1 st = 7%nat.
Proof. exact live_example. Qed.
Print Assumptions C16_live_example.
