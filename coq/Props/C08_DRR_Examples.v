(* C08 (DRR part) -- NON-VACUITY of Props/C08_DRR.v.
   Witness (Elem/DRRExample.v, dex_cfg / dex_acts, an execution logged from the real scheduler): two classes with quanta 1500 and
   3000, flows 1 and 7 share class 1, a 2000-byte head that is parked for one round, a class that empties and refills.
     C08_ex_drr_run      covers C08_drr_conserves, C08_drr_flow_fifo, C08_drr_no_error (dwf, admissible execution; stopped after
                         22 actions: two packets forwarded, two held, a transmission about to start)
     C08_ex_drr_drained  covers C08_drr_drained (the complete execution: nothing urgent, no transmission pending)
   No theorem of Props/C08_DRR.v is unconditional.
   The conclusions are obtained by applying the theorem to the witness.  Statement files are compiled independently (and in
   parallel) by the pipeline, so one statement file cannot import another: [C08_x] below is a LOCAL abbreviation of the proof
   term that closes theorem C08_x in Props/C08_DRR.v (there: `Proof. exact <that term>. Qed.`), hence has the same statement.
   Helper facts are stated with `Fact` (they are not obligations); every `Theorem` is a witness and is followed by
   Print Assumptions. *)
From Coq Require Import ZArith QArith List Bool.
From ONL Require Import Elem.Packet Elem.StoreQ Elem.DRR Elem.DRRInv Elem.DRRProofs Elem.DRRLive Elem.DRRExample.
Import ListNotations.

Local Notation C08_drr_conserves := drr_conserves_l.
Local Notation C08_drr_flow_fifo := drr_flow_fifo_l.
Local Notation C08_drr_drained := drr_drained_l.
Local Notation C08_drr_no_error := drr_progress_l.

(* covers: C08_drr_conserves, C08_drr_flow_fifo, C08_drr_no_error *)
Theorem C08_ex_drr_run :
  exists d tr, dwf dex_cfg /\ drr_run dex_cfg (drr0 0) (firstn 22 dex_acts) = Some (d, tr) /\
    map uid (dputs tr) = [0; 1; 2; 3]%nat /\ map uid (dfwds tr) = [1; 2]%nat /\
    map uid (dheld dex_cfg d 0) = [0; 3]%nat /\ dheld dex_cfg d 1 = [] /\
    (forall c, dof_cls dex_cfg c (dputs tr) = dof_cls dex_cfg c (dfwds tr) ++ dheld dex_cfg d c) /\
    (forall f, dof_flow f (dputs tr) = dof_flow f (dfwds tr) ++ dof_flow f (dheld dex_cfg d (df2c dex_cfg f))) /\
    map uid (dof_cls dex_cfg 1 (dfwds tr)) = [1; 2]%nat /\ map uid (dof_flow 7 (dfwds tr)) = [2]%nat /\
    dlmax d = 2000%Z /\
    (exists r, drr_act dex_cfg d DChildInit = Some r).
Proof.
  destruct (drr_run dex_cfg (drr0 0) (firstn 22 dex_acts)) as [[d tr]|] eqn:E; [|vm_compute in E; discriminate].
  exists d, tr. split; [exact dex_wf|]. split; [reflexivity|].
  destruct (C08_drr_conserves _ _ _ _ _ dex_wf E) as (HC & _).
  pose proof (C08_drr_flow_fifo _ _ _ _ _ dex_wf E) as HF.
  destruct (C08_drr_no_error _ _ _ _ _ dex_wf E) as (_ & _ & _ & HN & _).
  vm_compute in E. injection E as <- <-.
  repeat (split; [reflexivity|]). split; [exact HC|]. split; [exact HF|].
  repeat (split; [reflexivity|]). eapply HN. vm_compute. reflexivity.
Qed.
Print Assumptions C08_ex_drr_run.

(* covers: C08_drr_drained *)
Theorem C08_ex_drr_drained :
  exists d tr, dwf dex_cfg /\ drr_run dex_cfg (drr0 0) dex_acts = Some (d, tr) /\
    durgent dex_cfg d = false /\ (forall p dl, dchd d <> DCTx p dl) /\
    map uid (dputs tr) = [0; 1; 2; 3; 4]%nat /\ map uid (dfwds tr) = [1; 2; 0; 3; 4]%nat /\
    forall c, dheld dex_cfg d c = [].
Proof.
  destruct (drr_run dex_cfg (drr0 0) dex_acts) as [[d tr]|] eqn:E; [|vm_compute in E; discriminate].
  exists d, tr. split; [exact dex_wf|]. split; [reflexivity|].
  pose proof (C08_drr_drained _ _ _ _ _ dex_wf E) as HD.
  vm_compute in E. injection E as <- <-.
  split; [vm_compute; reflexivity|]. split; [intros p dl; vm_compute; discriminate|].
  split; [reflexivity|]. split; [reflexivity|]. apply HD; [vm_compute; reflexivity|intros p dl; vm_compute; discriminate].
Qed.
Print Assumptions C08_ex_drr_drained.
